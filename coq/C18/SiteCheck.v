(* C18 — the vocabulary of the COMMITTED table of shared variables
   (C18/Vars.v) and the per-site check that Tie.v runs over the generated
   access sites.  No proofs. *)
From Coq Require Import String List Bool Arith.
From Verif Require Import C18.AccessTypes.
Import ListNotations.
Open Scope string_scope.

(* the declared discipline of a variable, in the translator's names:
   locks are "pkg.Type.field", goroutines are root names "go:<fn>[/ctx]" *)
Inductive vdisc :=
| DGuarded (m : string)                          (* writes under m.Lock, reads under m.Lock or m.RLock *)
| DOwnerWrites (owners : list string) (m : string)
                                                 (* only the owner goroutine writes, under m.Lock; it reads without a
                                                    lock; every other goroutine only reads, under m *)
| DOwned (owners : list string)                  (* accessed only from functions that only the owner goroutine runs;
                                                    several root names = several entry points of ONE goroutine kind
                                                    (a goroutine and the literals it is started through) *)
| DAtomic                                        (* sync/atomic accesses only *)
| DImmutable.                                    (* written only before publication *)

Record ventry := mkVar {
  v_name : string;
  v_disc : vdisc;
  v_init_fns : list string;    (* functions (a_fn) that run before the object is published, besides constructors:
                                  only their part before the first go statement counts *)
  v_ro_calls : list string;    (* methods of the variable's (external) type that only read it *)
  v_why : string               (* where the code says so *)
}.

(* a site that is exempt, with its reason *)
Record aentry := mkAllow {
  al_var : string;
  al_fn : string;
  al_ctx : string;
  al_kind : akind;
  al_why : string
}.

Definition find_var (tbl : list ventry) (v : string) : option ventry :=
  find (fun e => String.eqb (v_name e) v) tbl.

(* Local variables that a function shares with goroutines it starts
   (captured by a go / time.AfterFunc literal, or a map/slice handed to a go
   statement; translator names "local:<function>:<name>") have a DEFAULT
   discipline unless the table lists them: immutable once published, i.e.
   written only before the go statement that publishes this instance
   (a_fresh). *)
Definition lookup_var (tbl : list ventry) (v : string) : option ventry :=
  match find_var tbl v with
  | Some e => Some e
  | None => if String.prefix "local:" v
            then Some (mkVar v DImmutable [] [] "default for locals shared with goroutines")
            else None
  end.

(* the site may modify the variable *)
Definition site_writes (e : ventry) (a : asite) : bool :=
  match a_kind a with
  | KRead | KAtomicR => false
  | KCall m => negb (mem_str m (v_ro_calls e))
  | KWrite | KAtomicW | KAddr => true
  end.

Definition site_atomic (a : asite) : bool :=
  match a_kind a with KAtomicR | KAtomicW => true | _ => false end.

(* the site runs before the object is published: the object is a fresh
   local of the function, the function is a constructor, or it is a listed
   initialisation function and no go statement precedes the access *)
Definition site_init (e : ventry) (a : asite) : bool :=
  a_fresh a || a_ctor a || (mem_str (a_fn a) (v_init_fns e) && a_pre_go a).

(* every goroutine root that reaches the site's function is an owner root *)
Definition roots_within (a : asite) (owners : list string) : bool :=
  forallb (fun r => mem_str r owners) (a_roots a).

Definition site_steady (e : ventry) (a : asite) : bool :=
  match v_disc e with
  | DGuarded m => if site_writes e a then holds_w a m else holds_any a m
  | DOwnerWrites owners m =>
      if site_writes e a then roots_within a owners && holds_w a m
      else roots_within a owners || holds_any a m
  | DOwned owners => roots_within a owners
  | DAtomic => site_atomic a
  | DImmutable => negb (site_writes e a)
  end.

Definition site_ok (e : ventry) (a : asite) : bool := site_init e a || site_steady e a.

(* an exemption that holds only while NOTHING reaches the function (no
   goroutine root: no caller in the checkout): the moment a caller appears
   the site is checked like any other, with its callers' roots and locks *)
Definition no_roots (a : asite) : bool := match a_roots a with [] => true | _ => false end.

Definition allowed (al : list aentry) (a : asite) : bool :=
  existsb (fun x => String.eqb (al_var x) (a_var a) && String.eqb (al_fn x) (a_fn a)
                    && String.eqb (al_ctx x) (a_ctx a) && akind_eqb (al_kind x) (a_kind a)) al.

Definition allowed_unreached (al : list aentry) (a : asite) : bool := allowed al a && no_roots a.
