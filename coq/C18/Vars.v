(* C18 — the COMMITTED table of the client's shared variables with the
   synchronisation discipline each one is under, the list of struct fields /
   package variables that are deliberately outside the table (with the
   reason), the sites exempt from the per-site check (with the reason), and
   the sites of OPEN findings.  C18/Tie.v checks all of it against the access
   sites the translator (harness/cmd/genaccess) finds in the source on every
   run.  Names are the translator's: variables and locks "pkg.Type.field",
   goroutines "go:<file>:<function>[/go<n>]".                              *)
From Coq Require Import String List ZArith.
From Verif Require Import C18.AccessTypes C18.SiteCheck.
Import ListNotations.
Open Scope string_scope.

(* the goroutines that own state *)
Definition BH := "go:blockmanager.go:blockManager.blockHandler".
Definition CF := "go:blockmanager.go:blockManager.Start/go1".            (* runs cfHandler *)
Definition PH := "go:neutrino.go:ChainService.peerHandler".
Definition WD := "go:query/workmanager.go:peerWorkManager.workDispatcher".
Definition SH := "go:blockntfns/manager.go:SubscriptionManager.subscriptionHandler".
Definition BMgr := "go:utxoscanner.go:UtxoScanner.batchManager".
Definition RS := "go:rescan.go:Rescan.Start/go1".                        (* runs rescanState.rescan *)
Definition CQ := "go:chanutils/queue.go:ConcurrentQueue.start/go1".

Definition reset := "blockmanager.go:blockManager.ResetHeaderState".     (* runs in ChainService.Start before blockManager.Start *)

Definition guarded (v m why : string) := mkVar v (DGuarded m) [] [] why.
Definition owned (v : string) (o : list string) (why : string) := mkVar v (DOwned o) [] [] why.
Definition atomic (v why : string) := mkVar v DAtomic [] [] why.

Definition vars : list ventry := [
  (* ---- blockmanager.go: the shared chain tips (property anchors) ---- *)
  mkVar "neutrino.blockManager.headerTip" (DGuarded "neutrino.blockManager.newHeadersMtx") [reset] []
        "blockmanager.go: newHeadersMtx 'should be held when reading/writing headerTip'";
  mkVar "neutrino.blockManager.headerTipHash" (DGuarded "neutrino.blockManager.newHeadersMtx") [reset] []
        "same";
  mkVar "neutrino.blockManager.filterHeaderTip" (DGuarded "neutrino.blockManager.newFilterHeadersMtx") [reset] []
        "blockmanager.go: newFilterHeadersMtx 'should be held when reading/writing filterHeaderTip'; two writers (cfHandler: writeCFHeadersMsg, blockHandler: rollBackToHeight)";
  mkVar "neutrino.blockManager.filterHeaderTipHash" (DGuarded "neutrino.blockManager.newFilterHeadersMtx") [reset] []
        "same";
  mkVar "neutrino.blockManager.syncPeer" (DOwnerWrites [BH] "neutrino.blockManager.syncPeerMutex") [] []
        "syncPeerMutex 'protects the syncPeer pointer at all times': only the block handler assigns it (under Lock) and reads it without; everyone else goes through SyncPeer/BlockHeadersSynced under the lock";
  owned "neutrino.blockManager.lastRequested" [BH] "block handler only (handleInvMsg)";
  mkVar "neutrino.blockManager.nextCheckpoint" (DOwned [BH]) [reset] [] "block handler only (startSync, handleHeadersMsg)";
  owned "neutrino.blockManager.startHeader" [BH] "block handler only (handleHeadersMsg)";
  atomic "neutrino.blockManager.started" "atomic.AddInt32 in Start";
  atomic "neutrino.blockManager.shutdown" "atomic.AddInt32 / LoadInt32";
  mkVar "neutrino.blockManager.genesisHeader" DImmutable [] [] "set in newBlockManager only";
  mkVar "neutrino.blockManagerCfg.ChainParams" DImmutable [] [] "configuration, set before newBlockManager";
  mkVar "neutrino.zeroHash" DImmutable [] [] "package-level zero value, never assigned";
  (* the in-memory header window of the block handler *)
  mkVar "headerlist.BoundedMemoryChain.chain" (DOwned [BH]) [reset] [] "b.headerList / b.reorgList: block handler only";
  mkVar "headerlist.BoundedMemoryChain.headPtr" (DOwned [BH]) [reset] [] "same";
  mkVar "headerlist.BoundedMemoryChain.tailPtr" (DOwned [BH]) [reset] [] "same";
  mkVar "headerlist.BoundedMemoryChain.len" (DOwned [BH]) [reset] [] "same";
  mkVar "headerlist.Node.Header" (DOwned [BH]) [reset] ["BlockHash"] "nodes of the block handler's header window";
  mkVar "headerlist.Node.ancestor" (DOwned [BH]) [reset] [] "same";
  mkVar "headerlist.Node.prev" (DOwned [BH]) [reset] [] "same";
  guarded "neutrino.headerProgressLogger.lastBlockLogTime" "neutrino.headerProgressLogger.Mutex" "embedded sync.Mutex, LogBlockHeight";
  guarded "neutrino.headerProgressLogger.receivedLogBlocks" "neutrino.headerProgressLogger.Mutex" "same";

  (* ---- neutrino.go: the service and its peers ---- *)
  atomic "neutrino.ChainService.bytesReceived" "'must only be used atomically'";
  atomic "neutrino.ChainService.bytesSent" "same";
  atomic "neutrino.ChainService.started" "same";
  atomic "neutrino.ChainService.shutdown" "same";
  owned "neutrino.ChainService.firstPeerConnect" [PH] "closed and set to nil by the peer handler (handleAddPeerMsg)";
  owned "neutrino.ChainService.peerSubscribers" [PH] "peer handler only (handleAddPeerMsg, handleQuery)";
  mkVar "neutrino.ChainService.chainParams" DImmutable [] [] "set in NewChainService only";
  owned "neutrino.peerState.outboundGroups" [PH] "peerState is a local of peerHandler, passed to its handle* functions";
  owned "neutrino.peerState.outboundPeers" [PH] "same";
  owned "neutrino.peerState.persistentPeers" [PH] "same";
  atomic "neutrino.ServerPeer.feeFilter" "'must only be used atomically'";
  guarded "neutrino.ServerPeer.recvSubscribers" "neutrino.ServerPeer.mtxSubscribers" "property anchor: 'The mutex is for subscribe/unsubscribe functionality'";
  guarded "neutrino.ServerPeer.recvSubscribers2" "neutrino.ServerPeer.mtxSubscribers" "same";

  (* ---- utxoscanner.go, batch_spend_reporter.go ---- *)
  guarded "neutrino.UtxoScanner.pq" "neutrino.UtxoScanner.mu" "mu/cv: Enqueue, batchManager, dequeueAtHeight, Stop";
  guarded "neutrino.UtxoScanner.nextBatch" "neutrino.UtxoScanner.mu" "same";
  atomic "neutrino.UtxoScanner.started" "CompareAndSwapUint32 / LoadUint32";
  atomic "neutrino.UtxoScanner.stopped" "CompareAndSwapUint32";
  guarded "neutrino.GetUtxoRequest.result" "neutrino.GetUtxoRequest.mu" "Result() caches under r.mu";
  owned "neutrino.batchSpendReporter.filterEntries" [BMgr] "created and used by the batch manager's scan only";
  owned "neutrino.batchSpendReporter.initialTxns" [BMgr] "same";
  owned "neutrino.batchSpendReporter.outpoints" [BMgr] "same";
  owned "neutrino.batchSpendReporter.requests" [BMgr] "same";

  (* ---- rescan.go ---- *)
  atomic "neutrino.Rescan.started" "CompareAndSwapUint32";
  guarded "neutrino.Rescan.err" "neutrino.Rescan.errMtx" "errMtx";
  owned "neutrino.rescanState.curHeader" [RS] "state of the one rescan goroutine";
  owned "neutrino.rescanState.curStamp" [RS] "same";
  owned "neutrino.rescanState.scanning" [RS] "same";
  owned "neutrino.blockRetryQueue.blocks" [RS] "same";
  (* memory BEHIND pointer fields ("S.f->g": field g of what S.f points to) that is written in place *)
  owned "neutrino.rescanOptions.endBlock->Hash" [RS]
        "the caller-supplied *BlockStamp of the EndBlock option: newRescanState resolves it IN PLACE in the rescan goroutine, which is then the only one to look at it";
  owned "neutrino.rescanOptions.endBlock->Height" [RS] "same";

  (* ---- blockntfns/manager.go ---- *)
  atomic "blockntfns.SubscriptionManager.started" "atomic.AddInt32";
  atomic "blockntfns.SubscriptionManager.stopped" "atomic.AddInt32";
  atomic "blockntfns.SubscriptionManager.subscriberCounter" "atomic.AddUint64";
  owned "blockntfns.SubscriptionManager.subscribers" [SH] "subscription handler only (handleNewSubscription, handleCancelSubscription, notifySubscribers)";

  (* ---- query/workmanager.go ---- *)
  owned "query.activeWorker.activeJob" [WD] "workers map is a local of workDispatcher";
  owned "query.peerRanking.rank" [WD] "cfg.Ranking is only used by workDispatcher";
  owned "query.workQueue.tasks" [WD] "work heap is a local of workDispatcher";
  owned "query.batchProgress.progressGen" [WD] "per-batch bookkeeping (function-local type of workDispatcher): never leaves the dispatcher; the idle-timer callback gets the generation by value";
  owned "query.batchProgress.progressTimer" [WD] "same; armed / stopped by the dispatcher only";
  owned "query.batchProgress.rem" [WD] "same";
  owned "query.jobResult.job->timeout" [WD] "the job record behind a worker's result: retried jobs are updated by the dispatcher only, between two loans to a worker";
  owned "query.jobResult.job->tries" [WD] "same";

  (* ---- chanutils/queue.go ---- *)
  mkVar "chanutils.ConcurrentQueue.overflow" (DOwned [CQ]) [] [] "overflow list of the queue's one goroutine";

  (* ---- cache/lru/lru.go (module /repo/cache) ---- *)
  mkVar "lru.Cache.ll" (DGuarded "lru.Cache.mtx") [] ["Len"; "Back"; "Front"] "the recency list (private copy of container/list); every method takes c.mtx";
  guarded "lru.Cache.size" "lru.Cache.mtx" "same";
  mkVar "lru.Cache.onDelete" DImmutable [] ["WhenSome"] "set by the WithDeleteCallback option inside NewCache";

  (* ---- headerfs/store.go ---- *)
  guarded "headerfs.headerFile.file" "headerfs.headerStore.mtx" "property anchor: headerStore.mtx guards the flat file (reassigned by truncateHeaders on Windows)"
].

(* Struct fields / package variables with assignments outside constructors
   that are NOT in the table, each with the reason.  An entry ending in "."
   covers all fields of the type. *)
Definition outside_table : list (string * string) := [
  ("neutrino.log", "package logger: assigned by UseLogger, which the embedding application calls before it constructs a ChainService (btclog convention); a concurrent UseLogger is not a use of the client's interface");
  ("blockntfns.log", "same"); ("chainimport.log", "same"); ("chanutils.log", "same"); ("filterdb.log", "same");
  ("pushtx.log", "same"); ("query.log", "same");
  ("neutrino.queryOptions.", "functional-option record: built by defaultQueryOptions and the option closures in the calling goroutine, then only read");
  ("query.queryOptions.", "same (query package)");
  ("neutrino.rescanOptions.", "functional-option record of one Rescan; after Start only the rescan goroutine touches it (updates arrive over a channel)");
  ("neutrino.updateOptions.", "functional-option record built by Rescan.Update in the calling goroutine and sent to the rescan goroutine over a channel (ownership transfer by channel: not modelled)");
  ("headerfs.BlockStamp.", "value record (hash, height, time) copied between goroutines, never shared by reference while being modified");
  ("headerfs.FilterHeader.", "value record"); ("headerfs.BlockHeader.", "value record");
  ("filterdb.FilterData.", "value record handed to the batch writer over a channel");
  ("chainimport.", "headers import: runs to completion inside ChainService.Start before any goroutine of the client is started");
  ("neutrino.cfiltersQuery.", "per-call query object: handed from GetCFilter to one query worker at a time through the work manager's channels, read back after the error channel reports completion (ownership transfer by channel: not modelled; exercised under the race detector by the c05 harness)");
  ("query.queryJob.", "job record: owned by the work dispatcher, lent to one worker at a time over channels (not modelled; exercised by the c12 harness)");
  ("neutrino.lightHeaderCtx.", "value object created per header check by the block handler");
  (* what is reached through pointer fields ("S.f->": everything behind S.f) *)
  ("chainimport.fileHeaderImportSource.metadata->", "headers import: inside ChainService.Start before any goroutine of the client is started");
  ("headerfs.BlockHeader.BlockHeader->", "embedded *wire.BlockHeader of a value record: read-only methods (IsEqual, Unix)");
  ("neutrino.ServerPeer.server->", "the ChainService behind a peer's back pointer: its fields are variables in their own right (chainParams immutable, addrManager is btcd's internally synchronised AddrManager)");
  ("neutrino.blockManager.cfg->", "configuration record, set before newBlockManager (ChainParams is in the table as neutrino.blockManagerCfg.ChainParams)");
  ("neutrino.checkpointedCFHeadersQuery.blockMgr->", "the block manager behind a query's back pointer: its fields are variables in their own right (genesisHeader immutable)");
  ("neutrino.blockManager.syncPeer->", "methods of btcd's *peer.Peer (internally synchronised) reached through a ServerPeer pointer");
  ("neutrino.headersMsg.peer->", "same"); ("neutrino.invMsg.peer->", "same"); ("neutrino.spMsg.sp->", "same")
].

(* Sites exempt from the check, each with its reason. *)
Definition allow : list aentry := [
  mkAllow "blockntfns.SubscriptionManager.subscribers" "blockntfns/manager.go:SubscriptionManager.Stop" "" KRead
          "after m.wg.Wait(): the subscription handler (owner) has exited; WaitGroup Done -> Wait orders it (an HB edge of the model that no discipline rule uses)";
  mkAllow "neutrino.ServerPeer.recvSubscribers2" "neutrino.go:ServerPeer.OnRead" "" KWrite
          "delete under RLock: OnRead is only called by the peer's single reader (btcd inHandler, before it by the handshake goroutine that starts it), every other accessor takes the write side, so the read side has one holder; fragile but not a race";
  mkAllow "lru.Cache.onDelete" "cache/lru/lru.go:WithDeleteCallback" "func1" KWrite
          "option closure applied by NewCache to the cache under construction";
  mkAllow "neutrino.blockManager.genesisHeader" "blockmanager.go:checkpointedCFHeadersQuery.handleResponse" "" KAddr
          "address taken to read the immutable genesis filter header";
  mkAllow "neutrino.blockManagerCfg.ChainParams" "blockmanager.go:blockManager.checkHeaderSanity" "" KAddr
          "&b.cfg.ChainParams passed to btcd's header checks, which read it";
  mkAllow "neutrino.ChainService.chainParams" "neutrino.go:ChainService.peerHandler" "" KAddr
          "&s.chainParams passed to connmgr.SeedFromDNS, which reads it";
  mkAllow "neutrino.ChainService.chainParams" "neutrino.go:NewPeerConfig" "" KAddr
          "&sp.server.chainParams stored in the peer.Config, read by btcd";
  mkAllow "neutrino.zeroHash" "blockmanager.go:blockManager.handleNewPeerMsg" "" KAddr "&zeroHash passed as stop hash (read)";
  mkAllow "neutrino.zeroHash" "blockmanager.go:blockManager.startSync" "" KAddr "same";
  mkAllow "local:neutrino.go:NewChainService:s" "neutrino.go:NewChainService" "" KAddr
          "return &s after the goroutines that connect to the configured peers were started: the address is returned, nothing is written"
].

(* Sites exempt ONLY while no goroutine root reaches their function (dead
   code / test helpers): allowed_unreached.  The claim "no caller" is checked
   twice: the exemption lapses by itself when a caller appears (the site then
   carries its callers' roots and locks), and caller_claims below pins the
   exact list of uses the translator finds. *)
Definition allow_unreached : list aentry := [
  mkAllow "neutrino.headerProgressLogger.lastBlockLogTime" "headerlogger.go:headerProgressLogger.SetLastLogTime" "" KWrite
          "unlocked setter without a caller in the checkout (test helper)"
].

(* Who uses a function, where an exemption leans on it: must equal the
   translator's callers_of list (uses = static calls, interface calls, go
   statements, references as a value, hand-written extra edges). *)
Definition caller_claims : list (string * list string) := [
  ("headerlogger.go:headerProgressLogger.SetLastLogTime", []);
  ("neutrino.go:ServerPeer.OnRead", ["ref:neutrino.go:NewPeerConfig"])
].

(* Sites of OPEN findings (known_findings/C18.json): excluded from
   Tie_sites_comply, reported by the check as KNOWN-FINDING with the tag. *)
Definition open_sites : list (Z * aentry) := [].
