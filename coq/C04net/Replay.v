(* C04 (end-to-end half) — monitor for netsim scenarios: one honest peer plus
   0-3 misbehaving peers, honest chain growing and reorganising.  Monitor
   only: netsim is a wall-clock system, compared through schedule-insensitive
   observables (safety at every sample, convergence at the deadline).

   Hashes are tokens interned by the harness (0 = none).  [n_valid] lists,
   for every height that occurs in a sample, the (height, block hash, filter
   header) of every VALID chain of the scenario at that height (every version
   of the honest chain and every valid lighter fork served by a peer). *)
From Coq Require Import ZArith List Bool.
Import ListNotations.
Open Scope Z_scope.

Record ncase := mkNCase {
  n_chain_len : Z;
  (* the honest chain keeps growing (a block every few seconds) after the
     scenario's structured events *)
  n_growing : bool;
  (* per misbehaving node: filter-lie flags (1 in checkpoints, 2 in cfheaders,
     4 in the filter itself, 8 the lie is about a coinbase-only block;
     0 = no filter lie) and the lie's height *)
  n_filter_lies : list (Z * Z);
  (* samples: height (-1 = BestBlock failed), block hash, filter header at
     that height, whether that filter header could be read *)
  n_samples : list (Z * Z * Z * bool);
  n_valid : list (Z * Z * Z);
  n_converged : bool;
  (* some misbehaving node never answers getheaders *)
  n_silent_hdr : bool;
  (* block-header tip height at the last sample *)
  n_final_hdr_tip : Z;
  (* the honest node is reported banned at the last sample *)
  n_honest_banned : bool;
  (* tip height of the honest chain at the end *)
  n_final_honest_tip : Z;
  (* a node that never answers getheaders is still connected at the last sample *)
  n_silent_connected : bool;
  (* some node serves a valid lighter fork *)
  n_lighter_fork : bool
}.

Definition cp_interval := 1000.

Definition bit (m b : Z) : bool := Z.odd (m / b).

(* F15 "checkpoint-only liar": a peer lies in its checkpoint list but serves
   honest cfheaders; resolveConflict never bans it and filter-header sync
   retries forever.  The lie is visible once a checkpoint at or above the lie
   height exists. *)
Definition has_f15 (c : ncase) : bool :=
  existsb (fun fl => let '(flags, h) := fl in
                     bit flags 1 && negb (bit flags 2) && (1 <=? h)
                     && (((h + cp_interval - 1) / cp_interval) * cp_interval <=? n_chain_len c))
          (n_filter_lies c).

(* A self-consistent filter liar (checkpoints, cfheaders and filter agree)
   about a coinbase-only block: VerifyBasicBlockFilter used to skip the
   coinbase transaction altogether, so the block did not refute the lie and
   the client fell back to a majority vote among its peers, which stalls with
   one honest peer and one liar (tag 23 = root cause F30 of C03, repaired in
   verification.go: such scenarios now have to converge, a failure is
   reported with this tag). *)
Definition has_unprovable_liar (c : ncase) : bool :=
  existsb (fun fl => let '(flags, _) := fl in bit flags 2 && bit flags 4 && bit flags 8) (n_filter_lies c).

(* F-C04-2 "silent peer that announces": a peer that never answers getheaders
   but keeps announcing blocks is never dropped: every announcement makes
   the client send it another getheaders, which moves btcd's stall deadline
   for the headers answer (90 s) forward again, and neutrino has no stall
   detection of its own.  As the sync peer it keeps header sync from even
   starting; as the first announcer of a block it swallows the only
   getheaders the client sends for that block (lastRequested), so the client
   stops following the honest chain - although the honest peer is connected
   all the time.  Visible when the honest chain keeps growing: the block
   header tip stays below the honest tip and the silent peer is still
   connected at the end. *)
Definition has_silent_sync (c : ncase) : bool :=
  n_silent_hdr c && n_silent_connected c && n_growing c && (n_final_hdr_tip c <? n_final_honest_tip c).

(* some node lies in the cfheaders it serves *)
Definition has_cfheaders_liar (c : ncase) : bool :=
  existsb (fun fl => let '(flags, _) := fl in bit flags 2) (n_filter_lies c).

Definition sample_safe (valid : list (Z * Z * Z)) (s : Z * Z * Z * bool) : bool :=
  let '(h, hash, fhdr, rd) := s in
  (0 <=? h)
  && existsb (fun v => let '(vh, vhash, _) := v in (vh =? h) && (vhash =? hash)) valid
  && (negb rd || existsb (fun v => let '(vh, _, vf) := v in (vh =? h) && (vf =? fhdr)) valid).

(* the block reported is on a valid chain; only the filter header is wrong *)
Definition block_safe (valid : list (Z * Z * Z)) (s : Z * Z * Z * bool) : bool :=
  let '(h, hash, _, _) := s in
  (0 <=? h) && existsb (fun v => let '(vh, vhash, _) := v in (vh =? h) && (vhash =? hash)) valid.

Fixpoint first_unsafe (valid : list (Z * Z * Z)) (i : Z) (l : list (Z * Z * Z * bool)) : option Z :=
  match l with
  | [] => None
  | s :: rest => if sample_safe valid s then first_unsafe valid (i + 1) rest else Some i
  end.

(* the monitor *)
Definition safe (c : ncase) : bool :=
  match first_unsafe (n_valid c) 0 (n_samples c) with None => true | Some _ => false end.

Definition holds (c : ncase) : bool := safe c && n_converged c.

(* rows (case id, kind 2, step, tag): step = index of the first unsafe sample,
   or the number of samples when only convergence failed.
   Unsafe sample: tag 25 (F-C04-3) when the reported block IS on a valid chain
   and only its filter header is false, a node lies in its cfheaders, and the
   honest node ended up banned: a filter-header round that was answered by
   lying peers only (the honest peer not yet usable or late) commits their
   value; from then on the honest peer names another previous filter header
   than the stored tip and is banned for it.  Any other unsafe sample: tag 0.
   Only convergence failed: tag 15 when the scenario contains the root cause
   F15, 23 for F30 (both repaired: reported as violations again), 24 for the
   silent sync peer, 22 when a node serves a lighter fork and the honest
   chain does not grow after the scenario's events (the client asks a non-sync peer for headers only when
   that peer announces a block: without a further announcement it can stay
   on a lighter valid chain it finished syncing from another peer). *)
Definition verdict (ic : Z * ncase) : list (Z * Z * Z * Z) :=
  let '(id, c) := ic in
  match first_unsafe (n_valid c) 0 (n_samples c) with
  | Some i =>
      let fonly := match nth_error (n_samples c) (Z.to_nat i) with
                   | Some s => block_safe (n_valid c) s
                   | None => false
                   end in
      [(id, 2, i, if fonly && has_cfheaders_liar c && n_honest_banned c then 25 else 0)]
  | None => if n_converged c then []
            else [(id, 2, Z.of_nat (length (n_samples c)),
                   if has_f15 c then 15 else if has_unprovable_liar c then 23
                   else if has_silent_sync c then 24
                   else if n_lighter_fork c && negb (n_growing c) then 22 else 0)]
  end.

Definition run_cases (cs : list (Z * ncase)) : list (Z * Z * Z * Z) := flat_map verdict cs.
