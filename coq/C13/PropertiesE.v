(* C13 (enforcement half) — a ban racing the registration of a new connection
   to the same address: the property theorems, and nothing else. *)
From Coq Require Import ZArith List Bool.
From Verif Require Import C13.Enforce C13.EnforceProofs.
Import ListNotations.

(* With the ban lookup and the registration of a new peer running as one
   step with respect to the peer-table query of BanPeer (both on the
   peerHandler goroutine: the code that exists), EVERY interleaving of
   lookup-start, lookup-end, register with ban-store, ban-lookup-peers,
   disconnect that runs both activities to their end leaves the address
   banned and its connection closed. *)
Theorem C13_ban_vs_registration_all_interleavings : forall sch,
  finished (erun true e_init sch) = true -> enforced (erun true e_init sch) = true.
Proof. exact all_interleavings. Qed.
Print Assumptions C13_ban_vs_registration_all_interleavings.

(* Every run can be continued to its end: in any unfinished state some
   activity can move (the ban's wait for the peerHandler cannot last, the
   registration it waits for is never blocked), and every move strictly
   decreases a measure bounded by 7. *)
Theorem C13_ban_vs_registration_completes : forall atomic s,
  (finished s = false -> exists t, estep atomic s t <> None) /\
  (forall t s', estep atomic s t = Some s' -> emeasure s' < emeasure s) /\
  emeasure e_init = 7.
Proof.
  intros atomic s. split; [apply no_deadlock|]. split; [|reflexivity].
  intros t s'. apply step_decreases.
Qed.
Print Assumptions C13_ban_vs_registration_completes.

(* Without that atomicity (the ban looked up before the registration is
   handed to the peerHandler) there is an interleaving after which the address
   is banned and the connection is kept, registered: lookup (not banned), ban
   stored, peer table searched (nothing there), peer registered. *)
Theorem C13_ban_vs_registration_refuted_without_atomicity : exists sch,
  let s := erun false e_init sch in
  finished s = true /\ e_banned s = true /\ e_conn s = true /\ e_table s = true.
Proof. exists [TReg; TReg; TBan; TBan; TReg; TBan]. vm_compute. repeat split. Qed.
Print Assumptions C13_ban_vs_registration_refuted_without_atomicity.

(* Non-vacuity: the same schedule under atomicity finishes (the ban's query
   waits once and is answered after the registration), and so do the orders
   "ban first" and "registration first"; all end enforced. *)
Example C13_ban_vs_registration_nonvacuous :
  let held := [TReg; TReg; TBan; TBan; TReg; TBan; TBan] in
  let ban_first := [TBan; TBan; TBan; TReg; TReg; TReg] in
  let reg_first := [TReg; TReg; TReg; TBan; TBan; TBan] in
  finished (erun true e_init held) = true /\ ban_waited true e_init held = true /\
  finished (erun true e_init ban_first) = true /\ ban_waited true e_init ban_first = false /\
  e_table (erun true e_init ban_first) = false /\
  finished (erun true e_init reg_first) = true /\ e_table (erun true e_init reg_first) = true /\
  enforced (erun true e_init held) = true.
Proof. vm_compute. repeat split. Qed.
