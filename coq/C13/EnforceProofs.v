From Coq Require Import ZArith List Bool.
From Verif Require Import C13.Enforce.
Import ListNotations.

(* invariant of the atomic variant *)
Definition einv (s : est) : bool :=
  (* the record exists from ban-store on *)
  Bool.eqb (e_banned s) (match e_b s with B0 => false | _ => true end) &&
  (* a lookup that saw the ban saw a ban that is there *)
  (match e_r s with RL true => e_banned s | _ => true end) &&
  (* only a completed registration puts the peer into the table *)
  (if e_table s then match e_r s with RD => true | _ => false end else true) &&
  (* a completed registration registered the peer or closed the connection *)
  (match e_r s with RD => e_table s || negb (e_conn s) | _ => true end) &&
  (* the ban found the peer only if it was registered *)
  (match e_b s with B2 true => e_table s | _ => true end) &&
  (* a ban that did not find (or has dealt with) the peer: the connection is
     closed, or its registration has yet to look the ban up, or has seen it *)
  (match e_b s with
   | B2 false | BD =>
     negb (e_conn s) || match e_r s with R0 | RS | RL true => true | _ => false end
   | _ => true
   end).

Lemma einv_init : einv e_init = true.
Proof. reflexivity. Qed.

Lemma einv_step s t : einv s = true -> einv (esched true s t) = true.
Proof.
  destruct s as [r b bn tb cn]; destruct t;
    destruct r as [| |[|]|]; destruct b as [| |[|]|]; destruct bn, tb, cn;
    cbv; intros H; try reflexivity; try discriminate H.
Qed.

Lemma einv_run sch : forall s, einv s = true -> einv (erun true s sch) = true.
Proof.
  induction sch as [|t sch IH]; intros s H; [exact H|].
  cbn [erun fold_left]. apply IH. now apply einv_step.
Qed.

Lemma einv_finished s : einv s = true -> finished s = true -> enforced s = true.
Proof.
  destruct s as [r b bn tb cn];
    destruct r as [| |[|]|]; destruct b as [| |[|]|]; destruct bn, tb, cn;
    cbv; intros H F; try reflexivity; try discriminate H; try discriminate F.
Qed.

Lemma all_interleavings sch :
  finished (erun true e_init sch) = true -> enforced (erun true e_init sch) = true.
Proof. intros F. apply einv_finished; [apply einv_run, einv_init|exact F]. Qed.

(* someone can always move until both are done: the wait of the ban for the
   peerHandler ends, because the registration it waits for can always move *)
Lemma no_deadlock atomic s : finished s = false ->
  exists t, estep atomic s t <> None.
Proof.
  destruct s as [r b bn tb cn]. destruct r as [| |[|]|].
  1-4: intros _; exists TReg; cbn; discriminate.
  destruct b as [| |[|]|]; cbn; intros F; try discriminate F;
    exists TBan; cbn; try discriminate.
  rewrite andb_false_r. discriminate.
Qed.

(* every step moves a program counter forward: 7 moves finish every run *)
Definition emeasure (s : est) : nat :=
  (match e_r s with R0 => 3 | RS => 2 | RL _ => 1 | RD => 0 end) +
  (match e_b s with B0 => 4 | B1 => 3 | B2 _ => 1 | BD => 0 end).

Lemma step_decreases atomic s t s' : estep atomic s t = Some s' -> emeasure s' < emeasure s.
Proof.
  destruct s as [r b bn tb cn]; destruct t; cbn.
  - destruct r as [| |[|]|]; intros [= <-]; cbn; auto with arith.
  - destruct b as [| |[|]|]; try (intros [= <-]; cbn; auto with arith; fail);
      try discriminate.
    destruct (atomic && _); [discriminate|]. intros [= <-]. cbn.
    destruct r as [| |[|]|]; cbn; auto with arith.
Qed.
