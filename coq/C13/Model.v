(* C13 — ban store: executable model of banman (codec.go, util.go, store.go).
   No proofs here: the model must still run when a proof is broken.
   Bytes are Z in [0,255]; a nil net.IP / net.IPMask is the empty list.
   Textual parsing (net.SplitHostPort, net.ParseIP) is NOT modelled: the
   model starts from ParseIP's result (16 bytes, or [] for a parse failure). *)
From Coq Require Import ZArith List Bool.
Import ListNotations.
Open Scope Z_scope.

Definition bytes := list Z.

Fixpoint bytes_eqb (a b : bytes) : bool :=
  match a, b with
  | [], [] => true
  | x :: a', y :: b' => (x =? y) && bytes_eqb a' b'
  | _, _ => false
  end.

Definition len (b : bytes) : Z := Z.of_nat (length b).

Definition v4prefix : bytes := [0;0;0;0;0;0;0;0;0;0;255;255].

(* net.IP.To4 / To16; None = nil *)
Definition to4 (ip : bytes) : option bytes :=
  if len ip =? 4 then Some ip
  else if (len ip =? 16) && bytes_eqb (firstn 12 ip) v4prefix then Some (skipn 12 ip)
  else None.
Definition to16 (ip : bytes) : option bytes :=
  if len ip =? 4 then Some (v4prefix ++ ip)
  else if len ip =? 16 then Some ip
  else None.

Definition all_ff (b : bytes) : bool := forallb (Z.eqb 255) b.

Fixpoint and_bytes (a b : bytes) : bytes :=
  match a, b with
  | x :: a', y :: b' => Z.land x y :: and_bytes a' b'
  | _, _ => []
  end.

(* net.IP.Mask; [] = nil *)
Definition ip_mask (ip mask : bytes) : bytes :=
  let mask := if (len mask =? 16) && (len ip =? 4) && all_ff (firstn 12 mask)
              then skipn 12 mask else mask in
  let ip := if (len mask =? 4) && (len ip =? 16) && bytes_eqb (firstn 12 ip) v4prefix
            then skipn 12 ip else ip in
  if len ip =? len mask then and_bytes ip mask else [].

Record ipnet := { ip : bytes; mask : bytes }.

Definition default_v4_mask : bytes := [255;255;255;255].
Definition default_v6_mask : bytes := repeat 255 16.

(* banman.ParseIPNet after SplitHostPort/ParseIP: [parsed] is ParseIP's
   result, [m] the optional mask argument (None = nil). *)
Definition parse_ipnet (parsed : bytes) (m : option bytes) : option ipnet :=
  match to4 parsed with
  | Some _ =>
      let m' := match m with Some x => x | None => default_v4_mask end in
      Some {| ip := ip_mask parsed m'; mask := m' |}
  | None =>
    match to16 parsed with
    | Some _ =>
      let m' := match m with Some x => x | None => default_v6_mask end in
      Some {| ip := ip_mask parsed m'; mask := m' |}
    | None => None
    end
  end.

(* codec.go encodeIPNet; None = ErrUnsupportedIP *)
Definition encode (n : ipnet) : option bytes :=
  match to4 (ip n) with
  | Some a => Some (0 :: a ++ mask n)
  | None =>
    match to16 (ip n) with
    | Some a => Some (1 :: a ++ mask n)
    | None => None
    end
  end.

(* codec.go decodeIPNet on a complete buffer (type, ip, mask and nothing
   missing); short buffers are outside the model (io.Reader semantics). *)
Definition decode (b : bytes) : option ipnet :=
  match b with
  | t :: rest =>
    let l := if t =? 0 then Some 4%nat else if t =? 1 then Some 16%nat else None in
    match l with
    | Some l =>
      if (length rest =? l + l)%nat
      then Some {| ip := firstn l rest; mask := skipn l rest |}
      else None
    | None => None
    end
  | [] => None
  end.

(* ------------------------------------------------------------------ *)
(* store.go: ban-index and reason-index, keyed by the encoded net.     *)

Record rec := { expiry : Z; reason : Z }.    (* expiry in whole seconds *)
Definition store := list (bytes * rec).

Definition s_get (s : store) (k : bytes) : option rec :=
  option_map snd (find (fun p => bytes_eqb (fst p) k) s).
Definition s_del (s : store) (k : bytes) : store :=
  filter (fun p => negb (bytes_eqb (fst p) k)) s.
Definition s_put (s : store) (k : bytes) (r : rec) : store := (k, r) :: s_del s k.

Definition ns : Z := 1000000000.

Inductive op :=
| Ban (n : ipnet) (reason : Z) (now dur : Z)   (* times in ns *)
| Unban (n : ipnet)
| Status (n : ipnet) (now : Z)
| Reopen.

Inductive obs :=
| OErr
| OOk
| OStatus (banned : bool) (reason : Z) (expiry_s : Z).

Definition step (s : store) (o : op) : store * obs :=
  match o with
  | Ban n r now dur =>
    match encode n with
    | Some k => (s_put s k {| expiry := (now + dur) / ns; reason := r mod 256 |}, OOk)
    | None => (s, OErr)
    end
  | Unban n =>
    match encode n with
    | Some k => (s_del s k, OOk)
    | None => (s, OErr)
    end
  | Status n now =>
    match encode n with
    | Some k =>
      match s_get s k with
      | Some r =>
        if now <? expiry r * ns
        then (s, OStatus true (reason r) (expiry r))
        else (s_del s k, OStatus false 0 0)
      | None => (s, OStatus false 0 0)
      end
    | None => (s, OErr)
    end
  | Reopen => (s, OOk)     (* the database is durable (bbolt, trusted) *)
  end.

Fixpoint run (s : store) (ops : list op) : store * list obs :=
  match ops with
  | [] => (s, [])
  | o :: rest =>
    let '(s1, ob) := step s o in
    let '(s2, obs) := run s1 rest in (s2, ob :: obs)
  end.

(* ------------------------------------------------------------------ *)
(* neutrino.go: the public entries ChainService.BanPeer / UnbanPeer /
   IsBanned.  Each parses the caller's address string (ParseIPNet addr nil)
   and goes straight to the ban store: the layer has no state of its own.
   [parsed] is net.ParseIP's result for the host part of the address ([] if
   the host is not an IP literal: host names, .onion).  IsBanned fails open
   (answers false) when the address does not parse or the store errs; the
   disconnect BanPeer also performs and the connection UnbanPeer opens are
   outside this model (netsim scenarios). *)
Inductive pop :=
| PBan (parsed : bytes) (reason : Z) (now dur : Z)
| PUnban (parsed : bytes)
| PIsBanned (parsed : bytes) (now : Z).

Inductive pobs :=
| PErr
| POk
| PAns (banned : bool).

Definition pstep (s : store) (o : pop) : store * pobs :=
  match o with
  | PBan p r now dur =>
    match parse_ipnet p None with
    | Some n =>
      let '(s', ob) := step s (Ban n r now dur) in
      (s', match ob with OOk => POk | _ => PErr end)
    | None => (s, PErr)
    end
  | PUnban p =>
    match parse_ipnet p None with
    | Some n =>
      let '(s', ob) := step s (Unban n) in
      (s', match ob with OOk => POk | _ => PErr end)
    | None => (s, PErr)
    end
  | PIsBanned p now =>
    match parse_ipnet p None with
    | Some n =>
      let '(s', ob) := step s (Status n now) in
      (s', match ob with OStatus b _ _ => PAns b | _ => PAns false end)
    | None => (s, PAns false)
    end
  end.

Fixpoint prun (s : store) (ops : list pop) : store * list pobs :=
  match ops with
  | [] => (s, [])
  | o :: rest =>
    let '(s1, ob) := pstep s o in
    let '(s2, obs) := prun s1 rest in (s2, ob :: obs)
  end.
