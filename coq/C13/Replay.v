(* C13 — replay of implementation traces against the model and the monitor.
   A case is the list of (operation, observation made on the real code). *)
From Coq Require Import ZArith List Bool.
From Verif Require Import C13.Model C13.Spec.
Import ListNotations.
Open Scope Z_scope.

(* the network an operation addresses, as the model parses the caller's
   address and mask (ParseIPNet); an address the model rejects becomes the
   empty network, which no real operation uses *)
Definition pn (p : bytes) (m : option bytes) : ipnet :=
  match parse_ipnet p m with Some n => n | None => {| ip := []; mask := [] |} end.

Definition obs_eqb (a b : obs) : bool :=
  match a, b with
  | OErr, OErr => true
  | OOk, OOk => true
  | OStatus b1 r1 e1, OStatus b2 r2 e2 => Bool.eqb b1 b2 && (r1 =? r2) && (e1 =? e2)
  | _, _ => false
  end.

(* first step at which the model's observation differs from the implementation's *)
Fixpoint first_mismatch (s : store) (i : Z) (tr : list (op * obs)) : option Z :=
  match tr with
  | [] => None
  | (o, ob) :: rest =>
    let '(s', mob) := step s o in
    if obs_eqb mob ob then first_mismatch s' (i + 1) rest else Some i
  end.

(* first step at which the monitor rejects the implementation trace *)
Fixpoint first_bad (n : nat) (tr : list (op * obs)) : option Z :=
  match n with
  | O => None
  | S n' =>
    if holds (firstn (length tr - n') tr) then first_bad n' tr
    else Some (Z.of_nat (length tr - n') - 1)
  end.

(* result per failing case: (case id, kind, step, tag)
   kind 1 = model/implementation mismatch, kind 2 = monitor rejects the
   implementation trace; tag = root-cause code (none for C13: always 0) *)
Definition verdict (c : Z * list (op * obs)) : list (Z * Z * Z * Z) :=
  let '(id, tr) := c in
  (match first_mismatch [] 0 tr with Some i => [(id, 1, i, 0)] | None => [] end) ++
  (if holds tr then [] else
     match first_bad (length tr) tr with Some i => [(id, 2, i, 0)] | None => [(id, 2, 0, 0)] end).

Definition run_cases (cs : list (Z * list (op * obs))) : list (Z * Z * Z * Z) :=
  flat_map verdict cs.

(* ---- traces of the public entries (ChainService.IsBanned / BanPeer /
   UnbanPeer): operations carry net.ParseIP's result for the caller's
   address string; the model parses it (parse_ipnet) itself ---- *)
Definition pobs_eqb (a b : pobs) : bool :=
  match a, b with
  | PErr, PErr => true
  | POk, POk => true
  | PAns x, PAns y => Bool.eqb x y
  | _, _ => false
  end.

Fixpoint pfirst_mismatch (s : store) (i : Z) (tr : list (pop * pobs)) : option Z :=
  match tr with
  | [] => None
  | (o, ob) :: rest =>
    let '(s', mob) := pstep s o in
    if pobs_eqb mob ob then pfirst_mismatch s' (i + 1) rest else Some i
  end.

Fixpoint pfirst_bad (n : nat) (tr : list (pop * pobs)) : option Z :=
  match n with
  | O => None
  | S n' =>
    if pholds (firstn (length tr - n') tr) then pfirst_bad n' tr
    else Some (Z.of_nat (length tr - n') - 1)
  end.

Definition pverdict (c : Z * list (pop * pobs)) : list (Z * Z * Z * Z) :=
  let '(id, tr) := c in
  (match pfirst_mismatch [] 0 tr with Some i => [(id, 1, i, 0)] | None => [] end) ++
  (if pholds tr then [] else
     match pfirst_bad (length tr) tr with Some i => [(id, 2, i, 0)] | None => [(id, 2, 0, 0)] end).

Definition run_pcases (cs : list (Z * list (pop * pobs))) : list (Z * Z * Z * Z) :=
  flat_map pverdict cs.

(* ParseIPNet and codec cases *)
Definition net_eqb (a b : ipnet) : bool := bytes_eqb (ip a) (ip b) && bytes_eqb (mask a) (mask b).
Definition onet_eqb (a b : option ipnet) : bool :=
  match a, b with
  | Some x, Some y => net_eqb x y
  | None, None => true
  | _, _ => false
  end.
Definition obytes_eqb (a b : option bytes) : bool :=
  match a, b with
  | Some x, Some y => bytes_eqb x y
  | None, None => true
  | _, _ => false
  end.

Fixpoint index_false (i : Z) (l : list bool) : list Z :=
  match l with
  | [] => []
  | b :: r => (if b then [] else [i]) ++ index_false (i + 1) r
  end.

Definition parse_mismatches (cs : list (bytes * option bytes * option ipnet)) : list Z :=
  index_false 0 (map (fun c => let '(p, m, e) := c in onet_eqb (parse_ipnet p m) e) cs).

(* expected decode is only supplied (Some) for complete buffers *)
Definition codec_mismatches (cs : list (ipnet * option bytes * option ipnet)) : list Z :=
  index_false 0 (map (fun c => let '(n, e, d) := c in
     obytes_eqb (encode n) e &&
     match e, d with
     | Some k, Some _ => onet_eqb (decode k) d
     | _, _ => true
     end) cs).
