(* C13 (enforcement half) — a ban against the registration of a new
   connection to the same address: a small interleaving model.

   Two activities of neutrino.go race when a misbehaviour report for address
   B arrives while a connection to B is finishing its handshake:

     registration (OnVerAck -> AddPeer -> newPeers -> handleAddPeerMsg):
        lookup-start   the ban status of B is looked up (IsBanned) ...
        lookup-end     ... the answer is read from the ban store
        register       banned: the connection is refused (closed);
                       otherwise the peer enters the peer table
     ban (BanPeer):
        ban-store         the ban record is written
        ban-lookup-peers  the peer table is searched for B (PeerByAddr)
        disconnect        if found, the connection is closed

   In the code that exists, lookup-start .. register run inside
   handleAddPeerMsg on the peerHandler goroutine, the goroutine that also
   answers the peer-table query of ban-lookup-peers: the query waits while a
   registration is in progress ([atomic] = true).  [atomic] = false is the
   variant in which the lookup is made elsewhere (e.g. on the peer's own
   goroutine) and only [register] runs on the peerHandler; it exists for the
   refutation witness only. *)
From Coq Require Import ZArith List Bool.
Import ListNotations.

Inductive rpc := R0 | RS | RL (seen : bool) | RD.
Inductive bpc := B0 | B1 | B2 (found : bool) | BD.

Record est := mkE {
  e_r : rpc; e_b : bpc;
  e_banned : bool;      (* the ban store holds a record for B *)
  e_table : bool;       (* B's connection is in the peer table *)
  e_conn : bool         (* B's connection is open *)
}.

(* the connection has completed its handshake and is open; nothing else yet *)
Definition e_init : est := mkE R0 B0 false false true.

Inductive thread := TReg | TBan.

(* a registration is in progress on the peerHandler *)
Definition in_registration (s : est) : bool :=
  match e_r s with RS | RL _ => true | _ => false end.

(* one step of a thread; None = the thread cannot move now (finished, or
   waiting for the peerHandler) *)
Definition estep (atomic : bool) (s : est) (t : thread) : option est :=
  match t with
  | TReg =>
    match e_r s with
    | R0 => Some (mkE RS (e_b s) (e_banned s) (e_table s) (e_conn s))
    | RS => Some (mkE (RL (e_banned s)) (e_b s) (e_banned s) (e_table s) (e_conn s))
    | RL true => Some (mkE RD (e_b s) (e_banned s) (e_table s) false)
    | RL false => Some (mkE RD (e_b s) (e_banned s) true (e_conn s))
    | RD => None
    end
  | TBan =>
    match e_b s with
    | B0 => Some (mkE (e_r s) B1 true (e_table s) (e_conn s))
    | B1 => if atomic && in_registration s then None
            else Some (mkE (e_r s) (B2 (e_table s)) (e_banned s) (e_table s) (e_conn s))
    | B2 true => Some (mkE (e_r s) BD (e_banned s) (e_table s) false)
    | B2 false => Some (mkE (e_r s) BD (e_banned s) (e_table s) (e_conn s))
    | BD => None
    end
  end.

(* a schedule names the thread that is given the processor; a thread that
   cannot move leaves the state unchanged *)
Definition esched (atomic : bool) (s : est) (t : thread) : est :=
  match estep atomic s t with Some s' => s' | None => s end.

Definition erun (atomic : bool) (s : est) (sch : list thread) : est :=
  fold_left (esched atomic) sch s.

Definition finished (s : est) : bool :=
  match e_r s, e_b s with RD, BD => true | _, _ => false end.

(* THE PROPERTY of a quiescent state: the address is banned and the client
   keeps no connection to it *)
Definition enforced (s : est) : bool := e_banned s && negb (e_conn s).

(* did the ban's peer-table query have to wait somewhere along the schedule *)
Fixpoint ban_waited (atomic : bool) (s : est) (sch : list thread) : bool :=
  match sch with
  | [] => false
  | t :: rest =>
    (match t, e_b s, estep atomic s t with TBan, B1, None => true | _, _, _ => false end)
    || ban_waited atomic (esched atomic s t) rest
  end.
