(* C13 — the property theorems, and nothing else. *)
From Coq Require Import ZArith List Bool Lia.
From Verif Require Import C13.Model C13.Spec C13.Proofs.
Import ListNotations.
Open Scope Z_scope.

(* Exactness + durability: after ANY history of ban / unban / status /
   reopen operations (clock readings non-decreasing), a status query is
   answered from the history alone: banned with the recorded reason strictly
   before the recorded expiry of the last un-lifted ban of that network, not
   banned otherwise.  Reopen is an operation of the history, so the answer is
   the same across closing and reopening. *)
Theorem C13_status_exact : forall ops n k q,
  encode n = Some k -> monotone (times ops ++ [q]) ->
  snd (step (fst (run [] ops)) (Status n q)) = spec_status ops k q.
Proof. exact status_exact. Qed.
Print Assumptions C13_status_exact.

(* Every observation of every monotone history satisfies the monitor that
   the correspondence run evaluates on implementation traces. *)
Theorem C13_model_holds : forall ops,
  monotone (times ops) -> holds (combine ops (snd (run [] ops))) = true.
Proof. exact model_holds. Qed.
Print Assumptions C13_model_holds.

(* The recorded expiry is the requested instant rounded down to a whole
   second: the ban lapses at most one second early, never late. *)
Theorem C13_expiry_bracket : forall now dur,
  now + dur - ns < ((now + dur) / ns) * ns <= now + dur.
Proof. exact expiry_bracket. Qed.
Print Assumptions C13_expiry_bracket.

(* Codec: a key decodes to the canonical content of the network ... *)
Theorem C13_decode_encode : forall n k t a m,
  encode n = Some k -> canon n = Some (t, a, m) -> length m = length a ->
  decode k = Some {| ip := a; mask := m |}.
Proof. exact decode_encode. Qed.
Print Assumptions C13_decode_encode.

(* ... distinct networks never share a record, equal ones always do ... *)
Theorem C13_key_exact : forall n1 n2 k,
  encode n1 = Some k -> (encode n2 = Some k <-> canon n1 = canon n2).
Proof.
  intros n1 n2 k H1. split.
  - intros H2. exact (encode_inj n1 n2 k H1 H2).
  - intros Hc. rewrite <- H1. symmetry. now apply encode_canon.
Qed.
Print Assumptions C13_key_exact.

(* ... and the 4-byte and IPv4-mapped 16-byte forms of one IPv4 address are
   one record. *)
Theorem C13_v4_forms_one_record : forall a m, length a = 4%nat ->
  encode {| ip := a; mask := m |} = encode {| ip := v4prefix ++ a; mask := m |}.
Proof. exact encode_v4_forms. Qed.
Print Assumptions C13_v4_forms_one_record.

(* Non-vacuity: a history with a ban, a query before and after the lapse, a
   reopen, an unban and a re-ban meets the hypotheses, and the answers are
   the expected ones. *)
Definition ex_net := {| ip := v4prefix ++ [10;1;2;3]; mask := default_v4_mask |}.
Definition ex_ops : list op :=
  [ Ban ex_net 3 (5 * ns) (10 * ns + 7);  Status ex_net (6 * ns); Reopen;
    Status ex_net (14 * ns + 999999999); Status ex_net (15 * ns);
    Ban ex_net 5 (16 * ns) ns; Unban ex_net; Status ex_net (16 * ns) ].
Example C13_nonvacuous :
  monotone (times ex_ops) /\
  snd (run [] ex_ops) =
    [OOk; OStatus true 3 15; OOk; OStatus true 3 15; OStatus false 0 0;
     OOk; OOk; OStatus false 0 0].
Proof. split; [cbn; unfold ns; lia | vm_compute; reflexivity]. Qed.
