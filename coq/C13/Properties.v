(* C13 — the property theorems, and nothing else. *)
From Coq Require Import ZArith List Bool Lia.
From Verif Require Import C13.Model C13.Spec C13.Proofs.
Import ListNotations.
Open Scope Z_scope.

(* Exactness + durability: after ANY history of ban / unban / status /
   reopen operations (clock readings non-decreasing), a status query is
   answered from the history alone: banned with the recorded reason strictly
   before the recorded expiry of the last un-lifted ban of that network, not
   banned otherwise.  Reopen is an operation of the history, so the answer is
   the same across closing and reopening. *)
Theorem C13_status_exact : forall ops n k q,
  encode n = Some k -> monotone (times ops ++ [q]) ->
  snd (step (fst (run [] ops)) (Status n q)) = spec_status ops k q.
Proof. exact status_exact. Qed.
Print Assumptions C13_status_exact.

(* Every observation of every monotone history satisfies the monitor that
   the correspondence run evaluates on implementation traces. *)
Theorem C13_model_holds : forall ops,
  monotone (times ops) -> holds (combine ops (snd (run [] ops))) = true.
Proof. exact model_holds. Qed.
Print Assumptions C13_model_holds.

(* The recorded expiry is the requested instant rounded down to a whole
   second: the ban lapses at most one second early, never late. *)
Theorem C13_expiry_bracket : forall now dur,
  now + dur - ns < ((now + dur) / ns) * ns <= now + dur.
Proof. exact expiry_bracket. Qed.
Print Assumptions C13_expiry_bracket.

(* Codec: a key decodes to the canonical content of the network ... *)
Theorem C13_decode_encode : forall n k t a m,
  encode n = Some k -> canon n = Some (t, a, m) -> length m = length a ->
  decode k = Some {| ip := a; mask := m |}.
Proof. exact decode_encode. Qed.
Print Assumptions C13_decode_encode.

(* ... distinct networks never share a record, equal ones always do ... *)
Theorem C13_key_exact : forall n1 n2 k,
  encode n1 = Some k -> (encode n2 = Some k <-> canon n1 = canon n2).
Proof.
  intros n1 n2 k H1. split.
  - intros H2. exact (encode_inj n1 n2 k H1 H2).
  - intros Hc. rewrite <- H1. symmetry. now apply encode_canon.
Qed.
Print Assumptions C13_key_exact.

(* ... and the 4-byte and IPv4-mapped 16-byte forms of one IPv4 address are
   one record. *)
Theorem C13_v4_forms_one_record : forall a m, length a = 4%nat ->
  encode {| ip := a; mask := m |} = encode {| ip := v4prefix ++ a; mask := m |}.
Proof. exact encode_v4_forms. Qed.
Print Assumptions C13_v4_forms_one_record.

(* The public layer (ChainService.IsBanned / BanPeer / UnbanPeer): an
   IsBanned answer computed as Status (ParseIPNet addr) with no state in
   between is, after ANY history of public calls (clock readings of the calls
   that reach the store non-decreasing), the banned bit of the store spec for
   the network the address denotes ... *)
Theorem C13_public_status_is_store_status : forall h p q,
  monotone (ptimes (h ++ [PIsBanned p q])) ->
  snd (pstep (fst (prun [] h)) (PIsBanned p q)) = PAns (public_spec h p q).
Proof. exact public_status_exact. Qed.
Print Assumptions C13_public_status_is_store_status.

(* ... the same whichever form of one IP address the caller used (ParseIP's
   4-byte and 16-byte results; textual forms are below the model: trusted
   net.ParseIP, exercised by the harness), in every store state ... *)
Theorem C13_public_form_independent : forall s h p1 p2 q, same_ip p1 p2 ->
  pstep s (PIsBanned p1 q) = pstep s (PIsBanned p2 q) /\
  public_spec h p1 q = public_spec h p2 q.
Proof.
  intros s h p1 p2 q H. split;
    [now apply public_form_independent | now apply public_spec_form_independent].
Qed.
Print Assumptions C13_public_form_independent.

(* ... and every observation of every public history satisfies the monitor
   that the correspondence run evaluates on ChainService traces. *)
Theorem C13_public_model_holds : forall h,
  monotone (ptimes h) -> pholds (combine h (snd (prun [] h))) = true.
Proof. exact pmodel_holds. Qed.
Print Assumptions C13_public_model_holds.

(* Non-vacuity: a history with a ban, a query before and after the lapse, a
   reopen, an unban and a re-ban meets the hypotheses, and the answers are
   the expected ones. *)
Definition ex_net := {| ip := v4prefix ++ [10;1;2;3]; mask := default_v4_mask |}.
Definition ex_ops : list op :=
  [ Ban ex_net 3 (5 * ns) (10 * ns + 7);  Status ex_net (6 * ns); Reopen;
    Status ex_net (14 * ns + 999999999); Status ex_net (15 * ns);
    Ban ex_net 5 (16 * ns) ns; Unban ex_net; Status ex_net (16 * ns) ].
Example C13_nonvacuous :
  monotone (times ex_ops) /\
  snd (run [] ex_ops) =
    [OOk; OStatus true 3 15; OOk; OStatus true 3 15; OStatus false 0 0;
     OOk; OOk; OStatus false 0 0].
Proof. split; [cbn; unfold ns; lia | vm_compute; reflexivity]. Qed.

(* Non-vacuity of the public statements: lookups under two forms before the
   ban, a ban under a third call, lookups under both forms, lapse, unban; a
   host name is never banned (fail open) and cannot be banned. *)
Definition ex_p4 : bytes := [10;1;2;3].
Definition ex_p16 : bytes := v4prefix ++ [10;1;2;3].
Definition ex_pops : list pop :=
  [ PIsBanned ex_p16 (1 * ns); PIsBanned ex_p4 (2 * ns);
    PBan ex_p16 3 (5 * ns) (10 * ns); PIsBanned ex_p4 (6 * ns); PIsBanned ex_p16 (6 * ns);
    PIsBanned [] (6 * ns); PBan [] 3 (6 * ns) ns;
    PIsBanned ex_p4 (15 * ns); PBan ex_p4 2 (16 * ns) (10 * ns); PUnban ex_p16;
    PIsBanned ex_p4 (17 * ns) ].
Example C13_public_nonvacuous :
  monotone (ptimes ex_pops) /\ same_ip ex_p4 ex_p16 /\
  snd (prun [] ex_pops) =
    [PAns false; PAns false; POk; PAns true; PAns true; PAns false; PErr;
     PAns false; POk; POk; PAns false].
Proof.
  split; [cbn; unfold ns; lia|]. split; [split; [reflexivity|discriminate]|].
  vm_compute; reflexivity.
Qed.
