(* C13 — proofs. *)
From Coq Require Import ZArith List Bool Lia.
From Verif Require Import C13.Model C13.Spec.
Import ListNotations.
Open Scope Z_scope.

(* ---------------- bytes ---------------- *)
Lemma bytes_eqb_eq a b : bytes_eqb a b = true <-> a = b.
Proof.
  revert b; induction a as [|x a IH]; intros [|y b]; cbn; split; intros H;
    try reflexivity; try discriminate.
  - apply andb_true_iff in H as [Hx Hab]. apply Z.eqb_eq in Hx. apply IH in Hab. congruence.
  - inversion H; subst. rewrite Z.eqb_refl. cbn. now apply IH.
Qed.
Lemma bytes_eqb_refl a : bytes_eqb a a = true.
Proof. now apply bytes_eqb_eq. Qed.
Lemma bytes_eqb_sym a b : bytes_eqb a b = bytes_eqb b a.
Proof.
  destruct (bytes_eqb a b) eqn:E1, (bytes_eqb b a) eqn:E2; try reflexivity.
  - apply bytes_eqb_eq in E1; subst. now rewrite bytes_eqb_refl in E2.
  - apply bytes_eqb_eq in E2; subst. now rewrite bytes_eqb_refl in E1.
Qed.

(* ---------------- codec ---------------- *)
Lemma split_at {A} (a m : list A) :
  firstn (length a) (a ++ m) = a /\ skipn (length a) (a ++ m) = m.
Proof.
  split.
  - rewrite firstn_app, Nat.sub_diag, firstn_all. cbn. apply app_nil_r.
  - rewrite skipn_app, Nat.sub_diag, skipn_all. reflexivity.
Qed.

Lemma len_nat (b : bytes) (n : nat) : len b = Z.of_nat n -> length b = n.
Proof. unfold len. lia. Qed.

Lemma to4_len ipb a : to4 ipb = Some a -> length a = 4%nat.
Proof.
  unfold to4. destruct (len ipb =? 4) eqn:E4.
  - intros [= <-]. apply Z.eqb_eq in E4. now apply (len_nat _ 4) in E4.
  - destruct (len ipb =? 16) eqn:E16; cbn [andb]; [|discriminate].
    destruct (bytes_eqb _ _); [|discriminate]. intros [= <-].
    apply Z.eqb_eq in E16. apply (len_nat _ 16) in E16.
    change (length (skipn 12 ipb) = 4%nat). rewrite skipn_length. lia.
Qed.
Lemma to16_len ipb a : to16 ipb = Some a -> length a = 16%nat.
Proof.
  unfold to16. destruct (len ipb =? 4) eqn:E4.
  - intros [= <-]. apply Z.eqb_eq in E4. apply (len_nat _ 4) in E4.
    change (length (v4prefix ++ ipb) = 16%nat). rewrite app_length, E4. reflexivity.
  - destruct (len ipb =? 16) eqn:E16; [|discriminate]. intros [= <-].
    apply Z.eqb_eq in E16. now apply (len_nat _ 16) in E16.
Qed.

Lemma canon_encode n :
  encode n = match canon n with Some (t, a, m) => Some (t :: a ++ m) | None => None end.
Proof. unfold encode, canon. destruct (to4 (ip n)); [reflexivity|]. now destruct (to16 (ip n)). Qed.

Lemma canon_shape n t a m : canon n = Some (t, a, m) ->
  (t = 0 /\ length a = 4%nat) \/ (t = 1 /\ length a = 16%nat).
Proof.
  unfold canon. destruct (to4 (ip n)) eqn:E4.
  - intros [= <- <- <-]. left. split; [reflexivity|]. eapply to4_len; eauto.
  - destruct (to16 (ip n)) eqn:E16; [|discriminate].
    intros [= <- <- <-]. right. split; [reflexivity|]. eapply to16_len; eauto.
Qed.

(* decoding a key returns the canonical content when the mask has the
   family's length (what ParseIPNet's default masks and CIDR masks give) *)
Lemma decode_encode n k t a m :
  encode n = Some k -> canon n = Some (t, a, m) -> length m = length a ->
  decode k = Some {| ip := a; mask := m |}.
Proof.
  intros Hk Hc Hm. rewrite canon_encode, Hc in Hk. injection Hk as <-.
  destruct (split_at a m) as [Hf Hs].
  destruct (canon_shape _ _ _ _ Hc) as [[-> Ha]|[-> Ha]]; unfold decode.
  - change (0 =? 0) with true. cbv iota.
    rewrite app_length, Hm, Ha. cbn [Nat.add Nat.eqb].
    rewrite <- Ha, Hf, Hs. reflexivity.
  - change (1 =? 0) with false. change (1 =? 1) with true. cbv iota.
    rewrite app_length, Hm, Ha. cbn [Nat.add Nat.eqb].
    rewrite <- Ha, Hf, Hs. reflexivity.
Qed.

(* the key determines family, address and mask: distinct networks never
   share a record *)
Lemma encode_inj n1 n2 k :
  encode n1 = Some k -> encode n2 = Some k -> canon n1 = canon n2.
Proof.
  rewrite !canon_encode. destruct (canon n1) as [[[t1 a1] m1]|] eqn:C1; [|discriminate].
  destruct (canon n2) as [[[t2 a2] m2]|] eqn:C2; [|discriminate].
  intros [= <-] [= Ht Ham]. subst t2.
  assert (length a1 = length a2) as Hl.
  { destruct (canon_shape _ _ _ _ C1) as [[-> ?]|[-> ?]],
             (canon_shape _ _ _ _ C2) as [[? ?]|[? ?]]; congruence. }
  assert (a2 = a1 /\ m2 = m1) as [-> ->]; [|reflexivity].
  { clear -Hl Ham. revert a2 Hl Ham. induction a1 as [|x a1 IH]; intros [|y a2] Hl Ham;
      cbn in *; try discriminate; [now split|].
    injection Ham as -> Ham. destruct (IH a2) as [-> ->]; auto. }
Qed.

(* the same canonical content always yields the same key *)
Lemma encode_canon n1 n2 : canon n1 = canon n2 -> encode n1 = encode n2.
Proof. intros H. now rewrite !canon_encode, H. Qed.

(* 4-byte and 16-byte (IPv4-mapped) forms of one IPv4 address: one record *)
Lemma encode_v4_forms a m : length a = 4%nat ->
  encode {| ip := a; mask := m |} = encode {| ip := v4prefix ++ a; mask := m |}.
Proof.
  intros Ha. apply encode_canon. unfold canon; cbn [ip mask].
  unfold to4, len. rewrite app_length, Ha. cbn [length Nat.add v4prefix].
  change (Z.of_nat 4 =? 4) with true. change (Z.of_nat 16 =? 4) with false.
  change (Z.of_nat 16 =? 16) with true. cbv iota. cbn [andb].
  destruct a as [|a0 [|a1 [|a2 [|a3 [|? ?]]]]]; try discriminate. reflexivity.
Qed.

(* ---------------- association list ---------------- *)
Lemma s_get_del_same s k : s_get (s_del s k) k = None.
Proof.
  unfold s_get, s_del. induction s as [|[k' r] s IH]; cbn; [reflexivity|].
  destruct (bytes_eqb k' k) eqn:E; cbn; [exact IH|]. now rewrite E.
Qed.
Lemma s_get_del_other s k k' : bytes_eqb k' k = false -> s_get (s_del s k') k = s_get s k.
Proof.
  intros Hne. unfold s_get, s_del. induction s as [|[k0 r] s IH]; cbn; [reflexivity|].
  destruct (bytes_eqb k0 k') eqn:E; cbn.
  - apply bytes_eqb_eq in E; subst. rewrite Hne. exact IH.
  - destruct (bytes_eqb k0 k); [reflexivity|exact IH].
Qed.
Lemma s_get_put_same s k r : s_get (s_put s k r) k = Some r.
Proof. unfold s_put, s_get. cbn. now rewrite bytes_eqb_refl. Qed.
Lemma s_get_put_other s k k' r : bytes_eqb k' k = false -> s_get (s_put s k' r) k = s_get s k.
Proof.
  intros Hne. unfold s_put. unfold s_get at 1. cbn. rewrite Hne.
  now apply s_get_del_other.
Qed.

(* ---------------- the store tracks the history ---------------- *)
(* like write_effect, but also with the lazy deletion a Status performs *)
Definition lazy_effect (k : bytes) (cur : option rec) (o : op) : option rec :=
  match o with
  | Status n now =>
    match encode n with
    | Some k' =>
      if bytes_eqb k' k
      then match cur with
           | Some r => if now <? expiry r * ns then cur else None
           | None => None
           end
      else cur
    | None => cur
    end
  | _ => write_effect k cur o
  end.

Lemma step_get s o k : s_get (fst (step s o)) k = lazy_effect k (s_get s k) o.
Proof.
  destruct o as [n r now dur|n|n now|]; cbn [step lazy_effect write_effect].
  - destruct (encode n) as [k'|]; cbn [fst]; [|reflexivity].
    destruct (bytes_eqb k' k) eqn:E.
    + apply bytes_eqb_eq in E; subst. apply s_get_put_same.
    + now apply s_get_put_other.
  - destruct (encode n) as [k'|]; cbn [fst]; [|reflexivity].
    destruct (bytes_eqb k' k) eqn:E.
    + apply bytes_eqb_eq in E; subst. apply s_get_del_same.
    + now apply s_get_del_other.
  - destruct (encode n) as [k'|]; cbn [fst]; [|reflexivity].
    destruct (bytes_eqb k' k) eqn:E.
    + apply bytes_eqb_eq in E; subst.
      destruct (s_get s k) as [r|] eqn:G; cbn [fst]; [|now rewrite G].
      destruct (now <? expiry r * ns); cbn [fst]; [exact G|apply s_get_del_same].
    + destruct (s_get s k') as [r|]; cbn [fst]; [|reflexivity].
      destruct (now <? expiry r * ns); cbn [fst]; [reflexivity|now apply s_get_del_other].
  - reflexivity.
Qed.

Lemma run_fst_cons s o ops : fst (run s (o :: ops)) = fst (run (fst (step s o)) ops).
Proof. cbn [run]. destruct (step s o) as [s1 ob]. cbn [fst]. now destruct (run s1 ops). Qed.

Lemma run_get s ops k :
  s_get (fst (run s ops)) k = fold_left (lazy_effect k) ops (s_get s k).
Proof.
  revert s; induction ops as [|o ops IH]; intros s; [reflexivity|].
  rewrite run_fst_cons, IH, step_get. reflexivity.
Qed.

(* lazily deleted records are exactly records that no later query (at a
   later clock reading) could see as banned *)
Definition R (t : Z) (c1 c2 : option rec) : Prop :=
  c1 = c2 \/ (c1 = None /\ exists r, c2 = Some r /\ expiry r * ns <= t).

Lemma R_mono t t' c1 c2 : t <= t' -> R t c1 c2 -> R t' c1 c2.
Proof. intros Ht [H|[H [r [H2 H3]]]]; [now left|right; split; [exact H|exists r; split; [exact H2|lia]]]. Qed.

Lemma fold_R k ops : forall t c1 c2 q,
  R t c1 c2 -> mono_from t (times ops ++ [q]) ->
  answer (fold_left (lazy_effect k) ops c1) q = answer (fold_left (write_effect k) ops c2) q.
Proof.
  induction ops as [|o ops IH]; intros t c1 c2 q HR Hm.
  - cbn in *. destruct Hm as [Htq _].
    destruct HR as [->|[-> [r [-> Hr]]]]; [reflexivity|].
    cbn. destruct (Z.ltb_spec q (expiry r * ns)); [lia|reflexivity].
  - cbn [fold_left]. destruct o as [n r now dur|n|n now|].
    + cbn [times app mono_from] in Hm. destruct Hm as [Ht Hm].
      apply (IH now); [|exact Hm].
      cbn [lazy_effect write_effect]. destruct (encode n) as [k'|].
      * destruct (bytes_eqb k' k); [now left|now apply (R_mono t)].
      * now apply (R_mono t).
    + cbn [times] in Hm. apply (IH t); [|exact Hm].
      cbn [lazy_effect write_effect]. destruct (encode n) as [k'|]; [|exact HR].
      destruct (bytes_eqb k' k); [now left|exact HR].
    + cbn [times app mono_from] in Hm. destruct Hm as [Ht Hm].
      apply (IH now); [|exact Hm].
      cbn [lazy_effect write_effect]. destruct (encode n) as [k'|]; [|now apply (R_mono t)].
      destruct (bytes_eqb k' k); [|now apply (R_mono t)].
      destruct HR as [->|[-> [r [-> Hr]]]].
      * destruct c2 as [r|]; [|now left].
        destruct (Z.ltb_spec now (expiry r * ns)); [now left|].
        right. split; [reflexivity|]. exists r. split; [reflexivity|lia].
      * right. split; [reflexivity|]. exists r. split; [reflexivity|lia].
    + cbn [times] in Hm. apply (IH t); [exact HR|exact Hm].
Qed.

Lemma monotone_from l : monotone l -> l <> [] -> exists t, mono_from t l.
Proof. destruct l as [|x r]; [congruence|]. intros H _. exists x. cbn. split; [lia|exact H]. Qed.

Lemma status_obs s n k q : encode n = Some k ->
  snd (step s (Status n q)) = answer (s_get s k) q.
Proof.
  intros E. cbn [step]. rewrite E. destruct (s_get s k) as [r|]; [|reflexivity].
  cbn [answer]. now destruct (q <? expiry r * ns).
Qed.

(* MAIN: the answer to a status query is determined by the history *)
Lemma status_exact ops n k q :
  encode n = Some k -> monotone (times ops ++ [q]) ->
  snd (step (fst (run [] ops)) (Status n q)) = spec_status ops k q.
Proof.
  intros E Hm. rewrite (status_obs _ _ k) by exact E. rewrite run_get.
  destruct (monotone_from _ Hm) as [t Ht]; [now destruct (times ops)|].
  unfold spec_status, last_write. apply (fold_R k ops t); [now left|exact Ht].
Qed.

(* ---------------- the model satisfies its own monitor ---------------- *)
Lemma times_app a b : times (a ++ b) = times a ++ times b.
Proof.
  induction a as [|o a IH]; [reflexivity|].
  destruct o; cbn [app times]; rewrite ?IH; reflexivity.
Qed.

Lemma mono_from_prefix t a b : mono_from t (a ++ b) -> mono_from t a.
Proof. revert t; induction a as [|x a IH]; intros t; cbn; [trivial|]. intros [H1 H2]. split; eauto. Qed.
Lemma monotone_prefix a b : monotone (a ++ b) -> monotone a.
Proof. destruct a as [|x a]; cbn; [trivial|]. apply mono_from_prefix. Qed.

Lemma run_snd_cons s o ops :
  snd (run s (o :: ops)) = snd (step s o) :: snd (run (fst (step s o)) ops).
Proof. cbn [run]. destruct (step s o) as [s1 ob]. cbn [fst snd]. now destruct (run s1 ops). Qed.

Lemma run_app_fst s a b : fst (run s (a ++ b)) = fst (run (fst (run s a)) b).
Proof.
  revert s; induction a as [|o a IH]; intros s; [reflexivity|].
  rewrite <- app_comm_cons, !run_fst_cons. apply IH.
Qed.

Lemma model_holds_from hist ops :
  monotone (times (hist ++ ops)) ->
  holds_from hist (combine ops (snd (run (fst (run [] hist)) ops))) = true.
Proof.
  revert hist; induction ops as [|o ops IH]; intros hist Hm; [reflexivity|].
  rewrite run_snd_cons. cbn [combine holds_from].
  apply andb_true_iff. split.
  - destruct o as [n r now dur|n|n now|]; cbn [step].
    + destruct (encode n); reflexivity.
    + destruct (encode n); reflexivity.
    + destruct (encode n) as [k|] eqn:E; [|reflexivity].
      assert (Hs := status_exact hist n k now E).
      cbn [step] in Hs. rewrite E in Hs. rewrite Hs.
      * unfold spec_status, answer. destruct (last_write hist k) as [r|]; cbn.
        -- destruct (now <? expiry r * ns); cbn; rewrite ?Z.eqb_refl; reflexivity.
        -- reflexivity.
      * rewrite times_app in Hm. cbn [times] in Hm.
        change (now :: times ops) with ([now] ++ times ops) in Hm.
        rewrite app_assoc in Hm. now apply monotone_prefix in Hm.
    + reflexivity.
  - replace (fst (step (fst (run [] hist)) o)) with (fst (run [] (hist ++ [o]))).
    + apply IH. now rewrite <- app_assoc.
    + rewrite run_app_fst, run_fst_cons. reflexivity.
Qed.

Lemma model_holds ops : monotone (times ops) -> holds (combine ops (snd (run [] ops))) = true.
Proof. intros H. apply (model_holds_from [] ops H). Qed.

(* the recorded expiry brackets the requested one to within one second *)
Lemma expiry_bracket now dur :
  now + dur - ns < ((now + dur) / ns) * ns <= now + dur.
Proof.
  unfold ns. pose proof (Z.div_mod (now + dur) 1000000000 ltac:(lia)).
  pose proof (Z.mod_pos_bound (now + dur) 1000000000 ltac:(lia)). lia.
Qed.

(* ---------------- the public layer (BanPeer / UnbanPeer / IsBanned) ---------------- *)
Lemma pstep_fst s o : fst (pstep s o) = fst (run s (lower o)).
Proof.
  destruct o as [p r now dur|p|p now]; cbn [pstep lower];
    (destruct (parse_ipnet p None) as [n|]; [|reflexivity]).
  - rewrite run_fst_cons. cbn [run fst]. now destruct (step s (Ban n r now dur)).
  - rewrite run_fst_cons. cbn [run fst]. now destruct (step s (Unban n)).
  - rewrite run_fst_cons. cbn [run fst]. now destruct (step s (Status n now)).
Qed.

Lemma prun_fst_cons s o ops : fst (prun s (o :: ops)) = fst (prun (fst (pstep s o)) ops).
Proof. cbn [prun]. destruct (pstep s o) as [s1 ob]. cbn [fst]. now destruct (prun s1 ops). Qed.

Lemma prun_snd_cons s o ops :
  snd (prun s (o :: ops)) = snd (pstep s o) :: snd (prun (fst (pstep s o)) ops).
Proof. cbn [prun]. destruct (pstep s o) as [s1 ob]. cbn [fst snd]. now destruct (prun s1 ops). Qed.

(* the store after a public history is the store after the store operations
   it amounts to: the public layer adds no state *)
Lemma prun_fst s h : fst (prun s h) = fst (run s (lower_all h)).
Proof.
  revert s; induction h as [|o h IH]; intros s; [reflexivity|].
  rewrite prun_fst_cons, IH, pstep_fst. unfold lower_all. cbn [flat_map].
  now rewrite run_app_fst.
Qed.

Lemma lower_all_app a b : lower_all (a ++ b) = lower_all a ++ lower_all b.
Proof. unfold lower_all. apply flat_map_app. Qed.

Lemma pisbanned_obs s p q :
  snd (pstep s (PIsBanned p q)) =
  PAns match parse_ipnet p None with
       | Some n => banned_bit (snd (step s (Status n q)))
       | None => false
       end.
Proof.
  cbn [pstep]. destruct (parse_ipnet p None) as [n|]; [|reflexivity].
  destruct (step s (Status n q)) as [s' ob]. cbn [snd]. now destruct ob.
Qed.

Lemma status_err s n q : encode n = None -> snd (step s (Status n q)) = OErr.
Proof. intros E. cbn [step]. now rewrite E. Qed.

(* MAIN (public layer): an IsBanned answer is the banned bit of the store
   spec for the parsed network, for every history of public calls *)
Lemma ptimes_snoc_query h p q :
  ptimes (h ++ [PIsBanned p q]) =
  match parse_ipnet p None with Some _ => ptimes h ++ [q] | None => ptimes h end.
Proof.
  unfold ptimes. rewrite lower_all_app, times_app. unfold lower_all at 2.
  cbn [flat_map lower]. destruct (parse_ipnet p None); cbn [app times]; [reflexivity|].
  apply app_nil_r.
Qed.

Lemma public_status_exact h p q :
  monotone (ptimes (h ++ [PIsBanned p q])) ->
  snd (pstep (fst (prun [] h)) (PIsBanned p q)) = PAns (public_spec h p q).
Proof.
  intros Hm. rewrite ptimes_snoc_query in Hm.
  rewrite pisbanned_obs. unfold public_spec. f_equal.
  destruct (parse_ipnet p None) as [n|]; [|reflexivity].
  destruct (encode n) as [k|] eqn:E.
  - rewrite prun_fst. now rewrite (status_exact (lower_all h) n k q E Hm).
  - now rewrite status_err.
Qed.

(* one IP address in its 4-byte and 16-byte forms parses to one network *)
Lemma to4_parse p a : to4 p = Some a ->
  parse_ipnet p None =
  Some {| ip := and_bytes a default_v4_mask; mask := default_v4_mask |}.
Proof.
  intros H4. unfold parse_ipnet. rewrite H4. f_equal. f_equal.
  unfold ip_mask. change (len default_v4_mask =? 16) with false. cbn [andb].
  change (len default_v4_mask =? 4) with true. cbn [andb].
  unfold to4 in H4. destruct (len p =? 4) eqn:E4.
  - injection H4 as <-. apply Z.eqb_eq in E4.
    assert (len p =? 16 = false) as -> by (apply Z.eqb_neq; lia). cbn [andb].
    change (len default_v4_mask) with 4. rewrite E4. reflexivity.
  - destruct (len p =? 16) eqn:E16; cbn [andb] in *; [|discriminate].
    destruct (bytes_eqb (firstn 12 p) v4prefix); [|discriminate].
    injection H4 as <-.
    assert (len (skipn 12 p) = 4) as Hl.
    { apply Z.eqb_eq in E16. unfold len in *. rewrite skipn_length. lia. }
    rewrite Hl. reflexivity.
Qed.

Lemma to16_to4 p1 p2 : to16 p1 = to16 p2 -> to16 p1 <> None -> to4 p1 = to4 p2.
Proof.
  unfold to16, to4. intros H Hn.
  destruct (len p1 =? 4) eqn:A4, (len p2 =? 4) eqn:B4.
  - injection H as H. now subst.
  - destruct (len p2 =? 16) eqn:B16; [|discriminate]. injection H as <-.
    cbn [andb]. change (firstn 12 (v4prefix ++ p1)) with v4prefix.
    rewrite bytes_eqb_refl. reflexivity.
  - destruct (len p1 =? 16) eqn:A16; [|congruence]. injection H as ->.
    cbn [andb]. change (firstn 12 (v4prefix ++ p2)) with v4prefix.
    rewrite bytes_eqb_refl. reflexivity.
  - destruct (len p1 =? 16) eqn:A16; [|congruence].
    destruct (len p2 =? 16) eqn:B16; [|discriminate]. now injection H as ->.
Qed.

Lemma same_ip_parse p1 p2 : same_ip p1 p2 -> parse_ipnet p1 None = parse_ipnet p2 None.
Proof.
  intros [H Hn]. pose proof (to16_to4 p1 p2 H Hn) as H4.
  destruct (to4 p1) as [a|] eqn:E1.
  - now rewrite (to4_parse p1 a E1), (to4_parse p2 a (eq_sym H4)).
  - (* not IPv4: both are the 16-byte form itself *)
    assert (forall p, to4 p = None -> to16 p <> None -> to16 p = Some p) as K.
    { intros p. unfold to4, to16. destruct (len p =? 4); [discriminate|].
      destruct (len p =? 16); [reflexivity|congruence]. }
    assert (to16 p2 <> None) as Hn2 by now rewrite <- H.
    rewrite (K p1 E1 Hn), (K p2 (eq_sym H4) Hn2) in H. now injection H as ->.
Qed.

(* the answer (and the store afterwards) does not depend on the form in
   which the address was given *)
Lemma public_form_independent s p1 p2 q : same_ip p1 p2 ->
  pstep s (PIsBanned p1 q) = pstep s (PIsBanned p2 q).
Proof. intros H. cbn [pstep]. now rewrite (same_ip_parse p1 p2 H). Qed.

Lemma public_spec_form_independent h p1 p2 q : same_ip p1 p2 ->
  public_spec h p1 q = public_spec h p2 q.
Proof. intros H. unfold public_spec. now rewrite (same_ip_parse p1 p2 H). Qed.

(* the model of the public layer satisfies the monitor evaluated on
   implementation traces *)
Lemma ban_obs s n r now dur :
  snd (step s (Ban n r now dur)) = match encode n with Some _ => OOk | None => OErr end.
Proof. cbn [step]. now destruct (encode n). Qed.
Lemma unban_obs s n :
  snd (step s (Unban n)) = match encode n with Some _ => OOk | None => OErr end.
Proof. cbn [step]. now destruct (encode n). Qed.

Lemma pmodel_holds_from hist ops :
  monotone (ptimes (hist ++ ops)) ->
  pholds_from hist (combine ops (snd (prun (fst (prun [] hist)) ops))) = true.
Proof.
  revert hist; induction ops as [|o ops IH]; intros hist Hm; [reflexivity|].
  rewrite prun_snd_cons. cbn [combine pholds_from].
  apply andb_true_iff. split.
  - destruct o as [p r now dur|p|p now].
    + cbn [pstep]. unfold addr_ok. destruct (parse_ipnet p None) as [n|]; [|reflexivity].
      pose proof (ban_obs (fst (prun [] hist)) n r now dur) as Hb.
      destruct (step (fst (prun [] hist)) (Ban n r now dur)) as [s' ob]. cbn [snd] in *. subst ob.
      now destruct (encode n).
    + cbn [pstep]. unfold addr_ok. destruct (parse_ipnet p None) as [n|]; [|reflexivity].
      pose proof (unban_obs (fst (prun [] hist)) n) as Hb.
      destruct (step (fst (prun [] hist)) (Unban n)) as [s' ob]. cbn [snd] in *. subst ob.
      now destruct (encode n).
    + rewrite public_status_exact; [apply eqb_reflx|].
      change (hist ++ PIsBanned p now :: ops) with (hist ++ [PIsBanned p now] ++ ops) in Hm.
      unfold ptimes in *. rewrite app_assoc, lower_all_app, times_app in Hm.
      now apply monotone_prefix in Hm.
  - replace (fst (pstep (fst (prun [] hist)) o)) with (fst (prun [] (hist ++ [o]))).
    + apply IH. now rewrite <- app_assoc.
    + rewrite !prun_fst, pstep_fst, lower_all_app, run_app_fst. unfold lower_all at 2.
      cbn [flat_map]. now rewrite app_nil_r.
Qed.

Lemma pmodel_holds h : monotone (ptimes h) -> pholds (combine h (snd (prun [] h))) = true.
Proof. intros H. apply (pmodel_holds_from [] h H). Qed.
