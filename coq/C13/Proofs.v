(* C13 — proofs. *)
From Coq Require Import ZArith List Bool Lia.
From Verif Require Import C13.Model C13.Spec.
Import ListNotations.
Open Scope Z_scope.

(* ---------------- bytes ---------------- *)
Lemma bytes_eqb_eq a b : bytes_eqb a b = true <-> a = b.
Proof.
  revert b; induction a as [|x a IH]; intros [|y b]; cbn; split; intros H;
    try reflexivity; try discriminate.
  - apply andb_true_iff in H as [Hx Hab]. apply Z.eqb_eq in Hx. apply IH in Hab. congruence.
  - inversion H; subst. rewrite Z.eqb_refl. cbn. now apply IH.
Qed.
Lemma bytes_eqb_refl a : bytes_eqb a a = true.
Proof. now apply bytes_eqb_eq. Qed.
Lemma bytes_eqb_sym a b : bytes_eqb a b = bytes_eqb b a.
Proof.
  destruct (bytes_eqb a b) eqn:E1, (bytes_eqb b a) eqn:E2; try reflexivity.
  - apply bytes_eqb_eq in E1; subst. now rewrite bytes_eqb_refl in E2.
  - apply bytes_eqb_eq in E2; subst. now rewrite bytes_eqb_refl in E1.
Qed.

(* ---------------- codec ---------------- *)
Lemma split_at {A} (a m : list A) :
  firstn (length a) (a ++ m) = a /\ skipn (length a) (a ++ m) = m.
Proof.
  split.
  - rewrite firstn_app, Nat.sub_diag, firstn_all. cbn. apply app_nil_r.
  - rewrite skipn_app, Nat.sub_diag, skipn_all. reflexivity.
Qed.

Lemma len_nat (b : bytes) (n : nat) : len b = Z.of_nat n -> length b = n.
Proof. unfold len. lia. Qed.

Lemma to4_len ipb a : to4 ipb = Some a -> length a = 4%nat.
Proof.
  unfold to4. destruct (len ipb =? 4) eqn:E4.
  - intros [= <-]. apply Z.eqb_eq in E4. now apply (len_nat _ 4) in E4.
  - destruct (len ipb =? 16) eqn:E16; cbn [andb]; [|discriminate].
    destruct (bytes_eqb _ _); [|discriminate]. intros [= <-].
    apply Z.eqb_eq in E16. apply (len_nat _ 16) in E16.
    change (length (skipn 12 ipb) = 4%nat). rewrite skipn_length. lia.
Qed.
Lemma to16_len ipb a : to16 ipb = Some a -> length a = 16%nat.
Proof.
  unfold to16. destruct (len ipb =? 4) eqn:E4.
  - intros [= <-]. apply Z.eqb_eq in E4. apply (len_nat _ 4) in E4.
    change (length (v4prefix ++ ipb) = 16%nat). rewrite app_length, E4. reflexivity.
  - destruct (len ipb =? 16) eqn:E16; [|discriminate]. intros [= <-].
    apply Z.eqb_eq in E16. now apply (len_nat _ 16) in E16.
Qed.

Lemma canon_encode n :
  encode n = match canon n with Some (t, a, m) => Some (t :: a ++ m) | None => None end.
Proof. unfold encode, canon. destruct (to4 (ip n)); [reflexivity|]. now destruct (to16 (ip n)). Qed.

Lemma canon_shape n t a m : canon n = Some (t, a, m) ->
  (t = 0 /\ length a = 4%nat) \/ (t = 1 /\ length a = 16%nat).
Proof.
  unfold canon. destruct (to4 (ip n)) eqn:E4.
  - intros [= <- <- <-]. left. split; [reflexivity|]. eapply to4_len; eauto.
  - destruct (to16 (ip n)) eqn:E16; [|discriminate].
    intros [= <- <- <-]. right. split; [reflexivity|]. eapply to16_len; eauto.
Qed.

(* decoding a key returns the canonical content when the mask has the
   family's length (what ParseIPNet's default masks and CIDR masks give) *)
Lemma decode_encode n k t a m :
  encode n = Some k -> canon n = Some (t, a, m) -> length m = length a ->
  decode k = Some {| ip := a; mask := m |}.
Proof.
  intros Hk Hc Hm. rewrite canon_encode, Hc in Hk. injection Hk as <-.
  destruct (split_at a m) as [Hf Hs].
  destruct (canon_shape _ _ _ _ Hc) as [[-> Ha]|[-> Ha]]; unfold decode.
  - change (0 =? 0) with true. cbv iota.
    rewrite app_length, Hm, Ha. cbn [Nat.add Nat.eqb].
    rewrite <- Ha, Hf, Hs. reflexivity.
  - change (1 =? 0) with false. change (1 =? 1) with true. cbv iota.
    rewrite app_length, Hm, Ha. cbn [Nat.add Nat.eqb].
    rewrite <- Ha, Hf, Hs. reflexivity.
Qed.

(* the key determines family, address and mask: distinct networks never
   share a record *)
Lemma encode_inj n1 n2 k :
  encode n1 = Some k -> encode n2 = Some k -> canon n1 = canon n2.
Proof.
  rewrite !canon_encode. destruct (canon n1) as [[[t1 a1] m1]|] eqn:C1; [|discriminate].
  destruct (canon n2) as [[[t2 a2] m2]|] eqn:C2; [|discriminate].
  intros [= <-] [= Ht Ham]. subst t2.
  assert (length a1 = length a2) as Hl.
  { destruct (canon_shape _ _ _ _ C1) as [[-> ?]|[-> ?]],
             (canon_shape _ _ _ _ C2) as [[? ?]|[? ?]]; congruence. }
  assert (a2 = a1 /\ m2 = m1) as [-> ->]; [|reflexivity].
  { clear -Hl Ham. revert a2 Hl Ham. induction a1 as [|x a1 IH]; intros [|y a2] Hl Ham;
      cbn in *; try discriminate; [now split|].
    injection Ham as -> Ham. destruct (IH a2) as [-> ->]; auto. }
Qed.

(* the same canonical content always yields the same key *)
Lemma encode_canon n1 n2 : canon n1 = canon n2 -> encode n1 = encode n2.
Proof. intros H. now rewrite !canon_encode, H. Qed.

(* 4-byte and 16-byte (IPv4-mapped) forms of one IPv4 address: one record *)
Lemma encode_v4_forms a m : length a = 4%nat ->
  encode {| ip := a; mask := m |} = encode {| ip := v4prefix ++ a; mask := m |}.
Proof.
  intros Ha. apply encode_canon. unfold canon; cbn [ip mask].
  unfold to4, len. rewrite app_length, Ha. cbn [length Nat.add v4prefix].
  change (Z.of_nat 4 =? 4) with true. change (Z.of_nat 16 =? 4) with false.
  change (Z.of_nat 16 =? 16) with true. cbv iota. cbn [andb].
  destruct a as [|a0 [|a1 [|a2 [|a3 [|? ?]]]]]; try discriminate. reflexivity.
Qed.

(* ---------------- association list ---------------- *)
Lemma s_get_del_same s k : s_get (s_del s k) k = None.
Proof.
  unfold s_get, s_del. induction s as [|[k' r] s IH]; cbn; [reflexivity|].
  destruct (bytes_eqb k' k) eqn:E; cbn; [exact IH|]. now rewrite E.
Qed.
Lemma s_get_del_other s k k' : bytes_eqb k' k = false -> s_get (s_del s k') k = s_get s k.
Proof.
  intros Hne. unfold s_get, s_del. induction s as [|[k0 r] s IH]; cbn; [reflexivity|].
  destruct (bytes_eqb k0 k') eqn:E; cbn.
  - apply bytes_eqb_eq in E; subst. rewrite Hne. exact IH.
  - destruct (bytes_eqb k0 k); [reflexivity|exact IH].
Qed.
Lemma s_get_put_same s k r : s_get (s_put s k r) k = Some r.
Proof. unfold s_put, s_get. cbn. now rewrite bytes_eqb_refl. Qed.
Lemma s_get_put_other s k k' r : bytes_eqb k' k = false -> s_get (s_put s k' r) k = s_get s k.
Proof.
  intros Hne. unfold s_put. unfold s_get at 1. cbn. rewrite Hne.
  now apply s_get_del_other.
Qed.

(* ---------------- the store tracks the history ---------------- *)
(* like write_effect, but also with the lazy deletion a Status performs *)
Definition lazy_effect (k : bytes) (cur : option rec) (o : op) : option rec :=
  match o with
  | Status n now =>
    match encode n with
    | Some k' =>
      if bytes_eqb k' k
      then match cur with
           | Some r => if now <? expiry r * ns then cur else None
           | None => None
           end
      else cur
    | None => cur
    end
  | _ => write_effect k cur o
  end.

Lemma step_get s o k : s_get (fst (step s o)) k = lazy_effect k (s_get s k) o.
Proof.
  destruct o as [n r now dur|n|n now|]; cbn [step lazy_effect write_effect].
  - destruct (encode n) as [k'|]; cbn [fst]; [|reflexivity].
    destruct (bytes_eqb k' k) eqn:E.
    + apply bytes_eqb_eq in E; subst. apply s_get_put_same.
    + now apply s_get_put_other.
  - destruct (encode n) as [k'|]; cbn [fst]; [|reflexivity].
    destruct (bytes_eqb k' k) eqn:E.
    + apply bytes_eqb_eq in E; subst. apply s_get_del_same.
    + now apply s_get_del_other.
  - destruct (encode n) as [k'|]; cbn [fst]; [|reflexivity].
    destruct (bytes_eqb k' k) eqn:E.
    + apply bytes_eqb_eq in E; subst.
      destruct (s_get s k) as [r|] eqn:G; cbn [fst]; [|now rewrite G].
      destruct (now <? expiry r * ns); cbn [fst]; [exact G|apply s_get_del_same].
    + destruct (s_get s k') as [r|]; cbn [fst]; [|reflexivity].
      destruct (now <? expiry r * ns); cbn [fst]; [reflexivity|now apply s_get_del_other].
  - reflexivity.
Qed.

Lemma run_fst_cons s o ops : fst (run s (o :: ops)) = fst (run (fst (step s o)) ops).
Proof. cbn [run]. destruct (step s o) as [s1 ob]. cbn [fst]. now destruct (run s1 ops). Qed.

Lemma run_get s ops k :
  s_get (fst (run s ops)) k = fold_left (lazy_effect k) ops (s_get s k).
Proof.
  revert s; induction ops as [|o ops IH]; intros s; [reflexivity|].
  rewrite run_fst_cons, IH, step_get. reflexivity.
Qed.

(* lazily deleted records are exactly records that no later query (at a
   later clock reading) could see as banned *)
Definition R (t : Z) (c1 c2 : option rec) : Prop :=
  c1 = c2 \/ (c1 = None /\ exists r, c2 = Some r /\ expiry r * ns <= t).

Lemma R_mono t t' c1 c2 : t <= t' -> R t c1 c2 -> R t' c1 c2.
Proof. intros Ht [H|[H [r [H2 H3]]]]; [now left|right; split; [exact H|exists r; split; [exact H2|lia]]]. Qed.

Lemma fold_R k ops : forall t c1 c2 q,
  R t c1 c2 -> mono_from t (times ops ++ [q]) ->
  answer (fold_left (lazy_effect k) ops c1) q = answer (fold_left (write_effect k) ops c2) q.
Proof.
  induction ops as [|o ops IH]; intros t c1 c2 q HR Hm.
  - cbn in *. destruct Hm as [Htq _].
    destruct HR as [->|[-> [r [-> Hr]]]]; [reflexivity|].
    cbn. destruct (Z.ltb_spec q (expiry r * ns)); [lia|reflexivity].
  - cbn [fold_left]. destruct o as [n r now dur|n|n now|].
    + cbn [times app mono_from] in Hm. destruct Hm as [Ht Hm].
      apply (IH now); [|exact Hm].
      cbn [lazy_effect write_effect]. destruct (encode n) as [k'|].
      * destruct (bytes_eqb k' k); [now left|now apply (R_mono t)].
      * now apply (R_mono t).
    + cbn [times] in Hm. apply (IH t); [|exact Hm].
      cbn [lazy_effect write_effect]. destruct (encode n) as [k'|]; [|exact HR].
      destruct (bytes_eqb k' k); [now left|exact HR].
    + cbn [times app mono_from] in Hm. destruct Hm as [Ht Hm].
      apply (IH now); [|exact Hm].
      cbn [lazy_effect write_effect]. destruct (encode n) as [k'|]; [|now apply (R_mono t)].
      destruct (bytes_eqb k' k); [|now apply (R_mono t)].
      destruct HR as [->|[-> [r [-> Hr]]]].
      * destruct c2 as [r|]; [|now left].
        destruct (Z.ltb_spec now (expiry r * ns)); [now left|].
        right. split; [reflexivity|]. exists r. split; [reflexivity|lia].
      * right. split; [reflexivity|]. exists r. split; [reflexivity|lia].
    + cbn [times] in Hm. apply (IH t); [exact HR|exact Hm].
Qed.

Lemma monotone_from l : monotone l -> l <> [] -> exists t, mono_from t l.
Proof. destruct l as [|x r]; [congruence|]. intros H _. exists x. cbn. split; [lia|exact H]. Qed.

Lemma status_obs s n k q : encode n = Some k ->
  snd (step s (Status n q)) = answer (s_get s k) q.
Proof.
  intros E. cbn [step]. rewrite E. destruct (s_get s k) as [r|]; [|reflexivity].
  cbn [answer]. now destruct (q <? expiry r * ns).
Qed.

(* MAIN: the answer to a status query is determined by the history *)
Lemma status_exact ops n k q :
  encode n = Some k -> monotone (times ops ++ [q]) ->
  snd (step (fst (run [] ops)) (Status n q)) = spec_status ops k q.
Proof.
  intros E Hm. rewrite (status_obs _ _ k) by exact E. rewrite run_get.
  destruct (monotone_from _ Hm) as [t Ht]; [now destruct (times ops)|].
  unfold spec_status, last_write. apply (fold_R k ops t); [now left|exact Ht].
Qed.

(* ---------------- the model satisfies its own monitor ---------------- *)
Lemma times_app a b : times (a ++ b) = times a ++ times b.
Proof.
  induction a as [|o a IH]; [reflexivity|].
  destruct o; cbn [app times]; rewrite ?IH; reflexivity.
Qed.

Lemma mono_from_prefix t a b : mono_from t (a ++ b) -> mono_from t a.
Proof. revert t; induction a as [|x a IH]; intros t; cbn; [trivial|]. intros [H1 H2]. split; eauto. Qed.
Lemma monotone_prefix a b : monotone (a ++ b) -> monotone a.
Proof. destruct a as [|x a]; cbn; [trivial|]. apply mono_from_prefix. Qed.

Lemma run_snd_cons s o ops :
  snd (run s (o :: ops)) = snd (step s o) :: snd (run (fst (step s o)) ops).
Proof. cbn [run]. destruct (step s o) as [s1 ob]. cbn [fst snd]. now destruct (run s1 ops). Qed.

Lemma run_app_fst s a b : fst (run s (a ++ b)) = fst (run (fst (run s a)) b).
Proof.
  revert s; induction a as [|o a IH]; intros s; [reflexivity|].
  rewrite <- app_comm_cons, !run_fst_cons. apply IH.
Qed.

Lemma model_holds_from hist ops :
  monotone (times (hist ++ ops)) ->
  holds_from hist (combine ops (snd (run (fst (run [] hist)) ops))) = true.
Proof.
  revert hist; induction ops as [|o ops IH]; intros hist Hm; [reflexivity|].
  rewrite run_snd_cons. cbn [combine holds_from].
  apply andb_true_iff. split.
  - destruct o as [n r now dur|n|n now|]; cbn [step].
    + destruct (encode n); reflexivity.
    + destruct (encode n); reflexivity.
    + destruct (encode n) as [k|] eqn:E; [|reflexivity].
      assert (Hs := status_exact hist n k now E).
      cbn [step] in Hs. rewrite E in Hs. rewrite Hs.
      * unfold spec_status, answer. destruct (last_write hist k) as [r|]; cbn.
        -- destruct (now <? expiry r * ns); cbn; rewrite ?Z.eqb_refl; reflexivity.
        -- reflexivity.
      * rewrite times_app in Hm. cbn [times] in Hm.
        change (now :: times ops) with ([now] ++ times ops) in Hm.
        rewrite app_assoc in Hm. now apply monotone_prefix in Hm.
    + reflexivity.
  - replace (fst (step (fst (run [] hist)) o)) with (fst (run [] (hist ++ [o]))).
    + apply IH. now rewrite <- app_assoc.
    + rewrite run_app_fst, run_fst_cons. reflexivity.
Qed.

Lemma model_holds ops : monotone (times ops) -> holds (combine ops (snd (run [] ops))) = true.
Proof. intros H. apply (model_holds_from [] ops H). Qed.

(* the recorded expiry brackets the requested one to within one second *)
Lemma expiry_bracket now dur :
  now + dur - ns < ((now + dur) / ns) * ns <= now + dur.
Proof.
  unfold ns. pose proof (Z.div_mod (now + dur) 1000000000 ltac:(lia)).
  pose proof (Z.mod_pos_bound (now + dur) 1000000000 ltac:(lia)). lia.
Qed.
