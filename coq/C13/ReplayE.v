(* C13 (enforcement half) — replay of the ban-vs-registration scenarios.
   A case is the order that the harness pinned on the real ChainService and
   what it observed once the system was quiescent. *)
From Coq Require Import ZArith List Bool.
From Verif Require Import C13.Enforce.
Import ListNotations.
Open Scope Z_scope.

(* the schedule an order stands for; the tail lets both activities finish
   in every variant:
   0 held      the registration's lookup has read the store, its return is
               held; ban; release
   1 prehold   the registration's lookup is held before it reads; ban; release
   2 ban-first the ban completes before the connection finishes its handshake
   3 reg-first the peer is registered before the ban *)
Definition order_sched (o : Z) : list thread :=
  (if o =? 0 then [TReg; TReg; TBan; TBan]
   else if o =? 1 then [TReg; TBan; TBan]
   else if o =? 2 then [TBan; TBan; TBan]
   else [TReg; TReg; TReg])
  ++ [TReg; TReg; TReg; TBan; TBan; TBan].

(* case: order, then the observations: BanPeer's peer-table query had to
   wait while the lookup was held; IsBanned(B); B still connected *)
Definition rcase := (Z * bool * bool * bool)%type.

Definition race_verdict (ic : Z * rcase) : list (Z * Z * Z * Z) :=
  let '(id, (o, waited, banned, conn)) := ic in
  let sch := order_sched o in
  let s := erun true e_init sch in
  (if Bool.eqb (ban_waited true e_init sch) waited && Bool.eqb (e_banned s) banned
      && Bool.eqb (e_conn s) conn && finished s
   then [] else [(id, 1, o, 0)]) ++
  (if banned && negb conn then [] else [(id, 2, o, 0)]).

Definition run_rcases (cs : list (Z * rcase)) : list (Z * Z * Z * Z) := flat_map race_verdict cs.
