(* C13 — specification vocabulary, independent of the store representation:
   what a status query must answer is a function of the HISTORY of
   operations alone. *)
From Coq Require Import ZArith List Bool.
From Verif Require Import C13.Model.
Import ListNotations.
Open Scope Z_scope.

(* effect of one operation of the history on "the last ban written for key k" *)
Definition write_effect (k : bytes) (cur : option rec) (o : op) : option rec :=
  match o with
  | Ban n r now dur =>
    match encode n with
    | Some k' => if bytes_eqb k' k
                 then Some {| expiry := (now + dur) / ns; reason := r mod 256 |}
                 else cur
    | None => cur
    end
  | Unban n =>
    match encode n with
    | Some k' => if bytes_eqb k' k then None else cur
    | None => cur
    end
  | _ => cur
  end.

(* the most recent ban of k that no later unban lifted *)
Definition last_write (ops : list op) (k : bytes) : option rec :=
  fold_left (write_effect k) ops None.

Definition not_banned : obs := OStatus false 0 0.

Definition answer (cur : option rec) (q : Z) : obs :=
  match cur with
  | Some r => if q <? expiry r * ns then OStatus true (reason r) (expiry r) else not_banned
  | None => not_banned
  end.

(* THE SPEC: banned, with the recorded reason, strictly before the recorded
   expiry; not banned from then on, or once lifted, or if never banned. *)
Definition spec_status (ops : list op) (k : bytes) (q : Z) : obs :=
  answer (last_write ops k) q.

(* clock readings carried by the history, in order *)
Fixpoint times (ops : list op) : list Z :=
  match ops with
  | [] => []
  | Ban _ _ now _ :: r => now :: times r
  | Status _ now :: r => now :: times r
  | _ :: r => times r
  end.

Fixpoint mono_from (t : Z) (ts : list Z) : Prop :=
  match ts with
  | [] => True
  | x :: r => t <= x /\ mono_from x r
  end.

Definition monotone (ts : list Z) : Prop :=
  match ts with [] => True | x :: r => mono_from x r end.

(* canonical content of a network: family tag, address bytes, mask *)
Definition canon (n : ipnet) : option (Z * bytes * bytes) :=
  match to4 (ip n) with
  | Some a => Some (0, a, mask n)
  | None => match to16 (ip n) with
            | Some a => Some (1, a, mask n)
            | None => None
            end
  end.

(* boolean monitor used on implementation traces: every Status observation
   of the trace equals the spec's answer for the history before it *)
Fixpoint holds_from (hist : list op) (tr : list (op * obs)) : bool :=
  match tr with
  | [] => true
  | (o, ob) :: rest =>
    let ok :=
      match o with
      | Status n q =>
        match encode n with
        | Some k =>
          match ob, spec_status hist k q with
          | OStatus b1 r1 e1, OStatus b2 r2 e2 =>
              Bool.eqb b1 b2 && (r1 =? r2) && (e1 =? e2)
          | _, _ => false
          end
        | None => match ob with OErr => true | _ => false end
        end
      | Ban n _ _ _ | Unban n =>
        match encode n, ob with
        | Some _, OOk => true
        | None, OErr => true
        | _, _ => false
        end
      | Reopen => match ob with OOk => true | _ => false end
      end in
    ok && holds_from (hist ++ [o]) rest
  end.

Definition holds (tr : list (op * obs)) : bool := holds_from [] tr.

(* ------------------------------------------------------------------ *)
(* The public layer (ChainService.BanPeer / UnbanPeer / IsBanned), in the
   same vocabulary: the store operation a public call amounts to (none if
   its address is not an IP), and what IsBanned must answer — the banned bit
   of the store-level spec for the parsed address's network, given the
   history of public calls alone. *)
Definition lower (o : pop) : list op :=
  match o with
  | PBan p r now dur =>
    match parse_ipnet p None with Some n => [Ban n r now dur] | None => [] end
  | PUnban p =>
    match parse_ipnet p None with Some n => [Unban n] | None => [] end
  | PIsBanned p now =>
    match parse_ipnet p None with Some n => [Status n now] | None => [] end
  end.

Definition lower_all (h : list pop) : list op := flat_map lower h.

Definition banned_bit (o : obs) : bool :=
  match o with OStatus b _ _ => b | _ => false end.

(* THE SPEC of IsBanned after the public history [h], for an address whose
   host parses to [p], asked at clock reading [q] *)
Definition public_spec (h : list pop) (p : bytes) (q : Z) : bool :=
  match parse_ipnet p None with
  | Some n =>
    match encode n with
    | Some k => banned_bit (spec_status (lower_all h) k q)
    | None => false
    end
  | None => false
  end.

(* clock readings of a public history: those of parseable calls (the others
   never reach the store) *)
Definition ptimes (h : list pop) : list Z := times (lower_all h).

(* two ParseIP results denote one IP address (4-byte and 16-byte forms) *)
Definition same_ip (p1 p2 : bytes) : Prop := to16 p1 = to16 p2 /\ to16 p1 <> None.

(* whether BanPeer / UnbanPeer on this address can succeed *)
Definition addr_ok (p : bytes) : bool :=
  match parse_ipnet p None with
  | Some n => match encode n with Some _ => true | None => false end
  | None => false
  end.

(* monitor for traces of the public entries: every IsBanned answer is the
   spec's for the history of public calls before it; BanPeer / UnbanPeer
   succeed exactly on addresses that denote a network *)
Fixpoint pholds_from (hist : list pop) (tr : list (pop * pobs)) : bool :=
  match tr with
  | [] => true
  | (o, ob) :: rest =>
    let ok :=
      match o, ob with
      | PIsBanned p q, PAns b => Bool.eqb b (public_spec hist p q)
      | PBan p _ _ _, POk | PUnban p, POk => addr_ok p
      | PBan p _ _ _, PErr | PUnban p, PErr => negb (addr_ok p)
      | _, _ => false
      end in
    ok && pholds_from (hist ++ [o]) rest
  end.

Definition pholds (tr : list (pop * pobs)) : bool := pholds_from [] tr.
