(* C13 — specification vocabulary, independent of the store representation:
   what a status query must answer is a function of the HISTORY of
   operations alone. *)
From Coq Require Import ZArith List Bool.
From Verif Require Import C13.Model.
Import ListNotations.
Open Scope Z_scope.

(* effect of one operation of the history on "the last ban written for key k" *)
Definition write_effect (k : bytes) (cur : option rec) (o : op) : option rec :=
  match o with
  | Ban n r now dur =>
    match encode n with
    | Some k' => if bytes_eqb k' k
                 then Some {| expiry := (now + dur) / ns; reason := r mod 256 |}
                 else cur
    | None => cur
    end
  | Unban n =>
    match encode n with
    | Some k' => if bytes_eqb k' k then None else cur
    | None => cur
    end
  | _ => cur
  end.

(* the most recent ban of k that no later unban lifted *)
Definition last_write (ops : list op) (k : bytes) : option rec :=
  fold_left (write_effect k) ops None.

Definition not_banned : obs := OStatus false 0 0.

Definition answer (cur : option rec) (q : Z) : obs :=
  match cur with
  | Some r => if q <? expiry r * ns then OStatus true (reason r) (expiry r) else not_banned
  | None => not_banned
  end.

(* THE SPEC: banned, with the recorded reason, strictly before the recorded
   expiry; not banned from then on, or once lifted, or if never banned. *)
Definition spec_status (ops : list op) (k : bytes) (q : Z) : obs :=
  answer (last_write ops k) q.

(* clock readings carried by the history, in order *)
Fixpoint times (ops : list op) : list Z :=
  match ops with
  | [] => []
  | Ban _ _ now _ :: r => now :: times r
  | Status _ now :: r => now :: times r
  | _ :: r => times r
  end.

Fixpoint mono_from (t : Z) (ts : list Z) : Prop :=
  match ts with
  | [] => True
  | x :: r => t <= x /\ mono_from x r
  end.

Definition monotone (ts : list Z) : Prop :=
  match ts with [] => True | x :: r => mono_from x r end.

(* canonical content of a network: family tag, address bytes, mask *)
Definition canon (n : ipnet) : option (Z * bytes * bytes) :=
  match to4 (ip n) with
  | Some a => Some (0, a, mask n)
  | None => match to16 (ip n) with
            | Some a => Some (1, a, mask n)
            | None => None
            end
  end.

(* boolean monitor used on implementation traces: every Status observation
   of the trace equals the spec's answer for the history before it *)
Fixpoint holds_from (hist : list op) (tr : list (op * obs)) : bool :=
  match tr with
  | [] => true
  | (o, ob) :: rest =>
    let ok :=
      match o with
      | Status n q =>
        match encode n with
        | Some k =>
          match ob, spec_status hist k q with
          | OStatus b1 r1 e1, OStatus b2 r2 e2 =>
              Bool.eqb b1 b2 && (r1 =? r2) && (e1 =? e2)
          | _, _ => false
          end
        | None => match ob with OErr => true | _ => false end
        end
      | Ban n _ _ _ | Unban n =>
        match encode n, ob with
        | Some _, OOk => true
        | None, OErr => true
        | _, _ => false
        end
      | Reopen => match ob with OOk => true | _ => false end
      end in
    ok && holds_from (hist ++ [o]) rest
  end.

Definition holds (tr : list (op * obs)) : bool := holds_from [] tr.
