(* C03 — the at-tip fetch: the honest answer wins; F15 witness. *)
From stdpp Require Import gmap list.
From Coq Require Import ZArith Lia.
From Verif Require Import S1.Model C03.Model C03.Spec C03.ProofsF C03.Proofs.
Open Scope Z_scope.

(* the number of headers asked for is between 0 and MaxCFHeadersPerMsg *)
Lemma cf_range_bound v h stop n : cf_range v h = Some (stop, n) -> 0 <= n <= MAXCFH.
Proof.
  unfold cf_range. destruct (v_btip v) as [[tipx tiph]|]; [|done].
  destruct (u32 (tiph - h) >=? MAXCFH) eqn:E.
  - destruct (v_bh v _); [|done]. intros [= _ <-]. unfold u32, MAXCFH, U32 in *.
    replace ((h + 2000 - 1) mod 4294967296 - h + 1) with ((h + 2000 - 1) mod 4294967296 + (1 - h)) by ring.
    rewrite Zplus_mod_idemp_l. replace (h + 2000 - 1 + (1 - h)) with 2000 by ring. rewrite Z.mod_small by lia. lia.
  - intros [= _ <-]. unfold u32, MAXCFH, U32 in *.
    rewrite Z.geb_leb in E. apply Z.leb_gt in E.
    replace (tiph - h + 1) with ((tiph - h) + 1) by ring. rewrite <- Zplus_mod_idemp_l.
    pose proof (Z.mod_pos_bound (tiph - h) 4294967296 ltac:(lia)) as Hb.
    rewrite Z.mod_small by lia. lia.
Qed.

Lemma accept_stop stop n raws : forall seen q m,
  In (q, m) (accept stop n raws seen) -> m_stop m = stop.
Proof.
  induction raws as [|r rest IH]; intros seen q m Hin; [destruct Hin|].
  cbn [accept] in Hin.
  destruct (negb (mem (r_peer r) seen) && r_reg r && (m_stop (r_msg r) =? stop)
            && (zlen (m_hashes (r_msg r)) =? n)) eqn:E.
  - destruct Hin as [[= <- <-]|Hin]; [|eauto].
    apply andb_true_iff in E as [E _]. apply andb_true_iff in E as [_ E]. by apply Z.eqb_eq in E.
  - eauto.
Qed.

Lemma list_ext_lookup (a b : list Z) :
  length a = length b -> (forall (i : nat) x y, a !! i = Some x -> b !! i = Some y -> x = y) -> a = b.
Proof.
  revert b. induction a as [|x a IH]; intros [|y b] Hl Hall; try done. cbn in Hl.
  f_equal.
  - apply (Hall 0%nat); done.
  - apply IH; [lia|]. intros i u w Hu Hw. apply (Hall (S i)); done.
Qed.

Lemma zget_lookup (l : list Z) (i : nat) x :
  Z.of_nat i < 1000000 -> l !! i = Some x -> zget l (Z.of_nat i) = Some x.
Proof.
  intros Hi Hl. unfold zget.
  pose proof (lookup_lt_Some _ _ _ Hl) as Hlt.
  replace (0 <=? Z.of_nat i) with true by (symmetry; apply Z.leb_le; lia).
  replace (Z.of_nat i <? zlen l) with true by (symmetry; apply Z.ltb_lt; unfold zlen; lia).
  cbn. by rewrite zn_of_nat.
Qed.

Lemma cfmsg_eq a b : m_prev a = m_prev b -> m_stop a = m_stop b -> m_hashes a = m_hashes b -> a = b.
Proof. destruct a, b; cbn; intros -> -> ->; done. Qed.

(* At the tip: with one honest peer among the answers and every other
   behaviour in the class, whatever the order of the answers: the honest peer
   is not banned, the message written is the honest one, and every peer whose
   accepted answer differs from it has been banned by then. *)
Ltac utriv := cbn [fst snd]; split; [intros []|split; intros ? [=]].

Theorem uncheckpointed_honest_wins v env raws p tm tfilt ftip fh :
  v_ftip v = Some (ftip, fh) ->
  honest_in tm p (fst (get_headers v (u32 (fh + 1)) raws)) ->
  m_prev tm = ftip ->
  (forall i : nat, (i < zn (snd (get_headers v (u32 (fh + 1)) raws)))%nat ->
                   good_idx env tfilt tm (u32 (fh + 1)) p (Z.of_nat i)) ->
  ~ In p (fst (get_uncheckpointed v env raws)) /\
  (forall m, snd (get_uncheckpointed v env raws) = UWrite m -> m = tm) /\
  (forall m, snd (get_uncheckpointed v env raws) = UWrite m ->
     forall q mq, In (q, mq) (fst (get_headers v (u32 (fh + 1)) raws)) -> mq <> tm ->
                  In q (fst (get_uncheckpointed v env raws))).
Proof.
  intros Hft Hh Hprev Hgood.
  unfold get_uncheckpointed, get_uncheckpointed_ix, full_ix. rewrite Hft.
  destruct (v_btip v) as [[bx bh]|]; [|utriv].
  destruct (bh <? fh); [utriv|]. destruct (bh =? fh); [utriv|].
  destruct (get_headers v (u32 (fh + 1)) raws) as [hs n] eqn:Eg. cbn [fst snd] in *.
  pose proof (get_headers_len _ _ _ _ _ Eg) as Hlen.
  assert (Hstop : forall q m, In (q, m) hs -> m_stop m = m_stop tm).
  { unfold get_headers in Eg. destruct (cf_range v (u32 (fh + 1))) as [[stop n']|]; [|injection Eg as <- <-; intros ? ? []].
    injection Eg as <- <-. intros q m Hq. rewrite (accept_stop _ _ _ _ _ _ Hq).
    symmetry. exact (accept_stop _ _ _ _ _ _ (proj1 Hh)). }
  assert (Hn : 0 <= n < 1000000).
  { unfold get_headers in Eg. destruct (cf_range v (u32 (fh + 1))) as [[stop n']|] eqn:Ec.
    - injection Eg as _ <-. apply cf_range_bound in Ec. unfold MAXCFH in Ec. lia.
    - injection Eg as _ <-. lia. }
  set (badprev := List.map fst (List.filter (fun q : Z * cfmsg => negb (m_prev (snd q) =? ftip)) hs)).
  assert (Hpb : ~ In p badprev).
  { unfold badprev. intros (q & Eq & Hq)%in_map_iff. apply filter_In in Hq as [Hq Hpred].
    destruct q as [q m]. cbn in Eq. subst q. rewrite (proj2 Hh m Hq) in Hpred. cbn in Hpred.
    rewrite Hprev, Z.eqb_refl in Hpred. done. }
  pose proof (honest_in_remove tm p badprev hs Hh Hpb) as Hh1.
  destruct (remove_peers badprev hs) as [|h0 hr] eqn:Ehs1.
  { destruct Hh1 as [[] _]. }
  rewrite <- Ehs1 in *. clear h0 hr Ehs1.
  destruct (settle_all env (u32 (fh + 1)) (remove_peers badprev hs) (seq 0 (zn n)) []) as [res bans] eqn:Es.
  assert (Hg2 : forall i, In i (seq 0 (zn n)) -> good_idx env tfilt tm (u32 (fh + 1)) p (Z.of_nat i)).
  { intros i Hi. apply in_seq in Hi. apply Hgood. lia. }
  destruct (settle_all_safe env tfilt tm (u32 (fh + 1)) p _ _ _ _ _ Hg2 Hh1 (fun Hf : In p [] => Hf) Es) as (Ha & _ & Hres).
  destruct res as [hs2|]; cbn [fst snd].
  2:{ split; [rewrite in_app_iff; tauto|]. split; intros m [=]. }
  destruct Hres as (Hsub & Hh2 & Hmm & Hrem).
  (* every remaining answer equals the honest one *)
  assert (Heq : forall q m, In (q, m) hs2 -> m = tm).
  { intros q m Hq. pose proof (Hsub _ Hq) as Hq1. apply Proofs.remove_peers_In in Hq1 as [Hq0 Hnb].
    apply cfmsg_eq.
    - destruct (m_prev m =? ftip) eqn:E; [apply Z.eqb_eq in E; congruence|].
      exfalso. apply mem_false in Hnb. apply Hnb. unfold badprev. apply in_map_iff.
      exists (q, m). split; [done|]. apply filter_In. split; [done|]. cbn. by rewrite E.
    - eauto.
    - apply list_ext_lookup.
      + pose proof (Hlen _ Hq0) as L1. pose proof (Hlen _ (proj1 Hh)) as L2. cbn [snd] in L1, L2. congruence.
      + intros i x y Hx Hy.
        assert (Hi : (i < zn n)%nat).
        { apply lookup_lt_Some in Hx. specialize (Hlen _ Hq0). cbn in Hlen.
          unfold zn. replace ((0 <=? n) && (n <? 1000000)) with true; [lia|].
          symmetry. apply andb_true_iff. split; [apply Z.leb_le|apply Z.ltb_lt]; lia. }
        assert (Hi2 : Z.of_nat i < 1000000).
        { pose proof (zn_lt n). lia. }
        specialize (Hmm i ltac:(apply in_seq; lia)). rewrite mismatch_false in Hmm.
        apply (Hmm (q, m) (p, tm)); [done|apply Hh2|by apply zget_lookup|by apply zget_lookup]. }
  destruct (List.find _ hs2) as [[q m]|] eqn:Ef; cbn [fst snd].
  - split; [rewrite in_app_iff; tauto|]. apply find_some in Ef as [Hq _].
    split.
    + intros m' [= <-]. eauto.
    + intros m' _ q' mq Hq' Hne. apply in_app_iff.
      destruct (mem q' badprev) eqn:Em; [left; by apply mem_In|right].
      destruct (Hrem (q', mq)) as [Hin|Hin]; [by apply Proofs.remove_peers_In| |done].
      exfalso. apply Hne. eauto.
  - split; [rewrite in_app_iff; tauto|]. split; intros m [=].
Qed.

(* ---------- F15 (repaired): a peer lying only in its checkpoint list ---------- *)
(* 2001 blocks (tokens 1..2001), filter store at genesis; peer 1 serves the
   true checkpoints [501; 502], peer 2 serves [666; 502]; both serve the same
   (true) cfheaders for heights 0..1999, whose first 1001 filter hashes chain
   to 501.  Before the repair nobody was banned and no list was returned (the
   caller retried with the same peers for ever); now peer 2 is banned because
   its checkpoint contradicts the headers it serves, and the true list is
   returned. *)
Definition f15_H (fh prev : Z) : Z := if fh =? 11000 then 501 else fh.
Definition f15_view : cview :=
  aview {| abl := List.map Z.of_nat (seq 1 2001); afl := [7] |}.
Definition f15_msg : cfmsg :=
  {| m_prev := 0; m_stop := 2000; m_hashes := List.map Z.of_nat (seq 10000 2000) |}.
Definition f15_raws : list rawresp :=
  [ {| r_peer := 1; r_reg := true; r_msg := f15_msg |};
    {| r_peer := 2; r_reg := true; r_msg := f15_msg |} ].
Definition f15_env : denv :=
  {| e_filters := fun _ => []; e_hdr_ok := fun _ => true; e_block_ok := fun _ => true;
     e_fo := fun _ => {| fo_hash := fun f => f; fo_verify := fun _ => Some 0 |} |}.
Definition f15_cps : list (Z * list Z) := [(1, [501; 502]); (2, [666; 502])].

Lemma f15_fixed_run :
  resolve_conflict f15_H (fun _ => None) f15_view f15_env f15_raws 0 f15_cps = ([2], Some [501; 502]) /\
  resolve_conflict f15_H (fun _ => None) f15_view f15_env f15_raws 2 f15_cps = ([2], Some [501; 502]) /\
  fst (get_headers f15_view 0 f15_raws) = [(1, f15_msg); (2, f15_msg)].
Proof. repeat split; vm_compute; reflexivity. Qed.

(* a run in which the honest peer wins: peer 2 advertises a false filter hash
   at height 3 and serves a filter that omits a script *)
Definition nv_view : cview := aview {| abl := [1; 2; 3; 4; 5]; afl := [7; 8] |}.
Definition nv_true : cfmsg := {| m_prev := 8; m_stop := 5; m_hashes := [22; 23; 24] |}.
Definition nv_lie : cfmsg := {| m_prev := 8; m_stop := 5; m_hashes := [22; 99; 24] |}.
Definition nv_raws : list rawresp :=
  [ {| r_peer := 2; r_reg := true; r_msg := nv_lie |};
    {| r_peer := 1; r_reg := true; r_msg := nv_true |} ].
(* filter tokens: 100+h true filter of height h (hash 20+h), 199 doctored (hash 99) *)
Definition nv_env : denv :=
  {| e_filters := fun t => if t =? 3 then [(2, 199); (1, 103)] else [(1, 100 + t); (2, 100 + t)];
     e_hdr_ok := fun _ => true; e_block_ok := fun _ => true;
     e_fo := fun _ => {| fo_hash := fun f => if f =? 199 then 99 else f - 80;
                         fo_verify := fun f => if f =? 199 then None else Some 0 |} |}.

Lemma nonvacuous_run :
  get_uncheckpointed nv_view nv_env nv_raws = ([2], UWrite nv_true) /\
  honest_in nv_true 1 (fst (get_headers nv_view (u32 (1 + 1)) nv_raws)) /\
  (forall i : nat, (i < zn (snd (get_headers nv_view (u32 (1 + 1)) nv_raws)))%nat ->
     good_idx nv_env (fun t => 100 + t) nv_true (u32 (1 + 1)) 1 (Z.of_nat i)).
Proof.
  split; [vm_compute; reflexivity|]. split.
  - split; [vm_compute; tauto|]. intros m Hm. vm_compute in Hm.
    destruct Hm as [Hm|[Hm|[]]]; [discriminate Hm|]. injection Hm as <-. reflexivity.
  - intros i Hi. change (zn (snd (get_headers nv_view (u32 (1 + 1)) nv_raws))) with 3%nat in Hi.
    assert (i = 0 \/ i = 1 \/ i = 2)%nat as [-> | [-> | ->]] by lia;
      (unfold good_idx; split; [reflexivity|]; split; [reflexivity|]; split; [|split; [|reflexivity]];
       [intros q g Hq; vm_compute in Hq; destruct Hq as [Hq|[Hq|[]]]; injection Hq as <- <-; vm_compute; tauto
       |vm_compute; apply NoDup_cons; split; [set_solver|apply NoDup_singleton]]).
Qed.
