(* C03 — a dispute round whose block fetch fails is no verdict. *)
From stdpp Require Import gmap list.
From Coq Require Import ZArith Lia.
From Verif Require Import S1.Model C03.Model C03.Spec C03.Proofs.
Open Scope Z_scope.

(* the same environment with no block available *)
Definition env_noblk (env : denv) : denv :=
  {| e_filters := e_filters env; e_hdr_ok := e_hdr_ok env; e_block_ok := fun _ => false; e_fo := e_fo env |}.

(* detectBadPeers without the block: it names peers only on the evidence of
   their own answers (no filter served / filter does not hash to the
   advertised filter hash) - and then the block would not have been asked for
   anyway: the result is that of the round with the block; otherwise it
   reports an error: nobody is named by OP_RETURN counts or majority *)
Lemma detect_bad_noblk hs idx filters hok fo bad :
  detect_bad hs idx filters hok false fo = Some bad ->
  bad <> [] /\
  (forall q, In q bad -> exists m, In (q, m) hs /\
     match lookup q filters with
     | None => True
     | Some f => fo_hash fo f <> default 0 (zget (m_hashes m) idx)
     end) /\
  detect_bad hs idx filters hok true fo = Some bad.
Proof.
  unfold detect_bad. destruct hok; cbn [negb]; [|discriminate].
  set (bad1 := List.filter _ hs). destruct bad1 as [|b0 r0] eqn:E; [discriminate|].
  intros [= <-]. split; [done|]. split; [|done].
  intros q Hq. change (In q (List.map fst (b0 :: r0))) in Hq.
  apply in_map_iff in Hq as ([q' m] & Eq & Hin). cbn in Eq. subst q'.
  rewrite <- E in Hin. apply filter_In in Hin as [Hin Hb]. exists m. split; [done|]. cbn [fst snd] in Hb.
  destruct (lookup q filters) as [f|]; [|done]. apply negb_true_iff, Z.eqb_neq in Hb. done.
Qed.

Lemma detect_bad_noblk_none hs idx filters hok fo :
  detect_bad hs idx filters hok false fo = None \/
  detect_bad hs idx filters hok false fo = detect_bad hs idx filters hok true fo.
Proof.
  unfold detect_bad. destruct hok; cbn [negb]; [|by left].
  destruct (List.filter _ hs); [by left|by right].
Qed.

Section B.
Variable env : denv.

(* a detection loop that ends without the block ends the same way with it *)
Lemma settle_index_noblk startH : forall fuel hs i bans hs' bans',
  settle_index fuel (env_noblk env) startH hs i bans = (Some hs', bans') ->
  settle_index fuel env startH hs i bans = (Some hs', bans').
Proof.
  induction fuel as [|fuel IH]; intros hs i bans hs' bans'; cbn [settle_index]; [discriminate|].
  destruct (mismatch_at hs i); [|done]. cbn [env_noblk e_filters e_hdr_ok e_block_ok e_fo].
  destruct (detect_bad hs i (e_filters env (u32 (startH + i))) (e_hdr_ok env (u32 (startH + i))) false
              (e_fo env (u32 (startH + i)))) as [bad|] eqn:Ed; [|discriminate].
  destruct (detect_bad_noblk _ _ _ _ _ _ Ed) as (_ & _ & Ed').
  (* whatever the block would say, it is not asked for: same peers named *)
  assert (Hsame : forall bok, detect_bad hs i (e_filters env (u32 (startH + i)))
                    (e_hdr_ok env (u32 (startH + i))) bok (e_fo env (u32 (startH + i))) = Some bad).
  { intros [|]; [exact Ed'|exact Ed]. }
  rewrite (Hsame (e_block_ok env (u32 (startH + i)))).
  destruct (length (remove_peers bad hs) =? length hs)%nat; [discriminate|]. apply IH.
Qed.

(* the bans of a detection loop without the block are bans of the loop with it *)
Lemma settle_index_noblk_bans startH : forall fuel hs i bans r bans',
  settle_index fuel (env_noblk env) startH hs i bans = (r, bans') ->
  exists r2 bans2, settle_index fuel env startH hs i bans = (r2, bans2) /\
    forall q, In q bans' -> In q bans2.
Proof.
  induction fuel as [|fuel IH]; intros hs i bans r bans'; cbn [settle_index].
  { intros [= <- <-]. by exists None, bans. }
  destruct (mismatch_at hs i); [|intros [= <- <-]; by exists (Some hs), bans].
  cbn [env_noblk e_filters e_hdr_ok e_block_ok e_fo].
  destruct (detect_bad hs i (e_filters env (u32 (startH + i))) (e_hdr_ok env (u32 (startH + i))) false
              (e_fo env (u32 (startH + i)))) as [bad|] eqn:Ed.
  - destruct (detect_bad_noblk _ _ _ _ _ _ Ed) as (_ & _ & Ed').
    assert (Hsame : forall bok, detect_bad hs i (e_filters env (u32 (startH + i)))
                      (e_hdr_ok env (u32 (startH + i))) bok (e_fo env (u32 (startH + i))) = Some bad).
    { intros [|]; [exact Ed'|exact Ed]. }
    rewrite (Hsame (e_block_ok env (u32 (startH + i)))).
    destruct (length (remove_peers bad hs) =? length hs)%nat.
    + intros [= <- <-]. by exists None, (bans ++ bad).
    + apply IH.
  - intros [= <- <-].
    (* with the block the loop may go on and ban more; it keeps what it had *)
    destruct (detect_bad hs i (e_filters env (u32 (startH + i))) (e_hdr_ok env (u32 (startH + i)))
                (e_block_ok env (u32 (startH + i))) (e_fo env (u32 (startH + i)))) as [bad2|].
    2:{ by exists None, bans. }
    destruct (length (remove_peers bad2 hs) =? length hs)%nat.
    { exists None, (bans ++ bad2). split; [done|]. intros q Hq. apply in_app_iff. by left. }
    destruct (settle_index fuel env startH (remove_peers bad2 hs) i (bans ++ bad2)) as [r2 b2] eqn:Es.
    exists r2, b2. split; [done|]. intros q Hq.
    assert (Hmono : forall fuel hs i bans r b, settle_index fuel env startH hs i bans = (r, b) ->
              forall q, In q bans -> In q b).
    { clear. induction fuel as [|fuel IHf]; intros hs i bans r b; cbn [settle_index]; [by intros [= _ <-]|].
      destruct (mismatch_at hs i); [|by intros [= _ <-]].
      destruct (detect_bad _ _ _ _ _ _) as [bad|]; [|by intros [= _ <-]].
      destruct (_ =? _)%nat; [intros [= _ <-] q Hq; apply in_app_iff; by left|].
      intros Hs q Hq. apply (IHf _ _ _ _ _ Hs). apply in_app_iff. by left. }
    apply (Hmono _ _ _ _ _ _ Es). apply in_app_iff. by left.
Qed.

Lemma settle_all_noblk startH : forall idxs hs bans hs' bans',
  settle_all (env_noblk env) startH hs idxs bans = (Some hs', bans') ->
  settle_all env startH hs idxs bans = (Some hs', bans').
Proof.
  induction idxs as [|i idxs IH]; intros hs bans hs' bans'; cbn [settle_all]; [done|].
  destruct (settle_index (S (length hs)) (env_noblk env) startH hs (Z.of_nat i) bans) as [[hs1|] b1] eqn:E1;
    [|discriminate].
  rewrite (settle_index_noblk _ _ _ _ _ _ _ E1). apply IH.
Qed.

End B.

(* getUncheckpointedCFHeaders: a call that writes although no block can be
   fetched did not need one: same bans, same message as with every block
   available; every other call without blocks reports an error and writes
   nothing *)
Lemma get_uncheckpointed_noblk v env raws bans m :
  get_uncheckpointed v (env_noblk env) raws = (bans, UWrite m) ->
  get_uncheckpointed v env raws = (bans, UWrite m).
Proof.
  unfold get_uncheckpointed, get_uncheckpointed_ix.
  destruct (v_ftip v) as [[ftip fh]|]; [|discriminate]. destruct (v_btip v) as [[bx bh]|]; [|discriminate].
  destruct (bh <? fh); [discriminate|]. destruct (bh =? fh); [discriminate|].
  destruct (get_headers v (u32 (fh + 1)) raws) as [hs n].
  set (hs1 := remove_peers _ hs). destruct hs1 as [|h1 r1] eqn:E1; [discriminate|]. rewrite <- E1. clear E1.
  destruct (settle_all (env_noblk env) (u32 (fh + 1)) hs1 (full_ix hs1 n) []) as [[hs2|] b2] eqn:Es; [|discriminate].
  rewrite (settle_all_noblk env _ _ _ _ _ _ Es). done.
Qed.

(* resolveConflict: likewise for a call that returns a list *)
Lemma resolve_conflict_noblk H hard v env raws hint cps bans l :
  resolve_conflict H hard v (env_noblk env) raws hint cps = (bans, Some l) ->
  resolve_conflict H hard v env raws hint cps = (bans, Some l).
Proof.
  unfold resolve_conflict, resolve_conflict_ix. cbv zeta.
  destruct (remove_peers _ cps) as [|c1 r1] eqn:E1; [discriminate|]. rewrite <- E1. clear E1.
  destruct (check_sanity _ v) as [|d|]; [done| |done].
  destruct (List.filter _ _) as [|c2 r2] eqn:E2; [discriminate|]. rewrite <- E2. clear E2.
  destruct (get_headers v (u32 (d * INTERVAL)) raws) as [hs n].
  destruct (negb (all_eq _)); [discriminate|].
  destruct (settle_all (env_noblk env) (u32 (d * INTERVAL)) hs (full_ix hs n) []) as [[hs'|] b1] eqn:Es; [|discriminate].
  rewrite (settle_all_noblk env _ _ _ _ _ _ Es). done.
Qed.
