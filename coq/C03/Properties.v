(* C03 — the property theorems, and nothing else. *)
From stdpp Require Import gmap list.
From Coq Require Import ZArith Lia.
From Verif Require Import S1.Model C07.Spec C07.Proofs C03.Model C03.Spec
     C03.ProofsS C03.ProofsF C03.Proofs C03.ProofsR C03.ProofsU C03.ProofsP C03.ProofsC C03.ProofsV C03.ProofsB.
Open Scope Z_scope.

(* ===================== structural layer ===================== *)

(* For EVERY history of block-header appends (as the header sync commits
   them), writeCFHeadersMsg calls with ANY message (any prev header, stop
   hash, number of filter hashes below 2^32) and rollBackToHeight calls with
   any target, starting from freshly created stores: both files hold whole
   entries only; the filter chain is never longer than the block chain and
   never empty; the filter tip key names the block stored at height
   |filter file| - 1 and the index maps it to that height; every filter
   header above genesis is H(some filter hash, the entry below it). *)
Theorem C03_struct_invariant : forall H parent g gfh ops s0,
  init g gfh = Some s0 ->
  wf_sops H parent {| bl := [g]; fl := [gfh] |} ops ->
  struct_ok H (st (fold_left (sstep H parent) ops {| st := s0; tipH := 0; tipX := g |})).
Proof. exact sreach_struct_ok. Qed.
Print Assumptions C03_struct_invariant.

(* ... and the stores are, after every history, exactly the two lists of the
   specification machine (append / hash-chain append at the tip / pop blocks
   together with their filter headers). *)
Theorem C03_struct_refines_lists : forall H parent g gfh ops s0,
  init g gfh = Some s0 ->
  wf_sops H parent {| bl := [g]; fl := [gfh] |} ops ->
  let b := fold_left (sstep H parent) ops {| st := s0; tipH := 0; tipX := g |} in
  let a := fold_left (aspec_step H) ops {| bl := [g]; fl := [gfh] |} in
  Inv (st b) a /\ chained H (fl a) /\ parent_ok parent (bl a).
Proof. exact sreach. Qed.
Print Assumptions C03_struct_refines_lists.

(* writeCFHeadersMsg writes only hash-chain successors of the current filter
   tip, at the heights directly above it, ending at the height of the stop
   hash; otherwise it fails and changes nothing.  The in-memory tip becomes
   (that height, the stop block). *)
Theorem C03_write_cf_successor : forall H b a m,
  Inv (st b) a -> zlen (m_hashes m) < U32 ->
  let r := write_cf H b m in
  let ar := awrite_cf H (to2 a) m in
  snd r = snd ar /\ Inv (st (fst r)) (of2 (fst ar)) /\
  (forall hd ht, snd r = Some (hd, ht) -> tipH (fst r) = ht /\ at_h (bl a) ht = Some (tipX (fst r))).
Proof. exact write_cf_refines. Qed.
Print Assumptions C03_write_cf_successor.

Theorem C03_write_cf_appends_chain : forall H a m a' hd ht,
  awrite_cf H a m = (a', Some (hd, ht)) ->
  abl a' = abl a /\ afl a' = afl a ++ chain_from H (m_prev m) (m_hashes m) /\
  last (afl a) = Some (m_prev m) /\ m_hashes m <> [] /\ ht = zlen (afl a') - 1 /\
  index_of2 (m_stop m) (abl a) 0 = Some ht /\ hd = default 0 (last (afl a')).
Proof. exact awrite_cf_ok. Qed.
Print Assumptions C03_write_cf_appends_chain.

(* Every rollback removes the filter header of a block before the block:
   after EVERY single store operation of rollBackToHeight the stores are
   consistent and the filter chain is not ahead of the block chain. *)
Theorem C03_rollback_filter_first : forall parent b a h,
  Inv (st b) a -> parent_ok parent (bl a) -> 0 <= h < U32 ->
  Forall (fun s => flen (ff s) <= flen (bf s) /\ exists a', Inv s a') (snd (rollback parent b h)).
Proof. exact rollback_trace_ok. Qed.
Print Assumptions C03_rollback_filter_first.

(* ===================== conflict resolution ===================== *)

(* detectBadPeers never names an honest peer (one that advertises the hash of
   the true filter and serves it), whatever the other peers do within the
   class (every filter served is the true one or fails verification against
   the block), for every order of the maps. *)
Theorem C03_detect_never_names_honest : forall fo tf hs idx filters hok bok p mp bad,
  fo_verify fo tf = Some 0 ->
  in_class fo tf filters -> NoDup (List.map fst filters) ->
  (forall m, In (p, m) hs -> m = mp) ->
  zget (m_hashes mp) idx = Some (fo_hash fo tf) -> lookup p filters = Some tf ->
  detect_bad hs idx filters hok bok fo = Some bad -> ~ In p bad.
Proof. exact detect_bad_honest. Qed.
Print Assumptions C03_detect_never_names_honest.

(* C03_honest_wins, at the tip (getUncheckpointedCFHeaders): for every set of
   answers (any number of peers, any arrival order, duplicates, malformed
   answers) containing an honest peer p, every assignment of behaviours to
   the others among {lie in a filter hash at any index and serve a filter
   that does not hash to it / omits an output script / nothing; lie in the
   previous header; stay silent}: p is not banned, the message written is
   p's, and every peer whose accepted answer differs from it is banned. *)
Theorem C03_honest_wins_at_tip : forall v env raws p tm tfilt ftip fh,
  v_ftip v = Some (ftip, fh) ->
  honest_in tm p (fst (get_headers v (u32 (fh + 1)) raws)) ->
  m_prev tm = ftip ->
  (forall i : nat, (i < zn (snd (get_headers v (u32 (fh + 1)) raws)))%nat ->
                   good_idx env tfilt tm (u32 (fh + 1)) p (Z.of_nat i)) ->
  ~ In p (fst (get_uncheckpointed v env raws)) /\
  (forall m, snd (get_uncheckpointed v env raws) = UWrite m -> m = tm) /\
  (forall m, snd (get_uncheckpointed v env raws) = UWrite m ->
     forall q mq, In (q, mq) (fst (get_headers v (u32 (fh + 1)) raws)) -> mq <> tm ->
                  In q (fst (get_uncheckpointed v env raws))).
Proof. exact uncheckpointed_honest_wins. Qed.
Print Assumptions C03_honest_wins_at_tip.

(* C03_honest_wins, checkpoint lists (resolveConflict): for every set of
   checkpoint lists containing the list tc of an honest peer p (the longest:
   cfHandler caps the lists at the header tip) that passes the hard-coded
   table and does not contradict the cfheaders p serves, every choice the code
   makes among map elements (hint), every behaviour of the others within the
   class: p is not banned (in particular not by the F15 repair, which bans a
   peer whose checkpoint contradicts its own cfheaders), a returned list
   agrees with tc wherever both are defined, and when a list is returned
   every peer whose list contradicts tc has been banned. *)
Theorem C03_honest_wins_checkpoints : forall H hard v env raws hint cps p tc tfilt,
  In (p, tc) cps -> (forall l, In (p, l) cps -> l = tc) ->
  peer_hard_bad hard tc = false ->
  (forall q l, In (q, l) cps -> (length l <= length tc)%nat) ->
  (forall startH, exists tm,
      honest_in tm p (fst (get_headers v startH raws)) /\
      (forall i : nat, (i < zn (snd (get_headers v startH raws)))%nat ->
                       good_idx env tfilt tm startH p (Z.of_nat i)) /\
      (forall d, startH = u32 (d * INTERVAL) -> cp_contradicts H d tc tm = false)) ->
  let '(bans, res) := resolve_conflict H hard v env raws hint cps in
  ~ In p bans /\
  (forall l, res = Some l -> forall (i : nat) x y, l !! i = Some x -> tc !! i = Some y -> x = y) /\
  (forall l, res = Some l -> forall q lq (i : nat) x y,
      In (q, lq) cps -> lq !! i = Some x -> tc !! i = Some y -> x <> y -> In q bans).
Proof. exact resolve_honest_wins. Qed.
Print Assumptions C03_honest_wins_checkpoints.

(* C03_liars_banned (F15 repaired; was refuted): every call of resolveConflict
   with an honest peer p makes progress - it returns a checkpoint list or it
   has banned at least one of the peers whose list it was given (never p, by
   the theorem above).  Hypotheses: behaviours in the class and header, block
   and filters available at the heights asked; every accepted getcfheaders
   answer names the same previous header (a peer lying there is not
   identified by the code: the call fails without a ban); the checkpoint
   tc[d] of p is the filter header that p's cfheaders for interval d determine
   (chain of the first INTERVAL+1 filter hashes from the previous header);
   the lists are capped at the block header tip (cfHandler does that), below
   1,000,000; the filter header store holds nothing that contradicts tc and
   can be read. *)
Theorem C03_liars_banned_progress : forall H hard v env raws hint cps p tc tfilt tx tiph bans res,
  In (p, tc) cps -> (forall l, In (p, l) cps -> l = tc) ->
  peer_hard_bad hard tc = false ->
  (forall q l, In (q, l) cps -> (length l <= length tc)%nat) ->
  v_btip v = Some (tx, tiph) -> 0 <= tiph < 1000000 -> zlen tc * INTERVAL <= tiph ->
  (forall startH, exists tm,
      honest_in tm p (fst (get_headers v startH raws)) /\
      (forall i : nat, (i < zn (snd (get_headers v startH raws)))%nat ->
          good_idx env tfilt tm startH p (Z.of_nat i) /\ env_avail env startH (Z.of_nat i)) /\
      (forall q mq, In (q, mq) (fst (get_headers v startH raws)) -> m_prev mq = m_prev tm) /\
      (forall d c, startH = u32 (d * INTERVAL) -> zget tc d = Some c ->
          chain_last H (m_prev tm) (take (zn (INTERVAL + 1)) (m_hashes tm)) = c)) ->
  (forall (i : nat) c hd, tc !! i = Some c ->
      v_fh v (u32 ((Z.of_nat i + 1) * INTERVAL)) = Some hd -> hd = c) ->
  (forall l, check_sanity l v <> SaneErr) ->
  resolve_conflict H hard v env raws hint cps = (bans, res) ->
  res <> None \/ exists q, In q bans /\ In q (List.map fst cps).
Proof. exact resolve_progress. Qed.
Print Assumptions C03_liars_banned_progress.

(* ... hence the retry loop of cfHandler around resolveConflict ends: if in
   every round the honest peer is connected, the lists of a round come from
   peers of the previous round that were not banned in it (a banned peer is
   disconnected; no new peers), then within as many rounds as there were
   peers at the start a non-empty checkpoint list is returned; it agrees with
   the honest list and the honest peer is never banned.  The getcfheaders
   answers, filters and map choices of every round are arbitrary (within the
   hypotheses above). *)
Theorem C03_retry_loop_terminates : forall H hard v p tc tfilt tx tiph rounds r0 rest,
  peer_hard_bad hard tc = false ->
  v_btip v = Some (tx, tiph) -> 0 <= tiph < 1000000 -> zlen tc * INTERVAL <= tiph ->
  store_agrees v tc -> (forall l, check_sanity l v <> SaneErr) ->
  rounds = r0 :: rest -> rounds_ok H hard v p tc tfilt rounds ->
  (length (rd_cps r0) <= length rounds)%nat ->
  ~ In p (fst (cf_retry H hard v rounds)) /\
  exists l, snd (cf_retry H hard v rounds) = Some l /\ l <> [] /\
            forall (i : nat) x y, l !! i = Some x -> tc !! i = Some y -> x = y.
Proof. exact cf_retry_terminates. Qed.
Print Assumptions C03_retry_loop_terminates.

(* The history that refuted C03_liars_banned before the repair (F15): peer 2
   serves a false checkpoint list and the true cfheaders.  Now it is banned
   and the true list is returned, whichever element the code picks. *)
Example C03_f15_regression :
  resolve_conflict f15_H (fun _ => None) f15_view f15_env f15_raws 0 f15_cps = ([2], Some [501; 502]) /\
  resolve_conflict f15_H (fun _ => None) f15_view f15_env f15_raws 2 f15_cps = ([2], Some [501; 502]) /\
  fst (get_headers f15_view 0 f15_raws) = [(1, f15_msg); (2, f15_msg)].
Proof. exact f15_fixed_run. Qed.
Print Assumptions C03_f15_regression.

(* ===================== checkpointed fetch ===================== *)

(* getCheckpointedCFHeaders (handleResponse + the re-ordering writer loop),
   for EVERY list of arrivals (any order, duplicates, answers from any peer,
   malformed answers) and every store, checkpoint list and genesis header.

   (1) Whatever arrives, panic or not: the block chain is untouched and the
   filter chain grows by a sequence of batches, each written by a successful
   writeCFHeadersMsg at the tip of that moment (so each names the tip as its
   previous header, is the hash chain of its filter hashes from there, and
   ends exactly at the height of its stop hash: nothing is written twice or
   at a wrong height); every batch is the message of an arrival that
   handleResponse delivered (or its trimmed form, for the first batch). *)
Theorem C03_checkpointed_writes_verified : forall H genesis a cps ars bans a' pan,
  get_checkpointed H genesis a cps ars = (bans, a', pan) ->
  exists ms, writes H a ms a' /\
    abl a' = abl a /\
    afl a' = afl a ++ List.concat (List.map (fun m => chain_from H (m_prev m) (m_hashes m)) ms) /\
    forall m, In m ms -> exists qs ar,
      mk_queries (S (length cps)) a (zlen cps) ((zlen (afl a) - 1) / INTERVAL) = Some qs /\
      In ar ars /\ delivers H genesis cps qs ar = true /\
      (m = a_msg ar \/ exists prev off, m = trim prev off (a_msg ar)).
Proof. exact checkpointed_writes_full. Qed.
Print Assumptions C03_checkpointed_writes_verified.

(* what a chain of successful writes is *)
Theorem C03_checkpointed_batches : forall H a ms a', writes H a ms a' ->
  forall ms1 m ms2, ms = ms1 ++ m :: ms2 ->
  exists a1 a2 hd ht, writes H a ms1 a1 /\ awrite_cf H a1 m = (a2, Some (hd, ht)) /\ writes H a2 ms2 a' /\
    last (afl a1) = Some (m_prev m) /\ m_hashes m <> [] /\
    afl a2 = afl a1 ++ chain_from H (m_prev m) (m_hashes m) /\
    index_of2 (m_stop m) (abl a) 0 = Some (zlen (afl a2) - 1).
Proof. exact writes_each. Qed.
Print Assumptions C03_checkpointed_batches.

(* what "delivered by handleResponse" means: the answer is of the regular
   filter type, carries the stop hash of its request, has exactly the number
   of filter hashes of the requested checkpoint intervals, starts at the
   previous checkpoint (or genesis) and its hash chain ends in the next
   checkpoint. *)
Theorem C03_checkpointed_delivers_spec : forall H genesis cps qs ar,
  delivers H genesis cps qs ar = true <->
  exists ci stop, zget qs (a_q ar) = Some (ci, stop) /\ a_reg ar = true /\ m_stop (a_msg ar) = stop /\
    zlen (m_hashes (a_msg ar)) = (nci_of cps ci - ci + 1) * INTERVAL /\
    verify_checkpoint H (prevcp_of genesis cps ci) (default 0 (zget cps (nci_of cps ci))) (a_msg ar) = true.
Proof. exact delivers_spec. Qed.
Print Assumptions C03_checkpointed_delivers_spec.

(* (2) An answer to an unfinished request that has the right stop hash but
   not the right number of hashes, or does not match its checkpoints, is
   rejected and its peer is banned. *)
Theorem C03_checkpointed_rejects : forall H genesis a cps l1 ar l2 bans a' pan curHdr qs ci stop,
  last (afl a) = Some curHdr ->
  mk_queries (S (length cps)) a (zlen cps) ((zlen (afl a) - 1) / INTERVAL) = Some qs ->
  get_checkpointed H genesis a cps (l1 ++ ar :: l2) = (bans, a', pan) ->
  zget qs (a_q ar) = Some (ci, stop) -> a_reg ar = true -> m_stop (a_msg ar) = stop ->
  (forall x, In x l1 -> a_q x = a_q ar -> delivers H genesis cps qs x = false) ->
  zlen (m_hashes (a_msg ar)) <> (nci_of cps ci - ci + 1) * INTERVAL \/
  verify_checkpoint H (prevcp_of genesis cps ci) (default 0 (zget cps (nci_of cps ci))) (a_msg ar) = false ->
  In (a_peer ar) bans /\ delivers H genesis cps qs ar = false.
Proof. exact checkpointed_rejects. Qed.
Print Assumptions C03_checkpointed_rejects.

(* (3) Order independence: the final store (and whether the code panics) is
   that of the SEQUENTIAL writer that walks the requests in height order and
   writes, for each, the first delivered answer to it ([fv]), the first batch
   trimmed to the part above the store's tip.  So the result depends on the
   arrivals only through "the first delivered answer of each request":
   interleaving, duplicates and the answering peers change nothing.
   Hypotheses: fewer than 1,000,000 block headers (no uint32 wrap), and no
   header written in the sequential run equals the header the store's tip
   had at the start - the code recognises "the first batch" by comparing
   header VALUES, so such a hash collision would make it trim a later batch. *)
Theorem C03_checkpointed_order_independent : forall H genesis a cps ars bans a' pan curHdr qs fuel,
  zlen (abl a) < 1000000 ->
  last (afl a) = Some curHdr ->
  mk_queries (S (length cps)) a (zlen cps) ((zlen (afl a) - 1) / INTERVAL) = Some qs ->
  (length cps < fuel)%nat ->
  get_checkpointed H genesis a cps ars = (bans, a', pan) ->
  forall sa tips sp,
  seq_write H fuel (fv H genesis cps qs ars) true a curHdr (zlen (afl a) - 1) ((zlen (afl a) - 1) / INTERVAL)
    = (sa, tips, sp) ->
  ~ In curHdr tips ->
  a' = sa /\ pan = sp.
Proof. exact checkpointed_order_independent. Qed.
Print Assumptions C03_checkpointed_order_independent.

(* (4) Completeness: without a panic, if the requests 0..j (consecutive from
   the first) all have a delivered answer somewhere among the arrivals, all of
   them have been written: the filter tip is at least at the end of request j. *)
Theorem C03_checkpointed_complete : forall H genesis a cps ars bans a' curHdr qs (j : nat) cj stopj,
  zlen (abl a) < 1000000 ->
  last (afl a) = Some curHdr ->
  mk_queries (S (length cps)) a (zlen cps) ((zlen (afl a) - 1) / INTERVAL) = Some qs ->
  get_checkpointed H genesis a cps ars = (bans, a', false) ->
  ~ In curHdr (snd (fst (seq_write H (S (length cps)) (fv H genesis cps qs ars) true a curHdr
                           (zlen (afl a) - 1) ((zlen (afl a) - 1) / INTERVAL)))) ->
  qs !! j = Some (cj, stopj) ->
  (forall k, (k <= j)%nat -> first_ok H genesis cps qs ars (Z.of_nat k) <> None) ->
  Z.min (cj + 2) (zlen cps) * INTERVAL <= zlen (afl a') - 1.
Proof. exact checkpointed_complete. Qed.
Print Assumptions C03_checkpointed_complete.

(* the hypotheses are met by a run with out-of-order, short, lying and
   duplicate answers (two liars banned, 3000 headers written, same store as
   for the in-order run) *)
Example C03_checkpointed_nonvacuous :
  (let '(bans, a', pan) := get_checkpointed Ex.H0 Ex.g Ex.a0 Ex.cps Ex.ars1 in
   (bans, pan, zlen (afl a'), last (afl a'))) = ([9; 8], false, 3001, Some Ex.c3) /\
  (let r := get_checkpointed Ex.H0 Ex.g Ex.a0 Ex.cps Ex.ars1 in (snd (fst r), snd r)) =
  (let r := get_checkpointed Ex.H0 Ex.g Ex.a0 Ex.cps Ex.ars2 in (snd (fst r), snd r)).
Proof. exact (conj Ex.ex_run Ex.ex_order_independent). Qed.
Print Assumptions C03_checkpointed_nonvacuous.

(* The replay visits only the indices at which two accepted answers differ;
   that is the same function. *)
Theorem C03_fast_ix_equiv_resolve : forall H hard v env raws hint cps,
  resolve_conflict_ix H fast_ix hard v env raws hint cps = resolve_conflict H hard v env raws hint cps.
Proof. exact fast_ix_equiv_resolve. Qed.
Print Assumptions C03_fast_ix_equiv_resolve.

Theorem C03_fast_ix_equiv_uncheckpointed : forall v env raws,
  get_uncheckpointed_ix fast_ix v env raws = get_uncheckpointed v env raws.
Proof. exact fast_ix_equiv_uncheckpointed. Qed.
Print Assumptions C03_fast_ix_equiv_uncheckpointed.

(* The hypotheses of C03_honest_wins_at_tip are met by a run in which a liar
   is caught: peer 2 advertises a false filter hash at height 3 and serves a
   filter omitting a script; it is banned and the honest message is written. *)
Example C03_nonvacuous :
  get_uncheckpointed nv_view nv_env nv_raws = ([2], UWrite nv_true) /\
  honest_in nv_true 1 (fst (get_headers nv_view (u32 (1 + 1)) nv_raws)) /\
  (forall i : nat, (i < zn (snd (get_headers nv_view (u32 (1 + 1)) nv_raws)))%nat ->
     good_idx nv_env (fun t => 100 + t) nv_true (u32 (1 + 1)) 1 (Z.of_nat i)).
Proof. exact nonvacuous_run. Qed.
Print Assumptions C03_nonvacuous.

(* ===================== VerifyBasicBlockFilter ===================== *)

(* The verdict of VerifyBasicBlockFilter, for EVERY block and EVERY filter
   (as its Match predicate): it reports a missing script exactly when the
   filter omits the script of some output of the block - of any transaction,
   the coinbase included (F30 repaired) - that BIP-158 indexes: non-empty and
   not STARTING with OP_RETURN.  Nothing else about the script is looked at:
   not whether it parses, not its size.  Otherwise the number returned is the
   number of OP_RETURN outputs the filter matches.  (The scripts of spent
   outputs derived from witnesses never make a filter fail.) *)
Theorem C03_verify_filter_exact : forall b f,
  (verify_filter b f = None <-> omits_required b f) /\
  (forall n, verify_filter b f = Some n -> ~ omits_required b f /\ n = opret_matches b f) /\
  (~ omits_required b f -> verify_filter b f = Some (opret_matches b f)).
Proof. exact (fun b f => verify_filter_exact f b). Qed.
Print Assumptions C03_verify_filter_exact.

(* ... spelled out for the scripts txscript.IsUnspendable would dismiss: a
   filter that does not match an output script which is non-empty and does
   not start with OP_RETURN is refuted, whatever [sc_parses] and however
   large [sc_len] are. *)
Theorem C03_verify_filter_unparseable_oversized : forall b f s,
  In s (block_outs b) -> sc_len s <> 0 -> sc_first s <> OP_RETURN -> f (sc_tok s) = false ->
  verify_filter b f = None.
Proof. exact (fun b f s => verify_filter_unparseable_oversized f b s). Qed.
Print Assumptions C03_verify_filter_unparseable_oversized.

(* The statement has teeth: a verifier classifying outputs with
   txscript.IsUnspendable accepts a filter that omits an unparseable and an
   oversized script, and counts the honest filter's matches on them as
   OP_RETURN matches; the model refutes the one and clears the other. *)
Example C03_verify_filter_nonvacuous :
  let liar := fun s => s =? 1 in
  let honest := fun s => (s =? 1) || (s =? 2) || (s =? 3) in
  omits_required vx_block liar /\ verify_filter_unspendable vx_block liar = Some 0 /\
  ~ omits_required vx_block honest /\ verify_filter_unspendable vx_block honest = Some 2 /\
  verify_filter vx_block liar = None /\ verify_filter vx_block honest = Some 0.
Proof. exact unspendable_variant_refuted. Qed.
Print Assumptions C03_verify_filter_nonvacuous.

(* resolveFilterMismatchFromBlock with VerifyBasicBlockFilter as modelled: as
   soon as one of the filters served is refutable from the block, the peers
   named are EXACTLY those whose filter is refutable - whatever the OP_RETURN
   counts and majorities (any number of colluding liars). *)
Theorem C03_refutable_filters_named : forall fo blk mt filters th,
  verify_is fo blk mt ->
  (exists q g, In (q, g) filters /\ omits_required blk (mt g)) ->
  exists bad, resolve_from_block fo filters th = Some bad /\
    forall q, In q bad <-> exists g, In (q, g) filters /\ omits_required blk (mt g).
Proof. exact resolve_names_refutable. Qed.
Print Assumptions C03_refutable_filters_named.

(* The conflict-resolution theorems with the class stated in the vocabulary
   of BIP-158 (no verdict oracle): the true filter omits no indexed output
   script and matches no OP_RETURN output, every other filter served omits an
   indexed output script of the block. *)
Theorem C03_detect_never_names_honest_bip158 : forall fo blk mt tf hs idx filters hok bok p mp bad,
  verify_is fo blk mt ->
  ~ omits_required blk (mt tf) -> opret_matches blk (mt tf) = 0 ->
  (forall q g, In (q, g) filters -> g = tf \/ omits_required blk (mt g)) ->
  NoDup (List.map fst filters) ->
  (forall m, In (p, m) hs -> m = mp) ->
  zget (m_hashes mp) idx = Some (fo_hash fo tf) -> lookup p filters = Some tf ->
  detect_bad hs idx filters hok bok fo = Some bad -> ~ In p bad.
Proof. exact detect_bad_honest_bip158. Qed.
Print Assumptions C03_detect_never_names_honest_bip158.

Theorem C03_honest_wins_at_tip_bip158 : forall v env raws p tm tfilt ftip fh blk mt,
  v_ftip v = Some (ftip, fh) ->
  honest_in tm p (fst (get_headers v (u32 (fh + 1)) raws)) ->
  m_prev tm = ftip ->
  (forall i : nat, (i < zn (snd (get_headers v (u32 (fh + 1)) raws)))%nat ->
                   good_idx_bip158 env blk mt tfilt tm (u32 (fh + 1)) p (Z.of_nat i)) ->
  ~ In p (fst (get_uncheckpointed v env raws)) /\
  (forall m, snd (get_uncheckpointed v env raws) = UWrite m -> m = tm) /\
  (forall m, snd (get_uncheckpointed v env raws) = UWrite m ->
     forall q mq, In (q, mq) (fst (get_headers v (u32 (fh + 1)) raws)) -> mq <> tm ->
                  In q (fst (get_uncheckpointed v env raws))).
Proof. exact uncheckpointed_honest_wins_bip158. Qed.
Print Assumptions C03_honest_wins_at_tip_bip158.

Theorem C03_honest_wins_checkpoints_bip158 : forall H hard v env raws hint cps p tc tfilt blk mt,
  In (p, tc) cps -> (forall l, In (p, l) cps -> l = tc) ->
  peer_hard_bad hard tc = false ->
  (forall q l, In (q, l) cps -> (length l <= length tc)%nat) ->
  (forall startH, exists tm,
      honest_in tm p (fst (get_headers v startH raws)) /\
      (forall i : nat, (i < zn (snd (get_headers v startH raws)))%nat ->
                       good_idx_bip158 env blk mt tfilt tm startH p (Z.of_nat i)) /\
      (forall d, startH = u32 (d * INTERVAL) -> cp_contradicts H d tc tm = false)) ->
  let '(bans, res) := resolve_conflict H hard v env raws hint cps in
  ~ In p bans /\
  (forall l, res = Some l -> forall (i : nat) x y, l !! i = Some x -> tc !! i = Some y -> x = y) /\
  (forall l, res = Some l -> forall q lq (i : nat) x y,
      In (q, lq) cps -> lq !! i = Some x -> tc !! i = Some y -> x <> y -> In q bans).
Proof. exact resolve_honest_wins_bip158. Qed.
Print Assumptions C03_honest_wins_checkpoints_bip158.

(* ===================== control checkpoints, every entry ===================== *)

(* resolveConflict and the hard-coded filter-header checkpoints
   (chainsync.ValidateCFHeader's table), for EVERY set of served lists, answers,
   filters and map choices, honest peer or not: a peer whose list differs from
   a control value at ANY entry - the first, one in the middle, the LAST one of
   its list - is banned, and a list that is returned equals every control
   value at every one of its entries. *)
Theorem C03_control_checkpoint_any_entry : forall H hard v env raws hint cps bans res,
  resolve_conflict H hard v env raws hint cps = (bans, res) ->
  (forall q l (i : nat) c w, In (q, l) cps -> l !! i = Some c ->
      hard (u32 ((Z.of_nat i + 1) * INTERVAL)) = Some w -> w <> c -> In q bans) /\
  (forall l (i : nat) c w, res = Some l -> l !! i = Some c ->
      hard (u32 ((Z.of_nat i + 1) * INTERVAL)) = Some w -> w = c).
Proof.
  intros H hard v env raws hint cps bans res Hr.
  destruct (resolve_control H hard v env raws hint cps bans res Hr) as [Hb Hg]. split.
  - intros q l i c w Hin Hl Hh Hne. apply (Hb q l Hin). apply peer_hard_bad_spec. by exists i, c, w.
  - intros l i c w Hres Hl Hh. specialize (Hg l Hres).
    destruct (decide (w = c)) as [E|E]; [done|]. exfalso.
    assert (peer_hard_bad hard l = true) as Ht by (apply peer_hard_bad_spec; by exists i, c, w). congruence.
Qed.
Print Assumptions C03_control_checkpoint_any_entry.

(* ===================== the filter is a SET of scripts ===================== *)

(* VerifyBasicBlockFilter looks at a filter only through its Match predicate
   on scripts, and at the block only through the SET of its output scripts:
   how often a script occurs (twice in one transaction, in several
   transactions, also as the script of a spent output) does not matter.  A
   filter that matches every output script BIP-158 indexes - the honest
   filter, whatever the multiplicities - passes; two blocks with the same
   output scripts get the same verdict from every filter. *)
Theorem C03_verify_filter_honest_passes : forall b f,
  (forall s, In s (block_outs b) -> bip158_indexed s = true -> f (sc_tok s) = true) ->
  verify_filter b f = Some (opret_matches b f).
Proof.
  intros b f Hall. apply (proj2 (proj2 (verify_filter_exact f b))).
  intros (s & Hin & Hi & Hf). rewrite (Hall s Hin Hi) in Hf. discriminate.
Qed.
Print Assumptions C03_verify_filter_honest_passes.

Theorem C03_verify_filter_set_of_scripts : forall b b' f,
  (forall s, In s (block_outs b) <-> In s (block_outs b')) ->
  (verify_filter b f = None <-> verify_filter b' f = None).
Proof.
  intros b b' f Hs. rewrite (proj1 (verify_filter_exact f b)), (proj1 (verify_filter_exact f b')).
  unfold omits_required. split; intros (s & Hin & Hr); exists s; (split; [by apply Hs|done]).
Qed.
Print Assumptions C03_verify_filter_set_of_scripts.

(* ===================== block fetch faults ===================== *)

(* A dispute round whose block fetch fails is NO VERDICT, for all answer sets
   ([env_noblk env]: the environment env with GetBlock failing at every
   height).  (1) detectBadPeers without the block reports an error, unless it
   names peers on the evidence of their own answers alone (no filter served,
   or a filter that does not hash to the advertised filter hash) - then the
   block is not asked for and the peers named are those of the round with the
   block: nobody is ever named by OP_RETURN counts or by a majority of
   filters.  (2) The detection loop of one mismatching index: everybody banned
   without the block is banned with it, and a loop that ends without the block
   ends in the same state with it.  (3) getUncheckpointedCFHeaders /
   resolveConflict: without the block the call reports an error and writes /
   returns nothing - unless it did not need the block, and then its bans and
   its result are exactly those of the call with every block available: once
   the block can be fetched the outcome is that of the fault-free round. *)
Theorem C03_block_fetch_failure_is_no_verdict :
  (forall hs idx filters hok fo,
     detect_bad hs idx filters hok false fo = None \/
     exists bad, detect_bad hs idx filters hok false fo = Some bad /\ bad <> [] /\
       detect_bad hs idx filters hok true fo = Some bad /\
       forall q, In q bad -> exists m, In (q, m) hs /\
         match lookup q filters with
         | None => True
         | Some f => fo_hash fo f <> default 0 (zget (m_hashes m) idx)
         end) /\
  (forall env startH fuel hs i bans r bans',
     settle_index fuel (env_noblk env) startH hs i bans = (r, bans') ->
     (exists r2 bans2, settle_index fuel env startH hs i bans = (r2, bans2) /\
                       forall q, In q bans' -> In q bans2) /\
     (forall hs', r = Some hs' -> settle_index fuel env startH hs i bans = (Some hs', bans'))) /\
  (forall v env raws bans r,
     get_uncheckpointed v (env_noblk env) raws = (bans, r) ->
     r = UErr \/ r = UNoop \/ get_uncheckpointed v env raws = (bans, r)) /\
  (forall H hard v env raws hint cps bans res,
     resolve_conflict H hard v (env_noblk env) raws hint cps = (bans, res) ->
     res = None \/ resolve_conflict H hard v env raws hint cps = (bans, res)).
Proof.
  split; [|split; [|split]].
  - intros hs idx filters hok fo.
    destruct (detect_bad hs idx filters hok false fo) as [bad|] eqn:Ed; [right|by left].
    destruct (detect_bad_noblk _ _ _ _ _ _ Ed) as (Hne & Hq & Ht). by exists bad.
  - intros env startH fuel hs i bans r bans' Hs. split.
    + exact (settle_index_noblk_bans env startH fuel hs i bans r bans' Hs).
    + intros hs' ->. by apply settle_index_noblk.
  - intros v env raws bans r Hg. destruct r as [| |m]; [by left|by right; left|right; right].
    by apply get_uncheckpointed_noblk.
  - intros H hard v env raws hint cps bans res Hr. destruct res as [l|]; [right|by left].
    by apply resolve_conflict_noblk.
Qed.
Print Assumptions C03_block_fetch_failure_is_no_verdict.
