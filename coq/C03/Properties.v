(* C03 — the property theorems, and nothing else. *)
From stdpp Require Import gmap list.
From Coq Require Import ZArith Lia.
From Verif Require Import S1.Model C07.Spec C07.Proofs C03.Model C03.Spec
     C03.ProofsS C03.ProofsF C03.Proofs C03.ProofsR C03.ProofsU C03.ProofsP.
Open Scope Z_scope.

(* ===================== structural layer ===================== *)

(* For EVERY history of block-header appends (as the header sync commits
   them), writeCFHeadersMsg calls with ANY message (any prev header, stop
   hash, number of filter hashes below 2^32) and rollBackToHeight calls with
   any target, starting from freshly created stores: both files hold whole
   entries only; the filter chain is never longer than the block chain and
   never empty; the filter tip key names the block stored at height
   |filter file| - 1 and the index maps it to that height; every filter
   header above genesis is H(some filter hash, the entry below it). *)
Theorem C03_struct_invariant : forall H parent g gfh ops s0,
  init g gfh = Some s0 ->
  wf_sops H parent {| bl := [g]; fl := [gfh] |} ops ->
  struct_ok H (st (fold_left (sstep H parent) ops {| st := s0; tipH := 0; tipX := g |})).
Proof. exact sreach_struct_ok. Qed.
Print Assumptions C03_struct_invariant.

(* ... and the stores are, after every history, exactly the two lists of the
   specification machine (append / hash-chain append at the tip / pop blocks
   together with their filter headers). *)
Theorem C03_struct_refines_lists : forall H parent g gfh ops s0,
  init g gfh = Some s0 ->
  wf_sops H parent {| bl := [g]; fl := [gfh] |} ops ->
  let b := fold_left (sstep H parent) ops {| st := s0; tipH := 0; tipX := g |} in
  let a := fold_left (aspec_step H) ops {| bl := [g]; fl := [gfh] |} in
  Inv (st b) a /\ chained H (fl a) /\ parent_ok parent (bl a).
Proof. exact sreach. Qed.
Print Assumptions C03_struct_refines_lists.

(* writeCFHeadersMsg writes only hash-chain successors of the current filter
   tip, at the heights directly above it, ending at the height of the stop
   hash; otherwise it fails and changes nothing.  The in-memory tip becomes
   (that height, the stop block). *)
Theorem C03_write_cf_successor : forall H b a m,
  Inv (st b) a -> zlen (m_hashes m) < U32 ->
  let r := write_cf H b m in
  let ar := awrite_cf H (to2 a) m in
  snd r = snd ar /\ Inv (st (fst r)) (of2 (fst ar)) /\
  (forall hd ht, snd r = Some (hd, ht) -> tipH (fst r) = ht /\ at_h (bl a) ht = Some (tipX (fst r))).
Proof. exact write_cf_refines. Qed.
Print Assumptions C03_write_cf_successor.

Theorem C03_write_cf_appends_chain : forall H a m a' hd ht,
  awrite_cf H a m = (a', Some (hd, ht)) ->
  abl a' = abl a /\ afl a' = afl a ++ chain_from H (m_prev m) (m_hashes m) /\
  last (afl a) = Some (m_prev m) /\ m_hashes m <> [] /\ ht = zlen (afl a') - 1 /\
  index_of2 (m_stop m) (abl a) 0 = Some ht /\ hd = default 0 (last (afl a')).
Proof. exact awrite_cf_ok. Qed.
Print Assumptions C03_write_cf_appends_chain.

(* Every rollback removes the filter header of a block before the block:
   after EVERY single store operation of rollBackToHeight the stores are
   consistent and the filter chain is not ahead of the block chain. *)
Theorem C03_rollback_filter_first : forall parent b a h,
  Inv (st b) a -> parent_ok parent (bl a) -> 0 <= h < U32 ->
  Forall (fun s => flen (ff s) <= flen (bf s) /\ exists a', Inv s a') (snd (rollback parent b h)).
Proof. exact rollback_trace_ok. Qed.
Print Assumptions C03_rollback_filter_first.

(* ===================== conflict resolution ===================== *)

(* detectBadPeers never names an honest peer (one that advertises the hash of
   the true filter and serves it), whatever the other peers do within the
   class (every filter served is the true one or fails verification against
   the block), for every order of the maps. *)
Theorem C03_detect_never_names_honest : forall fo tf hs idx filters hok bok p mp bad,
  fo_verify fo tf = Some 0 ->
  in_class fo tf filters -> NoDup (List.map fst filters) ->
  (forall m, In (p, m) hs -> m = mp) ->
  zget (m_hashes mp) idx = Some (fo_hash fo tf) -> lookup p filters = Some tf ->
  detect_bad hs idx filters hok bok fo = Some bad -> ~ In p bad.
Proof. exact detect_bad_honest. Qed.
Print Assumptions C03_detect_never_names_honest.

(* C03_honest_wins, at the tip (getUncheckpointedCFHeaders): for every set of
   answers (any number of peers, any arrival order, duplicates, malformed
   answers) containing an honest peer p, every assignment of behaviours to
   the others among {lie in a filter hash at any index and serve a filter
   that does not hash to it / omits an output script / nothing; lie in the
   previous header; stay silent}: p is not banned, the message written is
   p's, and every peer whose accepted answer differs from it is banned. *)
Theorem C03_honest_wins_at_tip : forall v env raws p tm tfilt ftip fh,
  v_ftip v = Some (ftip, fh) ->
  honest_in tm p (fst (get_headers v (u32 (fh + 1)) raws)) ->
  m_prev tm = ftip ->
  (forall i : nat, (i < zn (snd (get_headers v (u32 (fh + 1)) raws)))%nat ->
                   good_idx env tfilt tm (u32 (fh + 1)) p (Z.of_nat i)) ->
  ~ In p (fst (get_uncheckpointed v env raws)) /\
  (forall m, snd (get_uncheckpointed v env raws) = UWrite m -> m = tm) /\
  (forall m, snd (get_uncheckpointed v env raws) = UWrite m ->
     forall q mq, In (q, mq) (fst (get_headers v (u32 (fh + 1)) raws)) -> mq <> tm ->
                  In q (fst (get_uncheckpointed v env raws))).
Proof. exact uncheckpointed_honest_wins. Qed.
Print Assumptions C03_honest_wins_at_tip.

(* C03_honest_wins, checkpoint lists (resolveConflict): for every set of
   checkpoint lists containing the list tc of an honest peer p (the longest:
   cfHandler caps the lists at the header tip) that passes the hard-coded
   table, every choice the code makes among map elements (hint), every
   behaviour of the others within the class: p is not banned, a returned list
   agrees with tc wherever both are defined, and when a list is returned
   every peer whose list contradicts tc has been banned. *)
Theorem C03_honest_wins_checkpoints : forall hard v env raws hint cps p tc tfilt,
  In (p, tc) cps -> (forall l, In (p, l) cps -> l = tc) ->
  peer_hard_bad hard tc = false ->
  (forall q l, In (q, l) cps -> (length l <= length tc)%nat) ->
  (forall startH, exists tm,
      honest_in tm p (fst (get_headers v startH raws)) /\
      forall i : nat, (i < zn (snd (get_headers v startH raws)))%nat ->
                      good_idx env tfilt tm startH p (Z.of_nat i)) ->
  let '(bans, res, flag) := resolve_conflict hard v env raws hint cps in
  ~ In p bans /\
  (forall l, res = Some l -> forall (i : nat) x y, l !! i = Some x -> tc !! i = Some y -> x = y) /\
  (forall l, res = Some l -> forall q lq (i : nat) x y,
      In (q, lq) cps -> lq !! i = Some x -> tc !! i = Some y -> x <> y -> In q bans).
Proof. exact resolve_honest_wins. Qed.
Print Assumptions C03_honest_wins_checkpoints.

(* "Every provably inconsistent liar is identified" is FALSE for checkpoint
   lists (F15): peer 2 serves a false checkpoint list and the true cfheaders;
   all answers agree, nobody is banned, no list is returned (ghost flag 1),
   and the caller can only retry with the same peers. *)
Theorem C03_liars_banned_refuted :
  resolve_conflict (fun _ => None) f15_view f15_env f15_raws 0 f15_cps = ([], None, 1) /\
  fst (get_headers f15_view 0 f15_raws) = [(1, f15_msg); (2, f15_msg)].
Proof. exact f15_witness. Qed.
Print Assumptions C03_liars_banned_refuted.

(* ... unless the ghost flag is raised (R_cp_only_liar, flag 1; flag 2 marks
   the sibling case of answers with different previous headers): whenever the
   flag is clear, a call of resolveConflict with an honest peer, behaviours in
   the class, available blocks/headers and a readable store either returns a
   checkpoint list or has banned at least one peer (never the honest one, by
   C03_honest_wins_checkpoints) - so the retry loop of cfHandler runs with
   strictly fewer peers. *)
Theorem C03_liars_banned_unless : forall hard v env raws hint cps p tc tfilt bans res flag,
  In (p, tc) cps -> (forall l, In (p, l) cps -> l = tc) ->
  peer_hard_bad hard tc = false ->
  (forall q l, In (q, l) cps -> (length l <= length tc)%nat) ->
  (forall startH, exists tm,
      honest_in tm p (fst (get_headers v startH raws)) /\
      forall i : nat, (i < zn (snd (get_headers v startH raws)))%nat ->
                      good_idx env tfilt tm startH p (Z.of_nat i) /\ env_avail env startH (Z.of_nat i)) ->
  (forall l, check_sanity l v <> SaneErr) ->
  resolve_conflict hard v env raws hint cps = (bans, res, flag) ->
  flag = 0 -> res <> None \/ bans <> [].
Proof. exact resolve_progress_unless. Qed.
Print Assumptions C03_liars_banned_unless.

(* The replay visits only the indices at which two accepted answers differ;
   that is the same function. *)
Theorem C03_fast_ix_equiv_resolve : forall hard v env raws hint cps,
  resolve_conflict_ix fast_ix hard v env raws hint cps = resolve_conflict hard v env raws hint cps.
Proof. exact fast_ix_equiv_resolve. Qed.
Print Assumptions C03_fast_ix_equiv_resolve.

Theorem C03_fast_ix_equiv_uncheckpointed : forall v env raws,
  get_uncheckpointed_ix fast_ix v env raws = get_uncheckpointed v env raws.
Proof. exact fast_ix_equiv_uncheckpointed. Qed.
Print Assumptions C03_fast_ix_equiv_uncheckpointed.

(* The hypotheses of C03_honest_wins_at_tip are met by a run in which a liar
   is caught: peer 2 advertises a false filter hash at height 3 and serves a
   filter omitting a script; it is banned and the honest message is written. *)
Example C03_nonvacuous :
  get_uncheckpointed nv_view nv_env nv_raws = ([2], UWrite nv_true) /\
  honest_in nv_true 1 (fst (get_headers nv_view (u32 (1 + 1)) nv_raws)) /\
  (forall i : nat, (i < zn (snd (get_headers nv_view (u32 (1 + 1)) nv_raws)))%nat ->
     good_idx nv_env (fun t => 100 + t) nv_true (u32 (1 + 1)) 1 (Z.of_nat i)).
Proof. exact nonvacuous_run. Qed.
Print Assumptions C03_nonvacuous.
