(* C03 — resolveConflict: the honest peer is never banned, the returned list
   agrees with the honest list, every conflicting peer has been banned. *)
From stdpp Require Import gmap list.
From Coq Require Import ZArith Lia.
From Verif Require Import S1.Model C03.Model C03.Spec C03.Proofs.
Open Scope Z_scope.

(* ---------- generic ---------- *)
Lemma match_ne {A B} (l : list A) (a b : B) :
  l <> [] -> match l with [] => a | _ :: _ => b end = b.
Proof. destruct l; [done|]. done. Qed.

Lemma In_ne {A} (x : A) l : In x l -> l <> [].
Proof. intros Hx ->. destruct Hx. Qed.

Lemma choose_In {A} hint (l : list (Z * A)) x : choose hint l = Some x -> In x l.
Proof.
  unfold choose. destruct (List.find _ l) as [c|] eqn:E.
  - intros [= <-]. by apply find_some in E as [Hin _].
  - destruct l as [|c l']; [done|]. intros [= <-]. by left.
Qed.

(* ---------- max_len ---------- *)
Lemma fold_max_ge (cps : list (Z * list Z)) : forall a,
  (a <= fold_left (fun m p => Nat.max m (length (snd p))) cps a)%nat.
Proof.
  induction cps as [|c cps IH]; intros a; cbn [fold_left]; [lia|].
  specialize (IH (Nat.max a (length (snd c)))). lia.
Qed.

Lemma fold_max_In (cps : list (Z * list Z)) : forall a c,
  In c cps -> (length (snd c) <= fold_left (fun m p => Nat.max m (length (snd p))) cps a)%nat.
Proof.
  induction cps as [|c0 cps IH]; intros a c Hc; [destruct Hc|]. cbn [fold_left].
  destruct Hc as [->|Hc].
  - pose proof (fold_max_ge cps (Nat.max a (length (snd c)))). lia.
  - by apply IH.
Qed.

Lemma fold_max_le (cps : list (Z * list Z)) n : forall a,
  (a <= n)%nat -> (forall c, In c cps -> (length (snd c) <= n)%nat) ->
  (fold_left (fun m p => Nat.max m (length (snd p))) cps a <= n)%nat.
Proof.
  induction cps as [|c0 cps IH]; intros a Ha Hall; cbn [fold_left]; [done|].
  apply IH.
  - pose proof (Hall c0 (or_introl eq_refl)). lia.
  - intros c Hc. apply Hall. by right.
Qed.

Lemma max_len_ge cps q l : In (q, l) cps -> (length l <= max_len cps)%nat.
Proof. intros Hin. exact (fold_max_In cps 0%nat (q, l) Hin). Qed.

Lemma max_len_le cps n :
  (forall q l, In (q, l) cps -> (length l <= n)%nat) -> (max_len cps <= n)%nat.
Proof.
  intros Hall. unfold max_len. apply fold_max_le; [lia|].
  intros [q l] Hc. cbn. eauto.
Qed.

(* ---------- vals_at ---------- *)
Lemma In_vals_at cps i x :
  In x (vals_at cps i) <-> exists q l, In (q, l) cps /\ l !! i = Some x.
Proof.
  unfold vals_at. rewrite <- elem_of_list_In, elem_of_list_omap. split.
  - intros ([q l] & Hp & E). exists q, l. by rewrite <- elem_of_list_In.
  - intros (q & l & Hp & E). exists (q, l). by rewrite elem_of_list_In.
Qed.

Lemma vals_at_agree cps i :
  all_eq (vals_at cps i) = true ->
  forall q l q' l' x y, In (q, l) cps -> In (q', l') cps ->
    l !! i = Some x -> l' !! i = Some y -> x = y.
Proof.
  rewrite all_eq_spec. intros Hall q l q' l' x y Hq Hq' Hx Hy.
  apply Hall; apply In_vals_at; eauto.
Qed.

(* ---------- the loop of checkCFCheckptSanity ---------- *)
Lemma sanity_loop_spec n : forall i cps v tip,
  match sanity_loop n i cps v tip with
  | SaneAll => forall j, (i <= j < i + n)%nat -> all_eq (vals_at cps j) = true
  | SaneDiff d => exists j : nat, d = Z.of_nat j /\ (i <= j < i + n)%nat /\
                    forall k, (i <= k < j)%nat -> all_eq (vals_at cps k) = true
  | SaneErr => True
  end.
Proof.
  induction n as [|n IH]; intros i cps v tip; cbn [sanity_loop].
  { intros j Hj. lia. }
  assert (Hstep : all_eq (vals_at cps i) = true ->
    match sanity_loop n (S i) cps v tip with
    | SaneAll => forall j, (i <= j < i + S n)%nat -> all_eq (vals_at cps j) = true
    | SaneDiff d => exists j : nat, d = Z.of_nat j /\ (i <= j < i + S n)%nat /\
                      forall k, (i <= k < j)%nat -> all_eq (vals_at cps k) = true
    | SaneErr => True
    end).
  { intros Hi. specialize (IH (S i) cps v tip).
    destruct (sanity_loop n (S i) cps v tip) as [|d|]; [| |done].
    - intros j Hj. destruct (decide (j = i)) as [->|Hne]; [done|]. apply IH. lia.
    - destruct IH as (j & -> & Hj & Hk). exists j. split; [done|]. split; [lia|].
      intros k Hk'. destruct (decide (k = i)) as [->|Hne]; [done|]. apply Hk. lia. }
  assert (Hdiff : exists j : nat, Z.of_nat i = Z.of_nat j /\ (i <= j < i + S n)%nat /\
                    forall k, (i <= k < j)%nat -> all_eq (vals_at cps k) = true).
  { exists i. split; [done|]. split; [lia|]. intros k Hk. lia. }
  destruct (vals_at cps i) as [|c rest] eqn:E.
  - apply Hstep. done.
  - destruct (forallb (Z.eqb c) rest) eqn:Ef; cbn [negb]; [|exact Hdiff].
    assert (Hi : all_eq (c :: rest) = true) by exact Ef.
    destruct (_ <=? tip); [|by apply Hstep].
    destruct (v_fh v _) as [hd|]; [|done].
    destruct (hd =? c); [by apply Hstep|exact Hdiff].
Qed.

Lemma check_sanity_all cps v :
  check_sanity cps v = SaneAll ->
  forall q l q' l' (i : nat) x y, In (q, l) cps -> In (q', l') cps ->
    l !! i = Some x -> l' !! i = Some y -> x = y.
Proof.
  unfold check_sanity. destruct (v_ftip v) as [[t tip]|]; [|done].
  intros Hs q l q' l' i x y Hq Hq' Hx Hy.
  pose proof (sanity_loop_spec (max_len cps) 0 cps v tip) as Hspec. rewrite Hs in Hspec.
  refine (vals_at_agree cps i _ q l q' l' x y Hq Hq' Hx Hy). apply Hspec.
  apply lookup_lt_Some in Hx. pose proof (max_len_ge cps q l Hq). lia.
Qed.

Lemma check_sanity_diff cps v d :
  check_sanity cps v = SaneDiff d ->
  exists j : nat, d = Z.of_nat j /\ (j < max_len cps)%nat /\
    forall q l q' l' (i : nat) x y, (i < j)%nat -> In (q, l) cps -> In (q', l') cps ->
      l !! i = Some x -> l' !! i = Some y -> x = y.
Proof.
  unfold check_sanity. destruct (v_ftip v) as [[t tip]|]; [|done].
  intros Hs.
  pose proof (sanity_loop_spec (max_len cps) 0 cps v tip) as Hspec. rewrite Hs in Hspec.
  destruct Hspec as (j & -> & Hj & Hk). exists j. split; [done|]. split; [lia|].
  intros q l q' l' i x y Hi Hq Hq' Hx Hy.
  refine (vals_at_agree cps i _ q l q' l' x y Hq Hq' Hx Hy). apply Hk. lia.
Qed.

(* ---------- resolveConflict ---------- *)
Lemma msg_of_In q hs m : msg_of q hs = Some m -> In (q, m) hs.
Proof.
  unfold msg_of. destruct (List.find _ hs) as [[q' m']|] eqn:E; [|done].
  intros [= <-]. apply find_some in E as [Hin Hq]. cbn in Hq. apply Z.eqb_eq in Hq. by subst q'.
Qed.

Lemma msg_of_Some q hs : In q (List.map fst hs) -> exists m, msg_of q hs = Some m.
Proof.
  intros (c & Ec & Hc)%in_map_iff. unfold msg_of.
  destruct (List.find (fun c0 : Z * cfmsg => fst c0 =? q) hs) as [c'|] eqn:E; [eauto|].
  exfalso. pose proof (find_none _ _ E c Hc) as Hn. cbn in Hn. rewrite Ec, Z.eqb_refl in Hn. done.
Qed.

(* the hypotheses about the honest peer p: at every start height the answers
   contain its (true) answer tm, every index asked is in the class, and its
   checkpoint list tc does not contradict the cfheaders it serves *)
Definition honest_serves (H : Z -> Z -> Z) (v : cview) (env : denv) (raws : list rawresp)
           (p : Z) (tc : list Z) (tfilt : Z -> Z) : Prop :=
  forall startH, exists tm,
    honest_in tm p (fst (get_headers v startH raws)) /\
    (forall i : nat, (i < zn (snd (get_headers v startH raws)))%nat ->
                     good_idx env tfilt tm startH p (Z.of_nat i)) /\
    (forall d, startH = u32 (d * INTERVAL) -> cp_contradicts H d tc tm = false).

(* the same, only at the start heights resolveConflict can ask for: the
   beginning of an interval that the honest list covers *)
(* where resolveConflict sees the first disagreement (after the lists that
   contradict a hard-coded checkpoint are gone) *)
Definition first_diff (hard : Z -> option Z) (v : cview) (cps : list (Z * list Z)) : sanity :=
  check_sanity (remove_peers (List.map fst (List.filter (fun c : Z * list Z => peer_hard_bad hard (snd c)) cps)) cps) v.

Definition honest_serves_lt (H : Z -> Z -> Z) (hard : Z -> option Z) (v : cview) (env : denv)
           (raws : list rawresp) (cps : list (Z * list Z))
           (p : Z) (tc : list Z) (tfilt : Z -> Z) : Prop :=
  forall j : nat, (j < length tc)%nat -> first_diff hard v cps = SaneDiff (Z.of_nat j) ->
    let startH := u32 (Z.of_nat j * INTERVAL) in
    exists tm,
    honest_in tm p (fst (get_headers v startH raws)) /\
    (forall i : nat, (i < zn (snd (get_headers v startH raws)))%nat ->
                     good_idx env tfilt tm startH p (Z.of_nat i)) /\
    cp_contradicts H (Z.of_nat j) tc tm = false.

Lemma honest_serves_lt_of H hard v env raws cps p tc tfilt :
  honest_serves H v env raws p tc tfilt -> honest_serves_lt H hard v env raws cps p tc tfilt.
Proof.
  intros Hs j _ _. cbv zeta. destruct (Hs (u32 (Z.of_nat j * INTERVAL))) as (tm & Hh & Hg & Hc).
  exists tm. split; [done|]. split; [done|]. by apply Hc.
Qed.

Lemma choose_hint (p : Z) (l : list (Z * list Z)) tc :
  In (p, tc) l -> (forall l', In (p, l') l -> l' = tc) -> choose p l = Some (p, tc).
Proof.
  intros Hin Hu. unfold choose. destruct (List.find (fun c => fst c =? p) l) as [[q lq]|] eqn:Ef.
  - apply find_some in Ef as [Hq He]. cbn in He. apply Z.eqb_eq in He. subst q. by rewrite (Hu lq Hq).
  - exfalso. pose proof (find_none _ _ Ef (p, tc) Hin) as Hn. cbn in Hn. by rewrite Z.eqb_refl in Hn.
Qed.

Lemma resolve_honest_wins_lt H hard v env raws hint cps p tc tfilt bans res :
  In (p, tc) cps -> (forall l, In (p, l) cps -> l = tc) ->
  peer_hard_bad hard tc = false ->
  (forall q l, In (q, l) cps -> (length l <= length tc)%nat) ->
  honest_serves_lt H hard v env raws cps p tc tfilt ->
  resolve_conflict H hard v env raws hint cps = (bans, res) ->
  ~ In p bans /\
  (forall l, res = Some l -> forall (i : nat) x y, l !! i = Some x -> tc !! i = Some y -> x = y) /\
  (forall l, res = Some l -> forall q lq (i : nat) x y,
      In (q, lq) cps -> lq !! i = Some x -> tc !! i = Some y -> x <> y -> In q bans) /\
  (* when the map's choice falls on the honest peer, its list is the one returned *)
  (hint = p -> forall l, res = Some l -> l = tc).
Proof.
  intros Hp Huniq Hhard Hlen Hhon.
  unfold resolve_conflict, resolve_conflict_ix. cbv zeta.
  set (bad0 := List.map fst (List.filter (fun c : Z * list Z => peer_hard_bad hard (snd c)) cps)).
  assert (Hpb0 : ~ In p bad0).
  { unfold bad0. intros Hin. apply in_map_iff in Hin as ([q l] & Eq & Hin). cbn in Eq. subst q.
    apply filter_In in Hin as [Hin Hb]. cbn [snd] in Hb. rewrite (Huniq l Hin) in Hb. congruence. }
  set (cps1 := remove_peers bad0 cps).
  assert (Hp1 : In (p, tc) cps1).
  { apply remove_peers_In. split; [done|]. cbn. by apply mem_false. }
  assert (Hb0 : forall q lq, In (q, lq) cps -> In q bad0 \/ In (q, lq) cps1).
  { intros q lq Hq. destruct (mem q bad0) eqn:Em.
    - left. by apply mem_In.
    - right. apply remove_peers_In. done. }
  assert (Hlen1 : forall q l, In (q, l) cps1 -> (length l <= length tc)%nat).
  { intros q l Hq. apply remove_peers_In in Hq as [Hq _]. eauto. }
  rewrite (match_ne cps1) by (eapply In_ne; exact Hp1).
  destruct (check_sanity cps1 v) as [|d|] eqn:Es.
  - (* all agree *)
    intros [= <- <-]. split; [done|]. split; [|split].
    + intros l Hl. destruct (choose hint cps1) as [[c lc]|] eqn:Ec; [|done].
      cbn in Hl. injection Hl as <-. apply choose_In in Ec.
      intros i x y Hx Hy. exact (check_sanity_all cps1 v Es c lc p tc i x y Ec Hp1 Hx Hy).
    + intros l _ q lq i x y Hq Hx Hy Hne.
      destruct (Hb0 q lq Hq) as [Hb|Hq1]; [done|].
      exfalso. apply Hne. exact (check_sanity_all cps1 v Es q lq p tc i x y Hq1 Hp1 Hx Hy).
    + intros -> l Hl. rewrite (choose_hint p cps1 tc Hp1) in Hl.
      * cbn in Hl. congruence.
      * intros l' Hl'. apply Huniq. by apply remove_peers_In in Hl' as [Hl' _].
  - (* a first differing checkpoint *)
    destruct (check_sanity_diff cps1 v d Es) as (j & -> & Hj & Hagree).
    assert (Hjtc : (j < length tc)%nat).
    { pose proof (max_len_le cps1 (length tc) Hlen1). lia. }
    set (cps2 := List.filter (fun c : Z * list Z => negb (zlen (snd c) <? Z.of_nat j)) cps1).
    assert (Hp2 : In (p, tc) cps2).
    { unfold cps2. apply filter_In. split; [done|]. cbn [snd]. apply negb_true_iff, Z.ltb_ge.
      unfold zlen. lia. }
    rewrite (match_ne cps2) by (eapply In_ne; exact Hp2).
    set (startH := u32 (Z.of_nat j * INTERVAL)).
    destruct (Hhon j Hjtc Es) as (tm & Hh & Hgood & Hcons). fold startH in Hh, Hgood.
    destruct (get_headers v startH raws) as [hs n] eqn:Eg. cbn [fst snd] in Hh, Hgood.
    destruct (negb (all_eq (List.map (fun c : Z * cfmsg => m_prev (snd c)) hs))).
    { intros [= <- <-]. split; [done|]. split; [|split]; intros; discriminate. }
    unfold full_ix.
    destruct (settle_all env startH hs (seq 0 (zn n)) []) as [r bans1] eqn:Esa.
    assert (Hg : forall i : nat, In i (seq 0 (zn n)) -> good_idx env tfilt tm startH p (Z.of_nat i)).
    { intros i Hi. apply in_seq in Hi. apply Hgood. lia. }
    destruct (settle_all_safe env tfilt tm startH p (seq 0 (zn n)) hs [] r bans1 Hg Hh (fun x => x) Esa)
      as (Hpb1 & _ & Hres).
    destruct r as [hs'|].
    2:{ intros [= <- <-]. split; [rewrite in_app_iff; tauto|]. split; [|split]; intros; discriminate. }
    destruct Hres as (Hsub & Hh' & _ & Hrem).
    set (cps3 := remove_peers bans1 cps2).
    set (silent := List.map fst (List.filter (fun c : Z * list Z => negb (mem (fst c) (List.map fst hs'))) cps3)).
    set (cps4 := remove_peers silent cps3).
    set (cpliars := List.map fst (List.filter (fun c : Z * list Z =>
                      match msg_of (fst c) hs' with
                      | Some m => cp_contradicts H (Z.of_nat j) (snd c) m
                      | None => false
                      end) cps4)).
    set (cps5 := remove_peers cpliars cps4).
    assert (Hp3 : In (p, tc) cps3).
    { apply remove_peers_In. split; [done|]. cbn. by apply mem_false. }
    assert (Hps : ~ In p silent).
    { unfold silent. intros Hin. apply in_map_iff in Hin as ([q l] & Eq & Hin). cbn in Eq. subst q.
      apply filter_In in Hin as [_ Hb]. cbn [fst] in Hb. apply negb_true_iff, mem_false in Hb.
      apply Hb. apply in_map_iff. exists (p, tm). split; [done|]. apply Hh'. }
    assert (Hp4 : In (p, tc) cps4).
    { apply remove_peers_In. split; [done|]. cbn. by apply mem_false. }
    assert (Hpl : ~ In p cpliars).
    { unfold cpliars. intros Hin. apply in_map_iff in Hin as ([q l] & Eq & Hin). cbn in Eq. subst q.
      apply filter_In in Hin as [Hin Hb]. cbn [fst snd] in Hb.
      assert (l = tc) as ->.
      { apply Huniq. apply remove_peers_In in Hin as [Hin _]. apply remove_peers_In in Hin as [Hin _].
        apply filter_In in Hin as [Hin _]. apply remove_peers_In in Hin as [Hin _]. done. }
      destruct (msg_of p hs') as [m|] eqn:Em; [|done].
      apply msg_of_In in Em. rewrite (proj2 Hh' m Em) in Hb. congruence. }
    assert (Hp5 : In (p, tc) cps5).
    { apply remove_peers_In. split; [done|]. cbn. by apply mem_false. }
    assert (Hpall : ~ In p (bad0 ++ bans1 ++ silent ++ cpliars)).
    { rewrite !in_app_iff. tauto. }
    destruct (check_sanity cps5 v) as [|d'|] eqn:Es5.
    + destruct (choose hint cps5) as [[c lc]|] eqn:Ec.
      2:{ intros [= <- <-]. split; [done|]. split; [|split]; intros; discriminate. }
      pose proof Ec as Ec0. apply choose_In in Ec.
      intros [= <- <-]. split; [done|]. split; [|split].
      3:{ intros -> l [= <-]. rewrite (choose_hint p cps5 tc Hp5) in Ec0.
          - by injection Ec0 as _ <-.
          - intros l' Hl'. apply Huniq. unfold cps5, cps4, cps3, cps2 in Hl'.
            apply remove_peers_In in Hl' as [Hl' _]. apply remove_peers_In in Hl' as [Hl' _].
            apply remove_peers_In in Hl' as [Hl' _]. apply filter_In in Hl' as [Hl' _].
            by apply remove_peers_In in Hl' as [Hl' _]. }
      * intros l [= <-]. cbn [snd]. intros i x y Hx Hy.
        exact (check_sanity_all cps5 v Es5 c lc p tc i x y Ec Hp5 Hx Hy).
      * intros l _ q lq i x y Hq Hx Hy Hne. rewrite !in_app_iff.
        destruct (Hb0 q lq Hq) as [Hb|Hq1]; [by left|].
        destruct (zlen lq <? Z.of_nat j) eqn:El.
        { exfalso. apply Hne. apply (Hagree q lq p tc i x y); try done.
          apply lookup_lt_Some in Hx. apply Z.ltb_lt in El. unfold zlen in El. lia. }
        assert (Hq2 : In (q, lq) cps2).
        { unfold cps2. apply filter_In. split; [done|]. cbn [snd]. by rewrite El. }
        destruct (mem q bans1) eqn:Em1.
        { right. left. by apply mem_In. }
        assert (Hq3 : In (q, lq) cps3).
        { apply remove_peers_In. done. }
        destruct (mem q silent) eqn:Ems.
        { right. right. left. by apply mem_In. }
        assert (Hq4 : In (q, lq) cps4).
        { apply remove_peers_In. done. }
        destruct (mem q cpliars) eqn:Eml.
        { right. right. right. by apply mem_In. }
        assert (Hq5 : In (q, lq) cps5).
        { apply remove_peers_In. done. }
        exfalso. apply Hne. exact (check_sanity_all cps5 v Es5 q lq p tc i x y Hq5 Hp5 Hx Hy).
    + intros [= <- <-]. split; [done|]. split; [|split]; intros; discriminate.
    + intros [= <- <-]. split; [done|]. split; [|split]; intros; discriminate.
  - intros [= <- <-]. split; [done|]. split; [|split]; intros; discriminate.
Qed.

Lemma resolve_honest_wins_eq H hard v env raws hint cps p tc tfilt bans res :
  In (p, tc) cps -> (forall l, In (p, l) cps -> l = tc) ->
  peer_hard_bad hard tc = false ->
  (forall q l, In (q, l) cps -> (length l <= length tc)%nat) ->
  honest_serves H v env raws p tc tfilt ->
  resolve_conflict H hard v env raws hint cps = (bans, res) ->
  ~ In p bans /\
  (forall l, res = Some l -> forall (i : nat) x y, l !! i = Some x -> tc !! i = Some y -> x = y) /\
  (forall l, res = Some l -> forall q lq (i : nat) x y,
      In (q, lq) cps -> lq !! i = Some x -> tc !! i = Some y -> x <> y -> In q bans).
Proof.
  intros Hp Huniq Hhard Hlen Hhon Hr.
  destruct (resolve_honest_wins_lt H hard v env raws hint cps p tc tfilt bans res Hp Huniq Hhard Hlen
              (honest_serves_lt_of H hard v env raws cps p tc tfilt Hhon) Hr) as (A & B & C & _).
  done.
Qed.

Theorem resolve_honest_wins H hard v env raws hint cps p tc tfilt :
  In (p, tc) cps -> (forall l, In (p, l) cps -> l = tc) ->
  peer_hard_bad hard tc = false ->
  (forall q l, In (q, l) cps -> (length l <= length tc)%nat) ->
  honest_serves H v env raws p tc tfilt ->
  let '(bans, res) := resolve_conflict H hard v env raws hint cps in
  ~ In p bans /\
  (forall l, res = Some l -> forall (i : nat) x y, l !! i = Some x -> tc !! i = Some y -> x = y) /\
  (forall l, res = Some l -> forall q lq (i : nat) x y,
      In (q, lq) cps -> lq !! i = Some x -> tc !! i = Some y -> x <> y -> In q bans).
Proof.
  intros Hp Huniq Hhard Hlen Hhon.
  destruct (resolve_conflict H hard v env raws hint cps) as [bans res] eqn:E.
  eapply resolve_honest_wins_eq; eauto.
Qed.

Print Assumptions resolve_honest_wins.

(* ---------- the hard-coded control checkpoints ---------- *)
Lemma In_combine_seq (cp : list Z) : forall (s i : nat) c,
  In (i, c) (List.combine (seq s (length cp)) cp) <-> (s <= i)%nat /\ cp !! (i - s)%nat = Some c.
Proof.
  induction cp as [|x cp IH]; intros s i c; cbn [length seq List.combine].
  - split; [intros []|intros [_ Hx]; discriminate].
  - cbn [In]. rewrite IH. split.
    + intros [[= <- <-]|[Hs Hl]].
      * split; [lia|]. by rewrite Nat.sub_diag.
      * split; [lia|]. replace (i - s)%nat with (S (i - S s)) by lia. done.
    + intros [Hs Hl]. destruct (decide (i = s)) as [->|Hne].
      * left. rewrite Nat.sub_diag in Hl. cbn in Hl. congruence.
      * right. split; [lia|]. replace (i - s)%nat with (S (i - S s)) in Hl by lia. done.
Qed.

(* a list contradicts the table iff SOME entry - the first, any, the last -
   sits at a control height and differs from the control value *)
Lemma peer_hard_bad_spec hard cp :
  peer_hard_bad hard cp = true <->
  exists (i : nat) c w, cp !! i = Some c /\ hard (u32 ((Z.of_nat i + 1) * INTERVAL)) = Some w /\ w <> c.
Proof.
  unfold peer_hard_bad. rewrite existsb_exists. split.
  - intros ([i c] & Hin & Hb). apply In_combine_seq in Hin as [_ Hl]. rewrite Nat.sub_0_r in Hl.
    cbn [fst snd] in Hb. destruct (hard _) as [w|] eqn:Eh; [|discriminate].
    exists i, c, w. split; [done|]. split; [done|]. apply negb_true_iff, Z.eqb_neq in Hb. done.
  - intros (i & c & w & Hl & Hh & Hne). exists (i, c). split.
    + apply In_combine_seq. split; [lia|]. by rewrite Nat.sub_0_r.
    + cbn [fst snd]. rewrite Hh. by apply negb_true_iff, Z.eqb_neq.
Qed.

(* resolveConflict and the control table, for every set of lists, answers,
   filters and map choices: the sender of a list that contradicts a control
   checkpoint is banned, and the list returned contradicts none *)
Theorem resolve_control H hard v env raws hint cps bans res :
  resolve_conflict H hard v env raws hint cps = (bans, res) ->
  (forall q l, In (q, l) cps -> peer_hard_bad hard l = true -> In q bans) /\
  (forall l, res = Some l -> peer_hard_bad hard l = false).
Proof.
  unfold resolve_conflict, resolve_conflict_ix. cbv zeta.
  set (bad0 := List.map fst (List.filter (fun c : Z * list Z => peer_hard_bad hard (snd c)) cps)).
  set (cps1 := remove_peers bad0 cps).
  assert (Hb0 : forall q l, In (q, l) cps -> peer_hard_bad hard l = true -> In q bad0).
  { intros q l Hin Hb. unfold bad0. apply in_map_iff. exists (q, l). split; [done|]. by apply filter_In. }
  assert (H1 : forall q l, In (q, l) cps1 -> peer_hard_bad hard l = false).
  { intros q l Hq. apply remove_peers_In in Hq as [Hq Hm]. cbn in Hm. apply mem_false in Hm.
    destruct (peer_hard_bad hard l) eqn:E; [|done]. exfalso. apply Hm. by apply (Hb0 q l). }
  assert (Hok : forall bs r, (forall l, r = Some l -> exists q, In (q, l) cps1) ->
            (forall q l, In (q, l) cps -> peer_hard_bad hard l = true -> In q (bad0 ++ bs)) /\
            (forall l, r = Some l -> peer_hard_bad hard l = false)).
  { intros bs r Hr. split.
    - intros q l Hin Hb. rewrite in_app_iff. left. by apply (Hb0 q l).
    - intros l Hl. destruct (Hr l Hl) as [q Hq]. by apply (H1 q l). }
  assert (Hok0 : forall r, (forall l, r = Some l -> exists q, In (q, l) cps1) ->
            (forall q l, In (q, l) cps -> peer_hard_bad hard l = true -> In q bad0) /\
            (forall l, r = Some l -> peer_hard_bad hard l = false)).
  { intros r Hr. destruct (Hok [] r Hr) as [A B]. split; [|done]. intros q l Hin Hb.
    specialize (A q l Hin Hb). by rewrite app_nil_r in A. }
  destruct cps1 as [|c1 r1] eqn:E1; [intros [= <- <-]; by apply Hok0|]. rewrite <- E1 in *. clear E1.
  destruct (check_sanity cps1 v) as [|d|].
  - intros [= <- <-]. apply Hok0. intros l Hl.
    destruct (choose hint cps1) as [[q lq]|] eqn:Ec; cbn in Hl; [|discriminate]. injection Hl as <-.
    exists q. by apply choose_In in Ec.
  - set (cps2 := List.filter (fun c : Z * list Z => negb (zlen (snd c) <? d)) cps1).
    destruct cps2 as [|c2 r2] eqn:E2; [intros [= <- <-]; by apply Hok0|]. rewrite <- E2 in *. clear E2.
    destruct (get_headers v (u32 (d * INTERVAL)) raws) as [hs n].
    destruct (negb (all_eq (List.map (fun c : Z * cfmsg => m_prev (snd c)) hs))); [intros [= <- <-]; by apply Hok0|].
    destruct (settle_all env (u32 (d * INTERVAL)) hs (full_ix hs n) []) as [[hs'|] bans1];
      [|intros [= <- <-]; by apply Hok].
    match goal with |- context [check_sanity ?X v] => set (cps5 := X) end.
    assert (H5 : forall q l, In (q, l) cps5 -> In (q, l) cps1).
    { intros q l' Hq. unfold cps5 in Hq.
      apply remove_peers_In in Hq as [Hq _]. apply remove_peers_In in Hq as [Hq _].
      apply remove_peers_In in Hq as [Hq _]. by apply filter_In in Hq as [Hq _]. }
    destruct (check_sanity cps5 v); try (intros [= <- <-]; by apply Hok).
    destruct (choose hint cps5) as [[q lq]|] eqn:Ec; intros [= <- <-]; apply Hok; [|done].
    intros l [= <-]. exists q. apply H5. by apply choose_In in Ec.
  - intros [= <- <-]. by apply Hok0.
Qed.
