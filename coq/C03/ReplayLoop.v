(* C03 — replay of runs of the REAL cfHandler goroutine (harness cmd/c03
   -loop) against the loop model (kind 1, round by round) and the monitor of
   the loop properties on the implementation's observations (kind 2):
   an honest peer banned / a filter header committed that is not the true one
   / a failed attempt that bans nobody new (no progress).

   Ground truth for the monitor: the harness builds the blocks and their
   filters itself; a chain event carries the true filter hashes of the new
   blocks, the true filter headers are computed here from them. *)
From stdpp Require Import gmap list.
From Coq Require Import ZArith.
From Verif Require Import S1.Model C07.Spec C03.Model C03.Spec C03.Replay C03.Loop.
Open Scope Z_scope.

Definition rcp := (Z * bool * Z * runs)%type.              (* peer, regular?, stop hash, list *)
(* class of the round, stop hash of the getcfcheckpt query, bans (sorted set), filter tip after *)
Definition lobs := (Z * option Z * list Z * option (Z * Z))%type.

Inductive rlev :=
| RChain (h : Z) (xs tfh : runs) (syn : bool)
| RConnect (p : Z)
| RLeave (p : Z)
| RRound (cpans : list rcp) (raws : list rraw) (envr : list renvrow) (rfilt : list (Z * Z))
         (hint : Z) (ars : list rarr) (ob : lobs).

Inductive lcase :=
| CL (ht : htab) (bl fl tfh : runs) (genesis : Z) (hard : list (Z * Z)) (conn honest : list Z) (evs : list rlev).

Definition mk_cp (r : rcp) : cpresp :=
  let '(p, g, s, l) := r in {| cr_peer := p; cr_reg := g; cr_stop := s; cr_list := unruns l |}.
Definition mk_arr (r : rarr) : arrival :=
  let '(q, p, g, m) := r in {| a_q := q; a_peer := p; a_reg := g; a_msg := mk_msg m |}.

(* what the harness can tell apart *)
Definition cls_of (code : Z) : Z :=
  if code =? 2 then 1 else if code =? 5 then 1 else code.

(* ---------- ground truth ---------- *)
(* true filter headers by height for true filter hashes tfh (height 0 first) *)
Definition true_headers (Hf : Z -> Z -> Z) (tfh : list Z) : list Z := chain_from Hf 0 tfh.

Definition true_cps (thd : list Z) (stopH : Z) : list Z :=
  List.map (fun k : nat => default (-1) (zget thd ((Z.of_nat k + 1) * INTERVAL))) (seq 0 (zn (stopH / INTERVAL))).

(* m is the true answer to SOME getcfheaders query on the chain bl *)
Definition true_msgb (bl tfh thd : list Z) (m : cfmsg) : bool :=
  match index_of2 (m_stop m) bl 0 with
  | None => false
  | Some e =>
    let n := zlen (m_hashes m) in
    let st := e - n + 1 in
    (0 <=? st) && (0 <? n) &&
    (m_prev m =? (if st =? 0 then 0 else default (-1) (zget thd (st - 1)))) &&
    list_eqb (m_hashes m) (take (zn n) (drop (zn st) tfh))
  end.
Definition start_of (bl : list Z) (m : cfmsg) : Z :=
  match index_of2 (m_stop m) bl 0 with
  | None => 0
  | Some e => e - zlen (m_hashes m) + 1
  end.

Definition STALL_ROUNDS : Z := 24.

Record mon := {
  m_tfh : list Z;          (* true filter hashes by height of the current chain *)
  m_thd : list Z;          (* true filter headers *)
  m_conn : list Z;         (* connected, by the implementation's bans *)
  m_ok : bool;             (* the hypotheses held in every round so far *)
  m_stall : Z              (* consecutive fetch rounds without progress while a whole interval behind *)
}.

Section Run.
Variable Hf : Z -> Z -> Z.
Variable cfg : lcfg.
Variable honest : list Z.

Definition mon_chain (m : mon) (h : Z) (xs tfh : list Z) (blen : Z) : mon :=
  let keep := if h + 1 <? blen then zn (h + 1) else zn blen in
  let tf := take keep (m_tfh m) ++ tfh in
  let base := take keep (m_thd m) in
  let thd := base ++ chain_from Hf (default 0 (last base)) tfh in
  {| m_tfh := tf; m_thd := thd; m_conn := m_conn m; m_ok := m_ok m; m_stall := 0 |}.

(* the hypotheses of the loop theorems, on the data of one round *)
Definition round_hyp (m : mon) (bl : list Z) (cpans : list rcp) (raws : list rraw)
           (envr : list renvrow) (rfilt : list (Z * Z)) (ars : list rarr) (asked : option Z) : bool :=
  let rs := List.map mk_raw raws in
  let T := {| rt_fh := []; rt_fl := []; rt_filt := rfilt |} in
  negb (length honest =? 0)%nat &&
  List.forallb (fun p =>
    mem p (m_conn m) &&
    (* checkpoint list *)
    match asked with
    | None => true
    | Some stop =>
      let mine := List.filter (fun r : rcp => let '(q, _, _, _) := r in q =? p) cpans in
      match index_of2 stop bl 0 with
      | None => match mine with [] => true | _ => false end
      | Some sh =>
        match mine with
        | (_, g, s, l) :: _ => g && (s =? stop) && list_eqb (unruns l) (true_cps (m_thd m) sh)
        | [] => false
        end
      end
    end &&
    (* cfheaders broadcast *)
    match rs with
    | [] => true
    | _ =>
      match first_raw p rs with
      | Some r =>
        let tm := r_msg r in
        let startH := start_of bl tm in
        r_reg r && true_msgb bl (m_tfh m) (m_thd m) tm &&
        rows_in_class envr T tm startH && honest_rows envr T tm startH p &&
        List.forallb (fun x : rawresp =>
          negb (r_reg x && (m_stop (r_msg x) =? m_stop tm) &&
                (zlen (m_hashes (r_msg x)) =? zlen (m_hashes tm))) ||
          (m_prev (r_msg x) =? m_prev tm)) rs
      | None => false
      end
    end &&
    (* dispatcher *)
    List.forallb (fun a : rarr =>
      let '(_, q, g, mm) := a in
      negb (q =? p) || (g && true_msgb bl (m_tfh m) (m_thd m) (mk_msg mm))) ars) honest.

(* (model state, monitor, step number) -> verdict rows *)
Fixpoint run_evs (id : Z) (s : lstate) (m : mon) (i : Z) (mism : bool) (evs : list rlev)
  : list (Z * Z * Z * Z) :=
  match evs with
  | [] => []
  | e :: rest =>
    match e with
    | RChain h xs tfh syn =>
      let s' := lstep Hf cfg s (EChain h (unruns xs) syn) in
      run_evs id s' (mon_chain m h (unruns xs) (unruns tfh) (zlen (abl (l_a s)))) (i + 1) mism rest
    | RConnect p =>
      let s' := lstep Hf cfg s (EConnect p) in
      run_evs id s' {| m_tfh := m_tfh m; m_thd := m_thd m;
                       m_conn := if mem p (m_conn m) then m_conn m else m_conn m ++ [p]; m_ok := m_ok m; m_stall := 0 |}
              (i + 1) mism rest
    | RLeave p =>
      let s' := lstep Hf cfg s (ELeave p) in
      run_evs id s' {| m_tfh := m_tfh m; m_thd := m_thd m;
                       m_conn := List.filter (fun q => negb (q =? p)) (m_conn m); m_ok := m_ok m; m_stall := 0 |}
              (i + 1) mism rest
    | RRound cpans raws envr rfilt hint ars ob =>
      let d := {| d_cpans := List.map mk_cp cpans; d_raws := List.map mk_raw raws; d_env := mk_env envr;
                  d_hint := hint; d_ars := List.map mk_arr ars |} in
      let '(s', (code, asked, bans)) := round Hf cfg s d in
      let '(ocls, oasked, obans, oftip) := ob in
      let same := (cls_of code =? ocls) && opt_eqb Z.eqb asked oasked && list_eqb (sort_set bans) obans &&
                  ((ocls =? 6) || opt_eqb pair_eqb (tip_of (afl (l_a s'))) oftip) in
      let r1 := if mism || same then [] else [(id, 1, i, cls_of code)] in
      let r10 := verdict_diffs id envr in
      (* monitor, on the implementation's observations *)
      let bl := abl (l_a s) in
      (* a round in which nobody says anything keeps the safety hypotheses
         (nothing false was said, nothing was cached) but promises no progress *)
      let strict := round_hyp m bl cpans raws envr rfilt ars oasked in
      let quiet := match cpans, raws, ars with [], [], [] => true | _, _, _ => false end in
      let hyp := m_ok m && (strict || quiet) in
      let r2 :=
        if hyp then
          let ok_honest := List.forallb (fun p => negb (mem p obans)) honest in
          let ok_value :=
            negb (ocls =? 6) &&
            match oftip with
            | Some (x, h) => opt_eqb Z.eqb (zget (m_thd m) h) (Some x) && (h <? zlen bl)
            | None => false
            end in
          (* a round whose block fetch failed is no verdict: no progress is
             demanded of it (the safety checks apply all the same) *)
          let avail := List.forallb (fun r : renvrow => let '(_, _, hok, bok, _, _) := r in hok && bok) envr in
          let ok_progress :=
            negb strict || negb avail || negb (ocls =? 1) || List.existsb (fun q => mem q (m_conn m)) obans in
          if ok_honest && ok_value && ok_progress then [] else [(id, 2, i, l_flag s')]
        else [] in
      (* no stall: the checkpointed fetch runs again and again (an honest peer
         with the complete list answering every time, the filter tip a whole
         interval behind, the chain unchanged) without committing anything.
         Which of several agreeing lists the handler takes is the map's
         choice; a correct but shorter list may be taken in a round, but not
         STALL_ROUNDS times in a row *)
      let stalled := hyp && strict && (ocls =? 3) && opt_eqb pair_eqb oftip (tip_of (afl (l_a s))) &&
                     match oftip with Some (_, h) => h + INTERVAL <=? zlen bl - 1 | None => false end in
      let stall := if stalled then m_stall m + 1 else 0 in
      let r4 := if stall =? STALL_ROUNDS then [(id, 2, i, 0)] else [] in
      let m' := {| m_tfh := m_tfh m; m_thd := m_thd m;
                   m_conn := List.filter (fun q => negb (mem q obans)) (m_conn m); m_ok := hyp;
                   m_stall := stall |} in
      (* hard-coded control checkpoints, whoever is honest: the sender of an
         accepted list that (capped at the tip) contradicts one at any entry
         is banned in this round; a filter tip at a control height carries
         the control value *)
      let r3 :=
        let ncap := zn ((zlen bl - 1) / INTERVAL) in
        let ok_ban := List.forallb (fun r : rcp =>
                        let '(q, g, st, l) := r in
                        negb (g && opt_eqb Z.eqb (Some st) oasked) ||
                        negb (peer_hard_bad (c_hard cfg) (take ncap (unruns l))) || mem q obans) cpans in
        let ok_tip := match oftip with
                      | Some (x, h) => match c_hard cfg h with Some w => x =? w | None => true end
                      | None => true
                      end in
        if ok_ban && ok_tip then [] else [(id, 2, i, 0)] in
      r1 ++ r10 ++ r2 ++ r3 ++ r4 ++ run_evs id s' m' (i + 1) (mism || negb same) rest
    end
  end.

End Run.

(* [legacy]: replay against the model of the code before the repairs F110-F112 *)
Definition lverdict_with (legacy : bool) (c : Z * lcase) : list (Z * Z * Z * Z) :=
  let '(id, CL ht bl fl tfh genesis hard conn honest evs) := c in
  let Hf := hlook ht in
  let cfg := {| c_hard := fun h => lookup h hard; c_cp := None; c_genesis := genesis; c_legacy := legacy; c_height_only := legacy |} in
  let a := {| abl := unruns bl; afl := unruns fl |} in
  let tf := unruns tfh in
  let m := {| m_tfh := tf; m_thd := true_headers Hf tf; m_conn := conn; m_ok := true; m_stall := 0 |} in
  run_evs Hf cfg honest id (linit a conn false) m 0 false evs.

Definition run_lcases_with (legacy : bool) (cs : list (Z * lcase)) : list (Z * Z * Z * Z) :=
  flat_map (lverdict_with legacy) cs.
Definition run_lcases := run_lcases_with false.
