(* C03 — structural layer: write_cf / rollback / bappend over the S1 store
   refine the two-list specification (C07's Inv), and every reachable state
   satisfies struct_ok. *)
From stdpp Require Import gmap list.
From Coq Require Import ZArith Lia ZifyBool.
From Verif Require Import S1.Model C07.Spec C07.Proofs C03.Model C03.Spec.
Open Scope Z_scope.

(* ---------- generic helpers ---------- *)
Lemma zlen_alen (l : list Z) : zlen l = alen l.
Proof. reflexivity. Qed.

Lemma index_of2_eq x l : forall i, index_of2 x l i = index_of x l i.
Proof.
  induction l as [|y l IH]; intros i; cbn; [reflexivity|].
  destruct (y =? x); [reflexivity|apply IH].
Qed.

Lemma u32_small z : 0 <= z < U32 -> u32 z = z.
Proof. intros Hz. unfold u32. apply Z.mod_small. exact Hz. Qed.

Lemma u32_neg z : - U32 <= z < 0 -> u32 z = z + U32.
Proof.
  intros Hz. unfold u32. symmetry. apply (Z.mod_unique_pos z U32 (-1) (z + U32)); unfold U32 in *; lia.
Qed.

Lemma combine_fst {A B} (xs : list A) : forall (ys : list B),
  length xs = length ys -> (combine xs ys).*1 = xs.
Proof.
  induction xs as [|x xs IH]; intros [|y ys] Hl; cbn in *; try reflexivity; try discriminate.
  f_equal. apply IH. lia.
Qed.

Lemma combine_snd {A B} (xs : list A) : forall (ys : list B),
  length xs = length ys -> (combine xs ys).*2 = ys.
Proof.
  induction xs as [|x xs IH]; intros [|y ys] Hl; cbn in *; try reflexivity; try discriminate.
  f_equal. apply IH. lia.
Qed.

Lemma of2_to2 a : of2 (to2 a) = a.
Proof. by destruct a. Qed.

Section S.
Variable H : Z -> Z -> Z.
Variable parent : Z -> Z.

(* ---------- 1. awrite_cf ---------- *)
Lemma chain_from_length p hs : length (chain_from H p hs) = length hs.
Proof. revert p. induction hs as [|h hs IH]; intros p; cbn; [reflexivity|]. f_equal. apply IH. Qed.

Lemma awrite_cf_ok a m a' hd ht :
  awrite_cf H a m = (a', Some (hd, ht)) ->
  abl a' = abl a /\
  afl a' = afl a ++ chain_from H (m_prev m) (m_hashes m) /\
  last (afl a) = Some (m_prev m) /\
  m_hashes m <> [] /\
  ht = zlen (afl a') - 1 /\
  index_of2 (m_stop m) (abl a) 0 = Some ht /\
  hd = default 0 (last (afl a')).
Proof.
  unfold awrite_cf. intros Hw.
  destruct (last (afl a)) as [tip|] eqn:Etip; [|discriminate].
  destruct (tip =? m_prev m) eqn:Ep; cbn [negb] in Hw; [|discriminate].
  apply Z.eqb_eq in Ep. subst tip.
  destruct (zlen (m_hashes m) =? 0) eqn:En; [discriminate|].
  destruct (index_of2 (m_stop m) (abl a) 0) as [e|] eqn:Ee; [|discriminate].
  destruct (e =? zlen (afl a) + zlen (m_hashes m) - 1) eqn:Eal; cbn [negb] in Hw; [|discriminate].
  injection Hw as <- <- <-. cbn [abl afl].
  assert (Hne : m_hashes m <> []).
  { intros E. rewrite E in En. discriminate. }
  assert (Hcne : chain_from H (m_prev m) (m_hashes m) <> []).
  { intros E. apply (f_equal length) in E. rewrite chain_from_length in E.
    destruct (m_hashes m); [contradiction|discriminate]. }
  repeat split; try assumption; try reflexivity.
  - unfold zlen in *. rewrite app_length, chain_from_length. lia.
  - rewrite last_app.
    destruct (last (chain_from H (m_prev m) (m_hashes m))) eqn:El; [reflexivity|].
    apply last_None in El. contradiction.
Qed.

Lemma awrite_cf_err a m a' : awrite_cf H a m = (a', None) -> a' = a.
Proof.
  unfold awrite_cf. intros Hw.
  destruct (last (afl a)) as [tip|]; [|congruence].
  destruct (negb (tip =? m_prev m)); [congruence|].
  destruct (zlen (m_hashes m) =? 0); [congruence|].
  destruct (index_of2 (m_stop m) (abl a) 0) as [e|]; [|congruence].
  destruct (negb (e =? zlen (afl a) + zlen (m_hashes m) - 1)); [congruence|discriminate].
Qed.

(* ---------- 2. chained ---------- *)
Lemma chained_snoc l p fh : chained H l -> last l = Some p -> chained H (l ++ [H fh p]).
Proof.
  intros Hc Hl i x y Hx Hy.
  destruct (decide (S i < length l)%nat) as [Hlt|Hge].
  - rewrite lookup_app_l in Hx by lia. rewrite lookup_app_l in Hy by lia. eapply Hc; eauto.
  - destruct (decide (S i = length l)) as [Heq|Hne].
    + rewrite lookup_app_l in Hx by lia. rewrite lookup_app_r in Hy by lia.
      replace (S i - length l)%nat with 0%nat in Hy by lia. cbn in Hy. injection Hy as <-.
      rewrite last_lookup in Hl. replace (pred (length l)) with i in Hl by lia.
      rewrite Hl in Hx. injection Hx as <-. by exists fh.
    + apply lookup_lt_Some in Hy. rewrite app_length in Hy. cbn in Hy. lia.
Qed.

Lemma chained_app l p hs : chained H l -> last l = Some p -> chained H (l ++ chain_from H p hs).
Proof.
  revert l p. induction hs as [|h hs IH]; intros l p Hc Hl; cbn [chain_from].
  - by rewrite app_nil_r.
  - rewrite (cons_middle (H h p)), app_assoc. apply IH.
    + by apply chained_snoc.
    + by rewrite last_snoc.
Qed.

Lemma chained_take l k : chained H l -> chained H (take k l).
Proof.
  intros Hc i x y Hx Hy.
  apply lookup_take_Some in Hx as [Hx _]. apply lookup_take_Some in Hy as [Hy _]. eapply Hc; eauto.
Qed.

Lemma parent_ok_take l k : parent_ok parent l -> parent_ok parent (take k l).
Proof.
  intros Hc i x y Hx Hy.
  apply lookup_take_Some in Hx as [Hx _]. apply lookup_take_Some in Hy as [Hy _]. eapply Hc; eauto.
Qed.

Lemma chained_single x : chained H [x].
Proof. intros i y z _ Hz. destruct i; discriminate. Qed.
Lemma parent_ok_single x : parent_ok parent [x].
Proof. intros i y z _ Hz. destruct i; discriminate. Qed.

(* ---------- 7. struct_ok ---------- *)
Lemma inv_struct_ok s a : Inv s a -> chained H (fl a) -> struct_ok H s.
Proof.
  intros HI Hc. destruct HI as [Hbj Hfj Hbe Hfe Hnd Hidx Hbt Hbne Hfne Hle Hft Hlim].
  pose proof (alen_pos _ Hfne) as Hfp.
  assert (Hff : flen (ff s) = alen (fl a)) by (unfold flen; by rewrite Hfe).
  assert (Hbf : flen (bf s) = alen (bl a)) by (unfold flen; by rewrite Hbe).
  constructor.
  - by split.
  - lia.
  - lia.
  - rewrite Hft, Hff, Hbe. rewrite at_h_lookup by lia. rewrite zn_eq by lia. reflexivity.
  - intros t Ht. rewrite Hff. apply Hidx. by rewrite <- Hft.
  - by rewrite Hfe.
Qed.

(* ---------- 4. block header appends ---------- *)
Lemma bappend_refines b a xs :
  Inv (st b) a -> wf_sop parent a (SAppend xs) ->
  snd (bappend b xs) = true /\ Inv (st (fst (bappend b xs))) (aappend a xs).
Proof.
  intros HI (Hnd & Hlim & Hpo). unfold bappend.
  rewrite (b_chain_tip_ok _ _ HI). unfold a_tip.
  destruct (last (bl a)) as [t|] eqn:Et; [|apply last_None in Et; by destruct HI].
  set (hs := map (fun i : nat => alen (bl a) - 1 + 1 + Z.of_nat i) (seq 0 (length xs))).
  set (es := combine xs hs).
  assert (Hl : length xs = length hs) by (unfold hs; by rewrite map_length, seq_length).
  assert (H1 : es.*1 = xs) by (by apply combine_fst).
  assert (H2 : es.*2 = hs) by (by apply combine_snd).
  assert (Hlen : length es = length xs) by (rewrite <- (fmap_length fst es); by rewrite H1).
  assert (Hwf : wf_op a (BWrite es NoFault)).
  { cbn [wf_op single_append_fault]. rewrite H1, H2, Hlen. repeat split; try done.
    unfold hs. apply map_ext. intros i. lia. }
  destruct (bwrite_ok _ _ es HI Hwf) as [HI' Hr].
  destruct (bwrite (st b) es NoFault) as [s' r]. cbn [fst snd st] in *. subst r. split; [done|].
  unfold aappend. by rewrite <- H1.
Qed.

(* ---------- 3. write_cf ---------- *)
(* fwrite only looks at the block hash of the LAST entry *)
Lemma fwrite_last_ok s a es x :
  Inv s a -> es <> [] ->
  alen (fl a) + alen es.*1 <= alen (bl a) ->
  (forall e, last es = Some e -> e.2 = x) ->
  at_h (bl a) (alen (fl a) + alen es.*1 - 1) = Some x ->
  Inv (fst (fwrite s es NoFault)) {| bl := bl a; fl := fl a ++ es.*1 |} /\
  snd (fwrite s es NoFault) = ROk.
Proof.
  intros HI Hne Hle' Hlast Hat. unfold fwrite, append_raw.
  destruct es as [|e0 es0] eqn:Ees; [contradiction|].
  rewrite <- Ees in *. cbn [fst snd]. split; [|reflexivity]. clear Ees e0 es0.
  destruct HI as [Hbj Hfj Hbe Hfe Hnd Hidx Hbt Hbne Hfne Hle Hft Hlim].
  assert (HL : alen (fl a ++ es.*1) <= LIMIT) by (rewrite alen_app; lia).
  constructor; cbn [bf ff idx btip ftip bl fl]; try assumption.
  - unfold fappend. by rewrite Hfj.
  - unfold fappend. rewrite Hfj. cbn. by rewrite Hfe.
  - destruct (fl a); [contradiction|discriminate].
  - rewrite alen_app. lia.
  - destruct (last es) as [el|] eqn:El; [|apply last_None in El; contradiction].
    rewrite (Hlast el eq_refl). rewrite <- Hat. f_equal. rewrite alen_app. lia.
Qed.

Lemma last_map_seq {A} (f : nat -> A) k : last (map f (seq 0 (S k))) = Some (f k).
Proof. rewrite seq_S, map_app. cbn [map]. by rewrite last_snoc. Qed.

Lemma write_cf_refines b a m :
  Inv (st b) a -> zlen (m_hashes m) < U32 ->
  let r := write_cf H b m in
  let ar := awrite_cf H (to2 a) m in
  snd r = snd ar /\
  Inv (st (fst r)) (of2 (fst ar)) /\
  (forall hd ht, snd r = Some (hd, ht) -> tipH (fst r) = ht /\ at_h (bl a) ht = Some (tipX (fst r))).
Proof.
  intros HI Hn. cbv zeta.
  pose proof HI as HI0. destruct HI0 as [Hbj Hfj Hbe Hfe Hnd Hidx Hbt Hbne Hfne Hle Hft Hlim].
  pose proof (alen_pos _ Hfne) as Hfp.
  unfold write_cf, awrite_cf. rewrite (f_chain_tip_ok _ _ HI). unfold a_tip. cbn [to2 afl abl].
  change (zlen (fl a)) with (alen (fl a)).
  Ltac fin HI := cbn [fst snd st]; rewrite ?of2_to2; split; [reflexivity|split; [exact HI|intros ? ? ?; discriminate]].
  destruct (last (fl a)) as [tip|] eqn:Etip; [|fin HI].
  cbv beta iota zeta.
  destruct (tip =? m_prev m) eqn:Ep; cbn [negb]; [|fin HI].
  set (n := zlen (m_hashes m)) in *.
  destruct (n =? 0) eqn:En; [fin HI|].
  assert (Hnpos : 0 < n) by (apply Z.eqb_neq in En; unfold n, zlen in *; lia).
  apply Z.eqb_eq in Ep. subst tip.
  rewrite (index_of2_eq (m_stop m) (bl a) 0).
  rewrite (b_ancestors_ok _ _ HI). unfold a_ancestors, height_of.
  destruct (index_of (m_stop m) (bl a) 0) as [e|] eqn:Ee; [|fin HI].
  assert (Hate : at_h (bl a) e = Some (m_stop m)) by (apply height_of_at_h; [exact Hnd|lia|exact Ee]).
  pose proof (at_h_Some _ _ _ Hate) as Heb.
  rewrite (u32_small (n - 1)) by lia.
  replace (alen (fl a) - 1 + 1) with (alen (fl a)) by lia.
  rewrite (u32_small (alen (fl a))) by (unfold U32, LIMIT in *; lia).
  cbv zeta.
  destruct (e =? alen (fl a) + n - 1) eqn:Eal; cbn [negb].
  - (* aligned *)
    apply Z.eqb_eq in Eal.
    replace (e - (n - 1)) with (alen (fl a)) by lia.
    rewrite (u32_small (alen (fl a))) by (unfold U32, LIMIT in *; lia).
    unfold a_range. replace (e - alen (fl a) + 1) with n by lia. rewrite (u32_small n) by lia.
    replace (alen (fl a) + n <=? alen (bl a)) with true by (symmetry; apply Z.leb_le; lia).
    cbv beta iota zeta. rewrite Z.eqb_refl. cbn [negb].
    rewrite zn_eq by (unfold LIMIT in *; lia).
    replace (Z.to_nat n) with (S (Z.to_nat (n - 1))) by lia.
    rewrite last_map_seq.
    replace (alen (fl a) + Z.of_nat (Z.to_nat (n - 1))) with e by lia. rewrite Hate.
    cbn [from_option id].
    replace (alen (fl a) + n - 1) with e by lia. rewrite (u32_small e) by (unfold U32, LIMIT in *; lia).
    set (hdrs := chain_from H (m_prev m) (m_hashes m)).
    set (es := map (fun x : Z => (x, m_stop m)) hdrs).
    assert (Hes1 : es.*1 = hdrs).
    { unfold es. clearbody hdrs. induction hdrs as [|x l IH]; cbn; [reflexivity|]. f_equal. exact IH. }
    assert (Hlen : alen es.*1 = n).
    { rewrite Hes1. unfold hdrs, alen. rewrite chain_from_length. reflexivity. }
    assert (Hesne : es <> []).
    { intros E. rewrite E in Hlen. unfold alen in Hlen. cbn in Hlen. lia. }
    assert (Hlast2 : forall e', last es = Some e' -> e'.2 = m_stop m).
    { intros e' Hl. rewrite last_lookup in Hl. apply elem_of_list_lookup_2 in Hl.
      apply elem_of_list_In in Hl. unfold es in Hl. apply in_map_iff in Hl as (y & <- & _). reflexivity. }
    destruct (fwrite_last_ok (st b) a es (m_stop m) HI Hesne) as [HI' Hr].
    { lia. } { exact Hlast2. } { rewrite Hlen. rewrite <- Hate. f_equal. lia. }
    destruct (fwrite (st b) es NoFault) as [s' r]. cbn [fst snd] in HI', Hr. subst r.
    cbn [fst snd st tipH tipX of2 abl afl]. rewrite Hes1 in HI'.
    split; [reflexivity|]. split; [exact HI'|].
    intros hd ht [= <- <-]. split; [reflexivity|exact Hate].
  - (* not aligned: the concrete code fails too, before touching the store *)
    apply Z.eqb_neq in Eal.
    destruct (a_range (bl a) (u32 (e - (n - 1))) e) as [blocks|] eqn:Er; [|fin HI].
    destruct (u32 (e - (n - 1)) =? alen (fl a)) eqn:Est; cbn [negb]; [|fin HI].
    exfalso. apply Z.eqb_eq in Est. unfold a_range in Er. rewrite Est in Er.
    destruct (alen (fl a) + u32 (e - alen (fl a) + 1) <=? alen (bl a)) eqn:Ele; [|discriminate].
    apply Z.leb_le in Ele.
    destruct (decide (0 <= e - (n - 1))) as [Hge|Hlt].
    + rewrite u32_small in Est by (unfold U32, LIMIT in *; lia). lia.
    + rewrite u32_neg in Est by lia.
      rewrite u32_neg in Ele by (unfold U32, LIMIT in *; lia). unfold U32, LIMIT in *; lia.
Qed.

(* ---------- 5. rollBackToHeight ---------- *)
Lemma arollback_id a h : alen (bl a) <= h + 1 -> arollback a h = a.
Proof.
  intros Hle. unfold arollback.
  replace (h + 1 <? alen (bl a)) with false by (symmetry; apply Z.ltb_ge; lia). reflexivity.
Qed.

Lemma arollback_peel a h fl1 :
  0 <= h -> h + 1 < alen (bl a) -> alen (bl a) < LIMIT -> alen (fl a) <= alen (bl a) ->
  fl1 = (if alen (bl a) - 1 <=? alen (fl a) - 1 then take (zn (alen (fl a) - 1)) (fl a) else fl a) ->
  arollback {| bl := take (zn (alen (bl a) - 1)) (bl a); fl := fl1 |} h = arollback a h.
Proof.
  intros Hh Hlt Hlim Hle ->. unfold arollback. cbn [bl fl].
  set (B := alen (bl a)) in *. set (F := alen (fl a)) in *.
  pose proof (alen_nonneg (fl a)) as HF0. fold F in HF0.
  rewrite (zn_eq (B - 1)) by lia.
  assert (HB1 : alen (take (Z.to_nat (B - 1)) (bl a)) = B - 1) by (apply alen_take; fold B; lia).
  rewrite HB1.
  replace (h + 1 <? B) with true by (symmetry; apply Z.ltb_lt; lia).
  rewrite (zn_eq (h + 1)) by lia.
  destruct (B - 1 <=? F - 1) eqn:EF.
  - assert (HFB : F = B) by lia. rewrite (zn_eq (F - 1)) by lia.
    assert (HF1 : alen (take (Z.to_nat (F - 1)) (fl a)) = F - 1) by (apply alen_take; fold F; lia).
    rewrite HF1.
    destruct (h + 1 <? B - 1) eqn:E1.
    + rewrite !Z.min_r by lia. rewrite (zn_eq (h + 1)) by lia. rewrite !take_take.
      f_equal; f_equal; lia.
    + rewrite Z.min_r by lia. rewrite (zn_eq (h + 1)) by lia.
      f_equal; f_equal; lia.
  - destruct (h + 1 <? B - 1) eqn:E1.
    + rewrite take_take. f_equal. f_equal. lia.
    + assert (Hmin : Z.min F (h + 1) = F) by lia. rewrite Hmin. rewrite zn_eq by lia.
      f_equal; [f_equal; lia|]. symmetry. apply take_ge. unfold F, alen. lia.
Qed.

Definition okst (s : store) : Prop := exists a', Inv s a'.

Lemma rollback_loop_ok h (Hh : 0 <= h < U32) fuel : forall s a bsH bsX regH tr s' ok tr',
  Inv s a -> parent_ok parent (bl a) ->
  bsH = alen (bl a) - 1 -> last (bl a) = Some bsX -> regH = alen (fl a) - 1 ->
  alen (bl a) - 1 - h < Z.of_nat fuel ->
  Forall okst tr ->
  rollback_loop parent fuel s bsH bsX regH h tr = (s', ok, tr') ->
  ok = true /\ Inv s' (arollback a h) /\ Forall okst tr'.
Proof.
  induction fuel as [|fuel IH]; intros s a bsH bsX regH tr s' ok tr' HI Hpo HbH HbX HrH Hfuel Htr Hrun.
  - cbn in Hrun. injection Hrun as <- <- <-. rewrite arollback_id by lia. done.
  - cbn [rollback_loop] in Hrun. subst bsH regH.
    pose proof HI as HI0. destruct HI0 as [Hbj Hfj Hbe Hfe Hnd Hidx Hbt Hbne Hfne Hle Hft Hlim].
    pose proof (alen_pos _ Hfne) as Hfp. pose proof (alen_pos _ Hbne) as Hbp.
    set (B := alen (bl a)) in *. set (F := alen (fl a)) in *.
    rewrite (u32_small (B - 1)) in Hrun by (unfold U32, LIMIT in *; lia).
    destruct (B - 1 >? h) eqn:Egt.
    2: { injection Hrun as <- <- <-. rewrite arollback_id by (fold B; lia). done. }
    assert (Hgt : h < B - 1) by lia.
    rewrite (b_by_hash_ok _ _ HI) in Hrun.
    assert (HlastX : at_h (bl a) (B - 1) = Some bsX) by (rewrite <- HbX; symmetry; apply last_at_h; [exact Hbne|lia]).
    assert (HhX : height_of a bsX = Some (B - 1)) by (apply height_of_at_h; [exact Hnd|lia|exact HlastX]).
    rewrite HhX in Hrun.
    destruct (at_h_is_Some (bl a) (B - 2)) as [nt Hnt]; [fold B; lia|lia|].
    assert (Hpar : parent bsX = nt).
    { apply (Hpo (Z.to_nat (B - 2))).
      - rewrite <- at_h_lookup by (fold B; lia). exact Hnt.
      - rewrite <- HlastX. rewrite at_h_lookup by (fold B; lia). f_equal. lia. }
    rewrite Hpar in Hrun. cbv zeta in Hrun.
    match type of Hrun with (match ?X with Some _ => _ | None => _ end = _) =>
      assert (Hfr : exists s1 a1 tr1, X = Some (s1, alen (fl a1) - 1, tr1) /\ Inv s1 a1 /\ bl a1 = bl a /\
                 fl a1 = (if B - 1 <=? F - 1 then take (zn (F - 1)) (fl a) else fl a) /\
                 alen (fl a1) <= B - 1 /\ Forall okst tr1)
    end.
    { destruct (B - 1 <=? F - 1) eqn:EF.
      - assert (HFB : F = B) by lia.
        destruct (frollback_ok s a nt HI) as [Hr HI1].
        { split; [reflexivity|]. split; [fold F; lia|]. fold F. rewrite HFB. exact Hnt. }
        cbv zeta in Hr, HI1. fold F in Hr, HI1.
        destruct (frollback s nt NoFault) as [s1 r1]. cbn [fst snd] in Hr, HI1. subst r1.
        exists s1, {| bl := bl a; fl := take (zn (F - 1)) (fl a) |}, (tr ++ [s1]).
        cbn [bl fl]. rewrite (zn_eq (F - 1)) by lia.
        assert (HF1 : alen (take (Z.to_nat (F - 1)) (fl a)) = F - 1) by (apply alen_take; fold F; lia).
        rewrite HF1. rewrite (zn_eq (F - 1)) in HI1 by lia.
        rewrite (u32_small (F - 2)) by (unfold U32, LIMIT in *; lia).
        replace (F - 1 - 1) with (F - 2) by lia.
        split; [reflexivity|]. split; [exact HI1|]. split; [reflexivity|]. split; [reflexivity|].
        split; [lia|].
        apply Forall_app. split; [exact Htr|]. apply Forall_singleton. eexists; exact HI1.
      - exists s, a, tr. fold F. split; [reflexivity|]. split; [exact HI|]. split; [reflexivity|].
        split; [reflexivity|]. split; [lia|exact Htr]. }
    destruct Hfr as (s1 & a1 & tr1 & Hfr & HI1 & Hbl1 & Hfl1 & Hfl1le & Htr1).
    rewrite Hfr in Hrun. clear Hfr.
    destruct (brollback_ok s1 a1 1 HI1) as [Hr2 HI2].
    { split; [reflexivity|]. rewrite Hbl1. fold B. lia. } { lia. }
    cbv zeta in Hr2, HI2. rewrite Hbl1 in Hr2, HI2. fold B in Hr2, HI2.
    destruct (brollback s1 1 NoFault) as [s2 r2]. cbn [fst snd] in Hr2, HI2. subst r2.
    set (keep := take (zn (B - 1)) (bl a)) in *.
    set (a2 := {| bl := keep; fl := fl a1 |}) in *.
    assert (Hkeep : keep = take (Z.to_nat (B - 1)) (bl a)) by (unfold keep; rewrite zn_eq by lia; reflexivity).
    assert (Hklen : alen keep = B - 1) by (rewrite Hkeep; apply alen_take; fold B; lia).
    assert (Hkne : keep <> []).
    { intros E. rewrite E in Hklen. unfold alen in Hklen. cbn in Hklen. lia. }
    assert (Hatk : at_h keep (B - 2) = Some nt).
    { rewrite Hkeep, at_h_take by (fold B; lia).
      replace (B - 2 <? B - 1) with true by (symmetry; apply Z.ltb_lt; lia). exact Hnt. }
    rewrite (b_by_hash_ok _ _ HI2) in Hrun.
    assert (Hh2 : height_of a2 nt = Some (B - 2)).
    { apply height_of_at_h; cbn [a2 bl].
      - rewrite Hkeep. by apply NoDup_take_Z.
      - lia.
      - exact Hatk. }
    rewrite Hh2 in Hrun.
    rewrite <- (arollback_peel a h (fl a1)); try (fold B; fold F; lia); [|fold B; fold F; exact Hfl1].
    fold B. fold keep. fold a2.
    refine (IH s2 a2 _ _ _ _ _ _ _ HI2 _ _ _ _ _ _ Hrun); cbn [a2 bl fl].
    + rewrite Hkeep. by apply parent_ok_take.
    + rewrite Hklen. lia.
    + destruct (last keep) as [x|] eqn:El; [reflexivity|]. apply last_None in El. contradiction.
    + reflexivity.
    + rewrite Hklen. lia.
    + apply Forall_app. split; [exact Htr1|]. apply Forall_singleton. eexists; exact HI2.
Qed.

Lemma rollback_refines b a h :
  Inv (st b) a -> parent_ok parent (bl a) -> 0 <= h < U32 ->
  let '(b', ok, tr) := rollback parent b h in
  ok = true /\ Inv (st b') (arollback a h) /\
  Forall (fun s => exists a', Inv s a') tr /\ tipH b' = tipH b /\ tipX b' = tipX b.
Proof.
  intros HI Hpo Hh. unfold rollback.
  rewrite (b_chain_tip_ok _ _ HI), (f_chain_tip_ok _ _ HI). unfold a_tip.
  pose proof HI as HI0. destruct HI0 as [Hbj Hfj Hbe Hfe Hnd Hidx Hbt Hbne Hfne Hle Hft Hlim].
  destruct (last (bl a)) as [x|] eqn:Elb; [|apply last_None in Elb; contradiction].
  destruct (last (fl a)) as [y|] eqn:Elf; [|apply last_None in Elf; contradiction].
  destruct (rollback_loop parent (S (length (ents (bf (st b))))) (st b) (alen (bl a) - 1) x
              (alen (fl a) - 1) h []) as [[s' ok] tr'] eqn:Hrun.
  apply (rollback_loop_ok h Hh _ _ a) in Hrun; try done.
  - destruct Hrun as (Hok & HI' & Htr). cbn [st tipH tipX].
    split; [exact Hok|]. split; [exact HI'|]. split; [exact Htr|]. split; reflexivity.
  - rewrite Hbe. unfold alen. lia.
Qed.

(* ---------- 8. the intermediate stores of a rollback ---------- *)
Lemma rollback_trace_ok b a h :
  Inv (st b) a -> parent_ok parent (bl a) -> 0 <= h < U32 ->
  Forall (fun s => flen (ff s) <= flen (bf s) /\ exists a', Inv s a') (snd (rollback parent b h)).
Proof.
  intros HI Hpo Hh. pose proof (rollback_refines b a h HI Hpo Hh) as Hr.
  destruct (rollback parent b h) as [[b' ok] tr]. cbn [snd].
  destruct Hr as (_ & _ & Htr & _). eapply Forall_impl; [exact Htr|].
  intros s [a' HI']. split; [|by exists a'].
  destruct HI' as [Hbj Hfj Hbe Hfe Hnd Hidx Hbt Hbne Hfne Hle Hft Hlim].
  unfold flen. rewrite Hbe, Hfe. exact Hle.
Qed.

(* ---------- 6. every reachable state ---------- *)
Lemma sstep_refines b a o :
  Inv (st b) a -> chained H (fl a) -> parent_ok parent (bl a) -> wf_sop parent a o ->
  Inv (st (sstep H parent b o)) (aspec_step H a o) /\
  chained H (fl (aspec_step H a o)) /\ parent_ok parent (bl (aspec_step H a o)).
Proof.
  intros HI Hc Hp Hw. destruct o as [xs|m|h]; cbn [sstep aspec_step wf_sop] in *.
  - destruct (bappend_refines b a xs HI Hw) as [_ HI']. split; [exact HI'|]. split; [exact Hc|].
    cbn [aappend bl]. destruct Hw as (_ & _ & Hpo). exact Hpo.
  - destruct (write_cf_refines b a m HI Hw) as (_ & HI' & _). split; [exact HI'|].
    destruct (awrite_cf H (to2 a) m) as [a' [[hd ht]|]] eqn:Ew.
    + apply awrite_cf_ok in Ew as (Hbl & Hfl & Hlast & _). cbn [fst of2 bl fl]. rewrite Hbl, Hfl.
      cbn [to2 abl afl] in *. split; [by apply chained_app|exact Hp].
    + apply awrite_cf_err in Ew. subst a'. cbn [fst]. rewrite of2_to2. by split.
  - pose proof (rollback_refines b a h HI Hp Hw) as Hr.
    destruct (rollback parent b h) as [[b' ok] tr]. cbn [fst]. destruct Hr as (_ & HI' & _).
    split; [exact HI'|]. unfold arollback.
    destruct (h + 1 <? alen (bl a)); cbn [bl fl]; split;
      (assumption || by apply chained_take || by apply parent_ok_take).
Qed.

Lemma sreach_gen ops : forall b a,
  Inv (st b) a -> chained H (fl a) -> parent_ok parent (bl a) -> wf_sops H parent a ops ->
  let b' := fold_left (sstep H parent) ops b in
  let a' := fold_left (aspec_step H) ops a in
  Inv (st b') a' /\ chained H (fl a') /\ parent_ok parent (bl a').
Proof.
  induction ops as [|o ops IH]; intros b a HI Hc Hp Hwf; cbn [fold_left]; [done|].
  destruct Hwf as [Hw Hrest].
  destruct (sstep_refines b a o HI Hc Hp Hw) as (HI' & Hc' & Hp').
  by apply IH.
Qed.

Theorem sreach g gfh ops s0 :
  init g gfh = Some s0 ->
  wf_sops H parent {| bl := [g]; fl := [gfh] |} ops ->
  let b := fold_left (sstep H parent) ops {| st := s0; tipH := 0; tipX := g |} in
  let a := fold_left (aspec_step H) ops {| bl := [g]; fl := [gfh] |} in
  Inv (st b) a /\ chained H (fl a) /\ parent_ok parent (bl a).
Proof.
  intros Hinit Hwf. destruct (init_inv g gfh) as (s0' & Hi & HI).
  rewrite Hinit in Hi. injection Hi as <-.
  apply sreach_gen; [exact HI|apply chained_single|apply parent_ok_single|exact Hwf].
Qed.

(* every reachable store satisfies the structural statement *)
Corollary sreach_struct_ok g gfh ops s0 :
  init g gfh = Some s0 ->
  wf_sops H parent {| bl := [g]; fl := [gfh] |} ops ->
  struct_ok H (st (fold_left (sstep H parent) ops {| st := s0; tipH := 0; tipX := g |})).
Proof.
  intros Hinit Hwf. destruct (sreach g gfh ops s0 Hinit Hwf) as (HI & Hc & _).
  eapply inv_struct_ok; eauto.
Qed.

End S.

Print Assumptions sreach.
Print Assumptions sreach_struct_ok.
Print Assumptions rollback_trace_ok.
Print Assumptions write_cf_refines.
