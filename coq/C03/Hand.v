(* C03 / Hand — executable model of the hand-off of peer messages to a running
   queryAllPeers round (neutrino.go ServerPeer.OnRead -> query.go
   queryAllPeers), and of one round of the callback.

   OnRead starts ONE GOROUTINE PER MESSAGE and subscriber; the goroutine
   blocks on the round's UNBUFFERED channel until the round's loop receives
   the message or the round's quit channel is closed.  The messages handed
   over and not yet received therefore form an unordered BAG: nothing is
   lost, nothing is duplicated, and NO order is kept (not even per peer).
   The loop passes a received message to the round's callback unless the
   sender's quit channel has been closed (by the callback, when it accepted an
   answer of that peer); such messages are consumed and skipped.

     HDeliver p m   the read loop of peer p hands m to OnRead
     HTake i        the round's loop receives the i-th pending message
                    (any i: the runtime picks an arbitrary blocked sender)
     HQuit          the round ends (all peers answered / timeout / query quit):
                    the goroutines still pending exit through the quit channel

   While the callback is busy (or the query goroutine is not scheduled) no
   HTake happens: a schedule with k HDeliver in a row is "a burst behind a
   busy callback".

   [cap] = None is the code that exists.  [cap] = Some n models the hand-off
   of the seeded change C03-11 (channel with n slots, non-blocking send: a
   message arriving at a full channel is lost) and is used for a refutation
   witness only. *)
From Coq Require Import ZArith List Bool Lia.
Import ListNotations.
Open Scope Z_scope.

Section Hand.
Variable A : Type.
(* the callback accepts the message as the peer's answer and closes the
   peer's quit channel *)
Variable acc : A -> bool.
Variable cap : option nat.

Record hst := {
  h_pend : list (Z * A);      (* goroutines blocked on the channel *)
  h_got : list (Z * A);       (* callback invocations, in order *)
  h_skip : list (Z * A);      (* received after the sender's quit channel was closed *)
  h_drop : list (Z * A);      (* cut off by the end of the round *)
  h_lost : list (Z * A);      (* lost by a bounded non-blocking hand-off ([cap] only) *)
  h_closed : list Z;          (* peers whose quit channel the callback closed *)
  h_live : bool;
  h_deliv : list (Z * A)      (* ghost: everything handed to OnRead while the round was live *)
}.

Inductive hev := HDeliver (p : Z) (m : A) | HTake (i : nat) | HQuit.

Definition memz (x : Z) (l : list Z) : bool := existsb (Z.eqb x) l.

Fixpoint remove_nth {B} (i : nat) (l : list B) : list B :=
  match i, l with
  | _, [] => []
  | O, _ :: r => r
  | S j, x :: r => x :: remove_nth j r
  end.

Definition hinit : hst :=
  {| h_pend := []; h_got := []; h_skip := []; h_drop := []; h_lost := []; h_closed := [];
     h_live := true; h_deliv := [] |}.

Definition full (s : hst) : bool :=
  match cap with Some n => (n <=? length (h_pend s))%nat | None => false end.

Definition hstep (s : hst) (e : hev) : hst :=
  if negb (h_live s) then s else
  match e with
  | HDeliver p m =>
    if full s then
      {| h_pend := h_pend s; h_got := h_got s; h_skip := h_skip s; h_drop := h_drop s;
         h_lost := h_lost s ++ [(p, m)]; h_closed := h_closed s; h_live := true;
         h_deliv := h_deliv s ++ [(p, m)] |}
    else
      {| h_pend := h_pend s ++ [(p, m)]; h_got := h_got s; h_skip := h_skip s; h_drop := h_drop s;
         h_lost := h_lost s; h_closed := h_closed s; h_live := true;
         h_deliv := h_deliv s ++ [(p, m)] |}
  | HTake i =>
    match nth_error (h_pend s) i with
    | None => s
    | Some (p, m) =>
      if memz p (h_closed s) then
        {| h_pend := remove_nth i (h_pend s); h_got := h_got s; h_skip := h_skip s ++ [(p, m)];
           h_drop := h_drop s; h_lost := h_lost s; h_closed := h_closed s; h_live := true;
           h_deliv := h_deliv s |}
      else
        {| h_pend := remove_nth i (h_pend s); h_got := h_got s ++ [(p, m)]; h_skip := h_skip s;
           h_drop := h_drop s; h_lost := h_lost s;
           h_closed := if acc m then p :: h_closed s else h_closed s; h_live := true;
           h_deliv := h_deliv s |}
    end
  | HQuit =>
    {| h_pend := []; h_got := h_got s; h_skip := h_skip s; h_drop := h_drop s ++ h_pend s;
       h_lost := h_lost s; h_closed := h_closed s; h_live := false; h_deliv := h_deliv s |}
  end.

Definition hrun (evs : list hev) : hst := fold_left hstep evs hinit.

(* the answers the round collected: the accepted messages, in order *)
Definition accepted (s : hst) : list (Z * A) := filter (fun x => acc (snd x)) (h_got s).

End Hand.

Arguments h_pend {A}. Arguments h_got {A}. Arguments h_skip {A}. Arguments h_drop {A}.
Arguments h_lost {A}. Arguments h_closed {A}. Arguments h_live {A}. Arguments h_deliv {A}.
Arguments HDeliver {A}. Arguments HTake {A}. Arguments HQuit {A}.
Arguments hstep {A}. Arguments hrun {A}. Arguments hinit {A}. Arguments accepted {A}.
