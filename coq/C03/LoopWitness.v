(* C03 — concrete runs of the loop model: why the re-query test needs the
   stop hash (F110, repaired): the run of the code before the repair
   ([c_height_only := true]) and the runs of the repaired code.
   Every answer of a peer is built with the ground-truth functions of
   LoopSpec (tcps, tmsg): both peers are honest. *)
From stdpp Require Import gmap list.
From Coq Require Import ZArith Lia.
From Verif Require Import S1.Model C07.Spec C03.Model C03.Spec C03.Loop C03.LoopSpec.
Open Scope Z_scope.

Module W.

Definition wH (fh prev : Z) : Z := (fh * 31 + prev * 7 + 11) mod 1000003 + 1.
Definition wfh (x : Z) : Z := x + 500000.

(* chain A: heights 0..1000 are the blocks 100..1100 *)
Definition chainA : list Z := List.map Z.of_nat (seq 100 1001).
(* a reorganisation that replaces blocks 999 and 1000 and ends at the SAME height *)
Definition chainB : list Z := take 999 chainA ++ [900001; 900002].
(* a reorganisation that replaces the tip block and is one block longer *)
Definition chainC : list Z := take 1000 chainA ++ [900011; 900012].

Definition thd0 : Z := thd wH wfh chainA 0.
Definition a0 : alog2 := {| abl := chainA; afl := [thd0] |}.
Definition cfg (height_only : bool) : lcfg :=
  {| c_hard := fun _ => None; c_cp := None; c_genesis := thd0; c_legacy := false;
     c_height_only := height_only |}.
Definition noenv : denv :=
  {| e_filters := fun _ => []; e_hdr_ok := fun _ => true; e_block_ok := fun _ => true;
     e_fo := fun _ => {| fo_hash := fun _ => 0; fo_verify := fun _ => Some 0 |} |}.

(* what an honest peer q says *)
Definition hon_cpans (q : Z) (bl : list Z) : cpresp :=
  {| cr_peer := q; cr_reg := true; cr_stop := default 0 (last bl); cr_list := tcps wH wfh bl (zlen bl - 1) |}.
Definition hon_arr (q : Z) (bl : list Z) (k ci e : Z) : arrival :=
  {| a_q := k; a_peer := q; a_reg := true; a_msg := tmsg wH wfh bl (ci * INTERVAL + 1) e |}.

Definition rd (cp : list cpresp) (raws : list rawresp) (ars : list arrival) : rdata :=
  {| d_cpans := cp; d_raws := raws; d_env := noenv; d_hint := 0; d_ars := ars |}.

Definition summary (s : lstate) : Z * list Z * Z * Z :=
  (l_flag s, l_banned s, zlen (afl (l_a s)) - 1, zlen (abl (l_a s)) - 1).

(* ---- F110: lists of the old branch used again after a reorganisation to
   the same height; both peers are honest ---- *)
Definition evs_f110 : list lev :=
  [ ERound (rd [hon_cpans 1 chainA; hon_cpans 2 chainA] [] []);          (* the fetch times out *)
    EChain 998 [900001; 900002] false;
    ERound (rd [hon_cpans 1 chainB; hon_cpans 2 chainB] [] [hon_arr 1 chainB 0 0 1000; hon_arr 2 chainB 0 0 1000]) ].

(* before the repair: the lists of the old branch are used again *)
Lemma f110_run :
  abl (chain_event a0 998 [900001; 900002]) = chainB /\
  summary (lrun wH (cfg true) (linit a0 [1; 2] false) evs_f110) = (21, [1; 2], 0, 1000) /\
  louts wH (cfg true) (linit a0 [1; 2] false) evs_f110 =
    [(3, Some 1100, []); (3, None, [1; 2])].
Proof. vm_compute. done. Qed.

(* repaired: the stop hash differs, the lists are fetched again *)
Lemma f110_fixed_run :
  summary (lrun wH (cfg false) (linit a0 [1; 2] false) evs_f110) = (0, [], 1000, 1000) /\
  louts wH (cfg false) (linit a0 [1; 2] false) evs_f110 =
    [(3, Some 1100, []); (3, Some 900002, [])].
Proof. vm_compute. done. Qed.

(* before the repair, a reorganisation that makes the chain longer: the
   height test alone fetches the lists again *)
Definition evs_f110_longer : list lev :=
  [ ERound (rd [hon_cpans 1 chainA; hon_cpans 2 chainA] [] []);
    EChain 999 [900011; 900012] false;
    ERound (rd [hon_cpans 1 chainC; hon_cpans 2 chainC] [] [hon_arr 1 chainC 0 0 1000]) ].

Lemma f110_longer_run :
  abl (chain_event a0 999 [900011; 900012]) = chainC /\
  summary (lrun wH (cfg true) (linit a0 [1; 2] false) evs_f110_longer) = (0, [], 1000, 1001).
Proof. vm_compute. done. Qed.

End W.
