(* C03 — concrete runs of the loop model: the witnesses of the three defects
   the model found (F110 open; F111, F112 repaired: the runs of the code
   BEFORE the repair are those of [c_legacy := true]) and the runs of the
   repaired code on the same histories.  Every answer of an honest peer is
   built with the ground-truth functions of LoopSpec (tcps, tmsg). *)
From stdpp Require Import gmap list.
From Coq Require Import ZArith Lia.
From Verif Require Import S1.Model C07.Spec C03.Model C03.Spec C03.Loop C03.LoopSpec.
Open Scope Z_scope.

Module W.

Definition wH (fh prev : Z) : Z := (fh * 31 + prev * 7 + 11) mod 1000003 + 1.
Definition wfh (x : Z) : Z := x + 500000.

(* chain A: heights 0..2000 are the blocks 100..2100 *)
Definition chainA : list Z := List.map Z.of_nat (seq 100 2001).
(* a reorganisation that replaces blocks 1999 and 2000 and ends at the SAME height *)
Definition chainB : list Z := take 1999 chainA ++ [900001; 900002].
(* a reorganisation that replaces the tip block and is one block longer *)
Definition chainC : list Z := take 2000 chainA ++ [900011; 900012].

Definition thd0 : Z := thd wH wfh chainA 0.
Definition a0 : alog2 := {| abl := chainA; afl := [thd0] |}.
Definition cfg (legacy : bool) : lcfg :=
  {| c_hard := fun _ => None; c_cp := None; c_genesis := thd0; c_legacy := legacy |}.
Definition noenv : denv :=
  {| e_filters := fun _ => []; e_hdr_ok := fun _ => true; e_block_ok := fun _ => true;
     e_fo := fun _ => {| fo_hash := fun _ => 0; fo_verify := fun _ => Some 0 |} |}.

(* what an honest peer q says *)
Definition hon_cpans (q : Z) (bl : list Z) : cpresp :=
  {| cr_peer := q; cr_reg := true; cr_stop := default 0 (last bl); cr_list := tcps wH wfh bl (zlen bl - 1) |}.
Definition hon_raw (q : Z) (bl : list Z) (start e : Z) : rawresp :=
  {| r_peer := q; r_reg := true; r_msg := tmsg wH wfh bl start e |}.
Definition hon_arr (q : Z) (bl : list Z) (k ci e : Z) : arrival :=
  {| a_q := k; a_peer := q; a_reg := true; a_msg := tmsg wH wfh bl (ci * INTERVAL + 1) e |}.

Definition rd (cp : list cpresp) (raws : list rawresp) (ars : list arrival) : rdata :=
  {| d_cpans := cp; d_raws := raws; d_env := noenv; d_hint := 0; d_ars := ars |}.

Definition summary (s : lstate) : Z * list Z * Z * Z :=
  (l_flag s, l_banned s, zlen (afl (l_a s)) - 1, zlen (abl (l_a s)) - 1).

(* ---- F110: lists of the old branch used again after a reorganisation to
   the same height; both peers are honest ---- *)
Definition evs_f110 : list lev :=
  [ ERound (rd [hon_cpans 1 chainA; hon_cpans 2 chainA] [] []);          (* the fetch times out *)
    EChain 1998 [900001; 900002] false;
    ERound (rd [hon_cpans 1 chainB; hon_cpans 2 chainB] []
               [hon_arr 1 chainB 0 0 2000; hon_arr 2 chainB 0 0 2000]) ].

Lemma f110_run :
  abl (chain_event a0 1998 [900001; 900002]) = chainB /\
  summary (lrun wH (cfg false) (linit a0 [1; 2] false) evs_f110) = (21, [1; 2], 0, 2000) /\
  louts wH (cfg false) (linit a0 [1; 2] false) evs_f110 =
    [(3, Some 2100, []); (3, None, [1; 2])].
Proof. vm_compute. done. Qed.

(* the same history with a reorganisation that makes the chain longer: the
   lists are fetched again, nobody is banned, the interval is committed *)
Definition evs_f110_longer : list lev :=
  [ ERound (rd [hon_cpans 1 chainA; hon_cpans 2 chainA] [] []);
    EChain 1999 [900011; 900012] false;
    ERound (rd [hon_cpans 1 chainC; hon_cpans 2 chainC] []
               [hon_arr 1 chainC 0 0 2000; hon_arr 2 chainC 0 0 2000]) ].

Lemma f110_longer_run :
  abl (chain_event a0 1999 [900011; 900012]) = chainC /\
  summary (lrun wH (cfg false) (linit a0 [1; 2] false) evs_f110_longer) = (0, [], 2000, 2001).
Proof. vm_compute. done. Qed.

(* ---- F112: two liars (2 lies in checkpoint 0, 3 only in checkpoint 1, both
   serve the true cfheaders), 1 is honest; the tip is at a multiple of 1000 ---- *)
Definition lie_cp (q : Z) (i : nat) (bl : list Z) : cpresp :=
  {| cr_peer := q; cr_reg := true; cr_stop := default 0 (last bl);
     cr_list := <[ i := 777000 + q ]> (tcps wH wfh bl (zlen bl - 1)) |}.
Definition cps3 : list cpresp := [hon_cpans 1 chainA; lie_cp 2 0 chainA; lie_cp 3 1 chainA].
Definition raws0 : list rawresp := [hon_raw 1 chainA 0 1999; hon_raw 2 chainA 0 1999; hon_raw 3 chainA 0 1999].
Definition raws1 : list rawresp := [hon_raw 1 chainA 1000 2000; hon_raw 3 chainA 1000 2000].

Definition evs_f112_legacy : list lev :=
  [ ERound (rd cps3 raws0 []); ERound (rd cps3 raws0 []); ERound (rd cps3 raws0 []); ERound (rd cps3 raws0 []) ].

Lemma f112_legacy_run :
  louts wH (cfg true) (linit a0 [1; 2; 3] false) evs_f112_legacy =
    [(2, Some 2100, [2]); (2, None, [2]); (2, None, [2]); (2, None, [2])] /\
  summary (lrun wH (cfg true) (linit a0 [1; 2; 3] false) evs_f112_legacy) = (0, [2; 2; 2; 2], 0, 2000).
Proof. vm_compute. done. Qed.

Definition evs_f112_fixed : list lev :=
  [ ERound (rd cps3 raws0 []);
    ERound (rd cps3 raws1 [hon_arr 1 chainA 0 0 2000]) ].

Lemma f112_fixed_run :
  louts wH (cfg false) (linit a0 [1; 2; 3] false) evs_f112_fixed =
    [(2, Some 2100, [2]); (3, Some 2100, [3])] /\
  summary (lrun wH (cfg false) (linit a0 [1; 2; 3] false) evs_f112_fixed) = (0, [2; 3], 2000, 2000).
Proof. vm_compute. done. Qed.

(* ---- F111: nobody answers the first getcfcheckpt; the tip block is
   replaced; honest peers only ---- *)
Definition evs_f111 : list lev :=
  [ ERound (rd [] [] []);
    EChain 1999 [900011; 900012] false;
    ERound (rd [hon_cpans 1 chainC; hon_cpans 2 chainC] [] [hon_arr 1 chainC 0 0 2000]);
    ERound (rd [hon_cpans 1 chainC; hon_cpans 2 chainC] [] [hon_arr 1 chainC 0 0 2000]) ].

Lemma f111_legacy_run :
  louts wH (cfg true) (linit a0 [1; 2] false) evs_f111 =
    [(1, Some 2100, []); (1, Some 2100, []); (1, Some 2100, [])] /\
  summary (lrun wH (cfg true) (linit a0 [1; 2] false) evs_f111) = (0, [], 0, 2001).
Proof. vm_compute. done. Qed.

Lemma f111_fixed_run :
  louts wH (cfg false) (linit a0 [1; 2] false) evs_f111 =
    [(1, Some 2100, []); (3, Some 900012, []); (0, None, [])] /\
  summary (lrun wH (cfg false) (linit a0 [1; 2] false) evs_f111) = (0, [], 2000, 2001).
Proof. vm_compute. done. Qed.

End W.
