(* C03 / HandProofs — the goroutine-per-message hand-off loses nothing and
   duplicates nothing, whatever the schedule. *)
From Coq Require Import ZArith List Bool Lia Permutation.
Import ListNotations.
From Verif Require Import C03.Hand.
Open Scope Z_scope.

Lemma memz_In x l : memz x l = true <-> In x l.
Proof.
  unfold memz. rewrite existsb_exists. split.
  - intros [y [Hy E]]. apply Z.eqb_eq in E. subst. exact Hy.
  - intros H. exists x. split; [exact H|apply Z.eqb_refl].
Qed.

Lemma remove_nth_perm {B} (l : list B) i x :
  nth_error l i = Some x -> Permutation l (x :: remove_nth i l).
Proof.
  revert i. induction l as [|y l IH]; intros [|i] H; cbn in *; try discriminate.
  - inversion H. apply Permutation_refl.
  - eapply perm_trans; [apply perm_skip; apply IH; exact H|]. apply perm_swap.
Qed.

Section Proofs.
Variable A : Type.
Variable acc : A -> bool.

Notation step := (hstep acc None).
Notation run := (hrun acc None).

(* the five places a message handed over can be *)
Definition places (s : hst A) : list (Z * A) :=
  h_got s ++ h_skip s ++ h_pend s ++ h_drop s.

Record hinv (s : hst A) : Prop := {
  hi_cons : Permutation (h_deliv s) (places s);
  hi_lost : h_lost s = [];
  hi_skip : forall p m, In (p, m) (h_skip s) -> In p (h_closed s);
  hi_closed : forall p, In p (h_closed s) -> exists m, In (p, m) (h_got s) /\ acc m = true;
  hi_dead : h_live s = false -> h_pend s = []
}.

Lemma hinv_init : hinv hinit.
Proof. constructor; cbn; try reflexivity; try (intros; contradiction). Qed.

Lemma hinv_step s e : hinv s -> hinv (step s e).
Proof.
  intros [H1 H2 H3 H4 H5]. unfold hstep. destruct (h_live s) eqn:El; cbn [negb]; [|constructor; try assumption; intros _; apply H5; reflexivity].
  destruct e as [p m|i|].
  - (* deliver *)
    cbn [full]. constructor; cbn.
    + unfold places in *. cbn.
      apply Permutation_trans with ((p, m) :: h_deliv s); [apply Permutation_sym, Permutation_cons_append|].
      apply Permutation_trans with ((p, m) :: (h_got s ++ h_skip s ++ h_pend s ++ h_drop s)); [apply perm_skip; exact H1|].
      rewrite !app_assoc. apply Permutation_trans with (((h_got s ++ h_skip s) ++ h_pend s) ++ (p, m) :: h_drop s).
      * apply Permutation_middle.
      * rewrite <- !app_assoc. cbn. reflexivity.
    + exact H2.
    + exact H3.
    + exact H4.
    + discriminate.
  - (* take *)
    destruct (nth_error (h_pend s) i) as [[p m]|] eqn:En; [|constructor; try assumption; intros E; congruence].
    pose proof (remove_nth_perm _ _ _ En) as Hp.
    destruct (memz p (h_closed s)) eqn:Ec.
    + constructor; cbn.
      * unfold places in *. cbn. eapply Permutation_trans; [exact H1|].
        apply Permutation_app_head. rewrite <- app_assoc.
        apply Permutation_app_head. cbn.
        apply Permutation_trans with ((p, m) :: remove_nth i (h_pend s) ++ h_drop s);
          [apply (Permutation_app_tail (h_drop s)) in Hp; exact Hp|reflexivity].
      * exact H2.
      * intros q x Hin. apply in_app_or in Hin. destruct Hin as [Hin|[Hin|[]]]; [eauto|].
        inversion Hin; subst. apply memz_In. exact Ec.
      * exact H4.
      * discriminate.
    + constructor; cbn.
      * unfold places in *. cbn. eapply Permutation_trans; [exact H1|].
        rewrite <- app_assoc. apply Permutation_app_head. cbn.
        apply Permutation_trans with (h_skip s ++ (p, m) :: remove_nth i (h_pend s) ++ h_drop s).
        -- apply Permutation_app_head. apply (Permutation_app_tail (h_drop s)) in Hp. exact Hp.
        -- apply Permutation_sym. apply Permutation_middle.
      * exact H2.
      * intros q x Hin. destruct (acc m); [right|]; eauto.
      * intros q Hq. assert (Hq' : (q = p /\ acc m = true) \/ In q (h_closed s)).
        { destruct (acc m); [destruct Hq as [Hq|Hq]; [left; split; [symmetry; exact Hq|reflexivity]|right; exact Hq]|right; exact Hq]. }
        destruct Hq' as [[-> Ha]|Hq'].
        -- exists m. split; [apply in_or_app; right; left; reflexivity|exact Ha].
        -- destruct (H4 q Hq') as [x [Hx Hax]]. exists x. split; [apply in_or_app; left; exact Hx|exact Hax].
      * discriminate.
  - (* quit *)
    constructor; cbn.
    + unfold places in *. cbn. eapply Permutation_trans; [exact H1|].
      apply Permutation_app_head. apply Permutation_app_head. apply Permutation_app_comm.
    + exact H2.
    + exact H3.
    + exact H4.
    + reflexivity.
Qed.

Lemma hinv_run_from evs s : hinv s -> hinv (fold_left step evs s).
Proof. revert s. induction evs as [|e r IH]; intros s H; [exact H|]. cbn. apply IH. apply hinv_step. exact H. Qed.

Lemma hinv_run evs : hinv (run evs).
Proof. apply hinv_run_from. apply hinv_init. Qed.

(* conservation: exactly once, nothing invented *)
Lemma hand_conservation evs :
  let s := run evs in
  Permutation (h_deliv s) (h_got s ++ h_skip s ++ h_pend s ++ h_drop s) /\ h_lost s = [].
Proof. intros s. destruct (hinv_run evs) as [H1 H2 _ _ _]. split; assumption. Qed.

(* a message handed over fails to reach the callback only behind an accepted
   answer of the same peer, while it is still pending, or when the round's
   quit cut it off *)
Lemma hand_no_loss evs p m :
  let s := run evs in
  In (p, m) (h_deliv s) ->
  In (p, m) (h_got s) \/
  (exists m', In (p, m') (h_got s) /\ acc m' = true) \/
  In (p, m) (h_pend s) \/ In (p, m) (h_drop s).
Proof.
  intros s Hin. destruct (hinv_run evs) as [H1 _ H3 H4 _]. fold s in H1, H3, H4.
  apply (Permutation_in _ H1) in Hin. unfold places in Hin.
  apply in_app_or in Hin. destruct Hin as [Hin|Hin]; [left; exact Hin|].
  apply in_app_or in Hin. destruct Hin as [Hin|Hin].
  - right; left. apply H4. eapply H3. exact Hin.
  - apply in_app_or in Hin. destruct Hin as [Hin|Hin]; [right; right; left|right; right; right]; exact Hin.
Qed.

Lemma hand_got_delivered evs p m :
  In (p, m) (h_got (run evs)) -> In (p, m) (h_deliv (run evs)).
Proof.
  intros Hin. destruct (hinv_run evs) as [H1 _ _ _ _].
  apply (Permutation_in _ (Permutation_sym H1)). unfold places. apply in_or_app. left. exact Hin.
Qed.

(* a round that was not cut off (everything handed over was received, the
   quit dropped nothing) collected an answer from every peer that sent one *)
Lemma hand_answers_collected evs p m :
  let s := run evs in
  h_pend s = [] -> h_drop s = [] ->
  In (p, m) (h_deliv s) -> acc m = true ->
  exists m', In (p, m') (accepted acc s).
Proof.
  intros s Hp Hd Hin Ha. destruct (hand_no_loss evs p m Hin) as [H|[[m' [H Ha']]|[H|H]]]; fold s in H.
  - exists m. unfold accepted. apply filter_In. split; [exact H|exact Ha].
  - exists m'. unfold accepted. apply filter_In. split; [exact H|exact Ha'].
  - rewrite Hp in H. destruct H.
  - rewrite Hd in H. destruct H.
Qed.

(* with a callback that never closes a peer (the cfilter round) the callback
   sees exactly what was handed over *)
Lemma hand_exact evs :
  (forall m, acc m = false) ->
  let s := run evs in
  h_pend s = [] -> h_drop s = [] -> Permutation (h_deliv s) (h_got s).
Proof.
  intros Hacc s Hp Hd. destruct (hinv_run evs) as [H1 _ H3 H4 _]. fold s in H1, H3, H4.
  assert (Hs : h_skip s = []).
  { destruct (h_skip s) as [|[q x] r] eqn:E; [reflexivity|].
    destruct (H4 q (H3 q x (or_introl eq_refl))) as [m' [_ Ha]]. rewrite Hacc in Ha. discriminate. }
  unfold places in H1. rewrite Hs, Hp, Hd in H1. cbn in H1. rewrite app_nil_r in H1. exact H1.
Qed.

(* at most one accepted answer per peer *)
Lemma accepted_closed evs :
  let s := run evs in
  map fst (accepted acc s) = rev (h_closed s) /\ NoDup (h_closed s).
Proof.
  unfold hrun. set (P := fun s : hst A => map fst (accepted acc s) = rev (h_closed s) /\ NoDup (h_closed s)).
  assert (Hstep : forall s e, P s -> P (step s e)).
  { intros s e [H1 H2]. unfold P, hstep. destruct (h_live s); cbn [negb]; [|split; assumption].
    destruct e as [p m|i|]; cbn [full]; try (split; assumption).
    destruct (nth_error (h_pend s) i) as [[p m]|]; [|split; assumption].
    destruct (memz p (h_closed s)) eqn:Ec; [split; assumption|].
    unfold accepted in *. cbn. rewrite filter_app, map_app. cbn. destruct (acc m).
    - cbn. rewrite H1. split; [reflexivity|]. constructor; [|exact H2].
      intros Hin. apply memz_In in Hin. congruence.
    - cbn. rewrite app_nil_r. split; assumption. }
  assert (Hrun : forall evs s, P s -> P (fold_left step evs s)).
  { intros l. induction l as [|e r IH]; intros s H; [exact H|]. cbn. apply IH. apply Hstep. exact H. }
  apply Hrun. split; [reflexivity|constructor].
Qed.

End Proofs.
