(* C03 — the hypotheses of the loop theorems are met by a concrete run: one
   honest peer, 1001 block headers, the handler asks for the checkpoints,
   fetches the interval and commits 1000 true filter headers. *)
From stdpp Require Import gmap list.
From Coq Require Import ZArith Lia.
From Verif Require Import S1.Model C07.Spec C03.Model C03.Spec C03.Proofs C03.ProofsR C03.ProofsC
     C03.Loop C03.LoopSpec C03.LoopTruth C03.LoopProofs C03.LoopProofsR C03.LoopProofsT C03.LoopWitness.
Open Scope Z_scope.

Module X.
Import W.

Definition chainS : list Z := List.map Z.of_nat (seq 100 1002).
Definition gS : Z := thd wH wfh chainS 0.
Definition aS : alog2 := {| abl := chainS; afl := [gS] |}.
Definition cS : lcfg := {| c_hard := fun _ => None; c_cp := None; c_genesis := gS; c_legacy := false; c_height_only := false |}.
Definition dS : rdata := rd [hon_cpans 1 chainS] [] [hon_arr 1 chainS 0 0 1000].
Definition sS : lstate := linit aS [1] false.

Lemma lists_S : lists_of cS sS (tipH sS) (tipX sS) dS = (true, [(1, tcps wH wfh chainS (tipH sS))]).
Proof. vm_compute. reflexivity. Qed.

Lemma bcast_S : bcast_start cS sS dS = None.
Proof. vm_compute. reflexivity. Qed.

Lemma resolve_S : snd (resolve_of wH cS sS (tipH sS) (tipX sS) dS) = Some (tcps wH wfh chainS (tipH sS)).
Proof. vm_compute. reflexivity. Qed.

Lemma tcps_S : exists c1, tcps wH wfh chainS (tipH sS) = [c1].
Proof. eexists. vm_compute. reflexivity. Qed.

Lemma queries_S c1 : mk_queries 2 aS 1 (flen2 aS / INTERVAL) = Some [(0, 1100)] /\
  index_of2 1100 chainS 0 = Some 1000 /\ tcps wH wfh chainS (tipH sS) = [c1] -> True.
Proof. done. Qed.

Lemma mkq_S : mk_queries 2 aS 1 (flen2 aS / INTERVAL) = Some [(0, 1100)].
Proof. vm_compute. reflexivity. Qed.

Lemma idx_S : index_of2 1100 chainS 0 = Some 1000.
Proof. vm_compute. reflexivity. Qed.

Lemma hon_S : hon_round wH wfh 1 cS (fun _ => 0) sS dS.
Proof.
  split; [by left|]. split; [|split; [|split]].
  - intros _. rewrite lists_S. cbn [snd]. intros l. split.
    + intros [[= <-]|[]]. reflexivity.
    + intros ->. by left.
  - intros startH stop n Hb. rewrite bcast_S in Hb. discriminate.
  - intros x l qs ar ci stop e Hres Hq Hin Hp Hz Hix.
    rewrite resolve_S in Hres. destruct tcps_S as [c1 Hc1]. rewrite Hc1 in Hres. injection Hres as <- <-.
    change (l_a sS) with aS in *. change (S (length [c1])) with 2%nat in Hq. change (zlen [c1]) with 1 in Hq.
    rewrite mkq_S in Hq. injection Hq as <-.
    destruct Hin as [<-|[]]. cbn [hon_arr a_q a_reg a_msg] in *.
    change (zget [(0, 1100)] 0) with (Some (0, 1100)) in Hz. injection Hz as <- <-.
    change (abl aS) with chainS in *. rewrite idx_S in Hix. injection Hix as <-. split; reflexivity.
  - vm_compute. reflexivity.
Qed.

Lemma run_S : summary (lrun wH cS sS [ERound dS]) = (0, [], 1000, 1001).
Proof. vm_compute. reflexivity. Qed.

Definition parS (x : Z) : Z := x - 1.

Lemma parent_S : parent_ok parS (abl aS) /\ head (abl aS) = Some 100.
Proof.
  split; [|reflexivity]. intros i x y Hx Hy. unfold aS, chainS in *. cbn [abl] in *.
  change (List.map Z.of_nat (seq 100 1002)) with (Z.of_nat <$> seq 100 1002) in *.
  rewrite list_lookup_fmap in Hx, Hy.
  destruct (seq 100 1002 !! i) as [a|] eqn:Ea; [|discriminate].
  destruct (seq 100 1002 !! S i) as [b|] eqn:Eb; [|discriminate].
  apply lookup_seq in Ea as [-> _]. apply lookup_seq in Eb as [-> _].
  cbn in Hx, Hy. injection Hx as <-. injection Hy as <-. unfold parS. lia.
Qed.

Lemma init_S : wf_chain (abl aS) /\ committed_true wH wfh aS /\ c_genesis cS = thd wH wfh (abl aS) 0.
Proof.
  split; [|split; [|reflexivity]].
  - split; [|vm_compute; done]. unfold aS, chainS. cbn [abl].
    apply NoDup_fmap_2; [intros x y; lia|apply NoDup_ListNoDup, seq_NoDup].
  - split; [vm_compute; lia|]. vm_compute. reflexivity.
Qed.

End X.
