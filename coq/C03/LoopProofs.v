(* C03 — proofs about the loop model: the invariant of the handler loop
   (the committed filter chain is the true one, the honest peer is not
   banned, the cached lists are fresh whenever they are used). *)
From stdpp Require Import gmap list.
From Coq Require Import ZArith Lia ZifyBool.
From Verif Require Import S1.Model C07.Spec C03.Model C03.Spec C03.Proofs C03.ProofsF C03.ProofsU C03.ProofsS
     C03.ProofsR C03.ProofsP C03.ProofsC C03.Loop C03.LoopSpec C03.LoopTruth.
Open Scope Z_scope.

(* ---------- lists ---------- *)
Lemma index_of2_spec x l : forall i e, index_of2 x l i = Some e ->
  i <= e /\ l !! Z.to_nat (e - i) = Some x.
Proof.
  induction l as [|y l IH]; intros i e; cbn [index_of2]; [discriminate|].
  destruct (y =? x) eqn:E.
  - intros Heq. injection Heq as Heq. subst e. split; [lia|]. apply Z.eqb_eq in E. subst y. replace (i - i) with 0 by lia. done.
  - intros He. destruct (IH _ _ He) as [Hi Hl]. split; [lia|].
    replace (Z.to_nat (e - i)) with (S (Z.to_nat (e - (i + 1)))) by lia. exact Hl.
Qed.

Lemma index_of2_nodup l : NoDup l -> forall (n : nat) x i, l !! n = Some x ->
  index_of2 x l i = Some (i + Z.of_nat n).
Proof.
  induction 1 as [|y l Hy Hnd IH]; intros n x i Hl; [done|].
  destruct n as [|n]; cbn in Hl.
  - injection Hl as ->. cbn [index_of2]. rewrite Z.eqb_refl. f_equal. lia.
  - cbn [index_of2]. destruct (y =? x) eqn:E.
    + exfalso. apply Hy. apply Z.eqb_eq in E. subst y. eapply elem_of_list_lookup_2. exact Hl.
    + rewrite (IH n x (i + 1) Hl). f_equal. lia.
Qed.

Lemma zget_index l e x : NoDup l -> zlen l < 1000000 -> zget l e = Some x -> index_of2 x l 0 = Some e.
Proof.
  intros Hnd Hl Hz. apply zget_Some in Hz as [He Hx]; [|exact Hl].
  rewrite (index_of2_nodup l Hnd _ _ 0 Hx). f_equal. lia.
Qed.

Lemma index_zget l e x : zlen l < 1000000 -> index_of2 x l 0 = Some e -> zget l e = Some x.
Proof.
  intros Hl Hi. destruct (index_of2_spec _ _ _ _ Hi) as [He Hx]. rewrite Z.sub_0_r in Hx.
  apply zget_Some; [exact Hl|]. split; [|exact Hx]. apply lookup_lt_Some in Hx. unfold zlen. lia.
Qed.

Lemma zlist_eqb_eq a : forall b, zlist_eqb a b = true -> a = b.
Proof.
  induction a as [|x a IH]; intros [|y b]; cbn; try discriminate; [done|].
  intros Hb. apply andb_true_iff in Hb as [Hx Hb]. f_equal; [lia|by apply IH].
Qed.

Lemma zlist_eqb_refl a : zlist_eqb a a = true.
Proof. induction a as [|x a IH]; cbn; [done|]. by rewrite Z.eqb_refl, IH. Qed.

Lemma drop_take_comm {A} (l : list A) (k n : nat) : drop k (take n l) = take (n - k) (drop k l).
Proof.
  revert k n. induction l as [|x l IH]; intros k n.
  - destruct k, n; cbn; by rewrite ?take_nil.
  - destruct n as [|n]; [by destruct k|]. destruct k as [|k]; [done|]. cbn. apply IH.
Qed.

(* ---------- a hash names one chain ---------- *)
Lemma parent_ok_prefix parent (l : list Z) x : parent_ok parent (l ++ [x]) -> parent_ok parent l.
Proof.
  intros Hp i a b Ha Hb. apply (Hp i a b).
  - rewrite lookup_app_l; [done|]. by apply lookup_lt_Some in Ha.
  - rewrite lookup_app_l; [done|]. by apply lookup_lt_Some in Hb.
Qed.

Lemma parent_ok_last parent (l : list Z) y x : parent_ok parent (l ++ [y] ++ [x]) -> parent x = y.
Proof.
  intros Hp. apply (Hp (length l) y x).
  - rewrite lookup_app_r by lia. by rewrite Nat.sub_diag.
  - rewrite lookup_app_r by lia. replace (S (length l) - length l)%nat with 1%nat by lia. done.
Qed.

Lemma head_snoc_ne (l : list Z) x : l <> [] -> head (l ++ [x]) = head l.
Proof. by destruct l. Qed.

(* two chains from the same genesis block that end in the same block are
   the same chain *)
Lemma chain_determined parent g (l1 : list Z) : forall l2,
  parent_ok parent l1 -> parent_ok parent l2 -> NoDup l1 -> NoDup l2 ->
  head l1 = Some g -> head l2 = Some g -> last l1 = last l2 -> l1 = l2.
Proof.
  induction l1 as [|x l1 IH] using rev_ind; intros l2 Hp1 Hp2 Hn1 Hn2 Hh1 Hh2 Hl; [done|].
  destruct l2 as [|x2 l2 _] using rev_ind; [done|].
  rewrite !last_snoc in Hl. injection Hl as <-.
  assert (Hsingle : forall l : list Z, NoDup (l ++ [x]) -> head (l ++ [x]) = Some x -> l = []).
  { intros l Hn Hh. destruct l as [|y l]; [done|]. cbn in Hh. injection Hh as ->.
    apply NoDup_app in Hn as (_ & Hn & _). exfalso. apply (Hn x); [by left|by left]. }
  destruct l1 as [|y1 l1 _] using rev_ind.
  { cbn in Hh1. injection Hh1 as <-. by rewrite (Hsingle l2 Hn2 Hh2). }
  destruct l2 as [|y2 l2 _] using rev_ind.
  { cbn in Hh2. injection Hh2 as <-. rewrite (Hsingle (l1 ++ [y1]) Hn1 Hh1). done. }
  f_equal.
  pose proof (parent_ok_last parent l1 y1 x ltac:(by rewrite <- app_assoc in Hp1)) as E1.
  pose proof (parent_ok_last parent l2 y2 x ltac:(by rewrite <- app_assoc in Hp2)) as E2.
  apply IH.
  - by apply parent_ok_prefix in Hp1.
  - by apply parent_ok_prefix in Hp2.
  - by apply NoDup_app in Hn1 as (Hn1 & _).
  - by apply NoDup_app in Hn2 as (Hn2 & _).
  - rewrite head_snoc_ne in Hh1; [done|by destruct l1].
  - rewrite head_snoc_ne in Hh2; [done|by destruct l2].
  - rewrite !last_snoc. congruence.
Qed.

(* ---------- the view of the two lists ---------- *)
Lemma last_default_zget (l : list Z) : l <> [] -> zlen l < 1000000 ->
  zget l (zlen l - 1) = Some (default 0 (last l)).
Proof.
  intros Hne Hl. destruct l as [|x l _] using rev_ind; [done|].
  rewrite last_snoc. cbn. apply zget_Some; [exact Hl|]. unfold zlen in *. rewrite app_length in *. cbn in *.
  split; [lia|]. rewrite lookup_app_r by lia. replace (Z.to_nat _ - length l)%nat with 0%nat by lia. done.
Qed.

Lemma cf_range_aview a startH : abl a <> [] -> zlen (abl a) < 1000000 ->
  0 <= startH <= hlen a ->
  exists stop n, cf_range (aview a) startH = Some (stop, n) /\ 1 <= n <= MAXCFH /\
    startH + n - 1 <= hlen a /\ zget (abl a) (startH + n - 1) = Some stop /\
    (n = MAXCFH \/ startH + n - 1 = hlen a).
Proof.
  intros Hne Hlen Hs. unfold cf_range, aview, hlen in *. cbn [v_btip v_bh].
  destruct (last (abl a)) as [tx|] eqn:El.
  2:{ apply last_None in El. done. }
  unfold MAXCFH. rewrite (u32_small (zlen (abl a) - 1 - startH)) by (unfold U32; lia).
  destruct (zlen (abl a) - 1 - startH >=? 2000) eqn:E.
  - rewrite (u32_small (startH + 2000 - 1)) by (unfold U32; lia).
    assert (Hz : exists x, zget (abl a) (startH + 2000 - 1) = Some x).
    { unfold zget. replace ((0 <=? startH + 2000 - 1) && (startH + 2000 - 1 <? zlen (abl a))) with true by lia.
      destruct (abl a !! zn (startH + 2000 - 1)) eqn:E2; [by eexists|].
      apply lookup_ge_None in E2. rewrite zn_small in E2 by lia. unfold zlen in *. lia. }
    destruct Hz as [x Hx]. rewrite Hx. exists x, (u32 (startH + 2000 - 1 - startH + 1)).
    rewrite u32_small by (unfold U32; lia). replace (startH + 2000 - 1 - startH + 1) with 2000 by lia.
    split; [done|]. split; [lia|]. split; [lia|]. split; [exact Hx|by left].
  - exists tx, (u32 (zlen (abl a) - 1 - startH + 1)). rewrite u32_small by (unfold U32; lia).
    split; [done|]. split; [lia|]. split; [lia|]. split; [|right; lia].
    replace (startH + (zlen (abl a) - 1 - startH + 1) - 1) with (zlen (abl a) - 1) by lia.
    rewrite last_default_zget by done. by rewrite El.
Qed.

Section P.
Variable H : Z -> Z -> Z.
Variable fh : Z -> Z.
Hypothesis H_inj : forall a b a' b', H a b = H a' b' -> a = a' /\ b = b'.

Notation thdrs := (thdrs H fh).
Notation thd := (thd H fh).
Notation tcps := (tcps H fh).
Notation tmsg := (tmsg H fh).
Notation hdr := (hdr H fh).
Notation committed_true := (committed_true H fh).

(* ---------- one write of true filter hashes keeps the chain true ---------- *)
(* m carries the true filter hashes of the blocks s+k .. e (a suffix of the
   true hashes of s .. e) and names the block at height e *)
Lemma write_true a1 m a2 r (s n k : nat) :
  NoDup (abl a1) -> zlen (abl a1) < 1000000 ->
  committed_true a1 ->
  awrite_cf H a1 m = (a2, Some r) ->
  (1 <= s)%nat ->
  m_hashes m = drop k (List.map fh (take n (drop s (abl a1)))) ->
  index_of2 (m_stop m) (abl a1) 0 = Some (Z.of_nat (s + n - 1)) ->
  (s + n <= length (abl a1))%nat ->
  committed_true a2 /\ abl a2 = abl a1.
Proof.
  intros Hnd Hlen [[HL1 HL2] Htrue] Hw Hs Hh Hix Hsn. destruct r as [hd ht].
  destruct (awrite_cf_ok H _ _ _ _ _ Hw) as (Hb & Hf & Hlast & Hne & Hht & Hix2 & _).
  set (L := length (afl a1)) in *. set (bl := abl a1) in *.
  rewrite Hix in Hix2. injection Hix2 as Hht2.
  (* the length of what is written *)
  assert (Hlenm : length (m_hashes m) = (n - k)%nat).
  { rewrite Hh, drop_length, map_length, take_length, drop_length. lia. }
  assert (Hnk : (1 <= n - k)%nat).
  { destruct (m_hashes m); [done|]. cbn in Hlenm. lia. }
  assert (HLsk : L = (s + k)%nat).
  { rewrite Hht in Hht2. unfold zlen in Hht2. rewrite Hf, app_length, chain_from_length in Hht2.
    fold L in Hht2. lia. }
  (* the previous header is the true one *)
  assert (Hprev : m_prev m = hdr bl (L - 1)).
  { rewrite Htrue in Hlast. fold L in Hlast. rewrite last_lookup in Hlast.
    rewrite take_length, thdrs_length in Hlast. replace (L `min` length (abl a1))%nat with L in Hlast by (fold bl; lia).
    rewrite lookup_take in Hlast by lia. rewrite thdrs_lookup in Hlast by (fold bl; lia).
    replace (Init.Nat.pred (L `min` length bl)) with (L - 1)%nat in Hlast by lia. congruence. }
  assert (Hhashes : m_hashes m = List.map fh (take (n - k) (drop L bl))).
  { rewrite Hh, skipn_map. change (skipn k) with (@drop Z k). rewrite drop_take_comm, drop_drop. by rewrite HLsk. }
  split; [|exact Hb]. split.
  - rewrite Hf, app_length, chain_from_length, Hlenm. fold L. rewrite Hb. fold bl. lia.
  - rewrite Hf, app_length, chain_from_length, Hlenm. fold L. rewrite Hb. fold bl.
    rewrite Hprev, Hhashes, chain_from_segment by lia.
    rewrite Htrue at 1. fold L. fold bl. by rewrite <- take_split.
Qed.

(* ---------- the requests of the checkpointed fetch ---------- *)
Lemma mk_queries_stop a ncp fuel : forall cur qs,
  mk_queries fuel a ncp cur = Some qs ->
  forall ci stop, In (ci, stop) qs ->
    cur <= ci < ncp /\ zget (abl a) (Z.min (ci + CPQ) ncp * INTERVAL) = Some stop.
Proof.
  induction fuel as [|fuel IH]; intros cur qs Hq ci stop Hin; cbn [mk_queries] in Hq.
  - injection Hq as <-. destruct Hin.
  - destruct (cur <? ncp) eqn:Ec; [|injection Hq as <-; destruct Hin].
    apply Z.ltb_lt in Ec.
    destruct (zget (abl a) (Z.min (cur + CPQ) ncp * INTERVAL)) as [st|] eqn:Ez; [|discriminate].
    destruct (mk_queries fuel a ncp (Z.min (cur + CPQ) ncp)) as [r|] eqn:Er; [|discriminate].
    injection Hq as <-. destruct Hin as [[= <- <-]|Hin].
    + split; [lia|exact Ez].
    + destruct (IH _ _ Er _ _ Hin) as [Hc Hz]. split; [unfold CPQ in *; lia|exact Hz].
Qed.

(* the checkpoints are true ones *)
Definition cps_true (bl : list Z) (cps : list Z) : Prop :=
  zlen cps * INTERVAL <= zlen bl - 1 /\
  forall (i : nat) c, cps !! i = Some c -> c = thd bl ((Z.of_nat i + 1) * INTERVAL).

(* an answer that handleResponse delivers carries the true filter hashes of
   its range *)
Lemma delivered_true genesis bl cps qs ar ci stop :
  NoDup bl -> zlen bl < 1000000 -> cps_true bl cps -> genesis = thd bl 0 ->
  zget qs (a_q ar) = Some (ci, stop) ->
  0 <= ci < zlen cps -> zget bl (Z.min (ci + CPQ) (zlen cps) * INTERVAL) = Some stop ->
  delivers H genesis cps qs ar = true ->
  let s := Z.to_nat (ci * INTERVAL + 1) in
  let n := Z.to_nat ((Z.min (ci + CPQ) (zlen cps) - ci) * INTERVAL) in
  m_stop (a_msg ar) = stop /\
  m_hashes (a_msg ar) = List.map fh (take n (drop s bl)) /\
  index_of2 stop bl 0 = Some (Z.of_nat (s + n - 1)) /\ (s + n <= length bl)%nat /\ (1 <= s)%nat.
Proof.
  intros Hnd Hlen [Hcap Hcps] Hgen Hz Hci Hstop Hd. cbv zeta.
  apply delivers_spec in Hd as (ci' & stop' & Hz' & Hreg & Hst & Hl & Hv).
  rewrite Hz in Hz'. injection Hz' as <- <-.
  set (ncp := zlen cps) in *. unfold nci_of in Hl, Hv. fold ncp in Hl, Hv. unfold CPQ in *.
  set (nx := Z.min (ci + 2) ncp) in *.
  assert (Hnci : Z.min (ci + 2 - 1) (ncp - 1) = nx - 1) by (unfold nx; lia).
  rewrite Hnci in Hl, Hv. replace (nx - 1 - ci + 1) with (nx - ci) in Hl by lia.
  assert (Hnx : ci < nx <= ncp) by (unfold nx; lia).
  unfold INTERVAL in *.
  assert (He : 0 <= nx * 1000 < zlen bl) by lia.
  split; [exact Hst|].
  unfold verify_checkpoint in Hv. apply andb_true_iff in Hv as [Hp Hc].
  apply Z.eqb_eq in Hp. apply Z.eqb_eq in Hc.
  (* the previous checkpoint is the true header at ci*1000 *)
  assert (Hprev : m_prev (a_msg ar) = hdr bl (Z.to_nat (ci * 1000))).
  { rewrite <- Hp. unfold prevcp_of. destruct (0 <? ci) eqn:E0.
    - assert (Hz1 : zget cps (ci - 1) = Some (default 0 (zget cps (ci - 1)))).
      { unfold zget. replace ((0 <=? ci - 1) && (ci - 1 <? zlen cps)) with true by (fold ncp; lia).
        destruct (cps !! zn (ci - 1)) eqn:El; [done|]. apply lookup_ge_None in El.
        rewrite zn_small in El by lia. unfold ncp, zlen in *. lia. }
      apply zget_Some in Hz1 as [_ Hz1]; [|fold ncp; lia].
      rewrite (Hcps _ _ Hz1). rewrite thd_hdr by lia. f_equal. lia.
    - assert (ci = 0) as -> by lia. rewrite Hgen. rewrite thd_hdr by lia. done. }
  assert (Hnext : default 0 (zget cps (nx - 1)) = hdr bl (Z.to_nat (nx * 1000))).
  { assert (Hz1 : zget cps (nx - 1) = Some (default 0 (zget cps (nx - 1)))).
    { unfold zget. replace ((0 <=? nx - 1) && (nx - 1 <? zlen cps)) with true by (fold ncp; lia).
      destruct (cps !! zn (nx - 1)) eqn:El; [done|]. apply lookup_ge_None in El.
      rewrite zn_small in El by lia. unfold ncp, zlen in *. lia. }
    apply zget_Some in Hz1 as [_ Hz1]; [|fold ncp; lia].
    rewrite (Hcps _ _ Hz1). rewrite thd_hdr by lia. f_equal. lia. }
  rewrite Hnext, Hprev in Hc.
  set (s := Z.to_nat (ci * 1000 + 1)). set (n := Z.to_nat ((nx - ci) * 1000)).
  assert (Hsn : (s + n - 1)%nat = Z.to_nat (nx * 1000)) by lia.
  split; [|split; [|split; [unfold zlen in *; lia|lia]]].
  - apply (chain_last_inj H H_inj (hdr bl (Z.to_nat (ci * 1000)))).
    + rewrite map_length, take_length, drop_length. unfold zlen in *. lia.
    + rewrite Hc. replace (Z.to_nat (ci * 1000)) with (s - 1)%nat by lia.
      rewrite hdr_segment by lia. by rewrite Hsn.
  - rewrite (zget_index bl _ _ Hnd Hlen Hstop). f_equal. lia.
Qed.

(* a message that carries true filter hashes ending at its stop hash *)
Definition good_msg (bl : list Z) (m : cfmsg) : Prop :=
  exists s n k : nat, (1 <= s)%nat /\
    m_hashes m = drop k (List.map fh (take n (drop s bl))) /\
    index_of2 (m_stop m) bl 0 = Some (Z.of_nat (s + n - 1)) /\ (s + n <= length bl)%nat.

Lemma writes_true a ms a' : writes H a ms a' ->
  NoDup (abl a) -> zlen (abl a) < 1000000 -> committed_true a ->
  (forall m, In m ms -> good_msg (abl a) m) ->
  committed_true a' /\ abl a' = abl a.
Proof.
  induction 1 as [a|a m a1 hd ht ms a' Hw Hws IH]; intros Hnd Hlen Hct Hms; [done|].
  destruct (Hms m (or_introl eq_refl)) as (s & n & k & Hs & Hh & Hix & Hsn).
  destruct (write_true a m a1 (hd, ht) s n k Hnd Hlen Hct Hw Hs Hh Hix Hsn) as [Hct1 Hb1].
  assert (Hms1 : forall m', In m' ms -> good_msg (abl a1) m').
  { intros m' Hm'. rewrite Hb1. apply Hms. by right. }
  rewrite <- Hb1 in Hnd, Hlen.
  destruct (IH Hnd Hlen Hct1 Hms1) as [Hct' Hb']. split; [done|congruence].
Qed.

(* getCheckpointedCFHeaders with true checkpoints on a true store leaves a
   true store, whatever arrives *)
Lemma checkpointed_true genesis a cps ars bans a' pan :
  NoDup (abl a) -> zlen (abl a) < 1000000 -> committed_true a ->
  cps_true (abl a) cps -> genesis = thd (abl a) 0 ->
  get_checkpointed H genesis a cps ars = (bans, a', pan) ->
  committed_true a' /\ abl a' = abl a.
Proof.
  intros Hnd Hlen Hct Hcps Hgen Hg.
  destruct (checkpointed_writes_verified H genesis a cps ars bans a' pan Hg) as (ms & Hws & Hms).
  apply (writes_true a ms a' Hws Hnd Hlen Hct).
  intros m Hm. destruct (Hms m Hm) as (qs & ar & Hq & Har & Hd & Hmr).
  pose proof Hd as Hd0. apply delivers_spec in Hd0 as (ci & stop & Hz & _).
  destruct (mk_queries_props _ _ _ _ _ Hq) as (Hql & _ & _).
  assert (Hcl : zlen cps < 1000) by (destruct Hcps as [Hc _]; unfold INTERVAL in Hc; lia).
  assert (Hqlen : zlen qs < 1000000) by (unfold zlen in *; cbn [length] in Hql; lia).
  pose proof Hz as Hz0. apply zget_Some in Hz0 as [_ Hz0]; [|exact Hqlen].
  apply elem_of_list_lookup_2, elem_of_list_In in Hz0.
  destruct (mk_queries_stop _ _ _ _ _ Hq _ _ Hz0) as [Hci Hstop].
  assert (Hci0 : 0 <= ci < zlen cps).
  { split; [|lia]. destruct Hct as [[Hl1 _] _]. unfold zlen, INTERVAL in *.
    assert (0 <= (Z.of_nat (length (afl a)) - 1) / 1000) by (apply Z.div_pos; lia). lia. }
  destruct (delivered_true genesis (abl a) cps qs ar ci stop Hnd Hlen Hcps Hgen Hz Hci0 Hstop Hd)
    as (Hst & Hh & Hix & Hsn & Hs1).
  destruct Hmr as [->|(prev & off & ->)].
  - eexists _, _, 0%nat. split; [exact Hs1|]. split; [exact Hh|]. split; [by rewrite Hst|exact Hsn].
  - eexists _, _, (zn off). split; [exact Hs1|]. unfold trim. cbn [m_hashes m_stop].
    split; [by rewrite Hh|]. split; [by rewrite Hst|exact Hsn].
Qed.

Lemma cps_true_zget bl cps i : zlen bl < 1000000 -> cps_true bl cps -> 0 <= i < zlen cps ->
  zget cps i = Some (thd bl ((i + 1) * INTERVAL)).
Proof.
  intros Hlen [Hcap Hcps] Hi. unfold INTERVAL in *.
  destruct (cps !! Z.to_nat i) as [c|] eqn:El.
  - rewrite (Hcps _ _ El) in El. replace (Z.of_nat (Z.to_nat i)) with i in El by lia.
    apply zget_Some; [lia|]. done.
  - apply lookup_ge_None in El. unfold zlen in *. lia.
Qed.

(* who is banned by the dispatcher's calls of handleResponse *)
Lemma dispatch_bans genesis cps qs ars : forall done q,
  In q (fst (dispatch H genesis cps qs ars done)) ->
  exists ar, In ar ars /\ a_peer ar = q /\ fst (handle_response H genesis cps qs ar) = true.
Proof.
  induction ars as [|ar rest IH]; intros done q; [intros []|].
  cbn [dispatch]. destruct (mem (a_q ar) done).
  { intros Hq. destruct (IH _ _ Hq) as (x & Hx & Hp & Hb). exists x. split; [by right|done]. }
  destruct (handle_response H genesis cps qs ar) as [ban [d0|]] eqn:Eh.
  - specialize (IH (a_q ar :: done) q).
    destruct (dispatch H genesis cps qs rest (a_q ar :: done)) as [bs ds]. cbn [fst] in *.
    intros Hq. apply in_app_or in Hq as [Hq|Hq].
    + destruct ban; [|destruct Hq]. destruct Hq as [<-|[]]. exists ar. split; [by left|]. by rewrite Eh.
    + destruct (IH Hq) as (x & Hx & Hp & Hb). exists x. split; [by right|done].
  - specialize (IH done q).
    destruct (dispatch H genesis cps qs rest done) as [bs ds]. cbn [fst] in *.
    intros Hq. apply in_app_or in Hq as [Hq|Hq].
    + destruct ban; [|destruct Hq]. destruct Hq as [<-|[]]. exists ar. split; [by left|]. by rewrite Eh.
    + destruct (IH Hq) as (x & Hx & Hp & Hb). exists x. split; [by right|done].
Qed.

(* the true answer to a request is delivered, and its sender is not banned *)
Lemma honest_arrival_delivered genesis bl cps qs ar ci stop :
  zlen bl < 1000000 -> cps_true bl cps -> genesis = thd bl 0 ->
  zget qs (a_q ar) = Some (ci, stop) -> 0 <= ci < zlen cps ->
  zget bl (Z.min (ci + CPQ) (zlen cps) * INTERVAL) = Some stop ->
  a_reg ar = true ->
  a_msg ar = tmsg bl (ci * INTERVAL + 1) (Z.min (ci + CPQ) (zlen cps) * INTERVAL) ->
  delivers H genesis cps qs ar = true /\ fst (handle_response H genesis cps qs ar) = false.
Proof.
  intros Hlen Hcps Hgen Hz Hci Hstop Hreg Hmsg.
  assert (Hd : delivers H genesis cps qs ar = true).
  { apply delivers_spec. exists ci, stop. split; [exact Hz|]. split; [exact Hreg|].
    pose proof Hcps as [Hcap _]. unfold CPQ, INTERVAL in *.
    set (nx := Z.min (ci + 2) (zlen cps)) in *.
    assert (Hnx : ci < nx <= zlen cps) by (unfold nx; lia).
    assert (Hnci : nci_of cps ci = nx - 1) by (unfold nci_of, CPQ, nx; lia).
    rewrite Hnci, Hmsg.
    split; [|split].
    - unfold LoopSpec.tmsg. cbn [m_stop]. by rewrite Hstop.
    - rewrite tmsg_len by lia. lia.
    - unfold verify_checkpoint. apply andb_true_iff. split; apply Z.eqb_eq.
      + unfold prevcp_of. unfold LoopSpec.tmsg at 1. cbn [m_prev].
        replace (ci * 1000 + 1 =? 0) with false by lia. replace (ci * 1000 + 1 - 1) with (ci * 1000) by lia.
        destruct (0 <? ci) eqn:E0.
        * rewrite (cps_true_zget bl cps (ci - 1) Hlen Hcps) by lia. cbn. f_equal. unfold INTERVAL. lia.
        * assert (ci = 0) as -> by lia. done.
      + rewrite tmsg_chain_last_all by lia.
        rewrite (cps_true_zget bl cps (nx - 1) Hlen Hcps) by lia. cbn. f_equal. unfold INTERVAL. lia. }
  split; [exact Hd|]. unfold delivers in Hd.
  destruct (handle_response H genesis cps qs ar) as [b [d|]] eqn:Eh; [|discriminate].
  destruct (hr_Some H genesis cps qs ar b d Eh) as (_ & _ & _ & _ & -> & _). done.
Qed.

(* the honest peer is not banned by the checkpointed fetch *)
Lemma checkpointed_honest_safe genesis a cps ars p :
  NoDup (abl a) -> zlen (abl a) < 1000000 -> committed_true a ->
  cps_true (abl a) cps -> genesis = thd (abl a) 0 ->
  (forall qs ar ci stop e,
      mk_queries (S (length cps)) a (zlen cps) ((zlen (afl a) - 1) / INTERVAL) = Some qs ->
      In ar ars -> a_peer ar = p -> zget qs (a_q ar) = Some (ci, stop) ->
      index_of2 stop (abl a) 0 = Some e ->
      a_reg ar = true /\ a_msg ar = tmsg (abl a) (ci * INTERVAL + 1) e) ->
  ~ In p (fst (fst (get_checkpointed H genesis a cps ars))).
Proof.
  intros Hnd Hlen Hct Hcps Hgen Hhon. unfold get_checkpointed.
  destruct (last (afl a)) as [curHdr|]; [|intros []]. cbv zeta.
  destruct (mk_queries (S (length cps)) a (zlen cps) ((zlen (afl a) - 1) / INTERVAL)) as [qs|] eqn:Eq; [|intros []].
  destruct qs as [|q0 qs0] eqn:Eqs; [intros []|]. rewrite <- Eqs in *. clear Eqs.
  destruct (dispatch H genesis cps qs ars []) as [bans ds] eqn:Ed. cbn [fst].
  intros Hp. pose proof (dispatch_bans genesis cps qs ars [] p) as Hdb. rewrite Ed in Hdb.
  destruct (Hdb Hp) as (ar & Har & Hpeer & Hban).
  destruct (zget qs (a_q ar)) as [[ci stop]|] eqn:Ez.
  2:{ unfold handle_response in Hban. rewrite Ez in Hban. discriminate. }
  destruct (mk_queries_props _ _ _ _ _ Eq) as (Hql & _ & _).
  assert (Hcl : zlen cps < 1000) by (destruct Hcps as [Hc _]; unfold INTERVAL in Hc; lia).
  assert (Hqlen : zlen qs < 1000000) by (unfold zlen in *; cbn [length] in Hql; lia).
  pose proof Ez as Hz0. apply zget_Some in Hz0 as [_ Hz0]; [|exact Hqlen].
  apply elem_of_list_lookup_2, elem_of_list_In in Hz0.
  destruct (mk_queries_stop _ _ _ _ _ Eq _ _ Hz0) as [Hci Hstop].
  assert (Hci0 : 0 <= ci < zlen cps).
  { split; [|lia]. destruct Hct as [[Hl1 _] _]. unfold zlen, INTERVAL in *.
    assert (0 <= (Z.of_nat (length (afl a)) - 1) / 1000) by (apply Z.div_pos; lia). lia. }
  destruct (Hhon qs ar ci stop _ eq_refl Har Hpeer Ez (zget_index _ _ _ Hnd Hlen Hstop)) as [Hreg Hmsg].
  destruct (honest_arrival_delivered genesis (abl a) cps qs ar ci stop Hlen Hcps Hgen Ez Hci0 Hstop Hreg Hmsg)
    as [_ Hnb]. congruence.
Qed.

(* a list that resolveConflict returns is one of those it was given *)
Lemma resolve_res_in hard v env raws hint cps bans l :
  resolve_conflict H hard v env raws hint cps = (bans, Some l) -> exists q, In (q, l) cps.
Proof.
  unfold resolve_conflict, resolve_conflict_ix. cbv zeta.
  set (bad0 := List.map fst (List.filter (fun c : Z * list Z => peer_hard_bad hard (snd c)) cps)).
  set (cps1 := remove_peers bad0 cps).
  assert (H1 : forall q l, In (q, l) cps1 -> In (q, l) cps).
  { intros q l' Hq. by apply Proofs.remove_peers_In in Hq as [Hq _]. }
  destruct cps1 as [|c1 r1] eqn:E1; [discriminate|]. rewrite <- E1 in *. clear E1.
  destruct (check_sanity cps1 v) as [|d|]; [| |discriminate].
  - destruct (choose hint cps1) as [[q lq]|] eqn:Ec; cbn; [|discriminate].
    intros [= _ <-]. apply choose_In in Ec. exists q. by apply H1.
  - set (cps2 := List.filter (fun c : Z * list Z => negb (zlen (snd c) <? d)) cps1).
    assert (H2 : forall q l, In (q, l) cps2 -> In (q, l) cps).
    { intros q l' Hq. apply filter_In in Hq as [Hq _]. by apply H1. }
    destruct cps2 as [|c2 r2] eqn:E2; [discriminate|]. rewrite <- E2 in *. clear E2.
    destruct (get_headers v (u32 (d * INTERVAL)) raws) as [hs n].
    destruct (negb (all_eq (List.map (fun c : Z * cfmsg => m_prev (snd c)) hs))); [discriminate|].
    destruct (settle_all env (u32 (d * INTERVAL)) hs (full_ix hs n) []) as [[hs'|] bans1]; [|discriminate].
    match goal with |- context [check_sanity ?X v] => set (cps5 := X) end.
    assert (H5 : forall q l, In (q, l) cps5 -> In (q, l) cps).
    { intros q l' Hq. unfold cps5 in Hq.
      apply Proofs.remove_peers_In in Hq as [Hq _]. apply Proofs.remove_peers_In in Hq as [Hq _].
      apply Proofs.remove_peers_In in Hq as [Hq _]. by apply H2. }
    destruct (check_sanity cps5 v); try discriminate.
    destruct (choose hint cps5) as [[q lq]|] eqn:Ec; [|discriminate].
    intros [= _ <-]. apply choose_In in Ec. exists q. by apply H5.
Qed.

End P.
