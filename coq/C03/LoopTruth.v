(* C03 — lemmas about the ground truth of a block chain (true filter headers,
   true checkpoints, true cfheaders messages) used by the loop proofs. *)
From stdpp Require Import gmap list.
From Coq Require Import ZArith Lia ZifyBool.
From Verif Require Import S1.Model C07.Spec C03.Model C03.Spec C03.Proofs C03.ProofsF C03.ProofsU C03.ProofsS
     C03.ProofsC C03.Loop C03.LoopSpec.
Open Scope Z_scope.

Section T.
Variable H : Z -> Z -> Z.
Variable fh : Z -> Z.

Notation chain_from := (chain_from H).
Notation chain_last := (chain_last H).
Notation thdrs := (thdrs H fh).
Notation thd := (thd H fh).
Notation tcps := (tcps H fh).
Notation tmsg := (tmsg H fh).

(* ---------- chain_from / chain_last ---------- *)
Lemma chain_last_app p xs ys : chain_last p (xs ++ ys) = chain_last (chain_last p xs) ys.
Proof. unfold Model.chain_last. by rewrite fold_left_app. Qed.

Lemma chain_last_snoc p xs x : chain_last p (xs ++ [x]) = H x (chain_last p xs).
Proof. by rewrite chain_last_app. Qed.

Lemma chain_from_app p xs : forall ys,
  chain_from p (xs ++ ys) = chain_from p xs ++ chain_from (chain_last p xs) ys.
Proof.
  revert p. induction xs as [|x xs IH]; intros p ys; [done|].
  cbn [app Model.chain_from]. rewrite IH. done.
Qed.

Lemma chain_from_len p xs : length (chain_from p xs) = length xs.
Proof. revert p. induction xs as [|x xs IH]; intros p; cbn; [done|]. by rewrite IH. Qed.

Lemma chain_from_lookup xs : forall p (i : nat), (i < length xs)%nat ->
  chain_from p xs !! i = Some (chain_last p (take (S i) xs)).
Proof.
  induction xs as [|x xs IH]; intros p i Hi; [cbn in Hi; lia|].
  destruct i as [|i]; cbn [Model.chain_from]; cbv zeta.
  - done.
  - change ((H x p :: chain_from (H x p) xs) !! S i) with (chain_from (H x p) xs !! i).
    rewrite IH by (cbn in Hi; lia). done.
Qed.

Lemma chain_from_last_default p xs : default p (last (chain_from p xs)) = chain_last p xs.
Proof.
  destruct xs as [|x xs] using rev_ind; [done|].
  rewrite chain_from_app. cbn [Model.chain_from]. rewrite last_snoc. cbn.
  by rewrite chain_last_snoc.
Qed.

Lemma chain_from_take p xs (n : nat) : chain_from p (take n xs) = take n (chain_from p xs).
Proof.
  revert p n. induction xs as [|x xs IH]; intros p n; [by destruct n|].
  destruct n as [|n]; [done|]. cbn [take Model.chain_from]. by rewrite IH.
Qed.

(* ---------- true headers ---------- *)
Definition hdr (bl : list Z) (i : nat) : Z := chain_last 0 (List.map fh (take (S i) bl)).

Lemma thdrs_length bl : length (thdrs bl) = length bl.
Proof. unfold LoopSpec.thdrs. by rewrite chain_from_len, map_length. Qed.

Lemma thdrs_lookup bl (i : nat) : (i < length bl)%nat -> thdrs bl !! i = Some (hdr bl i).
Proof.
  intros Hi. unfold LoopSpec.thdrs, hdr. rewrite chain_from_lookup by (by rewrite map_length).
  by rewrite <- firstn_map.
Qed.

Lemma thdrs_take bl (n : nat) : thdrs (take n bl) = take n (thdrs bl).
Proof. unfold LoopSpec.thdrs. by rewrite <- chain_from_take, <- firstn_map. Qed.

Lemma thdrs_app bl xs :
  thdrs (bl ++ xs) = thdrs bl ++ chain_from (chain_last 0 (List.map fh bl)) (List.map fh xs).
Proof. unfold LoopSpec.thdrs. by rewrite map_app, chain_from_app. Qed.

Lemma hdr_take bl (n i : nat) : (i < n)%nat -> hdr (take n bl) i = hdr bl i.
Proof. intros Hi. unfold hdr. rewrite take_take. by replace (S i `min` n)%nat with (S i) by lia. Qed.

Lemma hdr_app bl xs (i : nat) : (i < length bl)%nat -> hdr (bl ++ xs) i = hdr bl i.
Proof. intros Hi. unfold hdr. by rewrite take_app_le by lia. Qed.

(* the hash chain over a segment of the true filter hashes *)
Lemma take_split {A} (l : list A) (s n : nat) :
  take (s + n) l = take s l ++ take n (drop s l).
Proof.
  revert l. induction s as [|s IH]; intros l; [done|].
  destruct l as [|x l]; [by rewrite drop_nil, !take_nil|]. cbn. by rewrite IH.
Qed.

(* from the header at height s-1 over the filter hashes of the blocks
   s .. s+n-1 to the header at height s+n-1 *)
Lemma hdr_segment bl (s n : nat) : (1 <= s)%nat -> (1 <= n)%nat ->
  chain_last (hdr bl (s - 1)) (List.map fh (take n (drop s bl))) = hdr bl (s + n - 1).
Proof.
  intros Hs Hn. unfold hdr.
  replace (S (s + n - 1)) with (s + n)%nat by lia. replace (S (s - 1)) with s by lia.
  by rewrite take_split, map_app, chain_last_app.
Qed.

Lemma hdr_segment0 bl (n : nat) : (1 <= n)%nat ->
  chain_last 0 (List.map fh (take n bl)) = hdr bl (n - 1).
Proof. intros Hn. unfold hdr. by replace (S (n - 1)) with n by lia. Qed.

Lemma chain_from_segment bl (s n : nat) : (1 <= s)%nat -> (s + n <= length bl)%nat ->
  chain_from (hdr bl (s - 1)) (List.map fh (take n (drop s bl))) = take n (drop s (thdrs bl)).
Proof.
  intros Hs Hn. apply list_eq. intros i.
  destruct (decide (i < n)%nat) as [Hi|Hi].
  - rewrite chain_from_lookup by (rewrite map_length, take_length, drop_length; lia).
    rewrite lookup_take, lookup_drop by lia. rewrite thdrs_lookup by lia.
    f_equal. rewrite <- firstn_map, take_take. replace (S i `min` n)%nat with (S i) by lia.
    rewrite firstn_map, (hdr_segment bl s (S i)) by lia. f_equal. lia.
  - rewrite (lookup_ge_None_2 (chain_from _ _)) by (rewrite chain_from_len, map_length, take_length, drop_length; lia).
    symmetry. apply lookup_ge_None_2. rewrite take_length. lia.
Qed.

(* ---------- heights as Z ---------- *)
Lemma zget_thdrs bl h : 0 <= h < zlen bl -> zlen bl < 1000000 ->
  zget (thdrs bl) h = Some (hdr bl (Z.to_nat h)).
Proof.
  intros Hh Hb. apply zget_Some; [unfold zlen in *; rewrite thdrs_length; lia|].
  split; [unfold zlen in *; rewrite thdrs_length; lia|].
  apply thdrs_lookup. unfold zlen in *. lia.
Qed.

Lemma thd_hdr bl h : 0 <= h < zlen bl -> zlen bl < 1000000 -> thd bl h = hdr bl (Z.to_nat h).
Proof. intros Hh Hb. unfold LoopSpec.thd. by rewrite zget_thdrs. Qed.

Lemma tcps_length bl hs : 0 <= hs < 1000000 -> zlen (tcps bl hs) = hs / INTERVAL.
Proof.
  intros Hh. unfold LoopSpec.tcps, zlen. rewrite map_length, seq_length.
  assert (0 <= hs / INTERVAL < 1000000) by (unfold INTERVAL; split; [apply Z.div_pos; lia|apply Z.div_lt_upper_bound; lia]).
  rewrite zn_small by lia. lia.
Qed.

Lemma tcps_lookup bl hs (i : nat) : 0 <= hs < 1000000 -> Z.of_nat i < hs / INTERVAL ->
  tcps bl hs !! i = Some (thd bl ((Z.of_nat i + 1) * INTERVAL)).
Proof.
  intros Hh Hi. unfold LoopSpec.tcps.
  assert (0 <= hs / INTERVAL < 1000000) by (unfold INTERVAL; split; [apply Z.div_pos; lia|apply Z.div_lt_upper_bound; lia]).
  rewrite list_lookup_fmap. rewrite lookup_seq_lt by (rewrite zn_small by lia; lia). done.
Qed.

Lemma tmsg_len bl start e : 0 <= start -> start <= e + 1 -> e < zlen bl -> zlen bl < 1000000 ->
  zlen (m_hashes (tmsg bl start e)) = e - start + 1.
Proof.
  intros H0 H1 H2 H3. unfold LoopSpec.tmsg, zlen in *. cbn [m_hashes].
  rewrite map_length, take_length, drop_length. rewrite !zn_small by lia. lia.
Qed.

(* the hash chain of the true answer: after k filter hashes it is at the true
   header of height start + k - 1 *)
Lemma tmsg_chain_last bl start e k : 0 <= start -> 1 <= k -> k <= e - start + 1 -> e < zlen bl ->
  zlen bl < 1000000 ->
  chain_last (m_prev (tmsg bl start e)) (take (Z.to_nat k) (m_hashes (tmsg bl start e))) = thd bl (start + k - 1).
Proof.
  intros H0 H1 H2 H3 H4. unfold LoopSpec.tmsg. cbn [m_prev m_hashes].
  rewrite !zn_small by lia. rewrite <- firstn_map, take_take.
  replace (Z.to_nat k `min` Z.to_nat (e - start + 1))%nat with (Z.to_nat k) by lia.
  rewrite firstn_map. rewrite (thd_hdr bl (start + k - 1)) by lia.
  destruct (start =? 0) eqn:E0.
  - assert (start = 0) as -> by lia. cbn [Z.to_nat drop].
    rewrite hdr_segment0 by lia. f_equal. lia.
  - rewrite thd_hdr by lia. replace (Z.to_nat (start - 1)) with (Z.to_nat start - 1)%nat by lia.
    rewrite hdr_segment by lia. f_equal. lia.
Qed.

Lemma tmsg_chain_last_all bl start e : 0 <= start -> start <= e -> e < zlen bl -> zlen bl < 1000000 ->
  chain_last (m_prev (tmsg bl start e)) (m_hashes (tmsg bl start e)) = thd bl e.
Proof.
  intros H0 H1 H2 H3.
  pose proof (tmsg_chain_last bl start e (e - start + 1) H0 ltac:(lia) ltac:(lia) H2 H3) as Hc.
  rewrite take_ge in Hc.
  - rewrite Hc. f_equal. lia.
  - pose proof (tmsg_len bl start e H0 ltac:(lia) H2 H3) as Hl. unfold zlen in Hl. lia.
Qed.

(* the headers the true answer determines are the true headers *)
Lemma tmsg_chain_from bl start e : 1 <= start -> start <= e + 1 -> e < zlen bl -> zlen bl < 1000000 ->
  Model.chain_from H (m_prev (tmsg bl start e)) (m_hashes (tmsg bl start e)) =
  take (Z.to_nat (e - start + 1)) (drop (Z.to_nat start) (thdrs bl)).
Proof.
  intros H0 H1 H2 H3. unfold LoopSpec.tmsg. cbn [m_prev m_hashes].
  rewrite !zn_small by lia. replace (start =? 0) with false by lia.
  rewrite thd_hdr by lia. replace (Z.to_nat (start - 1)) with (Z.to_nat start - 1)%nat by lia.
  apply chain_from_segment; unfold zlen in *; lia.
Qed.

(* ---------- collision freedom ---------- *)
Section Inj.
Hypothesis H_inj : forall a b a' b', H a b = H a' b' -> a = a' /\ b = b'.
Hypothesis H_nz : forall a b, H a b <> 0.

Lemma chain_last_inj p xs : forall ys, length xs = length ys ->
  chain_last p xs = chain_last p ys -> xs = ys.
Proof.
  induction xs as [|x xs IH] using rev_ind; intros ys Hl He.
  - destruct ys; [done|]. cbn in Hl. lia.
  - destruct ys as [|y ys _] using rev_ind.
    { rewrite app_length in Hl. cbn in Hl. lia. }
    rewrite !chain_last_snoc in He. apply H_inj in He as [-> He].
    rewrite !app_length in Hl. cbn in Hl. f_equal. apply IH; [lia|done].
Qed.

Lemma chain_last_nz p xs : xs <> [] -> chain_last p xs <> 0.
Proof.
  destruct xs as [|x xs _] using rev_ind; [done|]. intros _. rewrite chain_last_snoc. apply H_nz.
Qed.

(* a chain from 0 never comes back to one of its earlier values *)
Lemma chain_last_prefix_neq xs ys : ys <> [] -> chain_last 0 (xs ++ ys) <> chain_last 0 xs.
Proof.
  revert ys. induction xs as [|x xs IH] using rev_ind; intros ys Hy.
  - cbn [app]. change (chain_last 0 []) with 0. by apply chain_last_nz.
  - destruct ys as [|y ys _] using rev_ind; [done|].
    rewrite app_assoc, !chain_last_snoc. intros He. apply H_inj in He as [_ He].
    rewrite <- app_assoc in He. exact (IH ([x] ++ ys) ltac:(done) He).
Qed.

Lemma hdr_inj bl (i j : nat) : (i < length bl)%nat -> (j < length bl)%nat -> hdr bl i = hdr bl j -> i = j.
Proof.
  intros Hi Hj He. unfold hdr in He.
  destruct (lt_eq_lt_dec i j) as [[Hl|Heq]|Hl]; [exfalso|done|exfalso].
  - replace (S j) with (S i + (j - i))%nat in He by lia. rewrite take_split, map_app in He.
    symmetry in He. revert He. apply chain_last_prefix_neq.
    intros Hn. apply (f_equal length) in Hn. rewrite map_length, take_length, drop_length in Hn. cbn in Hn. lia.
  - replace (S i) with (S j + (i - j))%nat in He by lia. rewrite take_split, map_app in He.
    revert He. apply chain_last_prefix_neq.
    intros Hn. apply (f_equal length) in Hn. rewrite map_length, take_length, drop_length in Hn. cbn in Hn. lia.
Qed.

End Inj.

End T.
