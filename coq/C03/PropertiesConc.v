(* C03 — concurrency of the filter-header write (cfHandler goroutine) with a
   reorganisation (blockHandler goroutine): statements about the interleaving
   model C03/Conc.v (atomic steps = store calls / locked sections, schedules =
   lists of goroutine ids), predicates of C03/ConcSpec.v.  Proofs in
   C03/ConcProofs.v.

   [g_locked c = true] is the code of the repaired tree (F18: reorgMtx held by
   writeCFHeadersMsg and rollBackToHeight), [false] the code before. *)
From Coq Require Import ZArith List Bool.
Import ListNotations.
From Verif Require Import C03.Conc C03.ConcSpec C03.ConcProofs.
Open Scope Z_scope.

(* ---------- the repaired tree: every chain, batch, reorganisation, schedule ---------- *)

(* Whatever the schedule, at every moment the filter chain is not ahead of the
   block chain, and once both operations have returned: the block chain is a
   hash chain of distinct headers; filter chain not ahead; every filter entry
   belongs to the block at its height on the current chain; every entry is
   the successor of the one below; the tip key names the stored block at the
   height of the last entry (ChainTip readable); the in-memory tip equals the
   store's; the notifications replay to exactly the committed chain; the block
   handler did not panic. *)
Theorem C03_conc_all_schedules_safe :
  forall c bc ff sched,
    g_locked c = true -> wf_init bc ff -> wf_new bc (g_new c) ->
    let st := run c (init_state bc ff) sched in
    never_ahead st /\ (finished st = true -> conc_ok (sub_of bc ff) st).
Proof. exact conc_all_schedules_safe. Qed.
Print Assumptions C03_conc_all_schedules_safe.

(* the mutex cannot deadlock the two goroutines: whoever waits, waits for a
   goroutine that is inside its critical section and can step *)
Theorem C03_conc_locked_no_deadlock :
  forall c bc ff sched,
    g_locked c = true ->
    let st := run c (init_state bc ff) sched in
    (c_wait (cp st) = true -> bh_in (bp st) = true) /\ (b_wait (bp st) = true -> cf_in (cp st) = true).
Proof. exact conc_locked_no_deadlock. Qed.
Print Assumptions C03_conc_locked_no_deadlock.

(* ---------- both trees ---------- *)

(* the two sequences one after the other, in either order (ties the
   interleaving model to the sequential handler-level models S2 / C03.Model) *)
Theorem C03_conc_sequential_safe :
  forall c bc ff n m,
    wf_init bc ff -> wf_new bc (g_new c) ->
    (let s1 := run c (init_state bc ff) (repeat false n) in
     let s2 := run c s1 (repeat true m) in
     c_done (cp s1) = true -> b_done (bp s2) = true -> conc_ok (sub_of bc ff) s2) /\
    (let s1 := run c (init_state bc ff) (repeat true n) in
     let s2 := run c s1 (repeat false m) in
     b_done (bp s1) = true -> c_done (cp s2) = true -> conc_ok (sub_of bc ff) s2).
Proof. exact conc_sequential_safe. Qed.
Print Assumptions C03_conc_sequential_safe.

(* for ALL schedules of either tree: as long as the ghost code is 0 the
   predicates hold *)
Theorem C03_conc_safe_unless :
  forall c bc ff sched,
    wf_init bc ff -> wf_new bc (g_new c) ->
    let st := run c (init_state bc ff) sched in
    fl st = 0 -> never_ahead st /\ (finished st = true -> conc_ok (sub_of bc ff) st).
Proof. exact conc_safe_unless. Qed.
Print Assumptions C03_conc_safe_unless.

Theorem C03_conc_never_ahead_every_moment :
  forall c bc ff s1 s2,
    wf_init bc ff -> wf_new bc (g_new c) ->
    fl (run c (init_state bc ff) (s1 ++ s2)) = 0 ->
    never_ahead (run c (init_state bc ff) s1).
Proof. exact conc_never_ahead_prefix. Qed.
Print Assumptions C03_conc_never_ahead_every_moment.

(* the code is set only by an overlap of the critical windows: a rollback step
   (filter rollback, in-memory tip, block rollback, disconnect notification)
   while writeCFHeadersMsg is between its tip read and WriteHeaders (1) or
   between WriteHeaders and its last notification (3); WriteHeaders while
   rollBackToHeight is between its regHeight read and the end of its loop (2) *)
Theorem C03_conc_flag_only_on_overlap :
  forall c st g,
    fl st = 0 -> fl (fst (step c st g)) <> 0 -> overlap st g (fl (fst (step c st g))).
Proof. exact conc_flag_only_if. Qed.
Print Assumptions C03_conc_flag_only_on_overlap.

(* ---------- the tree before the repair: refuted, one witness per failure mode ---------- *)
Definition Bk i p := {| bid := i; bprev := p |}.
Definition Fe v p b := {| fv := v; fprev := p; fblk := b |}.

(* chain g a1 a2 (1 2 3), filter headers committed up to a1, cfheaders for
   a2, headers message n2 n3 (10 11) forking at a1 *)
Definition w_bc := [Bk 1 0; Bk 2 1; Bk 3 2].
Definition w_ff := [Fe 101 0 1; Fe 102 101 2].
Definition w_cfg (lk : bool) :=
  {| g_msg := {| m_prev := 102; m_ents := [103]; m_stop := 3 |}; g_new := [Bk 10 2; Bk 11 10]; g_locked := lk |}.
(* chain g a1 a2 a3, filter headers up to a2, cfheaders for a3, n2 n3 n4 forking at a1 *)
Definition w_bc2 := [Bk 1 0; Bk 2 1; Bk 3 2; Bk 4 3].
Definition w_ff2 := [Fe 101 0 1; Fe 102 101 2; Fe 103 102 3].
Definition w_cfg2 (lk : bool) :=
  {| g_msg := {| m_prev := 103; m_ents := [104]; m_stop := 4 |}; g_new := [Bk 10 2; Bk 11 10; Bk 12 11]; g_locked := lk |}.

Definition cfN n := repeat false n.
Definition bhN n := repeat true n.
(* a: tip read, ancestors fetched | whole reorganisation | WriteHeaders on the stale tip *)
Definition w_a := cfN 3 ++ bhN 9 ++ cfN 3.
(* b: regHeight read | whole write | rollback loop skips the filter header *)
Definition w_b := cfN 3 ++ bhN 3 ++ cfN 3 ++ bhN 6.
(* c: WriteHeaders | whole reorganisation | in-memory tip published, connected sent *)
Definition w_c := cfN 4 ++ bhN 11 ++ cfN 2.
(* c': ... publish too | whole reorganisation | connected sent after the disconnect *)
Definition w_c' := cfN 5 ++ bhN 11 ++ cfN 1.
(* d: reads | first block rolled back | stale write | next filter rollback fails: panic *)
Definition w_d := cfN 3 ++ bhN 7 ++ cfN 3 ++ bhN 2.

Definition bad (c : cfg) bc ff sched (code fail : Z) : Prop :=
  g_locked c = false /\ wf_init bc ff /\ wf_new bc (g_new c) /\
  let st := run c (init_state bc ff) sched in
  finished st = true /\ fl st = code /\ conc_fail (sub_of bc ff) (observe st) = fail.

Theorem C03_conc_without_lock_refuted :
  (* stale write: filter header of a disconnected block stored, tip key names no stored block *)
  bad (w_cfg false) w_bc w_ff w_a 1 2 /\
  (* stale regHeight: the filter header survives the disconnection of its block;
     in the middle of the run the filter chain is AHEAD of the block chain *)
  bad (w_cfg false) w_bc w_ff w_b 2 2 /\
  ~ never_ahead (run (w_cfg false) (init_state w_bc w_ff) (cfN 3 ++ bhN 3 ++ cfN 3 ++ bhN 2)) /\
  (* stale publish: in-memory tip above the store's *)
  bad (w_cfg false) w_bc w_ff w_c 3 5 /\
  (* connected notification for a block after its disconnected notification *)
  bad (w_cfg false) w_bc w_ff w_c' 3 6 /\
  (* the next filter rollback fails: the block handler panics ("Rollback failed") *)
  (bad (w_cfg2 false) w_bc2 w_ff2 w_d 1 1 /\
   o_bres (observe (run (w_cfg2 false) (init_state w_bc2 w_ff2) w_d)) = 2).
Proof.
  unfold bad, wf_init, wf_new, never_ahead.
  repeat split; try (vm_compute; reflexivity).
  vm_compute. intros H. repeat (apply le_S_n in H). inversion H.
Qed.
Print Assumptions C03_conc_without_lock_refuted.

(* the same schedules on the repaired tree: the second goroutine waits *)
Example C03_conc_nonvacuous :
  let st := run (w_cfg true) (init_state w_bc w_ff) (w_c ++ bhN 12) in
  finished st = true /\ conc_okb (sub_of w_bc w_ff) (observe st) = true /\
  events (sh st) = [EConn 3 2; EDisc 3 2 2] /\
  map bid (bchain (sh st)) = [1; 2; 10; 11] /\ length (ffile (sh st)) = 2%nat /\
  (let st' := run (w_cfg2 true) (init_state w_bc2 w_ff2) (bhN 3 ++ cfN 2 ++ bhN 20 ++ cfN 5) in
   finished st' = true /\ conc_okb (sub_of w_bc2 w_ff2) (observe st') = true /\ o_cres (observe st') = 2).
Proof. vm_compute. repeat split; reflexivity. Qed.
