(* C03 / ReplayHand — replay of the families HU / HR of the C03 harness:
   getUncheckpointedCFHeaders / resolveConflict driven through the REAL
   ChainService.queryAllPeers and ServerPeer.OnRead.

   The outcome of the case is judged by the U / R replay (C03/Replay.v): the
   model runs on the FULL set of answers the peers handed over, so an answer
   lost on the way to the callback shows as a kind-1 row (other outcome) and,
   when an honest peer is among the peers, as a kind-2 row of that monitor.

   Per round the recorded events (handed to OnRead / callback invoked /
   queryAllPeers returned, in real-time order) are replayed on the model of
   the hand-off (C03/Hand.v):
     kind 1, step 200 + round: the callback was invoked for a message that is
             not pending in the model (never handed over, or twice), or for a
             peer whose quit channel the callback had closed;
     kind 1, step 300 + round: the peers the harness flagged as having handed
             over an acceptable answer are not those the model accepts;
     kind 2, step 100 + round: delivery is not conserved - a message handed
             to OnRead while the round was live never reached the callback
             although no accepted answer of its peer had closed the peer's
             quit channel (tag 0). *)
From stdpp Require Import gmap list.
From Coq Require Import ZArith.
From Verif Require Import S1.Model C07.Spec C03.Model C03.Spec C03.Replay C03.Hand.
Open Scope Z_scope.

Definition hmsg := (Z * bool)%type.                 (* uid, acceptable answer *)
Definition hev_r := (Z * Z * Z * bool)%type.        (* kind, peer, uid, acceptable *)
Definition hround := (Z * list hev_r)%type.         (* 1 = getcfheaders round *)
Definition hcase := (case * list hround)%type.

Definition hacc (m : hmsg) : bool := snd m.

Fixpoint find_pend (p uid : Z) (l : list (Z * hmsg)) (i : nat) : option nat :=
  match l with
  | [] => None
  | (q, (u, _)) :: r => if (q =? p) && (u =? uid) then Some i else find_pend p uid r (S i)
  end.

(* None: the implementation did something the model cannot do *)
Fixpoint hreplay (s : hst hmsg) (evs : list hev_r) : option (hst hmsg) :=
  match evs with
  | [] => Some s
  | (k, p, uid, a) :: rest =>
    if k =? 0 then hreplay (hstep hacc None s (HDeliver p (uid, a))) rest
    else if k =? 1 then
      if negb (h_live s) then None else
      match find_pend p uid (h_pend s) O with
      | None => None
      | Some i => if memz p (h_closed s) then None else hreplay (hstep hacc None s (HTake i)) rest
      end
    else hreplay (hstep hacc None s HQuit) rest
  end.

Definition lost_of (s : hst hmsg) : list (Z * hmsg) :=
  List.filter (fun x : Z * hmsg => negb (memz (fst x) (h_closed s))) (h_pend s ++ h_drop s).

Definition acc_peers (evs : list hev_r) : list Z :=
  sort_set (flat_map (fun e : hev_r => let '(k, p, _, a) := e in if (k =? 0) && a then [p] else []) evs).

(* peers whose answer the model of getCFHeadersForAllPeers accepts (family U) *)
Definition model_acc_peers (c : case) : option (list Z) :=
  match c with
  | CU ht bl fl raws envr T honest ob =>
    let a := {| abl := unruns bl; afl := unruns fl |} in
    let v := aview a in
    match v_ftip v with
    | Some (_, fh) => Some (sort_set (List.map fst (fst (get_headers v (u32 (fh + 1)) (List.map mk_raw raws)))))
    | None => None
    end
  | _ => None
  end.

Fixpoint hand_rounds (id : Z) (c : case) (i : Z) (rs : list hround) : list (Z * Z * Z * Z) :=
  match rs with
  | [] => []
  | (kind, evs) :: rest =>
    (match hreplay hinit evs with
     | None => [(id, 1, 200 + i, 0)]
     | Some s => match lost_of s with [] => [] | _ => [(id, 2, 100 + i, 0)] end
     end) ++
    (if kind =? 1 then
       match model_acc_peers c with
       | Some ps => if list_eqb ps (acc_peers evs) then [] else [(id, 1, 300 + i, 0)]
       | None => []
       end
     else []) ++
    hand_rounds id c (i + 1) rest
  end.

Definition hverdict (x : Z * hcase) : list (Z * Z * Z * Z) :=
  let '(id, (c, rs)) := x in verdict (id, c) ++ hand_rounds id c 0 rs.

Definition run_hcases (cs : list (Z * hcase)) : list (Z * Z * Z * Z) := flat_map hverdict cs.
