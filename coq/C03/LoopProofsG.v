(* C03 — progress of the handler loop: an attempt finds a checkpoint list or
   bans a connected liar; the number of failed attempts is bounded by the
   number of peers. *)
From stdpp Require Import gmap list.
From Coq Require Import ZArith Lia ZifyBool.
From Verif Require Import S1.Model C07.Spec C03.Model C03.Spec C03.Proofs C03.ProofsF C03.ProofsU C03.ProofsS
     C03.ProofsR C03.ProofsP C03.ProofsC C03.Loop C03.LoopSpec C03.LoopTruth C03.LoopProofs C03.LoopProofsR
     C03.LoopProofsT.
Open Scope Z_scope.

(* checkCFCheckptSanity cannot fail on a readable store *)
Lemma sanity_loop_no_err a n : forall i cps tip,
  tip = zlen (afl a) - 1 -> zlen (afl a) < 1000000 ->
  sanity_loop n i cps (aview a) tip <> SaneErr.
Proof.
  induction n as [|n IH]; intros i cps tip Ht Hl; cbn [sanity_loop]; [done|].
  destruct (vals_at cps i) as [|cc rest]; [by apply IH|].
  destruct (negb (forallb (Z.eqb cc) rest)); [done|].
  destruct (u32 ((Z.of_nat i + 1) * INTERVAL) <=? tip) eqn:E; [|by apply IH].
  unfold aview. cbn [v_fh].
  destruct (zget (afl a) (u32 ((Z.of_nat i + 1) * INTERVAL))) as [hd|] eqn:Ez.
  - destruct (hd =? cc); [by apply IH|done].
  - exfalso. unfold zget in Ez.
    assert (0 <= u32 ((Z.of_nat i + 1) * INTERVAL)) by (unfold u32; apply Z.mod_pos_bound; unfold U32; lia).
    replace ((0 <=? u32 ((Z.of_nat i + 1) * INTERVAL)) && (u32 ((Z.of_nat i + 1) * INTERVAL) <? zlen (afl a)))
      with true in Ez by lia.
    apply lookup_ge_None in Ez. rewrite zn_small in Ez by lia. unfold zlen in *. lia.
Qed.

Lemma check_sanity_no_err a cps : afl a <> [] -> zlen (afl a) < 1000000 ->
  check_sanity cps (aview a) <> SaneErr.
Proof.
  intros Hne Hl. unfold check_sanity.
  destruct (last (afl a)) as [x|] eqn:El; [|by apply last_None in El].
  assert (v_ftip (aview a) = Some (x, zlen (afl a) - 1)) as -> by (unfold aview; cbn [v_ftip]; by rewrite El).
  apply (sanity_loop_no_err a); [done|exact Hl].
Qed.

Section G.
Variable H : Z -> Z -> Z.
Variable fh : Z -> Z.
Hypothesis H_inj : forall a b a' b', H a b = H a' b' -> a = a' /\ b = b'.
Variable parent : Z -> Z.
Variable g : Z.
Variable p : Z.
Variable c : lcfg.
Variable tfilt : Z -> Z.

Notation thdrs := (thdrs H fh).
Notation thd := (thd H fh).
Notation tcps := (tcps H fh).
Notation tmsg := (tmsg H fh).
Notation committed_true := (committed_true H fh).
Notation linv := (linv H fh parent g p c).

(* the store holds nothing that contradicts the true checkpoints *)
Lemma store_agrees_true a hs : committed_true a -> zlen (abl a) < 1000000 -> 0 <= hs < 1000000 ->
  store_agrees (aview a) (tcps (abl a) hs).
Proof.
  intros [[H1 H2] Ht] Hlen Hhs i cc hd Hc Hf. unfold aview in Hf. cbn [v_fh] in Hf.
  pose proof (lookup_lt_Some _ _ _ Hc) as Hi.
  pose proof (tcps_length H fh (abl a) hs Hhs) as Hl. unfold zlen in Hl.
  rewrite tcps_lookup in Hc by lia. injection Hc as <-.
  assert (Hdiv : hs / INTERVAL < 1000) by (unfold INTERVAL; apply Z.div_lt_upper_bound; lia).
  rewrite u32_small in Hf by (unfold U32, INTERVAL in *; lia).
  apply zget_Some in Hf as [Hb Hf]; [|unfold zlen in *; lia].
  rewrite Ht in Hf. rewrite lookup_take in Hf by (unfold zlen in *; lia).
  unfold LoopSpec.thd. set (hh := (Z.of_nat i + 1) * INTERVAL) in *.
  pose proof (lookup_lt_Some _ _ _ Hf) as Hlt. rewrite thdrs_length in Hlt.
  assert (Hz : zget (thdrs (abl a)) hh = Some hd).
  { apply zget_Some; [unfold zlen in *; rewrite thdrs_length; lia|].
    split; [unfold zlen in *; rewrite thdrs_length; lia|exact Hf]. }
  by rewrite Hz.
Qed.

(* ---------- what the honest peer serves, with availability ---------- *)
Lemma hon_serves_avail s d :
  linv s -> eff_phase s <> PTip -> INTERVAL <= tipH s ->
  hon_hdrs H fh p c tfilt s d -> avail_hdrs H fh c s d ->
  honest_serves_avail_lt H (c_hard c) (aview (l_a s)) (d_env d) (onlyc (l_conn s) r_peer (d_raws d))
                   (cap (tipH s) (snd (lists_of c s (tipH s) (tipX s) d))) p
                   (tcps (abl (l_a s)) (tipH s)) tfilt.
Proof.
  intros Hinv Hph Ht Hh Hav j Hj Hfd. cbv zeta.
  destruct (li_chain _ _ _ _ _ _ _ Hinv) as [Hnd Hlen].
  set (a := l_a s) in *. set (bl := abl a) in *.
  assert (HtH : tipH s = zlen bl - 1) by reflexivity.
  assert (Hjl : Z.of_nat j < tipH s / INTERVAL).
  { pose proof (tcps_length H fh bl (tipH s) ltac:(lia)) as Hl. unfold zlen in Hl. lia. }
  assert (Hj1 : (Z.of_nat j + 1) * INTERVAL <= tipH s).
  { unfold INTERVAL in *. pose proof (Z.mul_div_le (tipH s) 1000 ltac:(lia)). lia. }
  assert (Hu : u32 (Z.of_nat j * INTERVAL) = Z.of_nat j * INTERVAL).
  { apply u32_small. unfold INTERVAL, U32 in *. lia. }
  rewrite Hu. set (startH := Z.of_nat j * INTERVAL) in *.
  assert (Hne : bl <> []) by (intros E; rewrite E in Hlen; unfold zlen in Hlen; cbn in Hlen; lia).
  destruct (cf_range_aview a startH Hne (proj2 Hlen) ltac:(unfold hlen, startH, INTERVAL in *; fold bl; lia))
    as (stop & n & Hcf & Hn & He & Hz & Hfull).
  pose proof (bcast_wait c s d j Hph Hfd) as Hb. fold startH in Hb. rewrite Hu in Hb.
  destruct (Hh startH stop n Hb Hcf) as [Hhon Hgood]. fold a bl in Hhon, Hgood.
  destruct (Hav startH stop n Hb Hcf) as [Havl Hprev]. fold a bl in Havl, Hprev.
  exists (tmsg bl startH (startH + n - 1)).
  assert (Hg : get_headers (aview a) startH (onlyc (l_conn s) r_peer (d_raws d)) =
               (accept stop n (onlyc (l_conn s) r_peer (d_raws d)) [], n)).
  { unfold get_headers. by rewrite Hcf. }
  rewrite Hg. cbn [fst snd]. rewrite Hg in Hhon, Hprev. cbn [fst] in Hhon, Hprev.
  split; [exact Hhon|]. split; [intros i Hi; split; [by apply Hgood|by apply Havl]|].
  split; [exact Hprev|].
  intros cc Hcc. rewrite (zget_tcps H fh bl (tipH s) j) in Hcc by lia. injection Hcc as <-.
  assert (Hn1 : INTERVAL + 1 <= n).
  { unfold hlen in *. fold bl in He, Hfull. unfold startH in *. unfold MAXCFH, INTERVAL in *. lia. }
  rewrite zn_small by (unfold INTERVAL; lia).
  rewrite tmsg_chain_last by (unfold hlen, startH, INTERVAL in *; fold bl in He; lia).
  f_equal. unfold startH, INTERVAL. lia.
Qed.

(* ---------- an attempt makes progress ---------- *)
Lemma attempt_with_progress s d refetch cache cst cbl flag s' code asked bans :
  linv s -> hon_hdrs H fh p c tfilt s d -> avail_hdrs H fh c s d ->
  peer_hard_bad (c_hard c) (tcps (abl (l_a s)) (tipH s)) = false ->
  eff_phase s <> PTip -> INTERVAL <= tipH s ->
  snd (lists_of c s (tipH s) (tipX s) d) = cache ->
  (forall l, In (p, l) cache <-> l = tcps (abl (l_a s)) (tipH s)) ->
  attempt_with H c s (tipH s) (tipX s) d refetch cache cst cbl flag = (s', (code, asked, bans)) ->
  ((code = 3 \/ code = 6) /\ l_cache s' = cache /\
     (length (l_conn s') <= length (l_conn s))%nat) \/
  (code = 2 /\ l_cache s' = [] /\
     l_conn s' = List.filter (fun q => negb (mem q bans)) (l_conn s) /\
     l_banned s' = l_banned s ++ bans /\
     exists q, In q bans /\ In q (List.map fst (cap (tipH s) cache))).
Proof.
  intros Hinv Hhd Hav Hhard Hph Ht Hsnd Hiff Hatt.
  pose proof Hinv as [[Hnd Hlen] Hpar Hhead Htrue Hgen Hnb Hcb Hcache Hleg Hcp Hphase].
  set (a := l_a s) in *. set (bl := abl a) in *.
  unfold attempt_with in Hatt. rewrite Hleg in Hatt. fold a in Hatt.
  destruct (refetch && (length cache =? 0)%nat) eqn:E0.
  { exfalso. apply andb_true_iff in E0 as [_ E0]. apply Nat.eqb_eq in E0.
    pose proof (proj2 (Hiff _) eq_refl) as Hin. by destruct cache. }
  destruct (resolve_of H c s (tipH s) (tipX s) d) as [bans0 res] eqn:ER.
  pose proof ER as ER0. unfold resolve_of in ER0. rewrite Hsnd in ER0. fold a in ER0.
  set (tc := tcps bl (tipH s)) in *.
  assert (HtH : tipH s = zlen bl - 1) by reflexivity.
  assert (Htcl : zlen tc = tipH s / INTERVAL) by (apply tcps_length; lia).
  destruct (cap_honest p (tipH s) cache tc Hiff Htcl ltac:(lia)) as (Hin & Huniq & Hlens).
  assert (Hne : bl <> []) by (intros E; rewrite E in Hlen; unfold zlen in Hlen; cbn in Hlen; lia).
  assert (Hbt : v_btip (aview a) = Some (default 0 (last bl), zlen bl - 1)).
  { unfold aview. cbn [v_btip]. fold bl. destruct (last bl) eqn:El; [done|by apply last_None in El]. }
  assert (Hcapb : zlen tc * INTERVAL <= zlen bl - 1).
  { rewrite Htcl. unfold INTERVAL in *. pose proof (Z.mul_div_le (tipH s) 1000 ltac:(lia)). lia. }
  assert (Hafl : afl a <> [] /\ zlen (afl a) < 1000000).
  { destruct Htrue as [[H1 H2] _]. split.
    - intros E. rewrite E in H1. cbn in H1. lia.
    - unfold zlen, bl in *. lia. }
  cbn [do_ban l_conn l_banned] in Hatt.
  destruct res as [[|x l]|].
  - (* an empty list cannot be returned: the capped lists are not empty *)
    exfalso. destruct (resolve_res_in H _ _ _ _ _ _ _ _ ER0) as [q0 Hq0].
    apply in_cap in Hq0 as (_ & _ & _ & Hn). done.
  - left. destruct (get_checkpointed H (c_genesis c) a (x :: l) _) as [[bans2 a'] pan] eqn:EG.
    cbn [do_ban l_conn l_banned] in Hatt. injection Hatt as <- <- _ _. cbn.
    split; [destruct pan; [by right|by left]|]. split; [done|].
    etrans; [apply filter_len_le|apply filter_len_le].
  - right. injection Hatt as <- <- _ <-. cbn. split; [done|]. split; [done|]. split; [done|]. split; [done|].
    pose proof (hon_serves_avail s d Hinv Hph Ht Hhd Hav) as Hs. rewrite Hsnd in Hs. fold a bl tc in Hs.
    destruct (resolve_progress_lt H (c_hard c) (aview a) (d_env d) _ (d_hint d) _ p tc tfilt _ _ bans0 None
                Hin Huniq Hhard Hlens Hbt ltac:(lia) Hcapb Hs
                (store_agrees_true a (tipH s) Htrue (proj2 Hlen) ltac:(lia))
                (fun l0 => check_sanity_no_err a l0 (proj1 Hafl) (proj2 Hafl)) ER0) as [Hc|Hc]; [done|exact Hc].
Qed.

(* ---------- the potential ---------- *)
Lemma accept_cp_keys stop rs : forall seen q l,
  In (q, l) (accept_cp stop rs seen) -> exists r, In r rs /\ cr_peer r = q.
Proof.
  induction rs as [|r rs IH]; intros seen q l; cbn [accept_cp]; [intros []|].
  destruct (negb (mem (cr_peer r) seen) && cr_reg r && (cr_stop r =? stop)).
  - intros [[= <- <-]|Hin]; [exists r; split; [by left|done]|].
    destruct (IH _ _ _ Hin) as (r' & Hr' & Hq). exists r'. split; [by right|done].
  - intros Hin. destruct (IH _ _ _ Hin) as (r' & Hr' & Hq). exists r'. split; [by right|done].
Qed.

Lemma round_phi s d s' o :
  linv s -> hon_round H fh p c tfilt s d -> avail_hdrs H fh c s d ->
  round H c s d = (s', o) -> l_flag s' = 0 ->
  if is_fail o then (phi s' + 1 <= phi s)%nat
  else if is_succ o then (phi s' <= phi s + 1)%nat else (phi s' <= phi s)%nat.
Proof.
  intros Hinv (Hconn & Hcp & Hhd & Har & Hhard) Hav Hr Hflag.
  unfold round in Hr. destruct (l_panic s); [injection Hr as <- <-; cbn; lia|].
  change (match l_ph s with PDecide => decide_ph s | ph => ph end) with (eff_phase s) in Hr.
  assert (Hwait : eff_phase s <> PTip -> wait_round H c s d = (s', o) ->
            if is_fail o then (phi s' + 1 <= phi s)%nat
            else if is_succ o then (phi s' <= phi s + 1)%nat else (phi s' <= phi s)%nat).
  { intros Hph Hw. unfold wait_round in Hw.
    destruct (negb (wait_cond s)); [injection Hw as <- <-; cbn; unfold phi; cbn; lia|].
    destruct (hlen (l_a s) <? INTERVAL) eqn:El; [injection Hw as <- <-; cbn; unfold phi; cbn; lia|].
    unfold attempt in Hw. change (hlen (l_a s)) with (tipH s) in *.
    change (default 0 (last (abl (l_a s)))) with (tipX s) in *.
    pose proof (attempt_with_flag H c _ _ _ _ _ _ _ _ _ _ _ Hw) as Hfl. rewrite Hflag in Hfl. symmetry in Hfl.
    pose proof (stale_flag_zero c _ _ _ (li_cp _ _ _ _ _ _ _ Hinv) Hfl) as Hfresh.
    assert (Ht : INTERVAL <= tipH s) by lia.
    pose proof (lists_iff H fh parent g p c s d Hinv Hcp Ht Hfresh) as Hiff.
    destruct o as [[code asked] bans].
    destruct (attempt_with_progress s d _ _ _ _ _ s' code asked bans Hinv Hhd Hav Hhard Hph Ht eq_refl Hiff Hw)
      as [([-> | ->] & Hc & Hl)|(-> & Hc & Hl & _ & q & Hqb & Hqk)]; cbn; unfold phi.
    - destruct (l_cache s'), (l_cache s); lia.
    - destruct (l_cache s'), (l_cache s); lia.
    - rewrite Hc, Hl.
      apply in_map_iff in Hqk as ([q' lq] & Eq & Hqk). cbn in Eq. subst q'.
      apply in_cap in Hqk as (l0 & Hin0 & _ & _).
      unfold lists_of in Hin0. cbn [snd] in Hin0.
      destruct (refetch_cond c s (tipH s) (tipX s)) eqn:Er.
      + (* the lists were fetched now: their owners are connected *)
        destruct (accept_cp_keys _ _ _ _ _ Hin0) as (r & Hrr & Hrq).
        apply filter_In in Hrr as [_ Hrr]. rewrite Hrq in Hrr. apply mem_In in Hrr.
        pose proof (filter_shorter (fun q0 => negb (mem q0 bans)) (l_conn s) q Hrr) as Hs.
        cbn in Hs. rewrite (proj2 (mem_In q bans) Hqb) in Hs. specialize (Hs eq_refl).
        destruct (l_cache s); lia.
      + (* the lists were cached *)
        pose proof (filter_len_le (fun q0 => negb (mem q0 bans)) (l_conn s)) as Hle.
        destruct (l_cache s); [destruct Hin0|]. lia. }
  destruct (eff_phase s) as [|lh lx| |] eqn:Eph; [by apply Hwait| |by apply Hwait|].
  - by destruct (eff_phase_retry H fh parent g p c s lh lx Hinv).
  - revert Hr. unfold tip_round. cbn [set_ph l_a l_conn l_cache l_cache_stop l_banned l_synced l_cache_bl l_flag].
    destruct (zlen (afl (l_a s)) =? zlen (abl (l_a s))); [intros [= <- <-]; cbn; unfold phi; cbn; lia|].
    destruct (get_uncheckpointed _ _ _) as [bans r]. cbn [do_ban l_conn l_banned].
    pose proof (filter_len_le (fun q0 => negb (mem q0 bans)) (l_conn s)) as Hle.
    destruct r as [| |m]; [intros [= <- <-]; cbn; unfold phi; cbn; destruct (l_cache s); lia..|].
    destruct (awrite_cf H (l_a s) m) as [a' [[hd ht]|]]; intros [= <- <-]; cbn; unfold phi; cbn;
      destruct (l_cache s); lia.
Qed.

(* The number of failed attempts of a run is bounded: each one removes a
   connected peer for good or the cached lists; only a successful attempt or
   a new connection can give them back. *)
Theorem lrun_fails_bounded evs : forall s,
  linv s ->
  hon_run H p c s evs (fun s e => ev_ok H fh parent p c tfilt s e /\
                         match e with ERound d => avail_hdrs H fh c s d | _ => True end) ->
  l_flag (lrun H c s evs) = 0 ->
  (nfail (louts H c s evs) + phi (lrun H c s evs) <=
   phi s + nsucc (louts H c s evs) + nconnect evs)%nat.
Proof.
  induction evs as [|e evs IH]; intros s Hinv Hrun Hflag; [cbn; lia|].
  cbn [lrun fold_left] in *. destruct Hrun as [[[Hwf Hhon] Hav] Hrun].
  pose proof (lrun_flag_zero H c evs _ Hflag) as Hf1.
  pose proof (lstep_inv H fh H_inj parent g p c tfilt s e Hinv Hwf Hhon Hf1) as Hinv1.
  specialize (IH _ Hinv1 Hrun Hflag). unfold lrun, nconnect in IH.
  destruct e as [h xs syn|q|q|d]; cbn [louts nconnect List.filter] in *.
  - change (phi (lstep H c s (EChain h xs syn))) with (phi s) in IH. unfold nconnect in *. cbn [List.filter]. lia.
  - assert (phi (lstep H c s (EConnect q)) <= phi s + 1)%nat.
    { cbn [lstep]. destruct (_ || _); unfold phi; cbn; [lia|]. rewrite app_length. cbn. lia. }
    unfold nconnect in *. cbn [List.filter length]. lia.
  - assert (phi (lstep H c s (ELeave q)) <= phi s)%nat.
    { cbn [lstep]. unfold phi. cbn.
      pose proof (filter_len_le (fun q0 => negb (q0 =? q)) (l_conn s)). lia. }
    unfold nconnect in *. cbn [List.filter]. lia.
  - cbn [lstep] in *. destruct (round H c s d) as [s1 o] eqn:Er. cbn [fst snd] in *.
    pose proof (round_phi s d s1 o Hinv Hhon Hav Er Hf1) as Hp.
    unfold nfail, nsucc in *. cbn [List.filter].
    destruct (is_fail o) eqn:Ef.
    + assert (is_succ o = false) as ->.
      { unfold is_fail, is_succ in *. lia. }
      cbn [length]. unfold nconnect in *. cbn [List.filter]. lia.
    + destruct (is_succ o); cbn [length]; unfold nconnect in *; cbn [List.filter]; lia.
Qed.

End G.

(* ---------- the checkpointed fetch commits what the honest peer delivers ---------- *)
Section F.
Variable H : Z -> Z -> Z.
Variable fh : Z -> Z.
Hypothesis H_inj : forall a b a' b', H a b = H a' b' -> a = a' /\ b = b'.
Hypothesis H_nz : forall a b, H a b <> 0.

Notation thdrs := (thdrs H fh).
Notation thd := (thd H fh).
Notation committed_true := (committed_true H fh).
Notation cps_true := (cps_true H fh).
Notation hdr := (hdr H fh).

(* every tip header the sequential writer produces is a true header above
   the filter tip it started from *)
Lemma seq_write_tips genesis bl cps qs ars :
  NoDup bl -> zlen bl < 1000000 -> cps_true bl cps -> genesis = thd bl 0 -> zlen qs < 1000000 ->
  (forall ci stop, In (ci, stop) qs ->
     0 <= ci < zlen cps /\ zget bl (Z.min (ci + CPQ) (zlen cps) * INTERVAL) = Some stop) ->
  forall fuel first a curHdr curH iv sa tips sp,
    abl a = bl -> committed_true a ->
    seq_write H fuel (fv H genesis cps qs ars) first a curHdr curH iv = (sa, tips, sp) ->
    forall t, In t tips -> exists k : nat, (length (afl a) <= k < length bl)%nat /\ t = hdr bl k.
Proof.
  intros Hnd Hlen Hcps Hgen Hql Hqs. induction fuel as [|fuel IH];
    intros first a curHdr curH iv sa tips sp Hbl Hct Hs t Ht; cbn [seq_write] in Hs.
  { injection Hs as _ <- _. destruct Ht. }
  destruct (fv H genesis cps qs ars iv) as [r|] eqn:Efv; [|injection Hs as _ <- _; destruct Ht].
  cbv zeta in Hs.
  match type of Hs with context [awrite_cf H a ?X] => set (rr := X) in *;
    destruct (awrite_cf H a rr) as [a1 [[hd ht]|]] eqn:Ew end; [|injection Hs as _ <- _; destruct Ht].
  destruct (seq_write H fuel (fv H genesis cps qs ars) false a1 hd ht (ht / INTERVAL)) as [[a2 t2] p2] eqn:Es.
  injection Hs as _ <- _.
  (* the entry comes from a delivered answer, which is true *)
  destruct (fv_Some H genesis cps qs Hql _ _ _ Efv) as (ar & stop & Hin & Hdl & -> & Hz & _).
  pose proof Hz as Hz0. apply zget_Some in Hz0 as [_ Hz0]; [|exact Hql].
  apply elem_of_list_lookup_2, elem_of_list_In in Hz0. destruct (Hqs _ _ Hz0) as [Hci Hstop].
  destruct (delivered_true H fh H_inj genesis bl cps qs ar iv stop Hnd Hlen Hcps Hgen Hz Hci Hstop Hdl)
    as (Hst & Hh & Hix & Hsn & Hs1).
  assert (Hgood : exists k0 : nat, m_hashes rr = drop k0 (List.map fh (take (Z.to_nat ((Z.min (iv + CPQ) (zlen cps) - iv) * INTERVAL)) (drop (Z.to_nat (iv * INTERVAL + 1)) bl))) /\ m_stop rr = stop).
  { unfold rr. destruct first.
    - eexists. unfold trim. cbn [m_hashes m_stop]. split; [by rewrite Hh|done].
    - exists 0%nat. cbn [drop]. split; [exact Hh|done]. }
  destruct Hgood as (k0 & Hrh & Hrs).
  rewrite <- Hbl in Hnd, Hlen.
  destruct (write_true H fh a rr a1 (hd, ht) (Z.to_nat (iv * INTERVAL + 1))
              (Z.to_nat ((Z.min (iv + CPQ) (zlen cps) - iv) * INTERVAL)) k0 Hnd Hlen Hct Ew Hs1) as [Hct1 Hbl1].
  { rewrite Hbl. exact Hrh. }
  { rewrite Hbl, Hrs. exact Hix. }
  { rewrite Hbl. exact Hsn. }
  destruct (awrite_cf_ok H _ _ _ _ _ Ew) as (_ & Hfl & _ & Hne & _ & _ & Hhd).
  assert (Hgrow : (length (afl a) < length (afl a1))%nat).
  { rewrite Hfl, app_length, chain_from_length. destruct (m_hashes rr); [done|cbn; lia]. }
  destruct Ht as [<-|Ht].
  - (* the header returned is the last one written *)
    destruct Hct1 as [[Hl1 Hl2] Htr1]. rewrite Hbl1, Hbl in *.
    exists (length (afl a1) - 1)%nat. split; [lia|].
    rewrite Hhd, Htr1, last_lookup, take_length, thdrs_length.
    replace (length (afl a1) `min` length bl)%nat with (length (afl a1)) by lia.
    rewrite lookup_take by lia. rewrite thdrs_lookup by lia. cbn. f_equal. lia.
  - destruct (IH false a1 hd ht (ht / INTERVAL) a2 t2 p2 ltac:(congruence) Hct1 Es t Ht) as (k & Hk & ->).
    exists k. split; [lia|done].
Qed.

(* With true checkpoints that reach beyond the filter tip, a run without
   panic in which the true answer to the first request arrives commits at
   least the first request's range. *)
Lemma checkpointed_commits genesis a cps ars bans a' :
  NoDup (abl a) -> zlen (abl a) < 1000000 -> committed_true a ->
  cps_true (abl a) cps -> genesis = thd (abl a) 0 ->
  (zlen (afl a) - 1) / INTERVAL < zlen cps ->
  get_checkpointed H genesis a cps ars = (bans, a', false) ->
  (exists ar, In ar ars /\ a_q ar = 0 /\ a_reg ar = true /\
     a_msg ar = tmsg H fh (abl a) ((zlen (afl a) - 1) / INTERVAL * INTERVAL + 1)
                     (Z.min ((zlen (afl a) - 1) / INTERVAL + CPQ) (zlen cps) * INTERVAL)) ->
  zlen (afl a) - 1 < Z.min ((zlen (afl a) - 1) / INTERVAL + 2) (zlen cps) * INTERVAL <= zlen (afl a') - 1.
Proof.
  intros Hnd Hlen Hct Hcps Hgen Hsi Hg (ar & Har & Haq & Hreg & Hmsg).
  set (si := (zlen (afl a) - 1) / INTERVAL) in *. set (ncp := zlen cps) in *.
  pose proof Hct as [[HL1 HL2] Htr].
  assert (Hsi0 : 0 <= si /\ si * INTERVAL <= zlen (afl a) - 1 < (si + 1) * INTERVAL).
  { unfold si, INTERVAL, zlen in *. split; [apply Z.div_pos; lia|].
    pose proof (Z.mul_div_le (Z.of_nat (length (afl a)) - 1) 1000 ltac:(lia)).
    pose proof (Z.mul_succ_div_gt (Z.of_nat (length (afl a)) - 1) 1000 ltac:(lia)). lia. }
  split; [unfold INTERVAL in *; lia|].
  destruct (last (afl a)) as [curHdr|] eqn:El.
  2:{ apply last_None in El. rewrite El in HL1. cbn in HL1. lia. }
  (* the requests *)
  destruct (mk_queries (S (length cps)) a ncp si) as [qs|] eqn:Eq.
  2:{ unfold get_checkpointed in Hg. rewrite El in Hg. cbv zeta in Hg. fold si ncp in Hg. rewrite Eq in Hg. discriminate. }
  pose proof Eq as Eq0. cbn [mk_queries] in Eq0.
  replace (si <? ncp) with true in Eq0 by lia.
  destruct (zget (abl a) (Z.min (si + CPQ) ncp * INTERVAL)) as [stop0|] eqn:Ez0; [|discriminate].
  destruct (mk_queries (length cps) a ncp (Z.min (si + CPQ) ncp)) as [qr|]; [|discriminate].
  injection Eq0 as Eqs.
  assert (Hq0 : qs !! 0%nat = Some (si, stop0)) by (by rewrite <- Eqs).
  destruct (mk_queries_props _ _ _ _ _ Eq) as (Hql & _ & _).
  assert (Hcl : ncp < 1000) by (destruct Hcps as [Hc _]; unfold ncp, INTERVAL in *; lia).
  assert (Hqlen : zlen qs < 1000000). { unfold ncp in *. unfold zlen in *. lia. }
  assert (Hqs : forall ci stop, In (ci, stop) qs ->
            0 <= ci < zlen cps /\ zget (abl a) (Z.min (ci + CPQ) (zlen cps) * INTERVAL) = Some stop).
  { intros ci stop Hin. destruct (mk_queries_stop _ _ _ _ _ Eq _ _ Hin) as [Hc Hz]. fold ncp. split; [lia|exact Hz]. }
  assert (Hz0 : zget qs (a_q ar) = Some (si, stop0)).
  { rewrite Haq. apply zget_Some; [exact Hqlen|]. split; [|exact Hq0]. rewrite <- Eqs. unfold zlen. cbn. lia. }
  destruct (honest_arrival_delivered H fh genesis (abl a) cps qs ar si stop0 Hlen Hcps Hgen Hz0 ltac:(fold ncp; lia)
              Ez0 Hreg Hmsg) as [Hdl _].
  pose proof (checkpointed_complete H genesis a cps ars bans a' curHdr qs 0 si stop0 Hlen El Eq Hg) as HC.
  unfold CPQ in *. apply HC; [|exact Hq0|].
  - (* no header written equals the header of the tip at the start *)
    destruct (seq_write H (S (length cps)) (fv H genesis cps qs ars) true a curHdr (zlen (afl a) - 1)
                ((zlen (afl a) - 1) / INTERVAL)) as [[sa tips] sp] eqn:Es. cbn [fst snd].
    intros Hin.
    destruct (seq_write_tips genesis (abl a) cps qs ars Hnd Hlen Hcps Hgen Hqlen Hqs _ _ _ _ _ _ _ _ _
                eq_refl Hct Es curHdr Hin) as (k & Hk & Hck).
    rewrite Htr, last_lookup, take_length, thdrs_length in El.
    replace (length (afl a) `min` length (abl a))%nat with (length (afl a)) in El by lia.
    rewrite lookup_take in El by lia. rewrite thdrs_lookup in El by lia. injection El as El.
    rewrite <- El in Hck. apply (hdr_inj H fh H_inj H_nz) in Hck; lia.
  - intros k Hk. assert (k = 0%nat) as -> by lia. unfold first_ok. intros Hnone.
    pose proof (find_none _ _ Hnone ar Har) as Hf. cbn beta in Hf. rewrite Haq, Hdl in Hf. discriminate.
Qed.

End F.

(* ---------- a successful attempt commits ---------- *)
Section G2.
Variable H : Z -> Z -> Z.
Variable fh : Z -> Z.
Hypothesis H_inj : forall a b a' b', H a b = H a' b' -> a = a' /\ b = b'.
Hypothesis H_nz : forall a b, H a b <> 0.
Variable parent : Z -> Z.
Variable g : Z.
Variable p : Z.
Variable c : lcfg.
Variable tfilt : Z -> Z.

Notation tcps := (tcps H fh).
Notation linv := (linv H fh parent g p c).

(* When the attempt found a list that reaches beyond the interval of the
   filter tip, the fetch did not panic, and an answer of the honest peer to
   the first request arrived, at least one filter header was committed. *)
Lemma round_commits s d s' asked bans :
  linv s -> hon_round H fh p c tfilt s d -> eff_phase s <> PTip ->
  round H c s d = (s', (3, asked, bans)) -> l_flag s' = 0 -> INTERVAL <= tipH s ->
  (forall x l, snd (resolve_of H c s (tipH s) (tipX s) d) = Some (x :: l) ->
               flen2 (l_a s) / INTERVAL < zlen (x :: l)) ->
  (exists ar, In ar (d_ars d) /\ a_peer ar = p /\ a_q ar = 0) ->
  flen2 (l_a s) < flen2 (l_a s').
Proof.
  intros Hinv (Hconn & Hcp & Hhd & Har & Hhard) Hph Hr Hflag Ht Hlong (ar & Harin & Hpeer & Haq).
  pose proof Hinv as [[Hnd Hlen] Hpar Hhead Htrue Hgen Hnb Hcb Hcache Hleg Hcpn Hphase].
  unfold round in Hr. destruct (l_panic s); [discriminate|].
  change (match l_ph s with PDecide => decide_ph s | ph => ph end) with (eff_phase s) in Hr.
  assert (Hw : wait_round H c s d = (s', (3, asked, bans))).
  { destruct (eff_phase s) as [|lh lx| |] eqn:Eph; try done. by destruct (eff_phase_retry H fh parent g p c s lh lx Hinv). }
  clear Hr. unfold wait_round in Hw.
  destruct (negb (wait_cond s)); [discriminate|].
  change (hlen (l_a s)) with (tipH s) in Hw. replace (tipH s <? INTERVAL) with false in Hw by lia.
  unfold attempt in Hw. change (default 0 (last (abl (l_a s)))) with (tipX s) in *.
  pose proof (attempt_with_flag H c _ _ _ _ _ _ _ _ _ _ _ Hw) as Hfl. rewrite Hflag in Hfl. symmetry in Hfl.
  pose proof (stale_flag_zero c _ _ _ Hcpn Hfl) as Hfresh.
  pose proof (lists_iff H fh parent g p c s d Hinv Hcp Ht Hfresh) as Hiff.
  unfold attempt_with in Hw. rewrite Hleg in Hw.
  destruct (_ && _); [discriminate|].
  destruct (resolve_of H c s (tipH s) (tipX s) d) as [bans0 res] eqn:ER.
  cbn [do_ban l_conn l_banned] in Hw.
  destruct res as [[|x l]|]; [discriminate| |discriminate].
  destruct (resolve_good H fh parent g p c tfilt s d _ bans0 x l Hinv Hhd Hhard Hph Ht eq_refl Hiff ER) as [Hgood Hpb].
  destruct (get_checkpointed H (c_genesis c) (l_a s) (x :: l) _) as [[bans2 a'] pan] eqn:EG.
  cbn [do_ban l_conn l_banned] in Hw. destruct pan; [discriminate|]. injection Hw as <- _ _. cbn [l_a].
  specialize (Hlong x l eq_refl). unfold flen2 in *.
  set (a := l_a s) in *.
  (* the requests, to know what the honest peer was asked *)
  destruct (mk_queries (S (length (x :: l))) a (zlen (x :: l)) ((zlen (afl a) - 1) / INTERVAL)) as [qs|] eqn:Eq.
  2:{ unfold get_checkpointed in EG. destruct (last (afl a)); [|discriminate]. cbv zeta in EG.
      rewrite Eq in EG. discriminate. }
  pose proof Eq as Eq0. cbn [mk_queries] in Eq0.
  replace ((zlen (afl a) - 1) / INTERVAL <? zlen (x :: l)) with true in Eq0 by lia.
  destruct (zget (abl a) _) as [stop0|] eqn:Ez0 in Eq0; [|discriminate].
  destruct (mk_queries _ a _ _) as [qr|] in Eq0; [|discriminate]. injection Eq0 as Eqs.
  destruct (mk_queries_props _ _ _ _ _ Eq) as (Hql & _ & _).
  assert (Hcl : zlen (x :: l) < 1000) by (destruct Hgood as [Hc _]; unfold INTERVAL in Hc; fold a in Hc; lia).
  assert (Hqlen : zlen qs < 1000000) by (unfold zlen in *; lia).
  assert (Hz0 : zget qs (a_q ar) = Some ((zlen (afl a) - 1) / INTERVAL, stop0)).
  { rewrite Haq. apply zget_Some; [exact Hqlen|]. rewrite <- Eqs. unfold zlen. cbn. split; [lia|done]. }
  destruct (Har x l qs ar _ stop0 _ ltac:(fold a; by rewrite ER) Eq Harin Hpeer Hz0
              (zget_index _ _ _ Hnd (proj2 Hlen) Ez0)) as [Hreg Hmsg].
  pose proof (checkpointed_commits H fh H_inj H_nz (c_genesis c) a (x :: l) _ bans2 a' Hnd (proj2 Hlen) Htrue Hgood Hgen
                Hlong EG) as HC.
  destruct HC as [HC1 HC2]; [|lia]. exists ar. split; [|done].
  apply filter_In. split; [exact Harin|]. rewrite Hpeer. apply mem_In.
  apply filter_In. split; [exact Hconn|]. apply negb_true_iff. by apply mem_false.
Qed.

(* The map's choice falls on the honest peer (one connected peer serves the
   complete true list; others may serve correct but shorter ones, or empty
   ones): a round that finds the filter tip a whole interval behind commits. *)
Lemma round_commits_choice s d s' asked bans :
  linv s -> hon_round H fh p c tfilt s d -> eff_phase s <> PTip ->
  round H c s d = (s', (3, asked, bans)) -> l_flag s' = 0 ->
  flen2 (l_a s) + INTERVAL <= tipH s -> d_hint d = p ->
  (exists ar, In ar (d_ars d) /\ a_peer ar = p /\ a_q ar = 0) ->
  flen2 (l_a s) < flen2 (l_a s').
Proof.
  intros Hinv Hhon Hph Hr Hflag Hlag Hhint Har.
  pose proof Hhon as (Hconn & Hcp & Hhd & _ & Hhard).
  pose proof Hinv as [[Hnd Hlen] Hpar Hhead Htrue Hgen Hnb Hcb Hcache Hleg Hcpn Hphase].
  assert (Hf0 : 0 <= flen2 (l_a s)).
  { destruct Htrue as [[H1 _] _]. unfold flen2, zlen. lia. }
  assert (Ht : INTERVAL <= tipH s) by lia.
  apply (round_commits s d s' asked bans Hinv Hhon Hph Hr Hflag Ht); [|exact Har].
  intros x l Hres.
  (* the flag is clear, so the lists are those of the present chain *)
  assert (Hfresh : fst (lists_of c s (tipH s) (tipX s) d) = true \/ l_cache_bl s = abl (l_a s)).
  { revert Hr. unfold round. destruct (l_panic s); [discriminate|].
    change (match l_ph s with PDecide => decide_ph s | ph => ph end) with (eff_phase s).
    intros Hr.
    assert (Hw : wait_round H c s d = (s', (3, asked, bans))).
    { destruct (eff_phase s) as [|lh lx| |] eqn:Eph; try done.
      by destruct (eff_phase_retry H fh parent g p c s lh lx Hinv). }
    unfold wait_round in Hw. destruct (negb (wait_cond s)); [discriminate|].
    change (hlen (l_a s)) with (tipH s) in Hw. replace (tipH s <? INTERVAL) with false in Hw by lia.
    unfold attempt in Hw. change (default 0 (last (abl (l_a s)))) with (tipX s) in *.
    pose proof (attempt_with_flag H c _ _ _ _ _ _ _ _ _ _ _ Hw) as Hfl. rewrite Hflag in Hfl. symmetry in Hfl.
    exact (stale_flag_zero c _ _ _ Hcpn Hfl). }
  pose proof (lists_iff H fh parent g p c s d Hinv Hcp Ht Hfresh) as Hiff.
  destruct (resolve_of H c s (tipH s) (tipX s) d) as [bans0 res] eqn:ER. cbn [snd] in Hres. subst res.
  rewrite (resolve_choice H fh parent g p c tfilt s d _ bans0 (x :: l) Hinv Hhd Hhard Hph Ht eq_refl Hiff ER Hhint).
  rewrite tcps_length by (unfold tipH, hlen in *; lia). unfold INTERVAL in *.
  assert (flen2 (l_a s) / 1000 + 1 <= tipH s / 1000).
  { replace (flen2 (l_a s) / 1000 + 1) with ((flen2 (l_a s) + 1 * 1000) / 1000) by (rewrite Z.div_add by lia; lia).
    apply Z.div_le_mono; lia. }
  lia.
Qed.

End G2.

(* ---------- round-level progress ---------- *)
Section G3.
Variable H : Z -> Z -> Z.
Variable fh : Z -> Z.
Hypothesis H_inj : forall a b a' b', H a b = H a' b' -> a = a' /\ b = b'.
Variable parent : Z -> Z.
Variable g : Z.
Variable p : Z.
Variable c : lcfg.
Variable tfilt : Z -> Z.
Notation linv := (linv H fh parent g p c).

(* Every round of the checkpoint phase that has something to do finds a
   checkpoint list (and runs the fetch), or bans a peer that is connected or
   whose list was cached - never the honest one - and forgets the lists. *)
Lemma round_progress s d s' code asked bans :
  linv s -> hon_round H fh p c tfilt s d -> avail_hdrs H fh c s d -> eff_phase s <> PTip ->
  round H c s d = (s', (code, asked, bans)) -> l_flag s' = 0 ->
  code = 0 \/ code = 3 \/ code = 6 \/
  (code = 2 /\ l_cache s' = [] /\ ~ In p bans /\
   exists q, In q bans /\ (In q (l_conn s) \/ In q (List.map fst (l_cache s)))).
Proof.
  intros Hinv Hhon Hav Hph Hr Hflag.
  pose proof (round_inv H fh H_inj parent g p c tfilt s d s' _ Hinv Hhon Hr Hflag) as Hinv'.
  destruct Hhon as (Hconn & Hcp & Hhd & Har & Hhard).
  unfold round in Hr. destruct (l_panic s); [injection Hr as _ <- _ _; tauto|].
  change (match l_ph s with PDecide => decide_ph s | ph => ph end) with (eff_phase s) in Hr.
  assert (Hw : wait_round H c s d = (s', (code, asked, bans))).
  { destruct (eff_phase s) as [|lh lx| |] eqn:Eph; try done. by destruct (eff_phase_retry H fh parent g p c s lh lx Hinv). }
  clear Hr. unfold wait_round in Hw.
  destruct (negb (wait_cond s)); [injection Hw as _ <- _ _; tauto|].
  destruct (hlen (l_a s) <? INTERVAL) eqn:El; [injection Hw as _ <- _ _; tauto|].
  unfold attempt in Hw. change (hlen (l_a s)) with (tipH s) in *.
  change (default 0 (last (abl (l_a s)))) with (tipX s) in *.
  pose proof (attempt_with_flag H c _ _ _ _ _ _ _ _ _ _ _ Hw) as Hfl. rewrite Hflag in Hfl. symmetry in Hfl.
  pose proof (stale_flag_zero c _ _ _ (li_cp _ _ _ _ _ _ _ Hinv) Hfl) as Hfresh.
  assert (Ht : INTERVAL <= tipH s) by lia.
  pose proof (lists_iff H fh parent g p c s d Hinv Hcp Ht Hfresh) as Hiff.
  destruct (attempt_with_progress H fh parent g p c tfilt s d _ _ _ _ _ s' code asked bans Hinv Hhd Hav Hhard Hph Ht eq_refl Hiff Hw)
    as [([-> | ->] & _)|(-> & Hc & Hl & Hbn & q & Hqb & Hqk)]; [tauto|tauto|].
  right. right. right. split; [done|]. split; [done|]. split.
  - intros Hpb. apply (li_notbanned _ _ _ _ _ _ _ Hinv'). rewrite Hbn, in_app_iff. tauto.
  - exists q. split; [done|].
    apply in_map_iff in Hqk as ([q' lq] & Eq & Hqk). cbn in Eq. subst q'.
    apply in_cap in Hqk as (l0 & Hin0 & _ & _).
    unfold lists_of in Hin0. cbn [snd] in Hin0.
    destruct (refetch_cond c s (tipH s) (tipX s)).
    + left. destruct (accept_cp_keys _ _ _ _ _ Hin0) as (r & Hrr & Hrq).
      apply filter_In in Hrr as [_ Hrr]. rewrite Hrq in Hrr. by apply mem_In.
    + right. apply in_map_iff. by exists (q, l0).
Qed.

End G3.
