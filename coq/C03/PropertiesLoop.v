(* C03 — the theorems about the LOOP of cfHandler (model: C03/Loop.v, one
   round = one pass through the body of the handler, the environment acting
   between rounds), and nothing else.

   Vocabulary (LoopSpec.v).  [H] is dsha256(filterHash || prevHeader), [fh b]
   the hash of the true filter of block b: Section variables, with the
   hypotheses stated (collision freedom).  For a block chain bl: [thdrs bl]
   its true filter headers, [tcps bl h] its true filter checkpoints up to
   height h, [tmsg bl s e] the true cfheaders for the heights s..e.  A peer p
   is HONEST in a round ([hon_round]) when it is connected and whatever the
   round asks of it is answered with the truth FOR THE BLOCK CHAIN OF THAT
   MOMENT: the getcfcheckpt broadcast if the round sends one (hon_cp), the
   getcfheaders broadcast the round sends (hon_hdrs; every index asked being in
   the class of the property, Proofs.good_idx: the lies of the others are
   refutable from filter and block), its answers at the query dispatcher
   (hon_arrs); and the true checkpoints pass the hard-coded table.  The other
   peers, the order and number of answers, the dispatcher's arrivals, the
   choices among map elements are arbitrary.  [ev_ok]: that, in every round,
   and every chain event (rollBackToHeight to ANY height >= 0 followed by an
   append of any length: the new tip may be higher, as high or LOWER) leaves a
   chain of distinct blocks shorter than 1,000,000 in which every block names
   its predecessor ([parent] = PrevBlock of a header: a block hash names one
   chain down to the genesis block [g]).  [linit a conn syn]: the handler starts with block chain / filter
   chain [a], peers [conn], no cached lists. *)
From stdpp Require Import gmap list.
From Coq Require Import ZArith Lia.
From Verif Require Import S1.Model C07.Spec C03.Model C03.Spec C03.Proofs C03.ProofsU C03.ProofsR C03.ProofsC
     C03.Loop C03.LoopSpec C03.LoopTruth C03.LoopProofs C03.LoopProofsR C03.LoopProofsT C03.LoopProofsG
     C03.LoopWitness C03.LoopExample.
Open Scope Z_scope.

(* ===================== (a), (b): safety of every run ===================== *)

(* For EVERY run of the handler loop - any number of rounds, any chains, any
   peers and behaviours, growth and reorganisations of ANY depth to ANY
   height (higher, equal, lower) between the rounds, also between the caching
   of the checkpoint lists and the round that uses them, peers connecting and
   leaving - in which p is honest: p is not banned by any round, and the
   committed filter chain is exactly the true filter headers of a prefix of
   the current block chain (what the rounds committed is the honest value;
   what a reorganisation disconnected is gone). *)
Theorem C03_loop_honest_never_banned : forall H fh,
  (forall a b a' b', H a b = H a' b' -> a = a' /\ b = b') ->
  forall parent g p c tfilt a conn syn evs,
  wf_chain (abl a) -> parent_ok parent (abl a) -> head (abl a) = Some g ->
  committed_true H fh a -> c_genesis c = thd H fh (abl a) 0 ->
  c_legacy c = false -> c_height_only c = false -> c_cp c = None ->
  hon_run H p c (linit a conn syn) evs (ev_ok H fh parent p c tfilt) ->
  let s' := lrun H c (linit a conn syn) evs in
  ~ In p (l_banned s') /\ committed_true H fh (l_a s').
Proof.
  intros H fh Hinj parent g p c tfilt a conn syn evs Hwf Hpo Hhd Hct Hg Hl Ho Hc Hrun s'.
  destruct (linit_inv H fh parent g p c tfilt a conn syn Hwf Hpo Hhd Hct Hg Hl Hc) as (Hinv & Hf0).
  destruct (lrun_safe H fh Hinj parent g p c tfilt evs _ Hinv Ho Hf0 Hrun) as (Hinv' & _).
  split; [exact (li_notbanned _ _ _ _ _ _ _ Hinv')|exact (li_true _ _ _ _ _ _ _ Hinv')].
Qed.
Print Assumptions C03_loop_honest_never_banned.

(* The freshness condition the proof needs: cached checkpoint lists are used
   only for the chain they were fetched for (ghost flag 21 marks a use for
   another chain).  The re-query test of the code - fetch again when
   minCheckpointHeight(lists) < lastHeight OR the stop hash the lists were
   fetched for is not the stop hash of now - establishes it in every run: a
   hash names one chain. *)
Theorem C03_loop_lists_never_stale : forall H fh,
  (forall a b a' b', H a b = H a' b' -> a = a' /\ b = b') ->
  forall parent g p c tfilt a conn syn evs,
  wf_chain (abl a) -> parent_ok parent (abl a) -> head (abl a) = Some g ->
  committed_true H fh a -> c_genesis c = thd H fh (abl a) 0 ->
  c_legacy c = false -> c_height_only c = false -> c_cp c = None ->
  hon_run H p c (linit a conn syn) evs (ev_ok H fh parent p c tfilt) ->
  l_flag (lrun H c (linit a conn syn) evs) = 0.
Proof.
  intros H fh Hinj parent g p c tfilt a conn syn evs Hwf Hpo Hhd Hct Hg Hl Ho Hc Hrun.
  destruct (linit_inv H fh parent g p c tfilt a conn syn Hwf Hpo Hhd Hct Hg Hl Hc) as (Hinv & Hf0).
  by destruct (lrun_safe H fh Hinj parent g p c tfilt evs _ Hinv Ho Hf0 Hrun) as (_ & Hf).
Qed.
Print Assumptions C03_loop_lists_never_stale.

(* Whatever the re-query test (also the test by height alone, the code before
   the repair F110: [c_height_only c = true]): safety holds for every run in
   which the flag stays clear. *)
Theorem C03_loop_safe_unless : forall H fh,
  (forall a b a' b', H a b = H a' b' -> a = a' /\ b = b') ->
  forall parent g p c tfilt a conn syn evs,
  wf_chain (abl a) -> parent_ok parent (abl a) -> head (abl a) = Some g ->
  committed_true H fh a -> c_genesis c = thd H fh (abl a) 0 ->
  c_legacy c = false -> c_cp c = None ->
  hon_run H p c (linit a conn syn) evs (ev_ok H fh parent p c tfilt) ->
  let s' := lrun H c (linit a conn syn) evs in
  l_flag s' = 0 ->
  ~ In p (l_banned s') /\ committed_true H fh (l_a s').
Proof.
  intros H fh Hinj parent g p c tfilt a conn syn evs Hwf Hpo Hhd Hct Hg Hl Hc Hrun s' Hf.
  destruct (linit_inv H fh parent g p c tfilt a conn syn Hwf Hpo Hhd Hct Hg Hl Hc) as (Hinv & _).
  pose proof (lrun_inv H fh Hinj parent g p c tfilt evs _ Hinv Hrun Hf) as Hinv'.
  split; [exact (li_notbanned _ _ _ _ _ _ _ Hinv')|exact (li_true _ _ _ _ _ _ _ Hinv')].
Qed.
Print Assumptions C03_loop_safe_unless.

(* Why the stop hash is needed (F110, repaired): with the test by height
   alone the property is REFUTED.  Two honest peers; the first checkpointed
   fetch times out; blocks 999-1000 are replaced by a branch that ends at the
   same height 1000; minCheckpointHeight = 1000 is not below 1000, the lists
   of the old branch are used again (flag 21, no getcfcheckpt sent) and both
   honest peers are banned, nothing is committed.  The repaired code sends
   getcfcheckpt for the new tip 900002, bans nobody and commits the interval;
   the height test alone is enough when the new branch is longer. *)
Theorem C03_loop_stale_lists_refuted :
  abl (chain_event W.a0 998 [900001; 900002]) = W.chainB /\
  W.summary (lrun W.wH (W.cfg true) (linit W.a0 [1; 2] false) W.evs_f110) = (21, [1; 2], 0, 1000) /\
  louts W.wH (W.cfg true) (linit W.a0 [1; 2] false) W.evs_f110 = [(3, Some 1100, []); (3, None, [1; 2])] /\
  W.summary (lrun W.wH (W.cfg false) (linit W.a0 [1; 2] false) W.evs_f110) = (0, [], 1000, 1000) /\
  louts W.wH (W.cfg false) (linit W.a0 [1; 2] false) W.evs_f110 = [(3, Some 1100, []); (3, Some 900002, [])] /\
  W.summary (lrun W.wH (W.cfg true) (linit W.a0 [1; 2] false) W.evs_f110_longer) = (0, [], 1000, 1001).
Proof.
  exact (conj (proj1 W.f110_run) (conj (proj1 (proj2 W.f110_run)) (conj (proj2 (proj2 W.f110_run))
          (conj (proj1 W.f110_fixed_run) (conj (proj2 W.f110_fixed_run) (proj2 W.f110_longer_run)))))).
Qed.
Print Assumptions C03_loop_stale_lists_refuted.

(* ===================== (c): progress ===================== *)

(* Every round of the checkpoint phase that has something to do finds a
   checkpoint list and runs the fetch (3; 6 if the fetch panics), or bans a
   peer that is connected or owns a cached list - never the honest one - and
   forgets the cached lists (the next attempt asks the peers still connected).
   Additional hypotheses (avail_hdrs): header, block and filters of the
   heights asked are available, and no accepted cfheaders answer lies about
   the previous filter header (that peer is not identified by the code). *)
Theorem C03_loop_round_progress : forall H fh,
  (forall a b a' b', H a b = H a' b' -> a = a' /\ b = b') ->
  forall parent g p c tfilt s d s' code asked bans,
  linv H fh parent g p c s -> hon_round H fh p c tfilt s d -> avail_hdrs H fh c s d -> eff_phase s <> PTip ->
  round H c s d = (s', (code, asked, bans)) -> l_flag s' = 0 ->
  code = 0 \/ code = 3 \/ code = 6 \/
  (code = 2 /\ l_cache s' = [] /\ ~ In p bans /\
   exists q, In q bans /\ (In q (l_conn s) \/ In q (List.map fst (l_cache s)))).
Proof. exact round_progress. Qed.
Print Assumptions C03_loop_round_progress.

(* ... so the number of failed attempts of a run is bounded: with phi = number
   of connected peers (+1 while lists are cached), failed attempts + phi at
   the end <= phi at the start + successful attempts + new connections.  In
   particular a stretch of rounds without a successful attempt and without
   new connections contains at most (number of connected peers + 1) failed
   attempts: the livelock of F112 is gone. *)
Theorem C03_loop_failed_attempts_bounded : forall H fh,
  (forall a b a' b', H a b = H a' b' -> a = a' /\ b = b') ->
  forall parent g p c tfilt evs s,
  linv H fh parent g p c s ->
  hon_run H p c s evs (fun s e => ev_ok H fh parent p c tfilt s e /\
                         match e with ERound d => avail_hdrs H fh c s d | _ => True end) ->
  l_flag (lrun H c s evs) = 0 ->
  (nfail (louts H c s evs) + phi (lrun H c s evs) <=
   phi s + nsucc (louts H c s evs) + nconnect evs)%nat.
Proof. exact lrun_fails_bounded. Qed.
Print Assumptions C03_loop_failed_attempts_bounded.

(* A successful attempt commits: when the list found reaches beyond the
   interval of the filter tip, the fetch does not panic and an answer of the
   honest peer to the first request arrives, the filter tip has moved up.
   (A correct but SHORT list - fewer checkpoints than the filter tip has
   intervals - can be the one the code picks among agreeing lists; then there
   is nothing to fetch: hypothesis.  No-panic of the fetch is a hypothesis:
   code 3.) *)
Theorem C03_loop_success_commits : forall H fh,
  (forall a b a' b', H a b = H a' b' -> a = a' /\ b = b') -> (forall a b, H a b <> 0) ->
  forall parent g p c tfilt s d s' asked bans,
  linv H fh parent g p c s -> hon_round H fh p c tfilt s d -> eff_phase s <> PTip ->
  round H c s d = (s', (3, asked, bans)) -> l_flag s' = 0 -> INTERVAL <= tipH s ->
  (forall x l, snd (resolve_of H c s (tipH s) (tipX s) d) = Some (x :: l) ->
               flen2 (l_a s) / INTERVAL < zlen (x :: l)) ->
  (exists ar, In ar (d_ars d) /\ a_peer ar = p /\ a_q ar = 0) ->
  flen2 (l_a s) < flen2 (l_a s').
Proof. exact round_commits. Qed.
Print Assumptions C03_loop_success_commits.

(* Lists of different lengths.  The code caps every served list at the tip by
   itself (a list capped to nothing is dropped), compares the lists entry by
   entry as far as each of them goes, and takes ONE of the agreeing lists -
   whichever the map iteration yields first ([d_hint]) - as it is: a correct
   but shorter list ("lazy" peer: a prefix of the true list) can be the one
   taken in a round, then that round commits only as far as it reaches.  The
   hypothesis about the honest peer is that SOME connected peer - p - serves
   the complete true list, not that all lists are equally long: whenever the
   choice falls on p, a round that finds the filter tip a whole interval
   behind commits (at least the first request's range, when p's answer to it
   arrives and the fetch does not panic), whatever shorter or empty lists
   the other peers served.  (That the choice falls on every agreeing list
   now and then is the map's randomisation: sampled, the monitor rejects 24
   fetch rounds in a row without progress.) *)
Theorem C03_loop_complete_list_commits : forall H fh,
  (forall a b a' b', H a b = H a' b' -> a = a' /\ b = b') -> (forall a b, H a b <> 0) ->
  forall parent g p c tfilt s d s' asked bans,
  linv H fh parent g p c s -> hon_round H fh p c tfilt s d -> eff_phase s <> PTip ->
  round H c s d = (s', (3, asked, bans)) -> l_flag s' = 0 ->
  flen2 (l_a s) + INTERVAL <= tipH s -> d_hint d = p ->
  (exists ar, In ar (d_ars d) /\ a_peer ar = p /\ a_q ar = 0) ->
  flen2 (l_a s) < flen2 (l_a s').
Proof. exact round_commits_choice. Qed.
Print Assumptions C03_loop_complete_list_commits.

(* The flag hypothesis [l_flag s' = 0] of the three progress theorems holds
   in every run of the repaired code (C03_loop_lists_never_stale).
   F111, F112 (repaired; no theorem kept about the old code): the model has
   the code before the repair as [c_legacy := true] (the retry loop keeps the
   tip it read first - PRetry - and the cached lists); the corpus histories
   corpus/C03/loop-f111-*.json and loop-f112-*.json, replayed with
   ReplayLoop.run_lcases_with true against the unrepaired handler, showed the
   two livelocks (same stop hash asked for ever / same peer banned for ever);
   C03_loop_failed_attempts_bounded is what the repaired code satisfies. *)

(* ===================== requests fit a message ===================== *)

(* Every getcfheaders request the model issues can be answered by a
   conforming peer: it spans at most MAXCFH = wire.MaxCFHeadersPerMsg = 2000
   headers (a cfheaders message cannot hold more; btcd does not answer a
   longer request).  (1) the broadcast of getCFHeadersForAllPeers, for every
   view of the stores; (2) on the two lists: it asks for the n <= 2000 headers
   h .. h+n-1 with n = min(2000, tip - h + 1), its stop hash is the block at
   height h+n-1; (3) the requests
   of the checkpointed fetch: request (ci, stop) asks for the heights
   ci*1000+1 .. min(ci+2, ncp)*1000, at most 2000. *)
Theorem C03_getcfheaders_requests_fit_a_message :
  (forall v h stop n, cf_range v h = Some (stop, n) -> 0 <= n <= MAXCFH) /\
  (forall a h stop n, abl a <> [] -> zlen (abl a) < 1000000 -> 0 <= h <= hlen a ->
     cf_range (aview a) h = Some (stop, n) ->
     1 <= n <= MAXCFH /\ zget (abl a) (h + n - 1) = Some stop /\
     n = Z.min MAXCFH (hlen a - h + 1)) /\
  (forall fuel a ncp cur qs ci stop, mk_queries fuel a ncp cur = Some qs -> In (ci, stop) qs ->
     cur <= ci < ncp /\ zget (abl a) (Z.min (ci + CPQ) ncp * INTERVAL) = Some stop /\
     1 <= Z.min (ci + CPQ) ncp * INTERVAL - (ci * INTERVAL + 1) + 1 <= MAXCFH).
Proof.
  split; [exact ProofsU.cf_range_bound|]. split.
  - intros a h stop n Hne Hlen Hh Hc.
    destruct (cf_range_aview a h Hne Hlen Hh) as (stop' & n' & Hc' & Hn & He & Hz & Hfull).
    rewrite Hc in Hc'. injection Hc' as <- <-. split; [done|]. split; [done|].
    unfold MAXCFH in *. lia.
  - intros fuel a ncp cur qs ci stop Hq Hin.
    destruct (mk_queries_stop a ncp fuel cur qs Hq ci stop Hin) as [Hc Hz].
    split; [done|]. split; [done|]. unfold CPQ, INTERVAL, MAXCFH. lia.
Qed.
Print Assumptions C03_getcfheaders_requests_fit_a_message.

(* The hypotheses about a run are met by a concrete one: 1002 block headers,
   one honest peer; the handler asks for the checkpoints, finds the list,
   fetches the interval: 1000 true filter headers committed, nobody banned,
   flag clear.  (The hash function of the example is a toy; collision
   freedom of H is the usual hypothesis about dsha256.) *)
Example C03_loop_nonvacuous :
  (wf_chain (abl X.aS) /\ committed_true W.wH W.wfh X.aS /\ c_genesis X.cS = thd W.wH W.wfh (abl X.aS) 0) /\
  (parent_ok X.parS (abl X.aS) /\ head (abl X.aS) = Some 100) /\
  hon_run W.wH 1 X.cS X.sS [ERound X.dS] (ev_ok W.wH W.wfh X.parS 1 X.cS (fun _ => 0)) /\
  W.summary (lrun W.wH X.cS X.sS [ERound X.dS]) = (0, [], 1000, 1001).
Proof. exact (conj X.init_S (conj X.parent_S (conj (conj (conj I X.hon_S) I) X.run_S))). Qed.
Print Assumptions C03_loop_nonvacuous.
