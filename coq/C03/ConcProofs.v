(* C03 / ConcProofs — the interleaving model keeps the C03 store predicates
   under EVERY schedule as long as the two critical windows do not overlap
   (ghost code [fl] = 0), and under the mutex of the repair they never do. *)
From Coq Require Import ZArith List Bool Lia PeanoNat.
Import ListNotations.
From Verif Require Import C03.Conc C03.ConcSpec.
Open Scope Z_scope.

Definition d0 : blk := {| bid := 0; bprev := 0 |}.

(* ================= lists ================= *)

Lemma ids_app a b : ids (a ++ b) = ids a ++ ids b.
Proof. apply map_app. Qed.
Lemma ids_length a : length (ids a) = length a.
Proof. apply map_length. Qed.
Lemma ids_firstn n a : ids (firstn n a) = firstn n (ids a).
Proof. unfold ids. symmetry. apply firstn_map. Qed.

Lemma removelast_firstn_len {A} (l : list A) : removelast l = firstn (length l - 1) l.
Proof.
  induction l as [|x l IH]; [reflexivity|].
  destruct l as [|y l]; [reflexivity|].
  change (removelast (x :: y :: l)) with (x :: removelast (y :: l)).
  rewrite IH. cbn [length]. replace (S (S (length l)) - 1)%nat with (S (S (length l) - 1)) by lia.
  reflexivity.
Qed.

Lemma removelast_length {A} (l : list A) : length (removelast l) = (length l - 1)%nat.
Proof. rewrite removelast_firstn_len, firstn_length. lia. Qed.

Lemma firstn_firstn_le {A} (l : list A) i j : (i <= j)%nat -> firstn i (firstn j l) = firstn i l.
Proof. intros. rewrite firstn_firstn. f_equal. lia. Qed.

Lemma nth_error_firstn {A} (l : list A) n i : (i < n)%nat -> nth_error (firstn n l) i = nth_error l i.
Proof.
  revert l i. induction n as [|n IH]; intros l i Hi; [lia|].
  destruct l as [|x l]; [destruct i; reflexivity|].
  destruct i as [|i]; [reflexivity|]. cbn. apply IH. lia.
Qed.

Lemma nth_error_firstn_ge {A} (l : list A) n i : (n <= i)%nat -> nth_error (firstn n l) i = None.
Proof. intros. apply nth_error_None. rewrite firstn_length. lia. Qed.

Lemma firstn_S_snoc {A} (l : list A) n x :
  nth_error l n = Some x -> firstn (S n) l = firstn n l ++ [x].
Proof.
  revert l. induction n as [|n IH]; intros [|y l] H; cbn in *; try discriminate.
  - inversion H. reflexivity.
  - rewrite (IH l H). reflexivity.
Qed.

Lemma last_nth_error {A} (l : list A) d : l <> [] -> nth_error l (length l - 1) = Some (last l d).
Proof.
  induction l as [|x l IH]; [congruence|]. intros _.
  destruct l as [|y l]; [reflexivity|].
  change (last (x :: y :: l) d) with (last (y :: l) d).
  cbn [length]. replace (S (S (length l)) - 1)%nat with (S (length (y :: l) - 1)) by (cbn; lia).
  cbn [nth_error]. apply IH. discriminate.
Qed.

Lemma nth_error_nth' {A} (l : list A) n d x : nth_error l n = Some x -> nth n l d = x.
Proof. intros H. apply nth_error_nth. exact H. Qed.

Lemma nth_error_skipn' {A} (l : list A) s i : nth_error (skipn s l) i = nth_error l (s + i).
Proof.
  revert l. induction s as [|s IH]; intros l; [reflexivity|].
  destruct l as [|x l]; [destruct i; reflexivity|]. cbn. apply IH.
Qed.

Lemma skipn_firstn_nth {A} (l : list A) s k i :
  (i < k)%nat -> nth_error (firstn k (skipn s l)) i = nth_error l (s + i).
Proof.
  intros Hi. rewrite nth_error_firstn by exact Hi. apply nth_error_skipn'.
Qed.

Lemma firstn_app_le {A} (a b : list A) n : (n <= length a)%nat -> firstn n (a ++ b) = firstn n a.
Proof.
  intros H. rewrite firstn_app. replace (n - length a)%nat with O by lia.
  cbn. apply app_nil_r.
Qed.

Lemma skipn_app_le {A} (a b : list A) n : (n <= length a)%nat -> skipn n (a ++ b) = skipn n a ++ b.
Proof.
  intros H. rewrite skipn_app. replace (n - length a)%nat with O by lia. reflexivity.
Qed.

Lemma firstn_skipn_app_stable {A} (a b : list A) s k :
  (s + k <= length a)%nat -> firstn k (skipn s (a ++ b)) = firstn k (skipn s a).
Proof.
  intros H. rewrite skipn_app_le by lia. apply firstn_app_le. rewrite skipn_length. lia.
Qed.

(* ================= index_of, tip ================= *)

Lemma index_of_Some x l i : index_of x l = Some i -> exists b, nth_error l i = Some b /\ bid b = x.
Proof.
  revert i. induction l as [|b l IH]; intros i H; [discriminate|]. cbn in H.
  destruct (bid b =? x) eqn:E.
  - inversion H; subst. exists b. split; [reflexivity|]. apply Z.eqb_eq; exact E.
  - destruct (index_of x l) as [j|] eqn:Ej; [|discriminate]. inversion H; subst.
    destruct (IH j eq_refl) as [b' [? ?]]. exists b'. split; assumption.
Qed.

Lemma index_of_lt x l i : index_of x l = Some i -> (i < length l)%nat.
Proof.
  intros H. destruct (index_of_Some _ _ _ H) as [b [Hb _]].
  apply nth_error_Some. congruence.
Qed.

Lemma index_of_None x l : index_of x l = None -> ~ In x (ids l).
Proof.
  induction l as [|b l IH]; intros H; [intros []|]. cbn in H.
  destruct (bid b =? x) eqn:E; [discriminate|].
  destruct (index_of x l) eqn:Ej; [discriminate|].
  intros [Hx|Hx]; [apply Z.eqb_neq in E; congruence|]. exact (IH eq_refl Hx).
Qed.

Lemma existsb_eqb_In x l : existsb (Z.eqb x) l = true <-> In x l.
Proof.
  rewrite existsb_exists. split.
  - intros [y [Hy E]]. apply Z.eqb_eq in E. subst. exact Hy.
  - intros H. exists x. split; [exact H|apply Z.eqb_refl].
Qed.

Lemma nodupb_NoDup l : nodupb l = true <-> NoDup l.
Proof.
  induction l as [|x l IH]; cbn.
  - split; [constructor|reflexivity].
  - rewrite andb_true_iff, negb_true_iff, IH. split.
    + intros [H1 H2]. constructor; [|exact H2]. intros Hin. apply existsb_eqb_In in Hin. congruence.
    + intros H. inversion H; subst. split; [|assumption].
      destruct (existsb (Z.eqb x) l) eqn:E; [|reflexivity]. apply existsb_eqb_In in E. contradiction.
Qed.

Lemma index_of_nodup l i b :
  NoDup (ids l) -> nth_error l i = Some b -> index_of (bid b) l = Some i.
Proof.
  revert i. induction l as [|a l IH]; intros i Hnd Hi; [destruct i; discriminate|].
  cbn in Hnd. inversion Hnd as [|? ? Hnin Hnd']; subst.
  destruct i as [|i]; cbn in Hi |- *.
  - inversion Hi; subst. rewrite Z.eqb_refl. reflexivity.
  - destruct (bid a =? bid b) eqn:E.
    + apply Z.eqb_eq in E. exfalso. apply Hnin. rewrite E.
      apply in_map. eapply nth_error_In; exact Hi.
    + rewrite (IH i Hnd' Hi). reflexivity.
Qed.

Lemma tip_id_last l : tip_id l = bid (last l d0).
Proof. reflexivity. Qed.

Lemma tip_id_nth l : l <> [] -> nth_error l (length l - 1) = Some (last l d0).
Proof. apply last_nth_error. Qed.

Lemma tip_id_app l x : tip_id (l ++ [x]) = bid x.
Proof. unfold tip_id. rewrite last_last. reflexivity. Qed.

Lemma tip_id_firstn l n b : nth_error l n = Some b -> tip_id (firstn (S n) l) = bid b.
Proof. intros H. rewrite (firstn_S_snoc _ _ _ H). apply tip_id_app. Qed.

(* ================= the boolean predicates ================= *)

Lemma linked_b_nth b i x y :
  linked_b b = true -> nth_error b i = Some x -> nth_error b (S i) = Some y -> bprev y = bid x.
Proof.
  revert i. induction b as [|a b IH]; intros i H Hx Hy; [destruct i; discriminate|].
  destruct b as [|a' b]; [destruct i; cbn in Hy; try discriminate; destruct i; discriminate|].
  cbn [linked_b] in H. apply andb_true_iff in H. destruct H as [H1 H2].
  destruct i as [|i].
  - cbn in Hx, Hy. inversion Hx; inversion Hy; subst. apply Z.eqb_eq. exact H1.
  - apply (IH i H2); assumption.
Qed.

Lemma linked_b_app a x :
  linked_b a = true -> (a = [] \/ bprev x = tip_id a) -> linked_b (a ++ [x]) = true.
Proof.
  induction a as [|y a IH]; intros H Hx; [reflexivity|].
  destruct a as [|y' a].
  - cbn. destruct Hx as [Hx|Hx]; [discriminate|]. cbn in Hx. rewrite Hx, Z.eqb_refl. reflexivity.
  - cbn [linked_b] in H. apply andb_true_iff in H. destruct H as [H1 H2].
    change ((y :: y' :: a) ++ [x]) with (y :: (y' :: a) ++ [x]).
    change (linked_b (y :: (y' :: a) ++ [x])) with ((bprev y' =? bid y) && linked_b ((y' :: a) ++ [x])).
    rewrite H1. cbn [andb]. apply IH; [exact H2|]. right.
    destruct Hx as [Hx|Hx]; [discriminate|]. exact Hx.
Qed.

Lemma linked_b_app2 a b :
  linked_b a = true -> linked_b b = true ->
  (a = [] \/ b = [] \/ bprev (hd d0 b) = tip_id a) -> linked_b (a ++ b) = true.
Proof.
  revert a. induction b as [|x b IH]; intros a Ha Hb Hx; [rewrite app_nil_r; exact Ha|].
  replace (a ++ x :: b) with ((a ++ [x]) ++ b) by (rewrite <- app_assoc; reflexivity).
  apply IH.
  - apply linked_b_app; [exact Ha|]. destruct Hx as [Hx|[Hx|Hx]]; [left; exact Hx|discriminate|right; exact Hx].
  - destruct b; [reflexivity|]. cbn [linked_b] in Hb. apply andb_true_iff in Hb. apply Hb.
  - destruct b as [|y b]; [right; left; reflexivity|]. right. right.
    cbn [linked_b] in Hb. apply andb_true_iff in Hb. destruct Hb as [Hb _].
    apply Z.eqb_eq in Hb. cbn [hd]. rewrite tip_id_app. exact Hb.
Qed.

Lemma linked_b_firstn b n : linked_b b = true -> linked_b (firstn n b) = true.
Proof.
  revert b. induction n as [|n IH]; intros b H; [reflexivity|].
  destruct b as [|x b]; [reflexivity|]. destruct b as [|y b]; [destruct n; reflexivity|].
  cbn [linked_b] in H. apply andb_true_iff in H. destruct H as [H1 H2].
  destruct n as [|n]; [reflexivity|].
  change (firstn (S (S n)) (x :: y :: b)) with (x :: y :: firstn n b).
  change (linked_b (x :: y :: firstn n b)) with ((bprev y =? bid x) && linked_b (y :: firstn n b)).
  rewrite H1. cbn [andb]. apply (IH (y :: b) H2).
Qed.

Lemma In_firstn {A} (l : list A) n x : In x (firstn n l) -> In x l.
Proof.
  revert l. induction n as [|n IH]; intros l H; [destruct H|].
  destruct l as [|y l]; [destruct H|]. cbn in H. destruct H as [H|H]; [left; exact H|right; apply IH; exact H].
Qed.

Lemma NoDup_firstn {A} (l : list A) n : NoDup l -> NoDup (firstn n l).
Proof.
  revert l. induction n as [|n IH]; intros l H; [constructor|].
  destruct l as [|x l]; [constructor|]. inversion H; subst. cbn. constructor.
  - intros Hin. apply H2. eapply In_firstn; exact Hin.
  - apply IH. assumption.
Qed.

Lemma belongsb_spec f b :
  belongsb f b = true <->
  (length f <= length b)%nat /\
  forall i e x, nth_error f i = Some e -> nth_error b i = Some x -> fblk e = bid x.
Proof.
  revert b. induction f as [|e f IH]; intros b; cbn.
  - split; [intros _; split; [lia|intros [|i]; discriminate]|reflexivity].
  - destruct b as [|x b].
    + split; [discriminate|]. intros [H _]. cbn in H. lia.
    + rewrite andb_true_iff, IH. split.
      * intros [H1 [H2 H3]]. split; [cbn; lia|]. intros [|i] e' x' He Hx; cbn in He, Hx.
        -- inversion He; inversion Hx; subst. apply Z.eqb_eq. exact H1.
        -- eapply H3; eassumption.
      * intros [H2 H3]. split; [|split].
        -- apply Z.eqb_eq. apply (H3 O); reflexivity.
        -- cbn in H2. lia.
        -- intros i e' x' He Hx. apply (H3 (S i)); assumption.
Qed.

Lemma linkedb_spec f :
  linkedb f = true <->
  forall i e e', nth_error f i = Some e -> nth_error f (S i) = Some e' -> fprev e' = fv e.
Proof.
  induction f as [|a f IH].
  - split; [intros _ [|i]; discriminate|reflexivity].
  - destruct f as [|a' f].
    + split; [intros _ [|[|i]]; discriminate|reflexivity].
    + cbn [linkedb]. rewrite andb_true_iff, IH. split.
      * intros [H1 H2] [|i] e e' He He'.
        -- cbn in He, He'. inversion He; inversion He'; subst. apply Z.eqb_eq. exact H1.
        -- eapply H2; eassumption.
      * intros H. split.
        -- apply Z.eqb_eq. apply (H O); reflexivity.
        -- intros i e e' He He'. apply (H (S i)); assumption.
Qed.

Lemma list_eqb_refl l : list_eqb l l = true.
Proof. induction l; cbn; [reflexivity|]. rewrite Z.eqb_refl. exact IHl. Qed.

Lemma list_eqb_eq a b : list_eqb a b = true -> a = b.
Proof.
  revert b. induction a as [|x a IH]; intros [|y b] H; cbn in H; try discriminate; [reflexivity|].
  apply andb_true_iff in H. destruct H as [H1 H2]. apply Z.eqb_eq in H1. subst. f_equal. apply IH. exact H2.
Qed.

(* ================= replay ================= *)

Lemma replay_app sub es e :
  replay sub (es ++ [e]) = match replay sub es with Some s => replay_ev s e | None => None end.
Proof.
  revert sub. induction es as [|x es IH]; intros sub; cbn.
  - destruct (replay_ev sub e); reflexivity.
  - destruct (replay_ev sub x); [apply IH|reflexivity].
Qed.

(* ================= mk_ents ================= *)

Lemma mk_ents_length p vs hs : length vs = length hs -> length (mk_ents p vs hs) = length vs.
Proof.
  revert p hs. induction vs as [|v vs IH]; intros p [|h hs] H; cbn in *; try discriminate; [reflexivity|].
  f_equal. apply IH. lia.
Qed.

Lemma mk_ents_nth p vs hs i e :
  nth_error (mk_ents p vs hs) i = Some e ->
  exists h, nth_error hs i = Some h /\ fblk e = bid h /\ nth_error vs i = Some (fv e) /\
            fprev e = match i with O => p | S j => nth j vs 0 end.
Proof.
  revert p hs i. induction vs as [|v vs IH]; intros p [|h hs] i H; cbn in H; try (destruct i; discriminate).
  destruct i as [|i]; cbn in H.
  - inversion H; subst. exists h. cbn. repeat split; reflexivity.
  - destruct (IH v hs i H) as [h' [H1 [H2 [H3 H4]]]]. exists h'.
    split; [exact H1|]. split; [exact H2|]. split; [exact H3|].
    rewrite H4. destruct i; reflexivity.
Qed.

Lemma belongsb_app f e b :
  belongsb f b = true ->
  (length f + length e <= length b)%nat ->
  (forall i x y, nth_error e i = Some x -> nth_error b (length f + i) = Some y -> fblk x = bid y) ->
  belongsb (f ++ e) b = true.
Proof.
  intros Hf Hlen He. apply belongsb_spec. apply belongsb_spec in Hf. destruct Hf as [Hf1 Hf2].
  split; [rewrite app_length; lia|]. intros i x y Hx Hy.
  destruct (Nat.lt_ge_cases i (length f)) as [Hi|Hi].
  - rewrite nth_error_app1 in Hx by exact Hi. eapply Hf2; eassumption.
  - rewrite nth_error_app2 in Hx by exact Hi. eapply He; [exact Hx|].
    replace (length f + (i - length f))%nat with i by lia. exact Hy.
Qed.

Lemma belongsb_prefix f b n : belongsb f b = true -> belongsb (firstn n f) b = true.
Proof.
  intros H. apply belongsb_spec in H. destruct H as [H1 H2]. apply belongsb_spec. split.
  - rewrite firstn_length. lia.
  - intros i e x He Hx. destruct (Nat.lt_ge_cases i n) as [Hi|Hi].
    + rewrite nth_error_firstn in He by exact Hi. eapply H2; eassumption.
    + rewrite nth_error_firstn_ge in He by exact Hi. discriminate.
Qed.

Lemma belongsb_chain_prefix f b n : belongsb f b = true -> (length f <= n)%nat -> belongsb f (firstn n b) = true.
Proof.
  intros H Hn. apply belongsb_spec in H. destruct H as [H1 H2]. apply belongsb_spec. split.
  - rewrite firstn_length. lia.
  - intros i e x He Hx.
    assert (Hi : (i < length f)%nat) by (apply nth_error_Some; congruence).
    rewrite nth_error_firstn in Hx by lia. eapply H2; eassumption.
Qed.

Lemma belongsb_chain_app f b x : belongsb f b = true -> belongsb f (b ++ x) = true.
Proof.
  intros H. apply belongsb_spec in H. destruct H as [H1 H2]. apply belongsb_spec. split.
  - rewrite app_length. lia.
  - intros i e y He Hy.
    assert (Hi : (i < length f)%nat) by (apply nth_error_Some; congruence).
    rewrite nth_error_app1 in Hy by lia. eapply H2; eassumption.
Qed.

Lemma linkedb_prefix f n : linkedb f = true -> linkedb (firstn n f) = true.
Proof.
  intros H. rewrite linkedb_spec in H |- *. intros i e e' He He'.
  destruct (Nat.lt_ge_cases (S i) n) as [Hi|Hi].
  - rewrite nth_error_firstn in He by lia. rewrite nth_error_firstn in He' by lia. eapply H; eassumption.
  - rewrite nth_error_firstn_ge in He' by exact Hi. discriminate.
Qed.

Lemma linkedb_app f p vs hs lastf :
  linkedb f = true -> f <> [] ->
  fv (last f lastf) = p -> length vs = length hs ->
  linkedb (f ++ mk_ents p vs hs) = true.
Proof.
  intros Hf Hne Hp Hlen. rewrite linkedb_spec in Hf |- *. intros i e e' He He'.
  destruct (Nat.lt_ge_cases (S i) (length f)) as [Hi|Hi].
  - rewrite nth_error_app1 in He by lia. rewrite nth_error_app1 in He' by lia. eapply Hf; eassumption.
  - rewrite nth_error_app2 in He' by lia.
    destruct (mk_ents_nth _ _ _ _ _ He') as [h [_ [_ [_ Hprev]]]].
    destruct (Nat.eq_dec (S i) (length f)) as [Heq|Hneq].
    + (* e is the last entry of f *)
      replace (S i - length f)%nat with O in Hprev by lia.
      rewrite nth_error_app1 in He by lia.
      assert (Hl : nth_error f (length f - 1) = Some (last f lastf)) by (apply last_nth_error; exact Hne).
      replace (length f - 1)%nat with i in Hl by lia. rewrite Hl in He. inversion He; subst. congruence.
    + rewrite nth_error_app2 in He by lia.
      destruct (mk_ents_nth _ _ _ _ _ He) as [h0 [_ [_ [Hv _]]]].
      replace (S i - length f)%nat with (S (i - length f)) in Hprev by lia.
      rewrite Hprev. apply nth_error_nth'. exact Hv.
Qed.

(* ================= the invariant ================= *)

Section Inv.
Variable c : cfg.
Variable bc0 : list blk.
Variable sub0 : list Z.

Notation k := (length (m_ents (g_msg c))).

Hypothesis Hbc0_linked : linked_b bc0 = true.
Hypothesis Hbc0_nodup : NoDup (ids bc0).
Hypothesis Hbc0_ne : bc0 <> [].
Hypothesis Hnew_linked : linked_b (g_new c) = true.
Hypothesis Hnew_nodup : NoDup (ids bc0 ++ ids (g_new c)).

Definition B (st : cstate) := bchain (sh st).
Definition F (st : cstate) := ffile (sh st).
Definition nF (st : cstate) := length (ffile (sh st)).

Definition back_ok (st : cstate) : Prop :=
  exists n1 rest b, g_new c = n1 :: rest /\ nth_error bc0 (b_back (bl st)) = Some b /\
    bid b = bprev n1 /\ (S (b_back (bl st)) < length bc0)%nat.

Definition pre_iter (st : cstate) : Prop :=
  back_ok st /\ B st = firstn (S (bs_h (bl st))) bc0 /\ (S (bs_h (bl st)) <= length bc0)%nat /\
  bs_id (bl st) = tip_id (B st) /\ (b_back (bl st) < bs_h (bl st))%nat.

Definition cur_ok (st : cstate) : Prop :=
  nth_error bc0 (bs_h (bl st)) = Some (b_cur (bl st)) /\ b_curh (bl st) = bs_h (bl st).

Definition post_iter (st : cstate) : Prop :=
  back_ok st /\ B st = firstn (S (bs_h (bl st))) bc0 /\ (S (S (bs_h (bl st))) <= length bc0)%nat /\
  bs_id (bl st) = tip_id (B st) /\ nth_error bc0 (S (bs_h (bl st))) = Some (b_cur (bl st)) /\
  b_curh (bl st) = S (bs_h (bl st)) /\ (b_back (bl st) <= bs_h (bl st))%nat.

Definition J_bh (st : cstate) : Prop :=
  match bp st with
  | BStart => B st = bc0
  | BWait | BR0 => B st = bc0 /\ back_ok st
  | BR1 => B st = bc0 /\ back_ok st /\ bs_h (bl st) = (length bc0 - 1)%nat /\ bs_id (bl st) = tip_id bc0
  | BB1 => pre_iter st
  | BB2 | BB3 => pre_iter st /\ cur_ok st /\ b_roll (bl st) = true
  | BB4 => pre_iter st /\ cur_ok st
  | BB5 | BB6 => post_iter st
  | BW1 => back_ok st /\ B st = firstn (S (b_back (bl st))) bc0
  | BW2 => back_ok st /\ B st = firstn (S (b_back (bl st))) bc0 ++ firstn 1 (g_new c)
  | BWA => B st = bc0 /\ g_new c <> [] /\ bprev (hd d0 (g_new c)) = tip_id bc0
  | BDone => True
  | BPanic => False
  end.

Definition J_wfB (st : cstate) : Prop :=
  linked_b (B st) = true /\ NoDup (ids (B st)) /\ B st <> [].

Definition J_fs (st : cstate) : Prop :=
  (1 <= nF st <= length (B st))%nat /\ belongsb (F st) (B st) = true /\ linkedb (F st) = true /\
  exists b, nth_error (B st) (nF st - 1) = Some b /\ ftipkey (sh st) = bid b.

Definition J_loop (st : cstate) : Prop :=
  (bh_loop (bp st) = true -> b_regh (bl st) = (nF st - 1)%nat) /\
  match bp st with
  | BB2 => S (bs_h (bl st)) = nF st
  | BB3 => nF st = bs_h (bl st) /\ ftipkey (sh st) = bprev (b_cur (bl st))
  | BB4 => if b_roll (bl st) then nF st = bs_h (bl st) else (nF st <= bs_h (bl st))%nat
  | BB5 | BB6 => if b_roll (bl st) then nF st = b_curh (bl st) else (nF st <= b_curh (bl st))%nat
  | _ => True
  end.

Definition J_mem (st : cstate) : Prop :=
  (cp st = C4 \/ bp st = BB3) \/
  (memtip (sh st) = (nF st - 1)%nat /\ memhash (sh st) = ftipkey (sh st)).

Definition J_cf (st : cstate) : Prop :=
  match cp st with
  | C2 => (1 <= k)%nat /\ c_tiph (cl st) = (nF st - 1)%nat /\ m_prev (g_msg c) = fv (last (F st) {| fv := 0; fprev := 0; fblk := 0 |})
  | C3 => (1 <= k)%nat /\ m_prev (g_msg c) = fv (last (F st) {| fv := 0; fprev := 0; fblk := 0 |}) /\
          c_start (cl st) = nF st /\ c_hdrs (cl st) = firstn k (skipn (nF st) (B st)) /\
          (nF st + k <= length (B st))%nat
  | C4 => (1 <= k)%nat /\ (c_start (cl st) + k = nF st)%nat /\
          c_hdrs (cl st) = firstn k (skipn (c_start (cl st)) (B st)) /\
          tip_id (c_hdrs (cl st)) = ftipkey (sh st)
  | CN i => (i < k)%nat /\ (c_start (cl st) + k = nF st)%nat /\
          c_hdrs (cl st) = firstn k (skipn (c_start (cl st)) (B st))
  | _ => True
  end.

Definition b_pend (st : cstate) : bool :=
  match bp st with BB3 | BB5 | BB6 => true | BB4 => b_roll (bl st) | _ => false end.

Definition J_excl (st : cstate) : Prop := cf_post (cp st) = true -> b_pend st = false.

Definition X (st : cstate) : list Z :=
  match cp st with
  | C4 => ids (firstn (c_start (cl st)) (B st))
  | CN i => ids (firstn (c_start (cl st) + i) (B st))
  | _ =>
    match bp st with
    | BB3 | BB4 => if b_roll (bl st) then ids (firstn (S (nF st)) (B st)) else ids (firstn (nF st) (B st))
    | BB5 | BB6 => if b_roll (bl st) then ids (B st) ++ [bid (b_cur (bl st))] else ids (firstn (nF st) (B st))
    | _ => ids (firstn (nF st) (B st))
    end
  end.

Definition J_ev (st : cstate) : Prop := replay sub0 (events (sh st)) = Some (X st).

Record J (st : cstate) : Prop := {
  j_bh : J_bh st; j_wfB : J_wfB st; j_fs : J_fs st; j_loop : J_loop st;
  j_mem : J_mem st; j_cf : J_cf st; j_excl : J_excl st; j_ev : J_ev st
}.


Ltac red_st :=
  unfold nF, B, F in *;
  cbn [sh cp cl bp bl fl lock set_sh set_cp set_cl set_bp set_bl set_lock set_fl
       bchain ffile ftipkey memtip memhash events c_tipv c_tiph c_start c_hdrs
       b_back bs_h bs_id b_regh b_cur b_curh b_roll] in *.

(* ---------- bookkeeping: what J does not look at ---------- *)

Lemma J_set_lock st l : J st -> J (set_lock st l).
Proof. intros H. destruct st. destruct H. constructor; assumption. Qed.

Lemma X_idle_cp st p :
  cf_post (cp st) = false -> cf_post p = false -> X (set_cp st p) = X st.
Proof.
  intros H1 H2. unfold X. cbn [cp set_cp bp bl cl sh B nF].
  destruct (cp st); try discriminate; destruct p; try discriminate; reflexivity.
Qed.

(* cf moves between program points that carry no local facts *)
Lemma J_set_cp_idle st p :
  J st -> cf_post (cp st) = false -> cf_post p = false ->
  match p with C2 | C3 => False | _ => True end -> J (set_cp st p).
Proof.
  intros [H1 H2 H3 H4 H5 H6 H7 H8] Hc Hp Hq. constructor.
  - exact H1.
  - exact H2.
  - exact H3.
  - exact H4.
  - unfold J_mem in *. cbn [cp set_cp bp sh nF]. destruct H5 as [[H5|H5]|H5].
    + rewrite H5 in Hc. discriminate.
    + left; right; exact H5.
    + right; exact H5.
  - unfold J_cf. cbn [cp set_cp]. destruct p; try exact I; try contradiction; discriminate.
  - unfold J_excl. cbn [cp set_cp]. rewrite Hp. discriminate.
  - unfold J_ev. rewrite X_idle_cp by assumption. exact H8.
Qed.

Lemma J_release_c st : J st -> J (release_c c st).
Proof.
  intros H. unfold release_c. destruct (g_locked c); [|exact H].
  destruct (bp st) eqn:Hbp; try (apply J_set_lock; exact H).
  destruct H as [H1 H2 H3 H4 H5 H6 H7 H8].
  constructor.
  - unfold J_bh in *. cbn [bp set_bp set_lock B sh bl]. rewrite Hbp in H1. exact H1.
  - exact H2.
  - exact H3.
  - unfold J_loop in *. cbn [bp set_bp set_lock]. split; [discriminate|exact I].
  - unfold J_mem in *. cbn [bp set_bp set_lock cp sh nF]. destruct H5 as [[H5|H5]|H5].
    + left; left; exact H5.
    + rewrite Hbp in H5. discriminate.
    + right; exact H5.
  - exact H6.
  - unfold J_excl, b_pend in *. cbn [bp set_bp set_lock cp]. intros _. reflexivity.
  - unfold J_ev, X in *. cbn [bp set_bp set_lock cp cl bl sh B nF]. rewrite Hbp in H8. exact H8.
Qed.

Lemma J_release_b st : J st -> J (release_b c st).
Proof.
  intros H. unfold release_b. destruct (g_locked c); [|exact H].
  destruct (cp st) eqn:Hcp; try (apply J_set_lock; exact H).
  apply (J_set_cp_idle (set_lock st (Some false)) C1).
  - apply J_set_lock. exact H.
  - cbn [cp set_lock]. rewrite Hcp. reflexivity.
  - reflexivity.
  - exact I.
Qed.

Lemma J_finish_idle st err :
  J st -> cf_post (cp st) = false -> J (finish_c c st err).
Proof.
  intros H Hc. unfold finish_c. apply J_release_c. apply J_set_cp_idle; [exact H|exact Hc|reflexivity|exact I].
Qed.


(* ---------- ghost code ---------- *)

Lemma set_fl_fl0 st n : n <> 0 -> fl (set_fl st n) = 0 -> False.
Proof.
  intros Hn. cbn [fl set_fl]. destruct (fl st =? 0) eqn:E; [congruence|].
  apply Z.eqb_neq in E. congruence.
Qed.

Lemma mark_c_fl0 st : fl (mark_c st) = 0 -> bh_loop (bp st) = false /\ mark_c st = st.
Proof.
  unfold mark_c. destruct (bh_loop (bp st)); intros H; [|split; reflexivity].
  exfalso. eapply set_fl_fl0; [|exact H]. discriminate.
Qed.

Lemma mark_b_fl0 st :
  fl (mark_b st) = 0 -> cf_pre (cp st) = false /\ cf_post (cp st) = false /\ mark_b st = st.
Proof.
  unfold mark_b. destruct (cf_pre (cp st)).
  - intros H. exfalso. eapply set_fl_fl0; [|exact H]. discriminate.
  - destruct (cf_post (cp st)).
    + intros H. exfalso. eapply set_fl_fl0; [|exact H]. discriminate.
    + intros _. repeat split.
Qed.

Lemma fl_release_c st : fl (release_c c st) = fl st.
Proof. unfold release_c. destruct (g_locked c); [|reflexivity]. destruct (bp st); reflexivity. Qed.
Lemma fl_release_b st : fl (release_b c st) = fl st.
Proof. unfold release_b. destruct (g_locked c); [|reflexivity]. destruct (cp st); reflexivity. Qed.

(* ---------- reading the filter tip ---------- *)

Definition f0 : fent := {| fv := 0; fprev := 0; fblk := 0 |}.

Lemma f_chain_tip_J st :
  J_wfB st -> J_fs st -> f_chain_tip (sh st) = Some (last (F st) f0, (nF st - 1)%nat).
Proof.
  intros [_ [Hnd _]] [[Hn1 Hn2] [_ [_ [b [Hb Hk]]]]].
  unfold f_chain_tip. rewrite Hk. fold (B st). rewrite (index_of_nodup _ _ _ Hnd Hb).
  fold (F st). assert (Hne : F st <> []).
  { unfold nF, F in *. destruct (ffile (sh st)); [cbn in Hn1; lia|discriminate]. }
  unfold nF. fold (F st). rewrite (last_nth_error (F st) f0 Hne). reflexivity.
Qed.

Lemma hdrs_length (b : list blk) s n : (s + n <= length b)%nat -> length (firstn n (skipn s b)) = n.
Proof. intros H. rewrite firstn_length, skipn_length. lia. Qed.

(* cf moves to a program point before its write, with new locals *)
Lemma J_to_pre st p l :
  J st -> cf_post (cp st) = false -> cf_post p = false ->
  J_cf (set_cp (set_cl st l) p) -> J (set_cp (set_cl st l) p).
Proof.
  intros [H1 H2 H3 H4 H5 H6 H7 H8] Hc Hp Hq. constructor.
  - exact H1.
  - exact H2.
  - exact H3.
  - exact H4.
  - unfold J_mem in *. cbn [cp set_cp set_cl bp sh nF]. destruct H5 as [[H5|H5]|H5].
    + rewrite H5 in Hc. discriminate.
    + left; right; exact H5.
    + right; exact H5.
  - exact Hq.
  - unfold J_excl. cbn [cp set_cp]. rewrite Hp. discriminate.
  - unfold J_ev, X in *. cbn [cp set_cp set_cl bp bl cl sh B nF].
    destruct (cp st); try discriminate; destruct p; try discriminate; exact H8.
Qed.

(* ---------- the steps of cf ---------- *)

Lemma cf_step_fl st : fl (fst (cf_step c st)) = 0 -> fl st = 0.
Proof.
  unfold cf_step. destruct (cp st) eqn:Hcp.
  - destruct (g_locked c); [destruct (lock st)|]; intros H; exact H.
  - intros H; exact H.
  - destruct (f_chain_tip (sh st)) as [[e h]|].
    + destruct (negb (fv e =? m_prev (g_msg c))); [|destruct (k =? 0)%nat];
        cbn [fst]; unfold finish_c; rewrite ?fl_release_c; intros H; exact H.
    + cbn [fst]. unfold finish_c. rewrite fl_release_c. intros H; exact H.
  - destruct (index_of (m_stop (g_msg c)) (bchain (sh st))) as [e|].
    + destruct (e <? k - 1)%nat; [|destruct (negb (e - (k - 1) =? S (c_tiph (cl st)))%nat)];
        cbn [fst]; unfold finish_c; rewrite ?fl_release_c; intros H; exact H.
    + cbn [fst]. unfold finish_c. rewrite fl_release_c. intros H; exact H.
  - cbn [fst fl set_cp set_sh]. intros H. destruct (mark_c_fl0 _ H) as [_ E]. rewrite E in H. exact H.
  - intros H; exact H.
  - destruct (nth_error (c_hdrs (cl st)) i).
    + destruct (S i <? length (c_hdrs (cl st)))%nat; cbn [fst]; unfold finish_c; rewrite ?fl_release_c; intros H; exact H.
    + cbn [fst]. unfold finish_c. rewrite fl_release_c. intros H; exact H.
  - intros H; exact H.
Qed.

Lemma cf_C1 st : J st -> cp st = C1 -> J (fst (cf_step c st)).
Proof.
  intros HJ Hcp. unfold cf_step. rewrite Hcp.
  rewrite (f_chain_tip_J st (j_wfB _ HJ) (j_fs _ HJ)).
  assert (Hidle : cf_post (cp st) = false) by (rewrite Hcp; reflexivity).
  destruct (negb (fv (last (F st) f0) =? m_prev (g_msg c))) eqn:E1; cbn [fst].
  { apply J_finish_idle; assumption. }
  destruct (k =? 0)%nat eqn:E2; cbn [fst].
  { apply J_finish_idle; assumption. }
  apply J_to_pre; [exact HJ|exact Hidle|reflexivity|].
  unfold J_cf. red_st.
  apply negb_false_iff, Z.eqb_eq in E1. apply Nat.eqb_neq in E2.
  repeat split; [lia|symmetry; exact E1].
Qed.

Lemma cf_C2 st : J st -> cp st = C2 -> J (fst (cf_step c st)).
Proof.
  intros HJ Hcp. unfold cf_step. rewrite Hcp.
  assert (Hidle : cf_post (cp st) = false) by (rewrite Hcp; reflexivity).
  pose proof (j_cf _ HJ) as Hcf. unfold J_cf in Hcf. rewrite Hcp in Hcf. destruct Hcf as [Hk [Hth Hprev]].
  pose proof (j_fs _ HJ) as [[Hn1 Hn2] _].
  destruct (index_of (m_stop (g_msg c)) (bchain (sh st))) as [e|] eqn:Ei; cbn [fst];
    [|apply J_finish_idle; assumption].
  destruct (e <? k - 1)%nat eqn:E1; cbn [fst]; [apply J_finish_idle; assumption|].
  destruct (negb (e - (k - 1) =? S (c_tiph (cl st)))%nat) eqn:E2; cbn [fst];
    [apply J_finish_idle; assumption|].
  apply J_to_pre; [exact HJ|exact Hidle|reflexivity|].
  apply Nat.ltb_ge in E1. apply negb_false_iff, Nat.eqb_eq in E2.
  apply index_of_lt in Ei. fold (B st) in Ei.
  unfold J_cf. red_st.
  assert (Hs : (e - (k - 1))%nat = length (ffile (sh st))) by lia.
  rewrite Hs. repeat split; try assumption; lia.
Qed.


Lemma tip_id_hdrs (b : list blk) s n :
  (1 <= n)%nat -> (s + n <= length b)%nat ->
  exists x, nth_error b (s + n - 1) = Some x /\ tip_id (firstn n (skipn s b)) = bid x.
Proof.
  intros Hn Hl. set (h := firstn n (skipn s b)).
  assert (Hlen : length h = n) by (apply hdrs_length; exact Hl).
  assert (Hne : h <> []) by (intros E; rewrite E in Hlen; cbn in Hlen; lia).
  pose proof (last_nth_error h d0 Hne) as Hl2. rewrite Hlen in Hl2.
  unfold h in Hl2 at 1. rewrite skipn_firstn_nth in Hl2 by lia.
  exists (last h d0). split; [|reflexivity].
  replace (s + n - 1)%nat with (s + (n - 1))%nat by lia. exact Hl2.
Qed.

Lemma cf_C3 st : J st -> cp st = C3 -> fl (fst (cf_step c st)) = 0 -> J (fst (cf_step c st)).
Proof.
  intros HJ Hcp. unfold cf_step. rewrite Hcp. cbn [fst]. intros Hfl.
  cbn [fl set_cp set_sh] in Hfl. destruct (mark_c_fl0 _ Hfl) as [Hloop Hmk]. rewrite Hmk.
  destruct HJ as [H1 H2 H3 H4 H5 H6 H7 H8].
  unfold J_cf in H6. rewrite Hcp in H6. destruct H6 as [Hk [Hprev [Hst [Hh Hlen]]]].
  pose proof H3 as [[Hn1 Hn2] [Hbel [Hlnk [tb [Htb Htk]]]]].
  assert (Hhl : length (c_hdrs (cl st)) = k) by (rewrite Hh; apply hdrs_length; exact Hlen).
  assert (Hel : length (mk_ents (m_prev (g_msg c)) (m_ents (g_msg c)) (c_hdrs (cl st))) = k)
    by (apply mk_ents_length; symmetry; exact Hhl).
  destruct (tip_id_hdrs (B st) (nF st) k Hk Hlen) as [xb [Hxb Hxt]].
  constructor.
  - unfold J_bh in *. red_st. exact H1.
  - exact H2.
  - unfold J_fs. red_st. rewrite app_length, Hel. split; [lia|]. split; [|split].
    + apply belongsb_app; [exact Hbel|rewrite Hel; lia|].
      intros i x y Hx Hy. destruct (mk_ents_nth _ _ _ _ _ Hx) as [h [Hhi [Hfb _]]].
      assert (Hik : (i < k)%nat) by (rewrite <- Hhl; apply nth_error_Some; congruence).
      rewrite Hh, skipn_firstn_nth in Hhi by exact Hik. rewrite Hhi in Hy. inversion Hy; subst. exact Hfb.
    + apply (linkedb_app _ _ _ _ f0); [exact Hlnk| |symmetry; exact Hprev|symmetry; exact Hhl].
      destruct (ffile (sh st)); [cbn in Hn1; lia|discriminate].
    + exists xb. split; [|rewrite <- Hxt, <- Hh; reflexivity].
      replace (length (ffile (sh st)) + k - 1)%nat with (length (ffile (sh st)) + k - 1)%nat by lia. exact Hxb.
  - unfold J_loop in *. red_st. split; [rewrite Hloop; discriminate|].
    destruct (bp st); try exact I; discriminate.
  - left; left; reflexivity.
  - unfold J_cf. red_st. split; [exact Hk|]. split; [rewrite app_length, Hel, Hst; reflexivity|].
    split; [rewrite Hst; exact Hh|reflexivity].
  - unfold J_excl, b_pend. red_st. intros _. destruct (bp st); try reflexivity; discriminate.
  - unfold J_ev, X in *. red_st. rewrite Hcp in H8. rewrite Hst.
    destruct (bp st); try exact H8; discriminate.
Qed.


Lemma cf_C4 st : J st -> cp st = C4 -> J (fst (cf_step c st)).
Proof.
  intros HJ Hcp. unfold cf_step. rewrite Hcp. cbn [fst].
  destruct HJ as [H1 H2 H3 H4 H5 H6 H7 H8].
  unfold J_cf in H6. rewrite Hcp in H6. destruct H6 as [Hk [Hst [Hh Htk]]].
  constructor.
  - unfold J_bh in *. red_st. exact H1.
  - exact H2.
  - exact H3.
  - exact H4.
  - right. red_st. split; [lia|exact Htk].
  - unfold J_cf. red_st. repeat split; try assumption; lia.
  - unfold J_excl, b_pend in *. red_st. intros _. apply H7. rewrite Hcp. reflexivity.
  - unfold J_ev, X in *. red_st. rewrite Hcp in H8. rewrite Nat.add_0_r. exact H8.
Qed.

Lemma replay_conn sub es (b : list blk) n x :
  replay sub es = Some (ids (firstn n b)) -> nth_error b n = Some x ->
  replay sub (es ++ [EConn (bid x) n]) = Some (ids (firstn (S n) b)).
Proof.
  intros H Hx. rewrite replay_app, H. cbn [replay_ev].
  assert (Hl : length (ids (firstn n b)) = n).
  { rewrite ids_length, firstn_length. apply Nat.min_l.
    assert (n < length b)%nat by (apply nth_error_Some; congruence). lia. }
  rewrite Hl, Nat.eqb_refl. rewrite (firstn_S_snoc _ _ _ Hx), ids_app. reflexivity.
Qed.

Lemma cf_CN st i : J st -> cp st = CN i -> J (fst (cf_step c st)).
Proof.
  intros HJ Hcp. unfold cf_step. rewrite Hcp.
  destruct HJ as [H1 H2 H3 H4 H5 H6 H7 H8].
  unfold J_cf in H6. rewrite Hcp in H6. destruct H6 as [Hi [Hst Hh]].
  pose proof H3 as [[Hn1 Hn2] _].
  assert (Hhl : length (c_hdrs (cl st)) = k) by (rewrite Hh; apply hdrs_length; unfold nF, B in *; lia).
  destruct (nth_error (c_hdrs (cl st)) i) as [b|] eqn:Hb.
  2:{ apply nth_error_None in Hb. lia. }
  assert (HbB : nth_error (B st) (c_start (cl st) + i) = Some b).
  { rewrite Hh, skipn_firstn_nth in Hb by exact Hi. exact Hb. }
  assert (Hpend : b_pend st = false) by (apply H7; rewrite Hcp; reflexivity).
  assert (Hev : replay sub0 (events (sh st) ++ [EConn (bid b) (c_start (cl st) + i)]) =
                Some (ids (firstn (S (c_start (cl st) + i)) (B st)))).
  { apply replay_conn; [|exact HbB]. unfold J_ev, X in H8. rewrite Hcp in H8. exact H8. }
  assert (Hmem : (bp st = BB3) \/ (memtip (sh st) = (nF st - 1)%nat /\ memhash (sh st) = ftipkey (sh st))).
  { destruct H5 as [[H5|H5]|H5]; [rewrite Hcp in H5; discriminate|left; exact H5|right; exact H5]. }
  destruct (S i <? length (c_hdrs (cl st)))%nat eqn:Elt; cbn [fst].
  - apply Nat.ltb_lt in Elt. constructor.
    + unfold J_bh in *. red_st. exact H1.
    + exact H2.
    + exact H3.
    + exact H4.
    + unfold J_mem. red_st. destruct Hmem as [Hm|Hm]; [left; right; exact Hm|right; exact Hm].
    + unfold J_cf. red_st. repeat split; try assumption; lia.
    + unfold J_excl, b_pend in *. red_st. intros _. exact Hpend.
    + unfold J_ev, X. red_st. rewrite Nat.add_succ_r. exact Hev.
  - apply Nat.ltb_ge in Elt. unfold finish_c. apply J_release_c.
    assert (Hki : S i = k) by lia.
    constructor.
    + unfold J_bh in *. red_st. exact H1.
    + exact H2.
    + exact H3.
    + exact H4.
    + unfold J_mem. red_st. destruct Hmem as [Hm|Hm]; [left; right; exact Hm|right; exact Hm].
    + exact I.
    + unfold J_excl. red_st. discriminate.
    + unfold J_ev, X. red_st.
      replace (S (c_start (cl st) + i)) with (length (ffile (sh st))) in Hev by (unfold nF in Hst; lia).
      unfold b_pend in Hpend. destruct (bp st); try exact Hev; try discriminate.
      rewrite Hpend. exact Hev.
Qed.

Lemma cf_step_J st : J st -> fl (fst (cf_step c st)) = 0 -> J (fst (cf_step c st)).
Proof.
  intros HJ Hfl. destruct (cp st) eqn:Hcp.
  - (* CStart *)
    unfold cf_step. rewrite Hcp.
    assert (Hidle : cf_post (cp st) = false) by (rewrite Hcp; reflexivity).
    destruct (g_locked c); [destruct (lock st)|]; cbn [fst].
    + apply J_set_cp_idle; [exact HJ|exact Hidle|reflexivity|exact I].
    + apply (J_set_cp_idle (set_lock st (Some false)) C1); [apply J_set_lock; exact HJ|exact Hidle|reflexivity|exact I].
    + apply J_set_cp_idle; [exact HJ|exact Hidle|reflexivity|exact I].
  - unfold cf_step. rewrite Hcp. exact HJ.
  - apply cf_C1; assumption.
  - apply cf_C2; assumption.
  - apply cf_C3; assumption.
  - apply cf_C4; assumption.
  - eapply cf_CN; eassumption.
  - unfold cf_step. rewrite Hcp. exact HJ.
Qed.


(* ---------- the steps of bh ---------- *)

Lemma NoDup_app_firstn {A} (a b : list A) m : NoDup (a ++ b) -> NoDup (firstn m a ++ b).
Proof.
  revert a. induction m as [|m IH]; intros a H.
  - cbn. induction a as [|x a IHa]; [exact H|]. apply IHa. inversion H; assumption.
  - destruct a as [|x a]; [exact H|]. cbn in H |- *. inversion H as [|? ? Hnin Hnd]; subst.
    constructor; [|apply IH; exact Hnd].
    intros Hin. apply Hnin. apply in_app_or in Hin. apply in_or_app.
    destruct Hin as [Hin|Hin]; [left; eapply In_firstn; exact Hin|right; exact Hin].
Qed.

Lemma firstn_ne {A} (l : list A) n : l <> [] -> firstn (S n) l <> [].
Proof. destruct l; [congruence|discriminate]. Qed.

(* bh moves between program points outside its loop; the shared state stays *)
Lemma J_bh_move st p l :
  J st -> bh_loop (bp st) = false -> bh_loop p = false ->
  J_bh (set_bp (set_bl st l) p) -> J (set_bp (set_bl st l) p).
Proof.
  intros [H1 H2 H3 H4 H5 H6 H7 H8] Hb Hp Hq. constructor.
  - exact Hq.
  - exact H2.
  - exact H3.
  - unfold J_loop. red_st. split; [rewrite Hp; discriminate|]. destruct p; try exact I; discriminate.
  - unfold J_mem in *. red_st. destruct H5 as [[H5|H5]|H5].
    + left; left; exact H5.
    + rewrite H5 in Hb. discriminate.
    + right; exact H5.
  - exact H6.
  - unfold J_excl, b_pend. red_st. intros _. destruct p; try reflexivity; discriminate.
  - unfold J_ev, X in *. red_st.
    destruct (cp st); destruct (bp st); try discriminate; destruct p; try discriminate; exact H8.
Qed.

Lemma J_bh_move' st p :
  J st -> bh_loop (bp st) = false -> bh_loop p = false ->
  J_bh (set_bp st p) -> J (set_bp st p).
Proof.
  intros H Hb Hp Hq.
  replace (set_bp st p) with (set_bp (set_bl st (bl st)) p) by (destruct st; reflexivity).
  apply J_bh_move; assumption.
Qed.

Lemma bh_BStart st : J st -> bp st = BStart -> J (fst (bh_step c st)).
Proof.
  intros HJ Hbp. unfold bh_step. rewrite Hbp.
  assert (Hnl : bh_loop (bp st) = false) by (rewrite Hbp; reflexivity).
  pose proof (j_bh _ HJ) as HB. unfold J_bh in HB. rewrite Hbp in HB.
  destruct (g_new c) as [|n1 rest] eqn:Hnew; cbn [fst].
  { apply J_bh_move'; [exact HJ|exact Hnl|reflexivity|exact I]. }
  destruct (bprev n1 =? tip_id (bchain (sh st))) eqn:Etip; cbn [fst].
  { apply J_bh_move'; [exact HJ|exact Hnl|reflexivity|].
    unfold J_bh. red_st. apply Z.eqb_eq in Etip. rewrite HB in Etip. rewrite Hnew.
    split; [exact HB|split; [discriminate|exact Etip]]. }
  destruct (index_of (bid n1) (bchain (sh st))) eqn:Eknown; cbn [fst].
  { apply J_bh_move'; [exact HJ|exact Hnl|reflexivity|exact I]. }
  destruct (index_of (bprev n1) (bchain (sh st))) as [back|] eqn:Eback; cbn [fst].
  2:{ apply J_bh_move'; [exact HJ|exact Hnl|reflexivity|exact I]. }
  assert (Hbk : back_ok (set_bl st {| b_back := back; bs_h := 0; bs_id := 0; b_regh := 0;
                                      b_cur := {| bid := 0; bprev := 0 |}; b_curh := 0; b_roll := false |})).
  { unfold B in HB. rewrite HB in Eback, Etip.
    destruct (index_of_Some _ _ _ Eback) as [b [Hb1 Hb2]]. pose proof (index_of_lt _ _ _ Eback) as Hlt.
    exists n1, rest, b. red_st. repeat split; try assumption.
    destruct (Nat.eq_dec (S back) (length bc0)) as [E|E]; [|lia]. exfalso.
    apply Z.eqb_neq in Etip. apply Etip. rewrite <- Hb2.
    pose proof (tip_id_nth bc0 Hbc0_ne) as Hl. replace (length bc0 - 1)%nat with back in Hl by lia.
    rewrite Hl in Hb1. inversion Hb1. reflexivity. }
  destruct (g_locked c); [destruct (lock st)|]; cbn [fst].
  - apply J_bh_move; [exact HJ|exact Hnl|reflexivity|]. unfold J_bh. red_st. split; [exact HB|exact Hbk].
  - match goal with |- J (set_bp (set_lock ?s ?l) ?p) =>
      replace (set_bp (set_lock s l) p) with (set_lock (set_bp s p) l) by reflexivity end.
    apply J_set_lock. apply J_bh_move; [exact HJ|exact Hnl|reflexivity|]. unfold J_bh. red_st. split; [exact HB|exact Hbk].
  - apply J_bh_move; [exact HJ|exact Hnl|reflexivity|]. unfold J_bh. red_st. split; [exact HB|exact Hbk].
Qed.

Lemma bh_BR0 st : J st -> bp st = BR0 -> J (fst (bh_step c st)).
Proof.
  intros HJ Hbp. unfold bh_step. rewrite Hbp. cbn [fst].
  pose proof (j_bh _ HJ) as HB. unfold J_bh in HB. rewrite Hbp in HB. destruct HB as [HB Hbk].
  apply J_bh_move; [exact HJ|rewrite Hbp; reflexivity|reflexivity|].
  unfold J_bh. red_st. rewrite HB. split; [reflexivity|]. split; [exact Hbk|]. split; reflexivity.
Qed.


(* the top of the loop of rollBackToHeight *)
Definition LB (st : cstate) : Prop :=
  back_ok st /\ B st = firstn (S (bs_h (bl st))) bc0 /\ (S (bs_h (bl st)) <= length bc0)%nat /\
  bs_id (bl st) = tip_id (B st) /\ (b_back (bl st) <= bs_h (bl st))%nat /\
  b_regh (bl st) = (nF st - 1)%nat.

Lemma J_loop_head st : J (set_bp st BDone) -> LB st -> J (loop_head c st).
Proof.
  intros [H1 H2 H3 H4 H5 H6 H7 H8] [L1 [L2 [L3 [L4 [L5 L6]]]]].
  unfold loop_head. destruct (b_back (bl st) <? bs_h (bl st))%nat eqn:E.
  - apply Nat.ltb_lt in E. constructor.
    + unfold J_bh, pre_iter. red_st. repeat split; assumption.
    + exact H2.
    + exact H3.
    + unfold J_loop. red_st. split; [intros _; exact L6|exact I].
    + unfold J_mem in *. red_st. destruct H5 as [[H5|H5]|H5]; [left; left; exact H5|discriminate|right; exact H5].
    + exact H6.
    + unfold J_excl, b_pend. red_st. intros _. reflexivity.
    + unfold J_ev, X in *. red_st. destruct (cp st); exact H8.
  - apply Nat.ltb_ge in E. apply J_release_b.
    assert (Eq : b_back (bl st) = bs_h (bl st)) by lia.
    constructor.
    + unfold J_bh. red_st. split; [exact L1|]. rewrite Eq. exact L2.
    + exact H2.
    + exact H3.
    + unfold J_loop. red_st. split; [discriminate|exact I].
    + unfold J_mem in *. red_st. destruct H5 as [[H5|H5]|H5]; [left; left; exact H5|discriminate|right; exact H5].
    + exact H6.
    + unfold J_excl, b_pend. red_st. intros _. reflexivity.
    + unfold J_ev, X in *. red_st. destruct (cp st); exact H8.
Qed.

Lemma bh_BR1 st : J st -> bp st = BR1 -> J (fst (bh_step c st)).
Proof.
  intros HJ Hbp. unfold bh_step. rewrite Hbp.
  rewrite (f_chain_tip_J st (j_wfB _ HJ) (j_fs _ HJ)). cbn [fst].
  pose proof (j_bh _ HJ) as HB. unfold J_bh in HB. rewrite Hbp in HB. destruct HB as [HB [Hbk [Hh Hid]]].
  apply J_loop_head.
  - match goal with |- J (set_bp (set_bl ?s ?l) ?p) => apply (J_bh_move s p l) end;
      [exact HJ|rewrite Hbp; reflexivity|reflexivity|exact I].
  - destruct Hbk as [n1 [rest [b [E1 [E2 [E3 E4]]]]]].
    unfold LB. red_st. repeat split.
    + exists n1, rest, b. repeat split; assumption.
    + rewrite HB, Hh. replace (S (length bc0 - 1)) with (length bc0) by (destruct bc0; [congruence|cbn; lia]).
      symmetry. apply firstn_all.
    + rewrite Hh. destruct bc0; [congruence|cbn; lia].
    + rewrite HB. exact Hid.
    + lia.
Qed.


Lemma index_of_tip (b : list blk) : NoDup (ids b) -> b <> [] -> index_of (tip_id b) b = Some (length b - 1)%nat.
Proof. intros Hnd Hne. unfold tip_id. apply index_of_nodup; [exact Hnd|]. apply last_nth_error. exact Hne. Qed.

Lemma pre_iter_len st : pre_iter st -> length (B st) = S (bs_h (bl st)).
Proof. intros [_ [HB [Hle _]]]. rewrite HB, firstn_length. lia. Qed.

Lemma pre_iter_cur st : pre_iter st -> exists x, nth_error bc0 (bs_h (bl st)) = Some x /\ nth_error (B st) (bs_h (bl st)) = Some x.
Proof.
  intros [_ [HB [Hle _]]].
  destruct (nth_error bc0 (bs_h (bl st))) as [x|] eqn:E; [|apply nth_error_None in E; lia].
  exists x. split; [reflexivity|]. rewrite HB, nth_error_firstn by lia. exact E.
Qed.

Lemma bh_BB1 st : J st -> bp st = BB1 -> J (fst (bh_step c st)).
Proof.
  intros HJ Hbp. unfold bh_step. rewrite Hbp.
  destruct HJ as [H1 H2 H3 H4 H5 H6 H7 H8].
  unfold J_bh in H1. rewrite Hbp in H1.
  pose proof (pre_iter_len _ H1) as Hlen. destruct (pre_iter_cur _ H1) as [x [Hx0 HxB]].
  pose proof H1 as [Hbk [HB [Hle [Hid Hback]]]].
  pose proof H2 as [Hlk [Hnd Hne]].
  fold (B st). rewrite Hid, (index_of_tip _ Hnd Hne), Hlen. cbn [fst].
  replace (S (bs_h (bl st)) - 1)%nat with (bs_h (bl st)) by lia.
  rewrite (nth_error_nth' _ _ {| bid := 0; bprev := 0 |} _ HxB).
  pose proof H3 as [[Hn1 Hn2] _]. rewrite Hlen in Hn2.
  destruct H4 as [Hreg _]. rewrite Hbp in Hreg. specialize (Hreg eq_refl).
  assert (Hmem : (cp st = C4) \/ (memtip (sh st) = (nF st - 1)%nat /\ memhash (sh st) = ftipkey (sh st))).
  { destruct H5 as [[H5|H5]|H5]; [left; exact H5|rewrite Hbp in H5; discriminate|right; exact H5]. }
  destruct (bs_h (bl st) <=? b_regh (bl st))%nat eqn:Er.
  - apply Nat.leb_le in Er. constructor.
    + unfold J_bh, pre_iter, cur_ok in *. red_st. repeat split; assumption.
    + exact H2.
    + exact H3.
    + unfold J_loop. red_st. split; [intros _; exact Hreg|]. unfold nF in *. lia.
    + unfold J_mem. red_st. destruct Hmem as [Hm|Hm]; [left; left; exact Hm|right; exact Hm].
    + exact H6.
    + unfold J_excl, b_pend. red_st. intros _. reflexivity.
    + unfold J_ev, X in *. red_st. rewrite Hbp in H8. destruct (cp st); exact H8.
  - apply Nat.leb_gt in Er. constructor.
    + unfold J_bh, pre_iter, cur_ok in *. red_st. repeat split; assumption.
    + exact H2.
    + exact H3.
    + unfold J_loop. red_st. split; [intros _; exact Hreg|]. unfold nF in *. lia.
    + unfold J_mem. red_st. destruct Hmem as [Hm|Hm]; [left; left; exact Hm|right; exact Hm].
    + exact H6.
    + unfold J_excl, b_pend. red_st. intros _. reflexivity.
    + unfold J_ev, X in *. red_st. rewrite Hbp in H8. destruct (cp st); exact H8.
Qed.


Lemma cf_idle_cases p : cf_pre p = false -> cf_post p = false ->
  match p with C2 | C3 | C4 | CN _ => False | _ => True end.
Proof. destruct p; intros; try exact I; discriminate. Qed.

Lemma J_cf_idle st st' : cf_pre (cp st) = false -> cf_post (cp st) = false -> cp st' = cp st -> J_cf st'.
Proof.
  intros H1 H2 E. unfold J_cf. rewrite E. pose proof (cf_idle_cases _ H1 H2) as H.
  destruct (cp st); try exact I; contradiction.
Qed.

Lemma X_idle st : cf_post (cp st) = false ->
  X st = match bp st with
         | BB3 | BB4 => if b_roll (bl st) then ids (firstn (S (nF st)) (B st)) else ids (firstn (nF st) (B st))
         | BB5 | BB6 => if b_roll (bl st) then ids (B st) ++ [bid (b_cur (bl st))] else ids (firstn (nF st) (B st))
         | _ => ids (firstn (nF st) (B st))
         end.
Proof. intros H. unfold X. destruct (cp st); try discriminate; reflexivity. Qed.

Lemma bh_BB2 st : J st -> bp st = BB2 -> fl (fst (bh_step c st)) = 0 -> J (fst (bh_step c st)).
Proof.
  intros HJ Hbp. unfold bh_step. rewrite Hbp.
  destruct HJ as [H1 H2 H3 H4 H5 H6 H7 H8].
  unfold J_bh in H1. rewrite Hbp in H1. destruct H1 as [Hpre [[Hc0 Hch] Hroll]].
  pose proof (pre_iter_len _ Hpre) as Hlen. pose proof Hpre as [Hbk [HB [Hle [Hid Hback]]]].
  pose proof H2 as [Hlk [Hnd Hne]].
  pose proof H3 as [[Hn1 Hn2] [Hbel [Hlnk [tb [Htb Htk]]]]].
  destruct H4 as [Hreg Hn]. rewrite Hbp in Hreg, Hn. specialize (Hreg eq_refl).
  rewrite Htk. fold (B st). rewrite (index_of_nodup _ _ _ Hnd Htb).
  assert (Hn2' : (2 <= nF st)%nat) by lia.
  destruct (nF st - 1)%nat as [|nh] eqn:Enh; [lia|].
  destruct (nth_error (ffile (sh st)) nh) as [e|] eqn:Ee.
  2:{ apply nth_error_None in Ee. unfold nF in *. lia. }
  cbn [fst]. intros Hfl. cbn [fl set_bp set_bl set_sh] in Hfl.
  destruct (mark_b_fl0 _ Hfl) as [Hpre0 [Hpost0 Hmk]]. rewrite Hmk.
  assert (HcurB : nth_error (B st) (S nh) = Some (b_cur (bl st))).
  { rewrite HB, nth_error_firstn by lia. replace (S nh) with (bs_h (bl st)) by lia. exact Hc0. }
  destruct (nth_error (B st) nh) as [pb|] eqn:Epb.
  2:{ apply nth_error_None in Epb. lia. }
  pose proof (linked_b_nth _ _ _ _ Hlk Epb HcurB) as Hprev.
  constructor.
  - unfold J_bh, pre_iter, cur_ok in *. red_st. repeat split; assumption.
  - exact H2.
  - unfold J_fs. red_st. rewrite removelast_length, Enh.
    split; [unfold nF in *; lia|]. split; [|split].
    + rewrite removelast_firstn_len. apply belongsb_prefix. exact Hbel.
    + rewrite removelast_firstn_len. apply linkedb_prefix. exact Hlnk.
    + exists pb. replace (S nh - 1)%nat with nh by lia. split; [exact Epb|]. unfold newtip. red_st. exact Hprev.
  - unfold J_loop. red_st. rewrite removelast_length, Enh.
    split; [intros _; lia|]. split; [lia|reflexivity].
  - left; right; reflexivity.
  - eapply J_cf_idle; [exact Hpre0|exact Hpost0|reflexivity].
  - unfold J_excl. red_st. rewrite Hpost0. discriminate.
  - unfold J_ev in *. rewrite X_idle in * by (red_st; exact Hpost0). red_st. rewrite Hbp in H8.
    rewrite Hroll, removelast_length, Enh. replace (S (S nh)) with (length (ffile (sh st))) by lia. exact H8.
Qed.

Lemma bh_BB3 st : J st -> bp st = BB3 -> fl (fst (bh_step c st)) = 0 -> J (fst (bh_step c st)).
Proof.
  intros HJ Hbp. unfold bh_step. rewrite Hbp. cbn [fst]. intros Hfl. cbn [fl set_bp set_sh] in Hfl.
  destruct (mark_b_fl0 _ Hfl) as [Hpre0 [Hpost0 Hmk]]. rewrite Hmk.
  destruct HJ as [H1 H2 H3 H4 H5 H6 H7 H8].
  unfold J_bh in H1. rewrite Hbp in H1. destruct H1 as [Hpre [Hcur Hroll]].
  destruct H4 as [Hreg Hn]. rewrite Hbp in Hreg, Hn. specialize (Hreg eq_refl). destruct Hn as [Hn Htk].
  constructor.
  - unfold J_bh. red_st. split; assumption.
  - exact H2.
  - exact H3.
  - unfold J_loop. red_st. split; [intros _; exact Hreg|]. rewrite Hroll. exact Hn.
  - right. red_st. split; [exact Hreg|]. unfold newtip. symmetry. exact Htk.
  - eapply J_cf_idle; [exact Hpre0|exact Hpost0|reflexivity].
  - unfold J_excl. red_st. rewrite Hpost0. discriminate.
  - unfold J_ev in *. rewrite X_idle in * by (red_st; exact Hpost0). red_st. rewrite Hbp in H8. exact H8.
Qed.


Lemma bh_BB4 st : J st -> bp st = BB4 -> fl (fst (bh_step c st)) = 0 -> J (fst (bh_step c st)).
Proof.
  intros HJ Hbp. unfold bh_step. rewrite Hbp.
  destruct HJ as [H1 H2 H3 H4 H5 H6 H7 H8].
  unfold J_bh in H1. rewrite Hbp in H1. destruct H1 as [Hpre [Hc0 Hch]].
  pose proof (pre_iter_len _ Hpre) as Hlen. pose proof Hpre as [Hbk [HB [Hle [Hid Hback]]]].
  pose proof H2 as [Hlk [Hnd Hne]].
  pose proof H3 as [[Hn1 Hn2] [Hbel [Hlnk [tb [Htb Htk]]]]].
  destruct H4 as [Hreg Hn]. rewrite Hbp in Hreg, Hn. specialize (Hreg eq_refl).
  fold (B st). rewrite Hlen.
  destruct (bs_h (bl st)) as [|n] eqn:Ebs; [lia|].
  cbn [fst]. intros Hfl. cbn [fl set_bp set_bl set_sh] in Hfl.
  destruct (mark_b_fl0 _ Hfl) as [Hpre0 [Hpost0 Hmk]]. rewrite Hmk.
  assert (HB' : removelast (B st) = firstn (S n) bc0).
  { rewrite removelast_firstn_len, Hlen, HB. replace (S (S n) - 1)%nat with (S n) by lia.
    apply firstn_firstn_le. lia. }
  assert (HnF : (nF st <= S n)%nat) by (destruct (b_roll (bl st)); lia).
  assert (Hmem : memtip (sh st) = (nF st - 1)%nat /\ memhash (sh st) = ftipkey (sh st)).
  { destruct H5 as [[H5|H5]|H5]; [rewrite H5 in Hpost0; discriminate|rewrite Hbp in H5; discriminate|exact H5]. }
  constructor.
  - unfold J_bh, post_iter. red_st. rewrite HB'. repeat split; try assumption; lia.
  - unfold J_wfB. red_st. rewrite HB'. split; [apply linked_b_firstn; exact Hbc0_linked|].
    split; [rewrite ids_firstn; apply NoDup_firstn; exact Hbc0_nodup|apply firstn_ne; exact Hbc0_ne].
  - unfold J_fs. red_st. rewrite removelast_length, Hlen.
    split; [unfold nF in *; lia|]. split; [|split].
    + rewrite removelast_firstn_len, Hlen. apply belongsb_chain_prefix; [exact Hbel|unfold nF in *; lia].
    + exact Hlnk.
    + exists tb. split; [|exact Htk]. rewrite removelast_firstn_len, Hlen.
      rewrite nth_error_firstn by (unfold nF in *; lia). exact Htb.
  - unfold J_loop. red_st. split; [intros _; exact Hreg|]. rewrite Hch. exact Hn.
  - right. exact Hmem.
  - eapply J_cf_idle; [exact Hpre0|exact Hpost0|reflexivity].
  - unfold J_excl. red_st. rewrite Hpost0. discriminate.
  - unfold J_ev in *. rewrite X_idle in * by (red_st; exact Hpost0). red_st. rewrite Hbp in H8.
    destruct (b_roll (bl st)).
    + (* the committed block goes: its disconnect is pending *)
      replace (S (length (ffile (sh st)))) with (length (bchain (sh st))) in H8 by (unfold nF, B in *; lia).
      rewrite firstn_all in H8. rewrite H8. f_equal.
      rewrite HB at 1. rewrite (firstn_S_snoc _ _ _ Hc0), ids_app. rewrite HB'. reflexivity.
    + rewrite H8. f_equal. f_equal. rewrite removelast_firstn_len, Hlen.
      symmetry. apply firstn_firstn_le. unfold nF in *; lia.
Qed.

Lemma post_iter_len st : post_iter st -> length (B st) = S (bs_h (bl st)).
Proof. intros [_ [HB [Hle _]]]. rewrite HB, firstn_length. lia. Qed.

Lemma bh_BB5 st : J st -> bp st = BB5 -> J (fst (bh_step c st)).
Proof.
  intros HJ Hbp. unfold bh_step. rewrite Hbp.
  destruct HJ as [H1 H2 H3 H4 H5 H6 H7 H8].
  pose proof H1 as Hpost. unfold J_bh in Hpost. rewrite Hbp in Hpost.
  pose proof (post_iter_len _ Hpost) as Hlen.
  destruct Hpost as [Hbk [HB [Hle [Hid [Hc0 [Hch Hback]]]]]].
  pose proof H2 as [Hlk [Hnd Hne]].
  (* the new tip is the block below the one just removed *)
  destruct (nth_error bc0 (bs_h (bl st))) as [pb|] eqn:Epb.
  2:{ apply nth_error_None in Epb. lia. }
  pose proof (linked_b_nth _ _ _ _ Hbc0_linked Epb Hc0) as Hprev.
  assert (HpB : nth_error (B st) (bs_h (bl st)) = Some pb) by (rewrite HB, nth_error_firstn by lia; exact Epb).
  unfold newtip. rewrite Hprev. fold (B st). rewrite (index_of_nodup _ _ _ Hnd HpB). cbn [fst].
  constructor.
  - unfold J_bh in *. red_st. rewrite Hbp in H1. exact H1.
  - exact H2.
  - exact H3.
  - unfold J_loop in *. red_st. rewrite Hbp in H4. exact H4.
  - unfold J_mem in *. red_st. destruct H5 as [[H5|H5]|H5];
      [left; left; exact H5|rewrite Hbp in H5; discriminate|right; exact H5].
  - exact H6.
  - unfold J_excl, b_pend in *. red_st. rewrite Hbp in H7. exact H7.
  - unfold J_ev, X in *. red_st. rewrite Hbp in H8. exact H8.
Qed.

Lemma bh_BB6 st : J st -> bp st = BB6 -> fl (fst (bh_step c st)) = 0 -> J (fst (bh_step c st)).
Proof.
  intros HJ Hbp. unfold bh_step. rewrite Hbp. cbn [fst].
  assert (Hflh : forall s, fl (loop_head c s) = fl s).
  { intros s. unfold loop_head. destruct (_ <? _)%nat; [reflexivity|]. rewrite fl_release_b. reflexivity. }
  rewrite Hflh. intros Hfl. cbn [fl set_sh] in Hfl.
  destruct (mark_b_fl0 _ Hfl) as [Hpre0 [Hpost0 Hmk]]. rewrite Hmk.
  destruct HJ as [H1 H2 H3 H4 H5 H6 H7 H8].
  pose proof H1 as Hpost. unfold J_bh in Hpost. rewrite Hbp in Hpost.
  pose proof (post_iter_len _ Hpost) as Hlen.
  destruct Hpost as [Hbk [HB [Hle [Hid [Hc0 [Hch Hback]]]]]].
  destruct H4 as [Hreg Hn]. rewrite Hbp in Hreg, Hn. specialize (Hreg eq_refl).
  pose proof H3 as [[Hn1 Hn2] _].
  apply J_loop_head.
  - constructor.
    + exact I.
    + exact H2.
    + exact H3.
    + unfold J_loop. red_st. split; [discriminate|exact I].
    + right. destruct H5 as [[H5|H5]|H5]; [rewrite H5 in Hpost0; discriminate|rewrite Hbp in H5; discriminate|exact H5].
    + eapply J_cf_idle; [exact Hpre0|exact Hpost0|reflexivity].
    + unfold J_excl. red_st. rewrite Hpost0. discriminate.
    + unfold J_ev in *. rewrite X_idle in * by (red_st; exact Hpost0). red_st. rewrite Hbp in H8.
      rewrite replay_app, H8. cbn [replay_ev]. unfold newtip.
      destruct (b_roll (bl st)).
      * rewrite app_length, ids_length. cbn [length].
        replace (length (bchain (sh st)) + 1 <=? b_curh (bl st))%nat with false by (symmetry; apply Nat.leb_gt; unfold nF, B in *; lia).
        replace (S (b_curh (bl st)) =? length (bchain (sh st)) + 1)%nat with true by (symmetry; apply Nat.eqb_eq; unfold nF, B in *; lia).
        rewrite last_last, Z.eqb_refl. cbn [andb]. rewrite removelast_last.
        f_equal. f_equal. symmetry. apply firstn_all2. unfold nF, B in *. lia.
      * rewrite ids_length, firstn_length.
        replace (Nat.min (length (ffile (sh st))) (length (bchain (sh st))) <=? b_curh (bl st))%nat with true
          by (symmetry; apply Nat.leb_le; unfold nF, B in *; lia).
        reflexivity.
  - unfold LB. red_st. repeat split; try assumption; lia.
Qed.


(* block headers are appended outside the loop *)
Lemma J_append st xs p :
  J st -> bh_loop (bp st) = false -> bh_loop p = false ->
  linked_b (B st ++ xs) = true -> NoDup (ids (B st ++ xs)) ->
  let st' := set_bp (set_sh st {| bchain := B st ++ xs; ffile := ffile (sh st); ftipkey := ftipkey (sh st);
                                 memtip := memtip (sh st); memhash := memhash (sh st); events := events (sh st) |}) p in
  J_bh st' -> J st'.
Proof.
  intros [H1 H2 H3 H4 H5 H6 H7 H8] Hb Hp Hlk Hnd st' Hq.
  pose proof H3 as [[Hn1 Hn2] [Hbel [Hlnk [tb [Htb Htk]]]]].
  pose proof H2 as [_ [_ Hne]].
  constructor.
  - exact Hq.
  - unfold J_wfB, st'. red_st. split; [exact Hlk|]. split; [exact Hnd|].
    destruct (bchain (sh st)); [congruence|discriminate].
  - unfold J_fs, st'. red_st. rewrite app_length. split; [lia|]. split; [|split].
    + apply belongsb_chain_app. exact Hbel.
    + exact Hlnk.
    + exists tb. split; [|exact Htk]. rewrite nth_error_app1 by lia. exact Htb.
  - unfold J_loop, st'. red_st. split; [rewrite Hp; discriminate|]. destruct p; try exact I; discriminate.
  - unfold J_mem, st' in *. red_st. destruct H5 as [[H5|H5]|H5];
      [left; left; exact H5|rewrite H5 in Hb; discriminate|right; exact H5].
  - unfold J_cf, st' in *. red_st. destruct (cp st); try exact I.
    + exact H6.
    + destruct H6 as [Hk [Hprev [Hst [Hh Hlen]]]]. repeat split; try assumption.
      * rewrite Hh. symmetry. apply firstn_skipn_app_stable. exact Hlen.
      * rewrite app_length. lia.
    + destruct H6 as [Hk [Hst [Hh Htk']]]. repeat split; try assumption.
      rewrite Hh. symmetry. apply firstn_skipn_app_stable. lia.
    + destruct H6 as [Hi [Hst Hh]]. repeat split; try assumption.
      rewrite Hh. symmetry. apply firstn_skipn_app_stable. lia.
  - unfold J_excl, b_pend, st'. red_st. intros _. destruct p; try reflexivity; discriminate.
  - unfold J_ev, X, st' in *. red_st. unfold J_cf in H6.
    assert (Hd : ids (firstn (length (ffile (sh st))) (bchain (sh st) ++ xs)) =
                 ids (firstn (length (ffile (sh st))) (bchain (sh st)))) by (rewrite firstn_app_le by lia; reflexivity).
    destruct (cp st) eqn:Ecp.
    1,2,3,4,5,8: (destruct (bp st); try discriminate; destruct p; try discriminate; rewrite Hd; exact H8).
    + destruct H6 as [_ [Hst _]]. rewrite firstn_app_le by (unfold nF in *; lia). exact H8.
    + destruct H6 as [Hi [Hst _]]. rewrite firstn_app_le by (unfold nF in *; lia). exact H8.
Qed.

Lemma bh_BW1 st : J st -> bp st = BW1 -> J (fst (bh_step c st)).
Proof.
  intros HJ Hbp. unfold bh_step. rewrite Hbp.
  pose proof (j_bh _ HJ) as HB. unfold J_bh in HB. rewrite Hbp in HB. destruct HB as [Hbk HB].
  pose proof Hbk as [n1 [rest [b [E1 [E2 [E3 E4]]]]]]. rewrite E1. cbn [fst].
  assert (Hnl : bh_loop (bp st) = false) by (rewrite Hbp; reflexivity).
  assert (Htip : tip_id (B st) = bid b) by (rewrite HB; apply tip_id_firstn; exact E2).
  assert (Hlk : linked_b (B st ++ [n1]) = true).
  { apply linked_b_app; [exact (proj1 (j_wfB _ HJ))|]. right. rewrite Htip. symmetry. exact E3. }
  assert (Hnd : NoDup (ids (B st ++ [n1]))).
  { rewrite ids_app, HB, ids_firstn. apply NoDup_app_firstn. cbn.
    assert (Hn : NoDup (ids bc0 ++ [bid n1])).
    { revert Hnew_nodup. rewrite E1. cbn [ids map]. generalize (ids bc0) (map bid rest). intros l1 l2 H.
      induction l1 as [|y l1 IH]; cbn in *.
      - inversion H; subst. constructor; [intros []|constructor].
      - inversion H as [|? ? Hnin Hnd']; subst. constructor; [|apply IH; exact Hnd'].
        intros Hin. apply Hnin. apply in_app_or in Hin. apply in_or_app.
        destruct Hin as [Hin|[Hin|[]]]; [left; exact Hin|right; left; exact Hin]. }
    exact Hn. }
  destruct rest as [|r2 rest'].
  - apply (J_append st [n1] BDone HJ Hnl eq_refl Hlk Hnd). exact I.
  - apply (J_append st [n1] BW2 HJ Hnl eq_refl Hlk Hnd).
    unfold J_bh. red_st. rewrite E1. cbn [firstn]. split; [exact Hbk|]. rewrite HB. reflexivity.
Qed.

Lemma bh_BW2 st : J st -> bp st = BW2 -> J (fst (bh_step c st)).
Proof.
  intros HJ Hbp. unfold bh_step. rewrite Hbp. cbn [fst].
  pose proof (j_bh _ HJ) as HB. unfold J_bh in HB. rewrite Hbp in HB. destruct HB as [Hbk HB].
  pose proof Hbk as [n1 [rest [b [E1 [E2 [E3 E4]]]]]]. rewrite E1 in HB |- *. change (firstn 1 (n1 :: rest)) with [n1] in HB. cbn [tl].
  assert (Hnl : bh_loop (bp st) = false) by (rewrite Hbp; reflexivity).
  assert (Hlk : linked_b (B st ++ rest) = true).
  { apply linked_b_app2; [exact (proj1 (j_wfB _ HJ))| |].
    - rewrite E1 in Hnew_linked. destruct rest; [reflexivity|]. cbn [linked_b] in Hnew_linked.
      apply andb_true_iff in Hnew_linked. apply Hnew_linked.
    - destruct rest as [|r2 rest']; [right; left; reflexivity|]. right. right.
      rewrite E1 in Hnew_linked. cbn [linked_b] in Hnew_linked. apply andb_true_iff in Hnew_linked.
      destruct Hnew_linked as [Hl _]. apply Z.eqb_eq in Hl. cbn [hd]. rewrite HB, tip_id_app. exact Hl. }
  assert (Hnd : NoDup (ids (B st ++ rest))).
  { rewrite HB, <- app_assoc. cbn [app]. rewrite ids_app, ids_firstn. apply NoDup_app_firstn.
    rewrite E1 in Hnew_nodup. exact Hnew_nodup. }
  apply (J_append st rest BDone HJ Hnl eq_refl Hlk Hnd). exact I.
Qed.

Lemma bh_BWA st : J st -> bp st = BWA -> J (fst (bh_step c st)).
Proof.
  intros HJ Hbp. unfold bh_step. rewrite Hbp. cbn [fst].
  pose proof (j_bh _ HJ) as HB. unfold J_bh in HB. rewrite Hbp in HB. destruct HB as [HB [Hne Hprev]].
  assert (Hnl : bh_loop (bp st) = false) by (rewrite Hbp; reflexivity).
  assert (Hlk : linked_b (B st ++ g_new c) = true).
  { apply linked_b_app2; [exact (proj1 (j_wfB _ HJ))|exact Hnew_linked|]. right. right. rewrite HB. exact Hprev. }
  assert (Hnd : NoDup (ids (B st ++ g_new c))) by (rewrite HB, ids_app; exact Hnew_nodup).
  apply (J_append st (g_new c) BDone HJ Hnl eq_refl Hlk Hnd). exact I.
Qed.

Lemma bh_step_fl st : fl (fst (bh_step c st)) = 0 -> fl st = 0.
Proof.
  clear Hnew_linked Hnew_nodup Hbc0_linked Hbc0_nodup Hbc0_ne.
  assert (Hflh : forall s, fl (loop_head c s) = fl s).
  { intros s. unfold loop_head. destruct (_ <? _)%nat; [reflexivity|]. rewrite fl_release_b. reflexivity. }
  assert (Hmk : forall s, fl (mark_b s) = 0 -> fl s = 0).
  { intros s H. destruct (mark_b_fl0 _ H) as [_ [_ E]]. rewrite E in H. exact H. }
  unfold bh_step, panic_b. destruct (bp st) eqn:Hbp.
  - destruct (g_new c) as [|n1 rest]; [intros H; exact H|].
    destruct (bprev n1 =? _); [intros H; exact H|].
    destruct (index_of (bid n1) _); [intros H; exact H|].
    destruct (index_of (bprev n1) _); [|intros H; exact H].
    destruct (g_locked c); [destruct (lock st)|]; intros H; exact H.
  - intros H; exact H.
  - intros H; exact H.
  - destruct (f_chain_tip (sh st)) as [[e h]|]; cbn [fst]; rewrite ?Hflh, ?fl_release_b; intros H; exact H.
  - destruct (index_of _ _); cbn [fst]; rewrite ?fl_release_b; intros H; exact H.
  - destruct (index_of _ _) as [[|nh]|]; cbn [fst]; rewrite ?fl_release_b; try (intros H; exact H).
    destruct (nth_error _ _); cbn [fst]; rewrite ?fl_release_b; try (intros H; exact H).
    cbn [fl set_bp set_bl set_sh]. apply Hmk.
  - cbn [fst fl set_bp set_sh]. apply Hmk.
  - destruct (length _) as [|[|n]]; cbn [fst]; rewrite ?fl_release_b; try (intros H; exact H).
    cbn [fl set_bp set_bl set_sh]. apply Hmk.
  - destruct (index_of _ _); cbn [fst]; rewrite ?fl_release_b; intros H; exact H.
  - cbn [fst]. rewrite Hflh. cbn [fl set_sh]. apply Hmk.
  - destruct (g_new c) as [|n1 rest]; intros H; exact H.
  - intros H; exact H.
  - intros H; exact H.
  - intros H; exact H.
  - intros H; exact H.
Qed.

Lemma bh_step_J st : J st -> fl (fst (bh_step c st)) = 0 -> J (fst (bh_step c st)).
Proof.
  intros HJ Hfl. destruct (bp st) eqn:Hbp.
  - apply bh_BStart; assumption.
  - unfold bh_step. rewrite Hbp. exact HJ.
  - apply bh_BR0; assumption.
  - apply bh_BR1; assumption.
  - apply bh_BB1; assumption.
  - apply bh_BB2; assumption.
  - apply bh_BB3; assumption.
  - apply bh_BB4; assumption.
  - apply bh_BB5; assumption.
  - apply bh_BB6; assumption.
  - apply bh_BW1; assumption.
  - apply bh_BW2; assumption.
  - apply bh_BWA; assumption.
  - unfold bh_step. rewrite Hbp. exact HJ.
  - unfold bh_step. rewrite Hbp. exact HJ.
Qed.

End Inv.

(* ================= all schedules ================= *)

Lemma step_fl c st g : fl (fst (step c st g)) = 0 -> fl st = 0.
Proof. unfold step. destruct g; [apply bh_step_fl|apply cf_step_fl]. Qed.

Lemma run_fl c sched st : fl (run c st sched) = 0 -> fl st = 0.
Proof.
  revert st. induction sched as [|g r IH]; intros st H; [exact H|].
  cbn in H. apply IH in H. eapply step_fl. exact H.
Qed.

Lemma run_app c st s1 s2 : run c st (s1 ++ s2) = run c (run c st s1) s2.
Proof. unfold run. apply fold_left_app. Qed.

Section Run.
Variable c : cfg.
Variable bc0 : list blk.
Variable sub0 : list Z.
Hypothesis Hbc0_linked : linked_b bc0 = true.
Hypothesis Hbc0_nodup : NoDup (ids bc0).
Hypothesis Hbc0_ne : bc0 <> [].
Hypothesis Hnew_linked : linked_b (g_new c) = true.
Hypothesis Hnew_nodup : NoDup (ids bc0 ++ ids (g_new c)).

Lemma step_J st g :
  J c bc0 sub0 st -> fl (fst (step c st g)) = 0 -> J c bc0 sub0 (fst (step c st g)).
Proof.
  intros HJ Hfl. unfold step in *. destruct g.
  - apply bh_step_J; assumption.
  - apply cf_step_J; assumption.
Qed.

Lemma run_J sched st :
  J c bc0 sub0 st -> fl (run c st sched) = 0 -> J c bc0 sub0 (run c st sched).
Proof.
  revert st. induction sched as [|g r IH]; intros st HJ Hfl; [exact HJ|].
  cbn in *. apply IH; [|exact Hfl]. apply step_J; [exact HJ|]. eapply run_fl. exact Hfl.
Qed.

Lemma rev_last_hd {A} (l : list A) d : l <> [] -> exists r, rev l = last l d :: r.
Proof.
  intros H. destruct (exists_last H) as [l' [x E]]. subst. rewrite rev_app_distr, last_last. cbn. eauto.
Qed.

Lemma and8 (a b c0 d e f g h : bool) :
  a = true -> b = true -> c0 = true -> d = true -> e = true -> f = true -> g = true -> h = true ->
  a && b && c0 && d && e && f && g && h = true.
Proof. intros; subst; reflexivity. Qed.

Lemma J_final st :
  J c bc0 sub0 st -> finished st = true -> conc_okb sub0 (observe st) = true.
Proof.
  intros [H1 H2 H3 H4 H5 H6 H7 H8] Hfin. unfold finished in Hfin. apply andb_true_iff in Hfin.
  destruct Hfin as [Hc Hb].
  destruct (cp st) eqn:Ecp; try discriminate. destruct (bp st) eqn:Ebp; try discriminate.
  2:{ unfold J_bh in H1. rewrite Ebp in H1. destruct H1. }
  pose proof H2 as [Hlk [Hnd Hne]].
  pose proof H3 as [[Hn1 Hn2] [Hbel [Hlnk [tb [Htb Htk]]]]].
  unfold conc_okb. apply and8.
  - unfold p_chain, observe; cbn [o_b]. apply andb_true_iff. split; [exact Hlk|apply nodupb_NoDup; exact Hnd].
  - unfold p_not_ahead, observe; cbn [o_b o_f]. apply andb_true_iff. split; apply Nat.leb_le; assumption.
  - exact Hbel.
  - exact Hlnk.
  - unfold p_tip, observe; cbn [o_ftip o_f]. rewrite (f_chain_tip_J st H2 H3).
    assert (HFne : ffile (sh st) <> []) by (unfold nF in Hn1; destruct (ffile (sh st)); [cbn in Hn1; lia|discriminate]).
    destruct (rev_last_hd (ffile (sh st)) f0 HFne) as [r Er]. rewrite Er.
    apply andb_true_iff. split; [apply Z.eqb_refl|apply Nat.eqb_eq; unfold nF in *; lia].
  - unfold p_mem, observe; cbn [o_mem o_f o_b fst snd].
    destruct H5 as [[H5|H5]|[H5 H5']]; [rewrite Ecp in H5; discriminate|rewrite Ebp in H5; discriminate|].
    rewrite H5. fold (B st). rewrite Htb. apply andb_true_iff. split; [apply Nat.eqb_eq; unfold nF in *; lia|].
    rewrite H5', Htk. apply Z.eqb_refl.
  - unfold p_events, observe; cbn [o_ev o_f o_b]. unfold J_ev, X in H8. rewrite Ecp, Ebp in H8. rewrite H8.
    apply list_eqb_refl.
  - unfold p_nopanic, observe; cbn [o_bres]. rewrite Ebp. reflexivity.
Qed.

End Run.

Lemma linked_b_true_app_nodup bc nw : nodupb (ids bc ++ ids nw) = true -> NoDup (ids bc ++ ids nw).
Proof. apply nodupb_NoDup. Qed.

Lemma NoDup_app_l {A} (a b : list A) : NoDup (a ++ b) -> NoDup a.
Proof.
  induction a as [|x a IH]; intros H; [constructor|]. cbn in H. inversion H; subst.
  constructor; [|apply IH; assumption]. intros Hin. apply H2. apply in_or_app. left; exact Hin.
Qed.

Lemma and8_inv (a b c0 d e f g h : bool) :
  a && b && c0 && d && e && f && g && h = true ->
  a = true /\ b = true /\ c0 = true /\ d = true /\ e = true /\ f = true /\ g = true /\ h = true.
Proof. destruct a, b, c0, d, e, f, g, h; cbn; intros; try discriminate; repeat split. Qed.

Lemma J_init c bc ff :
  wf_init bc ff -> J c bc (sub_of bc ff) (init_state bc ff).
Proof.
  unfold wf_init, conc_okb. intros H.
  apply and8_inv in H. destruct H as [Hchain [Hahead [Hbel [Hlnk _]]]].
  unfold p_chain in Hchain. apply andb_true_iff in Hchain. destruct Hchain as [Hlk Hnd].
  unfold p_not_ahead in Hahead. apply andb_true_iff in Hahead. destruct Hahead as [Ha1 Ha2].
  apply Nat.leb_le in Ha1, Ha2. cbn [observe o_b o_f init_state sh init_shared bchain ffile] in *.
  assert (Hne : bc <> []) by (destruct bc; [cbn in Ha2; lia|discriminate]).
  destruct (nth_error bc (length ff - 1)) as [tb|] eqn:Etb.
  2:{ apply nth_error_None in Etb. lia. }
  constructor.
  - reflexivity.
  - unfold J_wfB, B. cbn. split; [exact Hlk|split; [apply nodupb_NoDup; exact Hnd|exact Hne]].
  - unfold J_fs, B, F, nF. cbn. split; [lia|]. split; [exact Hbel|]. split; [exact Hlnk|].
    exists tb. split; [exact Etb|]. f_equal. apply nth_error_nth'. exact Etb.
  - unfold J_loop. cbn. split; [discriminate|exact I].
  - right. unfold nF. cbn. split; reflexivity.
  - exact I.
  - unfold J_excl. cbn. discriminate.
  - unfold J_ev, X, B, nF. cbn. reflexivity.
Qed.

(* ================= the theorems ================= *)

Lemma wf_new_facts bc nw : wf_new bc nw -> linked_b nw = true /\ NoDup (ids bc ++ ids nw).
Proof. intros [H1 H2]. split; [exact H1|apply nodupb_NoDup; exact H2]. Qed.

Lemma wf_init_chain bc ff : wf_init bc ff -> linked_b bc = true /\ NoDup (ids bc) /\ bc <> [].
Proof.
  intros H. pose proof (J_init {| g_msg := {| m_prev := 0; m_ents := []; m_stop := 0 |}; g_new := []; g_locked := false |} bc ff H) as HJ.
  destruct (j_wfB _ _ _ _ HJ) as [H1 [H2 H3]]. repeat split; assumption.
Qed.

(* for ALL schedules: while the critical windows have not overlapped, the
   filter chain is not ahead at this very moment, and once both operations
   have finished all store predicates hold *)
Lemma conc_safe_unless c bc ff sched :
  wf_init bc ff -> wf_new bc (g_new c) ->
  let st := run c (init_state bc ff) sched in
  fl st = 0 -> never_ahead st /\ (finished st = true -> conc_ok (sub_of bc ff) st).
Proof.
  intros Hi Hn st Hfl.
  destruct (wf_init_chain _ _ Hi) as [Hl [Hnd Hne]]. destruct (wf_new_facts _ _ Hn) as [Hnl Hnn].
  assert (HJ : J c bc (sub_of bc ff) st).
  { apply run_J; try assumption. apply J_init. exact Hi. }
  split.
  - destruct (j_fs _ _ _ _ HJ) as [[_ H] _]. exact H.
  - intros Hfin. eapply J_final; eassumption.
Qed.

(* ... and at every earlier moment of the same run *)
Lemma conc_never_ahead_prefix c bc ff s1 s2 :
  wf_init bc ff -> wf_new bc (g_new c) ->
  fl (run c (init_state bc ff) (s1 ++ s2)) = 0 ->
  never_ahead (run c (init_state bc ff) s1).
Proof.
  intros Hi Hn Hfl. rewrite run_app in Hfl. apply run_fl in Hfl.
  exact (proj1 (conc_safe_unless c bc ff s1 Hi Hn Hfl)).
Qed.

(* ---------- when the ghost code is set ---------- *)
Definition bh_write (p : bpc) : bool := match p with BB2 | BB3 | BB4 | BB6 => true | _ => false end.

Lemma loop_head_fl c s : fl (loop_head c s) = fl s.
Proof. unfold loop_head. destruct (_ <? _)%nat; [reflexivity|]. rewrite fl_release_b. reflexivity. Qed.

Lemma mark_b_cases st : fl st = 0 ->
  fl (mark_b st) = (if cf_pre (cp st) then 1 else if cf_post (cp st) then 3 else 0).
Proof.
  intros H0. unfold mark_b. destruct (cf_pre (cp st)); [cbn; rewrite H0; reflexivity|].
  destruct (cf_post (cp st)); [cbn; rewrite H0; reflexivity|exact H0].
Qed.

Lemma mark_c_cases st : fl st = 0 -> fl (mark_c st) = if bh_loop (bp st) then 2 else 0.
Proof. intros H0. unfold mark_c. destruct (bh_loop (bp st)); [cbn; rewrite H0; reflexivity|exact H0]. Qed.

(* The code leaves 0 only in a step in which a rollback step of bh (filter
   rollback, in-memory tip, block rollback, disconnect notification) runs
   while cf is between its tip read and its last notification (1: before its
   WriteHeaders, 3: after it), or in which WriteHeaders of cf runs while bh is
   between its regHeight read and the end of its loop (2). *)
Definition overlap (st : cstate) (g : bool) (code : Z) : Prop :=
  (g = true /\ bh_write (bp st) = true /\
   ((cf_pre (cp st) = true /\ code = 1) \/ (cf_pre (cp st) = false /\ cf_post (cp st) = true /\ code = 3))) \/
  (g = false /\ cp st = C3 /\ bh_loop (bp st) = true /\ code = 2).

Lemma conc_flag_only_if c st g :
  fl st = 0 -> fl (fst (step c st g)) <> 0 -> overlap st g (fl (fst (step c st g))).
Proof.
  intros H0.
  pose proof (loop_head_fl c) as Hflh.
  pose proof (mark_b_cases st H0) as Hmb. pose proof (mark_c_cases st H0) as Hmc.
  assert (Hb : forall p, bp st = p -> bh_write p = true ->
               fl (mark_b st) <> 0 -> overlap st true (fl (mark_b st))).
  { intros p Hp Hw Hne. left. split; [reflexivity|]. split; [rewrite Hp; exact Hw|].
    rewrite Hmb in *. destruct (cf_pre (cp st)); [left; split; reflexivity|].
    destruct (cf_post (cp st)); [right; repeat split|congruence]. }
  Ltac nochg := cbn [fst fl set_bp set_bl set_cp set_cl set_sh set_lock];
    repeat (rewrite ?loop_head_fl, ?fl_release_b, ?fl_release_c; cbn [fl set_bp set_bl set_cp set_cl set_sh set_lock]);
    let H := fresh in intros H; exfalso; apply H; assumption.
  unfold step. destruct g.
  - unfold bh_step, panic_b. destruct (bp st) eqn:Hbp.
    + destruct (g_new c) as [|n1 rest]; [nochg|].
      destruct (bprev n1 =? _); [nochg|]. destruct (index_of (bid n1) _); [nochg|].
      destruct (index_of (bprev n1) _); [|nochg].
      destruct (g_locked c); [destruct (lock st)|]; nochg.
    + nochg.
    + nochg.
    + destruct (f_chain_tip (sh st)) as [[e h]|]; nochg.
    + destruct (index_of _ _); nochg.
    + destruct (index_of _ _) as [[|nh]|]; try nochg.
      destruct (nth_error _ _); try nochg.
      cbn [fst fl set_bp set_bl set_sh]. apply (Hb BB2); [reflexivity|reflexivity].
    + cbn [fst fl set_bp set_sh]. apply (Hb BB3); reflexivity.
    + destruct (length _) as [|[|n]]; try nochg.
      cbn [fst fl set_bp set_bl set_sh]. apply (Hb BB4); reflexivity.
    + destruct (index_of _ _); nochg.
    + cbn [fst]. rewrite Hflh. cbn [fl set_sh]. apply (Hb BB6); reflexivity.
    + destruct (g_new c) as [|n1 rest]; nochg.
    + nochg.
    + nochg.
    + nochg.
    + nochg.
  - unfold cf_step, finish_c. destruct (cp st) eqn:Hcp.
    + destruct (g_locked c); [destruct (lock st)|]; nochg.
    + nochg.
    + destruct (f_chain_tip (sh st)) as [[e h]|]; [|nochg].
      destruct (negb _); [nochg|].
      destruct (_ =? _)%nat; nochg.
    + destruct (index_of _ _); [|nochg].
      destruct (_ <? _)%nat; [nochg|].
      destruct (negb _); nochg.
    + cbn [fst fl set_cp set_sh]. intros Hne. right. rewrite Hmc in *.
      destruct (bh_loop (bp st)); [repeat split; try reflexivity; try assumption|exfalso; apply Hne; reflexivity].
    + nochg.
    + destruct (nth_error _ _); [|nochg].
      destruct (_ <? _)%nat; nochg.
    + nochg.
Qed.

(* ================= the mutex of the repair ================= *)

Definition cf_in (p : cpc) : bool := match p with C1 | C2 | C3 | C4 | CN _ => true | _ => false end.
Definition bh_in (p : bpc) : bool :=
  match p with BR0 | BR1 | BB1 | BB2 | BB3 | BB4 | BB5 | BB6 => true | _ => false end.
Definition c_wait (p : cpc) : bool := match p with CWait => true | _ => false end.
Definition b_wait (p : bpc) : bool := match p with BWait => true | _ => false end.

(* the holder of the mutex is the goroutine inside its critical section; a
   goroutine waits only while the other one holds the mutex *)
Definition lock_ok (st : cstate) : bool :=
  match lock st with
  | None => negb (cf_in (cp st)) && negb (bh_in (bp st)) && negb (c_wait (cp st)) && negb (b_wait (bp st))
  | Some false => cf_in (cp st) && negb (bh_in (bp st))
  | Some true => bh_in (bp st) && negb (cf_in (cp st))
  end.

Lemma mark_c_proj st : lock (mark_c st) = lock st /\ cp (mark_c st) = cp st /\ bp (mark_c st) = bp st.
Proof. unfold mark_c. destruct (bh_loop (bp st)); repeat split. Qed.
Lemma mark_b_proj st : lock (mark_b st) = lock st /\ cp (mark_b st) = cp st /\ bp (mark_b st) = bp st.
Proof. unfold mark_b. destruct (cf_pre (cp st)); [repeat split|]. destruct (cf_post (cp st)); repeat split. Qed.

Ltac red_pcs :=
  cbn [bp cp lock fst set_cp set_cl set_sh set_bp set_bl set_lock set_fl];
  rewrite ?(proj1 (mark_c_proj _)), ?(proj1 (proj2 (mark_c_proj _))), ?(proj2 (proj2 (mark_c_proj _))),
          ?(proj1 (mark_b_proj _)), ?(proj1 (proj2 (mark_b_proj _))), ?(proj2 (proj2 (mark_b_proj _))).
Ltac break_match Ecp Ebp El :=
  repeat (red_pcs; rewrite ?Ecp, ?Ebp, ?El;
          match goal with
          | |- context [match ?x with _ => _ end] => destruct x
          | |- context [if ?x then _ else _] => destruct x
          end).

Lemma lock_ok_cf c st : g_locked c = true -> lock_ok st = true -> lock_ok (fst (cf_step c st)) = true.
Proof.
  intros Hl H. unfold lock_ok in H. unfold cf_step, finish_c, release_c. rewrite Hl.
  destruct (cp st) eqn:Ecp; destruct (lock st) as [[|]|] eqn:El; cbn in H; try discriminate;
    destruct (bp st) eqn:Ebp; cbn in H; try discriminate;
    break_match Ecp Ebp El; unfold lock_ok; red_pcs; rewrite ?Ecp, ?Ebp, ?El; reflexivity.
Qed.

Lemma lock_ok_bh c st : g_locked c = true -> lock_ok st = true -> lock_ok (fst (bh_step c st)) = true.
Proof.
  intros Hl H. unfold lock_ok in H. unfold bh_step, panic_b, loop_head, release_b. rewrite Hl.
  destruct (bp st) eqn:Ebp; destruct (lock st) as [[|]|] eqn:El; cbn in H; try discriminate;
    destruct (cp st) eqn:Ecp; cbn in H; try discriminate;
    break_match Ecp Ebp El; unfold lock_ok; red_pcs; rewrite ?Ecp, ?Ebp, ?El; reflexivity.
Qed.

Lemma lock_ok_no_overlap st g code : lock_ok st = true -> overlap st g code -> False.
Proof.
  unfold lock_ok, overlap. intros H [[_ [Hw Hc]]|[_ [Hc [Hb _]]]].
  - destruct (bp st); try discriminate; destruct (lock st) as [[|]|]; cbn in H; try discriminate;
      destruct (cp st); cbn in *; try discriminate;
      destruct Hc as [[? _]|[_ [? _]]]; discriminate.
  - rewrite Hc in H. destruct (bp st); try discriminate; destruct (lock st) as [[|]|]; cbn in H; discriminate.
Qed.

Lemma locked_fl c sched st :
  g_locked c = true -> lock_ok st = true -> fl st = 0 ->
  fl (run c st sched) = 0 /\ lock_ok (run c st sched) = true.
Proof.
  intros Hl. revert st. induction sched as [|g r IH]; intros st Hk H0; [split; assumption|].
  cbn. apply IH.
  - unfold step. destruct g; [apply lock_ok_bh|apply lock_ok_cf]; assumption.
  - destruct (Z.eq_dec (fl (fst (step c st g))) 0) as [E|E]; [exact E|].
    exfalso. eapply lock_ok_no_overlap; [exact Hk|]. eapply conc_flag_only_if; eassumption.
Qed.

(* the repaired tree: every schedule *)
Lemma conc_all_schedules_safe c bc ff sched :
  g_locked c = true -> wf_init bc ff -> wf_new bc (g_new c) ->
  let st := run c (init_state bc ff) sched in
  never_ahead st /\ (finished st = true -> conc_ok (sub_of bc ff) st).
Proof.
  intros Hl Hi Hn st. apply conc_safe_unless; try assumption.
  apply (locked_fl c sched (init_state bc ff) Hl); reflexivity.
Qed.

(* nobody waits for a mutex that is free: no deadlock *)
Lemma conc_locked_no_deadlock c bc ff sched :
  g_locked c = true ->
  let st := run c (init_state bc ff) sched in
  (c_wait (cp st) = true -> bh_in (bp st) = true) /\ (b_wait (bp st) = true -> cf_in (cp st) = true).
Proof.
  intros Hl st. destruct (locked_fl c sched (init_state bc ff) Hl eq_refl eq_refl) as [_ Hk].
  fold st in Hk. unfold lock_ok in Hk.
  destruct (lock st) as [[|]|]; destruct (cp st); destruct (bp st); cbn in *; try discriminate; split; intros; try discriminate; reflexivity.
Qed.

(* ================= one after the other ================= *)

Lemma cf_step_bp c st : b_wait (bp st) = false -> bp (fst (cf_step c st)) = bp st.
Proof.
  intros Hw. unfold cf_step, finish_c, release_c.
  destruct (cp st) eqn:Ecp; destruct (bp st) eqn:Ebp; try discriminate;
    destruct (lock st) eqn:El; break_match Ecp Ebp El; red_pcs; rewrite ?Ebp; reflexivity.
Qed.

Lemma bh_step_cp c st : c_wait (cp st) = false -> cp (fst (bh_step c st)) = cp st.
Proof.
  intros Hw. unfold bh_step, panic_b, loop_head, release_b.
  destruct (bp st) eqn:Ebp; destruct (cp st) eqn:Ecp; try discriminate;
    destruct (lock st) eqn:El; break_match Ecp Ebp El; red_pcs; rewrite ?Ecp; reflexivity.
Qed.

(* cf alone, bh not started: nothing overlaps *)
Lemma cf_alone_fl c n st :
  fl st = 0 -> bp st = BStart ->
  fl (run c st (repeat false n)) = 0 /\ bp (run c st (repeat false n)) = BStart.
Proof.
  revert st. induction n as [|n IH]; intros st H0 Hb; [split; assumption|].
  cbn. apply IH.
  - destruct (Z.eq_dec (fl (fst (cf_step c st))) 0) as [E|E]; [exact E|]. exfalso.
    destruct (conc_flag_only_if c st false H0 E) as [[Hg _]|[_ [_ [Hl _]]]]; [discriminate|].
    rewrite Hb in Hl. discriminate.
  - rewrite cf_step_bp; [exact Hb|rewrite Hb; reflexivity].
Qed.

(* bh alone after cf has finished (or before it has started) *)
Lemma bh_alone_fl c n st :
  fl st = 0 -> cf_in (cp st) = false -> c_wait (cp st) = false ->
  fl (run c st (repeat true n)) = 0 /\ cp (run c st (repeat true n)) = cp st.
Proof.
  revert st. induction n as [|n IH]; intros st H0 Hc Hw; [split; [assumption|reflexivity]|].
  change (run c st (repeat true (S n))) with (run c (fst (bh_step c st)) (repeat true n)).
  pose proof (bh_step_cp c st Hw) as Ecp.
  destruct (IH (fst (bh_step c st))) as [I1 I2].
  - destruct (Z.eq_dec (fl (fst (bh_step c st))) 0) as [E|E]; [exact E|]. exfalso.
    destruct (conc_flag_only_if c st true H0 E) as [[_ [_ Hx]]|[Hg _]]; [|discriminate].
    destruct (cp st); cbn in *; destruct Hx as [[? _]|[_ [? _]]]; discriminate.
  - rewrite Ecp. exact Hc.
  - rewrite Ecp. exact Hw.
  - split; [exact I1|]. rewrite I2. exact Ecp.
Qed.

(* cf alone after bh has finished *)
Lemma cf_after_fl c n st :
  fl st = 0 -> b_done (bp st) = true ->
  fl (run c st (repeat false n)) = 0 /\ bp (run c st (repeat false n)) = bp st.
Proof.
  revert st. induction n as [|n IH]; intros st H0 Hb; [split; [assumption|reflexivity]|].
  change (run c st (repeat false (S n))) with (run c (fst (cf_step c st)) (repeat false n)).
  assert (Hw : b_wait (bp st) = false) by (destruct (bp st); try discriminate; reflexivity).
  pose proof (cf_step_bp c st Hw) as Ebp.
  destruct (IH (fst (cf_step c st))) as [I1 I2].
  - destruct (Z.eq_dec (fl (fst (cf_step c st))) 0) as [E|E]; [exact E|]. exfalso.
    destruct (conc_flag_only_if c st false H0 E) as [[Hg _]|[_ [_ [Hl _]]]]; [discriminate|].
    destruct (bp st); discriminate.
  - rewrite Ebp. exact Hb.
  - split; [exact I1|]. rewrite I2. exact Ebp.
Qed.

Lemma conc_sequential_safe c bc ff n m :
  wf_init bc ff -> wf_new bc (g_new c) ->
  (* writeCFHeadersMsg first, then the reorganisation *)
  (let s1 := run c (init_state bc ff) (repeat false n) in
   let s2 := run c s1 (repeat true m) in
   c_done (cp s1) = true -> b_done (bp s2) = true -> conc_ok (sub_of bc ff) s2) /\
  (* the reorganisation first, then writeCFHeadersMsg *)
  (let s1 := run c (init_state bc ff) (repeat true n) in
   let s2 := run c s1 (repeat false m) in
   b_done (bp s1) = true -> c_done (cp s2) = true -> conc_ok (sub_of bc ff) s2).
Proof.
  intros Hi Hn. split.
  - intros s1 s2 Hc Hb.
    destruct (cf_alone_fl c n (init_state bc ff) eq_refl eq_refl) as [F1 B1]. fold s1 in F1, B1.
    assert (Hcin : cf_in (cp s1) = false) by (destruct (cp s1); try discriminate; reflexivity).
    assert (Hcw : c_wait (cp s1) = false) by (destruct (cp s1); try discriminate; reflexivity).
    destruct (bh_alone_fl c m s1 F1 Hcin Hcw) as [F2 C2]. fold s2 in F2, C2.
    assert (E : s2 = run c (init_state bc ff) (repeat false n ++ repeat true m)) by (rewrite run_app; reflexivity).
    rewrite E in *. apply (conc_safe_unless c bc ff _ Hi Hn F2).
    unfold finished. rewrite C2, Hc, Hb. reflexivity.
  - intros s1 s2 Hb Hc.
    destruct (bh_alone_fl c n (init_state bc ff) eq_refl eq_refl eq_refl) as [F1 C1]. fold s1 in F1, C1.
    destruct (cf_after_fl c m s1 F1 Hb) as [F2 B2]. fold s2 in F2, B2.
    assert (E : s2 = run c (init_state bc ff) (repeat true n ++ repeat false m)) by (rewrite run_app; reflexivity).
    rewrite E in *. apply (conc_safe_unless c bc ff _ Hi Hn F2).
    unfold finished. rewrite B2, Hc, Hb. reflexivity.
Qed.
