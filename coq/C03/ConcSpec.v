(* C03 / ConcSpec — the store predicates of C03 on the shared state of the
   interleaving model (Conc.v), as a decidable monitor over the observable
   part of a state.  The same monitor runs on the implementation's final
   state in ReplayConc.v. *)
From Coq Require Import ZArith List Bool Lia.
Import ListNotations.
From Verif Require Import C03.Conc.
Open Scope Z_scope.

(* ---------- a subscriber replaying the notifications ---------- *)
(* [sub]: the hashes it believes committed, by height.  A connected event must
   extend its chain by exactly one; a disconnected event must remove its top;
   a disconnected event for a height it never heard of (a block header rolled
   back before its filter header was committed) is ignored. *)
Definition replay_ev (sub : list Z) (e : ev) : option (list Z) :=
  match e with
  | EConn x h => if (h =? length sub)%nat then Some (sub ++ [x]) else None
  | EDisc x h _ =>
    if (length sub <=? h)%nat then Some sub
    else if (S h =? length sub)%nat && (last sub 0 =? x) then Some (removelast sub)
    else None
  end.

Fixpoint replay (sub : list Z) (es : list ev) : option (list Z) :=
  match es with
  | [] => Some sub
  | e :: r => match replay_ev sub e with Some s => replay s r | None => None end
  end.

(* ---------- observable part of a state ---------- *)
Record fobs := {
  o_b : list blk;               (* block chain, by height *)
  o_f : list fent;              (* filter file, by position (ghost fields from the truth table) *)
  o_ftip : option (Z * nat);    (* FilterHeaderStore.ChainTip *)
  o_mem : nat * Z;              (* filterHeaderTip, filterHeaderTipHash *)
  o_ev : list ev;
  o_cres : Z;                   (* writeCFHeadersMsg: -1 not finished, 0 ok, >0 error *)
  o_bres : Z                    (* handleHeadersMsg: -1 not finished, 0 returned, 2 panicked *)
}.

Definition cres (p : cpc) : Z := match p with CDone e => e | _ => -1 end.
Definition bres (p : bpc) : Z := match p with BDone => 0 | BPanic => 2 | _ => -1 end.

Definition observe (st : cstate) : fobs :=
  let s := sh st in
  {| o_b := bchain s; o_f := ffile s;
     o_ftip := match f_chain_tip s with Some (e, h) => Some (fv e, h) | None => None end;
     o_mem := (memtip s, memhash s); o_ev := events s;
     o_cres := cres (cp st); o_bres := bres (bp st) |}.

Definition ids (l : list blk) : list Z := map bid l.

(* ---------- the predicates ---------- *)
(* P1 never ahead *)
Definition p_not_ahead (o : fobs) : bool :=
  (1 <=? length (o_f o))%nat && (length (o_f o) <=? length (o_b o))%nat.

(* P2 each filter entry belongs to the block at its height on the current chain *)
Fixpoint belongsb (f : list fent) (b : list blk) : bool :=
  match f, b with
  | [], _ => true
  | e :: fr, x :: br => (fblk e =? bid x) && belongsb fr br
  | _ :: _, [] => false
  end.

(* P3 every entry is the hash-chain successor of the entry below it *)
Fixpoint linkedb (f : list fent) : bool :=
  match f with
  | e :: ((e' :: _) as r) => (fprev e' =? fv e) && linkedb r
  | _ => true
  end.

(* P4 the tip key names the stored block at the height of the last entry, so
   that ChainTip is readable and returns the last entry *)
Definition p_tip (o : fobs) : bool :=
  match o_ftip o, rev (o_f o) with
  | Some (v, h), e :: _ => (v =? fv e) && (S h =? length (o_f o))%nat
  | _, _ => false
  end.

(* P5 the in-memory tip is the store's tip *)
Definition p_mem (o : fobs) : bool :=
  (S (fst (o_mem o)) =? length (o_f o))%nat &&
  match nth_error (o_b o) (fst (o_mem o)) with
  | Some x => snd (o_mem o) =? bid x
  | None => false
  end.

Fixpoint list_eqb (a b : list Z) : bool :=
  match a, b with
  | [], [] => true
  | x :: a', y :: b' => (x =? y) && list_eqb a' b'
  | _, _ => false
  end.

(* P6 the notifications, replayed from the chain committed at the start,
   give exactly the chain committed now *)
Definition p_events (sub0 : list Z) (o : fobs) : bool :=
  match replay sub0 (o_ev o) with
  | Some s => list_eqb s (ids (firstn (length (o_f o)) (o_b o)))
  | None => false
  end.

(* P7 the block handler did not panic *)
Definition p_nopanic (o : fobs) : bool := negb (o_bres o =? 2).

(* the block chain itself: distinct hashes, every header names the one below *)
Fixpoint linked_b (b : list blk) : bool :=
  match b with
  | x :: ((y :: _) as r) => (bprev y =? bid x) && linked_b r
  | _ => true
  end.
Fixpoint nodupb (l : list Z) : bool :=
  match l with
  | [] => true
  | x :: r => negb (existsb (Z.eqb x) r) && nodupb r
  end.
Definition p_chain (o : fobs) : bool := linked_b (o_b o) && nodupb (ids (o_b o)).

Definition conc_okb (sub0 : list Z) (o : fobs) : bool :=
  p_chain o && p_not_ahead o && belongsb (o_f o) (o_b o) && linkedb (o_f o) &&
  p_tip o && p_mem o && p_events sub0 o && p_nopanic o.

(* index of the first predicate that fails (0 = all hold): the [step] column
   of a kind-2 row *)
Definition conc_fail (sub0 : list Z) (o : fobs) : Z :=
  if negb (p_chain o) then 8
  else if negb (p_not_ahead o) then 1
  else if negb (belongsb (o_f o) (o_b o)) then 2
  else if negb (linkedb (o_f o)) then 3
  else if negb (p_tip o) then 4
  else if negb (p_mem o) then 5
  else if negb (p_events sub0 o) then 6
  else if negb (p_nopanic o) then 7
  else 0.

Definition conc_ok (sub0 : list Z) (st : cstate) : Prop := conc_okb sub0 (observe st) = true.

(* what holds at EVERY moment, also in the middle of the two operations *)
Definition never_ahead (st : cstate) : Prop :=
  (length (ffile (sh st)) <= length (bchain (sh st)))%nat.

(* ---------- well-formed inputs ---------- *)
(* the state before the two operations satisfies the predicates *)
Definition sub_of (bc : list blk) (ff : list fent) : list Z := ids (firstn (length ff) bc).

Definition wf_init (bc : list blk) (ff : list fent) : Prop :=
  conc_okb (sub_of bc ff) (observe (init_state bc ff)) = true.

(* the headers message: a chain of new, distinct headers *)
Definition wf_new (bc : list blk) (nw : list blk) : Prop :=
  linked_b nw = true /\ nodupb (ids bc ++ ids nw) = true.
