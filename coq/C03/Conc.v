(* C03 / Conc — interleaving model of ONE writeCFHeadersMsg (goroutine
   cfHandler, "cf") against ONE reorganising handleHeadersMsg (goroutine
   blockHandler, "bh") over the two header stores, the in-memory filter tip
   and the notification stream of blockmanager.go.  Executable, no proofs.

   The atomic steps are the individual store calls / locked sections the Go
   code performs, in program order (every header-store method takes the
   store's own mutex for its whole body; the in-memory tip is written under
   newFilterHeadersMtx; a notification is one send on the unbuffered
   blockNtfnChan):

     cf  writeCFHeadersMsg(msg)                bh  handleHeadersMsg(reorg message)
     --  ---------------------------------    --  ---------------------------------
     CStart  enter (Lock of the repair)        BStart  the header loop up to the reorg
     C1  RegFilterHeaders.ChainTip                     decision (block-store READS only:
         + PrevFilterHeader / empty checks             FetchHeader, sanity context,
     C2  BlockHeaders.FetchHeaderAncestors             known-work walk), then
         + alignment check (F26)                       rollBackToHeight is entered
     C3  RegFilterHeaders.WriteHeaders                 (Lock of the repair)
     C4  filterHeaderTip/-Hash := last         BR0  BlockHeaders.ChainTip
         (under newFilterHeadersMtx)           BR1  RegFilterHeaders.ChainTip -> regHeight
     CN i  onBlockConnected(block i)           per block above the fork point:
         after the last one: return            BB1  BlockHeaders.FetchHeader(bs.Hash)
         (Unlock of the repair)                BB2  RegFilterHeaders.RollbackLastBlock   } only if
                                               BB3  filterHeaderTip/-Hash := new tip     } bs.Height <= regHeight
                                               BB4  BlockHeaders.RollbackLastBlock
                                               BB5  BlockHeaders.FetchHeader(newTip)
                                               BB6  onBlockDisconnected
                                               (return: Unlock of the repair)
                                               BW1  BlockHeaders.WriteHeaders(first new header)
                                               BW2  BlockHeaders.WriteHeaders(the other new headers)
                                               (BWA: the message only extends the tip - one WriteHeaders)

   A schedule is a list of goroutine ids (false = cf, true = bh); an entry
   naming a goroutine that is finished or blocked on the mutex is a stutter.

   [g_locked] selects the code: false = the tree before the repair of F18
   (no common lock), true = the repaired tree (one mutex, reorgMtx, held by
   writeCFHeadersMsg and by rollBackToHeight for their whole bodies).

   The stores are the two-list abstraction (C07) with the index made
   explicit where the interleavings can break it: the filter store's tip is
   a KEY (a block hash) resolved through the hash->height index shared with
   the block store, the index holds exactly the blocks of the current block
   chain (rollback deletes the entries), filter-file appends go to the end of
   the file whatever its length.  Heights are list positions (nat); uint32
   wrap-around is not reachable below 2^32 entries except in "tip height - 1"
   at height 0 and "end - n" in FetchHeaderAncestors, both written out.

   Ghost state (never read by a step): per filter entry the value it was
   chained from and the block it was derived for; [fl], the code of the FIRST
   overlap of the two critical windows:
     1  a rollback step ran between the filter-tip read and WriteHeaders of cf
     2  WriteHeaders of cf ran between the regHeight read and the end of bh's
        rollback loop
     3  a rollback step ran between WriteHeaders and the last notification of cf *)
From Coq Require Import ZArith List Bool Lia.
Import ListNotations.
Open Scope Z_scope.

Record blk := { bid : Z; bprev : Z }.
Record fent := { fv : Z; fprev : Z; fblk : Z }.
Inductive ev := EConn (x : Z) (h : nat) | EDisc (x : Z) (h : nat) (nt : Z).

(* cfheaders message with the headers already derived (dsha256 chaining is
   local computation): previous filter header, derived headers, stop hash *)
Record cfmsg := { m_prev : Z; m_ents : list Z; m_stop : Z }.

Record cfg := { g_msg : cfmsg; g_new : list blk; g_locked : bool }.

Inductive cpc := CStart | CWait | C1 | C2 | C3 | C4 | CN (i : nat) | CDone (err : Z).
Inductive bpc := BStart | BWait | BR0 | BR1 | BB1 | BB2 | BB3 | BB4 | BB5 | BB6
               | BW1 | BW2 | BWA | BDone | BPanic.

Record shared := {
  bchain : list blk;       (* block header store: position = height *)
  ffile : list fent;       (* filter header file *)
  ftipkey : Z;             (* filter store's tip key: a block hash *)
  memtip : nat;            (* blockManager.filterHeaderTip *)
  memhash : Z;             (* blockManager.filterHeaderTipHash *)
  events : list ev         (* notifications handed over so far *)
}.

Record clocal := { c_tipv : Z; c_tiph : nat; c_start : nat; c_hdrs : list blk }.
Record blocal := { b_back : nat; bs_h : nat; bs_id : Z; b_regh : nat; b_cur : blk; b_curh : nat;
                   b_roll : bool (* this iteration rolls the filter header back too *) }.

Record cstate := {
  sh : shared;
  lock : option bool;      (* holder of reorgMtx: false = cf, true = bh *)
  cp : cpc; cl : clocal;
  bp : bpc; bl : blocal;
  fl : Z
}.

(* observation of one step: (who, code, a, b, c); who 0 = cf, 1 = bh *)
Definition obs := (Z * Z * Z * Z * Z)%type.
Definition ob (w c a b d : Z) : obs := (w, c, a, b, d).
Definition zof (n : nat) : Z := Z.of_nat n.

(* ---------- store reads ---------- *)
Fixpoint index_of (x : Z) (l : list blk) : option nat :=
  match l with
  | [] => None
  | b :: r => if bid b =? x then Some O else option_map S (index_of x r)
  end.

Definition tip_id (l : list blk) : Z := match last l {| bid := 0; bprev := 0 |} with b => bid b end.

(* FilterHeaderStore.ChainTip: tip key -> height (index) -> file entry *)
Definition f_chain_tip (s : shared) : option (fent * nat) :=
  match index_of (ftipkey s) (bchain s) with
  | Some h => match nth_error (ffile s) h with Some e => Some (e, h) | None => None end
  | None => None
  end.

(* ---------- setters ---------- *)
Definition set_sh (st : cstate) (s : shared) : cstate :=
  {| sh := s; lock := lock st; cp := cp st; cl := cl st; bp := bp st; bl := bl st; fl := fl st |}.
Definition set_cp (st : cstate) (p : cpc) : cstate :=
  {| sh := sh st; lock := lock st; cp := p; cl := cl st; bp := bp st; bl := bl st; fl := fl st |}.
Definition set_cl (st : cstate) (l : clocal) : cstate :=
  {| sh := sh st; lock := lock st; cp := cp st; cl := l; bp := bp st; bl := bl st; fl := fl st |}.
Definition set_bp (st : cstate) (p : bpc) : cstate :=
  {| sh := sh st; lock := lock st; cp := cp st; cl := cl st; bp := p; bl := bl st; fl := fl st |}.
Definition set_bl (st : cstate) (l : blocal) : cstate :=
  {| sh := sh st; lock := lock st; cp := cp st; cl := cl st; bp := bp st; bl := l; fl := fl st |}.
Definition set_lock (st : cstate) (l : option bool) : cstate :=
  {| sh := sh st; lock := l; cp := cp st; cl := cl st; bp := bp st; bl := bl st; fl := fl st |}.
Definition set_fl (st : cstate) (n : Z) : cstate :=
  {| sh := sh st; lock := lock st; cp := cp st; cl := cl st; bp := bp st; bl := bl st;
     fl := if fl st =? 0 then n else fl st |}.

(* ---------- the mutex of the repair ---------- *)
(* Unlock by cf: a blocked bh takes the mutex at once and reaches BR0 *)
Definition release_c (c : cfg) (st : cstate) : cstate :=
  if g_locked c then
    match bp st with
    | BWait => set_bp (set_lock st (Some true)) BR0
    | _ => set_lock st None
    end
  else st.
Definition release_b (c : cfg) (st : cstate) : cstate :=
  if g_locked c then
    match cp st with
    | CWait => set_cp (set_lock st (Some false)) C1
    | _ => set_lock st None
    end
  else st.

Definition finish_c (c : cfg) (st : cstate) (err : Z) : cstate :=
  release_c c (set_cp st (CDone err)).
Definition panic_b (c : cfg) (st : cstate) : cstate :=
  release_b c (set_bp st BPanic).

(* ---------- ghost: overlap of the critical windows ---------- *)
Definition cf_pre (p : cpc) : bool := match p with C2 | C3 => true | _ => false end.
Definition cf_post (p : cpc) : bool := match p with C4 | CN _ => true | _ => false end.
Definition bh_loop (p : bpc) : bool :=
  match p with BB1 | BB2 | BB3 | BB4 | BB5 | BB6 => true | _ => false end.

(* a rollback step of bh that writes shared state *)
Definition mark_b (st : cstate) : cstate :=
  if cf_pre (cp st) then set_fl st 1 else if cf_post (cp st) then set_fl st 3 else st.
(* the filter write of cf *)
Definition mark_c (st : cstate) : cstate :=
  if bh_loop (bp st) then set_fl st 2 else st.

(* ---------- cf: writeCFHeadersMsg ---------- *)
Fixpoint mk_ents (prev : Z) (vs : list Z) (hs : list blk) : list fent :=
  match vs, hs with
  | v :: vr, h :: hr => {| fv := v; fprev := prev; fblk := bid h |} :: mk_ents v vr hr
  | _, _ => []
  end.

Definition cf_step (c : cfg) (st : cstate) : cstate * obs :=
  let m := g_msg c in
  let k := length (m_ents m) in
  match cp st with
  | CStart =>
    if g_locked c then
      match lock st with
      | None => (set_cp (set_lock st (Some false)) C1, ob 0 1 1 0 0)
      | Some _ => (set_cp st CWait, ob 0 1 0 0 0)
      end
    else (set_cp st C1, ob 0 1 1 0 0)
  | CWait => (st, ob 0 0 0 0 0)
  | C1 =>
    match f_chain_tip (sh st) with
    | None => (finish_c c st 1, ob 0 10 (-1) 0 0)
    | Some (e, h) =>
      let o := ob 0 10 (fv e) (zof h) 0 in
      if negb (fv e =? m_prev m) then (finish_c c st 2, o)
      else if (k =? 0)%nat then (finish_c c st 3, o)
      else (set_cp (set_cl st {| c_tipv := fv e; c_tiph := h; c_start := O; c_hdrs := [] |}) C2, o)
    end
  | C2 =>
    match index_of (m_stop m) (bchain (sh st)) with
    | None => (finish_c c st 4, ob 0 11 (zof (k - 1)) (m_stop m) (-1))
    | Some e =>
      (* startHeight := endHeight - numHeaders wraps below zero: the range read fails *)
      if (e <? k - 1)%nat then (finish_c c st 4, ob 0 11 (zof (k - 1)) (m_stop m) (-1))
      else
        let start := (e - (k - 1))%nat in
        let hdrs := firstn k (skipn start (bchain (sh st))) in
        let o := ob 0 11 (zof (k - 1)) (m_stop m) (zof start) in
        if negb (start =? S (c_tiph (cl st)))%nat then (finish_c c st 5, o)
        else (set_cp (set_cl st {| c_tipv := c_tipv (cl st); c_tiph := c_tiph (cl st);
                                   c_start := start; c_hdrs := hdrs |}) C3, o)
    end
  | C3 =>
    let s := sh st in
    let lastid := tip_id (c_hdrs (cl st)) in
    let s' := {| bchain := bchain s;
                 ffile := ffile s ++ mk_ents (m_prev m) (m_ents m) (c_hdrs (cl st));
                 ftipkey := lastid; memtip := memtip s; memhash := memhash s; events := events s |} in
    (set_cp (set_sh (mark_c st) s') C4, ob 0 12 (zof k) lastid 0)
  | C4 =>
    let s := sh st in
    let lastid := tip_id (c_hdrs (cl st)) in
    let lasth := (c_start (cl st) + k - 1)%nat in
    let s' := {| bchain := bchain s; ffile := ffile s; ftipkey := ftipkey s;
                 memtip := lasth; memhash := lastid; events := events s |} in
    (set_cp (set_sh st s') (CN O), ob 0 13 (zof lasth) lastid 0)
  | CN i =>
    let s := sh st in
    match nth_error (c_hdrs (cl st)) i with
    | None => (finish_c c st 0, ob 0 0 0 0 0)
    | Some b =>
      let h := (c_start (cl st) + i)%nat in
      let s' := {| bchain := bchain s; ffile := ffile s; ftipkey := ftipkey s;
                   memtip := memtip s; memhash := memhash s;
                   events := events s ++ [EConn (bid b) h] |} in
      let st' := set_sh st s' in
      let o := ob 0 14 (bid b) (zof h) 0 in
      if (S i <? length (c_hdrs (cl st)))%nat then (set_cp st' (CN (S i)), o)
      else (finish_c c st' 0, o)
    end
  | CDone _ => (st, ob 0 0 0 0 0)
  end.

(* ---------- bh: handleHeadersMsg, reorganisation branch ---------- *)
Definition newtip (st : cstate) : Z := bprev (b_cur (bl st)).

(* top of the loop of rollBackToHeight; on exit the function returns *)
Definition loop_head (c : cfg) (st : cstate) : cstate :=
  if (b_back (bl st) <? bs_h (bl st))%nat then set_bp st BB1
  else release_b c (set_bp st BW1).

Definition bh_step (c : cfg) (st : cstate) : cstate * obs :=
  let s := sh st in
  let l := bl st in
  match bp st with
  | BStart =>
    match g_new c with
    | [] => (set_bp st BDone, ob 1 1 0 0 0)
    | n1 :: _ =>
      if bprev n1 =? tip_id (bchain s) then (set_bp st BWA, ob 1 1 2 0 0)   (* plain extension *)
      else
        match index_of (bid n1) (bchain s) with
        | Some _ => (set_bp st BDone, ob 1 1 0 0 0)                          (* known header *)
        | None =>
          match index_of (bprev n1) (bchain s) with
          | None => (set_bp st BDone, ob 1 1 0 0 0)                          (* does not connect *)
          | Some back =>
            let st1 := set_bl st {| b_back := back; bs_h := O; bs_id := 0; b_regh := O;
                                    b_cur := {| bid := 0; bprev := 0 |}; b_curh := O; b_roll := false |} in
            if g_locked c then
              match lock st with
              | None => (set_bp (set_lock st1 (Some true)) BR0, ob 1 1 1 0 0)
              | Some _ => (set_bp st1 BWait, ob 1 1 0 0 0)
              end
            else (set_bp st1 BR0, ob 1 1 1 0 0)
          end
        end
    end
  | BWait => (st, ob 1 0 0 0 0)
  | BR0 =>
    let h := (length (bchain s) - 1)%nat in
    let x := tip_id (bchain s) in
    (set_bp (set_bl st {| b_back := b_back l; bs_h := h; bs_id := x; b_regh := b_regh l;
                          b_cur := b_cur l; b_curh := b_curh l; b_roll := b_roll l |}) BR1, ob 1 20 x (zof h) 0)
  | BR1 =>
    match f_chain_tip s with
    | None => (panic_b c st, ob 1 10 (-1) 0 0)
    | Some (e, h) =>
      (loop_head c (set_bl st {| b_back := b_back l; bs_h := bs_h l; bs_id := bs_id l; b_regh := h;
                                 b_cur := b_cur l; b_curh := b_curh l; b_roll := b_roll l |}), ob 1 10 (fv e) (zof h) 0)
    end
  | BB1 =>
    match index_of (bs_id l) (bchain s) with
    | None => (panic_b c st, ob 1 21 (bs_id l) (-1) 0)
    | Some h =>
      let cur := nth h (bchain s) {| bid := 0; bprev := 0 |} in
      let st1 := set_bl st {| b_back := b_back l; bs_h := bs_h l; bs_id := bs_id l; b_regh := b_regh l;
                              b_cur := cur; b_curh := h; b_roll := (bs_h l <=? b_regh l)%nat |} in
      (set_bp st1 (if (bs_h l <=? b_regh l)%nat then BB2 else BB4), ob 1 21 (bs_id l) (zof h) 0)
    end
  | BB2 =>
    let nt := newtip st in
    match index_of (ftipkey s) (bchain s) with
    | None => (panic_b c st, ob 1 22 nt (-1) 0)
    | Some th =>
      match th with
      | O => (panic_b c st, ob 1 22 nt (-1) 0)       (* tip height - 1 wraps: read fails *)
      | S nh =>
        match nth_error (ffile s) nh with
        | None => (panic_b c st, ob 1 22 nt (-1) 0)
        | Some _ =>
          let s' := {| bchain := bchain s; ffile := removelast (ffile s); ftipkey := nt;
                       memtip := memtip s; memhash := memhash s; events := events s |} in
          let st1 := set_bl (set_sh (mark_b st) s')
                            {| b_back := b_back l; bs_h := bs_h l; bs_id := bs_id l; b_regh := nh;
                               b_cur := b_cur l; b_curh := b_curh l; b_roll := b_roll l |} in
          (set_bp st1 BB3, ob 1 22 nt (zof nh) 0)
        end
      end
    end
  | BB3 =>
    let nt := newtip st in
    let s' := {| bchain := bchain s; ffile := ffile s; ftipkey := ftipkey s;
                 memtip := b_regh l; memhash := nt; events := events s |} in
    (set_bp (set_sh (mark_b st) s') BB4, ob 1 23 (zof (b_regh l)) nt 0)
  | BB4 =>
    match length (bchain s) with
    | O | S O => (panic_b c st, ob 1 24 0 (-1) 0)    (* cannot roll back the genesis block *)
    | S (S n) =>
      let bc := removelast (bchain s) in
      let x := tip_id bc in
      let s' := {| bchain := bc; ffile := ffile s; ftipkey := ftipkey s;
                   memtip := memtip s; memhash := memhash s; events := events s |} in
      let st1 := set_bl (set_sh (mark_b st) s')
                        {| b_back := b_back l; bs_h := n; bs_id := x; b_regh := b_regh l;
                           b_cur := b_cur l; b_curh := b_curh l; b_roll := b_roll l |} in
      (set_bp st1 BB5, ob 1 24 x (zof n) 0)
    end
  | BB5 =>
    let nt := newtip st in
    match index_of nt (bchain s) with
    | None => (panic_b c st, ob 1 21 nt (-1) 0)
    | Some h => (set_bp st BB6, ob 1 21 nt (zof h) 0)
    end
  | BB6 =>
    let nt := newtip st in
    let s' := {| bchain := bchain s; ffile := ffile s; ftipkey := ftipkey s;
                 memtip := memtip s; memhash := memhash s;
                 events := events s ++ [EDisc (bid (b_cur l)) (b_curh l) nt] |} in
    (loop_head c (set_sh (mark_b st) s'), ob 1 25 (bid (b_cur l)) (zof (b_curh l)) nt)
  | BW1 =>
    match g_new c with
    | [] => (set_bp st BDone, ob 1 0 0 0 0)
    | n1 :: rest =>
      let s' := {| bchain := bchain s ++ [n1]; ffile := ffile s; ftipkey := ftipkey s;
                   memtip := memtip s; memhash := memhash s; events := events s |} in
      (set_bp (set_sh st s') (match rest with [] => BDone | _ => BW2 end),
       ob 1 26 1 (bid n1) (zof (S (b_back l))))
    end
  | BW2 =>
    (* the headers behind the first one of the new branch (headerWriteBatch) *)
    let hs := tl (g_new c) in
    let s' := {| bchain := bchain s ++ hs; ffile := ffile s; ftipkey := ftipkey s;
                 memtip := memtip s; memhash := memhash s; events := events s |} in
    (set_bp (set_sh st s') BDone,
     ob 1 26 (zof (length hs)) (match hs with [] => 0 | x :: _ => bid x end) (zof (S (S (b_back l)))))
  | BWA =>
    (* no reorganisation: the message extends the tip; one WriteHeaders *)
    let hs := g_new c in
    let s' := {| bchain := bchain s ++ hs; ffile := ffile s; ftipkey := ftipkey s;
                 memtip := memtip s; memhash := memhash s; events := events s |} in
    (set_bp (set_sh st s') BDone,
     ob 1 26 (zof (length hs)) (match hs with [] => 0 | x :: _ => bid x end) (zof (length (bchain s))))
  | BDone | BPanic => (st, ob 1 0 0 0 0)
  end.

(* ---------- schedules ---------- *)
Definition step (c : cfg) (st : cstate) (g : bool) : cstate * obs :=
  if g then bh_step c st else cf_step c st.

Definition run (c : cfg) (st : cstate) (sched : list bool) : cstate :=
  fold_left (fun s g => fst (step c s g)) sched st.

Fixpoint run_obs (c : cfg) (st : cstate) (sched : list bool) : cstate * list obs :=
  match sched with
  | [] => (st, [])
  | g :: r =>
    let '(st1, o) := step c st g in
    let '(st2, os) := run_obs c st1 r in (st2, o :: os)
  end.

Definition init_shared (bc : list blk) (ff : list fent) : shared :=
  let h := (length ff - 1)%nat in
  let x := bid (nth h bc {| bid := 0; bprev := 0 |}) in
  {| bchain := bc; ffile := ff; ftipkey := x; memtip := h; memhash := x; events := [] |}.

Definition init_state (bc : list blk) (ff : list fent) : cstate :=
  {| sh := init_shared bc ff; lock := None;
     cp := CStart; cl := {| c_tipv := 0; c_tiph := O; c_start := O; c_hdrs := [] |};
     bp := BStart; bl := {| b_back := O; bs_h := O; bs_id := 0; b_regh := O;
                            b_cur := {| bid := 0; bprev := 0 |}; b_curh := O; b_roll := false |};
     fl := 0 |}.

Definition c_done (p : cpc) : bool := match p with CDone _ => true | _ => false end.
Definition b_done (p : bpc) : bool := match p with BDone | BPanic => true | _ => false end.
Definition finished (st : cstate) : bool := c_done (cp st) && b_done (bp st).

(* a schedule long enough for both goroutines whatever the interleaving:
   the two sequences one after the other, twice (a goroutine blocked on the
   mutex in the first round runs in the second) *)
Definition seq_sched (first_bh : bool) (n : nat) : list bool :=
  repeat first_bh n ++ repeat (negb first_bh) n ++ repeat first_bh n.
