(* C03 — the loop invariant is kept by every round and every event. *)
From stdpp Require Import gmap list.
From Coq Require Import ZArith Lia ZifyBool.
From Verif Require Import S1.Model C07.Spec C03.Model C03.Spec C03.Proofs C03.ProofsF C03.ProofsU C03.ProofsS
     C03.ProofsR C03.ProofsP C03.ProofsC C03.Loop C03.LoopSpec C03.LoopTruth C03.LoopProofs.
Open Scope Z_scope.

Section R.
Variable H : Z -> Z -> Z.
Variable fh : Z -> Z.
Hypothesis H_inj : forall a b a' b', H a b = H a' b' -> a = a' /\ b = b'.
Variable parent : Z -> Z.
Variable g : Z.
Variable p : Z.
Variable c : lcfg.
Variable tfilt : Z -> Z.

Notation thdrs := (thdrs H fh).
Notation thd := (thd H fh).
Notation tcps := (tcps H fh).
Notation tmsg := (tmsg H fh).
Notation committed_true := (committed_true H fh).
Notation linv := (linv H fh parent g p c).
Notation cps_true := (cps_true H fh).

(* ---------- the lists ---------- *)
Lemma refetch_false s lastH lastX :
  refetch_cond c s lastH lastX = false ->
  (min_checkpoint_height (l_cache s) <? lastH) = false /\
  (c_height_only c = false -> l_cache_stop s = snd (best c lastH lastX)).
Proof.
  unfold refetch_cond. intros Hr. apply orb_false_iff in Hr as [Hm Hh]. split; [done|].
  intros Ho. rewrite Ho in Hh. cbn in Hh. apply negb_false_iff, Z.eqb_eq in Hh. done.
Qed.

Lemma lists_iff s d : linv s -> hon_cp H fh p c s d -> INTERVAL <= tipH s ->
  (fst (lists_of c s (tipH s) (tipX s) d) = true \/ l_cache_bl s = abl (l_a s)) ->
  forall l, In (p, l) (snd (lists_of c s (tipH s) (tipX s) d)) <-> l = tcps (abl (l_a s)) (tipH s).
Proof.
  intros Hinv Hcp Ht Hfresh. unfold hon_cp in Hcp. unfold lists_of in *. cbn [fst snd] in *.
  destruct (refetch_cond c s (tipH s) (tipX s)) eqn:Er.
  - by apply Hcp.
  - destruct Hfresh as [Hf|Hf]; [discriminate|].
    destruct (refetch_false _ _ _ Er) as [Em _].
    destruct (li_cache _ _ _ _ _ _ _ Hinv) as [Hc|[Hc _]].
    + rewrite Hc in Em. cbn in Em. unfold INTERVAL in *. lia.
    + intros l. rewrite Hc, Hf. unfold tipH, hlen. done.
Qed.

Lemma in_cap lastH cache q l' :
  In (q, l') (cap lastH cache) <->
  exists l, In (q, l) cache /\ l' = take (zn (lastH / INTERVAL)) l /\ l' <> [].
Proof.
  unfold cap. rewrite filter_In, in_map_iff. cbn [snd]. split.
  - intros [([q0 l] & [= <- <-] & Hin) Hne]. exists l. split; [done|]. split; [done|].
    intros Hn. rewrite Hn in Hne. done.
  - intros (l & Hin & -> & Hne). split; [by exists (q, l)|].
    destruct (take _ l); done.
Qed.

Lemma cap_honest lastH cache tc :
  (forall l, In (p, l) cache <-> l = tc) -> zlen tc = lastH / INTERVAL -> INTERVAL <= lastH < 1000000 ->
  In (p, tc) (cap lastH cache) /\ (forall l, In (p, l) (cap lastH cache) -> l = tc) /\
  (forall q l, In (q, l) (cap lastH cache) -> (length l <= length tc)%nat).
Proof.
  intros Hc Hl Hb. unfold INTERVAL in *.
  assert (Hd : 1 <= lastH / 1000 < 1000000).
  { split; [apply Z.div_le_lower_bound; lia|apply Z.div_lt_upper_bound; lia]. }
  assert (Hn : zn (lastH / 1000) = length tc) by (rewrite zn_small by lia; unfold zlen in Hl; lia).
  split; [|split].
  - apply in_cap. exists tc. split; [by apply Hc|]. unfold INTERVAL. rewrite Hn, firstn_all.
    split; [done|]. intros ->. unfold zlen in Hl. cbn in Hl. lia.
  - intros l Hin. apply in_cap in Hin as (l0 & Hin & -> & _). apply Hc in Hin as ->.
    unfold INTERVAL. by rewrite Hn, firstn_all.
  - intros q l Hin. apply in_cap in Hin as (l0 & _ & -> & _). unfold INTERVAL.
    rewrite take_length. lia.
Qed.

(* ---------- what the honest peer serves to resolveConflict ---------- *)
Lemma zget_tcps bl hs (j : nat) : 0 <= hs < 1000000 -> Z.of_nat j < hs / INTERVAL ->
  zget (tcps bl hs) (Z.of_nat j) = Some (thd bl ((Z.of_nat j + 1) * INTERVAL)).
Proof.
  intros Hh Hj. apply zget_lookup.
  - unfold INTERVAL in *. assert (hs / 1000 < 1000000) by (apply Z.div_lt_upper_bound; lia). lia.
  - by apply tcps_lookup.
Qed.

Lemma bcast_wait s d (j : nat) :
  eff_phase s <> PTip ->
  first_diff (c_hard c) (aview (l_a s)) (cap (tipH s) (snd (lists_of c s (tipH s) (tipX s) d))) = SaneDiff (Z.of_nat j) ->
  bcast_start c s d = Some (u32 (Z.of_nat j * INTERVAL)).
Proof. intros Hph Hfd. unfold bcast_start. destruct (eff_phase s); try done; by rewrite Hfd. Qed.

Lemma hon_serves s d :
  linv s -> eff_phase s <> PTip -> INTERVAL <= tipH s ->
  hon_hdrs H fh p c tfilt s d ->
  honest_serves_lt H (c_hard c) (aview (l_a s)) (d_env d) (onlyc (l_conn s) r_peer (d_raws d))
                   (cap (tipH s) (snd (lists_of c s (tipH s) (tipX s) d))) p
                   (tcps (abl (l_a s)) (tipH s)) tfilt.
Proof.
  intros Hinv Hph Ht Hh j Hj Hfd. cbv zeta.
  destruct (li_chain _ _ _ _ _ _ _ Hinv) as [Hnd Hlen].
  set (a := l_a s) in *. set (bl := abl a) in *.
  assert (HtH : tipH s = zlen bl - 1) by reflexivity.
  assert (Hjl : Z.of_nat j < tipH s / INTERVAL).
  { pose proof (tcps_length H fh bl (tipH s) ltac:(lia)) as Hl. unfold zlen in Hl. lia. }
  assert (Hj1 : (Z.of_nat j + 1) * INTERVAL <= tipH s).
  { unfold INTERVAL in *. pose proof (Z.mul_div_le (tipH s) 1000 ltac:(lia)). lia. }
  assert (Hu : u32 (Z.of_nat j * INTERVAL) = Z.of_nat j * INTERVAL).
  { apply u32_small. unfold INTERVAL, U32 in *. lia. }
  rewrite Hu. set (startH := Z.of_nat j * INTERVAL) in *.
  assert (Hne : bl <> []) by (intros E; rewrite E in Hlen; unfold zlen in Hlen; cbn in Hlen; lia).
  destruct (cf_range_aview a startH Hne (proj2 Hlen) ltac:(unfold hlen, startH, INTERVAL in *; fold bl; lia))
    as (stop & n & Hcf & Hn & He & Hz & Hfull).
  pose proof (bcast_wait s d j Hph Hfd) as Hb. fold startH in Hb. rewrite Hu in Hb.
  destruct (Hh startH stop n Hb Hcf) as [Hhon Hgood]. fold a bl in Hhon, Hgood.
  exists (tmsg bl startH (startH + n - 1)).
  assert (Hg : get_headers (aview a) startH (onlyc (l_conn s) r_peer (d_raws d)) =
               (accept stop n (onlyc (l_conn s) r_peer (d_raws d)) [], n)).
  { unfold get_headers. by rewrite Hcf. }
  rewrite Hg. cbn [fst snd]. rewrite Hg in Hhon. cbn [fst] in Hhon.
  split; [exact Hhon|]. split; [exact Hgood|].
  (* the honest checkpoint is the header the honest cfheaders determine *)
  unfold cp_contradicts. rewrite (zget_tcps bl (tipH s) j) by lia.
  assert (Hn1 : INTERVAL + 1 <= n).
  { unfold hlen in *. fold bl in He, Hfull. unfold startH in *. unfold MAXCFH, INTERVAL in *. lia. }
  rewrite tmsg_len by (unfold hlen, startH, INTERVAL in *; fold bl in He; lia).
  replace (startH + n - 1 - startH + 1 <? INTERVAL + 1) with false by lia.
  rewrite zn_small by (unfold INTERVAL; lia).
  rewrite tmsg_chain_last by (unfold hlen, startH, INTERVAL in *; fold bl in He; lia).
  apply negb_false_iff, Z.eqb_eq. f_equal. unfold startH, INTERVAL. lia.
Qed.

(* ---------- one attempt ---------- *)
Lemma filter_ban_In (conn bs : list Z) q :
  In q (List.filter (fun q => negb (mem q bs)) conn) <-> In q conn /\ ~ In q bs.
Proof. rewrite filter_In, negb_true_iff, mem_false. done. Qed.

Lemma attempt_with_inv s d refetch cache cst cbl flag s' out :
  linv s -> hon_hdrs H fh p c tfilt s d -> hon_arrs H fh p c s d ->
  peer_hard_bad (c_hard c) (tcps (abl (l_a s)) (tipH s)) = false ->
  eff_phase s <> PTip -> INTERVAL <= tipH s ->
  snd (lists_of c s (tipH s) (tipX s) d) = cache ->
  (forall l, In (p, l) cache <-> l = tcps (abl (l_a s)) (tipH s)) ->
  (cache = [] \/ (cbl = abl (l_a s) /\ (c_height_only c = false -> cst = tipX s))) ->
  attempt_with H c s (tipH s) (tipX s) d refetch cache cst cbl flag = (s', out) ->
  linv s' /\ l_flag s' = flag.
Proof.
  intros Hinv Hhd Har Hhard Hph Ht Hsnd Hiff Hcbl Hatt.
  destruct Hinv as [[Hnd Hlen] Hpar Hhead Htrue Hgen Hnb Hcb Hcache Hleg Hcp Hphase].
  set (a := l_a s) in *. set (bl := abl a) in *.
  assert (HtH : tipH s = zlen bl - 1) by reflexivity.
  assert (Hcache' : cache = [] \/
           ((forall l, In (p, l) cache <-> l = tcps cbl (zlen cbl - 1)) /\ 1 <= zlen cbl - 1 /\
            NoDup cbl /\ parent_ok parent cbl /\ head cbl = Some g /\
            (c_height_only c = false -> cst = default 0 (last cbl)))).
  { destruct Hcbl as [->|[-> Hcst]]; [by left|right]. split; [|split; [unfold INTERVAL in *; lia|done]].
    intros l. rewrite Hiff. by rewrite HtH. }
  unfold attempt_with in Hatt. rewrite Hleg in Hatt. fold a in Hatt.
  destruct (refetch && (length cache =? 0)%nat) eqn:E0.
  { injection Hatt as <- <-. split; [|done]. constructor; cbn; done. }
  destruct (resolve_of H c s (tipH s) (tipX s) d) as [bans res] eqn:ER.
  pose proof ER as ER0. unfold resolve_of in ER0. rewrite Hsnd in ER0. fold a in ER0.
  set (tc := tcps bl (tipH s)) in *.
  assert (Htcl : zlen tc = tipH s / INTERVAL) by (apply tcps_length; lia).
  destruct (cap_honest (tipH s) cache tc Hiff Htcl ltac:(lia)) as (Hin & Huniq & Hlens).
  assert (Hhs : honest_serves_lt H (c_hard c) (aview a) (d_env d) (onlyc (l_conn s) r_peer (d_raws d))
                  (cap (tipH s) cache) p tc tfilt).
  { rewrite <- Hsnd. apply hon_serves; done. }
  destruct (resolve_honest_wins_lt H (c_hard c) (aview a) (d_env d) _ (d_hint d) _ p tc tfilt bans res
              Hin Huniq Hhard Hlens Hhs ER0) as (Hpb & Hagree & _).
  cbn [do_ban l_conn l_banned] in Hatt.
  assert (Hfail : forall ph,
    linv {| l_a := a; l_ph := PWait; l_cache := []; l_cache_stop := cst;
            l_conn := List.filter (fun q => negb (mem q bans)) (l_conn s);
            l_banned := l_banned s ++ bans; l_synced := l_synced s; l_panic := false; l_cache_bl := [];
            l_flag := ph |}).
  { intros ph. constructor; cbn; try done.
    - rewrite in_app_iff. tauto.
    - intros q Hq. apply filter_ban_In in Hq as [Hq Hqb]. rewrite in_app_iff. specialize (Hcb q Hq). tauto.
    - by left. }
  destruct res as [[|x l]|]; [injection Hatt as <- <-; split; [apply Hfail|done]| |injection Hatt as <- <-; split; [apply Hfail|done]].
  (* resolveConflict returned a list: a prefix of the true one *)
  destruct (resolve_res_in H _ _ _ _ _ _ _ _ ER0) as [q0 Hq0].
  assert (Hgood : cps_true bl (x :: l)).
  { pose proof (Hlens _ _ Hq0) as Hgl. split; unfold INTERVAL in *.
    - pose proof (Z.mul_div_le (tipH s) 1000 ltac:(lia)). unfold zlen in *. lia.
    - intros i cc Hi. pose proof (lookup_lt_Some _ _ _ Hi) as Hil.
      destruct (lookup_lt_is_Some_2 tc i ltac:(lia)) as [y Hy].
      rewrite (Hagree _ eq_refl i cc y Hi Hy).
      unfold tc in Hy. rewrite tcps_lookup in Hy by (unfold zlen, INTERVAL in *; lia).
      injection Hy as <-. reflexivity. }
  destruct (get_checkpointed H (c_genesis c) a (x :: l) _) as [[bans2 a'] pan] eqn:EG.
  cbn [do_ban l_conn l_banned] in Hatt. injection Hatt as <- <-.
  destruct (checkpointed_true H fh H_inj (c_genesis c) a (x :: l) _ bans2 a' pan Hnd (proj2 Hlen) Htrue Hgood Hgen EG)
    as [Htrue' Hbl'].
  assert (Hpb2 : ~ In p bans2).
  { pose proof (checkpointed_honest_safe H fh (c_genesis c) a (x :: l)
                  (onlyc (List.filter (fun q => negb (mem q bans)) (l_conn s)) a_peer (d_ars d)) p
                  Hnd (proj2 Hlen) Htrue Hgood Hgen) as Hs. rewrite EG in Hs. cbn [fst] in Hs. apply Hs.
    intros qs ar ci stop e Hq Hin' Hpeer Hz Hix. apply filter_In in Hin' as [Hin' _].
    eapply (Har x l qs ar ci stop e); try done. by rewrite ER. }
  split; [|done]. constructor; cbn; rewrite ?Hbl'; try done.
  - rewrite !in_app_iff. tauto.
  - intros q Hq. apply filter_ban_In in Hq as [Hq Hqb2]. apply filter_ban_In in Hq as [Hq Hqb].
    rewrite !in_app_iff. specialize (Hcb q Hq). tauto.
Qed.

(* ---------- one iteration of the at-tip loop ---------- *)
Lemma last_committed a : committed_true a -> zlen (abl a) < 1000000 ->
  last (afl a) = Some (thd (abl a) (zlen (afl a) - 1)).
Proof.
  intros [[H1 H2] Ht] Hlen. rewrite Ht at 1. rewrite last_lookup, take_length, thdrs_length.
  replace (length (afl a) `min` length (abl a))%nat with (length (afl a)) by lia.
  rewrite lookup_take by lia. rewrite thdrs_lookup by lia.
  rewrite thd_hdr by (unfold zlen in *; lia). do 2 f_equal. unfold zlen. lia.
Qed.

Lemma tip_round_inv s d s' out :
  linv s -> eff_phase s = PTip -> hon_hdrs H fh p c tfilt s d ->
  tip_round H (set_ph s PTip) d = (s', out) -> linv s' /\ l_flag s' = l_flag s.
Proof.
  intros Hinv Hph Hhd Htr.
  destruct Hinv as [[Hnd Hlen] Hpar Hhead Htrue Hgen Hnb Hcb Hcache Hleg Hcp Hphase].
  set (a := l_a s) in *. set (bl := abl a) in *.
  unfold tip_round in Htr. cbn [set_ph l_a l_conn l_cache l_cache_stop l_banned l_synced l_cache_bl l_flag] in Htr.
  fold a in Htr.
  destruct (zlen (afl a) =? zlen (abl a)) eqn:Eeq.
  { injection Htr as <- <-. split; [|done]. constructor; cbn; done. }
  pose proof Htrue as [[HL1 HL2] Htr0].
  assert (Hne : bl <> []) by (intros E; rewrite E in Hlen; unfold zlen in Hlen; cbn in Hlen; lia).
  set (fhh := zlen (afl a) - 1).
  assert (Hfh : 0 <= fhh /\ fhh + 1 <= hlen a) by (unfold fhh, hlen, zlen, bl in *; lia).
  assert (Hu : u32 (fhh + 1) = fhh + 1) by (apply u32_small; unfold U32, hlen, zlen, bl in *; lia).
  destruct (cf_range_aview a (fhh + 1) Hne (proj2 Hlen) ltac:(lia)) as (stop & n & Hcf & Hn & He & Hz & _).
  assert (Hb : bcast_start c s d = Some (fhh + 1)).
  { unfold bcast_start. rewrite Hph. fold a. rewrite Eeq. unfold flen2. fold fhh. by rewrite Hu. }
  destruct (Hhd (fhh + 1) stop n Hb Hcf) as [Hhon Hgood]. fold a bl in Hhon, Hgood.
  set (tm := tmsg bl (fhh + 1) (fhh + 1 + n - 1)) in *.
  assert (Hg : get_headers (aview a) (fhh + 1) (onlyc (l_conn s) r_peer (d_raws d)) =
               (accept stop n (onlyc (l_conn s) r_peer (d_raws d)) [], n)).
  { unfold get_headers. by rewrite Hcf. }
  pose proof (last_committed a Htrue (proj2 Hlen)) as Hlast. fold fhh bl in Hlast.
  assert (Hvf : v_ftip (aview a) = Some (thd bl fhh, fhh)).
  { unfold aview. cbn [v_ftip]. by rewrite Hlast. }
  assert (Hprev : m_prev tm = thd bl fhh).
  { unfold tm, LoopSpec.tmsg. cbn [m_prev]. replace (fhh + 1 =? 0) with false by lia. f_equal. lia. }
  destruct (get_uncheckpointed (aview a) (d_env d) (onlyc (l_conn s) r_peer (d_raws d))) as [bans r] eqn:EU.
  destruct (uncheckpointed_honest_wins (aview a) (d_env d) (onlyc (l_conn s) r_peer (d_raws d)) p tm tfilt
              (thd bl fhh) fhh Hvf) as (Hpb & Hw & _).
  { rewrite Hu. exact Hhon. }
  { exact Hprev. }
  { rewrite Hu, Hg. cbn [snd]. exact Hgood. }
  rewrite EU in Hpb, Hw. cbn [fst snd] in Hpb, Hw.
  cbn [do_ban l_conn l_banned] in Htr.
  assert (Hsame : forall ph fl,
    linv {| l_a := a; l_ph := PTip; l_cache := l_cache s; l_cache_stop := l_cache_stop s;
            l_conn := List.filter (fun q => negb (mem q bans)) (l_conn s);
            l_banned := l_banned s ++ bans; l_synced := l_synced s; l_panic := ph;
            l_cache_bl := l_cache_bl s; l_flag := fl |}).
  { intros ph fl. constructor; cbn; try done.
    - rewrite in_app_iff. tauto.
    - intros q Hq. apply filter_ban_In in Hq as [Hq Hqb]. rewrite in_app_iff. specialize (Hcb q Hq). tauto. }
  destruct r as [| |m]; [injection Htr as <- <-; split; [apply Hsame|done]..|].
  rewrite (Hw m eq_refl) in Htr.
  destruct (awrite_cf H a tm) as [a' [[hd ht]|]] eqn:EW; injection Htr as <- <-; (split; [|done]);
    [|apply Hsame].
  (* the true message was written *)
  assert (Hs1 : (1 <= Z.to_nat (fhh + 1))%nat) by lia.
  destruct (write_true H fh a tm a' (hd, ht) (Z.to_nat (fhh + 1)) (Z.to_nat n) 0 Hnd (proj2 Hlen) Htrue EW Hs1)
    as [Htrue' Hbl'].
  - unfold tm, LoopSpec.tmsg. cbn [m_hashes drop]. rewrite !zn_small by (unfold hlen, zlen, fhh, bl in *; lia).
    replace (fhh + 1 + n - 1 - (fhh + 1) + 1) with n by lia. done.
  - unfold tm, LoopSpec.tmsg. cbn [m_stop]. fold bl in Hz. rewrite Hz. cbn [default].
    etrans; [exact (zget_index bl _ _ Hnd (proj2 Hlen) Hz)|]. f_equal. unfold hlen, zlen, fhh, bl in *. lia.
  - unfold hlen, zlen, fhh, bl in *. lia.
  - constructor; cbn; rewrite ?Hbl'; try done.
    + rewrite in_app_iff. tauto.
    + intros q Hq. apply filter_ban_In in Hq as [Hq Hqb]. rewrite in_app_iff. specialize (Hcb q Hq). tauto.
Qed.

(* the list resolveConflict returns is a prefix of the true one, and the
   honest peer is not among the banned *)
Lemma resolve_good s d cache bans x l :
  linv s -> hon_hdrs H fh p c tfilt s d ->
  peer_hard_bad (c_hard c) (tcps (abl (l_a s)) (tipH s)) = false ->
  eff_phase s <> PTip -> INTERVAL <= tipH s ->
  snd (lists_of c s (tipH s) (tipX s) d) = cache ->
  (forall l, In (p, l) cache <-> l = tcps (abl (l_a s)) (tipH s)) ->
  resolve_of H c s (tipH s) (tipX s) d = (bans, Some (x :: l)) ->
  cps_true (abl (l_a s)) (x :: l) /\ ~ In p bans.
Proof.
  intros Hinv Hhd Hhard Hph Ht Hsnd Hiff ER.
  pose proof Hinv as [[Hnd Hlen] Hpar Hhead Htrue Hgen Hnb Hcb Hcache Hleg Hcp Hphase].
  set (a := l_a s) in *. set (bl := abl a) in *.
  assert (HtH : tipH s = zlen bl - 1) by reflexivity.
  pose proof ER as ER0. unfold resolve_of in ER0. rewrite Hsnd in ER0. fold a in ER0.
  set (tc := tcps bl (tipH s)) in *.
  assert (Htcl : zlen tc = tipH s / INTERVAL) by (apply tcps_length; lia).
  destruct (cap_honest (tipH s) cache tc Hiff Htcl ltac:(lia)) as (Hin & Huniq & Hlens).
  assert (Hhs : honest_serves_lt H (c_hard c) (aview a) (d_env d) (onlyc (l_conn s) r_peer (d_raws d))
                  (cap (tipH s) cache) p tc tfilt).
  { rewrite <- Hsnd. apply hon_serves; done. }
  destruct (resolve_honest_wins_lt H (c_hard c) (aview a) (d_env d) _ (d_hint d) _ p tc tfilt bans _
              Hin Huniq Hhard Hlens Hhs ER0) as (Hpb & Hagree & _).
  split; [|exact Hpb].
  destruct (resolve_res_in H _ _ _ _ _ _ _ _ ER0) as [q0 Hq0].
  pose proof (Hlens _ _ Hq0) as Hgl. split; unfold INTERVAL in *.
  - pose proof (Z.mul_div_le (tipH s) 1000 ltac:(lia)). unfold zlen in *. lia.
  - intros i cc Hi. pose proof (lookup_lt_Some _ _ _ Hi) as Hil.
    destruct (lookup_lt_is_Some_2 tc i ltac:(lia)) as [y Hy].
    rewrite (Hagree _ eq_refl i cc y Hi Hy).
    unfold tc in Hy. rewrite tcps_lookup in Hy by (unfold zlen, INTERVAL in *; lia).
    injection Hy as <-. reflexivity.
Qed.

(* when the map's choice among the agreeing lists falls on the honest peer,
   the list returned is the complete true one - whatever shorter (correct)
   lists other peers have served *)
Lemma resolve_choice s d cache bans l0 :
  linv s -> hon_hdrs H fh p c tfilt s d ->
  peer_hard_bad (c_hard c) (tcps (abl (l_a s)) (tipH s)) = false ->
  eff_phase s <> PTip -> INTERVAL <= tipH s ->
  snd (lists_of c s (tipH s) (tipX s) d) = cache ->
  (forall l, In (p, l) cache <-> l = tcps (abl (l_a s)) (tipH s)) ->
  resolve_of H c s (tipH s) (tipX s) d = (bans, Some l0) -> d_hint d = p ->
  l0 = tcps (abl (l_a s)) (tipH s).
Proof.
  intros Hinv Hhd Hhard Hph Ht Hsnd Hiff ER Hhint.
  pose proof Hinv as [[Hnd Hlen] Hpar Hhead Htrue Hgen Hnb Hcb Hcache Hleg Hcp Hphase].
  set (a := l_a s) in *. set (bl := abl a) in *.
  assert (HtH : tipH s = zlen bl - 1) by reflexivity.
  pose proof ER as ER0. unfold resolve_of in ER0. rewrite Hsnd in ER0. fold a in ER0.
  set (tc := tcps bl (tipH s)) in *.
  assert (Htcl : zlen tc = tipH s / INTERVAL) by (apply tcps_length; lia).
  destruct (cap_honest (tipH s) cache tc Hiff Htcl ltac:(lia)) as (Hin & Huniq & Hlens).
  assert (Hhs : honest_serves_lt H (c_hard c) (aview a) (d_env d) (onlyc (l_conn s) r_peer (d_raws d))
                  (cap (tipH s) cache) p tc tfilt).
  { rewrite <- Hsnd. apply hon_serves; done. }
  destruct (resolve_honest_wins_lt H (c_hard c) (aview a) (d_env d) _ (d_hint d) _ p tc tfilt bans _
              Hin Huniq Hhard Hlens Hhs ER0) as (_ & _ & _ & Hch).
  by apply Hch.
Qed.

(* ---------- the ghost flag ---------- *)
Lemma attempt_with_flag s lastH lastX d refetch cache cst cbl flag s' out :
  attempt_with H c s lastH lastX d refetch cache cst cbl flag = (s', out) -> l_flag s' = flag.
Proof.
  unfold attempt_with.
  destruct (refetch && (length cache =? 0)%nat); [by intros [= <- _]|].
  destruct (resolve_of H c s lastH lastX d) as [bans res]. cbn [do_ban l_conn l_banned].
  destruct res as [[|x l]|]; [by intros [= <- _]| |by intros [= <- _]].
  destruct (get_checkpointed H (c_genesis c) (l_a s) (x :: l) _) as [[bans2 a'] pan].
  cbn [do_ban l_conn l_banned]. by intros [= <- _].
Qed.

Lemma stale_flag_cases s lastH refetch :
  stale_flag c s lastH refetch = l_flag s \/ stale_flag c s lastH refetch = 21.
Proof. unfold stale_flag. destruct (_ && _ && _); [by right|by left]. Qed.

Lemma stale_flag_zero s lastH refetch : c_cp c = None ->
  stale_flag c s lastH refetch = 0 -> refetch = true \/ l_cache_bl s = abl (l_a s).
Proof.
  intros Hcp. unfold stale_flag. rewrite Hcp. destruct refetch; [by left|]. cbn [negb andb].
  destruct (zlist_eqb (l_cache_bl s) (abl (l_a s))) eqn:E; cbn [negb andb].
  - intros _. right. by apply zlist_eqb_eq.
  - discriminate.
Qed.

Lemma round_flag s d : l_flag (fst (round H c s d)) = l_flag s \/ l_flag (fst (round H c s d)) = 21.
Proof.
  unfold round. destruct (l_panic s); [by left|].
  destruct (match l_ph s with PDecide => decide_ph s | ph => ph end) as [|lh lx| |].
  - unfold wait_round. destruct (negb (wait_cond s)); [by left|].
    destruct (hlen (l_a s) <? INTERVAL); [by left|]. unfold attempt.
    destruct (attempt_with _ _ _ _ _ _ _ _ _ _ _) as [s' out] eqn:E. cbn [fst].
    rewrite (attempt_with_flag _ _ _ _ _ _ _ _ _ _ _ E). apply stale_flag_cases.
  - unfold attempt.
    destruct (attempt_with _ _ _ _ _ _ _ _ _ _ _) as [s' out] eqn:E. cbn [fst].
    rewrite (attempt_with_flag _ _ _ _ _ _ _ _ _ _ _ E). apply stale_flag_cases.
  - unfold wait_round. destruct (negb (wait_cond s)); [by left|].
    destruct (hlen (l_a s) <? INTERVAL); [by left|]. unfold attempt.
    destruct (attempt_with _ _ _ _ _ _ _ _ _ _ _) as [s' out] eqn:E. cbn [fst].
    rewrite (attempt_with_flag _ _ _ _ _ _ _ _ _ _ _ E). apply stale_flag_cases.
  - left. unfold tip_round. cbn [set_ph l_a l_conn l_cache l_cache_stop l_banned l_synced l_cache_bl l_flag].
    destruct (zlen (afl (l_a s)) =? zlen (abl (l_a s))); [done|].
    destruct (get_uncheckpointed _ _ _) as [bans r]. cbn [do_ban l_conn l_banned].
    destruct r as [| |m]; try done. by destruct (awrite_cf H (l_a s) m) as [a' [?|]].
Qed.

Lemma lstep_flag s e : l_flag (lstep H c s e) = l_flag s \/ l_flag (lstep H c s e) = 21.
Proof.
  destruct e as [h xs syn|q|q|d]; cbn [lstep]; try by left.
  - destruct (mem q (l_banned s) || mem q (l_conn s)); by left.
  - apply round_flag.
Qed.

Lemma lrun_flag_zero evs : forall s, l_flag (lrun H c s evs) = 0 -> l_flag s = 0.
Proof.
  induction evs as [|e evs IH]; intros s Hf; [done|]. cbn [lrun fold_left] in Hf.
  specialize (IH _ Hf). destruct (lstep_flag s e) as [E|E]; rewrite E in IH; [done|discriminate].
Qed.

(* ---------- a round keeps the invariant ---------- *)
Lemma linv_set_ph s ph : linv s -> match ph with PRetry _ _ => False | _ => True end -> linv (set_ph s ph).
Proof. intros [] Hph. constructor; cbn; done. Qed.

Lemma eff_phase_retry s lh lx : linv s -> eff_phase s <> PRetry lh lx.
Proof.
  intros Hinv. pose proof (li_phase _ _ _ _ _ _ _ Hinv) as Hp. unfold eff_phase.
  destruct (l_ph s); try done. unfold decide_ph. destruct (negb _); [done|]. by destruct (_ <=? _).
Qed.

Lemma round_inv s d s' out :
  linv s -> hon_round H fh p c tfilt s d -> round H c s d = (s', out) -> l_flag s' = 0 -> linv s'.
Proof.
  intros Hinv (Hconn & Hcp & Hhd & Har & Hhard) Hr Hflag.
  unfold round in Hr. destruct (l_panic s); [by injection Hr as <- _|].
  change (match l_ph s with PDecide => decide_ph s | ph => ph end) with (eff_phase s) in Hr.
  assert (Hwait : eff_phase s <> PTip -> wait_round H c s d = (s', out) -> linv s').
  { intros Hph Hw. unfold wait_round in Hw.
    destruct (negb (wait_cond s)); [injection Hw as <- _; by apply linv_set_ph|].
    destruct (hlen (l_a s) <? INTERVAL) eqn:El; [injection Hw as <- _; by apply linv_set_ph|].
    unfold attempt in Hw. change (hlen (l_a s)) with (tipH s) in *.
    change (default 0 (last (abl (l_a s)))) with (tipX s) in *.
    pose proof (attempt_with_flag _ _ _ _ _ _ _ _ _ _ _ Hw) as Hfl. rewrite Hflag in Hfl. symmetry in Hfl.
    pose proof (stale_flag_zero _ _ _ (li_cp _ _ _ _ _ _ _ Hinv) Hfl) as Hfresh.
    assert (Ht : INTERVAL <= tipH s) by lia.
    pose proof (lists_iff s d Hinv Hcp Ht Hfresh) as Hiff.
    eapply (attempt_with_inv s d _ _ _ _ _ s' out Hinv Hhd Har Hhard Hph Ht eq_refl Hiff); [|exact Hw].
    right. unfold best. rewrite (li_cp _ _ _ _ _ _ _ Hinv). cbn [snd].
    destruct (fst (lists_of c s (tipH s) (tipX s) d)) eqn:Ef; [done|].
    destruct Hfresh as [?|Hf]; [done|]. split; [done|].
    intros Ho. unfold lists_of in Ef. cbn [fst] in Ef.
    destruct (refetch_false _ _ _ Ef) as [_ Hst]. rewrite (Hst Ho). unfold best. rewrite (li_cp _ _ _ _ _ _ _ Hinv). done. }
  destruct (eff_phase s) as [|lh lx| |] eqn:Eph.
  - by apply Hwait.
  - by destruct (eff_phase_retry s lh lx Hinv).
  - by apply Hwait.
  - by destruct (tip_round_inv s d s' out Hinv Eph Hhd Hr).
Qed.

End R.
