(* C03 — executable model of the committed-filter-header code of
   blockmanager.go, over the header-store model S1.

   Structural layer (on S1.store):  writeCFHeadersMsg, rollBackToHeight.
   Decision layer (on a read-only view of the stores): verifyCheckpoint,
   minCheckpointHeight, checkCFCheckptSanity, ValidateCFHeader (table),
   checkForCFHeaderMismatch, detectBadPeers + resolveFilterMismatchFromBlock,
   getCFHeadersForAllPeers (range arithmetic and response acceptance),
   resolveConflict, getUncheckpointedCFHeaders, and the checkpointed fetch
   (checkpointedCFHeadersQuery.handleResponse + the re-ordering writer loop
   of getCheckpointedCFHeaders).

   Hashes are tokens (Z, 0 = the all-zero hash).  External functions are
   Section variables: [H] (dsha256(filterHash || prevHeader)), [parent]
   (PrevBlock of a block header), and per call the filter oracles
   (GetFilterHash, VerifyBasicBlockFilter).  VerifyBasicBlockFilter itself
   is modelled at the end of this file ([verify_filter], over an abstract
   block and the filter's Match predicate); the replay instantiates the
   [fo_verify] oracle with it, not with the implementation's verdicts.

   Go maps are association lists in an arbitrary order; every result that the
   code computes by ranging over a map is either order-insensitive (sets,
   booleans) or an arbitrary element, for which the functions take an
   explicit choice argument.

   The model is of the tree WITH the repairs F24 (zero-hash used as "unset"
   sentinel), F25 (only the first kind of bad peers was banned per mismatching
   index) and F26 (cfheaders length / alignment never checked), see
   known_findings/C03.json, and F15 (a peer lying only in its checkpoint list
   was never identified; now its list is checked against the cfheaders it
   serves, [cp_contradicts]). *)
From stdpp Require Import gmap list.
From Coq Require Import ZArith Lia.
From Verif Require Import S1.Model.
Open Scope Z_scope.

Definition INTERVAL : Z := 1000.   (* wire.CFCheckptInterval *)
Definition MAXCFH : Z := 2000.     (* wire.MaxCFHeadersPerMsg *)
Definition CPQ : Z := 2.           (* maxCFCheckptsPerQuery *)

Definition zlen {A} (l : list A) : Z := Z.of_nat (length l).
Definition zget {A} (l : list A) (i : Z) : option A :=
  if (0 <=? i) && (i <? zlen l) then l !! zn i else None.

Definition mem (x : Z) (l : list Z) : bool := List.existsb (Z.eqb x) l.
Fixpoint dedup (l : list Z) : list Z :=
  match l with
  | [] => []
  | x :: r => if mem x r then dedup r else x :: dedup r
  end.

(* a cfheaders message *)
Record cfmsg := { m_prev : Z; m_stop : Z; m_hashes : list Z }.

(* read-only view of both stores *)
Record cview := {
  v_btip : option (Z * Z);     (* BlockHeaders.ChainTip: hash, height *)
  v_bh : Z -> option Z;        (* BlockHeaders.FetchHeaderByHeight -> hash *)
  v_ftip : option (Z * Z);     (* RegFilterHeaders.ChainTip: header, height *)
  v_fh : Z -> option Z         (* RegFilterHeaders.FetchHeaderByHeight *)
}.
Definition sview (s : store) : cview :=
  {| v_btip := b_chain_tip s; v_bh := b_by_height s;
     v_ftip := f_chain_tip s; v_fh := f_by_height s |}.

Section Model.
Variable H : Z -> Z -> Z.       (* H filterHash prevHeader *)
Variable parent : Z -> Z.       (* block hash -> PrevBlock *)

(* the headers derived from a message *)
Fixpoint chain_from (prev : Z) (hs : list Z) : list Z :=
  match hs with
  | [] => []
  | h :: r => let x := H h prev in x :: chain_from x r
  end.
Definition chain_last (prev : Z) (hs : list Z) : Z := fold_left (fun p h => H h p) hs prev.

(* ================= structural layer ================= *)

(* in-memory filterHeaderTip / filterHeaderTipHash next to the stores *)
Record bm := { st : store; tipH : Z; tipX : Z }.

(* writeCFHeadersMsg: Some (last header, last height) or None (error) *)
Definition write_cf (b : bm) (m : cfmsg) : bm * option (Z * Z) :=
  let s := st b in
  match f_chain_tip s with
  | None => (b, None)
  | Some (tip, tipHeight) =>
    if negb (tip =? m_prev m) then (b, None) else
    let n := zlen (m_hashes m) in
    if n =? 0 then (b, None) else                     (* F26 *)
    match b_ancestors s (u32 (n - 1)) (m_stop m) with
    | None => (b, None)
    | Some (blocks, start) =>
      if negb (start =? u32 (tipHeight + 1)) then (b, None) else   (* F26 *)
      let lastHeight := u32 (start + n - 1) in
      match last blocks with
      | None => (b, None)
      | Some lastHash =>
        let hdrs := chain_from (m_prev m) (m_hashes m) in
        (* only the last entry's block hash is used by the store *)
        let es := List.map (fun x => (x, lastHash)) hdrs in
        match fwrite s es NoFault with
        | (s', ROk) =>
          ({| st := s'; tipH := lastHeight; tipX := lastHash |},
           Some (default 0 (last hdrs), lastHeight))
        | (s', RErr) => ({| st := s'; tipH := tipH b; tipX := tipX b |}, None)
        end
      end
    end
  end.

(* rollBackToHeight: the loop; [tr] collects the store after every store
   operation (filter rollback, block rollback) in order *)
Fixpoint rollback_loop (fuel : nat) (s : store) (bsH bsX regH height : Z) (tr : list store)
  : store * bool * list store :=
  match fuel with
  | O => (s, true, tr)
  | S fuel' =>
    if u32 bsH >? height then
      match b_by_hash s bsX with
      | None => (s, false, tr)
      | Some (hdr, _) =>
        let newTip := parent hdr in
        let fr := if u32 bsH <=? regH then
                    match frollback s newTip NoFault with
                    | (s1, Some (h, _)) => Some (s1, u32 h, tr ++ [s1])
                    | (s1, None) => None
                    end
                  else Some (s, regH, tr) in
        match fr with
        | None => (s, false, tr)
        | Some (s1, regH1, tr1) =>
          match brollback s1 1 NoFault with
          | (s2, Some (h, x)) =>
            match b_by_hash s2 newTip with
            | None => (s2, false, tr1 ++ [s2])
            | Some _ => rollback_loop fuel' s2 h x regH1 height (tr1 ++ [s2])
            end
          | (s2, None) => (s2, false, tr1)
          end
        end
      end
    else (s, true, tr)
  end.

Definition rollback (b : bm) (height : Z) : bm * bool * list store :=
  let s := st b in
  match b_chain_tip s, f_chain_tip s with
  | Some (x, hh), Some (_, regH) =>
    let '(s', ok, tr) := rollback_loop (S (length (ents (bf s)))) s hh x regH height [] in
    ({| st := s'; tipH := tipH b; tipX := tipX b |}, ok, tr)
  | _, _ => (b, false, [])
  end.

(* block headers committed by the header sync: hashes at the next heights *)
Definition bappend (b : bm) (xs : list Z) : bm * bool :=
  let s := st b in
  match b_chain_tip s with
  | None => (b, false)
  | Some (_, th) =>
    let es := List.combine xs (List.map (fun i => th + 1 + Z.of_nat i) (seq 0 (length xs))) in
    match bwrite s es NoFault with
    | (s', r) => ({| st := s'; tipH := tipH b; tipX := tipX b |}, res_ok r)
    end
  end.

Inductive sop :=
| SAppend (xs : list Z)
| SWriteCF (m : cfmsg)
| SRollback (h : Z).

Definition sstep (b : bm) (o : sop) : bm :=
  match o with
  | SAppend xs => fst (bappend b xs)
  | SWriteCF m => fst (write_cf b m)
  | SRollback h => fst (fst (rollback b h))
  end.

(* ================= decision layer ================= *)

(* verifyCheckpoint *)
Definition verify_checkpoint (prevcp nextcp : Z) (m : cfmsg) : bool :=
  (prevcp =? m_prev m) && (chain_last (m_prev m) (m_hashes m) =? nextcp).

(* minCheckpointHeight *)
Definition min_checkpoint_height (cps : list (Z * list Z)) : Z :=
  match cps with
  | [] => 0
  | _ => fold_left (fun m p => Z.min m (u32 (zlen (snd p) * INTERVAL))) cps 4294967295
  end.

Definition all_eq (l : list Z) : bool :=
  match l with [] => true | v :: r => List.forallb (Z.eqb v) r end.

(* the values the lists have at position i *)
Definition vals_at (cps : list (Z * list Z)) (i : nat) : list Z :=
  omap (fun p => snd p !! i) cps.

(* checkCFCheckptSanity *)
Inductive sanity := SaneAll | SaneDiff (i : Z) | SaneErr.

Fixpoint sanity_loop (n i : nat) (cps : list (Z * list Z)) (v : cview) (storeTip : Z) : sanity :=
  match n with
  | O => SaneAll
  | S n' =>
    match vals_at cps i with
    | [] => sanity_loop n' (S i) cps v storeTip
    | c :: rest =>
      if negb (List.forallb (Z.eqb c) rest) then SaneDiff (Z.of_nat i) else
      let ch := u32 ((Z.of_nat i + 1) * INTERVAL) in
      if ch <=? storeTip then
        match v_fh v ch with
        | None => SaneErr
        | Some hd => if hd =? c then sanity_loop n' (S i) cps v storeTip else SaneDiff (Z.of_nat i)
        end
      else sanity_loop n' (S i) cps v storeTip
    end
  end.

Definition max_len (cps : list (Z * list Z)) : nat :=
  fold_left (fun m p => Nat.max m (length (snd p))) cps 0%nat.

Definition check_sanity (cps : list (Z * list Z)) (v : cview) : sanity :=
  match v_ftip v with
  | None => SaneErr
  | Some (_, tip) => sanity_loop (max_len cps) 0 cps v tip
  end.

(* checkForCFHeaderMismatch *)
Definition mismatch_at (hs : list (Z * cfmsg)) (i : Z) : bool :=
  negb (all_eq (omap (fun p => zget (m_hashes (snd p)) i) hs)).

(* filter oracles of one block: GetFilterHash and VerifyBasicBlockFilter
   (None = a script that must match does not; Some n = n OP_RETURN matches) *)
Record foracle := { fo_hash : Z -> Z; fo_verify : Z -> option Z }.

Definition lookup (p : Z) (l : list (Z * Z)) : option Z :=
  match List.find (fun q => fst q =? p) l with Some q => Some (snd q) | None => None end.

(* resolveFilterMismatchFromBlock *)
Definition resolve_from_block (fo : foracle) (filters : list (Z * Z)) (threshold : Z) : option (list Z) :=
  let bad := List.filter (fun q => match fo_verify fo (snd q) with None => true | Some _ => false end) filters in
  match bad with
  | _ :: _ => Some (List.map fst bad)
  | [] =>
    let cnt q := default 0 (fo_verify fo (snd q)) in
    let most := fold_left (fun m q => Z.max m (cnt q)) filters 0 in
    let pot := List.filter (fun q => cnt q =? most) filters in
    let remaining := zlen filters - zlen pot in
    if (0 <? zlen pot) && (remaining >=? threshold) then Some (List.map fst pot) else
    let count q := zlen (List.filter (fun r => fo_hash fo (snd r) =? fo_hash fo (snd q)) filters) in
    let best := fold_left (fun m q => Z.max m (count q)) filters 0 in
    if best <? threshold then None
    else Some (List.map fst (List.filter (fun q => count q <? best) filters))
  end.

(* detectBadPeers at index idx: filters = what fetchFilterFromAllPeers got,
   block_ok = FetchHeaderByHeight and GetBlock succeed *)
Definition detect_bad (hs : list (Z * cfmsg)) (idx : Z) (filters : list (Z * Z))
           (hdr_ok block_ok : bool) (fo : foracle) : option (list Z) :=
  if negb hdr_ok then None else
  let bad1 := List.filter (fun p =>
                match lookup (fst p) filters with
                | None => true
                | Some f => negb (fo_hash fo f =? default 0 (zget (m_hashes (snd p)) idx))
                end) hs in
  match bad1 with
  | _ :: _ => Some (List.map fst bad1)
  | [] =>
    if negb block_ok then None else
    resolve_from_block fo filters ((zlen filters + 2) / 2)
  end.

(* a raw answer to getcfheaders *)
Record rawresp := { r_peer : Z; r_reg : bool; r_msg : cfmsg }.

(* getCFHeadersForAllPeers: stop hash and number of headers expected *)
Definition cf_range (v : cview) (height : Z) : option (Z * Z) :=
  match v_btip v with
  | None => None
  | Some (tipx, tiph) =>
    if u32 (tiph - height) >=? MAXCFH then
      let sh := u32 (height + MAXCFH - 1) in
      match v_bh v sh with
      | None => None
      | Some x => Some (x, u32 (sh - height + 1))
      end
    else Some (tipx, u32 (tiph - height + 1))
  end.

(* the first acceptable answer of every peer *)
Fixpoint accept (stop n : Z) (raws : list rawresp) (seen : list Z) : list (Z * cfmsg) :=
  match raws with
  | [] => []
  | r :: rest =>
    if negb (mem (r_peer r) seen) && r_reg r && (m_stop (r_msg r) =? stop)
       && (zlen (m_hashes (r_msg r)) =? n)
    then (r_peer r, r_msg r) :: accept stop n rest (r_peer r :: seen)
    else accept stop n rest seen
  end.

Definition get_headers (v : cview) (height : Z) (raws : list rawresp) : list (Z * cfmsg) * Z :=
  match cf_range v height with
  | None => ([], 0)
  | Some (stop, n) => (accept stop n raws [], n)
  end.

(* environment of the detection rounds: per target height the filters the
   peers serve, whether header and block can be fetched, the oracles *)
Record denv := {
  e_filters : Z -> list (Z * Z);
  e_hdr_ok : Z -> bool;
  e_block_ok : Z -> bool;
  e_fo : Z -> foracle
}.

Definition remove_peers {A} (bad : list Z) (l : list (Z * A)) : list (Z * A) :=
  List.filter (fun p => negb (mem (fst p) bad)) l.

(* one mismatching index: detect and ban until the remaining answers agree
   (F25).  Result: None = error; Some (headers left, peers banned). *)
Fixpoint settle_index (fuel : nat) (env : denv) (startH : Z) (hs : list (Z * cfmsg)) (i : Z)
         (bans : list Z) : option (list (Z * cfmsg)) * list Z :=
  match fuel with
  | O => (None, bans)
  | S fuel' =>
    if mismatch_at hs i then
      let t := u32 (startH + i) in
      match detect_bad hs i (e_filters env t) (e_hdr_ok env t) (e_block_ok env t) (e_fo env t) with
      | None => (None, bans)
      | Some bad =>
        let hs' := remove_peers bad hs in
        if (length hs' =? length hs)%nat then (None, bans ++ bad)
        else settle_index fuel' env startH hs' i (bans ++ bad)
      end
    else (Some hs, bans)
  end.

Fixpoint settle_all (env : denv) (startH : Z) (hs : list (Z * cfmsg)) (idxs : list nat)
         (bans : list Z) : option (list (Z * cfmsg)) * list Z :=
  match idxs with
  | [] => (Some hs, bans)
  | i :: rest =>
    match settle_index (S (length hs)) env startH hs (Z.of_nat i) bans with
    | (None, bans') => (None, bans')
    | (Some hs', bans') => settle_all env startH hs' rest bans'
    end
  end.

(* an arbitrary element of a map: the one of [hint] if present, else the first *)
Definition choose {A} (hint : Z) (l : list (Z * A)) : option (Z * A) :=
  match List.find (fun p => fst p =? hint) l with
  | Some p => Some p
  | None => match l with p :: _ => Some p | [] => None end
  end.

(* resolveConflict.  hard = ValidateCFHeader's table for this network.
   Result: banned peers (in order of the BanPeer calls) and the checkpoint
   list returned or None (error). *)
Definition peer_hard_bad (hard : Z -> option Z) (cp : list Z) : bool :=
  List.existsb (fun iv : nat * Z =>
      match hard (u32 ((Z.of_nat (fst iv) + 1) * INTERVAL)) with
      | Some w => negb (w =? snd iv)
      | None => false
      end) (List.combine (seq 0 (length cp)) cp).

(* [ix hs n]: the indices the loop "for i := 0; i < numHeaders; i++" visits.
   The code visits all of them ([full_ix]); the replay uses an enumeration
   that leaves out indices at which no two answers differ (Proofs.v:
   fast_ix_equiv). *)
Definition full_ix (hs : list (Z * cfmsg)) (n : Z) : list nat := seq 0 (zn n).

(* F15 repair: the checkpoint list [l] of a peer contradicts the cfheaders [m]
   it served for the interval starting at checkpoint index [d]: the header at
   the end of the interval, chained from the message's previous header over
   its first INTERVAL+1 filter hashes, is not the checkpoint l[d]. *)
Definition cp_contradicts (d : Z) (l : list Z) (m : cfmsg) : bool :=
  match zget l d with
  | None => false
  | Some c =>
    if zlen (m_hashes m) <? INTERVAL + 1 then false
    else negb (chain_last (m_prev m) (take (zn (INTERVAL + 1)) (m_hashes m)) =? c)
  end.

Definition msg_of (q : Z) (hs : list (Z * cfmsg)) : option cfmsg :=
  match List.find (fun c => fst c =? q) hs with Some c => Some (snd c) | None => None end.

Definition resolve_conflict_ix (ix : list (Z * cfmsg) -> Z -> list nat)
           (hard : Z -> option Z) (v : cview) (env : denv)
           (raws : list rawresp) (hint : Z) (cps : list (Z * list Z))
  : list Z * option (list Z) :=
  let bad0 := List.map fst (List.filter (fun p => peer_hard_bad hard (snd p)) cps) in
  let cps1 := remove_peers bad0 cps in
  match cps1 with
  | [] => (bad0, None)
  | _ =>
    match check_sanity cps1 v with
    | SaneErr => (bad0, None)
    | SaneAll => (bad0, option_map snd (choose hint cps1))
    | SaneDiff d =>
      let cps2 := List.filter (fun p => negb (zlen (snd p) <? d)) cps1 in
      match cps2 with
      | [] => (bad0, None)
      | _ =>
        let startH := u32 (d * INTERVAL) in
        let '(hs, n) := get_headers v startH raws in
        if negb (all_eq (List.map (fun p => m_prev (snd p)) hs))
        then (bad0, None) else
        match settle_all env startH hs (ix hs n) [] with
        | (None, bans) => (bad0 ++ bans, None)
        | (Some hs', bans) =>
          let cps3 := remove_peers bans cps2 in
          let silent := List.map fst (List.filter (fun p => negb (mem (fst p) (List.map fst hs'))) cps3) in
          let cps4 := remove_peers silent cps3 in
          (* F15 repair: peers whose checkpoint contradicts their own headers *)
          let cpliars := List.map fst (List.filter (fun p =>
                            match msg_of (fst p) hs' with
                            | Some m => cp_contradicts d (snd p) m
                            | None => false
                            end) cps4) in
          let cps5 := remove_peers cpliars cps4 in
          let allbans := bad0 ++ bans ++ silent ++ cpliars in
          match check_sanity cps5 v with
          | SaneErr => (allbans, None)
          | SaneAll =>
            match choose hint cps5 with
            | Some p => (allbans, Some (snd p))
            | None => (allbans, None)
            end
          | SaneDiff _ => (allbans, None)
          end
        end
      end
    end
  end.

Definition resolve_conflict := resolve_conflict_ix full_ix.

(* cfHandler's loop around resolveConflict ("for len(goodCheckpoints) == 0"):
   every round has the checkpoint lists (capped at the header tip) of the
   peers connected then, their getcfheaders answers and the filter
   environment; the loop ends with the first non-empty list returned.  The
   3 s pause, the quit channel and the re-fetch of the lists are not part of
   the model: the lists of a round are data.  Result: all bans, the list. *)
Record round := { rd_cps : list (Z * list Z); rd_raws : list rawresp; rd_env : denv; rd_hint : Z }.

Fixpoint cf_retry (hard : Z -> option Z) (v : cview) (rounds : list round) : list Z * option (list Z) :=
  match rounds with
  | [] => ([], None)
  | r :: rest =>
    match resolve_conflict hard v (rd_env r) (rd_raws r) (rd_hint r) (rd_cps r) with
    | (bans, Some (x :: l)) => (bans, Some (x :: l))
    | (bans, _) => let '(bans', res) := cf_retry hard v rest in (bans ++ bans', res)
    end
  end.

(* getUncheckpointedCFHeaders up to the message it writes *)
Inductive ures := UErr | UNoop | UWrite (m : cfmsg).

Definition get_uncheckpointed_ix (ix : list (Z * cfmsg) -> Z -> list nat)
           (v : cview) (env : denv) (raws : list rawresp)
  : list Z * ures :=
  match v_ftip v, v_btip v with
  | Some (ftip, fh), Some (_, bh) =>
    if bh <? fh then ([], UErr) else
    if bh =? fh then ([], UNoop) else
    let startH := u32 (fh + 1) in
    let '(hs, n) := get_headers v startH raws in
    let badprev := List.map fst (List.filter (fun p => negb (m_prev (snd p) =? ftip)) hs) in
    let hs1 := remove_peers badprev hs in
    match hs1 with
    | [] => (badprev, UErr)
    | _ =>
      match settle_all env startH hs1 (ix hs1 n) [] with
      | (None, bans) => (badprev ++ bans, UErr)
      | (Some hs2, bans) =>
        match List.find (fun p => 0 <? zlen (m_hashes (snd p))) hs2 with
        | Some p => (badprev ++ bans, UWrite (snd p))
        | None => (badprev ++ bans, UErr)
        end
      end
    end
  | _, _ => ([], UErr)
  end.

Definition get_uncheckpointed := get_uncheckpointed_ix full_ix.

(* indices at which some answer differs from the first one (all accepted
   answers have the same length) *)
Fixpoint diff_walk (i : nat) (a b : list Z) : list nat :=
  match a, b with
  | x :: a', y :: b' => (if x =? y then [] else [i]) ++ diff_walk (S i) a' b'
  | _, _ => []
  end.
Definition diff_idxs (hs : list (Z * cfmsg)) : list nat :=
  match hs with
  | [] => []
  | p :: r => flat_map (fun q => diff_walk 0 (m_hashes (snd p)) (m_hashes (snd q))) r
  end.
Definition memn (x : nat) (l : list nat) : bool := List.existsb (Nat.eqb x) l.
Definition fast_ix (hs : list (Z * cfmsg)) (n : Z) : list nat :=
  let d := diff_idxs hs in
  match d with
  | [] => []
  | _ => List.filter (fun i => memn i d) (seq 0 (zn n))
  end.

End Model.

(* ================= the stores as two lists ================= *)
(* The decision layer that WRITES (checkpointed fetch) runs on the plain-list
   abstraction of the stores (C07: the stores refine two lists; Proofs.v:
   write_cf refines awrite_cf). *)
Record alog2 := { abl : list Z; afl : list Z }.

Fixpoint index_of2 (x : Z) (l : list Z) (i : Z) : option Z :=
  match l with
  | [] => None
  | y :: r => if y =? x then Some i else index_of2 x r (i + 1)
  end.

Definition aview (a : alog2) : cview :=
  {| v_btip := match last (abl a) with Some x => Some (x, zlen (abl a) - 1) | None => None end;
     v_bh := zget (abl a);
     v_ftip := match last (afl a) with Some x => Some (x, zlen (afl a) - 1) | None => None end;
     v_fh := zget (afl a) |}.

Section Checkpointed.
Variable H : Z -> Z -> Z.

(* writeCFHeadersMsg on the lists *)
Definition awrite_cf (a : alog2) (m : cfmsg) : alog2 * option (Z * Z) :=
  match last (afl a) with
  | None => (a, None)
  | Some tip =>
    if negb (tip =? m_prev m) then (a, None) else
    let n := zlen (m_hashes m) in
    if n =? 0 then (a, None) else
    match index_of2 (m_stop m) (abl a) 0 with
    | None => (a, None)
    | Some e =>
      if negb (e =? zlen (afl a) + n - 1) then (a, None) else
      let hdrs := chain_from H (m_prev m) (m_hashes m) in
      ({| abl := abl a; afl := afl a ++ hdrs |}, Some (default 0 (last hdrs), e))
    end
  end.

(* one scripted arrival at the dispatcher: answer [a_msg] of peer [a_peer]
   to request number [a_q] *)
Record arrival := { a_q : Z; a_peer : Z; a_reg : bool; a_msg : cfmsg }.

(* the requests: checkpoint index -> stop hash *)
Fixpoint mk_queries (fuel : nat) (a : alog2) (ncp cur : Z) : option (list (Z * Z)) :=
  match fuel with
  | O => Some []
  | S fuel' =>
    if cur <? ncp then
      let next := Z.min (cur + CPQ) ncp in
      match zget (abl a) (next * INTERVAL) with
      | None => None                                   (* panic *)
      | Some stop =>
        match mk_queries fuel' a ncp next with
        | Some r => Some ((cur, stop) :: r)
        | None => None
        end
      end
    else Some []
  end.

(* handleResponse: (ban?, delivered?) *)
Definition handle_response (genesis : Z) (cps : list Z) (qs : list (Z * Z)) (ar : arrival)
  : bool * option (Z * cfmsg) :=
  match zget qs (a_q ar) with
  | None => (false, None)
  | Some (ci, stop) =>
    if negb (a_reg ar) || negb (m_stop (a_msg ar) =? stop) then (false, None) else
    let prevcp := if 0 <? ci then default 0 (zget cps (ci - 1)) else genesis in
    let nci := Z.min (ci + CPQ - 1) (zlen cps - 1) in
    let nextcp := default 0 (zget cps nci) in
    if negb (zlen (m_hashes (a_msg ar)) =? (nci - ci + 1) * INTERVAL) then (true, None) else   (* F26 *)
    if negb (verify_checkpoint H prevcp nextcp (a_msg ar)) then (true, None) else
    (false, Some (ci, a_msg ar))
  end.

(* the dispatcher: arrivals in order; a request is finished by its first
   verified answer.  Result: bans and delivered messages, in order. *)
Fixpoint dispatch (genesis : Z) (cps : list Z) (qs : list (Z * Z)) (ars : list arrival)
         (done : list Z) : list Z * list (Z * cfmsg) :=
  match ars with
  | [] => ([], [])
  | ar :: rest =>
    if mem (a_q ar) done then dispatch genesis cps qs rest done else
    match handle_response genesis cps qs ar with
    | (ban, None) =>
      let '(bs, ds) := dispatch genesis cps qs rest done in
      ((if ban then [a_peer ar] else []) ++ bs, ds)
    | (ban, Some d) =>
      let '(bs, ds) := dispatch genesis cps qs rest (a_q ar :: done) in
      ((if ban then [a_peer ar] else []) ++ bs, d :: ds)
    end
  end.

(* writer state *)
Record wst := { w_a : alog2; w_curHdr : Z; w_curH : Z; w_interval : Z;
                w_cache : list (Z * cfmsg); w_panic : bool; w_done : bool }.

(* drain the cache: write every consecutive cached interval *)
Fixpoint drain (fuel : nat) (initial : Z) (outerStart : Z) (w : wst) : wst :=
  match fuel with
  | O => w
  | S fuel' =>
    match List.find (fun p => fst p =? w_interval w) (w_cache w) with
    | None => w
    | Some (_, r) =>
      let cache' := List.filter (fun p => negb (fst p =? w_interval w)) (w_cache w) in
      let r' := if w_curHdr w =? initial then
                  let off := u32 (w_curH w + 1 - outerStart) in
                  {| m_prev := w_curHdr w; m_stop := m_stop r; m_hashes := drop (zn off) (m_hashes r) |}
                else r in
      match awrite_cf (w_a w) r' with
      | (_, None) => {| w_a := w_a w; w_curHdr := w_curHdr w; w_curH := w_curH w; w_interval := w_interval w;
                        w_cache := cache'; w_panic := true; w_done := true |}
      | (a', Some (hd, ht)) =>
        drain fuel' initial outerStart
              {| w_a := a'; w_curHdr := hd; w_curH := ht; w_interval := ht / INTERVAL;
                 w_cache := cache'; w_panic := false; w_done := false |}
      end
    end
  end.

Definition consume (initial ncp : Z) (w : wst) (d : Z * cfmsg) : wst :=
  if w_done w then w else
  let '(ci, r) := d in
  let startHeight := u32 (ci * INTERVAL + 1) in
  let lastHeight := u32 (startHeight + zlen (m_hashes r) - 1) in
  if lastHeight <=? w_curH w then w else
  let cache := (ci, r) :: List.filter (fun p => negb (fst p =? ci)) (w_cache w) in
  let w1 := drain (S (length cache)) initial startHeight
                  {| w_a := w_a w; w_curHdr := w_curHdr w; w_curH := w_curH w; w_interval := w_interval w;
                     w_cache := cache; w_panic := false; w_done := false |} in
  if w_panic w1 then w1 else
  {| w_a := w_a w1; w_curHdr := w_curHdr w1; w_curH := w_curH w1; w_interval := w_interval w1;
     w_cache := w_cache w1; w_panic := false; w_done := ncp <=? w_interval w1 |}.

(* getCheckpointedCFHeaders: bans, final lists, panicked? *)
Definition get_checkpointed (genesis : Z) (a : alog2) (cps : list Z) (ars : list arrival)
  : list Z * alog2 * bool :=
  match last (afl a) with
  | None => ([], a, true)
  | Some curHdr =>
    let curH := zlen (afl a) - 1 in
    let si := curH / INTERVAL in
    let ncp := zlen cps in
    match mk_queries (S (length cps)) a ncp si with
    | None => ([], a, true)
    | Some [] => ([], a, false)
    | Some qs =>
      let '(bans, ds) := dispatch genesis cps qs ars [] in
      let w := fold_left (consume curHdr ncp) ds
                 {| w_a := a; w_curHdr := curHdr; w_curH := curH; w_interval := si;
                    w_cache := []; w_panic := false; w_done := false |} in
      (bans, w_a w, w_panic w)
    end
  end.

End Checkpointed.

(* ================= VerifyBasicBlockFilter (verification.go) ================= *)
(* The decision of VerifyBasicBlockFilter over an abstract block and an
   abstract filter.  A script is what the code looks at: its identity (token),
   its length and its first byte (-1 if empty); [sc_parses] (txscript parses
   it) and the size are carried along because they are what the code must NOT
   look at.  An input is what txscript.ComputePkScript makes of it.  The
   filter is its Match predicate on script tokens (gcs.Filter.Match; its
   error path - a bit stream ending early is io.EOF = "no match" - cannot be
   reached and is not modelled).

   Result as in the Go code: None = error (a script that must match does
   not), Some n = n OP_RETURN outputs matched.

   The model is of the tree WITH the repair F30: the outputs of the coinbase
   transaction are checked like all others (only its inputs are skipped). *)
Definition OP_RETURN : Z := 106.     (* txscript.OP_RETURN = 0x6a *)

Record ascript := { sc_tok : Z; sc_len : Z; sc_first : Z; sc_parses : bool }.
Inductive ainput :=
| INoWitness                 (* len(in.Witness) == 0: skipped *)
| INoScript                  (* ComputePkScript fails: skipped *)
| IScript (s : Z).           (* the pk script derived from the witness *)
Record atx := { tx_outs : list ascript; tx_ins : list ainput }.
Definition ablock := list atx.       (* head = the coinbase transaction *)

Definition vout (f : Z -> bool) (acc : option Z) (s : ascript) : option Z :=
  match acc with
  | None => None
  | Some n =>
    if sc_len s =? 0 then Some n
    else if sc_first s =? OP_RETURN then Some (if f (sc_tok s) then n + 1 else n)
    else if f (sc_tok s) then Some n else None
  end.

Definition vin (f : Z -> bool) (acc : option Z) (i : ainput) : option Z :=
  match acc with
  | None => None
  | Some n =>
    match i with
    | INoWitness => Some n
    | INoScript => Some n
    | IScript s => if f s then Some n else Some n      (* a miss is only logged *)
    end
  end.

Definition vtx (f : Z -> bool) (coinbase : bool) (acc : option Z) (tx : atx) : option Z :=
  let a1 := fold_left (vout f) (tx_outs tx) acc in
  if coinbase then a1 else fold_left (vin f) (tx_ins tx) a1.

Definition verify_filter (b : ablock) (f : Z -> bool) : option Z :=
  match b with
  | [] => Some 0
  | cb :: rest => fold_left (vtx f false) rest (vtx f true (Some 0) cb)
  end.
