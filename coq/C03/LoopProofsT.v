(* C03 — the loop theorems: safety of whole runs (events between rounds
   included), and freshness of the cached lists. *)
From stdpp Require Import gmap list.
From Coq Require Import ZArith Lia ZifyBool.
From Verif Require Import S1.Model C07.Spec C03.Model C03.Spec C03.Proofs C03.ProofsF C03.ProofsU C03.ProofsS
     C03.ProofsR C03.ProofsP C03.ProofsC C03.Loop C03.LoopSpec C03.LoopTruth C03.LoopProofs C03.LoopProofsR.
Open Scope Z_scope.

(* rollBackToHeight h followed by an append, on the two lists *)
Lemma chain_event_unfold a h xs :
  chain_event a h xs =
  if h + 1 <? zlen (abl a)
  then {| abl := take (zn (h + 1)) (abl a) ++ xs;
          afl := take (zn (Z.min (zlen (afl a)) (h + 1))) (afl a) |}
  else {| abl := abl a ++ xs; afl := afl a |}.
Proof.
  unfold chain_event, arollback, aappend, to2, of2. cbn [bl fl]. unfold alen, zlen.
  destruct (h + 1 <? Z.of_nat (length (abl a))); reflexivity.
Qed.

Section T.
Variable H : Z -> Z -> Z.
Variable fh : Z -> Z.
Hypothesis H_inj : forall a b a' b', H a b = H a' b' -> a = a' /\ b = b'.
Variable parent : Z -> Z.
Variable g : Z.
Variable p : Z.
Variable c : lcfg.
Variable tfilt : Z -> Z.

Notation thdrs := (thdrs H fh).
Notation thd := (thd H fh).
Notation tcps := (tcps H fh).
Notation committed_true := (committed_true H fh).
Notation linv := (linv H fh parent g p c).

Lemma thd0 bl : bl <> [] -> zlen bl < 1000000 -> thd bl 0 = H (fh (default 0 (head bl))) 0.
Proof.
  intros Hne Hl. destruct bl as [|x bl]; [done|].
  rewrite thd_hdr by (unfold zlen in *; cbn [length] in *; lia). reflexivity.
Qed.

Lemma chain_event_true a h xs :
  0 <= h -> zlen (abl a) < 1000000 -> committed_true a ->
  committed_true (chain_event a h xs) /\
  head (abl (chain_event a h xs)) = head (abl a).
Proof.
  intros Hh Hlen [[H1 H2] Ht]. rewrite chain_event_unfold. unfold LoopSpec.committed_true.
  destruct (h + 1 <? zlen (abl a)) eqn:E; cbn [abl afl].
  - set (K := Z.to_nat (h + 1)). assert (HK : (1 <= K < length (abl a))%nat) by (unfold zlen in *; lia).
    rewrite (zn_small (h + 1)) by (unfold zlen in *; lia). fold K.
    set (L := length (afl a)) in *.
    assert (Hz : zn (Z.min (zlen (afl a)) (h + 1)) = (L `min` K)%nat).
    { rewrite zn_small by (unfold zlen in *; lia). unfold zlen, L, K. lia. }
    rewrite Hz. split; [split|].
    + rewrite take_length, app_length, take_length. fold L. lia.
    + rewrite take_length. fold L. replace ((L `min` K) `min` L)%nat with (L `min` K)%nat by lia.
      rewrite Ht at 1. fold L. rewrite take_take.
      rewrite thdrs_app, thdrs_take. rewrite take_app_le by (rewrite take_length, thdrs_length; lia).
      rewrite take_take. f_equal. lia.
    + destruct (abl a) as [|x l] eqn:Ea; [cbn in HK; lia|]. destruct K; [lia|]. reflexivity.
  - split; [split|].
    + rewrite app_length. lia.
    + rewrite Ht at 1. rewrite thdrs_app. rewrite take_app_le by (rewrite thdrs_length; lia). done.
    + destruct (abl a) as [|x l]; [cbn in H2; lia|]. reflexivity.
Qed.

Lemma lstep_inv s e :
  linv s -> wf_ev parent s e ->
  match e with ERound d => hon_round H fh p c tfilt s d | _ => True end ->
  l_flag (lstep H c s e) = 0 -> linv (lstep H c s e).
Proof.
  intros Hinv Hwf Hhon Hflag. destruct e as [h xs syn|q|q|d]; cbn [lstep] in *.
  - destruct Hinv as [[Hnd Hlen] Hpar Hhead Htrue Hgen Hnb Hcb Hcache Hleg Hcp Hphase].
    destruct Hwf as (Hh & Hwf & Hpar').
    destruct (chain_event_true (l_a s) h xs Hh (proj2 Hlen) Htrue) as [Ht' Hhead'].
    constructor; cbn; try done; [by rewrite <- Hhead|].
    assert (Hne : abl (l_a s) <> []) by (intros E; rewrite E in Hlen; unfold zlen in Hlen; cbn in Hlen; lia).
    assert (Hne' : abl (chain_event (l_a s) h xs) <> []).
    { intros E. rewrite E in Hhead'. by destruct (abl (l_a s)). }
    change (bl (arollback (of2 (l_a s)) h) ++ xs) with (abl (chain_event (l_a s) h xs)). rewrite Hgen. rewrite (thd0 _ Hne (proj2 Hlen)), (thd0 _ Hne' (proj2 (proj2 Hwf))). by rewrite Hhead'.
  - destruct (mem q (l_banned s) || mem q (l_conn s)) eqn:E; [done|].
    destruct Hinv as [Hch Hpar Hhead Htrue Hgen Hnb Hcb Hcache Hleg Hcp Hphase]. constructor; cbn; try done.
    intros q' Hq'. apply in_app_or in Hq' as [Hq'|[<-|[]]]; [by apply Hcb|].
    apply orb_false_iff in E as [E _]. by apply mem_false.
  - destruct Hinv as [Hch Hpar Hhead Htrue Hgen Hnb Hcb Hcache Hleg Hcp Hphase]. constructor; cbn; try done.
    intros q' Hq'. apply filter_In in Hq' as [Hq' _]. by apply Hcb.
  - destruct (round H c s d) as [s' out] eqn:Er. cbn [fst] in *.
    by apply (round_inv H fh H_inj parent g p c tfilt s d s' out).
Qed.

(* the hypotheses along a run *)
Definition ev_ok (s : lstate) (e : lev) : Prop :=
  wf_ev parent s e /\ match e with ERound d => hon_round H fh p c tfilt s d | _ => True end.

Theorem lrun_inv evs : forall s,
  linv s -> hon_run H p c s evs ev_ok -> l_flag (lrun H c s evs) = 0 -> linv (lrun H c s evs).
Proof.
  induction evs as [|e evs IH]; intros s Hinv Hrun Hflag; [done|].
  cbn [lrun fold_left] in *. destruct Hrun as [[Hwf Hhon] Hrun].
  apply IH; [|done|done].
  apply lstep_inv; try done. by apply (lrun_flag_zero H c evs).
Qed.

(* ---------- the cached lists are never stale ---------- *)
(* With the repaired re-query test the lists are used again only for the
   stop hash they were fetched for; a hash names one chain, so the ghost
   flag is never set. *)
Lemma stale_flag_clear s :
  linv s -> c_height_only c = false -> INTERVAL <= tipH s ->
  stale_flag c s (tipH s) (refetch_cond c s (tipH s) (tipX s)) = l_flag s.
Proof.
  intros Hinv Ho Ht. unfold stale_flag.
  destruct (refetch_cond c s (tipH s) (tipX s)) eqn:Er; [done|]. cbn [negb andb].
  destruct (refetch_false c s _ _ Er) as [Em Hst]. specialize (Hst Ho).
  unfold best in Hst. rewrite (li_cp _ _ _ _ _ _ _ Hinv) in Hst. cbn [snd] in Hst.
  destruct (li_cache _ _ _ _ _ _ _ Hinv) as [Hc|(_ & Hl1 & Hnd & Hpar & Hhd & Hcs)].
  { rewrite Hc in Em. cbn in Em. unfold INTERVAL in *. lia. }
  specialize (Hcs Ho). destruct (li_chain _ _ _ _ _ _ _ Hinv) as [Hnd' Hlen'].
  assert (Heq : l_cache_bl s = abl (l_a s)).
  { apply (chain_determined parent g); try done.
    - exact (li_parent _ _ _ _ _ _ _ Hinv).
    - exact (li_head _ _ _ _ _ _ _ Hinv).
    - unfold tipX in Hst. rewrite Hcs in Hst.
      destruct (last (l_cache_bl s)) as [x|] eqn:E1.
      2:{ apply last_None in E1. rewrite E1 in Hl1. unfold zlen in Hl1. cbn in Hl1. lia. }
      destruct (last (abl (l_a s))) as [y|] eqn:E2.
      2:{ apply last_None in E2. rewrite E2 in Hlen'. unfold zlen in Hlen'. cbn in Hlen'. lia. }
      cbn in Hst. by rewrite Hst. }
  rewrite Heq, zlist_eqb_refl. done.
Qed.

Lemma round_flag_clear s d :
  linv s -> c_height_only c = false -> l_flag (fst (round H c s d)) = l_flag s.
Proof.
  intros Hinv Ho. unfold round. destruct (l_panic s); [done|].
  change (match l_ph s with PDecide => decide_ph s | ph => ph end) with (eff_phase s).
  assert (Hwait : l_flag (fst (wait_round H c s d)) = l_flag s).
  { unfold wait_round. destruct (negb (wait_cond s)); [done|].
    destruct (hlen (l_a s) <? INTERVAL) eqn:El; [done|]. unfold attempt.
    change (hlen (l_a s)) with (tipH s) in *. change (default 0 (last (abl (l_a s)))) with (tipX s).
    destruct (attempt_with _ _ _ _ _ _ _ _ _ _ _) as [s' out] eqn:E. cbn [fst].
    rewrite (attempt_with_flag H c _ _ _ _ _ _ _ _ _ _ _ E).
    unfold lists_of. cbn [fst]. apply stale_flag_clear; [done|done|lia]. }
  destruct (eff_phase s) as [|lh lx| |] eqn:Eph; [done| |done|].
  - by destruct (eff_phase_retry H fh parent g p c s lh lx Hinv).
  - unfold tip_round. cbn [set_ph l_a l_conn l_cache l_cache_stop l_banned l_synced l_cache_bl l_flag].
    destruct (zlen (afl (l_a s)) =? zlen (abl (l_a s))); [done|].
    destruct (get_uncheckpointed _ _ _) as [bans r]. cbn [do_ban l_conn l_banned].
    destruct r as [| |m]; try done. by destruct (awrite_cf H (l_a s) m) as [a' [?|]].
Qed.

(* every run keeps the invariant and the flag clear *)
Theorem lrun_safe evs : forall s,
  linv s -> c_height_only c = false -> l_flag s = 0 -> hon_run H p c s evs ev_ok ->
  linv (lrun H c s evs) /\ l_flag (lrun H c s evs) = 0.
Proof.
  induction evs as [|e evs IH]; intros s Hinv Ho Hf0 Hrun; [done|].
  cbn [lrun fold_left] in *. destruct Hrun as [[Hwf Hhon] Hrun].
  assert (Hf1 : l_flag (lstep H c s e) = 0).
  { destruct e as [h xs syn|q|q|d]; cbn [lstep]; try done.
    - by destruct (_ || _).
    - by rewrite round_flag_clear. }
  apply IH; try done. by apply lstep_inv.
Qed.

(* ---------- the initial state ---------- *)
Lemma linit_inv a conn syn :
  wf_chain (abl a) -> parent_ok parent (abl a) -> head (abl a) = Some g ->
  committed_true a -> c_genesis c = thd (abl a) 0 ->
  c_legacy c = false -> c_cp c = None ->
  linv (linit a conn syn) /\ l_flag (linit a conn syn) = 0.
Proof.
  intros Hwf Hp Hh Ht Hg Hl Hc. split; [|done].
  constructor; cbn; try done; [tauto|tauto|by left].
Qed.

End T.

