(* C03 — the loop theorems: safety of whole runs (events between rounds
   included), and freshness of the cached lists. *)
From stdpp Require Import gmap list.
From Coq Require Import ZArith Lia ZifyBool.
From Verif Require Import S1.Model C07.Spec C03.Model C03.Spec C03.Proofs C03.ProofsF C03.ProofsU C03.ProofsS
     C03.ProofsR C03.ProofsP C03.ProofsC C03.Loop C03.LoopSpec C03.LoopTruth C03.LoopProofs C03.LoopProofsR.
Open Scope Z_scope.

(* rollBackToHeight h followed by an append, on the two lists *)
Lemma chain_event_unfold a h xs :
  chain_event a h xs =
  if h + 1 <? zlen (abl a)
  then {| abl := take (zn (h + 1)) (abl a) ++ xs;
          afl := take (zn (Z.min (zlen (afl a)) (h + 1))) (afl a) |}
  else {| abl := abl a ++ xs; afl := afl a |}.
Proof.
  unfold chain_event, arollback, aappend, to2, of2. cbn [bl fl]. unfold alen, zlen.
  destruct (h + 1 <? Z.of_nat (length (abl a))); reflexivity.
Qed.

Section T.
Variable H : Z -> Z -> Z.
Variable fh : Z -> Z.
Hypothesis H_inj : forall a b a' b', H a b = H a' b' -> a = a' /\ b = b'.
Variable p : Z.
Variable c : lcfg.
Variable tfilt : Z -> Z.

Notation thdrs := (thdrs H fh).
Notation thd := (thd H fh).
Notation tcps := (tcps H fh).
Notation committed_true := (committed_true H fh).
Notation linv := (linv H fh p c).

Lemma thd0 bl : bl <> [] -> zlen bl < 1000000 -> thd bl 0 = H (fh (default 0 (head bl))) 0.
Proof.
  intros Hne Hl. destruct bl as [|x bl]; [done|].
  rewrite thd_hdr by (unfold zlen in *; cbn [length] in *; lia). reflexivity.
Qed.

Lemma chain_event_true a h xs :
  0 <= h -> zlen (abl a) < 1000000 -> committed_true a ->
  committed_true (chain_event a h xs) /\
  head (abl (chain_event a h xs)) = head (abl a).
Proof.
  intros Hh Hlen [[H1 H2] Ht]. rewrite chain_event_unfold. unfold LoopSpec.committed_true.
  destruct (h + 1 <? zlen (abl a)) eqn:E; cbn [abl afl].
  - set (K := Z.to_nat (h + 1)). assert (HK : (1 <= K < length (abl a))%nat) by (unfold zlen in *; lia).
    rewrite (zn_small (h + 1)) by (unfold zlen in *; lia). fold K.
    set (L := length (afl a)) in *.
    assert (Hz : zn (Z.min (zlen (afl a)) (h + 1)) = (L `min` K)%nat).
    { rewrite zn_small by (unfold zlen in *; lia). unfold zlen, L, K. lia. }
    rewrite Hz. split; [split|].
    + rewrite take_length, app_length, take_length. fold L. lia.
    + rewrite take_length. fold L. replace ((L `min` K) `min` L)%nat with (L `min` K)%nat by lia.
      rewrite Ht at 1. fold L. rewrite take_take.
      rewrite thdrs_app, thdrs_take. rewrite take_app_le by (rewrite take_length, thdrs_length; lia).
      rewrite take_take. f_equal. lia.
    + destruct (abl a) as [|x l] eqn:Ea; [cbn in HK; lia|]. destruct K; [lia|]. reflexivity.
  - split; [split|].
    + rewrite app_length. lia.
    + rewrite Ht at 1. rewrite thdrs_app. rewrite take_app_le by (rewrite thdrs_length; lia). done.
    + destruct (abl a) as [|x l]; [cbn in H2; lia|]. reflexivity.
Qed.

Lemma lstep_inv s e :
  linv s -> wf_ev s e ->
  match e with ERound d => hon_round H fh p c tfilt s d | _ => True end ->
  l_flag (lstep H c s e) = 0 -> linv (lstep H c s e).
Proof.
  intros Hinv Hwf Hhon Hflag. destruct e as [h xs syn|q|q|d]; cbn [lstep] in *.
  - destruct Hinv as [[Hnd Hlen] Htrue Hgen Hnb Hcb Hcache Hleg Hcp Hphase].
    destruct Hwf as [Hh Hwf].
    destruct (chain_event_true (l_a s) h xs Hh (proj2 Hlen) Htrue) as [Ht' Hhead].
    constructor; cbn; try done.
    assert (Hne : abl (l_a s) <> []) by (intros E; rewrite E in Hlen; unfold zlen in Hlen; cbn in Hlen; lia).
    assert (Hne' : abl (chain_event (l_a s) h xs) <> []).
    { intros E. rewrite E in Hhead. by destruct (abl (l_a s)). }
    change (bl (arollback (of2 (l_a s)) h) ++ xs) with (abl (chain_event (l_a s) h xs)). rewrite Hgen. rewrite (thd0 _ Hne (proj2 Hlen)), (thd0 _ Hne' (proj2 (proj2 Hwf))). by rewrite Hhead.
  - destruct (mem q (l_banned s) || mem q (l_conn s)) eqn:E; [done|].
    destruct Hinv as [Hch Htrue Hgen Hnb Hcb Hcache Hleg Hcp Hphase]. constructor; cbn; try done.
    intros q' Hq'. apply in_app_or in Hq' as [Hq'|[<-|[]]]; [by apply Hcb|].
    apply orb_false_iff in E as [E _]. by apply mem_false.
  - destruct Hinv as [Hch Htrue Hgen Hnb Hcb Hcache Hleg Hcp Hphase]. constructor; cbn; try done.
    intros q' Hq'. apply filter_In in Hq' as [Hq' _]. by apply Hcb.
  - destruct (round H c s d) as [s' out] eqn:Er. cbn [fst] in *.
    by apply (round_inv H fh H_inj p c tfilt s d s' out).
Qed.

(* the hypotheses along a run *)
Definition ev_ok (s : lstate) (e : lev) : Prop :=
  wf_ev s e /\ match e with ERound d => hon_round H fh p c tfilt s d | _ => True end.

Theorem lrun_inv evs : forall s,
  linv s -> hon_run H p c s evs ev_ok -> l_flag (lrun H c s evs) = 0 -> linv (lrun H c s evs).
Proof.
  induction evs as [|e evs IH]; intros s Hinv Hrun Hflag; [done|].
  cbn [lrun fold_left] in *. destruct Hrun as [[Hwf Hhon] Hrun].
  apply IH; [|done|done].
  apply lstep_inv; try done. by apply (lrun_flag_zero H c evs).
Qed.

(* ---------- freshness ---------- *)
(* the lists were fetched for the present chain, or for a shorter one *)
Definition fresh (s : lstate) : Prop :=
  l_cache s = [] \/ l_cache_bl s = abl (l_a s) \/ zlen (l_cache_bl s) < zlen (abl (l_a s)).

Lemma min_cp_le cps q l : In (q, l) cps -> min_checkpoint_height cps <= u32 (zlen l * INTERVAL).
Proof.
  intros Hin. unfold min_checkpoint_height. destruct cps as [|c0 r] eqn:E; [destruct Hin|]. rewrite <- E in *. clear E.
  assert (Hg : forall (xs : list (Z * list Z)) acc,
             fold_left (fun m p0 => Z.min m (u32 (zlen (snd p0) * INTERVAL))) xs acc <= acc /\
             (In (q, l) xs -> fold_left (fun m p0 => Z.min m (u32 (zlen (snd p0) * INTERVAL))) xs acc <= u32 (zlen l * INTERVAL))).
  { induction xs as [|x xs IH]; intros acc; cbn [fold_left]; [split; [lia|intros []]|].
    destruct (IH (Z.min acc (u32 (zlen (snd x) * INTERVAL)))) as [I1 I2]. split; [lia|].
    intros [->|Hx]; [cbn [snd] in *; lia|by apply I2]. }
  by apply Hg.
Qed.

Lemma round_fresh s d s' out :
  linv s -> fresh s -> l_flag s = 0 -> hon_round H fh p c tfilt s d ->
  round H c s d = (s', out) -> fresh s' /\ l_flag s' = 0.
Proof.
  intros Hinv Hfr Hf0 Hhon Hr. unfold round in Hr.
  destruct (l_panic s); [by injection Hr as <- _|].
  change (match l_ph s with PDecide => decide_ph s | ph => ph end) with (eff_phase s) in Hr.
  assert (Hatt : forall lastX, INTERVAL <= tipH s ->
             attempt H c s (tipH s) lastX d = (s', out) -> fresh s' /\ l_flag s' = 0).
  { intros lastX Ht Ha. unfold attempt in Ha.
    pose proof (attempt_with_flag H c _ _ _ _ _ _ _ _ _ _ Ha) as Hfl.
    assert (Hsf : stale_flag c s (tipH s) (fst (lists_of c s (tipH s) lastX d)) = 0 /\
                  (fst (lists_of c s (tipH s) lastX d) = false -> l_cache_bl s = abl (l_a s))).
    { unfold stale_flag, lists_of. cbn [fst].
      destruct (min_checkpoint_height (l_cache s) <? tipH s) eqn:Er; cbn [negb andb]; [done|].
      assert (Heq : l_cache_bl s = abl (l_a s)).
      { destruct (li_cache _ _ _ _ _ Hinv) as [Hc|[Hc Hc1]].
        { rewrite Hc in Er. cbn in Er. unfold INTERVAL in *. lia. }
        destruct Hfr as [Hc0|[Heq|Hlt]]; [|done|].
        { rewrite Hc0 in Er. cbn in Er. unfold INTERVAL in *. lia. }
        exfalso. pose proof (proj2 (Hc _) eq_refl) as Hin.
        pose proof (min_cp_le _ _ _ Hin) as Hm.
        destruct (li_chain _ _ _ _ _ Hinv) as [_ Hlen].
        rewrite tcps_length in Hm by (unfold INTERVAL in *; lia).
        unfold INTERVAL in *.
        pose proof (Z.mul_div_le (zlen (l_cache_bl s) - 1) 1000 ltac:(lia)).
        pose proof (Z.div_pos (zlen (l_cache_bl s) - 1) 1000 ltac:(lia) ltac:(lia)).
        rewrite u32_small in Hm by (unfold U32; lia). unfold tipH, hlen in *. lia. }
      rewrite Heq, zlist_eqb_refl. done. }
    destruct Hsf as [Hsf Heq]. rewrite Hsf in Hfl. split; [|done].
    (* the new ghost chain is the present one, or the lists are gone *)
    revert Ha. unfold attempt_with. rewrite (li_legacy _ _ _ _ _ Hinv).
    set (cbl := if fst (lists_of c s (tipH s) lastX d) then abl (l_a s) else l_cache_bl s).
    assert (Hcbl : cbl = abl (l_a s)).
    { unfold cbl. destruct (fst (lists_of c s (tipH s) lastX d)) eqn:E; [done|by apply Heq]. }
    destruct (_ && _); [intros [= <- _]; right; left; cbn; done|].
    destruct (resolve_of H c s (tipH s) lastX d) as [bans res]. cbn [do_ban l_conn l_banned].
    destruct res as [[|x l]|]; [intros [= <- _]; by left| |intros [= <- _]; by left].
    destruct (get_checkpointed H (c_genesis c) (l_a s) (x :: l) _) as [[bans2 a'] pan] eqn:EG.
    cbn [do_ban l_conn l_banned]. intros [= <- _]. right. left. cbn.
    destruct (checkpointed_writes_full H _ _ _ _ _ _ _ EG) as (ms & _ & Hb & _). by rewrite Hb. }
  assert (Hwait : wait_round H c s d = (s', out) -> fresh s' /\ l_flag s' = 0).
  { intros Hw. unfold wait_round in Hw.
    destruct (negb (wait_cond s)); [by injection Hw as <- _|].
    destruct (hlen (l_a s) <? INTERVAL) eqn:El; [by injection Hw as <- _|].
    apply (Hatt (default 0 (last (abl (l_a s))))); [unfold tipH; lia|exact Hw]. }
  destruct (eff_phase s) as [|lh lx| |] eqn:Eph; [by apply Hwait| |by apply Hwait|].
  - by destruct (eff_phase_retry H fh p c s lh lx Hinv).
  - revert Hr. unfold tip_round. cbn [set_ph l_a l_conn l_cache l_banned l_synced l_cache_bl l_flag].
    destruct (zlen (afl (l_a s)) =? zlen (abl (l_a s))); [by intros [= <- _]|].
    destruct (get_uncheckpointed _ _ _) as [bans r]. cbn [do_ban l_conn l_banned].
    destruct r as [| |m]; [by intros [= <- _]..|].
    destruct (awrite_cf H (l_a s) m) as [a' [[hd ht]|]] eqn:EW; [|by intros [= <- _]].
    intros [= <- _]. split; [|done]. unfold fresh in *. cbn.
    destruct (awrite_cf_ok H _ _ _ _ _ EW) as (Hb & _). by rewrite Hb.
Qed.

Lemma chain_fresh s h xs syn :
  fresh s -> raises s (EChain h xs syn) -> fresh (lstep H c s (EChain h xs syn)).
Proof.
  intros Hfr Hra. unfold fresh in *. cbn [lstep l_cache l_cache_bl l_a] in *.
  destruct Hfr as [Hc|[Heq|Hlt]]; [by left|right..].
  - destruct Hra as [-> | Hlt]; [by left|right]. by rewrite Heq.
  - right. destruct Hra as [-> | Hlt2]; [done|]. lia.
Qed.

(* While every chain event raises the height of the tip, the re-query
   condition of the code keeps the cached lists fresh: the flag stays clear
   and the invariant holds. *)
Theorem lrun_fresh evs : forall s,
  linv s -> fresh s -> l_flag s = 0 ->
  hon_run H p c s evs (fun s e => ev_ok s e /\ raises s e) ->
  let s' := lrun H c s evs in linv s' /\ fresh s' /\ l_flag s' = 0.
Proof.
  induction evs as [|e evs IH]; intros s Hinv Hfr Hf0 Hrun; [done|].
  cbn [lrun fold_left] in *. destruct Hrun as [[[Hwf Hhon] Hra] Hrun].
  assert (Hstep : fresh (lstep H c s e) /\ l_flag (lstep H c s e) = 0).
  { destruct e as [h xs syn|q|q|d].
    - split; [by apply chain_fresh|done].
    - cbn [lstep]. destruct (_ || _); done.
    - done.
    - cbn [lstep]. destruct (round H c s d) as [s1 out] eqn:Er. cbn [fst].
      by apply (round_fresh s d s1 out). }
  destruct Hstep as [Hfr' Hf0'].
  apply IH; try done. by apply lstep_inv.
Qed.

End T.

(* ---------- the initial state ---------- *)
Lemma linit_inv H fh p c a conn syn :
  wf_chain (abl a) -> committed_true H fh a -> c_genesis c = thd H fh (abl a) 0 ->
  c_legacy c = false -> c_cp c = None ->
  linv H fh p c (linit a conn syn) /\ fresh (linit a conn syn) /\ l_flag (linit a conn syn) = 0.
Proof.
  intros Hwf Ht Hg Hl Hc. split; [|split; [by left|done]].
  constructor; cbn; try done; [tauto|tauto|by left].
Qed.
