(* C03 — replay of implementation traces against the model (kind 1), the
   property monitors on the implementation's observations (kind 2) and the
   tables of the pure decision functions (kind >= 3).

   VerifyBasicBlockFilter is not an oracle here: the model's [fo_verify] is
   [verify_filter] on the abstract block of the height and the set of scripts
   the filter matches (both computed by the harness without calling the
   function under test); the implementation's verdict for every (block,
   filter) pair is compared with it (kind 1, tag 10) and the monitors take
   "the filter is refutable from the block" from the BIP-158 definition of
   Spec.v ([omits_requiredb]), never from the implementation's verdict. *)
From stdpp Require Import gmap list.
From Coq Require Import ZArith.
From Verif Require Import S1.Model C07.Spec C03.Model C03.Spec.
Open Scope Z_scope.

(* ---------- compact encodings ---------- *)
Definition runs := list (Z * Z).                 (* (start, length): start, start+1, ... *)
Definition unruns (rs : runs) : list Z :=
  flat_map (fun r : Z * Z => List.map (fun i => fst r + Z.of_nat i) (seq 0 (zn (snd r)))) rs.

(* table of H: (fh0, prev0, out0, n) means H (fh0+j) (prev0+j) = out0+j, j < n *)
Definition htab := list (Z * Z * Z * Z).
Fixpoint hlook (t : htab) (fh prev : Z) : Z :=
  match t with
  | [] => -1 - (fh * 1000003 + prev)
  | (f0, p0, o0, n) :: r =>
    let d := fh - f0 in
    if (0 <=? d) && (d <? n) && (prev - p0 =? d) then o0 + d else hlook r fh prev
  end.

Definition plook (t : list (Z * Z)) (x : Z) : Z := default 0 (lookup x t).

Definition rmsg := (Z * Z * runs)%type.           (* prev, stop, hashes *)
Definition mk_msg (m : rmsg) : cfmsg :=
  let '(p, s, h) := m in {| m_prev := p; m_stop := s; m_hashes := unruns h |}.

Definition rraw := (Z * bool * rmsg)%type.        (* peer, regular filter type, message *)
Definition mk_raw (r : rraw) : rawresp :=
  let '(p, g, m) := r in {| r_peer := p; r_reg := g; r_msg := mk_msg m |}.

(* abstract blocks: per transaction (outputs, inputs); an output script is
   (token, length, first byte or -1, txscript parses it), an input is -1 (no
   witness), -2 (no script derivable) or the token of the derived script *)
Definition rscript := (Z * Z * Z * bool)%type.
Definition rablock := list (list rscript * list Z).
Definition mk_script (r : rscript) : ascript :=
  let '(t, l, f, p) := r in {| sc_tok := t; sc_len := l; sc_first := f; sc_parses := p |}.
Definition mk_in (z : Z) : ainput :=
  if z =? -1 then INoWitness else if z <? 0 then INoScript else IScript z.
Definition mk_blk (b : rablock) : ablock :=
  List.map (fun tx : list rscript * list Z =>
              {| tx_outs := List.map mk_script (fst tx); tx_ins := List.map mk_in (snd tx) |}) b.

(* oracle rows of one block: filter token, GetFilterHash, the verdict of the
   IMPLEMENTATION's VerifyBasicBlockFilter, and - the ground truth, obtained
   without that function - the tokens of the block's scripts the filter
   matches (gcs.Filter.Match evaluated by the harness on every script) *)
Definition orow := (Z * Z * option Z * list Z)%type.
Definition ofind (orc : list orow) (g : Z) : option orow :=
  List.find (fun r : orow => let '(t, _, _, _) := r in t =? g) orc.
Definition matched_of (orc : list orow) (g : Z) : Z -> bool :=
  match ofind orc g with
  | Some (_, _, _, ms) => fun s => mem s ms
  | None => fun _ => false
  end.
Definition hash_of (orc : list orow) (g : Z) : Z :=
  match ofind orc g with Some (_, h, _, _) => h | None => -7 end.

(* the verdict oracle of the model is the MODEL of VerifyBasicBlockFilter on
   the abstract block and the matched set, not the implementation's verdict *)
Definition mk_fo (blk : ablock) (orc : list orow) : foracle :=
  {| fo_hash := hash_of orc;
     fo_verify := fun g => match ofind orc g with
                           | Some _ => verify_filter blk (matched_of orc g)
                           | None => None
                           end |}.

(* the implementation's verdicts against the model's *)
Definition orc_diff (blk : ablock) (orc : list orow) : bool :=
  List.existsb (fun r : orow =>
    let '(_, _, v, ms) := r in
    negb (match v, verify_filter blk (fun s => mem s ms) with
          | Some a, Some b => a =? b | None, None => true | _, _ => false end)) orc.

(* environment rows: height, filters served, header ok, block ok, the block,
   oracle rows *)
Definition renvrow := (Z * list (Z * Z) * bool * bool * rablock * list orow)%type.
Definition frow (rows : list renvrow) (t : Z) : option renvrow :=
  List.find (fun r : renvrow => let '(h, _, _, _, _, _) := r in h =? t) rows.
Definition mk_env (rows : list renvrow) : denv :=
  {| e_filters := fun t => match frow rows t with Some (_, f, _, _, _, _) => f | None => [] end;
     e_hdr_ok := fun t => match frow rows t with Some (_, _, b, _, _, _) => b | None => true end;
     e_block_ok := fun t => match frow rows t with Some (_, _, _, b, _, _) => b | None => true end;
     e_fo := fun t => match frow rows t with Some (_, _, _, _, b, o) => mk_fo (mk_blk b) o | None => mk_fo [] [] end |}.

(* kind-1 rows (tag 10): heights at which the implementation's
   VerifyBasicBlockFilter and the model disagree on some filter *)
Definition verdict_diffs (id : Z) (rows : list renvrow) : list (Z * Z * Z * Z) :=
  flat_map (fun r : renvrow =>
    let '(t, _, _, _, b, o) := r in
    if orc_diff (mk_blk b) o then [(id, 1, t, 10)] else []) rows.

(* ---------- small helpers ---------- *)
Definition opt_eqb {A} (f : A -> A -> bool) (a b : option A) : bool :=
  match a, b with Some x, Some y => f x y | None, None => true | _, _ => false end.
Definition pair_eqb (a b : Z * Z) : bool := (fst a =? fst b) && (snd a =? snd b).

Fixpoint insert_z (x : Z) (l : list Z) : list Z :=
  match l with
  | [] => [x]
  | y :: r => if x <? y then x :: l else if x =? y then l else y :: insert_z x r
  end.
Definition sort_set (l : list Z) : list Z := fold_right insert_z [] l.

Definition tip_of (l : list Z) : option (Z * Z) :=
  match last l with Some x => Some (x, zlen l - 1) | None => None end.

(* ---------- family S: structural histories on the real stores ---------- *)
Inductive rsop :=
| RAppend (xs : runs)
| RWriteCF (m : rmsg)
| RRollback (h : Z)
| RDump.

(* ok, returned (header, height), filter tip, block tip, in-memory tip
   (height, block hash), dump of filter file, dump of block file *)
Definition sobs := (bool * option (Z * Z) * option (Z * Z) * option (Z * Z) * (Z * Z) * runs * runs)%type.

Section FamS.
Variable ht : htab.
Variable pt : list (Z * Z).
Let Hf := hlook ht.
Let par := plook pt.

Definition s_step (b : bm) (o : rsop) : bm * (bool * option (Z * Z) * list Z * list Z) :=
  match o with
  | RAppend xs => let '(b', ok) := bappend b (unruns xs) in (b', (ok, None, [], []))
  | RWriteCF m =>
    let '(b', r) := write_cf Hf b (mk_msg m) in
    (b', (match r with Some _ => true | None => false end, r, [], []))
  | RRollback h => let '(b', ok, _) := rollback par b h in (b', (ok, None, [], []))
  | RDump => (b, (true, None, ents (ff (st b)), ents (bf (st b))))
  end.

Definition s_obs_eqb (b' : bm) (o : rsop) (m : bool * option (Z * Z) * list Z * list Z) (ob : sobs) : bool :=
  let '(ok, ret, ftip, btip, mem, df, db) := ob in
  let '(mok, mret, mdf, mdb) := m in
  Bool.eqb ok mok && opt_eqb pair_eqb ret mret &&
  opt_eqb pair_eqb ftip (f_chain_tip (st b')) && opt_eqb pair_eqb btip (b_chain_tip (st b')) &&
  match o, mret with
  | RWriteCF _, Some _ => pair_eqb mem (tipH b', tipX b')
  | _, _ => true
  end &&
  match o with
  | RDump => list_eqb (unruns df) mdf && list_eqb (unruns db) mdb
  | _ => true
  end.

Fixpoint s_mismatch (b : bm) (i : Z) (tr : list (rsop * sobs)) : option Z :=
  match tr with
  | [] => None
  | (o, ob) :: rest =>
    let '(b', m) := s_step b o in
    if s_obs_eqb b' o m ob then s_mismatch b' (i + 1) rest else Some i
  end.

(* the structural statement read off the implementation's observations *)
Definition all_hashes (tr : list (rsop * sobs)) : list Z :=
  flat_map (fun p : rsop * sobs => match fst p with RWriteCF (_, _, h) => unruns h | _ => [] end) tr.

Fixpoint chainedb (cands : list Z) (l : list Z) : bool :=
  match l with
  | x :: ((y :: _) as r) => List.existsb (fun fh => Hf fh x =? y) cands && chainedb cands r
  | _ => true
  end.

Definition s_holds_step (cands : list Z) (prev_ftip : option (Z * Z)) (o : rsop) (ob : sobs) : bool :=
  let '(ok, ret, ftip, btip, mem, df, db) := ob in
  match ftip, btip with
  | Some (fhd, fh), Some (bx, bh) =>
    (fh <=? bh) &&
    match o with
    | RWriteCF (p, stop, hs) =>
      if ok then
        match prev_ftip with
        | Some (phd, ph) =>
          (phd =? p) && (fh =? ph + zlen (unruns hs)) && opt_eqb pair_eqb ret ftip &&
          (fhd =? chain_last Hf p (unruns hs)) && pair_eqb mem (fh, stop)
        | None => false
        end
      else opt_eqb pair_eqb prev_ftip ftip
    | RRollback h => negb ok || (bh <=? Z.max h 0) || opt_eqb pair_eqb prev_ftip ftip
    | RAppend _ => opt_eqb pair_eqb prev_ftip ftip
    | RDump =>
      let lf := unruns df in let lb := unruns db in
      (zlen lf =? fh + 1) && (zlen lb =? bh + 1) && opt_eqb Z.eqb (last lf) (Some fhd) &&
      opt_eqb Z.eqb (last lb) (Some bx) && chainedb cands lf
    end
  | _, _ => false
  end.

Fixpoint s_bad (cands : list Z) (prev_ftip : option (Z * Z)) (i : Z) (tr : list (rsop * sobs)) : option Z :=
  match tr with
  | [] => None
  | (o, ob) :: rest =>
    if s_holds_step cands prev_ftip o ob
    then s_bad cands (let '(_, _, ftip, _, _, _, _) := ob in ftip) (i + 1) rest
    else Some i
  end.

End FamS.

(* ---------- truth of a chain, for the monitors ---------- *)
(* true filter hashes and true filter headers by height, true filter by height *)
Record rtruth := { rt_fh : runs; rt_fl : runs; rt_filt : list (Z * Z) }.

Definition true_msg (v : cview) (T : rtruth) (startH : Z) : option cfmsg :=
  match cf_range v startH with
  | None => None
  | Some (stop, n) =>
    Some {| m_prev := if startH =? 0 then 0 else default (-1) (zget (unruns (rt_fl T)) (startH - 1));
            m_stop := stop;
            m_hashes := take (zn n) (drop (zn startH) (unruns (rt_fh T))) |}
  end.

Definition mk_dtruth (T : rtruth) (m : cfmsg) : dtruth :=
  {| t_filter := plook (rt_filt T); t_msg := m |}.

Definition first_raw (p : Z) (raws : list rawresp) : option rawresp :=
  List.find (fun r => r_peer r =? p) raws.

Definition honest_raw (raws : list rawresp) (m : cfmsg) (p : Z) : bool :=
  match first_raw p raws with
  | Some r => r_reg r && msg_eqb (r_msg r) m
  | None => false
  end.

(* the class hypotheses of Spec (good_idx_bip158), evaluated at the heights
   that have a row (every height at which a peer deviates from the truth, and
   every height the implementation asked about, has one).  The ground truth
   is BIP-158 on the abstract block and the matched sets: NOT the verdicts of
   the implementation's VerifyBasicBlockFilter. *)
Definition rows_in_class (rows : list renvrow) (T : rtruth) (tm : cfmsg) (startH : Z) : bool :=
  List.forallb (fun r : renvrow =>
    let '(t, filts, hok, bok, rb, orc) := r in
    let i := t - startH in
    if (0 <=? i) && (i <? zlen (m_hashes tm)) then
      let blk := mk_blk rb in
      let tf := plook (rt_filt T) t in
      match ofind orc tf with Some _ => true | None => false end &&
      negb (omits_requiredb blk (matched_of orc tf)) &&
      (opret_matches blk (matched_of orc tf) =? 0) &&
      opt_eqb Z.eqb (zget (m_hashes tm) i) (Some (hash_of orc tf)) &&
      List.forallb (fun qg : Z * Z =>
        (snd qg =? tf) ||
        (match ofind orc (snd qg) with Some _ => true | None => false end &&
         omits_requiredb blk (matched_of orc (snd qg)))) filts
    else true) rows.

(* header and block of every height asked can be fetched.  Needed for
   PROGRESS only: a round whose block fetch fails is no verdict (nobody is
   banned on the strength of a majority, nothing is committed, an error is
   reported), so the safety checks apply to it all the same *)
Definition rows_avail (rows : list renvrow) (tm : cfmsg) (startH : Z) : bool :=
  List.forallb (fun r : renvrow =>
    let '(t, _, hok, bok, _, _) := r in
    let i := t - startH in
    if (0 <=? i) && (i <? zlen (m_hashes tm)) then hok && bok else true) rows.

Definition honest_rows (rows : list renvrow) (T : rtruth) (tm : cfmsg) (startH : Z) (p : Z) : bool :=
  List.forallb (fun r : renvrow =>
    let '(t, filts, _, _, _, _) := r in
    let i := t - startH in
    if (0 <=? i) && (i <? zlen (m_hashes tm)) then
      opt_eqb Z.eqb (lookup p filts) (Some (plook (rt_filt T) t))
    else true) rows.

(* ---------- the getcfheaders broadcasts of the implementation ---------- *)
(* (start height, stop hash) of every getcfheaders broadcast the harness saw.
   A request that spans more than MAXCFH headers cannot be answered: a
   conforming peer stays silent (btcd), a cfheaders message cannot hold more.
   The scripted peers behave like that; the monitors expect the honest peer's
   true answer only to a request that can be answered. *)
Definition req_too_long (bl : list Z) (reqs : list (Z * Z)) : bool :=
  List.existsb (fun r : Z * Z =>
    match index_of2 (snd r) bl 0 with
    | Some e => MAXCFH <? e - fst r + 1
    | None => false
    end) reqs.

Definition honest_ans (nc : bool) (raws : list rawresp) (m : cfmsg) (p : Z) : bool :=
  if nc then match first_raw p raws with None => true | Some _ => false end
  else honest_raw raws m p.

(* ---------- family U: getUncheckpointedCFHeaders ---------- *)
Definition uobs := (bool * list Z * option (Z * Z))%type.     (* error?, bans (sorted set), filter tip after *)

Definition u_verdict (id : Z) (reqs : list (Z * Z)) (ht : htab) (bl fl : runs) (raws : list rraw)
           (envr : list renvrow) (T : rtruth) (honest : list Z) (ob : uobs) : list (Z * Z * Z * Z) :=
  let Hf := hlook ht in
  let a := {| abl := unruns bl; afl := unruns fl |} in
  let v := aview a in
  let rs := List.map mk_raw raws in
  let env := mk_env envr in
  let '(bans, res) := get_uncheckpointed_ix fast_ix v env rs in
  let '(oerr, obans, oftip) := ob in
  let '(merr, mftip) :=
    match res with
    | UErr => (true, v_ftip v)
    | UNoop => (false, v_ftip v)
    | UWrite m => match awrite_cf Hf a m with
                  | (a', Some _) => (false, tip_of (afl a'))
                  | (_, None) => (true, v_ftip v)
                  end
    end in
  (if Bool.eqb oerr merr && list_eqb obans (sort_set bans) && opt_eqb pair_eqb oftip mftip
   then [] else [(id, 1, 0, 0)]) ++
  verdict_diffs id envr ++
  (* monitor *)
  match v_ftip v with
  | Some (ftip, fh) =>
    match true_msg v T (u32 (fh + 1)) with
    | Some tm =>
      let startH := u32 (fh + 1) in
      let hyp := negb (length honest =? 0)%nat && rows_in_class envr T tm startH &&
                 List.forallb (fun p => honest_rows envr T tm startH p &&
                                        honest_ans (req_too_long (abl a) reqs) rs tm p) honest in
      if hyp then
        let ok_honest := List.forallb (fun p => negb (mem p obans)) honest in
        let ok_value :=
          if opt_eqb pair_eqb oftip (v_ftip v) then true else
          opt_eqb pair_eqb oftip (Some (chain_last Hf ftip (m_hashes tm), fh + zlen (m_hashes tm))) in
        let liars := List.map fst (List.filter (fun p : Z * cfmsg => negb (msg_eqb (snd p) tm))
                                               (fst (get_headers v startH rs))) in
        let ok_liars := oerr || List.forallb (fun p => mem p obans) liars in
        (* with an honest peer connected the call commits: in particular the
           request is one a conforming peer can answer *)
        let ok_progress := negb (rows_avail envr tm startH) ||
                           (negb oerr && negb (req_too_long (abl a) reqs)) in
        if ok_honest && ok_value && ok_liars && ok_progress then [] else [(id, 2, 0, 0)]
      else []
    | None => []
    end
  | None => []
  end.

(* ---------- family R: resolveConflict ---------- *)
Definition robs := (list Z * option runs)%type.               (* bans (sorted set), returned list *)

Definition r_verdict (id : Z) (reqs : list (Z * Z)) (ht : htab) (bl fl : runs) (hard : list (Z * Z)) (raws : list rraw)
           (envr : list renvrow) (hint : Z) (cps : list (Z * runs))
           (T : rtruth) (tcps : runs) (honest : list Z) (ob : robs) : list (Z * Z * Z * Z) :=
  let Hf := hlook ht in
  let a := {| abl := unruns bl; afl := unruns fl |} in
  let v := aview a in
  let rs := List.map mk_raw raws in
  let env := mk_env envr in
  let hardf := fun h => lookup h hard in
  let cpl := List.map (fun p : Z * runs => (fst p, unruns (snd p))) cps in
  let '(bans, res) := resolve_conflict_ix Hf fast_ix hardf v env rs hint cpl in
  let '(obans, ores) := ob in
  let ores' := option_map unruns ores in
  (if list_eqb obans (sort_set bans) && opt_eqb list_eqb ores' res then [] else [(id, 1, 0, 0)]) ++
  verdict_diffs id envr ++
  (* monitor *)
  let tc := unruns tcps in
  let d_of := match check_sanity (remove_peers (List.map fst (List.filter (fun p => peer_hard_bad hardf (snd p)) cpl)) cpl) v with
              | SaneDiff d => Some d | _ => None end in
  let hyp_basic := negb (length honest =? 0)%nat &&
                   List.forallb (fun p => match List.find (fun q : Z * list Z => fst q =? p) cpl with
                                          | Some q => list_eqb (snd q) tc | None => false end) honest &&
                   List.forallb (fun q : Z * list Z => (length (snd q) <=? length tc)%nat) cpl &&
                   negb (peer_hard_bad hardf tc) &&
                   match v_ftip v with Some (x, h) => opt_eqb Z.eqb (zget (unruns (rt_fl T)) h) (Some x) | None => false end in
  let hyp :=
    hyp_basic &&
    match d_of with
    | None => true
    | Some d =>
      let startH := u32 (d * INTERVAL) in
      match true_msg v T startH with
      | Some tm =>
        rows_in_class envr T tm startH &&
        List.forallb (fun p => honest_rows envr T tm startH p &&
                               honest_ans (req_too_long (abl a) reqs) rs tm p) honest &&
        List.forallb (fun p : Z * cfmsg => m_prev (snd p) =? m_prev tm) (fst (get_headers v startH rs))
      | None => false
      end
    end in
  (if hyp then
    let ok_honest := List.forallb (fun p => negb (mem p obans)) honest in
    let ok_value := match ores' with Some l => is_prefix l tc | None => true end in
    let liars := List.map fst (List.filter (fun q : Z * list Z => negb (is_prefix (snd q) tc)) cpl) in
    let ok_liars := match ores' with Some _ => List.forallb (fun p => mem p obans) liars | None => true end in
    let avail := match d_of with
                 | None => true
                 | Some d => match true_msg v T (u32 (d * INTERVAL)) with
                             | Some tm => rows_avail envr tm (u32 (d * INTERVAL))
                             | None => true
                             end
                 end in
    let ok_progress := negb avail ||
                       match ores' with
                       | Some _ => true
                       | None => List.existsb (fun q => mem q (List.map fst cpl)) obans
                       end in
    if ok_honest && ok_value && ok_liars && ok_progress then [] else [(id, 2, 0, 0)]
  else []) ++
  (* the hard-coded control checkpoints, whoever is honest: the sender of a
     list that contradicts one - at ANY entry, the last one included - is
     banned, and no such list is returned *)
  (let ok_ctl :=
     List.forallb (fun q : Z * list Z => negb (peer_hard_bad hardf (snd q)) || mem (fst q) obans) cpl &&
     match ores' with Some l => negb (peer_hard_bad hardf l) | None => true end in
   if ok_ctl then [] else [(id, 2, 1, 0)]).

(* ---------- family C: getCheckpointedCFHeaders ---------- *)
Definition rarr := (Z * Z * bool * rmsg)%type.                 (* request number, peer, regular?, message *)
Definition cobs := (list Z * option (Z * Z) * bool)%type.      (* bans (sorted set), filter tip after, panicked *)

Definition c_verdict (id : Z) (ht : htab) (bl fl : runs) (genesis : Z) (cps : runs) (ars : list rarr)
           (T : rtruth) (ob : cobs) : list (Z * Z * Z * Z) :=
  let Hf := hlook ht in
  let a := {| abl := unruns bl; afl := unruns fl |} in
  let cpl := unruns cps in
  let arl := List.map (fun r : rarr => let '(q, p, g, m) := r in
                         {| a_q := q; a_peer := p; a_reg := g; a_msg := mk_msg m |}) ars in
  let '(bans, a', pan) := get_checkpointed Hf genesis a cpl arl in
  let '(obans, oftip, opan) := ob in
  (if list_eqb obans (sort_set bans) && Bool.eqb opan pan &&
      (pan || opt_eqb pair_eqb oftip (tip_of (afl a')))
   then [] else [(id, 1, 0, 0)]) ++
  (* monitor: true checkpoints and a true store give a true store, no panic *)
  let tfl := unruns (rt_fl T) in
  let true_cps := List.forallb (fun ic : nat * Z =>
                     opt_eqb Z.eqb (zget tfl ((Z.of_nat (fst ic) + 1) * INTERVAL)) (Some (snd ic)))
                     (List.combine (seq 0 (length cpl)) cpl) in
  let hyp := true_cps && is_prefix (afl a) tfl && (genesis =? default (-1) (zget tfl 0)) in
  if hyp then
    let ok := negb opan &&
              match oftip with
              | Some (x, h) => opt_eqb Z.eqb (zget tfl h) (Some x) && (h <? zlen (abl a))
              | None => false
              end in
    if ok then [] else [(id, 2, 0, 0)]
  else [].

(* ---------- tables of the pure functions ---------- *)
Inductive auxrow :=
| AVerify (ht : htab) (prevcp nextcp : Z) (m : rmsg) (exp : bool)
| ASanity (cps : list (Z * list Z)) (fl : runs) (exp : Z)            (* -1 all agree, -2 error, i *)
| AMinCp (cps : list (Z * Z)) (exp : Z)                              (* peer, list length *)
| AMismatch (hs : list (Z * list Z)) (i : Z) (exp : bool)
| AFromBlock (blk : rablock) (orc : list orow) (filters : list (Z * Z)) (threshold : Z) (exp : option (list Z))
| AVerifyFilter (blk : rablock) (matched : list Z) (exp : option Z)    (* VerifyBasicBlockFilter *)
| AHard (hard : list (Z * Z)) (cp : list Z) (exp : bool)
| AConsts (interval maxper perq : Z).

Definition aux_verdict (id : Z) (r : auxrow) : list (Z * Z * Z * Z) :=
  match r with
  | AVerify ht p n m e =>
    if Bool.eqb (verify_checkpoint (hlook ht) p n (mk_msg m)) e then [] else [(id, 3, 0, 0)]
  | ASanity cps fl e =>
    let v := aview {| abl := []; afl := unruns fl |} in
    let r := match check_sanity cps v with SaneAll => -1 | SaneErr => -2 | SaneDiff i => i end in
    if r =? e then [] else [(id, 4, 0, 0)]
  | AMinCp cps e =>
    let l := List.map (fun p : Z * Z => (fst p, repeat 0 (zn (snd p)))) cps in
    if min_checkpoint_height l =? e then [] else [(id, 5, 0, 0)]
  | AMismatch hs i e =>
    let l := List.map (fun p : Z * list Z => (fst p, {| m_prev := 0; m_stop := 0; m_hashes := snd p |})) hs in
    if Bool.eqb (mismatch_at l i) e then [] else [(id, 6, 0, 0)]
  | AFromBlock blk orc filters th e =>
    if opt_eqb list_eqb (option_map sort_set (resolve_from_block (mk_fo (mk_blk blk) orc) filters th)) e
    then [] else [(id, 7, 0, 0)]
  | AVerifyFilter blk ms e =>
    if opt_eqb Z.eqb (verify_filter (mk_blk blk) (fun s => mem s ms)) e then [] else [(id, 10, 0, 0)]
  | AHard hard cp e =>
    if Bool.eqb (peer_hard_bad (fun h => lookup h hard) cp) e then [] else [(id, 8, 0, 0)]
  | AConsts i m q =>
    if (i =? INTERVAL) && (m =? MAXCFH) && (q =? CPQ) then [] else [(id, 9, 0, 0)]
  end.

(* ---------- cases ---------- *)
Inductive case :=
| CS (ht : htab) (pt : list (Z * Z)) (g gfh : Z) (tr : list (rsop * sobs))
| CU (ht : htab) (bl fl : runs) (raws : list rraw) (envr : list renvrow)
     (T : rtruth) (honest : list Z) (ob : uobs)
| CR (ht : htab) (bl fl : runs) (hard : list (Z * Z)) (raws : list rraw) (envr : list renvrow)
     (hint : Z) (cps : list (Z * runs)) (T : rtruth) (tcps : runs) (honest : list Z) (ob : robs)
| CC (ht : htab) (bl fl : runs) (genesis : Z) (cps : runs) (ars : list rarr) (T : rtruth) (ob : cobs)
| CA (r : auxrow)
(* a U / R case together with the getcfheaders broadcasts the implementation sent *)
| CQ (reqs : list (Z * Z)) (c : case).

Fixpoint verdict_r (id : Z) (reqs : list (Z * Z)) (cs : case) : list (Z * Z * Z * Z) :=
  match cs with
  | CS ht pt g gfh tr =>
    match init g gfh with
    | None => [(id, 1, -1, 0)]
    | Some s0 =>
      let b0 := {| st := s0; tipH := 0; tipX := g |} in
      (match s_mismatch ht pt b0 0 tr with Some i => [(id, 1, i, 0)] | None => [] end) ++
      (match s_bad ht (all_hashes tr) (Some (gfh, 0)) 0 tr with Some i => [(id, 2, i, 0)] | None => [] end)
    end
  | CU ht bl fl raws envr T honest ob => u_verdict id reqs ht bl fl raws envr T honest ob
  | CR ht bl fl hard raws envr hint cps T tcps honest ob =>
    r_verdict id reqs ht bl fl hard raws envr hint cps T tcps honest ob
  | CC ht bl fl genesis cps ars T ob => c_verdict id ht bl fl genesis cps ars T ob
  | CA r => aux_verdict id r
  | CQ rq c => verdict_r id (reqs ++ rq) c
  end.

Definition verdict (c : Z * case) : list (Z * Z * Z * Z) := verdict_r (fst c) [] (snd c).

Definition run_cases (cs : list (Z * case)) : list (Z * Z * Z * Z) := flat_map verdict cs.
