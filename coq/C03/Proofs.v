(* C03 — lemmas of the conflict-resolution layer. *)
From stdpp Require Import gmap list.
From Coq Require Import ZArith Lia.
From Verif Require Import S1.Model C03.Model C03.Spec.
Open Scope Z_scope.

(* ---------- generic ---------- *)
Lemma mem_In x l : mem x l = true <-> In x l.
Proof.
  unfold mem. rewrite existsb_exists. split.
  - intros (y & Hy & E). apply Z.eqb_eq in E. by subst.
  - intros Hx. exists x. split; [done|apply Z.eqb_refl].
Qed.

Lemma mem_false x l : mem x l = false <-> ~ In x l.
Proof. rewrite <- mem_In. destruct (mem x l); split; intros; congruence. Qed.

Lemma remove_peers_In {A} bad (l : list (Z * A)) q :
  In q (remove_peers bad l) <-> In q l /\ mem (fst q) bad = false.
Proof.
  unfold remove_peers. rewrite filter_In. split; intros [H1 H2]; split; try done.
  - by apply negb_true_iff in H2.
  - by apply negb_true_iff.
Qed.

Lemma remove_peers_length {A} bad (l : list (Z * A)) :
  (length (remove_peers bad l) <= length l)%nat.
Proof. unfold remove_peers. induction l as [|x l IH]; cbn; [lia|]. destruct (negb _); cbn; lia. Qed.

Lemma remove_peers_shorter {A} bad (l : list (Z * A)) q :
  In q l -> mem (fst q) bad = true -> (length (remove_peers bad l) < length l)%nat.
Proof.
  unfold remove_peers. induction l as [|x l IH]; cbn; [done|]. intros [->|Hq] Hm.
  - rewrite Hm. cbn. pose proof (remove_peers_length bad l) as HL. unfold remove_peers in HL. lia.
  - destruct (negb _); cbn; specialize (IH Hq Hm); lia.
Qed.

Lemma all_eq_spec l : all_eq l = true <-> (forall x y, In x l -> In y l -> x = y).
Proof.
  destruct l as [|v r]; cbn [all_eq].
  - split; [intros _ x y []|done].
  - rewrite forallb_forall. split.
    + intros Hall x y Hx Hy.
      assert (forall z, In z (v :: r) -> z = v) as Hz.
      { intros z [->|Hz]; [done|]. specialize (Hall z Hz). apply Z.eqb_eq in Hall. done. }
      rewrite (Hz x Hx), (Hz y Hy). done.
    + intros Hall x Hx. apply Z.eqb_eq. apply Hall; [by left|by right].
Qed.

Lemma filter_all {A} (f : A -> bool) l : (forall x, In x l -> f x = true) -> List.filter f l = l.
Proof.
  induction l as [|x l IH]; cbn; [done|]. intros Hf. rewrite (Hf x (or_introl eq_refl)).
  f_equal. apply IH. intros y Hy. apply Hf. by right.
Qed.

Lemma filter_none {A} (f : A -> bool) l : (forall x, In x l -> f x = false) -> List.filter f l = [].
Proof.
  induction l as [|x l IH]; cbn; [done|]. intros Hf. rewrite (Hf x (or_introl eq_refl)).
  apply IH. intros y Hy. apply Hf. by right.
Qed.

Lemma fold_max_const {A} (l : list A) (g : A -> Z) c a :
  (forall x, In x l -> g x = c) -> a <= c -> l <> [] -> fold_left (fun m q => Z.max m (g q)) l a = c.
Proof.
  revert a. induction l as [|x l IH]; intros a Hg Ha Hne; [done|]. cbn.
  rewrite (Hg x (or_introl eq_refl)). destruct l as [|y l'].
  - cbn. lia.
  - apply IH; [intros z Hz; apply Hg; by right|lia|done].
Qed.

Lemma fold_max_const' {A} (f : Z -> A -> Z) (l : list A) c a :
  (forall m x, In x l -> f m x = Z.max m c) -> a <= c -> l <> [] -> fold_left f l a = c.
Proof.
  revert a. induction l as [|x l IH]; intros a Hg Ha Hne; [done|]. cbn.
  rewrite (Hg a x (or_introl eq_refl)). destruct l as [|y l'].
  - cbn. lia.
  - apply IH; [intros m z Hz; apply Hg; by right|lia|done].
Qed.

Lemma lookup_In p (l : list (Z * Z)) g : lookup p l = Some g -> In (p, g) l.
Proof.
  unfold lookup. destruct (List.find _ l) as [q|] eqn:E; [|done]. intros [= <-].
  apply find_some in E as [Hin Heq]. apply Z.eqb_eq in Heq. destruct q; cbn in *. by subst.
Qed.

Lemma lookup_NoDup p (l : list (Z * Z)) g :
  NoDup (List.map fst l) -> In (p, g) l -> lookup p l = Some g.
Proof.
  unfold lookup. induction l as [|[q h] l IH]; cbn; [done|]. intros Hnd [[= -> ->]|Hin].
  - by rewrite Z.eqb_refl.
  - apply NoDup_cons in Hnd as [Hq Hnd]. destruct (q =? p) eqn:E.
    + apply Z.eqb_eq in E. subst. exfalso. apply Hq. apply elem_of_list_In, in_map_iff. by exists (p, g).
    + by apply IH.
Qed.

(* ---------- columns and mismatches ---------- *)
Definition col (hs : list (Z * cfmsg)) (i : Z) : list Z :=
  omap (fun p => zget (m_hashes (snd p)) i) hs.

Lemma In_col hs i x : In x (col hs i) <-> exists p, In p hs /\ zget (m_hashes (snd p)) i = Some x.
Proof.
  unfold col. rewrite <- elem_of_list_In, elem_of_list_omap. split.
  - intros (p & Hp & E). exists p. by rewrite <- elem_of_list_In.
  - intros (p & Hp & E). exists p. by rewrite elem_of_list_In.
Qed.

Lemma mismatch_false hs i :
  mismatch_at hs i = false <->
  (forall p q x y, In p hs -> In q hs -> zget (m_hashes (snd p)) i = Some x ->
                   zget (m_hashes (snd q)) i = Some y -> x = y).
Proof.
  unfold mismatch_at. fold (col hs i). rewrite negb_false_iff, all_eq_spec. split.
  - intros Hall p q x y Hp Hq Ex Ey. apply Hall; apply In_col; eauto.
  - intros Hall x y (p & Hp & Ex)%In_col (q & Hq & Ey)%In_col. eauto.
Qed.

Lemma mismatch_sub hs hs' i :
  (forall p, In p hs' -> In p hs) -> mismatch_at hs i = false -> mismatch_at hs' i = false.
Proof. rewrite !mismatch_false. intros Hsub Hall p q x y Hp Hq. apply Hall; auto. Qed.

(* ---------- resolveFilterMismatchFromBlock / detectBadPeers ---------- *)
Section Detect.
Variable fo : foracle.
Variable tf : Z.                         (* the true filter of the block *)
Hypothesis Htf : fo_verify fo tf = Some 0.

Definition in_class (filters : list (Z * Z)) : Prop :=
  forall q g, In (q, g) filters -> g = tf \/ fo_verify fo g = None.

Lemma resolve_from_block_honest filters th p bad :
  in_class filters -> NoDup (List.map fst filters) -> In (p, tf) filters -> 0 < th ->
  resolve_from_block fo filters th = Some bad -> ~ In p bad.
Proof.
  intros Hc Hnd Hp Hth. unfold resolve_from_block.
  set (badf := List.filter _ filters).
  destruct badf as [|b0 br] eqn:Eb.
  - (* nobody fails verification: everybody serves the true filter *)
    cbv zeta.
    assert (Hall : forall q, In q filters -> snd q = tf).
    { intros [q g] Hq. cbn. destruct (Hc q g Hq) as [->|Hn]; [done|].
      assert (In (q, g) badf) as Hin.
      { unfold badf. apply filter_In. split; [done|]. cbn. by rewrite Hn. }
      rewrite Eb in Hin. destruct Hin. }
    set (cnt := fun q : Z * Z => default 0 (fo_verify fo (snd q))).
    change (fun (m : Z) (q : Z * Z) => Z.max m (default 0 (fo_verify fo (snd q)))) with (fun (m : Z) (q : Z * Z) => Z.max m (cnt q)).
    change (fun q : Z * Z => default 0 (fo_verify fo (snd q)) =? fold_left (fun (m : Z) (q0 : Z * Z) => Z.max m (cnt q0)) filters 0)
      with (fun q : Z * Z => cnt q =? fold_left (fun (m : Z) (q0 : Z * Z) => Z.max m (cnt q0)) filters 0).
    assert (Hcnt : forall q, In q filters -> cnt q = 0).
    { intros q Hq. unfold cnt. rewrite (Hall q Hq), Htf. done. }
    assert (Hne : filters <> []) by (intros E; rewrite E in Hp; destruct Hp).
    rewrite (fold_max_const filters cnt 0 0 Hcnt ltac:(lia) Hne).
    rewrite (filter_all (fun q => cnt q =? 0) filters) by (intros q Hq; rewrite (Hcnt q Hq); done).
    replace (zlen filters - zlen filters) with 0 by lia.
    replace (0 >=? th) with false by (symmetry; rewrite Z.geb_leb; apply Z.leb_gt; lia).
    rewrite andb_false_r.
    set (count := fun q : Z * Z => zlen (List.filter (fun r : Z * Z => fo_hash fo (snd r) =? fo_hash fo (snd q)) filters)).
    assert (Hcount : forall q, In q filters -> count q = zlen filters).
    { intros q Hq. unfold count. rewrite filter_all; [done|].
      intros r Hr. rewrite (Hall r Hr), (Hall q Hq). apply Z.eqb_refl. }
    rewrite (fold_max_const' _ filters (zlen filters) 0);
      [|intros m x Hx; f_equal; exact (Hcount x Hx)|unfold zlen; lia|done].
    destruct (zlen filters <? th); [done|]. intros [= <-].
    rewrite filter_none; [intros []|].
    intros q Hq. pose proof (Hcount q Hq) as Hc2. unfold count in Hc2. rewrite Hc2. lia.
  - intros [= <-] Hin0. change (In p (List.map fst (b0 :: br))) in Hin0.
    apply in_map_iff in Hin0 as (q & Eq & Hq).
    assert (In q badf) as Hin by (rewrite Eb; exact Hq).
    unfold badf in Hin. apply filter_In in Hin as [Hqf Hv].
    destruct q as [q g]. cbn in *. subst q.
    assert (g = tf) as ->.
    { apply lookup_NoDup with (p := p) in Hqf; [|done]. apply lookup_NoDup with (p := p) in Hp; [|done]. congruence. }
    by rewrite Htf in Hv.
Qed.

End Detect.

(* ---------- detectBadPeers never names the honest peer ---------- *)
Lemma detect_bad_honest fo tf hs idx filters hok bok p mp bad :
  fo_verify fo tf = Some 0 ->
  in_class fo tf filters -> NoDup (List.map fst filters) ->
  (forall m, In (p, m) hs -> m = mp) ->
  zget (m_hashes mp) idx = Some (fo_hash fo tf) -> lookup p filters = Some tf ->
  detect_bad hs idx filters hok bok fo = Some bad -> ~ In p bad.
Proof.
  intros Htf Hc Hnd Hpall Hval Hlk. unfold detect_bad.
  destruct hok; cbn [negb]; [|done].
  set (bad1 := List.filter _ hs). destruct bad1 as [|b0 br] eqn:Eb.
  - destruct bok; cbn [negb]; [|done]. intros Hr.
    eapply (resolve_from_block_honest fo tf Htf); eauto.
    + by apply lookup_In.
    + assert (0 <= zlen filters) by (unfold zlen; lia).
      assert (1 <= (zlen filters + 2) / 2) by (apply Z.div_le_lower_bound; lia). lia.
  - intros [= <-] Hin0. change (In p (List.map fst (b0 :: br))) in Hin0.
    apply in_map_iff in Hin0 as (q & Eq & Hq). rewrite <- Eb in Hq.
    unfold bad1 in Hq. apply filter_In in Hq as [Hqh Hpred].
    destruct q as [q m]. cbn in Eq. subst q. rewrite (Hpall m Hqh) in Hpred. cbn [fst snd] in Hpred.
    rewrite Hlk, Hval in Hpred. cbn in Hpred. by rewrite Z.eqb_refl in Hpred.
Qed.

(* under the class hypotheses a mismatch is always resolved with progress *)
Lemma detect_bad_progress fo tf hs idx filters p mp :
  fo_verify fo tf = Some 0 ->
  in_class fo tf filters ->
  In (p, mp) hs -> zget (m_hashes mp) idx = Some (fo_hash fo tf) ->
  mismatch_at hs idx = true ->
  exists bad q, detect_bad hs idx filters true true fo = Some bad /\ In q hs /\ mem (fst q) bad = true.
Proof.
  intros Htf Hc Hp Hval Hmm. unfold detect_bad. cbn [negb].
  set (bad1 := List.filter _ hs). destruct bad1 as [|b0 br] eqn:Eb.
  - (* everybody consistent: someone advertises another hash, its filter is not the true one *)
    assert (exists q x, In q hs /\ zget (m_hashes (snd q)) idx = Some x /\ x <> fo_hash fo tf) as (q & x & Hq & Hx & Hne).
    { destruct (mismatch_at hs idx) eqn:E; [|done]. clear Hmm.
      assert (~ (forall p0 q0 x y, In p0 hs -> In q0 hs -> zget (m_hashes (snd p0)) idx = Some x ->
                  zget (m_hashes (snd q0)) idx = Some y -> x = y)) as Hn.
      { intros Hall. apply mismatch_false in Hall. congruence. }
      (* classical-free: search the list *)
      destruct (List.find (fun q => match zget (m_hashes (snd q)) idx with
                                    | Some x => negb (x =? fo_hash fo tf) | None => false end) hs) as [q|] eqn:Ef.
      - apply find_some in Ef as [Hq Hpq]. destruct (zget (m_hashes (snd q)) idx) as [x|] eqn:Ex; [|done].
        exists q, x. split; [done|]. split; [done|]. apply negb_true_iff, Z.eqb_neq in Hpq. done.
      - exfalso. apply Hn. intros p0 q0 x y Hp0 Hq0 Ex Ey.
        pose proof (find_none _ _ Ef p0 Hp0) as H1. pose proof (find_none _ _ Ef q0 Hq0) as H2.
        cbn in H1, H2. rewrite Ex in H1. rewrite Ey in H2.
        apply negb_false_iff, Z.eqb_eq in H1. apply negb_false_iff, Z.eqb_eq in H2. congruence. }
    assert (~ In q bad1) as Hnb by (rewrite Eb; intros []).
    unfold bad1 in Hnb. rewrite filter_In in Hnb.
    destruct (lookup (fst q) filters) as [g|] eqn:El; [|exfalso; apply Hnb; split; done].
    assert (fo_hash fo g = x) as Hg.
    { destruct (fo_hash fo g =? default 0 (zget (m_hashes (snd q)) idx)) eqn:E.
      - apply Z.eqb_eq in E. by rewrite Hx in E.
      - exfalso. apply Hnb. split; [done|]. first [done | cbn beta; rewrite ?El, ?E; done]. }
    assert (fo_verify fo g = None) as Hv.
    { destruct (Hc (fst q) g (lookup_In _ _ _ El)) as [->|Hv]; [congruence|done]. }
    unfold resolve_from_block.
    set (badf := List.filter _ filters).
    assert (In (fst q, g) badf) as Hin.
    { unfold badf. apply filter_In. split; [by apply lookup_In|]. cbn. by rewrite Hv. }
    destruct badf as [|c0 cr] eqn:Ec; [destruct Hin|].
    eexists; exists q. split; [reflexivity|]. split; [done|]. apply mem_In.
    change (In (fst q) (List.map fst (c0 :: cr))). apply in_map_iff. exists (fst q, g). split; [done|]. done.
  - eexists; exists b0. split; [reflexivity|].
    assert (In b0 bad1) as Hb by (rewrite Eb; by left).
    unfold bad1 in Hb. apply filter_In in Hb as [Hb _]. split; [done|].
    apply mem_In. by left.
Qed.

(* ---------- settling one index, all indices ---------- *)
Section Settle.
Variable env : denv.
Variable tfilt : Z -> Z.          (* true filter by height *)
Variable tm : cfmsg.              (* the true answer *)
Variable startH : Z.
Variable p : Z.                   (* the honest peer *)

(* index i is in the class of the property and p is honest there *)
Definition good_idx (i : Z) : Prop :=
  let t := u32 (startH + i) in
  fo_verify (e_fo env t) (tfilt t) = Some 0 /\
  zget (m_hashes tm) i = Some (fo_hash (e_fo env t) (tfilt t)) /\
  in_class (e_fo env t) (tfilt t) (e_filters env t) /\
  NoDup (List.map fst (e_filters env t)) /\
  lookup p (e_filters env t) = Some (tfilt t).

Definition env_avail (i : Z) : Prop :=
  let t := u32 (startH + i) in e_hdr_ok env t = true /\ e_block_ok env t = true.

Definition honest_in (hs : list (Z * cfmsg)) : Prop :=
  In (p, tm) hs /\ forall m, In (p, m) hs -> m = tm.

Lemma honest_in_remove bad hs : honest_in hs -> ~ In p bad -> honest_in (remove_peers bad hs).
Proof.
  intros [H1 H2] Hb. split.
  - apply remove_peers_In. split; [done|]. cbn. by apply mem_false.
  - intros m Hm. apply remove_peers_In in Hm as [Hm _]. auto.
Qed.

Lemma settle_index_safe fuel : forall hs i bans res bans',
  good_idx i -> honest_in hs -> ~ In p bans ->
  settle_index fuel env startH hs i bans = (res, bans') ->
  ~ In p bans' /\ (forall x, In x bans -> In x bans') /\
  match res with
  | Some hs' =>
    (forall q, In q hs' -> In q hs) /\ honest_in hs' /\ mismatch_at hs' i = false /\
    (forall q, In q hs -> In q hs' \/ In (fst q) bans')
  | None => True
  end.
Proof.
  induction fuel as [|fuel IH]; intros hs i bans res bans' Hg Hh Hb; cbn [settle_index].
  { intros [= <- <-]. done. }
  destruct (mismatch_at hs i) eqn:Emm.
  - destruct Hg as (Htf & Hval & Hc & Hnd & Hlk).
    destruct (detect_bad hs i _ _ _ _) as [bad|] eqn:Ed; [|intros [= <- <-]; done].
    assert (~ In p bad) as Hpb.
    { eapply detect_bad_honest; eauto. exact (proj2 Hh). }
    assert (~ In p (bans ++ bad)) as Hb2 by (rewrite in_app_iff; tauto).
    destruct (_ =? _)%nat.
    { intros [= <- <-]. split; [done|]. split; [|done]. intros x Hx. apply in_app_iff. by left. }
    intros Hrec.
    destruct (IH (remove_peers bad hs) i (bans ++ bad) res bans'
                 (conj Htf (conj Hval (conj Hc (conj Hnd Hlk))))
                 (honest_in_remove bad hs Hh Hpb) Hb2 Hrec) as (Ha & Hinc & Hres).
    split; [done|]. split; [intros x Hx; apply Hinc, in_app_iff; by left|].
    destruct res as [hs'|]; [|done]. destruct Hres as (Hsub & Hh' & Hmm & Hrem).
    split; [intros q Hq; by apply (proj1 (remove_peers_In bad hs q)), Hsub|].
    split; [done|]. split; [done|].
    intros q Hq. destruct (mem (fst q) bad) eqn:Em.
    + right. apply Hinc, in_app_iff. right. by apply mem_In.
    + apply Hrem. apply remove_peers_In. done.
  - intros [= <- <-]. split; [done|]. split; [done|]. repeat split; try done; try apply Hh. by left.
Qed.

Lemma settle_all_safe idxs : forall hs bans res bans',
  (forall i, In i idxs -> good_idx (Z.of_nat i)) -> honest_in hs -> ~ In p bans ->
  settle_all env startH hs idxs bans = (res, bans') ->
  ~ In p bans' /\ (forall x, In x bans -> In x bans') /\
  match res with
  | Some hs' =>
    (forall q, In q hs' -> In q hs) /\ honest_in hs' /\
    (forall i, In i idxs -> mismatch_at hs' (Z.of_nat i) = false) /\
    (forall q, In q hs -> In q hs' \/ In (fst q) bans')
  | None => True
  end.
Proof.
  induction idxs as [|i idxs IH]; intros hs bans res bans' Hg Hh Hb; cbn [settle_all].
  { intros [= <- <-]. split; [done|]. split; [done|]. repeat split; try done; try apply Hh. by left. }
  destruct (settle_index _ env startH hs (Z.of_nat i) bans) as [r1 b1] eqn:E1.
  destruct (settle_index_safe _ _ _ _ _ _ (Hg i (or_introl eq_refl)) Hh Hb E1) as (Ha1 & Hinc1 & Hr1).
  destruct r1 as [hs1|]; [|intros [= <- <-]; done].
  destruct Hr1 as (Hsub1 & Hh1 & Hmm1 & Hrem1). intros Hrec.
  destruct (IH hs1 b1 res bans' (fun j Hj => Hg j (or_intror Hj)) Hh1 Ha1 Hrec) as (Ha & Hinc & Hres).
  split; [done|]. split; [auto|].
  destruct res as [hs'|]; [|done]. destruct Hres as (Hsub & Hh' & Hmm & Hrem).
  split; [auto|]. split; [done|]. split.
  - intros j [<-|Hj]; [|auto]. eapply mismatch_sub; eauto.
  - intros q Hq. destruct (Hrem1 q Hq) as [Hq1|Hq1]; [apply Hrem, Hq1|right; auto].
Qed.
End Settle.
