(* C03 — VerifyBasicBlockFilter: the model decides exactly "the filter omits
   an output script BIP-158 indexes", and the conflict-resolution theorems
   restated with that ground truth instead of the verdict oracle. *)
From stdpp Require Import gmap list.
From Coq Require Import ZArith Lia.
From Verif Require Import S1.Model C03.Model C03.Spec C03.Proofs C03.ProofsR C03.ProofsU.
Open Scope Z_scope.

Section Verdict.
Variable f : Z -> bool.

Definition badb (s : ascript) : bool := bip158_indexed s && negb (f (sc_tok s)).
Definition cntb (s : ascript) : bool := is_opret s && f (sc_tok s).
Definition cnt (l : list ascript) : Z := zlen (List.filter cntb l).

Lemma cnt_cons s l : cnt (s :: l) = (if cntb s then 1 else 0) + cnt l.
Proof.
  unfold cnt, zlen. cbn [List.filter]. destruct (cntb s); cbn [length]; lia.
Qed.

Lemma cnt_app l1 l2 : cnt (l1 ++ l2) = cnt l1 + cnt l2.
Proof.
  induction l1 as [|s l1 IH]; [unfold cnt, zlen; cbn; lia|].
  cbn [app]. rewrite !cnt_cons, IH. lia.
Qed.

Lemma vout_none outs : fold_left (vout f) outs None = None.
Proof. induction outs as [|s outs IH]; [done|]. cbn. exact IH. Qed.

Lemma vouts outs : forall n,
  fold_left (vout f) outs (Some n) =
  if List.existsb badb outs then None else Some (n + cnt outs).
Proof.
  induction outs as [|s outs IH]; intros n.
  { cbn. f_equal. unfold cnt, zlen. cbn. lia. }
  cbn [fold_left List.existsb]. rewrite cnt_cons.
  unfold vout at 2. unfold badb at 1, cntb at 1, bip158_indexed, is_opret.
  destruct (sc_len s =? 0); cbn [negb andb orb].
  { rewrite IH. destruct (List.existsb badb outs); [done|]. f_equal; lia. }
  destruct (sc_first s =? OP_RETURN); cbn [negb andb orb].
  { destruct (f (sc_tok s)); rewrite IH; destruct (List.existsb badb outs); try done; f_equal; lia. }
  destruct (f (sc_tok s)); cbn [negb andb orb].
  - rewrite IH. destruct (List.existsb badb outs); [done|]. f_equal; lia.
  - apply vout_none.
Qed.

Lemma vins ins : forall acc, fold_left (vin f) ins acc = acc.
Proof.
  induction ins as [|i ins IH]; intros acc; [done|].
  cbn [fold_left]. rewrite IH. destruct acc as [n|]; [|done].
  destruct i as [| |s]; cbn; [done|done|]. by destruct (f s).
Qed.

Lemma vtx_none cb tx : vtx f cb None tx = None.
Proof. unfold vtx. rewrite vout_none. destruct cb; [done|]. by rewrite vins. Qed.

Lemma vtx_some cb tx n :
  vtx f cb (Some n) tx =
  if List.existsb badb (tx_outs tx) then None else Some (n + cnt (tx_outs tx)).
Proof. unfold vtx. rewrite vouts. destruct cb; [done|]. by rewrite vins. Qed.

Lemma vtxs_none txs : fold_left (vtx f false) txs None = None.
Proof. induction txs as [|tx txs IH]; [done|]. cbn [fold_left]. by rewrite vtx_none. Qed.

Lemma vtxs txs : forall n,
  fold_left (vtx f false) txs (Some n) =
  if List.existsb badb (flat_map tx_outs txs) then None else Some (n + cnt (flat_map tx_outs txs)).
Proof.
  induction txs as [|tx txs IH]; intros n.
  { cbn. f_equal. unfold cnt, zlen. cbn. lia. }
  cbn [fold_left flat_map]. rewrite vtx_some, existsb_app, cnt_app.
  destruct (List.existsb badb (tx_outs tx)); cbn [orb]; [apply vtxs_none|].
  rewrite IH. destruct (List.existsb badb (flat_map tx_outs txs)); [done|]. f_equal; lia.
Qed.

Lemma verify_filter_eq b :
  verify_filter b f = if omits_requiredb b f then None else Some (opret_matches b f).
Proof.
  change (omits_requiredb b f) with (List.existsb badb (block_outs b)).
  change (opret_matches b f) with (cnt (block_outs b)).
  destruct b as [|cb rest]; [done|].
  unfold verify_filter, block_outs. cbn [flat_map].
  rewrite vtx_some, existsb_app, cnt_app.
  destruct (List.existsb badb (tx_outs cb)); cbn [orb]; [apply vtxs_none|].
  rewrite vtxs. destruct (List.existsb badb (flat_map tx_outs rest)); [done|]. f_equal.
Qed.

Lemma omits_requiredb_spec b : omits_requiredb b f = true <-> omits_required b f.
Proof.
  unfold omits_requiredb, omits_required. rewrite existsb_exists. split.
  - intros (s & Hs & Hb). apply andb_prop in Hb as [H1 H2]. apply negb_true_iff in H2. eauto.
  - intros (s & Hs & H1 & H2). exists s. split; [done|]. by rewrite H1, H2.
Qed.

(* the verdict is exactly "omits an indexed output script"; otherwise the
   number returned is the number of OP_RETURN outputs matched *)
Lemma verify_filter_exact b :
  (verify_filter b f = None <-> omits_required b f) /\
  (forall n, verify_filter b f = Some n -> ~ omits_required b f /\ n = opret_matches b f) /\
  (~ omits_required b f -> verify_filter b f = Some (opret_matches b f)).
Proof.
  rewrite verify_filter_eq. pose proof (omits_requiredb_spec b) as Hs.
  destruct (omits_requiredb b f).
  - assert (omits_required b f) as Ho by (by apply Hs).
    split; [done|]. split; [intros n Hn; discriminate|]. intros Hn. by destruct Hn.
  - assert (~ omits_required b f) as Ho by (intros Ho; apply Hs in Ho; discriminate).
    split; [split; [discriminate|intros Hx; by destruct Ho]|].
    split; [intros n [= <-]; done|done].
Qed.

(* in particular for a script that does not parse or is larger than
   txscript.MaxScriptSize: the flags are not looked at *)
Lemma verify_filter_unparseable_oversized b s :
  In s (block_outs b) -> sc_len s <> 0 -> sc_first s <> OP_RETURN -> f (sc_tok s) = false ->
  verify_filter b f = None.
Proof.
  intros Hs Hl Hf Hm. apply verify_filter_exact. exists s. split; [done|]. split; [|done].
  unfold bip158_indexed. apply andb_true_intro. split; apply negb_true_iff, Z.eqb_neq; done.
Qed.

End Verdict.

(* A VerifyBasicBlockFilter that classifies outputs with txscript.IsUnspendable
   (OP_RETURN first byte, OR does not parse, OR larger than 10000 bytes) is NOT
   exact: a filter omitting an unparseable script passes. *)
Definition vout_unspendable (f : Z -> bool) (acc : option Z) (s : ascript) : option Z :=
  match acc with
  | None => None
  | Some n =>
    if sc_len s =? 0 then Some n
    else if (sc_first s =? OP_RETURN) || negb (sc_parses s) || (10000 <? sc_len s)
         then Some (if f (sc_tok s) then n + 1 else n)
    else if f (sc_tok s) then Some n else None
  end.
Definition verify_filter_unspendable (b : ablock) (f : Z -> bool) : option Z :=
  fold_left (fun acc tx => fold_left (vout_unspendable f) (tx_outs tx) acc) b (Some 0).

Definition vx_block : ablock :=
  [ {| tx_outs := [ {| sc_tok := 1; sc_len := 22; sc_first := 0; sc_parses := true |} ]; tx_ins := [] |};
    {| tx_outs := [ {| sc_tok := 2; sc_len := 3; sc_first := 76; sc_parses := false |};
                    {| sc_tok := 3; sc_len := 10001; sc_first := 97; sc_parses := true |} ];
       tx_ins := [INoWitness] |} ].

Lemma unspendable_variant_refuted :
  let liar := fun s => s =? 1 in               (* omits scripts 2 and 3 *)
  let honest := fun s => (s =? 1) || (s =? 2) || (s =? 3) in
  omits_required vx_block liar /\ verify_filter_unspendable vx_block liar = Some 0 /\
  ~ omits_required vx_block honest /\ verify_filter_unspendable vx_block honest = Some 2 /\
  verify_filter vx_block liar = None /\ verify_filter vx_block honest = Some 0.
Proof.
  cbv zeta. split.
  { apply (omits_requiredb_spec _ vx_block). by vm_compute. }
  split; [by vm_compute|]. split.
  { intros Ho. apply (omits_requiredb_spec _ vx_block) in Ho. by vm_compute in Ho. }
  split; [by vm_compute|]. split; by vm_compute.
Qed.

(* ---------- the class hypotheses from the BIP-158 vocabulary ---------- *)
Lemma tf_verifies fo blk mt tf :
  verify_is fo blk mt -> ~ omits_required blk (mt tf) -> opret_matches blk (mt tf) = 0 ->
  fo_verify fo tf = Some 0.
Proof.
  intros Hv Ho Hn. rewrite Hv.
  destruct (verify_filter_exact (mt tf) blk) as (_ & _ & H3). rewrite (H3 Ho), Hn. done.
Qed.

Lemma in_class_of_bip158 fo blk mt tf filters :
  verify_is fo blk mt ->
  (forall q g, In (q, g) filters -> g = tf \/ omits_required blk (mt g)) ->
  in_class fo tf filters.
Proof.
  intros Hv Hc q g Hq. destruct (Hc q g Hq) as [->|Ho]; [by left|right].
  rewrite Hv. by apply verify_filter_exact.
Qed.

Lemma good_idx_of_bip158 env blk mt tfilt tm startH p i :
  good_idx_bip158 env blk mt tfilt tm startH p i -> good_idx env tfilt tm startH p i.
Proof.
  intros (Hv & Ho & Hn & Hval & Hc & Hnd & Hlk). unfold good_idx. cbv zeta.
  split; [eapply tf_verifies; eauto|]. split; [done|].
  split; [eapply in_class_of_bip158; eauto|]. done.
Qed.

(* detectBadPeers never names the honest peer *)
Lemma detect_bad_honest_bip158 fo blk mt tf hs idx filters hok bok p mp bad :
  verify_is fo blk mt ->
  ~ omits_required blk (mt tf) -> opret_matches blk (mt tf) = 0 ->
  (forall q g, In (q, g) filters -> g = tf \/ omits_required blk (mt g)) ->
  NoDup (List.map fst filters) ->
  (forall m, In (p, m) hs -> m = mp) ->
  zget (m_hashes mp) idx = Some (fo_hash fo tf) -> lookup p filters = Some tf ->
  detect_bad hs idx filters hok bok fo = Some bad -> ~ In p bad.
Proof.
  intros Hv Ho Hn Hc. eapply detect_bad_honest.
  - eapply tf_verifies; eauto.
  - eapply in_class_of_bip158; eauto.
Qed.

(* resolveFilterMismatchFromBlock: as soon as one served filter is refutable
   from the block, the peers named are EXACTLY those whose filter is
   refutable - whatever the OP_RETURN counts and the majorities are *)
Lemma resolve_names_refutable fo blk mt filters th :
  verify_is fo blk mt ->
  (exists q g, In (q, g) filters /\ omits_required blk (mt g)) ->
  exists bad, resolve_from_block fo filters th = Some bad /\
    forall q, In q bad <-> exists g, In (q, g) filters /\ omits_required blk (mt g).
Proof.
  intros Hv (q0 & g0 & Hin0 & Ho0). unfold resolve_from_block.
  set (badf := List.filter _ filters).
  assert (Hb : forall x, In x badf <-> In x filters /\ omits_required blk (mt (snd x))).
  { intros x. unfold badf. rewrite filter_In. rewrite Hv.
    destruct (verify_filter_exact (mt (snd x)) blk) as (H1 & H2 & H3).
    destruct (verify_filter blk (mt (snd x))) as [n|] eqn:E.
    - split; [intros [_ ?]; done|]. intros [_ Ho]. apply H1 in Ho. done.
    - split; [intros [? _]; split; [done|by apply H1]|]. intros [? _]. done. }
  destruct badf as [|b0 br].
  { exfalso. exact (proj2 (Hb (q0, g0)) (conj Hin0 Ho0)). }
  eexists. split; [reflexivity|]. intros q. rewrite in_map_iff. split.
  - intros ([q' g] & <- & Hx). apply Hb in Hx as [Hx Ho]. exists g. done.
  - intros (g & Hin & Ho). exists (q, g). split; [done|]. apply Hb. done.
Qed.

(* at the tip *)
Lemma uncheckpointed_honest_wins_bip158 v env raws p tm tfilt ftip fh blk mt :
  v_ftip v = Some (ftip, fh) ->
  honest_in tm p (fst (get_headers v (u32 (fh + 1)) raws)) ->
  m_prev tm = ftip ->
  (forall i : nat, (i < zn (snd (get_headers v (u32 (fh + 1)) raws)))%nat ->
                   good_idx_bip158 env blk mt tfilt tm (u32 (fh + 1)) p (Z.of_nat i)) ->
  ~ In p (fst (get_uncheckpointed v env raws)) /\
  (forall m, snd (get_uncheckpointed v env raws) = UWrite m -> m = tm) /\
  (forall m, snd (get_uncheckpointed v env raws) = UWrite m ->
     forall q mq, In (q, mq) (fst (get_headers v (u32 (fh + 1)) raws)) -> mq <> tm ->
                  In q (fst (get_uncheckpointed v env raws))).
Proof.
  intros Hf Hh Hp Hg. eapply uncheckpointed_honest_wins; eauto.
  intros i Hi. apply good_idx_of_bip158 with (blk := blk) (mt := mt). auto.
Qed.

(* checkpoint lists *)
Lemma resolve_honest_wins_bip158 H hard v env raws hint cps p tc tfilt blk mt :
  In (p, tc) cps -> (forall l, In (p, l) cps -> l = tc) ->
  peer_hard_bad hard tc = false ->
  (forall q l, In (q, l) cps -> (length l <= length tc)%nat) ->
  (forall startH, exists tm,
      honest_in tm p (fst (get_headers v startH raws)) /\
      (forall i : nat, (i < zn (snd (get_headers v startH raws)))%nat ->
                       good_idx_bip158 env blk mt tfilt tm startH p (Z.of_nat i)) /\
      (forall d, startH = u32 (d * INTERVAL) -> cp_contradicts H d tc tm = false)) ->
  let '(bans, res) := resolve_conflict H hard v env raws hint cps in
  ~ In p bans /\
  (forall l, res = Some l -> forall (i : nat) x y, l !! i = Some x -> tc !! i = Some y -> x = y) /\
  (forall l, res = Some l -> forall q lq (i : nat) x y,
      In (q, lq) cps -> lq !! i = Some x -> tc !! i = Some y -> x <> y -> In q bans).
Proof.
  intros H1 H2 H3 H4 H5. apply resolve_honest_wins with (tfilt := tfilt); try done.
  intros startH. destruct (H5 startH) as (tm & Ha & Hb & Hc). exists tm.
  split; [done|]. split; [|done].
  intros i Hi. apply good_idx_of_bip158 with (blk := blk) (mt := mt). auto.
Qed.
