(* C03 — the property in its own vocabulary.

   Structural part: over the two-list abstraction of the stores (C07).
   Conflict-resolution part: what "honest", "liar of a provably inconsistent
   kind" and "the honest value" mean, plus the boolean monitors used on the
   implementation traces. *)
From stdpp Require Import gmap list.
From Coq Require Import ZArith Lia.
From Verif Require Import S1.Model C07.Spec C03.Model.
Open Scope Z_scope.

Definition to2 (a : alog) : alog2 := {| abl := bl a; afl := fl a |}.
Definition of2 (a : alog2) : alog := {| bl := abl a; fl := afl a |}.

Section Structural.
Variable H : Z -> Z -> Z.
Variable parent : Z -> Z.

(* every entry above genesis is the hash-chain successor of the one below *)
Definition chained (l : list Z) : Prop :=
  forall i x y, l !! i = Some x -> l !! S i = Some y -> exists fh, y = H fh x.

(* the PrevBlock oracle agrees with the committed block chain *)
Definition parent_ok (l : list Z) : Prop :=
  forall i x y, l !! i = Some x -> l !! S i = Some y -> parent y = x.

(* rollBackToHeight on the lists: blocks above h go, and with each of them
   its filter header *)
Definition arollback (a : alog) (h : Z) : alog :=
  if h + 1 <? alen (bl a) then
    {| bl := take (zn (h + 1)) (bl a);
       fl := take (zn (Z.min (alen (fl a)) (h + 1))) (fl a) |}
  else a.

Definition aappend (a : alog) (xs : list Z) : alog := {| bl := bl a ++ xs; fl := fl a |}.

Definition aspec_step (a : alog) (o : sop) : alog :=
  match o with
  | SAppend xs => aappend a xs
  | SWriteCF m => of2 (fst (awrite_cf H (to2 a) m))
  | SRollback h => arollback a h
  end.

(* What the environment guarantees: block headers are appended the way the
   header sync does it (fresh hashes at the next heights, each naming its
   predecessor); cfheaders messages come from the wire decoder (bounded
   length); rollback targets are uint32. *)
Definition wf_sop (a : alog) (o : sop) : Prop :=
  match o with
  | SAppend xs => NoDup (bl a ++ xs) /\ alen (bl a) + alen xs < LIMIT /\ parent_ok (bl a ++ xs)
  | SWriteCF m => zlen (m_hashes m) < U32
  | SRollback h => 0 <= h < U32
  end.

Fixpoint wf_sops (a : alog) (ops : list sop) : Prop :=
  match ops with
  | [] => True
  | o :: rest => wf_sop a o /\ wf_sops (aspec_step a o) rest
  end.

(* the structural statement about a store *)
Record struct_ok (s : store) : Prop := {
  so_aligned : junk (bf s) = 0 /\ junk (ff s) = 0;
  so_not_ahead : flen (ff s) <= flen (bf s);
  so_nonempty : 1 <= flen (ff s);
  so_tip_names : ftip s = ents (bf s) !! zn (flen (ff s) - 1);
  so_tip_height : forall t, ftip s = Some t -> idx s !! t = Some (flen (ff s) - 1);
  so_chained : chained (ents (ff s))
}.

End Structural.

(* ================= conflict resolution ================= *)

Fixpoint is_prefix (a b : list Z) : bool :=
  match a, b with
  | [], _ => true
  | x :: a', y :: b' => (x =? y) && is_prefix a' b'
  | _ :: _, [] => false
  end.

Fixpoint list_eqb (a b : list Z) : bool :=
  match a, b with
  | [], [] => true
  | x :: a', y :: b' => (x =? y) && list_eqb a' b'
  | _, _ => false
  end.

Definition msg_eqb (a b : cfmsg) : bool :=
  (m_prev a =? m_prev b) && (m_stop a =? m_stop b) && list_eqb (m_hashes a) (m_hashes b).

(* ---- the hypotheses of the conflict-resolution theorems, as data ----
   [tf t] is the true filter of the block at height t. *)
Record dtruth := {
  t_filter : Z -> Z;             (* height -> true filter token *)
  t_msg : cfmsg                  (* the true answer to the getcfheaders query made *)
}.

(* the environment is in the class of the property: every filter served is
   the true one or omits an output script; the true filter hashes to the true
   filter hash, matches every script and no OP_RETURN; header and block of
   every height are available *)
Definition env_in_class (env : denv) (tr : dtruth) (startH : Z) : Prop :=
  forall i, 0 <= i < zlen (m_hashes (t_msg tr)) ->
    let t := u32 (startH + i) in
    e_hdr_ok env t = true /\ e_block_ok env t = true /\
    fo_verify (e_fo env t) (t_filter tr t) = Some 0 /\
    zget (m_hashes (t_msg tr)) i = Some (fo_hash (e_fo env t) (t_filter tr t)) /\
    (forall q g, In (q, g) (e_filters env t) ->
       g = t_filter tr t \/ fo_verify (e_fo env t) g = None).

(* peer p is honest: it serves the true filter at every height asked *)
Definition honest_filters (env : denv) (tr : dtruth) (startH : Z) (p : Z) : Prop :=
  forall i, 0 <= i < zlen (m_hashes (t_msg tr)) ->
    lookup p (e_filters env (u32 (startH + i))) = Some (t_filter tr (u32 (startH + i))).

(* decidable versions for the monitor *)
Definition env_in_classb (env : denv) (tr : dtruth) (startH : Z) : bool :=
  List.forallb (fun i : nat =>
    let t := u32 (startH + Z.of_nat i) in
    e_hdr_ok env t && e_block_ok env t &&
    match fo_verify (e_fo env t) (t_filter tr t) with Some 0 => true | _ => false end &&
    match zget (m_hashes (t_msg tr)) (Z.of_nat i) with
    | Some h => h =? fo_hash (e_fo env t) (t_filter tr t) | None => false end &&
    List.forallb (fun qg : Z * Z =>
      (snd qg =? t_filter tr t) ||
      match fo_verify (e_fo env t) (snd qg) with None => true | Some _ => false end)
      (e_filters env t))
    (seq 0 (length (m_hashes (t_msg tr)))).

Definition honest_filtersb (env : denv) (tr : dtruth) (startH : Z) (p : Z) : bool :=
  List.forallb (fun i : nat =>
    let t := u32 (startH + Z.of_nat i) in
    match lookup p (e_filters env t) with Some g => g =? t_filter tr t | None => false end)
    (seq 0 (length (m_hashes (t_msg tr)))).

(* ================= what BIP-158 says about a filter and a block ================= *)
(* A basic filter must contain the script of every output of the block
   (coinbase included) that is non-empty and does not START with OP_RETURN -
   whether or not the script parses, whatever its size - and the scripts of
   the outputs spent.  The spent scripts are not in the block, so a light
   client can refute a filter from the block alone exactly when it omits an
   indexed OUTPUT script. *)
Definition bip158_indexed (s : ascript) : bool :=
  negb (sc_len s =? 0) && negb (sc_first s =? OP_RETURN).

Definition is_opret (s : ascript) : bool :=
  negb (sc_len s =? 0) && (sc_first s =? OP_RETURN).

Definition block_outs (b : ablock) : list ascript := flat_map tx_outs b.

(* the filter is refutable from the block *)
Definition omits_required (b : ablock) (f : Z -> bool) : Prop :=
  exists s, In s (block_outs b) /\ bip158_indexed s = true /\ f (sc_tok s) = false.

(* OP_RETURN outputs of the block the filter matches (BIP-158 filters index
   none; a match is a false positive or an old-style filter) *)
Definition opret_matches (b : ablock) (f : Z -> bool) : Z :=
  zlen (List.filter (fun s => is_opret s && f (sc_tok s)) (block_outs b)).

(* decidable version for the monitor *)
Definition omits_requiredb (b : ablock) (f : Z -> bool) : bool :=
  List.existsb (fun s => bip158_indexed s && negb (f (sc_tok s))) (block_outs b).

(* the [fo_verify] oracle of a height is VerifyBasicBlockFilter on the block
   of that height; [mt g] is the Match predicate of the filter with token g *)
Definition verify_is (fo : foracle) (blk : ablock) (mt : Z -> Z -> bool) : Prop :=
  forall g, fo_verify fo g = verify_filter blk (mt g).

(* index i of a getcfheaders answer is in the class of the property, in the
   vocabulary of BIP-158: the true filter omits nothing and matches no
   OP_RETURN output; the true answer carries its hash; every filter served at
   that height is the true one or is refutable from the block; the honest
   peer p serves the true one *)
Definition good_idx_bip158 (env : denv) (blk : Z -> ablock) (mt : Z -> Z -> Z -> bool)
           (tfilt : Z -> Z) (tm : cfmsg) (startH p i : Z) : Prop :=
  let t := u32 (startH + i) in
  verify_is (e_fo env t) (blk t) (mt t) /\
  ~ omits_required (blk t) (mt t (tfilt t)) /\
  opret_matches (blk t) (mt t (tfilt t)) = 0 /\
  zget (m_hashes tm) i = Some (fo_hash (e_fo env t) (tfilt t)) /\
  (forall q g, In (q, g) (e_filters env t) -> g = tfilt t \/ omits_required (blk t) (mt t g)) /\
  NoDup (List.map fst (e_filters env t)) /\
  lookup p (e_filters env t) = Some (tfilt t).
