(* C03 — executable model of the LOOP of blockManager.cfHandler
   (blockmanager.go), round by round, on top of the decision layers of
   Model.v (resolveConflict, getCheckpointedCFHeaders, the at-tip fetch) and
   the list-level views of the two header stores.

   State: the block chain and the committed filter chain (two lists, C07 /
   C03_struct_refines_lists), the variable allCFCheckpoints of cfHandler (the
   checkpoint lists cached per peer) with - as ghost - the block chain whose
   tip they were fetched for, where in its body the handler is, the connected
   and the banned peers, BlockHeadersSynced().

   One ROUND (event ERound) is one pass through the body of the handler, from
   one blocking point to the next:
     PWait    at the label waitForHeaders: the waiting condition
              (filterHeaderTip+1000 <= headerTip || BlockHeadersSynced()), the
              read of the chain tip, and ONE iteration of
              "for len(goodCheckpoints) == 0 && lastHeight >= 1000":
              re-query of the checkpoint lists iff
              minCheckpointHeight(allCFCheckpoints) < lastHeight, capping,
              resolveConflict, and - when it returned a list -
              getCheckpointedCFHeaders;
     PDecide  getCheckpointedCFHeaders has returned; the two tests behind it
              (!BlockHeadersSynced() / still a whole interval behind: back to
              waitForHeaders, otherwise on to the at-tip loop) are evaluated
              at the beginning of the next round, on the state of then;
     PTip     one iteration of the at-tip loop: getUncheckpointedCFHeaders
              if the filter tip is not the header tip.
   What the peers answer in a round (checkpoint lists, cfheaders, filters,
   the arrivals at the query dispatcher) is DATA of the round; only answers
   of peers connected at the beginning of the round count, a banned peer is
   disconnected.  Between rounds the environment acts: EChain (the block
   handler commits headers: rollBackToHeight to any height followed by an
   append - the reorganisation semantics of Spec.arollback -, with the value
   BlockHeadersSynced() has afterwards), EConnect / ELeave.

   Not modelled: the 3 s pause after a failed attempt, query time-outs, the
   quit channel; events DURING a round (Conc.v has the interleaving of the
   filter-header write with a reorganisation).

   The model is of the tree WITH the repairs F110 (the cached lists carry the
   stop hash of the query that fetched them, [l_cache_stop]; they are fetched
   again when it is not the stop hash of now), F111 and F112 (a failed
   attempt goes back to waitForHeaders - new tip - and forgets the cached
   lists).  Two switches give the code before, for the witnesses only:
   [c_height_only := true] the re-query test by height alone (before F110),
   [c_legacy := true] the loop around resolveConflict that keeps the tip it
   read before its first iteration (PRetry) and the lists (before F111/F112).

   Ghost [l_flag]: root-cause code 21 is set where the cached lists are used
   again although the chain is no longer the one they were fetched for
   (ghost [l_cache_bl]).  It never influences behaviour; with the repaired
   re-query test it is never set (LoopProofsT.round_flag_clear). *)
From stdpp Require Import gmap list.
From Coq Require Import ZArith Lia.
From Verif Require Import S1.Model C07.Spec C03.Model C03.Spec.
Open Scope Z_scope.

(* an answer to getcfcheckpt *)
Record cpresp := { cr_peer : Z; cr_reg : bool; cr_stop : Z; cr_list : list Z }.

(* getCheckpts: the first acceptable answer of every peer *)
Fixpoint accept_cp (stop : Z) (rs : list cpresp) (seen : list Z) : list (Z * list Z) :=
  match rs with
  | [] => []
  | r :: rest =>
    if negb (mem (cr_peer r) seen) && cr_reg r && (cr_stop r =? stop)
    then (cr_peer r, cr_list r) :: accept_cp stop rest (cr_peer r :: seen)
    else accept_cp stop rest seen
  end.

(* "Cap the received checkpoints at the current height": a peer whose capped
   list is empty gets no entry in the map *)
Definition cap (lastH : Z) (cache : list (Z * list Z)) : list (Z * list Z) :=
  List.filter (fun p => negb (length (snd p) =? 0)%nat)
    (List.map (fun p : Z * list Z => (fst p, take (zn (lastH / INTERVAL)) (snd p))) cache).

Fixpoint zlist_eqb (a b : list Z) : bool :=
  match a, b with
  | [], [] => true
  | x :: a', y :: b' => (x =? y) && zlist_eqb a' b'
  | _, _ => false
  end.

Record lcfg := {
  c_hard : Z -> option Z;          (* chainsync.ValidateCFHeader's table *)
  c_cp : option (Z * Z);           (* last hard-coded BLOCK checkpoint: height, hash *)
  c_genesis : Z;                   (* b.genesisHeader *)
  c_legacy : bool;                 (* the code before the repairs F111/F112 *)
  c_height_only : bool             (* the code before the repair F110 *)
}.

Inductive phase :=
| PWait
| PRetry (lastH lastX : Z)
| PDecide
| PTip.

Record lstate := {
  l_a : alog2;
  l_ph : phase;
  l_cache : list (Z * list Z);     (* allCFCheckpoints *)
  l_cache_stop : Z;                (* cfCheckptsStopHash (0: the all-zero hash) *)
  l_conn : list Z;
  l_banned : list Z;
  l_synced : bool;
  l_panic : bool;
  l_cache_bl : list Z;             (* ghost: block chain at the moment the lists were fetched *)
  l_flag : Z                       (* ghost: root-cause code *)
}.

(* data of a round *)
Record rdata := {
  d_cpans : list cpresp;           (* answers to getcfcheckpt, if it is sent *)
  d_raws : list rawresp;           (* answers to the getcfheaders broadcast, if one is sent *)
  d_env : denv;                    (* filters / blocks for the detection rounds *)
  d_hint : Z;                      (* which element "for _, l := range m { return l }" picks *)
  d_ars : list arrival             (* what arrives at the query dispatcher *)
}.

Inductive lev :=
| EChain (h : Z) (xs : list Z) (syn : bool)
| EConnect (p : Z)
| ELeave (p : Z)
| ERound (d : rdata).

(* what a round shows: result code, the stop hash of the getcfcheckpt query
   if one was sent, the peers banned (in order)
     0 nothing to do (waiting)        1 no checkpoint list received
     2 resolveConflict gave no list   3 getCheckpointedCFHeaders ran
     4 at-tip fetch wrote             5 at-tip fetch: error / nothing
     6 the handler has panicked *)
Definition rout := (Z * option Z * list Z)%type.

Section Loop.
Variable H : Z -> Z -> Z.

Definition hlen (a : alog2) : Z := zlen (abl a) - 1.     (* header tip height *)
Definition flen2 (a : alog2) : Z := zlen (afl a) - 1.    (* filter tip height *)

(* rollBackToHeight h followed by the commit of xs *)
Definition chain_event (a : alog2) (h : Z) (xs : list Z) : alog2 :=
  to2 (aappend (arollback (of2 a) h) xs).

Definition onlyc {A} (conn : list Z) (pf : A -> Z) (l : list A) : list A :=
  List.filter (fun x => mem (pf x) conn) l.

Definition do_ban (s : lstate) (bs : list Z) : list Z * list Z :=
  (List.filter (fun q => negb (mem q bs)) (l_conn s), l_banned s ++ bs).

Definition wait_cond (s : lstate) : bool :=
  (flen2 (l_a s) + INTERVAL <=? hlen (l_a s)) || l_synced s.

Definition best (c : lcfg) (lastH lastX : Z) : Z * Z :=
  match c_cp c with
  | Some (ch, cx) => if lastH <? ch then (ch, cx) else (lastH, lastX)
  | None => (lastH, lastX)
  end.

Definition set_ph (s : lstate) (ph : phase) : lstate :=
  {| l_a := l_a s; l_ph := ph; l_cache := l_cache s; l_cache_stop := l_cache_stop s; l_conn := l_conn s; l_banned := l_banned s;
     l_synced := l_synced s; l_panic := l_panic s; l_cache_bl := l_cache_bl s; l_flag := l_flag s |}.

(* "If the height now exceeds the height at which we fetched the checkpoints
   last time, we must query our peers again. The same goes for lists that
   were fetched for another chain" *)
Definition refetch_cond (c : lcfg) (s : lstate) (lastH lastX : Z) : bool :=
  (min_checkpoint_height (l_cache s) <? lastH) ||
  (negb (c_height_only c) && negb (l_cache_stop s =? snd (best c lastH lastX))).

(* (re-queried?, the lists) *)
Definition lists_of (c : lcfg) (s : lstate) (lastH lastX : Z) (d : rdata) : bool * list (Z * list Z) :=
  let refetch := refetch_cond c s lastH lastX in
  (refetch,
   if refetch then accept_cp (snd (best c lastH lastX)) (onlyc (l_conn s) cr_peer (d_cpans d)) []
   else l_cache s).

(* resolveConflict on the capped lists *)
Definition resolve_of (c : lcfg) (s : lstate) (lastH lastX : Z) (d : rdata) : list Z * option (list Z) :=
  resolve_conflict H (c_hard c) (aview (l_a s)) (d_env d) (onlyc (l_conn s) r_peer (d_raws d)) (d_hint d)
                   (cap lastH (snd (lists_of c s lastH lastX d))).

(* the rest of one iteration of "for len(goodCheckpoints) == 0 && lastHeight
   >= 1000" once the lists are there, followed by getCheckpointedCFHeaders
   if it produced a list.  [cst]: the stop hash the lists were fetched for;
   [cbl], [flag]: the new values of the ghosts *)
Definition attempt_with (c : lcfg) (s : lstate) (lastH lastX : Z) (d : rdata)
           (refetch : bool) (cache : list (Z * list Z)) (cst : Z) (cbl : list Z) (flag : Z) : lstate * rout :=
  let a := l_a s in
  let conn := l_conn s in
  let asked := if refetch then Some (snd (best c lastH lastX)) else None in
  let failph := if c_legacy c then PRetry lastH lastX else PWait in
  if refetch && (length cache =? 0)%nat then
    ({| l_a := a; l_ph := failph; l_cache := cache; l_cache_stop := cst; l_conn := conn; l_banned := l_banned s;
        l_synced := l_synced s; l_panic := false; l_cache_bl := cbl; l_flag := flag |},
     (1, asked, []))
  else
  let '(bans, res) := resolve_of c s lastH lastX d in
  let s1 := {| l_a := a; l_ph := failph; l_cache := cache; l_cache_stop := cst; l_conn := conn; l_banned := l_banned s;
               l_synced := l_synced s; l_panic := false; l_cache_bl := cbl; l_flag := flag |} in
  let '(conn1, banned1) := do_ban s1 bans in
  match res with
  | Some (x :: l) =>
    let '(bans2, a', pan) := get_checkpointed H (c_genesis c) a (x :: l) (onlyc conn1 a_peer (d_ars d)) in
    let s2 := {| l_a := a'; l_ph := PDecide; l_cache := cache; l_cache_stop := cst; l_conn := conn1; l_banned := banned1;
                 l_synced := l_synced s; l_panic := pan; l_cache_bl := cbl; l_flag := flag |} in
    let '(conn2, banned2) := do_ban s2 bans2 in
    ({| l_a := a'; l_ph := PDecide; l_cache := cache; l_cache_stop := cst; l_conn := conn2; l_banned := banned2;
        l_synced := l_synced s; l_panic := pan; l_cache_bl := cbl; l_flag := flag |},
     ((if pan then 6 else 3), asked, bans ++ bans2))
  | _ =>
    (* F112: the lists are forgotten (they may be those of peers banned just
       now); F111: back to waitForHeaders *)
    ({| l_a := a; l_ph := failph; l_cache := if c_legacy c then cache else []; l_cache_stop := cst; l_conn := conn1;
        l_banned := banned1; l_synced := l_synced s; l_panic := false;
        l_cache_bl := if c_legacy c then cbl else []; l_flag := flag |},
     (2, asked, bans))
  end.

(* the ghost flag: the lists are used again although the chain is not the
   one they were fetched for (only when they were fetched for the tip) *)
Definition stale_flag (c : lcfg) (s : lstate) (lastH : Z) (refetch : bool) : Z :=
  if negb refetch && negb (zlist_eqb (l_cache_bl s) (abl (l_a s))) &&
     match c_cp c with Some (ch, _) => ch <=? lastH | None => true end
  then 21 else l_flag s.

Definition attempt (c : lcfg) (s : lstate) (lastH lastX : Z) (d : rdata) : lstate * rout :=
  let refetch := fst (lists_of c s lastH lastX d) in
  attempt_with c s lastH lastX d refetch (snd (lists_of c s lastH lastX d))
               (if refetch then snd (best c lastH lastX) else l_cache_stop s)
               (if refetch then abl (l_a s) else l_cache_bl s) (stale_flag c s lastH refetch).

(* from waitForHeaders *)
Definition wait_round (c : lcfg) (s : lstate) (d : rdata) : lstate * rout :=
  if negb (wait_cond s) then (set_ph s PWait, (0, None, [])) else
  let lastH := hlen (l_a s) in
  let lastX := default 0 (last (abl (l_a s))) in
  if lastH <? INTERVAL then
    (* no checkpoints: getCheckpointedCFHeaders(nil) has nothing to ask for *)
    (set_ph s PDecide, (3, None, []))
  else attempt c s lastH lastX d.

(* one iteration of the at-tip loop *)
Definition tip_round (s : lstate) (d : rdata) : lstate * rout :=
  let a := l_a s in
  if zlen (afl a) =? zlen (abl a) then (s, (0, None, [])) else
  let '(bans, r) := get_uncheckpointed (aview a) (d_env d) (onlyc (l_conn s) r_peer (d_raws d)) in
  let '(conn1, banned1) := do_ban s bans in
  match r with
  | UWrite m =>
    match awrite_cf H a m with
    | (a', Some _) =>
      ({| l_a := a'; l_ph := PTip; l_cache := l_cache s; l_cache_stop := l_cache_stop s; l_conn := conn1; l_banned := banned1;
          l_synced := l_synced s; l_panic := false; l_cache_bl := l_cache_bl s; l_flag := l_flag s |},
       (4, None, bans))
    | (_, None) =>
      ({| l_a := a; l_ph := PTip; l_cache := l_cache s; l_cache_stop := l_cache_stop s; l_conn := conn1; l_banned := banned1;
          l_synced := l_synced s; l_panic := false; l_cache_bl := l_cache_bl s; l_flag := l_flag s |},
       (5, None, bans))
    end
  | _ =>
    ({| l_a := a; l_ph := PTip; l_cache := l_cache s; l_cache_stop := l_cache_stop s; l_conn := conn1; l_banned := banned1;
        l_synced := l_synced s; l_panic := false; l_cache_bl := l_cache_bl s; l_flag := l_flag s |},
     (5, None, bans))
  end.

(* the two tests behind getCheckpointedCFHeaders *)
Definition decide_ph (s : lstate) : phase :=
  if negb (l_synced s) then PWait
  else if flen2 (l_a s) + INTERVAL <=? hlen (l_a s) then PWait else PTip.

Definition round (c : lcfg) (s : lstate) (d : rdata) : lstate * rout :=
  if l_panic s then (s, (6, None, [])) else
  let ph := match l_ph s with PDecide => decide_ph s | ph => ph end in
  match ph with
  | PWait | PDecide => wait_round c s d
  | PRetry lastH lastX => attempt c s lastH lastX d
  | PTip => tip_round (set_ph s PTip) d
  end.

Definition lstep (c : lcfg) (s : lstate) (e : lev) : lstate :=
  match e with
  | EChain h xs syn =>
    {| l_a := chain_event (l_a s) h xs; l_ph := l_ph s; l_cache := l_cache s; l_cache_stop := l_cache_stop s; l_conn := l_conn s;
       l_banned := l_banned s; l_synced := syn; l_panic := l_panic s; l_cache_bl := l_cache_bl s;
       l_flag := l_flag s |}
  | EConnect p =>
    if mem p (l_banned s) || mem p (l_conn s) then s else
    {| l_a := l_a s; l_ph := l_ph s; l_cache := l_cache s; l_cache_stop := l_cache_stop s; l_conn := l_conn s ++ [p];
       l_banned := l_banned s; l_synced := l_synced s; l_panic := l_panic s;
       l_cache_bl := l_cache_bl s; l_flag := l_flag s |}
  | ELeave p =>
    {| l_a := l_a s; l_ph := l_ph s; l_cache := l_cache s; l_cache_stop := l_cache_stop s;
       l_conn := List.filter (fun q => negb (q =? p)) (l_conn s);
       l_banned := l_banned s; l_synced := l_synced s; l_panic := l_panic s;
       l_cache_bl := l_cache_bl s; l_flag := l_flag s |}
  | ERound d => fst (round c s d)
  end.

Definition lrun (c : lcfg) (s : lstate) (evs : list lev) : lstate := fold_left (lstep c) evs s.

(* the outputs of the rounds of a run, in order *)
Fixpoint louts (c : lcfg) (s : lstate) (evs : list lev) : list rout :=
  match evs with
  | [] => []
  | e :: rest =>
    match e with
    | ERound d => snd (round c s d) :: louts c (lstep c s e) rest
    | _ => louts c (lstep c s e) rest
    end
  end.

End Loop.

Definition linit (a : alog2) (conn : list Z) (syn : bool) : lstate :=
  {| l_a := a; l_ph := PWait; l_cache := []; l_cache_stop := 0; l_conn := conn; l_banned := []; l_synced := syn;
     l_panic := false; l_cache_bl := []; l_flag := 0 |}.
