(* C03 — progress of resolveConflict unless the F15 flag is raised. *)
From stdpp Require Import gmap list.
From Coq Require Import ZArith Lia.
From Verif Require Import S1.Model C03.Model C03.Spec C03.Proofs C03.ProofsR.
Open Scope Z_scope.

Section Total.
Variable env : denv.
Variable tfilt : Z -> Z.
Variable tm : cfmsg.
Variable startH : Z.
Variable p : Z.

Lemma settle_index_total fuel : forall hs i bans,
  good_idx env tfilt tm startH p i -> env_avail env startH i -> honest_in tm p hs ->
  (length hs < fuel)%nat ->
  exists hs' bans', settle_index fuel env startH hs i bans = (Some hs', bans').
Proof.
  induction fuel as [|fuel IH]; intros hs i bans Hg Ha Hh Hf; [lia|].
  cbn [settle_index]. destruct (mismatch_at hs i) eqn:Emm; [|eauto].
  pose proof Hg as (Htf & Hval & Hc & Hnd & Hlk). destruct Ha as [Hho Hbo].
  destruct (detect_bad_progress _ _ hs i (e_filters env (u32 (startH + i))) p tm Htf Hc (proj1 Hh) Hval Emm)
    as (bad & q & Hd & Hq & Hm).
  rewrite Hho, Hbo, Hd.
  assert (~ In p bad) as Hpb.
  { eapply detect_bad_honest; eauto. exact (proj2 Hh). }
  pose proof (remove_peers_shorter bad hs q Hq Hm) as Hs.
  replace (length (remove_peers bad hs) =? length hs)%nat with false by (symmetry; apply Nat.eqb_neq; lia).
  apply IH; [done|done|by apply honest_in_remove|lia].
Qed.

Lemma settle_all_total idxs : forall hs bans,
  (forall i, In i idxs -> good_idx env tfilt tm startH p (Z.of_nat i) /\ env_avail env startH (Z.of_nat i)) ->
  honest_in tm p hs -> ~ In p bans ->
  exists hs' bans', settle_all env startH hs idxs bans = (Some hs', bans').
Proof.
  induction idxs as [|i idxs IH]; intros hs bans Hg Hh Hb; cbn [settle_all]; [eauto|].
  destruct (Hg i (or_introl eq_refl)) as [Hgi Hai].
  destruct (settle_index_total (S (length hs)) hs (Z.of_nat i) bans Hgi Hai Hh ltac:(lia)) as (hs1 & b1 & E1).
  rewrite E1.
  destruct (settle_index_safe env tfilt tm startH p _ _ _ _ _ _ Hgi Hh Hb E1) as (Hb1 & _ & (_ & Hh1 & _)).
  apply IH; [intros j Hj; apply Hg; by right|done|done].
Qed.
End Total.

(* If the ghost flag is clear, resolveConflict either returns a checkpoint
   list or has banned somebody: under the hypotheses of
   C03_honest_wins_checkpoints, an available environment (header and block of
   every height asked can be fetched) and a readable filter store. *)
Theorem resolve_progress_unless hard v env raws hint cps p tc tfilt bans res flag :
  In (p, tc) cps -> (forall l, In (p, l) cps -> l = tc) ->
  peer_hard_bad hard tc = false ->
  (forall q l, In (q, l) cps -> (length l <= length tc)%nat) ->
  (forall startH, exists tm,
      honest_in tm p (fst (get_headers v startH raws)) /\
      forall i : nat, (i < zn (snd (get_headers v startH raws)))%nat ->
                      good_idx env tfilt tm startH p (Z.of_nat i) /\ env_avail env startH (Z.of_nat i)) ->
  (forall l, check_sanity l v <> SaneErr) ->
  resolve_conflict hard v env raws hint cps = (bans, res, flag) ->
  flag = 0 -> res <> None \/ bans <> [].
Proof.
  intros Hp Huniq Hhard Hlen Hhon Hstore.
  unfold resolve_conflict, resolve_conflict_ix. cbv zeta.
  set (bad0 := List.map fst (List.filter (fun c : Z * list Z => peer_hard_bad hard (snd c)) cps)).
  assert (Hpb0 : ~ In p bad0).
  { unfold bad0. intros Hin. apply in_map_iff in Hin as ([q l] & Eq & Hin). cbn in Eq. subst q.
    apply filter_In in Hin as [Hin Hb]. cbn [snd] in Hb. rewrite (Huniq l Hin) in Hb. congruence. }
  set (cps1 := remove_peers bad0 cps).
  assert (Hp1 : In (p, tc) cps1).
  { apply remove_peers_In. split; [done|]. cbn. by apply mem_false. }
  assert (Hlen1 : forall q l, In (q, l) cps1 -> (length l <= length tc)%nat).
  { intros q l Hq. apply remove_peers_In in Hq as [Hq _]. eauto. }
  rewrite (match_ne cps1) by (eapply In_ne; exact Hp1).
  destruct (check_sanity cps1 v) as [|d|] eqn:Es.
  - intros [= <- <- <-] _. left.
    destruct (choose hint cps1) as [x|] eqn:Ec; [done|].
    unfold choose in Ec. destruct (List.find _ cps1); [done|]. destruct cps1; [destruct Hp1|done].
  - destruct (check_sanity_diff cps1 v d Es) as (j & -> & Hj & Hagree).
    assert (Hjtc : (j < length tc)%nat).
    { pose proof (max_len_le cps1 (length tc) Hlen1). lia. }
    set (cps2 := List.filter (fun c : Z * list Z => negb (zlen (snd c) <? Z.of_nat j)) cps1).
    assert (Hp2 : In (p, tc) cps2).
    { unfold cps2. apply filter_In. split; [done|]. cbn [snd]. apply negb_true_iff, Z.ltb_ge.
      unfold zlen. lia. }
    rewrite (match_ne cps2) by (eapply In_ne; exact Hp2).
    set (startH := u32 (Z.of_nat j * INTERVAL)).
    destruct (Hhon startH) as (tm & Hh & Hgood).
    destruct (get_headers v startH raws) as [hs n] eqn:Eg. cbn [fst snd] in Hh, Hgood.
    destruct (negb (all_eq (List.map (fun c : Z * cfmsg => m_prev (snd c)) hs))).
    { intros [= <- <- <-]. destruct bad0; [discriminate|]. intros _. by right. }
    unfold full_ix.
    assert (Hg : forall i : nat, In i (seq 0 (zn n)) ->
                 good_idx env tfilt tm startH p (Z.of_nat i) /\ env_avail env startH (Z.of_nat i)).
    { intros i Hi. apply in_seq in Hi. apply Hgood. lia. }
    destruct (settle_all_total env tfilt tm startH p (seq 0 (zn n)) hs [] Hg Hh (fun x => x)) as (hs' & bans1 & Esa).
    rewrite Esa.
    destruct (settle_all_safe env tfilt tm startH p (seq 0 (zn n)) hs [] _ bans1
                (fun i Hi => proj1 (Hg i Hi)) Hh (fun x => x) Esa) as (Hpb1 & _ & (Hsub & Hh' & _ & Hrem)).
    set (cps3 := remove_peers bans1 cps2).
    set (silent := List.map fst (List.filter (fun c : Z * list Z => negb (mem (fst c) (List.map fst hs'))) cps3)).
    set (cps4 := remove_peers silent cps3).
    assert (Hp3 : In (p, tc) cps3).
    { apply remove_peers_In. split; [done|]. cbn. by apply mem_false. }
    assert (Hps : ~ In p silent).
    { unfold silent. intros Hin. apply in_map_iff in Hin as ([q l] & Eq & Hin). cbn in Eq. subst q.
      apply filter_In in Hin as [_ Hb]. cbn [fst] in Hb. apply negb_true_iff, mem_false in Hb.
      apply Hb. apply in_map_iff. exists (p, tm). split; [done|]. apply Hh'. }
    assert (Hp4 : In (p, tc) cps4).
    { apply remove_peers_In. split; [done|]. cbn. by apply mem_false. }
    destruct (check_sanity cps4 v) as [|d'|] eqn:Es4.
    + destruct (choose hint cps4) as [[c lc]|] eqn:Ec.
      * intros [= <- <- <-] _. by left.
      * exfalso. unfold choose in Ec. destruct (List.find _ cps4); [done|]. destruct cps4; [destruct Hp4|done].
    + intros [= <- <- <-]. destruct (bad0 ++ bans1 ++ silent); [discriminate|]. intros _. by right.
    + exfalso. by apply (Hstore cps4).
  - exfalso. by apply (Hstore cps1).
Qed.
