(* C03 — progress of resolveConflict (F15 repaired): with an honest peer a call
   returns a checkpoint list or bans one of the peers that sent a list; the
   retry loop of cfHandler therefore ends. *)
From stdpp Require Import gmap list.
From Coq Require Import ZArith Lia.
From Verif Require Import S1.Model C03.Model C03.Spec C03.ProofsS C03.ProofsF C03.Proofs C03.ProofsU C03.ProofsR.
Open Scope Z_scope.

Section Total.
Variable env : denv.
Variable tfilt : Z -> Z.
Variable tm : cfmsg.
Variable startH : Z.
Variable p : Z.

Lemma settle_index_total fuel : forall hs i bans,
  good_idx env tfilt tm startH p i -> env_avail env startH i -> honest_in tm p hs ->
  (length hs < fuel)%nat ->
  exists hs' bans', settle_index fuel env startH hs i bans = (Some hs', bans').
Proof.
  induction fuel as [|fuel IH]; intros hs i bans Hg Ha Hh Hf; [lia|].
  cbn [settle_index]. destruct (mismatch_at hs i) eqn:Emm; [|eauto].
  pose proof Hg as (Htf & Hval & Hc & Hnd & Hlk). destruct Ha as [Hho Hbo].
  destruct (detect_bad_progress _ _ hs i (e_filters env (u32 (startH + i))) p tm Htf Hc (proj1 Hh) Hval Emm)
    as (bad & q & Hd & Hq & Hm).
  rewrite Hho, Hbo, Hd.
  assert (~ In p bad) as Hpb.
  { eapply detect_bad_honest; eauto. exact (proj2 Hh). }
  pose proof (remove_peers_shorter bad hs q Hq Hm) as Hs.
  replace (length (remove_peers bad hs) =? length hs)%nat with false by (symmetry; apply Nat.eqb_neq; lia).
  apply IH; [done|done|by apply honest_in_remove|lia].
Qed.

Lemma settle_all_total idxs : forall hs bans,
  (forall i, In i idxs -> good_idx env tfilt tm startH p (Z.of_nat i) /\ env_avail env startH (Z.of_nat i)) ->
  honest_in tm p hs -> ~ In p bans ->
  exists hs' bans', settle_all env startH hs idxs bans = (Some hs', bans').
Proof.
  induction idxs as [|i idxs IH]; intros hs bans Hg Hh Hb; cbn [settle_all]; [eauto|].
  destruct (Hg i (or_introl eq_refl)) as [Hgi Hai].
  destruct (settle_index_total (S (length hs)) hs (Z.of_nat i) bans Hgi Hai Hh ltac:(lia)) as (hs1 & b1 & E1).
  rewrite E1.
  destruct (settle_index_safe env tfilt tm startH p _ _ _ _ _ _ Hgi Hh Hb E1) as (Hb1 & _ & (_ & Hh1 & _)).
  apply IH; [intros j Hj; apply Hg; by right|done|done].
Qed.
End Total.

(* ---------- why checkCFCheckptSanity reports index j ---------- *)
Lemma sanity_loop_cause n : forall i cps v tip d,
  sanity_loop n i cps v tip = SaneDiff d ->
  exists j : nat, d = Z.of_nat j /\
    ((exists x y, In x (vals_at cps j) /\ In y (vals_at cps j) /\ x <> y) \/
     (exists x hd, In x (vals_at cps j) /\
                   v_fh v (u32 ((Z.of_nat j + 1) * INTERVAL)) = Some hd /\ hd <> x)).
Proof.
  induction n as [|n IH]; intros i cps v tip d; cbn [sanity_loop]; [done|].
  destruct (vals_at cps i) as [|c rest] eqn:E; [apply IH|].
  destruct (forallb (Z.eqb c) rest) eqn:Ef; cbn [negb].
  2:{ intros [= <-]. exists i. split; [done|]. left.
      destruct (all_eq_false (c :: rest) Ef) as (x & y & Hx & Hy & Hne).
      exists x, y. rewrite E. done. }
  destruct (_ <=? tip); [|apply IH].
  destruct (v_fh v _) as [hd|] eqn:Eh; [|done].
  destruct (hd =? c) eqn:Ec; [apply IH|].
  intros [= <-]. exists i. split; [done|]. right. exists c, hd. rewrite E.
  split; [by left|]. split; [done|]. by apply Z.eqb_neq.
Qed.

Lemma check_sanity_cause cps v d :
  check_sanity cps v = SaneDiff d ->
  exists j : nat, d = Z.of_nat j /\
    ((exists q l q' l' x y, In (q, l) cps /\ In (q', l') cps /\
                            l !! j = Some x /\ l' !! j = Some y /\ x <> y) \/
     (exists q l x hd, In (q, l) cps /\ l !! j = Some x /\
                       v_fh v (u32 ((Z.of_nat j + 1) * INTERVAL)) = Some hd /\ hd <> x)).
Proof.
  unfold check_sanity. destruct (v_ftip v) as [[t tip]|]; [|done]. intros Hs.
  destruct (sanity_loop_cause _ _ _ _ _ _ Hs) as (j & -> & Hc). exists j. split; [done|].
  destruct Hc as [(x & y & Hx & Hy & Hne)|(x & hd & Hx & Hh & Hne)].
  - left. apply In_vals_at in Hx as (q & l & Hq & Hl). apply In_vals_at in Hy as (q' & l' & Hq' & Hl').
    exists q, l, q', l', x, y. done.
  - right. apply In_vals_at in Hx as (q & l & Hq & Hl). exists q, l, x, hd. done.
Qed.

(* ---------- the request covers the whole checkpoint interval ---------- *)
(* cfHandler caps every checkpoint list at the block header tip, so the
   getcfheaders request made at the start of a checkpoint interval that has a
   checkpoint asks for at least INTERVAL+1 filter hashes. *)
Lemma cf_range_interval v h tx tiph stop n :
  v_btip v = Some (tx, tiph) -> 0 <= tiph < 1000000 -> 0 <= h -> h + INTERVAL <= tiph ->
  cf_range v h = Some (stop, n) -> INTERVAL + 1 <= n <= MAXCFH.
Proof.
  intros Ht Hb Hh Hcap Hc. pose proof (cf_range_bound _ _ _ _ Hc) as Hn. split; [|lia].
  unfold cf_range in Hc. rewrite Ht in Hc. unfold INTERVAL, MAXCFH in *.
  rewrite (u32_small (tiph - h)) in Hc by (unfold U32; lia).
  destruct (tiph - h >=? 2000) eqn:E.
  - rewrite (u32_small (h + 2000 - 1)) in Hc by (unfold U32; lia).
    destruct (v_bh v _); [|done]. injection Hc as _ <-.
    rewrite u32_small by (unfold U32; lia). lia.
  - injection Hc as _ <-. rewrite u32_small by (unfold U32; lia). lia.
Qed.

(* after the mismatch resolution every remaining answer has the honest
   filter hashes *)
Lemma settled_hashes tm p hs hs' n :
  0 <= n < 1000000 -> all_len (Z.to_nat n) hs ->
  (forall q, In q hs' -> In q hs) -> honest_in tm p hs' ->
  (forall i, In i (seq 0 (zn n)) -> mismatch_at hs' (Z.of_nat i) = false) ->
  forall q m, In (q, m) hs' -> m_hashes m = m_hashes tm.
Proof.
  intros Hn Hlen Hsub Hh Hmm q m Hq.
  pose proof (Hlen _ (Hsub _ Hq)) as L1. pose proof (Hlen _ (Hsub _ (proj1 Hh))) as L2. cbn [snd] in L1, L2.
  apply list_ext_lookup; [congruence|].
  intros i x y Hx Hy.
  assert (Hi : (i < zn n)%nat).
  { apply lookup_lt_Some in Hx. unfold zn.
    replace ((0 <=? n) && (n <? 1000000)) with true; [lia|].
    symmetry. apply andb_true_iff. split; [apply Z.leb_le|apply Z.ltb_lt]; lia. }
  assert (Hi2 : Z.of_nat i < 1000000) by (pose proof (zn_lt n); lia).
  specialize (Hmm i ltac:(apply in_seq; lia)). rewrite mismatch_false in Hmm.
  apply (Hmm (q, m) (p, tm)); [done|apply Hh|by apply zget_lookup|by apply zget_lookup].
Qed.

(* ---------- hypotheses of the progress theorem ---------- *)
(* the honest peer p at every start height: its (true) answer tm is among the
   answers; every index asked is in the class and header/block/filters can be
   fetched; every accepted answer names the same previous header; and the
   checkpoint tc[d] of p is the filter header its cfheaders for the interval
   d determine *)
Definition honest_serves_avail (H : Z -> Z -> Z) (v : cview) (env : denv) (raws : list rawresp)
           (p : Z) (tc : list Z) (tfilt : Z -> Z) : Prop :=
  forall startH, exists tm,
    honest_in tm p (fst (get_headers v startH raws)) /\
    (forall i : nat, (i < zn (snd (get_headers v startH raws)))%nat ->
        good_idx env tfilt tm startH p (Z.of_nat i) /\ env_avail env startH (Z.of_nat i)) /\
    (forall q mq, In (q, mq) (fst (get_headers v startH raws)) -> m_prev mq = m_prev tm) /\
    (forall d c, startH = u32 (d * INTERVAL) -> zget tc d = Some c ->
        chain_last H (m_prev tm) (take (zn (INTERVAL + 1)) (m_hashes tm)) = c).

(* the filter header store holds nothing that contradicts the honest list *)
Definition store_agrees (v : cview) (tc : list Z) : Prop :=
  forall (i : nat) c hd, tc !! i = Some c ->
    v_fh v (u32 ((Z.of_nat i + 1) * INTERVAL)) = Some hd -> hd = c.

Lemma honest_serves_avail_weaken H v env raws p tc tfilt :
  honest_serves_avail H v env raws p tc tfilt -> honest_serves H v env raws p tc tfilt.
Proof.
  intros Hs startH. destruct (Hs startH) as (tm & Hh & Hg & _ & Hc). exists tm.
  split; [done|]. split; [intros i Hi; apply Hg, Hi|].
  intros d ->. unfold cp_contradicts. destruct (zget tc d) as [c|] eqn:Ec; [|done].
  destruct (_ <? _); [done|]. rewrite (Hc d c eq_refl Ec), Z.eqb_refl. done.
Qed.

(* the same, only at the start heights resolveConflict can ask for *)
Definition honest_serves_avail_lt (H : Z -> Z -> Z) (hard : Z -> option Z) (v : cview) (env : denv)
           (raws : list rawresp) (cps : list (Z * list Z))
           (p : Z) (tc : list Z) (tfilt : Z -> Z) : Prop :=
  forall j : nat, (j < length tc)%nat -> first_diff hard v cps = SaneDiff (Z.of_nat j) ->
    let startH := u32 (Z.of_nat j * INTERVAL) in
    exists tm,
    honest_in tm p (fst (get_headers v startH raws)) /\
    (forall i : nat, (i < zn (snd (get_headers v startH raws)))%nat ->
        good_idx env tfilt tm startH p (Z.of_nat i) /\ env_avail env startH (Z.of_nat i)) /\
    (forall q mq, In (q, mq) (fst (get_headers v startH raws)) -> m_prev mq = m_prev tm) /\
    (forall c, zget tc (Z.of_nat j) = Some c ->
        chain_last H (m_prev tm) (take (zn (INTERVAL + 1)) (m_hashes tm)) = c).

Lemma honest_serves_avail_lt_of H hard v env raws cps p tc tfilt :
  honest_serves_avail H v env raws p tc tfilt -> honest_serves_avail_lt H hard v env raws cps p tc tfilt.
Proof.
  intros Hs j _ _. cbv zeta. destruct (Hs (u32 (Z.of_nat j * INTERVAL))) as (tm & Hh & Hg & Hp & Hc).
  exists tm. split; [done|]. split; [done|]. split; [done|]. intros c Hcj. by apply (Hc (Z.of_nat j)).
Qed.

(* resolveConflict makes progress: it returns a checkpoint list, or it has
   banned one of the peers whose list it was given. *)
Theorem resolve_progress_lt H hard v env raws hint cps p tc tfilt tx tiph bans res :
  In (p, tc) cps -> (forall l, In (p, l) cps -> l = tc) ->
  peer_hard_bad hard tc = false ->
  (forall q l, In (q, l) cps -> (length l <= length tc)%nat) ->
  v_btip v = Some (tx, tiph) -> 0 <= tiph < 1000000 -> zlen tc * INTERVAL <= tiph ->
  honest_serves_avail_lt H hard v env raws cps p tc tfilt ->
  store_agrees v tc ->
  (forall l, check_sanity l v <> SaneErr) ->
  resolve_conflict H hard v env raws hint cps = (bans, res) ->
  res <> None \/ exists q, In q bans /\ In q (List.map fst cps).
Proof.
  intros Hp Huniq Hhard Hlen Htip Htipb Hcap Hhon Hstore Hnoerr.
  unfold resolve_conflict, resolve_conflict_ix. cbv zeta.
  set (bad0 := List.map fst (List.filter (fun c : Z * list Z => peer_hard_bad hard (snd c)) cps)).
  assert (Hpb0 : ~ In p bad0).
  { unfold bad0. intros Hin. apply in_map_iff in Hin as ([q l] & Eq & Hin). cbn in Eq. subst q.
    apply filter_In in Hin as [Hin Hb]. cbn [snd] in Hb. rewrite (Huniq l Hin) in Hb. congruence. }
  set (cps1 := remove_peers bad0 cps).
  assert (Hp1 : In (p, tc) cps1).
  { apply remove_peers_In. split; [done|]. cbn. by apply mem_false. }
  assert (Hlen1 : forall q l, In (q, l) cps1 -> (length l <= length tc)%nat).
  { intros q l Hq. apply remove_peers_In in Hq as [Hq _]. eauto. }
  assert (Hin1 : forall q l, In (q, l) cps1 -> In q (List.map fst cps)).
  { intros q l Hq. apply remove_peers_In in Hq as [Hq _]. apply in_map_iff. exists (q, l). done. }
  rewrite (match_ne cps1) by (eapply In_ne; exact Hp1).
  destruct (check_sanity cps1 v) as [|d|] eqn:Es.
  - intros [= <- <-]. left.
    destruct (choose hint cps1) as [x|] eqn:Ec; [done|].
    unfold choose in Ec. destruct (List.find _ cps1); [done|]. destruct cps1; [destruct Hp1|done].
  - destruct (check_sanity_diff cps1 v d Es) as (j & -> & Hj & Hagree).
    destruct (check_sanity_cause cps1 v _ Es) as (j' & Ej & Hcause).
    apply Nat2Z.inj in Ej. subst j'.
    assert (Hjtc : (j < length tc)%nat).
    { pose proof (max_len_le cps1 (length tc) Hlen1). lia. }
    assert (Hjb : (Z.of_nat j + 1) * INTERVAL <= tiph).
    { unfold zlen, INTERVAL in *. nia. }
    set (cps2 := List.filter (fun c : Z * list Z => negb (zlen (snd c) <? Z.of_nat j)) cps1).
    assert (Hp2 : In (p, tc) cps2).
    { unfold cps2. apply filter_In. split; [done|]. cbn [snd]. apply negb_true_iff, Z.ltb_ge.
      unfold zlen. lia. }
    rewrite (match_ne cps2) by (eapply In_ne; exact Hp2).
    set (startH := u32 (Z.of_nat j * INTERVAL)).
    assert (EstartH : startH = Z.of_nat j * INTERVAL).
    { unfold startH. apply u32_small. unfold INTERVAL, U32 in *. lia. }
    destruct (Hhon j Hjtc Es) as (tm & Hh & Hgood & Hprevs & Hcons). fold startH in Hh, Hgood, Hprevs.
    destruct (get_headers v startH raws) as [hs n] eqn:Eg. cbn [fst snd] in Hh, Hgood, Hprevs.
    pose proof (get_headers_len _ _ _ _ _ Eg) as Hlens.
    assert (Hn : INTERVAL + 1 <= n <= MAXCFH).
    { unfold get_headers in Eg. destruct (cf_range v startH) as [[stop n']|] eqn:Ec.
      - injection Eg as _ <-. eapply cf_range_interval; eauto; unfold INTERVAL in *; lia.
      - injection Eg as <- _. destruct Hh as [[] _]. }
    replace (negb (all_eq (List.map (fun c : Z * cfmsg => m_prev (snd c)) hs))) with false.
    2:{ symmetry. apply negb_false_iff, all_eq_spec. intros x y Hx Hy.
        apply in_map_iff in Hx as ([qx mx] & <- & Hx). apply in_map_iff in Hy as ([qy my] & <- & Hy).
        cbn [snd]. rewrite (Hprevs _ _ Hx), (Hprevs _ _ Hy). done. }
    unfold full_ix.
    assert (Hg : forall i : nat, In i (seq 0 (zn n)) ->
                 good_idx env tfilt tm startH p (Z.of_nat i) /\ env_avail env startH (Z.of_nat i)).
    { intros i Hi. apply in_seq in Hi. apply Hgood. lia. }
    destruct (settle_all_total env tfilt tm startH p (seq 0 (zn n)) hs [] Hg Hh (fun x => x)) as (hs' & bans1 & Esa).
    rewrite Esa.
    destruct (settle_all_safe env tfilt tm startH p (seq 0 (zn n)) hs [] _ bans1
                (fun i Hi => proj1 (Hg i Hi)) Hh (fun x => x) Esa) as (Hpb1 & _ & (Hsub & Hh' & Hmm & Hrem)).
    set (cps3 := remove_peers bans1 cps2).
    set (silent := List.map fst (List.filter (fun c : Z * list Z => negb (mem (fst c) (List.map fst hs'))) cps3)).
    set (cps4 := remove_peers silent cps3).
    set (cpliars := List.map fst (List.filter (fun c : Z * list Z =>
                      match msg_of (fst c) hs' with
                      | Some m => cp_contradicts H (Z.of_nat j) (snd c) m
                      | None => false
                      end) cps4)).
    set (cps5 := remove_peers cpliars cps4).
    (* the header at the end of the interval, as determined by the agreed answers *)
    set (Cstar := chain_last H (m_prev tm) (take (zn (INTERVAL + 1)) (m_hashes tm))).
    assert (Hjsmall : Z.of_nat j < 1000000) by (unfold INTERVAL in *; lia).
    destruct (lookup_lt_is_Some_2 tc j Hjtc) as [cj Hcj].
    assert (Ecj : Cstar = cj).
    { apply Hcons. by apply zget_lookup. }
    assert (Hhashes : forall q m, In (q, m) hs' -> m_hashes m = m_hashes tm).
    { apply (settled_hashes tm p hs hs' n); try done. unfold INTERVAL, MAXCFH in *. lia. }
    (* a list that names another header at index j is thrown out *)
    assert (HK : forall q l x, In (q, l) cps1 -> l !! j = Some x -> x <> Cstar ->
                 In q (bad0 ++ bans1 ++ silent ++ cpliars) /\ In q (List.map fst cps)).
    { intros q l x Hq Hx Hne. split; [|eauto]. rewrite !in_app_iff.
      assert (Hq2 : In (q, l) cps2).
      { unfold cps2. apply filter_In. split; [done|]. cbn [snd]. apply negb_true_iff, Z.ltb_ge.
        apply lookup_lt_Some in Hx. unfold zlen. lia. }
      destruct (mem q bans1) eqn:Em1; [right; left; by apply mem_In|].
      assert (Hq3 : In (q, l) cps3) by (by apply remove_peers_In).
      destruct (mem q silent) eqn:Ems; [right; right; left; by apply mem_In|].
      assert (Hq4 : In (q, l) cps4) by (by apply remove_peers_In).
      right. right. right.
      destruct (mem q (List.map fst hs')) eqn:Emh.
      2:{ exfalso. apply mem_false in Ems. apply Ems. unfold silent. apply in_map_iff.
          exists (q, l). split; [done|]. apply filter_In. split; [done|]. cbn [fst]. by rewrite Emh. }
      apply mem_In in Emh. destruct (msg_of_Some q hs' Emh) as [m Em].
      pose proof (msg_of_In _ _ _ Em) as Hqm.
      unfold cpliars. apply in_map_iff. exists (q, l). split; [done|]. apply filter_In. split; [done|].
      cbn [fst snd]. rewrite Em. unfold cp_contradicts. rewrite (zget_lookup l j x Hjsmall Hx).
      rewrite (Hhashes _ _ Hqm), (Hprevs _ _ (Hsub _ Hqm)).
      replace (zlen (m_hashes tm) <? INTERVAL + 1) with false.
      - apply negb_true_iff, Z.eqb_neq. fold Cstar. congruence.
      - symmetry. apply Z.ltb_ge. pose proof (Hlens _ (Hsub _ (proj1 Hh'))) as L. cbn [snd] in L.
        unfold zlen. unfold INTERVAL, MAXCFH in *. lia. }
    (* hence somebody who sent a list has been banned *)
    assert (HW : exists q, In q (bad0 ++ bans1 ++ silent ++ cpliars) /\ In q (List.map fst cps)).
    { destruct Hcause as [(q & l & q' & l' & x & y & Hq & Hq' & Hx & Hy & Hne)|(q & l & x & hd & Hq & Hx & Hhd & Hne)].
      - destruct (decide (x = Cstar)) as [Ex|Ex].
        + exists q'. apply (HK q' l' y Hq' Hy). congruence.
        + exists q. exact (HK q l x Hq Hx Ex).
      - destruct (decide (x = Cstar)) as [Ex|Ex].
        + exfalso. apply Hne. rewrite Ex, Ecj. exact (Hstore j cj hd Hcj Hhd).
        + exists q. exact (HK q l x Hq Hx Ex). }
    destruct (check_sanity cps5 v) as [|d'|] eqn:Es5.
    + destruct (choose hint cps5) as [[c lc]|] eqn:Ec.
      * intros [= <- <-]. by left.
      * intros [= <- <-]. by right.
    + intros [= <- <-]. by right.
    + intros [= <- <-]. by right.
  - exfalso. by apply (Hnoerr cps1).
Qed.

Theorem resolve_progress H hard v env raws hint cps p tc tfilt tx tiph bans res :
  In (p, tc) cps -> (forall l, In (p, l) cps -> l = tc) ->
  peer_hard_bad hard tc = false ->
  (forall q l, In (q, l) cps -> (length l <= length tc)%nat) ->
  v_btip v = Some (tx, tiph) -> 0 <= tiph < 1000000 -> zlen tc * INTERVAL <= tiph ->
  honest_serves_avail H v env raws p tc tfilt ->
  store_agrees v tc ->
  (forall l, check_sanity l v <> SaneErr) ->
  resolve_conflict H hard v env raws hint cps = (bans, res) ->
  res <> None \/ exists q, In q bans /\ In q (List.map fst cps).
Proof.
  intros Hp Huniq Hhard Hlen Htip Htipb Hcap Hhon Hstore Hnoerr.
  apply (resolve_progress_lt H hard v env raws hint cps p tc tfilt tx tiph); try done.
  by apply honest_serves_avail_lt_of.
Qed.

Print Assumptions resolve_progress.

(* ---------- the retry loop of cfHandler ---------- *)
Section Retry.
Variable H : Z -> Z -> Z.
Variable hard : Z -> option Z.
Variable v : cview.
Variable p : Z.
Variable tc : list Z.
Variable tfilt : Z -> Z.

(* what holds in every round: the honest peer p is connected and sends tc *)
Definition round_ok (r : round) : Prop :=
  In (p, tc) (rd_cps r) /\ (forall l, In (p, l) (rd_cps r) -> l = tc) /\
  (forall q l, In (q, l) (rd_cps r) -> (length l <= length tc)%nat /\ l <> []) /\
  NoDup (List.map fst (rd_cps r)) /\
  honest_serves_avail H v (rd_env r) (rd_raws r) p tc tfilt.

Definition not_banned (r : round) : list Z :=
  List.filter (fun q => negb (mem q (fst (resolve_conflict H hard v (rd_env r) (rd_raws r) (rd_hint r) (rd_cps r)))))
              (List.map fst (rd_cps r)).

(* a banned peer is disconnected: the lists of the next round come from
   peers of this round that were not banned in it (no new peers) *)
Fixpoint rounds_ok (rounds : list round) : Prop :=
  match rounds with
  | [] => True
  | r :: rest =>
    round_ok r /\
    match rest with
    | [] => True
    | r' :: _ => forall q, In q (List.map fst (rd_cps r')) -> In q (not_banned r)
    end /\
    rounds_ok rest
  end.

Lemma filter_len_le (f : Z -> bool) l : (length (List.filter f l) <= length l)%nat.
Proof. induction l as [|x l IH]; [done|]. cbn [List.filter]. destruct (f x); cbn [length]; lia. Qed.

Lemma filter_shorter (f : Z -> bool) l q : In q l -> f q = false -> (length (List.filter f l) < length l)%nat.
Proof.
  induction l as [|x l IH]; intros Hq Hf; [destruct Hq|]. cbn [List.filter].
  destruct Hq as [->|Hq].
  - rewrite Hf. pose proof (filter_len_le f l). cbn [length]. lia.
  - specialize (IH Hq Hf). destruct (f x); cbn [length]; lia.
Qed.

Theorem cf_retry_terminates tx tiph rounds r0 rest :
  peer_hard_bad hard tc = false ->
  v_btip v = Some (tx, tiph) -> 0 <= tiph < 1000000 -> zlen tc * INTERVAL <= tiph ->
  store_agrees v tc -> (forall l, check_sanity l v <> SaneErr) ->
  rounds = r0 :: rest -> rounds_ok rounds ->
  (length (rd_cps r0) <= length rounds)%nat ->
  ~ In p (fst (cf_retry H hard v rounds)) /\
  exists l, snd (cf_retry H hard v rounds) = Some l /\ l <> [] /\
            forall (i : nat) x y, l !! i = Some x -> tc !! i = Some y -> x = y.
Proof.
  intros Hhard Htip Htipb Hcap Hstore Hnoerr.
  revert r0 rest. induction rounds as [|r rounds IH]; intros r0 rest [= <- <-] Hok Hlen.
  destruct Hok as (Hr & Hnext & Hokrest).
  destruct Hr as (Hp & Huniq & Hlens & Hnd & Hhon).
  cbn [cf_retry].
  destruct (resolve_conflict H hard v (rd_env r) (rd_raws r) (rd_hint r) (rd_cps r)) as [bans res] eqn:Er.
  pose proof (resolve_honest_wins_eq H hard v (rd_env r) (rd_raws r) (rd_hint r) (rd_cps r) p tc tfilt bans res
                Hp Huniq Hhard (fun q l Hq => proj1 (Hlens q l Hq))
                (honest_serves_avail_weaken _ _ _ _ _ _ _ Hhon) Er) as (Hpb & Hval & _).
  pose proof (resolve_progress H hard v (rd_env r) (rd_raws r) (rd_hint r) (rd_cps r) p tc tfilt tx tiph bans res
                Hp Huniq Hhard (fun q l Hq => proj1 (Hlens q l Hq)) Htip Htipb Hcap Hhon Hstore Hnoerr Er) as Hprog.
  assert (Hne : forall l, res = Some l -> exists q, In (q, l) (rd_cps r)).
  { clear -Er. intros l ->. revert Er. unfold resolve_conflict, resolve_conflict_ix. cbv zeta.
    set (bad0 := List.map fst _). set (cps1 := remove_peers bad0 (rd_cps r)).
    destruct cps1 as [|c1 cps1'] eqn:E1; [done|]. rewrite <- E1.
    destruct (check_sanity cps1 v) as [|d|]; [| |done].
    - destruct (choose (rd_hint r) cps1) as [[q lq]|] eqn:Ec; [|done]. cbn. intros [= _ <-].
      apply choose_In in Ec. subst cps1. apply remove_peers_In in Ec as [Ec _]. eauto.
    - destruct (List.filter _ cps1) as [|c2 cps2'] eqn:E2; [done|]. rewrite <- E2.
      destruct (get_headers v _ (rd_raws r)) as [hs n]. destruct (negb _); [done|].
      destruct (settle_all _ _ _ _ _) as [[hs'|] bans1]; [|done].
      destruct (check_sanity _ v); [|done|done].
      destruct (choose _ _) as [[q lq]|] eqn:Ec; [|done]. intros [= _ <-].
      apply choose_In in Ec. apply remove_peers_In in Ec as [Ec _]. apply remove_peers_In in Ec as [Ec _].
      apply remove_peers_In in Ec as [Ec _]. apply filter_In in Ec as [Ec _]. subst cps1.
      apply remove_peers_In in Ec as [Ec _]. eauto. }
  assert (Hretry : (res = None \/ res = Some []) ->
            ~ In p (fst (let '(bans', res0) := cf_retry H hard v rounds in (bans ++ bans', res0))) /\
            exists l, snd (let '(bans', res0) := cf_retry H hard v rounds in (bans ++ bans', res0)) = Some l /\ l <> [] /\
                      forall (i : nat) x y, l !! i = Some x -> tc !! i = Some y -> x = y).
  { intros Hres.
    assert (Hb : exists q, In q bans /\ In q (List.map fst (rd_cps r))).
    { destruct Hres as [->| ->]; [destruct Hprog as [Hn|Hb]; [done|exact Hb]|].
      (* an empty list is never returned: every list given is non-empty *)
      exfalso.
      destruct (Hne [] eq_refl) as [q Hq]. by apply (proj2 (Hlens q [] Hq)). }
    destruct Hb as (qb & Hqb & Hqbin).
    assert (Hnb : (length (not_banned r) < length (rd_cps r))%nat).
    { unfold not_banned. rewrite Er. cbn [fst]. rewrite <- (map_length fst (rd_cps r)).
      apply (filter_shorter _ _ qb Hqbin). apply negb_false_iff, mem_In. done. }
    assert (Hpnb : In p (not_banned r)).
    { unfold not_banned. rewrite Er. cbn [fst]. apply filter_In. split.
      - apply in_map_iff. exists (p, tc). done.
      - apply negb_true_iff, mem_false. done. }
    destruct rounds as [|r' rounds'].
    { exfalso. cbn [length] in Hlen. destruct (not_banned r); [destruct Hpnb|]. cbn [length] in Hnb. lia. }
    assert (Hlen' : (length (rd_cps r') <= length (r' :: rounds'))%nat).
    { destruct Hokrest as ((_ & _ & _ & Hnd' & _) & _ & _).
      rewrite <- (map_length fst (rd_cps r')).
      pose proof (NoDup_incl_length (proj1 (NoDup_ListNoDup _) Hnd') Hnext) as Hl. cbn [length] in *. lia. }
    destruct (IH r' rounds' eq_refl Hokrest Hlen') as (Hpb' & l & El & Hlne & Hagree).
    destruct (cf_retry H hard v (r' :: rounds')) as [bans' res0]. cbn [fst snd] in *.
    split; [rewrite in_app_iff; tauto|]. exists l. done. }
  destruct res as [[|x l]|].
  - apply Hretry. by right.
  - cbn [fst snd]. split; [done|]. exists (x :: l). split; [done|]. split; [done|]. exact (Hval _ eq_refl).
  - apply Hretry. by left.
Qed.
End Retry.

Print Assumptions cf_retry_terminates.
