(* C03 — the checkpointed fetch (getCheckpointedCFHeaders): the final store
   depends on the arrivals only through "the first delivered answer of each
   request", not on their interleaving. *)
From stdpp Require Import gmap list.
From Coq Require Import ZArith Lia ZifyBool.
From Verif Require Import S1.Model C03.Model C03.Proofs C03.ProofsF C03.ProofsU C03.ProofsS.
Open Scope Z_scope.

(* ---------- generic helpers ---------- *)
Lemma lfilter_length_le {A} (g : A -> bool) l : (length (List.filter g l) <= length l)%nat.
Proof. induction l as [|y l IH]; cbn; [lia|]. destruct (g y); cbn; lia. Qed.

Lemma find_filter_length {A} (f : A -> bool) l x :
  List.find f l = Some x -> (length (List.filter (fun p => negb (f p)) l) < length l)%nat.
Proof.
  induction l as [|y l IH]; cbn; [discriminate|].
  destruct (f y) eqn:E; cbn.
  - intros _. pose proof (lfilter_length_le (fun p => negb (f p)) l). lia.
  - intros Hf. specialize (IH Hf). lia.
Qed.

Lemma zn_small k : 0 <= k < 1000000 -> zn k = Z.to_nat k.
Proof.
  intros Hk. unfold zn.
  replace (0 <=? k) with true by (symmetry; apply Z.leb_le; lia).
  replace (k <? 1000000) with true by (symmetry; apply Z.ltb_lt; lia). reflexivity.
Qed.

Lemma zget_Some {A} (l : list A) k x : zlen l < 1000000 ->
  zget l k = Some x <-> 0 <= k < zlen l /\ l !! Z.to_nat k = Some x.
Proof.
  intros Hl. unfold zget.
  destruct (0 <=? k) eqn:E1; cbn [andb].
  - destruct (k <? zlen l) eqn:E2.
    + apply Z.leb_le in E1. apply Z.ltb_lt in E2. rewrite zn_small by lia.
      split; [intros Hx; split; [lia|exact Hx]|intros [_ Hx]; exact Hx].
    + apply Z.ltb_ge in E2. split; [discriminate|]. intros [Hk _]. lia.
  - apply Z.leb_gt in E1. split; [discriminate|]. intros [Hk _]. lia.
Qed.

Lemma zlen_nonneg {A} (l : list A) : 0 <= zlen l.
Proof. unfold zlen. lia. Qed.

Lemma zlen_drop {A} (l : list A) (n : nat) : Z.of_nat n <= zlen l -> zlen (drop n l) = zlen l - Z.of_nat n.
Proof. unfold zlen. rewrite drop_length. lia. Qed.

(* ---------- the specification ---------- *)
Section C.
Variable H : Z -> Z -> Z.

Definition delivers genesis cps qs (ar : arrival) : bool :=
  match snd (handle_response H genesis cps qs ar) with Some _ => true | None => false end.

(* the answer that finishes request number k *)
Definition first_ok genesis cps qs (ars : list arrival) (k : Z) : option arrival :=
  List.find (fun ar => (a_q ar =? k) && delivers genesis cps qs ar) ars.

(* the number of the request for checkpoint index ci *)
Fixpoint qindex (ci : Z) (qs : list (Z * Z)) (k : Z) : option Z :=
  match qs with
  | [] => None
  | q :: r => if fst q =? ci then Some k else qindex ci r (k + 1)
  end.

(* the verified message for checkpoint index ci, if its request was answered *)
Definition fv genesis cps qs ars (ci : Z) : option cfmsg :=
  match qindex ci qs 0 with
  | None => None
  | Some k => option_map a_msg (first_ok genesis cps qs ars k)
  end.

(* the trimmed first batch *)
Definition trim (prev off : Z) (r : cfmsg) : cfmsg :=
  {| m_prev := prev; m_stop := m_stop r; m_hashes := drop (zn off) (m_hashes r) |}.

(* sequential writer: starting at [interval], write the verified answer of the
   expected interval while there is one.  The first write is trimmed with its
   OWN start height.  Result: final lists, tip header after each write,
   panicked?  (No [ncp] argument: the table is undefined from ncp on.) *)
Fixpoint seq_write (fuel : nat) (fvf : Z -> option cfmsg) (first : bool) (a : alog2)
         (curHdr curH interval : Z) : alog2 * list Z * bool :=
  match fuel with
  | O => (a, [], false)
  | S fuel' =>
    match fvf interval with
    | None => (a, [], false)
    | Some r =>
      let r' := if first then trim curHdr (u32 (curH + 1 - u32 (interval * INTERVAL + 1))) r else r in
      match awrite_cf H a r' with
      | (_, None) => (a, [], true)
      | (a', Some (hd, ht)) =>
        let '(a'', tips, p) := seq_write fuel' fvf false a' hd ht (ht / INTERVAL) in
        (a'', hd :: tips, p)
      end
    end
  end.

(* ---------- the requests ---------- *)
Fixpoint incr (lo : Z) (l : list (Z * Z)) : Prop :=
  match l with [] => True | q :: r => lo <= fst q /\ incr (fst q + 1) r end.

Lemma incr_weaken l : forall lo lo', incr lo l -> lo' <= lo -> incr lo' l.
Proof. destruct l as [|q r]; cbn; [done|]. intros lo lo' [H1 H2] Hle. split; [lia|exact H2]. Qed.

Lemma incr_lookup l : forall lo (n : nat) q, incr lo l -> l !! n = Some q -> lo <= fst q.
Proof.
  induction l as [|p r IH]; intros lo n q Hi Hl; [discriminate|].
  cbn in Hi. destruct Hi as [H1 H2]. destruct n as [|n]; cbn in Hl.
  - injection Hl as <-. exact H1.
  - specialize (IH _ _ _ H2 Hl). lia.
Qed.

Lemma qindex_lookup ci qs : forall i k, qindex ci qs i = Some k ->
  i <= k /\ exists stop, qs !! Z.to_nat (k - i) = Some (ci, stop).
Proof.
  induction qs as [|q r IH]; intros i k Hq; cbn in Hq; [discriminate|].
  destruct (fst q =? ci) eqn:E.
  - injection Hq as <-. split; [lia|]. exists (snd q). rewrite Z.sub_diag. cbn.
    apply Z.eqb_eq in E. destruct q; cbn in *; by subst.
  - destruct (IH _ _ Hq) as [Hle [stop Hs]]. split; [lia|]. exists stop.
    replace (Z.to_nat (k - i)) with (S (Z.to_nat (k - (i + 1)))) by lia. exact Hs.
Qed.

Lemma lookup_qindex ci stop qs : forall lo i (n : nat), incr lo qs -> qs !! n = Some (ci, stop) ->
  qindex ci qs i = Some (i + Z.of_nat n).
Proof.
  induction qs as [|q r IH]; intros lo i n Hi Hl; [discriminate|].
  cbn in Hi. destruct Hi as [H1 H2]. destruct n as [|n]; cbn in Hl; cbn [qindex].
  - injection Hl as ->. cbn [fst]. rewrite Z.eqb_refl. f_equal. lia.
  - pose proof (incr_lookup _ _ _ _ H2 Hl) as Hge. cbn [fst] in Hge.
    replace (fst q =? ci) with false by (symmetry; apply Z.eqb_neq; lia).
    rewrite (IH _ (i + 1) n H2 Hl). f_equal. lia.
Qed.

Lemma mk_queries_props a ncp fuel : forall cur qs,
  mk_queries fuel a ncp cur = Some qs ->
  (length qs <= fuel)%nat /\ incr cur qs /\ (forall q, In q qs -> fst q < ncp).
Proof.
  induction fuel as [|fuel IH]; intros cur qs Hq; cbn [mk_queries] in Hq.
  - injection Hq as <-. cbn. split; [lia|]. split; [exact I|intros q []].
  - destruct (cur <? ncp) eqn:Ec.
    2:{ injection Hq as <-. cbn. split; [lia|]. split; [exact I|intros q []]. }
    apply Z.ltb_lt in Ec.
    destruct (zget (abl a) (Z.min (cur + CPQ) ncp * INTERVAL)) as [stop|]; [|discriminate].
    destruct (mk_queries fuel a ncp (Z.min (cur + CPQ) ncp)) as [r|] eqn:Er; [|discriminate].
    injection Hq as <-. destruct (IH _ _ Er) as (Hl & Hi & Hn). cbn [length incr fst].
    split; [lia|]. split.
    + split; [lia|]. eapply incr_weaken; [exact Hi|]. unfold CPQ. lia.
    + intros q [<-|Hq]; [cbn; lia|by apply Hn].
Qed.

(* with enough fuel, a non-empty request list means all checkpoints are below
   the block header tip *)
Lemma mk_queries_bound a ncp fuel : forall cur qs,
  mk_queries fuel a ncp cur = Some qs -> cur < ncp -> ncp - cur < Z.of_nat fuel ->
  ncp * INTERVAL < zlen (abl a).
Proof.
  induction fuel as [|fuel IH]; intros cur qs Hq Hc Hf; [lia|].
  cbn [mk_queries] in Hq.
  replace (cur <? ncp) with true in Hq by (symmetry; apply Z.ltb_lt; lia).
  destruct (zget (abl a) (Z.min (cur + CPQ) ncp * INTERVAL)) as [stop|] eqn:Ez; [|discriminate].
  destruct (mk_queries fuel a ncp (Z.min (cur + CPQ) ncp)) as [r|] eqn:Er; [|discriminate].
  unfold CPQ in *.
  destruct (decide (cur + 2 < ncp)) as [Hlt|Hge].
  - rewrite Z.min_l in Er by lia. eapply IH; [exact Er|lia|lia].
  - rewrite Z.min_r in Ez by lia. unfold zget in Ez.
    destruct (0 <=? ncp * INTERVAL) eqn:E1; cbn [andb] in Ez; [|discriminate].
    destruct (ncp * INTERVAL <? zlen (abl a)) eqn:E2; [|discriminate].
    by apply Z.ltb_lt in E2.
Qed.

(* ---------- handle_response ---------- *)
Section Disp.
Variables (genesis : Z) (cps : list Z) (qs : list (Z * Z)).
Notation hr := (handle_response H genesis cps qs).
Notation dlv := (delivers genesis cps qs).

Definition prevcp_of (ci : Z) : Z := if 0 <? ci then default 0 (zget cps (ci - 1)) else genesis.
Definition nci_of (ci : Z) : Z := Z.min (ci + CPQ - 1) (zlen cps - 1).

Lemma hr_Some ar b d : hr ar = (b, Some d) ->
  exists ci stop, zget qs (a_q ar) = Some (ci, stop) /\ d = (ci, a_msg ar) /\ b = false /\
    a_reg ar = true /\ m_stop (a_msg ar) = stop /\
    zlen (m_hashes (a_msg ar)) = (nci_of ci - ci + 1) * INTERVAL /\
    verify_checkpoint H (prevcp_of ci) (default 0 (zget cps (nci_of ci))) (a_msg ar) = true.
Proof.
  unfold handle_response. intros Hh.
  destruct (zget qs (a_q ar)) as [[ci stop]|]; [|discriminate].
  destruct (a_reg ar) eqn:Er; cbn [negb orb] in Hh; [|discriminate].
  destruct (m_stop (a_msg ar) =? stop) eqn:Es; cbn [negb] in Hh; [|discriminate].
  fold (nci_of ci) in Hh. fold (prevcp_of ci) in Hh.
  destruct (zlen (m_hashes (a_msg ar)) =? (nci_of ci - ci + 1) * INTERVAL) eqn:El; cbn [negb] in Hh; [|discriminate].
  destruct (verify_checkpoint H (prevcp_of ci) (default 0 (zget cps (nci_of ci))) (a_msg ar)) eqn:Ev;
    cbn [negb] in Hh; [|discriminate].
  injection Hh as <- <-. exists ci, stop.
  apply Z.eqb_eq in Es. apply Z.eqb_eq in El. done.
Qed.

(* what "delivered" means *)
Lemma delivers_spec ar : dlv ar = true <->
  exists ci stop, zget qs (a_q ar) = Some (ci, stop) /\
    a_reg ar = true /\ m_stop (a_msg ar) = stop /\
    zlen (m_hashes (a_msg ar)) = (nci_of ci - ci + 1) * INTERVAL /\
    verify_checkpoint H (prevcp_of ci) (default 0 (zget cps (nci_of ci))) (a_msg ar) = true.
Proof.
  unfold delivers. split.
  - destruct (hr ar) as [b [d|]] eqn:Eh; cbn [snd]; [|discriminate]. intros _.
    destruct (hr_Some _ _ _ Eh) as (ci & stop & Hz & _ & _ & Hrest). by exists ci, stop.
  - intros (ci & stop & Hz & Hr & Hs & Hl & Hv). unfold handle_response.
    rewrite Hz, Hr. cbn [negb orb]. replace (m_stop (a_msg ar) =? stop) with true by (symmetry; by apply Z.eqb_eq).
    cbn [negb]. fold (nci_of ci). fold (prevcp_of ci).
    replace (zlen (m_hashes (a_msg ar)) =? (nci_of ci - ci + 1) * INTERVAL) with true by (symmetry; by apply Z.eqb_eq).
    cbn [negb]. rewrite Hv. reflexivity.
Qed.

(* a message for the right request that fails a test: banned, not delivered *)
Lemma hr_reject ar ci stop : zget qs (a_q ar) = Some (ci, stop) ->
  a_reg ar = true -> m_stop (a_msg ar) = stop ->
  zlen (m_hashes (a_msg ar)) <> (nci_of ci - ci + 1) * INTERVAL \/
  verify_checkpoint H (prevcp_of ci) (default 0 (zget cps (nci_of ci))) (a_msg ar) = false ->
  hr ar = (true, None).
Proof.
  intros Hz Hr Hs Hf. unfold handle_response. rewrite Hz, Hr. cbn [negb orb].
  replace (m_stop (a_msg ar) =? stop) with true by (symmetry; by apply Z.eqb_eq). cbn [negb].
  fold (nci_of ci). fold (prevcp_of ci).
  destruct (zlen (m_hashes (a_msg ar)) =? (nci_of ci - ci + 1) * INTERVAL) eqn:El; cbn [negb]; [|reflexivity].
  destruct Hf as [Hf|Hf]; [apply Z.eqb_eq in El; contradiction|]. rewrite Hf. reflexivity.
Qed.

(* ---------- dispatch ---------- *)
Variable lo : Z.
Hypothesis Hqlen : zlen qs < 1000000.
Hypothesis Hincr : incr lo qs.

Lemma zget_qindex k ci stop : zget qs k = Some (ci, stop) -> qindex ci qs 0 = Some k.
Proof.
  intros Hz. apply zget_Some in Hz as [Hk Hl]; [|exact Hqlen].
  rewrite (lookup_qindex _ _ _ _ 0 _ Hincr Hl). f_equal. lia.
Qed.

Lemma qindex_zget k ci : qindex ci qs 0 = Some k -> exists stop, zget qs k = Some (ci, stop).
Proof.
  intros Hq. destruct (qindex_lookup _ _ _ _ Hq) as [Hk [stop Hs]]. exists stop.
  apply zget_Some; [exact Hqlen|]. rewrite Z.sub_0_r in Hs. split; [|exact Hs].
  apply lookup_lt_Some in Hs. unfold zlen. lia.
Qed.

Definition tbl (ds : list (Z * cfmsg)) (ci : Z) : option cfmsg :=
  option_map snd (List.find (fun p => fst p =? ci) ds).

Definition fvd ars (done : list Z) ci : option cfmsg :=
  match qindex ci qs 0 with
  | None => None
  | Some k => if mem k done then None else option_map a_msg (first_ok genesis cps qs ars k)
  end.

Notation disp := (dispatch H genesis cps qs).

Lemma tbl_dispatch ars : forall done ci, tbl (snd (disp ars done)) ci = fvd ars done ci.
Proof.
  induction ars as [|ar rest IH]; intros done ci.
  - cbn. unfold fvd. destruct (qindex ci qs 0) as [k|]; [|reflexivity]. destruct (mem k done); reflexivity.
  - cbn [dispatch]. destruct (mem (a_q ar) done) eqn:Em.
    + rewrite IH. unfold fvd. destruct (qindex ci qs 0) as [k|]; [|reflexivity].
      destruct (mem k done) eqn:Ek; [reflexivity|].
      unfold first_ok. cbn [List.find].
      destruct (a_q ar =? k) eqn:E; [|reflexivity]. apply Z.eqb_eq in E. congruence.
    + destruct (hr ar) as [ban [d|]] eqn:Eh.
      * destruct (disp rest (a_q ar :: done)) as [bs ds] eqn:Ed. cbn [snd].
        specialize (IH (a_q ar :: done) ci). rewrite Ed in IH. cbn [snd] in IH.
        destruct (hr_Some _ _ _ Eh) as (ci0 & stop & Hz & -> & _).
        unfold tbl. cbn [List.find fst].
        assert (Hdl : dlv ar = true) by (unfold delivers; rewrite Eh; reflexivity).
        destruct (ci0 =? ci) eqn:Eci.
        -- apply Z.eqb_eq in Eci. subst ci0. cbn [option_map snd]. unfold fvd.
           rewrite (zget_qindex _ _ _ Hz), Em. unfold first_ok. cbn [List.find].
           rewrite Z.eqb_refl, Hdl. reflexivity.
        -- fold (tbl ds ci). rewrite IH. unfold fvd.
           destruct (qindex ci qs 0) as [k|] eqn:Eq; [|reflexivity].
           assert (Hk : k <> a_q ar).
           { intros ->. destruct (qindex_zget _ _ Eq) as [stop' Hz']. rewrite Hz in Hz'.
             apply Z.eqb_neq in Eci. congruence. }
           cbn [mem existsb]. fold (mem k done).
           replace (k =? a_q ar) with false by (symmetry; by apply Z.eqb_neq). cbn [orb].
           destruct (mem k done); [reflexivity|]. unfold first_ok. cbn [List.find].
           replace (a_q ar =? k) with false by (symmetry; apply Z.eqb_neq; congruence). reflexivity.
      * destruct (disp rest done) as [bs ds] eqn:Ed. cbn [snd].
        specialize (IH done ci). rewrite Ed in IH. cbn [snd] in IH. rewrite IH.
        unfold fvd. destruct (qindex ci qs 0) as [k|]; [|reflexivity].
        destruct (mem k done); [reflexivity|]. unfold first_ok. cbn [List.find].
        assert (Hdl : dlv ar = false) by (unfold delivers; rewrite Eh; reflexivity).
        rewrite Hdl, andb_false_r. reflexivity.
Qed.

Lemma tbl_In ds ci m : tbl ds ci = Some m -> In (ci, m) ds.
Proof.
  unfold tbl. destruct (List.find (fun p => fst p =? ci) ds) as [[c x]|] eqn:Ef; [|discriminate].
  cbn. intros [= ->]. apply find_some in Ef as [Hin He]. cbn in He. apply Z.eqb_eq in He. by subst.
Qed.

(* the delivered list has pairwise distinct checkpoint indices *)
Lemma disp_In ars : forall done ci m,
  In (ci, m) (snd (disp ars done)) -> tbl (snd (disp ars done)) ci = Some m.
Proof.
  induction ars as [|ar rest IH]; intros done ci m; [intros []|].
  pose proof (tbl_dispatch rest) as HT.
  cbn [dispatch]. destruct (mem (a_q ar) done) eqn:Em; [apply IH|].
  destruct (hr ar) as [ban [d|]] eqn:Eh.
  - specialize (IH (a_q ar :: done) ci m). specialize (HT (a_q ar :: done) ci).
    destruct (disp rest (a_q ar :: done)) as [bs ds] eqn:Ed. cbn [snd] in *.
    destruct (hr_Some _ _ _ Eh) as (ci0 & stop & Hz & -> & _).
    intros [[= -> <-]|Hin].
    + unfold tbl. cbn [List.find fst]. rewrite Z.eqb_refl. reflexivity.
    + specialize (IH Hin). unfold tbl. cbn [List.find fst].
      destruct (ci0 =? ci) eqn:Eci; [|exact IH]. exfalso.
      apply Z.eqb_eq in Eci. subst ci0. rewrite HT in IH. unfold fvd in IH.
      rewrite (zget_qindex _ _ _ Hz) in IH. cbn [mem existsb] in IH. rewrite Z.eqb_refl in IH.
      discriminate.
  - specialize (IH done ci m). destruct (disp rest done) as [bs ds] eqn:Ed. cbn [snd] in *. exact IH.
Qed.

Lemma fvd_nil ars ci : fvd ars [] ci = fv genesis cps qs ars ci.
Proof. unfold fvd, fv. destruct (qindex ci qs 0); reflexivity. Qed.

(* the delivered list IS the table of first delivered answers *)
Lemma dispatch_fv ars bans ds ci m : disp ars [] = (bans, ds) ->
  In (ci, m) ds <-> fv genesis cps qs ars ci = Some m.
Proof.
  intros Hd. rewrite <- fvd_nil, <- tbl_dispatch, Hd. cbn [snd]. split.
  - intros Hin. pose proof (disp_In ars [] ci m) as Hx. rewrite Hd in Hx. by apply Hx.
  - apply tbl_In.
Qed.

(* an entry of the table comes from a delivered arrival *)
Lemma fv_Some ars ci m : fv genesis cps qs ars ci = Some m ->
  exists ar stop, In ar ars /\ dlv ar = true /\ m = a_msg ar /\ zget qs (a_q ar) = Some (ci, stop) /\ first_ok genesis cps qs ars (a_q ar) = Some ar.
Proof.
  unfold fv. destruct (qindex ci qs 0) as [k|] eqn:Eq; [|discriminate].
  destruct (first_ok genesis cps qs ars k) as [ar|] eqn:Ef; [|discriminate].
  cbn. intros [= <-]. pose proof Ef as Ef'. unfold first_ok in Ef. apply find_some in Ef as [Hin He].
  apply andb_true_iff in He as [He1 He2]. apply Z.eqb_eq in He1. subst k.
  destruct (qindex_zget _ _ Eq) as [stop Hz]. exists ar, stop. done.
Qed.

(* bans: a rejected answer to an unfinished request *)
Lemma disp_bans ar l2 l1 : forall done,
  mem (a_q ar) done = false ->
  (forall x, In x l1 -> a_q x = a_q ar -> dlv x = false) ->
  hr ar = (true, None) ->
  In (a_peer ar) (fst (disp (l1 ++ ar :: l2) done)).
Proof.
  induction l1 as [|x l1 IH]; intros done Hm Hno Hh.
  - cbn [app dispatch]. rewrite Hm, Hh. destruct (disp l2 done) as [bs ds]. cbn. by left.
  - cbn [app dispatch]. destruct (mem (a_q x) done) eqn:Ex.
    + apply IH; [exact Hm| |exact Hh]. intros y Hy. apply Hno. by right.
    + destruct (hr x) as [ban [d|]] eqn:Ehx.
      * assert (Hne : a_q x <> a_q ar).
        { intros E. specialize (Hno x (or_introl eq_refl) E). unfold delivers in Hno. rewrite Ehx in Hno. discriminate. }
        specialize (IH (a_q x :: done)).
        destruct (disp (l1 ++ ar :: l2) (a_q x :: done)) as [bs ds]. cbn [fst] in *.
        apply in_or_app. right. apply IH; [|intros y Hy; apply Hno; by right|exact Hh].
        cbn [mem existsb]. fold (mem (a_q ar) done). rewrite Hm.
        replace (a_q ar =? a_q x) with false by (symmetry; apply Z.eqb_neq; congruence). reflexivity.
      * specialize (IH done).
        destruct (disp (l1 ++ ar :: l2) done) as [bs ds]. cbn [fst] in *.
        apply in_or_app. right. apply IH; [exact Hm|intros y Hy; apply Hno; by right|exact Hh].
Qed.

End Disp.

(* ---------- the writer ---------- *)
Lemma u32_id z : 0 <= z < U32 -> u32 z = z.
Proof. intros Hz. unfold u32. apply Z.mod_small. exact Hz. Qed.

(* a successful write of a (possibly trimmed) table entry moves the tip into
   a later checkpoint interval *)
Lemma write_advance (first : bool) a hdr curH interval r rr a1 hd ht :
  awrite_cf H a rr = (a1, Some (hd, ht)) ->
  rr = (if first then trim hdr (u32 (curH + 1 - u32 (interval * INTERVAL + 1))) r else r) ->
  curH = zlen (afl a) - 1 -> 0 <= curH -> interval = curH / INTERVAL -> interval < 1000 ->
  1000 <= zlen (m_hashes r) ->
  ht = zlen (afl a1) - 1 /\ curH < ht /\ interval + 1 <= ht / INTERVAL /\
  (first = true -> ht = interval * INTERVAL + zlen (m_hashes r)) /\
  (first = false -> ht = curH + zlen (m_hashes r)).
Proof.
  intros Hw Hrr HcurH Hpos Hint Hlt Hlen.
  destruct (awrite_cf_ok H _ _ _ _ _ Hw) as (_ & Hfl & _ & _ & Hht & _).
  assert (Hz : zlen (afl a1) = zlen (afl a) + zlen (m_hashes rr)).
  { rewrite Hfl. unfold zlen. rewrite app_length, chain_from_length. lia. }
  unfold INTERVAL in *.
  destruct first.
  - assert (Hoff : u32 (curH + 1 - u32 (interval * 1000 + 1)) = curH - interval * 1000).
    { rewrite (u32_id (interval * 1000 + 1)) by (unfold U32; Z.div_mod_to_equations; lia).
      rewrite u32_id by (unfold U32; Z.div_mod_to_equations; lia). lia. }
    rewrite Hoff in Hrr.
    assert (Hl : zlen (m_hashes rr) = zlen (m_hashes r) - (curH - interval * 1000)).
    { rewrite Hrr. unfold trim. cbn [m_hashes].
      rewrite zn_small by (Z.div_mod_to_equations; lia).
      rewrite zlen_drop; Z.div_mod_to_equations; lia. }
    repeat split; try discriminate; try (Z.div_mod_to_equations; lia).
  - subst rr. repeat split; try discriminate; try (Z.div_mod_to_equations; lia).
Qed.

Definition pre (tips : list Z) (x : alog2 * list Z * bool) : alog2 * list Z * bool :=
  let '(a, t, p) := x in (a, tips ++ t, p).

Section Writer.
Variables (T : Z -> option cfmsg) (ncp : Z) (a0 : alog2) (hdr0 curH0 si : Z) (fuel0 : nat).
Variables (af : alog2) (alltips : list Z) (pf : bool).
Hypothesis HT : forall ci r, T ci = Some r -> 0 <= ci < ncp /\ 1000 <= zlen (m_hashes r) <= 2000.
Hypothesis Hncp : ncp < 1000.
Hypothesis Hfull : seq_write fuel0 T true a0 hdr0 curH0 si = (af, alltips, pf).
Hypothesis Hnc : ~ In hdr0 alltips.

Definition isfirst (w : wst) : bool := w_curHdr w =? hdr0.

Record winv (P : list (Z * cfmsg)) (w : wst) (f : nat) (tips : list Z) : Prop := {
  wi_run : (af, alltips, pf) =
           pre tips (seq_write f T (isfirst w) (w_a w) (w_curHdr w) (w_curH w) (w_interval w));
  wi_fuel : ncp - w_interval w < Z.of_nat f;
  wi_curH : w_curH w = zlen (afl (w_a w)) - 1;
  wi_int : w_interval w = w_curH w / INTERVAL;
  wi_pos : 0 <= w_curH w;
  wi_sub : forall ci r, In (ci, r) (w_cache w) -> T ci = Some r;
  wi_all : w_done w = false -> forall ci r, In (ci, r) P -> w_interval w <= ci -> In (ci, r) (w_cache w)
}.

Definition nocur (w : wst) : Prop := forall r, ~ In (w_interval w, r) (w_cache w).

Definition Winv (P : list (Z * cfmsg)) (w : wst) : Prop :=
  if w_panic w then w_done w = true /\ af = w_a w /\ pf = true
  else (exists f tips, winv P w f tips) /\ (w_done w = false -> nocur w) /\
       (w_done w = true -> ncp <= w_interval w).

Lemma drain_inv P outer : forall fuel w f tips,
  winv P w f tips -> w_done w = false -> w_panic w = false ->
  (length (w_cache w) < fuel)%nat ->
  (isfirst w = true -> forall r, In (w_interval w, r) (w_cache w) -> outer = u32 (w_interval w * INTERVAL + 1)) ->
  let w' := drain H fuel hdr0 outer w in
  (w_panic w' = true /\ w_done w' = true /\ af = w_a w' /\ pf = true) \/
  (w_panic w' = false /\ w_done w' = false /\ (exists f' tips', winv P w' f' tips') /\ nocur w').
Proof.
  induction fuel as [|fuel IH]; intros w f tips HI Hd Hp Hfu Hout; [lia|].
  cbn [drain].
  destruct (List.find (fun p => fst p =? w_interval w) (w_cache w)) as [[c r]|] eqn:Ef.
  2:{ right. split; [exact Hp|]. split; [exact Hd|]. split; [by exists f, tips|].
      intros r Hin. pose proof (find_none _ _ Ef _ Hin) as Hx. cbn in Hx. lia. }
  pose proof (find_filter_length _ _ _ Ef) as Hlen.
  apply find_some in Ef as [Hin Hc]. cbn [fst] in Hc. apply Z.eqb_eq in Hc. subst c.
  destruct HI as [Hrun Hfuel HcurH Hint Hpos Hsub Hall].
  pose proof (Hsub _ _ Hin) as HTi. destruct (HT _ _ HTi) as [Hci Hl].
  destruct f as [|f]; [lia|]. cbn [seq_write] in Hrun. rewrite HTi in Hrun. cbv zeta in Hrun.
  match goal with |- context [awrite_cf H (w_a w) ?X] => set (rr := X) end.
  assert (Hrr : rr = (if isfirst w then trim (w_curHdr w) (u32 (w_curH w + 1 - u32 (w_interval w * INTERVAL + 1))) r else r)).
  { unfold rr. fold (isfirst w). destruct (isfirst w) eqn:Efi; [|reflexivity].
    rewrite (Hout eq_refl _ Hin). reflexivity. }
  rewrite <- Hrr in Hrun.
  destruct (awrite_cf H (w_a w) rr) as [a1 [[hd ht]|]] eqn:Ew.
  - destruct (seq_write f T false a1 hd ht (ht / INTERVAL)) as [[a2 t] p] eqn:Es.
    cbn [pre] in Hrun.
    assert (Hhd : In hd alltips).
    { injection Hrun as _ Ht _. rewrite Ht. apply in_or_app. right. by left. }
    assert (Hne : (hd =? hdr0) = false).
    { apply Z.eqb_neq. intros ->. contradiction. }
    destruct (write_advance _ _ _ _ _ _ _ _ _ _ Ew Hrr HcurH Hpos Hint ltac:(lia) ltac:(lia))
      as (Hht & Hgt & Hadv & _).
    eapply (IH _ f (tips ++ [hd])); cbn [w_done w_panic w_cache w_interval w_curHdr]; try reflexivity.
    + constructor; cbn [w_a w_curHdr w_curH w_interval w_cache w_done]; unfold isfirst; cbn [w_curHdr].
      * rewrite Hne, Es. cbn [pre]. rewrite <- app_assoc. exact Hrun.
      * lia.
      * exact Hht.
      * reflexivity.
      * lia.
      * intros ci x Hx. apply filter_In in Hx as [Hx _]. by apply Hsub.
      * intros _ ci x Hx Hle. apply filter_In. split; [apply Hall; [exact Hd|exact Hx|lia]|].
        cbn [fst]. apply negb_true_iff. apply Z.eqb_neq. lia.
    + lia.
    + unfold isfirst. cbn [w_curHdr]. rewrite Hne. discriminate.
  - left. cbn [w_panic w_done w_a pre] in *. injection Hrun as -> _ ->. done.
Qed.

Lemma consume_inv P w ci r : Winv P w -> T ci = Some r ->
  Winv (P ++ [(ci, r)]) (consume H hdr0 ncp w (ci, r)).
Proof.
  intros HW HTc. destruct (HT _ _ HTc) as [Hci Hl].
  unfold consume. destruct (w_done w) eqn:Ed.
  { unfold Winv in *. destruct (w_panic w); [exact HW|].
    destruct HW as ((f & tips & HI) & Hno & Hdn). split; [|split; assumption].
    exists f, tips. destruct HI. constructor; try assumption. rewrite Ed. discriminate. }
  assert (Hp : w_panic w = false).
  { unfold Winv in HW. destruct (w_panic w); [|reflexivity]. destruct HW as [HW _]. congruence. }
  unfold Winv in HW. rewrite Hp in HW. destruct HW as ((f & tips & HI) & Hno & Hdn).
  specialize (Hno Ed).
  assert (Hs : u32 (ci * INTERVAL + 1) = ci * INTERVAL + 1) by (apply u32_id; unfold INTERVAL, U32; lia).
  rewrite Hs.
  assert (Hlh : u32 (ci * INTERVAL + 1 + zlen (m_hashes r) - 1) = ci * INTERVAL + zlen (m_hashes r)).
  { rewrite u32_id by (unfold INTERVAL, U32; lia). lia. }
  rewrite Hlh.
  destruct (ci * INTERVAL + zlen (m_hashes r) <=? w_curH w) eqn:El.
  { apply Z.leb_le in El. unfold Winv. rewrite Hp. split; [|split; [intros _; exact Hno|exact Hdn]].
    exists f, tips. destruct HI as [Hrun Hfuel HcurH Hint Hpos Hsub Hall]. constructor; try assumption.
    intros _ c x Hx Hle. apply in_app_or in Hx as [Hx|[[= -> ->]|[]]]; [by apply Hall|].
    exfalso. unfold INTERVAL in *. Z.div_mod_to_equations. lia. }
  set (cache := (ci, r) :: List.filter (fun p => negb (fst p =? ci)) (w_cache w)).
  set (w0 := {| w_a := w_a w; w_curHdr := w_curHdr w; w_curH := w_curH w; w_interval := w_interval w;
                w_cache := cache; w_panic := false; w_done := false |}).
  assert (HI0 : winv (P ++ [(ci, r)]) w0 f tips).
  { destruct HI as [Hrun Hfuel HcurH Hint Hpos Hsub Hall].
    constructor; cbn [w0 w_a w_curHdr w_curH w_interval w_cache w_done]; try assumption.
    - intros c x [[= <- <-]|Hx]; [exact HTc|]. apply filter_In in Hx as [Hx _]. by apply Hsub.
    - intros _ c x Hx Hle.
      assert (HTx : T c = Some x).
      { apply in_app_or in Hx as [Hx|[[= <- <-]|[]]]; [|exact HTc]. apply Hsub. by apply Hall. }
      destruct (decide (c = ci)) as [->|Hne].
      + left. rewrite HTc in HTx. by injection HTx as <-.
      + right. apply filter_In. split.
        * apply in_app_or in Hx as [Hx|[[= <- <-]|[]]]; [by apply Hall|contradiction].
        * cbn [fst]. apply negb_true_iff. by apply Z.eqb_neq. }
  pose proof (drain_inv (P ++ [(ci, r)]) (ci * INTERVAL + 1) (S (length cache)) w0 f tips HI0 eq_refl eq_refl) as HD.
  cbn [w0 w_cache] in HD. specialize (HD ltac:(lia)).
  assert (Hout : isfirst w0 = true -> forall r0, In (w_interval w0, r0) cache ->
                 ci * INTERVAL + 1 = u32 (w_interval w0 * INTERVAL + 1)).
  { intros _ r0 [[= E1 E2]|Hx]; [cbn [w0 w_interval] in *; by rewrite <- E1, Hs|].
    apply filter_In in Hx as [Hx _]. exfalso. exact (Hno _ Hx). }
  specialize (HD Hout). cbv zeta in HD. fold w0.
  set (w1 := drain H (S (length cache)) hdr0 (ci * INTERVAL + 1) w0) in *.
  destruct HD as [(Hp1 & Hd1 & Ha1 & Hpf)|(Hp1 & Hd1 & (f1 & tips1 & HI1) & Hno1)].
  - rewrite Hp1. unfold Winv. rewrite Hp1. done.
  - rewrite Hp1. unfold Winv. cbn [w_panic w_done w_interval].
    split; [|split].
    + exists f1, tips1. destruct HI1 as [Hrun Hfuel HcurH Hint Hpos Hsub Hall].
      constructor; cbn [w_a w_curHdr w_curH w_interval w_cache w_done]; try assumption.
      intros _. by apply Hall.
    + intros _. exact Hno1.
    + intros Hle. by apply Z.leb_le.
Qed.

Lemma fold_inv rest : forall P w, Winv P w ->
  (forall d, In d rest -> T (fst d) = Some (snd d)) ->
  Winv (P ++ rest) (fold_left (consume H hdr0 ncp) rest w).
Proof.
  induction rest as [|[ci r] rest IH]; intros P w HW Hall; cbn [fold_left].
  - by rewrite app_nil_r.
  - replace (P ++ (ci, r) :: rest) with ((P ++ [(ci, r)]) ++ rest) by (by rewrite <- app_assoc).
    apply IH.
    + apply consume_inv; [exact HW|]. apply (Hall (ci, r)). by left.
    + intros d Hd. apply Hall. by right.
Qed.

Lemma writer_final ds w : Winv ds w ->
  (forall ci r, T ci = Some r -> In (ci, r) ds) ->
  af = w_a w /\ pf = w_panic w.
Proof.
  unfold Winv. intros HW Hcov. destruct (w_panic w); [tauto|].
  destruct HW as ((f & tips & HI) & Hno & Hdn).
  destruct HI as [Hrun Hfuel HcurH Hint Hpos Hsub Hall].
  assert (HN : T (w_interval w) = None).
  { destruct (T (w_interval w)) as [r|] eqn:E; [|reflexivity]. exfalso.
    destruct (HT _ _ E) as [Hci _]. destruct (w_done w) eqn:Ed.
    - specialize (Hdn eq_refl). lia.
    - apply (Hno eq_refl r). apply Hall; [reflexivity|by apply Hcov|lia]. }
  destruct f as [|f]; cbn [seq_write] in Hrun; [|rewrite HN in Hrun];
    cbn [pre] in Hrun; injection Hrun as -> _ ->; done.
Qed.

Lemma writer_correct ds :
  curH0 = zlen (afl a0) - 1 -> 0 <= curH0 -> si = curH0 / INTERVAL -> ncp - si < Z.of_nat fuel0 ->
  (forall ci r, In (ci, r) ds <-> T ci = Some r) ->
  let w := fold_left (consume H hdr0 ncp) ds
             {| w_a := a0; w_curHdr := hdr0; w_curH := curH0; w_interval := si;
                w_cache := []; w_panic := false; w_done := false |} in
  af = w_a w /\ pf = w_panic w.
Proof.
  intros HcurH Hpos Hsi Hfu Hds w. apply (writer_final ds).
  - apply (fold_inv ds []).
    + unfold Winv. cbn [w_panic w_done]. split; [|split; [|discriminate]].
      * exists fuel0, []. constructor; cbn [w_a w_curHdr w_curH w_interval w_cache w_done]; try assumption.
        -- unfold isfirst. cbn [w_curHdr]. rewrite Z.eqb_refl, Hfull. reflexivity.
        -- intros ci r [].
        -- intros _ ci r [].
      * intros _ r [].
    + intros [ci r] Hd. cbn [fst snd]. by apply Hds.
  - intros ci r. apply Hds.
Qed.

End Writer.

(* ---------- the main theorem ---------- *)
Lemma fv_nil genesis cps ars ci : fv genesis cps [] ars ci = None.
Proof. reflexivity. Qed.

(* facts about a run that got as far as having requests *)
Lemma setup_facts a (cps : list Z) qs curHdr :
  zlen (abl a) < 1000000 ->
  last (afl a) = Some curHdr ->
  mk_queries (S (length cps)) a (zlen cps) ((zlen (afl a) - 1) / INTERVAL) = Some qs ->
  qs <> [] ->
  0 <= zlen (afl a) - 1 /\ zlen cps < 1000 /\ zlen qs < 1000000 /\
  incr ((zlen (afl a) - 1) / INTERVAL) qs /\ (forall q, In q qs -> fst q < zlen cps) /\
  0 <= (zlen (afl a) - 1) / INTERVAL < zlen cps.
Proof.
  intros Hbl Hlast Hq Hne.
  assert (Hpos : 0 <= zlen (afl a) - 1).
  { destruct (afl a); [discriminate|]. unfold zlen. cbn [length]. lia. }
  destruct (mk_queries_props _ _ _ _ _ Hq) as (Hlen & Hinc & Hlt).
  assert (Hsi : 0 <= (zlen (afl a) - 1) / INTERVAL) by (unfold INTERVAL; Z.div_mod_to_equations; lia).
  assert (Hsn : (zlen (afl a) - 1) / INTERVAL < zlen cps).
  { destruct qs as [|q r]; [contradiction|]. cbn in Hinc. specialize (Hlt q (or_introl eq_refl)). lia. }
  assert (Hb : zlen cps * INTERVAL < zlen (abl a)).
  { eapply mk_queries_bound; [exact Hq|lia|unfold zlen in *; lia]. }
  unfold INTERVAL in Hb.
  repeat split; try assumption; try lia. unfold zlen in *. lia.
Qed.

Lemma fv_props genesis a cps qs curHdr ars ci r :
  zlen (abl a) < 1000000 ->
  last (afl a) = Some curHdr ->
  mk_queries (S (length cps)) a (zlen cps) ((zlen (afl a) - 1) / INTERVAL) = Some qs ->
  fv genesis cps qs ars ci = Some r ->
  (zlen (afl a) - 1) / INTERVAL <= ci < zlen cps /\
  zlen (m_hashes r) = (Z.min (ci + 2) (zlen cps) - ci) * INTERVAL.
Proof.
  intros Hbl Hlast Hq Hfv.
  assert (Hne : qs <> []) by (intros ->; discriminate).
  destruct (setup_facts _ _ _ _ Hbl Hlast Hq Hne) as (Hpos & Hncp & Hql & Hinc & Hlt & Hsi).
  destruct (fv_Some genesis cps qs Hql _ _ _ Hfv) as (ar & stop & Hin & Hdl & -> & Hz & _).
  apply delivers_spec in Hdl as (ci' & stop' & Hz' & _ & _ & Hl & _).
  rewrite Hz in Hz'. injection Hz' as <- <-.
  apply zget_Some in Hz as [Hk Hlk]; [|exact Hql].
  pose proof (incr_lookup _ _ _ _ Hinc Hlk) as Hge. cbn [fst] in Hge.
  apply elem_of_list_lookup_2, elem_of_list_In in Hlk. apply Hlt in Hlk. cbn [fst] in Hlk.
  split; [lia|]. rewrite Hl. unfold nci_of, CPQ. f_equal. lia.
Qed.

Theorem checkpointed_order_independent genesis a cps ars bans a' pan curHdr qs fuel :
  (* the model bound on the number of block headers; no u32 wraps below it *)
  zlen (abl a) < 1000000 ->
  last (afl a) = Some curHdr ->
  mk_queries (S (length cps)) a (zlen cps) ((zlen (afl a) - 1) / INTERVAL) = Some qs ->
  (length cps < fuel)%nat ->
  get_checkpointed H genesis a cps ars = (bans, a', pan) ->
  forall sa tips sp,
  seq_write fuel (fv genesis cps qs ars) true a curHdr (zlen (afl a) - 1) ((zlen (afl a) - 1) / INTERVAL)
    = (sa, tips, sp) ->
  (* no header written equals the initial tip header (a hash collision): the
     code recognises the first batch by comparing header values *)
  ~ In curHdr tips ->
  a' = sa /\ pan = sp.
Proof.
  intros Hbl Hlast Hq Hfuel Hg sa tips sp Hs Hnc.
  unfold get_checkpointed in Hg. rewrite Hlast in Hg. cbv zeta in Hg. rewrite Hq in Hg.
  destruct qs as [|q qs'] eqn:Eqs.
  { injection Hg as <- <- <-. destruct fuel; cbn in Hs; injection Hs as <- <- <-; done. }
  rewrite <- Eqs in *.
  assert (Hne : qs <> []) by (rewrite Eqs; discriminate).
  replace (match qs with [] => ([], a, false) | _ :: _ =>
             let '(bans0, ds) := dispatch H genesis cps qs ars [] in
             (bans0, w_a (fold_left (consume H curHdr (zlen cps)) ds
                {| w_a := a; w_curHdr := curHdr; w_curH := zlen (afl a) - 1;
                   w_interval := (zlen (afl a) - 1) / INTERVAL; w_cache := []; w_panic := false; w_done := false |}),
              w_panic (fold_left (consume H curHdr (zlen cps)) ds
                {| w_a := a; w_curHdr := curHdr; w_curH := zlen (afl a) - 1;
                   w_interval := (zlen (afl a) - 1) / INTERVAL; w_cache := []; w_panic := false; w_done := false |}))
           end)
    with (let '(bans0, ds) := dispatch H genesis cps qs ars [] in
             (bans0, w_a (fold_left (consume H curHdr (zlen cps)) ds
                {| w_a := a; w_curHdr := curHdr; w_curH := zlen (afl a) - 1;
                   w_interval := (zlen (afl a) - 1) / INTERVAL; w_cache := []; w_panic := false; w_done := false |}),
              w_panic (fold_left (consume H curHdr (zlen cps)) ds
                {| w_a := a; w_curHdr := curHdr; w_curH := zlen (afl a) - 1;
                   w_interval := (zlen (afl a) - 1) / INTERVAL; w_cache := []; w_panic := false; w_done := false |})))
    in Hg by (rewrite Eqs; reflexivity).
  clear Eqs q qs'.
  destruct (dispatch H genesis cps qs ars []) as [bans0 ds] eqn:Ed.
  injection Hg as <- <- <-.
  destruct (setup_facts _ _ _ _ Hbl Hlast Hq Hne) as (Hpos & Hncp & Hql & Hinc & Hlt & Hsi).
  pose proof (writer_correct (fv genesis cps qs ars) (zlen cps) a curHdr (zlen (afl a) - 1)
                ((zlen (afl a) - 1) / INTERVAL) fuel sa tips sp) as HW.
  cbv zeta in HW. destruct (HW) with (ds := ds) as [Ha Hp]; try assumption; try reflexivity.
  - intros ci r Hfv. destruct (fv_props _ _ _ _ _ _ _ _ Hbl Hlast Hq Hfv) as [Hci Hl].
    unfold INTERVAL in Hl. split; lia.
  - unfold zlen in *. lia.
  - intros ci r. eapply dispatch_fv; eassumption.
  - by split.
Qed.

(* ---------- (a), (b): what is written ---------- *)
(* [writes a ms a']: a' is reached from a by successful writeCFHeadersMsg
   calls with the messages ms, in order *)
Inductive writes : alog2 -> list cfmsg -> alog2 -> Prop :=
| writes_nil a : writes a [] a
| writes_cons a m a1 hd ht ms a' :
    awrite_cf H a m = (a1, Some (hd, ht)) -> writes a1 ms a' -> writes a (m :: ms) a'.

Lemma writes_snoc a ms a1 m a2 hd ht :
  writes a ms a1 -> awrite_cf H a1 m = (a2, Some (hd, ht)) -> writes a (ms ++ [m]) a2.
Proof.
  induction 1 as [a|a m0 a1 hd0 ht0 ms a' Hw Hws IH]; intros Hw2; cbn.
  - econstructor; [exact Hw2|constructor].
  - econstructor; [exact Hw|]. by apply IH.
Qed.

Lemma writes_spec a ms a' : writes a ms a' ->
  abl a' = abl a /\
  afl a' = afl a ++ List.concat (List.map (fun m => chain_from H (m_prev m) (m_hashes m)) ms).
Proof.
  induction 1 as [a|a m a1 hd ht ms a' Hw Hws [IH1 IH2]]; cbn [List.map List.concat].
  - by rewrite app_nil_r.
  - destruct (awrite_cf_ok H _ _ _ _ _ Hw) as (Hb & Hf & _). split; [congruence|].
    rewrite IH2, Hf, <- app_assoc. reflexivity.
Qed.

(* every batch names the tip at that time as its previous header, is
   non-empty, and ends exactly at the height of its stop hash *)
Lemma writes_each a ms a' : writes a ms a' -> forall ms1 m ms2, ms = ms1 ++ m :: ms2 ->
  exists a1 a2 hd ht, writes a ms1 a1 /\ awrite_cf H a1 m = (a2, Some (hd, ht)) /\ writes a2 ms2 a' /\
    last (afl a1) = Some (m_prev m) /\ m_hashes m <> [] /\
    afl a2 = afl a1 ++ chain_from H (m_prev m) (m_hashes m) /\
    index_of2 (m_stop m) (abl a) 0 = Some (zlen (afl a2) - 1).
Proof.
  induction 1 as [a|a m0 a1 hd ht ms a' Hw Hws IH]; intros ms1 m ms2 E.
  - destruct ms1; discriminate.
  - destruct ms1 as [|m1 ms1]; cbn in E; injection E as -> ->.
    + destruct (awrite_cf_ok H _ _ _ _ _ Hw) as (Hb & Hf & Hl & Hn & Hht & Hix & _).
      exists a, a1, hd, ht. repeat split; try assumption; [constructor|congruence].
    + destruct (IH _ _ _ eq_refl) as (b1 & b2 & hd' & ht' & Hw1 & Hw2 & Hw3 & Hl & Hn & Hf & Hix).
      destruct (awrite_cf_ok H _ _ _ _ _ Hw) as (Hb & _).
      exists b1, b2, hd', ht'. repeat split; try assumption; [econstructor; eassumption|congruence].
Qed.

Lemma disp_sound genesis cps qs ars : forall done d,
  In d (snd (dispatch H genesis cps qs ars done)) ->
  exists ar b, In ar ars /\ handle_response H genesis cps qs ar = (b, Some d).
Proof.
  induction ars as [|ar rest IH]; intros done d; [intros []|].
  cbn [dispatch]. destruct (mem (a_q ar) done).
  { intros Hd. destruct (IH _ _ Hd) as (x & b & Hx & Hh). exists x, b. split; [by right|exact Hh]. }
  destruct (handle_response H genesis cps qs ar) as [ban [d0|]] eqn:Eh.
  - specialize (IH (a_q ar :: done) d).
    destruct (dispatch H genesis cps qs rest (a_q ar :: done)) as [bs ds]. cbn [snd] in *.
    intros [<-|Hd]; [exists ar, ban; split; [by left|exact Eh]|].
    destruct (IH Hd) as (x & b & Hx & Hh). exists x, b. split; [by right|exact Hh].
  - specialize (IH done d).
    destruct (dispatch H genesis cps qs rest done) as [bs ds]. cbn [snd] in *.
    intros Hd. destruct (IH Hd) as (x & b & Hx & Hh). exists x, b. split; [by right|exact Hh].
Qed.

Section Unc.
Variables (a0 : alog2) (D : list (Z * cfmsg)) (initial ncp : Z).

Definition fromD (m : cfmsg) : Prop :=
  exists ci r, In (ci, r) D /\ (m = r \/ exists prev off, m = trim prev off r).

Definition uinv (w : wst) : Prop :=
  (exists ms, writes a0 ms (w_a w) /\ forall m, In m ms -> fromD m) /\
  (forall p, In p (w_cache w) -> In p D).

Lemma drain_uinv outer : forall fuel w, uinv w -> uinv (drain H fuel initial outer w).
Proof.
  induction fuel as [|fuel IH]; intros w HU; [exact HU|]. cbn [drain].
  destruct (List.find (fun p => fst p =? w_interval w) (w_cache w)) as [[c r]|] eqn:Ef; [|exact HU].
  apply find_some in Ef as [Hin _].
  destruct HU as [(ms & Hws & Hms) Hc].
  match goal with |- context [awrite_cf H (w_a w) ?X] => set (rr := X) end.
  assert (Hrr : fromD rr).
  { exists c, r. split; [by apply Hc|]. unfold rr.
    destruct (w_curHdr w =? initial); [right; eexists _, _; reflexivity|by left]. }
  destruct (awrite_cf H (w_a w) rr) as [a1 [[hd ht]|]] eqn:Ew.
  - apply IH. split; cbn [w_a w_cache].
    + exists (ms ++ [rr]). split; [eapply writes_snoc; eassumption|].
      intros m Hm. apply in_app_or in Hm as [Hm|[<-|[]]]; [by apply Hms|exact Hrr].
    + intros p Hp. apply filter_In in Hp as [Hp _]. by apply Hc.
  - split; cbn [w_a w_cache].
    + by exists ms.
    + intros p Hp. apply filter_In in Hp as [Hp _]. by apply Hc.
Qed.

Lemma consume_uinv w d : In d D -> uinv w -> uinv (consume H initial ncp w d).
Proof.
  intros Hd HU. unfold consume. destruct (w_done w); [exact HU|]. destruct d as [ci r].
  destruct (u32 (u32 (ci * INTERVAL + 1) + zlen (m_hashes r) - 1) <=? w_curH w); [exact HU|].
  match goal with |- context [drain H ?f initial ?o ?w0] =>
    set (w1 := drain H f initial o w0); assert (H1 : uinv w1) end.
  { apply drain_uinv. destruct HU as [Hms Hc]. split; cbn [w_a w_cache]; [exact Hms|].
    intros p [<-|Hp]; [exact Hd|]. apply filter_In in Hp as [Hp _]. by apply Hc. }
  destruct (w_panic w1); [exact H1|]. destruct H1 as [Hms Hc]. split; cbn [w_a w_cache]; assumption.
Qed.

Lemma fold_uinv ds : forall w, (forall d, In d ds -> In d D) -> uinv w ->
  uinv (fold_left (consume H initial ncp) ds w).
Proof.
  induction ds as [|d ds IH]; intros w Hds HU; cbn [fold_left]; [exact HU|].
  apply IH; [intros x Hx; apply Hds; by right|]. apply consume_uinv; [apply Hds; by left|exact HU].
Qed.
End Unc.

(* (a) + (b), for every arrival list, panic or not, no hypothesis *)
Theorem checkpointed_writes_verified genesis a cps ars bans a' pan :
  get_checkpointed H genesis a cps ars = (bans, a', pan) ->
  exists ms, writes a ms a' /\
    forall m, In m ms -> exists qs ar,
      mk_queries (S (length cps)) a (zlen cps) ((zlen (afl a) - 1) / INTERVAL) = Some qs /\
      In ar ars /\ delivers genesis cps qs ar = true /\
      (m = a_msg ar \/ exists prev off, m = trim prev off (a_msg ar)).
Proof.
  unfold get_checkpointed. intros Hg.
  destruct (last (afl a)) as [curHdr|]; [|injection Hg as _ <- _; exists []; split; [constructor|intros m []]].
  cbv zeta in Hg.
  destruct (mk_queries (S (length cps)) a (zlen cps) ((zlen (afl a) - 1) / INTERVAL)) as [qs|] eqn:Eq;
    [|injection Hg as _ <- _; exists []; split; [constructor|intros m []]].
  destruct qs as [|q qs'] eqn:Eqs; [injection Hg as _ <- _; exists []; split; [constructor|intros m []]|].
  rewrite <- Eqs in *. clear Eqs.
  destruct (dispatch H genesis cps qs ars []) as [bans0 ds] eqn:Ed.
  injection Hg as _ <- _.
  match goal with |- context [fold_left ?f ds ?w0] =>
    pose proof (fold_uinv a ds curHdr (zlen cps) ds w0 (fun d Hd => Hd)) as HU end.
  destruct HU as [(ms & Hws & Hms) _].
  { split; cbn [w_a w_cache]; [|intros p []]. exists []. split; [constructor|intros m []]. }
  exists ms. split; [exact Hws|]. intros m Hm. destruct (Hms m Hm) as (ci & r & Hin & Hmr).
  pose proof (disp_sound genesis cps qs ars [] (ci, r)) as Hsd. rewrite Ed in Hsd.
  destruct (Hsd Hin) as (ar & b & Har & Hh).
  exists qs, ar. split; [reflexivity|]. split; [exact Har|].
  split; [unfold delivers; rewrite Hh; reflexivity|].
  destruct (hr_Some _ _ _ _ _ _ Hh) as (ci0 & stop & _ & [= <- <-] & _). exact Hmr.
Qed.

Corollary checkpointed_writes_chain genesis a cps ars bans a' pan :
  get_checkpointed H genesis a cps ars = (bans, a', pan) ->
  exists ms, writes a ms a' /\ abl a' = abl a /\
    afl a' = afl a ++ List.concat (List.map (fun m => chain_from H (m_prev m) (m_hashes m)) ms).
Proof.
  intros Hg. destruct (checkpointed_writes_verified _ _ _ _ _ _ _ Hg) as (ms & Hws & _).
  exists ms. split; [exact Hws|]. by apply writes_spec.
Qed.

Definition checkpointed_only_verified := checkpointed_writes_verified.

Corollary checkpointed_writes_full genesis a cps ars bans a' pan :
  get_checkpointed H genesis a cps ars = (bans, a', pan) ->
  exists ms, writes a ms a' /\
    abl a' = abl a /\
    afl a' = afl a ++ List.concat (List.map (fun m => chain_from H (m_prev m) (m_hashes m)) ms) /\
    forall m, In m ms -> exists qs ar,
      mk_queries (S (length cps)) a (zlen cps) ((zlen (afl a) - 1) / INTERVAL) = Some qs /\
      In ar ars /\ delivers genesis cps qs ar = true /\
      (m = a_msg ar \/ exists prev off, m = trim prev off (a_msg ar)).
Proof.
  intros Hg. destruct (checkpointed_writes_verified genesis a cps ars bans a' pan Hg) as (ms & Hw & Hm).
  exists ms. destruct (writes_spec a ms a' Hw) as [Hb Hf]. auto.
Qed.


(* ---------- (c): rejected answers ---------- *)
Theorem checkpointed_rejects genesis a cps l1 ar l2 bans a' pan curHdr qs ci stop :
  last (afl a) = Some curHdr ->
  mk_queries (S (length cps)) a (zlen cps) ((zlen (afl a) - 1) / INTERVAL) = Some qs ->
  get_checkpointed H genesis a cps (l1 ++ ar :: l2) = (bans, a', pan) ->
  zget qs (a_q ar) = Some (ci, stop) -> a_reg ar = true -> m_stop (a_msg ar) = stop ->
  (* the request has no delivered arrival before ar *)
  (forall x, In x l1 -> a_q x = a_q ar -> delivers genesis cps qs x = false) ->
  zlen (m_hashes (a_msg ar)) <> (nci_of cps ci - ci + 1) * INTERVAL \/
  verify_checkpoint H (prevcp_of genesis cps ci) (default 0 (zget cps (nci_of cps ci))) (a_msg ar) = false ->
  In (a_peer ar) bans /\ delivers genesis cps qs ar = false.
Proof.
  intros Hlast Hq Hg Hz Hr Hs Hno Hf.
  pose proof (hr_reject genesis cps qs ar ci stop Hz Hr Hs Hf) as Hh.
  split; [|unfold delivers; rewrite Hh; reflexivity].
  unfold get_checkpointed in Hg. rewrite Hlast in Hg. cbv zeta in Hg. rewrite Hq in Hg.
  destruct qs as [|q qs'] eqn:Eqs.
  { exfalso. unfold zget in Hz. destruct ((0 <=? a_q ar) && (a_q ar <? zlen [])); discriminate. }
  rewrite <- Eqs in *. clear Eqs.
  pose proof (disp_bans genesis cps qs ar l2 l1 [] eq_refl Hno Hh) as Hb.
  destruct (dispatch H genesis cps qs (l1 ++ ar :: l2) []) as [bans0 ds].
  injection Hg as <- _ _. exact Hb.
Qed.

(* ---------- (d): completeness ---------- *)
(* seq_write only appends *)
Lemma seq_write_mono T fuel : forall first a hdr curH iv sa tips sp,
  seq_write fuel T first a hdr curH iv = (sa, tips, sp) -> zlen (afl a) <= zlen (afl sa).
Proof.
  induction fuel as [|fuel IH]; intros first a hdr curH iv sa tips sp Hs; cbn [seq_write] in Hs.
  - injection Hs as <- _ _. lia.
  - destruct (T iv) as [r|]; [|injection Hs as <- _ _; lia].
    cbv zeta in Hs.
    match type of Hs with context [awrite_cf H a ?X] => destruct (awrite_cf H a X) as [a1 [[hd ht]|]] eqn:Ew end;
      [|injection Hs as <- _ _; lia].
    destruct (seq_write fuel T false a1 hd ht (ht / INTERVAL)) as [[a2 t] p] eqn:Es. injection Hs as <- _ _.
    apply IH in Es. destruct (awrite_cf_ok H _ _ _ _ _ Ew) as (_ & Hf & _).
    assert (zlen (afl a) <= zlen (afl a1)) by (rewrite Hf; unfold zlen; rewrite app_length; lia). lia.
Qed.

(* if the entries for the intervals c k, c (k+1), ... are there and each ends
   where the next begins, a run without panic writes all of them *)
Lemma seq_write_reach T (c : nat -> Z) : forall (n k fuel : nat) a hd curH sa tips,
  (forall i, (k <= i < k + n)%nat ->
     exists r, T (c i) = Some r /\ zlen (m_hashes r) = (c (S i) - c i) * INTERVAL) ->
  curH = c k * INTERVAL -> curH = zlen (afl a) - 1 -> (n <= fuel)%nat ->
  seq_write fuel T false a hd curH (c k) = (sa, tips, false) ->
  c (k + n)%nat * INTERVAL <= zlen (afl sa) - 1.
Proof.
  induction n as [|n IH]; intros k fuel a hd curH sa tips HT Hc Ha Hf Hs.
  - apply seq_write_mono in Hs. rewrite Nat.add_0_r. lia.
  - destruct fuel as [|fuel]; [lia|]. cbn [seq_write] in Hs.
    destruct (HT k ltac:(lia)) as (r & HTk & Hl). rewrite HTk in Hs. cbv zeta in Hs.
    destruct (awrite_cf H a r) as [a1 [[hd1 ht]|]] eqn:Ew; [|discriminate].
    destruct (seq_write fuel T false a1 hd1 ht (ht / INTERVAL)) as [[a2 t] p] eqn:Es.
    injection Hs as <- _ ->.
    destruct (awrite_cf_ok H _ _ _ _ _ Ew) as (_ & Hfl & _ & _ & Hht & _).
    assert (Hz : zlen (afl a1) = zlen (afl a) + zlen (m_hashes r)).
    { rewrite Hfl. unfold zlen. rewrite app_length, chain_from_length. lia. }
    unfold INTERVAL in *.
    assert (Hht' : ht = c (S k) * 1000) by lia.
    assert (Hiv : ht / 1000 = c (S k)) by (rewrite Hht'; apply Z.div_mul; discriminate).
    rewrite Hiv in Es.
    replace (k + S n)%nat with (S k + n)%nat by lia.
    eapply (IH (S k)); [|exact Hht'|exact Hht| |exact Es]; [|lia].
    intros i Hi. apply HT. lia.
Qed.

(* the checkpoint index of request k (ncp behind the last request) *)
Definition cseq (qs : list (Z * Z)) (ncp : Z) (k : nat) : Z :=
  match qs !! k with Some q => fst q | None => ncp end.

Lemma mk_queries_nil a ncp fuel cur :
  mk_queries fuel a ncp cur = Some [] -> ncp - cur < Z.of_nat fuel -> ncp <= cur.
Proof.
  destruct fuel as [|fuel]; [lia|]. cbn [mk_queries]. intros Hq _.
  destruct (cur <? ncp) eqn:E; [|lia].
  destruct (zget (abl a) (Z.min (cur + CPQ) ncp * INTERVAL)); [|discriminate].
  destruct (mk_queries fuel a ncp (Z.min (cur + CPQ) ncp)); discriminate.
Qed.

Lemma mk_queries_seq a ncp fuel : forall cur qs,
  mk_queries fuel a ncp cur = Some qs -> ncp - cur < Z.of_nat fuel ->
  (qs <> [] -> cseq qs ncp 0 = cur) /\
  (forall k q, qs !! k = Some q -> cseq qs ncp (S k) = Z.min (fst q + 2) ncp).
Proof.
  induction fuel as [|fuel IH]; intros cur qs Hq Hf; cbn [mk_queries] in Hq.
  - injection Hq as <-. split; [done|]. intros k q Hk. destruct k; discriminate.
  - destruct (cur <? ncp) eqn:Ec.
    2:{ injection Hq as <-. split; [done|]. intros k q Hk. destruct k; discriminate. }
    apply Z.ltb_lt in Ec.
    destruct (zget (abl a) (Z.min (cur + CPQ) ncp * INTERVAL)) as [stop|]; [|discriminate].
    destruct (mk_queries fuel a ncp (Z.min (cur + CPQ) ncp)) as [r|] eqn:Er; [|discriminate].
    injection Hq as <-. unfold CPQ in *.
    split; [intros _; reflexivity|].
    assert (Hf' : ncp - Z.min (cur + 2) ncp < Z.of_nat fuel \/ (Z.min (cur + 2) ncp = ncp /\ fuel = 0%nat)) by lia.
    intros k q Hk. destruct k as [|k]; cbn in Hk.
    + injection Hk as <-. cbn [fst]. unfold cseq. cbn [lookup list_lookup].
      change (((cur, stop) :: r) !! 1%nat) with (r !! 0%nat).
      destruct r as [|q1 r1] eqn:Err; [cbn|].
      * destruct Hf' as [Hf'|[Hf' _]]; [|lia]. pose proof (mk_queries_nil _ _ _ _ Er Hf'). lia.
      * rewrite <- Err in *. destruct Hf' as [Hf'|[_ ->]]; [|cbn in Er; congruence].
        destruct (IH _ _ Er Hf') as [IH1 _]. unfold cseq in IH1. apply IH1. rewrite Err. discriminate.
    + unfold cseq. change (((cur, stop) :: r) !! S (S k)) with (r !! S k).
      destruct Hf' as [Hf'|[_ ->]]; [|cbn in Er; injection Er as <-; discriminate].
      destruct (IH _ _ Er Hf') as [_ IH2]. apply (IH2 k q Hk).
Qed.

Theorem checkpointed_complete genesis a cps ars bans a' curHdr qs (j : nat) cj stopj :
  zlen (abl a) < 1000000 ->
  last (afl a) = Some curHdr ->
  mk_queries (S (length cps)) a (zlen cps) ((zlen (afl a) - 1) / INTERVAL) = Some qs ->
  get_checkpointed H genesis a cps ars = (bans, a', false) ->
  ~ In curHdr (snd (fst (seq_write (S (length cps)) (fv genesis cps qs ars) true a curHdr
                           (zlen (afl a) - 1) ((zlen (afl a) - 1) / INTERVAL)))) ->
  qs !! j = Some (cj, stopj) ->
  (forall k, (k <= j)%nat -> first_ok genesis cps qs ars (Z.of_nat k) <> None) ->
  Z.min (cj + 2) (zlen cps) * INTERVAL <= zlen (afl a') - 1.
Proof.
  intros Hbl Hlast Hq Hg Hnc Hj Hall.
  set (T := fv genesis cps qs ars) in *.
  set (curH := zlen (afl a) - 1) in *. set (si := curH / INTERVAL) in *.
  destruct (seq_write (S (length cps)) T true a curHdr curH si) as [[sa tips] sp] eqn:Es.
  cbn [fst snd] in Hnc.
  destruct (checkpointed_order_independent genesis a cps ars bans a' false curHdr qs (S (length cps))
              Hbl Hlast Hq ltac:(lia) Hg sa tips sp Es Hnc) as [-> <-].
  assert (Hne : qs <> []) by (intros ->; discriminate).
  destruct (setup_facts _ _ _ _ Hbl Hlast Hq Hne) as (Hpos & Hncp & Hql & Hinc & Hlt & Hsi).
  fold curH in Hpos, Hinc, Hsi. fold si in Hinc, Hsi.
  destruct (mk_queries_props _ _ _ _ _ Hq) as (Hlen & _ & _).
  destruct (mk_queries_seq _ _ _ _ _ Hq ltac:(unfold zlen in *; lia)) as [Hc0 Hcs].
  specialize (Hc0 Hne).
  pose proof (lookup_lt_Some _ _ _ Hj) as Hjl.
  set (c := cseq qs (zlen cps)) in *.
  (* every request up to j has its table entry, of the right length *)
  assert (HTk : forall k, (k <= j)%nat ->
            exists r, T (c k) = Some r /\ zlen (m_hashes r) = (c (S k) - c k) * INTERVAL /\ c k < c (S k)).
  { intros k Hk. destruct (lookup_lt_is_Some_2 qs k ltac:(lia)) as [[ck sk] Hlk].
    assert (Hck : c k = ck) by (unfold c, cseq; rewrite Hlk; reflexivity).
    assert (Hz : zget qs (Z.of_nat k) = Some (ck, sk)).
    { apply zget_Some; [exact Hql|]. rewrite Nat2Z.id. split; [unfold zlen; lia|exact Hlk]. }
    pose proof (zget_qindex _ _ Hql Hinc _ _ _ Hz) as Hqi.
    specialize (Hall k Hk). destruct (first_ok genesis cps qs ars (Z.of_nat k)) as [ar|] eqn:Ef; [|contradiction].
    assert (HTc : T ck = Some (a_msg ar)) by (unfold T, fv; rewrite Hqi, Ef; reflexivity).
    exists (a_msg ar). rewrite Hck. split; [exact HTc|].
    destruct (fv_props _ _ _ _ _ _ _ _ Hbl Hlast Hq HTc) as [Hci Hl].
    rewrite (Hcs k _ Hlk). cbn [fst]. split; [exact Hl|lia]. }
  (* the first, trimmed, write *)
  cbn [seq_write] in Es. destruct (HTk 0%nat ltac:(lia)) as (r0 & HT0 & Hl0 & Hlt0).
  rewrite Hc0 in HT0, Hl0, Hlt0. rewrite HT0 in Es. cbv zeta in Es.
  match type of Es with context [awrite_cf H a ?X] => set (rr := X) in *;
    destruct (awrite_cf H a rr) as [a1 [[hd ht]|]] eqn:Ew end; [|discriminate].
  destruct (seq_write (length cps) T false a1 hd ht (ht / INTERVAL)) as [[a2 t] p] eqn:Es1.
  injection Es as <- _ ->.
  destruct (write_advance true a curHdr curH si r0 rr a1 hd ht Ew eq_refl eq_refl Hpos eq_refl ltac:(lia))
    as (Hht & _ & _ & Hf1 & _).
  { unfold INTERVAL in *. lia. }
  specialize (Hf1 eq_refl).
  assert (Hht' : ht = c 1%nat * INTERVAL) by (unfold INTERVAL in *; lia).
  assert (Hiv : ht / INTERVAL = c 1%nat) by (rewrite Hht'; apply Z.div_mul; discriminate).
  rewrite Hiv in Es1.
  pose proof (seq_write_reach T c j 1 (length cps) a1 hd ht a2 t) as HR.
  replace (1 + j)%nat with (S j) in HR by lia.
  assert (Hcj : c (S j) = Z.min (cj + 2) (zlen cps)) by (rewrite (Hcs j _ Hj); reflexivity).
  rewrite <- Hcj. apply HR; [|exact Hht'|exact Hht|lia|exact Es1].
  intros i Hi. destruct (HTk i ltac:(lia)) as (r & Hr1 & Hr2 & _). by exists r.
Qed.
End C.

(* ---------- (e): a concrete run (non-vacuity) ---------- *)
Module Ex.
Definition H0 (fh prev : Z) : Z := (fh + 7 * prev) mod 1000003.
Definition g : Z := 5.                                   (* genesis filter header *)
Definition a0 : alog2 := {| abl := List.map Z.of_nat (seq 100 3001); afl := [g] |}.
Definition fhs (from n : nat) : list Z := List.map (fun i => Z.of_nat i + 1000) (seq from n).
Definition c1 : Z := chain_last H0 g (fhs 1 1000).
Definition c2 : Z := chain_last H0 g (fhs 1 2000).
Definition c3 : Z := chain_last H0 c2 (fhs 2001 1000).
Definition cps : list Z := [c1; c2; c3].
Definition mA : cfmsg := {| m_prev := g; m_stop := 2100; m_hashes := fhs 1 2000 |}.
Definition mB : cfmsg := {| m_prev := c2; m_stop := 3100; m_hashes := fhs 2001 1000 |}.
Definition mShort : cfmsg := {| m_prev := g; m_stop := 2100; m_hashes := fhs 1 1000 |}.
Definition mLie : cfmsg := {| m_prev := g; m_stop := 2100; m_hashes := fhs 2 2000 |}.
Definition arr q p m : arrival := {| a_q := q; a_peer := p; a_reg := true; a_msg := m |}.
(* request 1 answered first; a short answer and a lying answer to request 0
   (both banned); then the good answer; then a late lying duplicate (ignored) *)
Definition ars1 : list arrival :=
  [arr 1 2 mB; arr 0 9 mShort; arr 0 8 mLie; arr 0 1 mA; arr 0 3 mLie; arr 1 4 mB].
Definition ars2 : list arrival := [arr 0 1 mA; arr 1 2 mB].

Lemma ex_run :
  (let '(bans, a', pan) := get_checkpointed H0 g a0 cps ars1 in
   (bans, pan, zlen (afl a'), last (afl a'))) = ([9; 8], false, 3001, Some c3).
Proof. vm_compute. reflexivity. Qed.

Lemma ex_order_independent :
  (let r := get_checkpointed H0 g a0 cps ars1 in (snd (fst r), snd r)) =
  (let r := get_checkpointed H0 g a0 cps ars2 in (snd (fst r), snd r)).
Proof. vm_compute. reflexivity. Qed.

(* the hypotheses of the main theorem hold for this run *)
Lemma ex_hypotheses :
  (zlen (abl a0) <? 1000000) = true /\
  (let '(_, tips, sp) :=
     seq_write H0 4 (fv H0 g cps [(0, 2100); (2, 3100)] ars1) true a0 g 0 0 in
   (mem g tips, length tips, sp)) = (false, 2%nat, false) /\
  mk_queries 4 a0 3 0 = Some [(0, 2100); (2, 3100)].
Proof. vm_compute. repeat split. Qed.
End Ex.

Print Assumptions checkpointed_order_independent.
Print Assumptions checkpointed_writes_verified.
Print Assumptions checkpointed_writes_chain.
Print Assumptions checkpointed_writes_full.
Print Assumptions writes_spec.
Print Assumptions writes_each.
Print Assumptions delivers_spec.
Print Assumptions checkpointed_rejects.
Print Assumptions checkpointed_complete.
Print Assumptions Ex.ex_run.
Print Assumptions Ex.ex_order_independent.
Print Assumptions Ex.ex_hypotheses.
