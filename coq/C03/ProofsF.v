(* C03 — the replay's index enumeration [fast_ix] (only the indices at which
   some accepted answer differs from the first one) gives the same result as
   the code's [full_ix] (every index 0..n-1). *)
From stdpp Require Import gmap list.
From Coq Require Import ZArith Lia.
From Verif Require Import S1.Model C03.Model.
Open Scope Z_scope.

(* ---------- small facts ---------- *)

Lemma zn_lt z : Z.of_nat (zn z) < 1000000.
Proof.
  unfold zn. destruct ((0 <=? z) && (z <? 1000000)) eqn:E; [|lia].
  apply andb_true_iff in E as [E1 E2].
  apply Z.leb_le in E1. apply Z.ltb_lt in E2. lia.
Qed.

Lemma zn_of_nat (i : nat) : Z.of_nat i < 1000000 -> zn (Z.of_nat i) = i.
Proof.
  intros Hi. unfold zn.
  destruct ((0 <=? Z.of_nat i) && (Z.of_nat i <? 1000000)) eqn:E.
  - apply Nat2Z.id.
  - apply andb_false_iff in E as [E|E].
    + apply Z.leb_gt in E. lia.
    + apply Z.ltb_ge in E. lia.
Qed.

Lemma zget_of_nat {A} (l : list A) (i : nat) x :
  Z.of_nat i < 1000000 -> zget l (Z.of_nat i) = Some x -> l !! i = Some x.
Proof.
  intros Hi Hg. unfold zget in Hg.
  destruct ((0 <=? Z.of_nat i) && (Z.of_nat i <? zlen l)); [|discriminate].
  rewrite zn_of_nat in Hg by exact Hi. exact Hg.
Qed.

Lemma memn_In i d : memn i d = true <-> In i d.
Proof.
  unfold memn. rewrite existsb_exists. split.
  - intros (x & Hx & He). apply Nat.eqb_eq in He. subst. exact Hx.
  - intros Hx. exists i. split; [exact Hx|apply Nat.eqb_refl].
Qed.

Lemma filter_memn_nil (l : list nat) : List.filter (fun i => memn i []) l = [].
Proof. induction l as [|a l IH]; [reflexivity|]. cbn. exact IH. Qed.

Lemma fast_ix_filter hs n :
  fast_ix hs n = List.filter (fun i => memn i (diff_idxs hs)) (seq 0 (zn n)).
Proof.
  unfold fast_ix. destruct (diff_idxs hs) as [|a d] eqn:E; [|reflexivity].
  symmetry. apply filter_memn_nil.
Qed.

(* ---------- accepted answers all have n hashes ---------- *)

Definition all_len (k : nat) (hs : list (Z * cfmsg)) : Prop :=
  forall p, In p hs -> length (m_hashes (snd p)) = k.

Lemma accept_len stop n raws seen : all_len (Z.to_nat n) (accept stop n raws seen).
Proof.
  revert seen. induction raws as [|r rest IH]; intros seen p Hp.
  - destruct Hp.
  - cbn [accept] in Hp.
    destruct (negb (mem (r_peer r) seen) && r_reg r && (m_stop (r_msg r) =? stop)
              && (zlen (m_hashes (r_msg r)) =? n)) eqn:E.
    + destruct Hp as [Hp|Hp].
      * subst p. cbn [snd].
        apply andb_true_iff in E as [_ E]. apply Z.eqb_eq in E.
        unfold zlen in E. lia.
      * exact (IH _ _ Hp).
    + exact (IH _ _ Hp).
Qed.

Lemma get_headers_len v h raws hs n :
  get_headers v h raws = (hs, n) -> all_len (Z.to_nat n) hs.
Proof.
  unfold get_headers. intros Hg.
  destruct (cf_range v h) as [[stop m]|].
  - inversion Hg; subst. apply accept_len.
  - inversion Hg; subst. intros p [].
Qed.

Lemma remove_peers_In {A} bad (l : list (Z * A)) p : In p (remove_peers bad l) -> In p l.
Proof. unfold remove_peers. intros Hp. apply filter_In in Hp. tauto. Qed.

Lemma remove_peers_len bad k hs : all_len k hs -> all_len k (remove_peers bad hs).
Proof. intros Hl p Hp. apply Hl. eapply remove_peers_In, Hp. Qed.

(* ---------- diff_walk finds every differing position ---------- *)

Lemma diff_walk_In a : forall b k j x y,
  a !! j = Some x -> b !! j = Some y -> x <> y -> In (k + j)%nat (diff_walk k a b).
Proof.
  induction a as [|x0 a IH]; intros b k j x y Ha Hb Hne.
  - destruct j; discriminate.
  - destruct b as [|y0 b]; [destruct j; discriminate|].
    cbn [diff_walk]. apply in_or_app.
    destruct j as [|j].
    + cbn in Ha, Hb. inversion Ha; inversion Hb; subst.
      left. destruct (x =? y) eqn:E.
      * apply Z.eqb_eq in E. contradiction.
      * replace (k + 0)%nat with k by lia. left. reflexivity.
    + right. cbn in Ha, Hb.
      replace (k + S j)%nat with (S k + j)%nat by lia.
      eapply IH; eauto.
Qed.

(* ---------- a mismatch means two different present values ---------- *)

Lemma all_eq_false l : all_eq l = false -> exists x y, In x l /\ In y l /\ x <> y.
Proof.
  destruct l as [|v r]; [discriminate|]. cbn [all_eq]. intros Hf.
  assert (Hex : exists y, In y r /\ (v =? y) = false).
  { induction r as [|a r IH]; [discriminate|].
    cbn [forallb] in Hf. apply andb_false_iff in Hf as [Hf|Hf].
    - exists a. split; [left; reflexivity|exact Hf].
    - destruct (IH Hf) as (y & Hy & Hv). exists y. split; [right; exact Hy|exact Hv]. }
  destruct Hex as (y & Hy & Hv). apply Z.eqb_neq in Hv.
  exists v, y. split; [left; reflexivity|]. split; [right; exact Hy|exact Hv].
Qed.

Lemma In_omap {A B} (f : A -> option B) l x :
  In x (omap f l) -> exists p, In p l /\ f p = Some x.
Proof.
  intros Hx. apply elem_of_list_In, elem_of_list_omap in Hx as (p & Hp & Hf).
  exists p. split; [apply elem_of_list_In; exact Hp|exact Hf].
Qed.

Lemma mismatch_in_diff k hs hs' (i : nat) :
  all_len k hs -> (forall p, In p hs' -> In p hs) -> Z.of_nat i < 1000000 ->
  mismatch_at hs' (Z.of_nat i) = true -> In i (diff_idxs hs).
Proof.
  intros Hlen Hsub Hi Hm. unfold mismatch_at in Hm.
  apply negb_true_iff, all_eq_false in Hm as (x & y & Hx & Hy & Hne).
  apply In_omap in Hx as (p & Hp & Hpx). apply In_omap in Hy as (q & Hq & Hqy).
  apply zget_of_nat in Hpx; [|exact Hi]. apply zget_of_nat in Hqy; [|exact Hi].
  apply Hsub in Hp. apply Hsub in Hq.
  destruct hs as [|p0 r]; [destruct Hp|].
  cbn [diff_idxs]. apply in_flat_map.
  assert (Hz : exists z, m_hashes (snd p0) !! i = Some z).
  { apply lookup_lt_is_Some. apply lookup_lt_Some in Hpx.
    rewrite (Hlen p0) by (left; reflexivity). rewrite (Hlen p) in Hpx by exact Hp. exact Hpx. }
  destruct Hz as (z & Hz).
  assert (Hone : forall p1 x1, In p1 (p0 :: r) -> m_hashes (snd p1) !! i = Some x1 -> x1 <> z ->
            exists q1, In q1 r /\ In i (diff_walk 0 (m_hashes (snd p0)) (m_hashes (snd q1)))).
  { intros p1 x1 Hp1 Hx1 Hn1. destruct Hp1 as [Hp1|Hp1].
    - subst p1. rewrite Hz in Hx1. inversion Hx1. subst. contradiction.
    - exists p1. split; [exact Hp1|].
      change i with (0 + i)%nat. eapply diff_walk_In; [exact Hz|exact Hx1|].
      intros Heq. apply Hn1. symmetry. exact Heq. }
  destruct (Z.eq_dec x z) as [Hxz|Hxz].
  - subst z. eapply Hone; [exact Hq|exact Hqy|]. intros Heq. apply Hne. symmetry. exact Heq.
  - eapply Hone; [exact Hp|exact Hpx|exact Hxz].
Qed.

(* ---------- settle_index ---------- *)

Lemma settle_index_nomismatch fuel env startH hs i bans :
  mismatch_at hs i = false ->
  settle_index (S fuel) env startH hs i bans = (Some hs, bans).
Proof. intros Hm. cbn [settle_index]. rewrite Hm. reflexivity. Qed.

Lemma settle_index_sub env startH i : forall fuel hs bans hs' bans',
  settle_index fuel env startH hs i bans = (Some hs', bans') ->
  forall p, In p hs' -> In p hs.
Proof.
  induction fuel as [|fuel IH]; intros hs bans hs' bans' Hs p Hp.
  - cbn [settle_index] in Hs. discriminate.
  - cbn [settle_index] in Hs.
    destruct (mismatch_at hs i).
    + destruct (detect_bad hs i _ _ _ _) as [bad|]; [|discriminate].
      destruct (length (remove_peers bad hs) =? length hs)%nat; [discriminate|].
      eapply remove_peers_In. eapply IH; [exact Hs|exact Hp].
    + inversion Hs; subst. exact Hp.
Qed.

(* ---------- the walk over the filtered index list ---------- *)

Lemma settle_all_filter env startH k hs :
  all_len k hs ->
  forall idxs, (forall i, In i idxs -> Z.of_nat i < 1000000) ->
  forall hs' bans, (forall p, In p hs' -> In p hs) ->
  settle_all env startH hs' (List.filter (fun i => memn i (diff_idxs hs)) idxs) bans
  = settle_all env startH hs' idxs bans.
Proof.
  intros Hlen. induction idxs as [|i rest IH]; intros Hb hs' bans Hsub.
  - reflexivity.
  - assert (Hbr : forall j, In j rest -> Z.of_nat j < 1000000).
    { intros j Hj. apply Hb. right. exact Hj. }
    cbn [List.filter]. destruct (memn i (diff_idxs hs)) eqn:Em.
    + cbn [settle_all].
      destruct (settle_index (S (length hs')) env startH hs' (Z.of_nat i) bans)
        as [[hs''|] bans'] eqn:Es; [|reflexivity].
      apply IH; [exact Hbr|].
      intros p Hp. apply Hsub. eapply settle_index_sub; [exact Es|exact Hp].
    + assert (Hm : mismatch_at hs' (Z.of_nat i) = false).
      { destruct (mismatch_at hs' (Z.of_nat i)) eqn:E; [|reflexivity].
        assert (Hin : In i (diff_idxs hs)).
        { eapply mismatch_in_diff; [exact Hlen|exact Hsub| |exact E].
          apply Hb. left. reflexivity. }
        apply memn_In in Hin. rewrite Hin in Em. discriminate. }
      cbn [settle_all]. rewrite settle_index_nomismatch by exact Hm.
      apply IH; [exact Hbr|exact Hsub].
Qed.

Lemma settle_all_fast env startH k hs n bans :
  all_len k hs ->
  settle_all env startH hs (fast_ix hs n) bans = settle_all env startH hs (full_ix hs n) bans.
Proof.
  intros Hlen. rewrite fast_ix_filter. unfold full_ix.
  eapply settle_all_filter; [exact Hlen| |tauto].
  intros i Hi. apply in_seq in Hi. pose proof (zn_lt n). lia.
Qed.

(* ---------- the two entry points ---------- *)

Theorem fast_ix_equiv_resolve H hard v env raws hint cps :
  resolve_conflict_ix H fast_ix hard v env raws hint cps = resolve_conflict H hard v env raws hint cps.
Proof.
  unfold resolve_conflict, resolve_conflict_ix.
  destruct (remove_peers _ cps) as [|c cps1]; [reflexivity|].
  destruct (check_sanity _ v) as [| d |]; try reflexivity.
  destruct (List.filter _ (c :: cps1)) as [|c2 cps2]; [reflexivity|].
  destruct (get_headers v (u32 (d * INTERVAL)) raws) as [hs n] eqn:Eg.
  destruct (negb (all_eq _)); [reflexivity|].
  rewrite (settle_all_fast env _ _ hs n [] (get_headers_len _ _ _ _ _ Eg)).
  reflexivity.
Qed.

Theorem fast_ix_equiv_uncheckpointed v env raws :
  get_uncheckpointed_ix fast_ix v env raws = get_uncheckpointed v env raws.
Proof.
  unfold get_uncheckpointed, get_uncheckpointed_ix.
  destruct (v_ftip v) as [[ftip fh]|]; [|reflexivity].
  destruct (v_btip v) as [[bx bh]|]; [|reflexivity].
  destruct (bh <? fh); [reflexivity|].
  destruct (bh =? fh); [reflexivity|].
  destruct (get_headers v (u32 (fh + 1)) raws) as [hs n] eqn:Eg.
  destruct (remove_peers _ hs) as [|h1 hs1] eqn:Er; [reflexivity|].
  rewrite (settle_all_fast env _ (Z.to_nat n) (h1 :: hs1) n []).
  - reflexivity.
  - rewrite <- Er. apply remove_peers_len. eapply get_headers_len, Eg.
Qed.

Print Assumptions fast_ix_equiv_resolve.
Print Assumptions fast_ix_equiv_uncheckpointed.
