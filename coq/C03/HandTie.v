(* C03 / HandTie — what the hand-off guarantees to getUncheckpointedCFHeaders:
   the answers collected by a round that was not cut off contain the honest
   peer's answer whatever else was handed over in between (bursts of unrelated
   or malformed messages from anybody, any interleaving with a busy callback),
   so the conflict-resolution theorem applies to them. *)
From stdpp Require Import gmap list.
From Coq Require Import ZArith Lia.
From Verif Require Import S1.Model C03.Model C03.Spec C03.Proofs C03.ProofsU C03.Hand C03.HandProofs.
Open Scope Z_scope.

(* the acceptance test of getCFHeadersForAllPeers' callback *)
Definition okr (stop n : Z) (r : rawresp) : bool :=
  r_reg r && (m_stop (r_msg r) =? stop) && (zlen (m_hashes (r_msg r)) =? n).

Lemma accept_In stop n raws : forall seen q m,
  In (q, m) (accept stop n raws seen) ->
  exists r, In r raws /\ r_peer r = q /\ r_msg r = m /\ okr stop n r = true.
Proof.
  induction raws as [|r rest IH]; intros seen q m Hin; [destruct Hin|].
  cbn [accept] in Hin.
  destruct (negb (mem (r_peer r) seen) && r_reg r && (m_stop (r_msg r) =? stop)
            && (zlen (m_hashes (r_msg r)) =? n)) eqn:E.
  - destruct Hin as [Hin|Hin].
    + inversion Hin; subst. exists r. split; [left; reflexivity|]. split; [reflexivity|]. split; [reflexivity|].
      unfold okr. apply andb_true_iff in E. destruct E as [E E3]. apply andb_true_iff in E. destruct E as [E E2].
      apply andb_true_iff in E. destruct E as [_ E1]. rewrite E1, E2, E3. reflexivity.
    + destruct (IH _ _ _ Hin) as [r' [H1 H2]]. exists r'. split; [right; exact H1|exact H2].
  - destruct (IH _ _ _ Hin) as [r' [H1 H2]]. exists r'. split; [right; exact H1|exact H2].
Qed.

Lemma accept_has stop n raws : forall seen q,
  ~ In q seen ->
  (exists r, In r raws /\ r_peer r = q /\ okr stop n r = true) ->
  exists m, In (q, m) (accept stop n raws seen).
Proof.
  induction raws as [|r rest IH]; intros seen q Hns [r0 [Hin [Hq Hok]]]; [destruct Hin|].
  cbn [accept].
  destruct (negb (mem (r_peer r) seen) && r_reg r && (m_stop (r_msg r) =? stop)
            && (zlen (m_hashes (r_msg r)) =? n)) eqn:E.
  - destruct (Z.eq_dec (r_peer r) q) as [Eq|Nq].
    + exists (r_msg r). left. rewrite Eq. reflexivity.
    + destruct Hin as [Hin|Hin]; [subst r0; contradiction|].
      destruct (IH (r_peer r :: seen) q) as [m Hm].
      * intros [H|H]; [contradiction|contradiction].
      * exists r0. auto.
      * exists m. right. exact Hm.
  - destruct Hin as [Hin|Hin].
    + subst r0. exfalso. unfold okr in Hok. rewrite Hq in E.
      assert (Hm : mem q seen = false).
      { unfold mem. apply not_true_is_false. intros Hc. apply Hns.
        apply List.existsb_exists in Hc. destruct Hc as [y [Hy Ey]]. apply Z.eqb_eq in Ey. subst. exact Hy. }
      rewrite Hm in E. cbn [negb andb] in E.
      apply andb_true_iff in Hok. destruct Hok as [Hok H3]. apply andb_true_iff in Hok. destruct Hok as [H1 H2].
      rewrite H1, H2, H3 in E. discriminate.
    + apply IH; [exact Hns|]. exists r0. auto.
Qed.

Section Tie.
Variables (stop n : Z).
Notation run := (hrun (okr stop n) None).

(* the answers of a round, as getCFHeadersForAllPeers sees them *)
Definition collected (evs : list (hev rawresp)) : list rawresp := List.map snd (h_got (run evs)).

(* every message is handed to OnRead of the peer it came from *)
Definition from_sender (evs : list (hev rawresp)) : Prop :=
  forall q r, In (q, r) (h_deliv (run evs)) -> r_peer r = q.

(* the round was not cut off: everything handed over was received *)
Definition drained (evs : list (hev rawresp)) : Prop :=
  h_pend (run evs) = [] /\ h_drop (run evs) = [].

Lemma collected_delivered evs r :
  from_sender evs -> In r (collected evs) -> In (r_peer r, r) (h_deliv (run evs)).
Proof.
  intros Hfs Hin. unfold collected in Hin. apply List.in_map_iff in Hin. destruct Hin as [[q x] [E Hin]].
  cbn in E. subst x. pose proof (hand_got_delivered _ _ _ _ _ Hin) as Hd.
  rewrite (Hfs _ _ Hd). exact Hd.
Qed.

(* every peer that handed over an acceptable answer is among the accepted
   answers, and nobody else *)
Lemma round_collects_every_answer evs q :
  from_sender evs -> drained evs ->
  (exists r, In (q, r) (h_deliv (run evs)) /\ okr stop n r = true) <->
  (exists m, In (q, m) (accept stop n (collected evs) [])).
Proof.
  intros Hfs [Hp Hd]. split.
  - intros [r [Hin Hok]].
    destruct (hand_answers_collected _ (okr stop n) evs q r Hp Hd Hin Hok) as [r' Hr'].
    unfold accepted in Hr'. apply List.filter_In in Hr'. destruct Hr' as [Hg Hok']. cbn in Hok'.
    apply accept_has; [intros []|]. exists r'. split; [|split; [|exact Hok']].
    + unfold collected. apply List.in_map_iff. exists (q, r'). split; [reflexivity|exact Hg].
    + apply Hfs. eapply hand_got_delivered. exact Hg.
  - intros [m Hm]. destruct (accept_In _ _ _ _ _ _ Hm) as [r [Hin [Hq [_ Hok]]]].
    exists r. split; [|exact Hok]. rewrite <- Hq. apply collected_delivered; assumption.
Qed.

Lemma honest_collected evs p tm :
  from_sender evs -> drained evs ->
  (exists r, In (p, r) (h_deliv (run evs)) /\ okr stop n r = true) ->
  (forall r, In (p, r) (h_deliv (run evs)) -> okr stop n r = true -> r_msg r = tm) ->
  honest_in tm p (accept stop n (collected evs) []).
Proof.
  intros Hfs Hdr Hex Hall.
  assert (Hall' : forall m, In (p, m) (accept stop n (collected evs) []) -> m = tm).
  { intros m Hm. destruct (accept_In _ _ _ _ _ _ Hm) as [r [Hin [Hq [Hmr Hok]]]].
    rewrite <- Hmr. apply Hall; [|exact Hok]. rewrite <- Hq. apply collected_delivered; assumption. }
  split; [|exact Hall'].
  destruct (proj1 (round_collects_every_answer evs p Hfs Hdr) Hex) as [m Hm].
  rewrite <- (Hall' m Hm). exact Hm.
Qed.

End Tie.

(* getUncheckpointedCFHeaders on the answers a round of the real hand-off
   collected: whatever burst was handed over in between, whatever the
   interleaving with the callback *)
Theorem honest_wins_behind_any_burst v env evs p tm tfilt ftip fh stop n :
  v_ftip v = Some (ftip, fh) ->
  cf_range v (u32 (fh + 1)) = Some (stop, n) ->
  from_sender stop n evs -> drained stop n evs ->
  (exists r, In (p, r) (h_deliv (hrun (okr stop n) None evs)) /\ okr stop n r = true) ->
  (forall r, In (p, r) (h_deliv (hrun (okr stop n) None evs)) -> okr stop n r = true -> r_msg r = tm) ->
  m_prev tm = ftip ->
  (forall i : nat, (i < zn n)%nat -> good_idx env tfilt tm (u32 (fh + 1)) p (Z.of_nat i)) ->
  let raws := collected stop n evs in
  ~ In p (fst (get_uncheckpointed v env raws)) /\
  (forall m, snd (get_uncheckpointed v env raws) = UWrite m -> m = tm) /\
  (forall m, snd (get_uncheckpointed v env raws) = UWrite m ->
     forall q r, In (q, r) (h_deliv (hrun (okr stop n) None evs)) -> okr stop n r = true ->
       (forall r', In (q, r') (h_deliv (hrun (okr stop n) None evs)) -> okr stop n r' = true -> r_msg r' <> tm) ->
       In q (fst (get_uncheckpointed v env raws))).
Proof.
  intros Hft Hcf Hfs Hdr Hex Hall Hprev Hgood raws.
  assert (Hg : get_headers v (u32 (fh + 1)) raws = (accept stop n raws [], n)).
  { unfold get_headers. rewrite Hcf. reflexivity. }
  pose proof (honest_collected stop n evs p tm Hfs Hdr Hex Hall) as Hh.
  destruct (uncheckpointed_honest_wins v env raws p tm tfilt ftip fh Hft) as [C1 [C2 C3]].
  - rewrite Hg. exact Hh.
  - exact Hprev.
  - rewrite Hg. exact Hgood.
  - split; [exact C1|]. split; [exact C2|].
    intros m Hw q r Hin Hok Hne.
    destruct (proj1 (round_collects_every_answer stop n evs q Hfs Hdr)) as [mq Hmq]; [exists r; auto|].
    apply (C3 m Hw q mq); [rewrite Hg; exact Hmq|].
    destruct (accept_In _ _ _ _ _ _ Hmq) as [r' [Hin' [Hq [Hmr Hok']]]].
    rewrite <- Hmr. apply Hne; [|exact Hok']. rewrite <- Hq. apply collected_delivered; assumption.
Qed.
