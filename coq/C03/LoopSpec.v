(* C03 — the loop properties in their own vocabulary: the ground truth of a
   block chain, what an HONEST peer answers in a round, what the environment
   may do between rounds, and the invariant of the handler loop. *)
From stdpp Require Import gmap list.
From Coq Require Import ZArith Lia.
From Verif Require Import S1.Model C07.Spec C03.Model C03.Spec C03.Proofs C03.ProofsR C03.ProofsC C03.Loop.
Open Scope Z_scope.

Section Truth.
Variable H : Z -> Z -> Z.
Variable fh : Z -> Z.          (* block hash -> hash of the block's true filter *)

(* the true filter headers of a block chain, by height *)
Definition thdrs (bl : list Z) : list Z := chain_from H 0 (List.map fh bl).
Definition thd (bl : list Z) (h : Z) : Z := default 0 (zget (thdrs bl) h).

(* the true filter checkpoints of a chain whose tip is at height hs *)
Definition tcps (bl : list Z) (hs : Z) : list Z :=
  List.map (fun k : nat => thd bl ((Z.of_nat k + 1) * INTERVAL)) (seq 0 (zn (hs / INTERVAL))).

(* the true answer to getcfheaders(start, stop) where stop is the block at
   height e *)
Definition tmsg (bl : list Z) (start e : Z) : cfmsg :=
  {| m_prev := if start =? 0 then 0 else thd bl (start - 1);
     m_stop := default 0 (zget bl e);
     m_hashes := List.map fh (take (zn (e - start + 1)) (drop (zn start) bl)) |}.

(* ---------- an honest peer p in one round ---------- *)
Section Honest.
Variable p : Z.
Variable c : lcfg.

(* the tip the attempt of this round works with (PWait / PDecide: the current
   one) *)
Definition tipH (s : lstate) : Z := hlen (l_a s).
Definition tipX (s : lstate) : Z := default 0 (last (abl (l_a s))).

(* the phase the round runs in *)
Definition eff_phase (s : lstate) : phase :=
  match l_ph s with PDecide => decide_ph s | ph => ph end.

(* getcfcheckpt, if the round sends it: p's (one) accepted answer is the true
   list for the chain of the moment *)
Definition hon_cp (s : lstate) (d : rdata) : Prop :=
  fst (lists_of c s (tipH s) (tipX s) d) = true ->
  forall l, In (p, l) (snd (lists_of c s (tipH s) (tipX s) d)) <-> l = tcps (abl (l_a s)) (tipH s).

(* the start height of the getcfheaders broadcast of this round, if it sends
   one: the beginning of the first interval in which the (capped) lists
   disagree (resolveConflict), or the height above the filter tip (at the
   tip) *)
Definition bcast_start (s : lstate) (d : rdata) : option Z :=
  match eff_phase s with
  | PTip => if zlen (afl (l_a s)) =? zlen (abl (l_a s)) then None else Some (u32 (flen2 (l_a s) + 1))
  | _ =>
    match first_diff (c_hard c) (aview (l_a s)) (cap (tipH s) (snd (lists_of c s (tipH s) (tipX s) d))) with
    | SaneDiff j => Some (u32 (j * INTERVAL))
    | _ => None
    end
  end.

(* p answers it with the truth; every index asked is in the class of the
   property (the lies of the others are refutable, Proofs.good_idx) *)
Definition hon_hdrs (tfilt : Z -> Z) (s : lstate) (d : rdata) : Prop :=
  let v := aview (l_a s) in
  let raws := onlyc (l_conn s) r_peer (d_raws d) in
  forall startH stop n, bcast_start s d = Some startH -> cf_range v startH = Some (stop, n) ->
    let tm := tmsg (abl (l_a s)) startH (startH + n - 1) in
    honest_in tm p (fst (get_headers v startH raws)) /\
    (forall i : nat, (i < zn n)%nat -> good_idx (d_env d) tfilt tm startH p (Z.of_nat i)).

(* for progress: header, block and filters of the heights asked are available,
   and nobody lies about the previous filter header (such a peer is not
   identified by the code) *)
Definition avail_hdrs (s : lstate) (d : rdata) : Prop :=
  let v := aview (l_a s) in
  let raws := onlyc (l_conn s) r_peer (d_raws d) in
  forall startH stop n, bcast_start s d = Some startH -> cf_range v startH = Some (stop, n) ->
    (forall i : nat, (i < zn n)%nat -> env_avail (d_env d) startH (Z.of_nat i)) /\
    (forall q mq, In (q, mq) (fst (get_headers v startH raws)) ->
                  m_prev mq = m_prev (tmsg (abl (l_a s)) startH (startH + n - 1))).

(* the query dispatcher: whatever arrives from p for request number a_q is
   the true answer to that request *)
Definition hon_arrs (s : lstate) (d : rdata) : Prop :=
  forall x l qs ar ci stop e,
    snd (resolve_of H c s (tipH s) (tipX s) d) = Some (x :: l) ->
    mk_queries (S (length (x :: l))) (l_a s) (zlen (x :: l)) (flen2 (l_a s) / INTERVAL) = Some qs ->
    In ar (d_ars d) -> a_peer ar = p -> zget qs (a_q ar) = Some (ci, stop) ->
    index_of2 stop (abl (l_a s)) 0 = Some e ->
    a_reg ar = true /\ a_msg ar = tmsg (abl (l_a s)) (ci * INTERVAL + 1) e.

Definition hon_round (tfilt : Z -> Z) (s : lstate) (d : rdata) : Prop :=
  In p (l_conn s) /\ hon_cp s d /\ hon_hdrs tfilt s d /\ hon_arrs s d /\
  peer_hard_bad (c_hard c) (tcps (abl (l_a s)) (tipH s)) = false.

End Honest.

(* ---------- the environment ---------- *)
(* a chain event: rollback target not below genesis, the resulting chain has
   distinct blocks and fewer than 1,000,000 of them, and every block names
   its predecessor ([parent]: PrevBlock of a header; a hash names one block
   and therefore one chain down to genesis) *)
Definition wf_chain (bl : list Z) : Prop := NoDup bl /\ 0 < zlen bl < 1000000.

Definition wf_ev (parent : Z -> Z) (s : lstate) (e : lev) : Prop :=
  match e with
  | EChain h xs _ => 0 <= h /\ wf_chain (abl (chain_event (l_a s) h xs)) /\
                     parent_ok parent (abl (chain_event (l_a s) h xs))
  | _ => True
  end.

(* the hypotheses along a run: [tf] gives the true filters of every round *)
Fixpoint hon_run (p : Z) (c : lcfg) (s : lstate) (evs : list lev) (P : lstate -> lev -> Prop) : Prop :=
  match evs with
  | [] => True
  | e :: rest => P s e /\ hon_run p c (lstep H c s e) rest P
  end.

(* ---------- counting rounds ---------- *)
Definition code_of (o : rout) : Z := fst (fst o).
(* a failed attempt: no checkpoint list received / resolveConflict gave none *)
Definition is_fail (o : rout) : bool := (code_of o =? 1) || (code_of o =? 2).
(* a checkpoint list was found (the checkpointed fetch ran) *)
Definition is_succ (o : rout) : bool := (code_of o =? 3) || (code_of o =? 6).
Definition nfail (outs : list rout) : nat := length (List.filter is_fail outs).
Definition nsucc (outs : list rout) : nat := length (List.filter is_succ outs).
Definition nconnect (evs : list lev) : nat :=
  length (List.filter (fun e => match e with EConnect _ => true | _ => false end) evs).
(* connected peers, plus one while lists are cached *)
Definition phi (s : lstate) : nat :=
  (length (l_conn s) + match l_cache s with [] => 0 | _ => 1 end)%nat.

(* ---------- the invariant ---------- *)
Definition committed_true (a : alog2) : Prop :=
  (1 <= length (afl a) <= length (abl a))%nat /\ afl a = take (length (afl a)) (thdrs (abl a)).

Record linv (parent : Z -> Z) (g : Z) (p : Z) (c : lcfg) (s : lstate) : Prop := {
  li_chain : wf_chain (abl (l_a s));
  li_parent : parent_ok parent (abl (l_a s));
  li_head : head (abl (l_a s)) = Some g;
  li_true : committed_true (l_a s);
  li_gen : c_genesis c = thd (abl (l_a s)) 0;
  li_notbanned : ~ In p (l_banned s);
  li_conn_banned : forall q, In q (l_conn s) -> ~ In q (l_banned s);
  li_cache : l_cache s = [] \/
             ((forall l, In (p, l) (l_cache s) <-> l = tcps (l_cache_bl s) (zlen (l_cache_bl s) - 1)) /\
              1 <= zlen (l_cache_bl s) - 1 /\
              NoDup (l_cache_bl s) /\ parent_ok parent (l_cache_bl s) /\ head (l_cache_bl s) = Some g /\
              (c_height_only c = false -> l_cache_stop s = default 0 (last (l_cache_bl s))));
  li_legacy : c_legacy c = false;
  li_cp : c_cp c = None;
  li_phase : match l_ph s with PRetry _ _ => False | _ => True end
}.

End Truth.
