(* C03 / ReplayConc — replay of the interleaving harness (cmd/c03conc).

   Per run: the schedule the harness executed on the real code, the
   observation of every step (who, call code, arguments/result) and the final
   state read from the real stores.
     kind 1: the model, run under the same schedule, observes something else
             at step [step] (extra / missing / different store call), or ends
             in another state ([step] = 1000 + number of the field);
     kind 2: the monitor [conc_okb] rejects the IMPLEMENTATION's final state
             and notification stream; [step] = number of the first predicate
             that fails (ConcSpec.conc_fail), [tag] = the model's ghost
             root-cause code [fl] (0 for the repaired tree: its windows never
             overlap). *)
From Coq Require Import ZArith List Bool.
Import ListNotations.
From Verif Require Import C03.Conc C03.ConcSpec.
Open Scope Z_scope.

Record ccfg := mk_cfg {
  k_bc : list (Z * Z);            (* initial block chain: (hash, prev) by height *)
  k_ff : list (Z * Z * Z);        (* initial filter file: (value, chained from, block) *)
  k_msg : Z * list Z * Z;         (* cfheaders: prev, derived headers, stop hash *)
  k_new : list (Z * Z);           (* headers of the reorganising message *)
  k_btab : list (Z * Z);          (* every block of the universe: (hash, prev) *)
  k_ftab : list (Z * Z * Z)       (* the true filter header of every block: (value, chained from, block) *)
}.

Record crun := mk_run {
  r_locked : bool;
  r_sched : list Z;
  r_obs : list obs;
  r_b : list Z;
  r_btip : Z * Z;
  r_idx : list Z;
  r_f : list Z;
  r_ftip : option (Z * Z);
  r_mem : Z * Z;
  r_cres : Z;
  r_bres : Z
}.

Definition mkb (p : Z * Z) : blk := {| bid := fst p; bprev := snd p |}.
Definition mkf (p : Z * Z * Z) : fent := let '(v, q, b) := p in {| fv := v; fprev := q; fblk := b |}.

Definition model_cfg (c : ccfg) (locked : bool) : cfg :=
  let '(p, es, s) := k_msg c in
  {| g_msg := {| m_prev := p; m_ents := es; m_stop := s |};
     g_new := map mkb (k_new c); g_locked := locked |}.

Definition obs_eqb (a b : obs) : bool :=
  let '(a1, a2, a3, a4, a5) := a in let '(b1, b2, b3, b4, b5) := b in
  (a1 =? b1) && (a2 =? b2) && (a3 =? b3) && (a4 =? b4) && (a5 =? b5).

Fixpoint first_diff (i : Z) (a b : list obs) : option Z :=
  match a, b with
  | [], [] => None
  | x :: a', y :: b' => if obs_eqb x y then first_diff (i + 1) a' b' else Some i
  | _, _ => Some i
  end.

Fixpoint lookup2 (t : list (Z * Z)) (x : Z) : Z :=
  match t with [] => -1 | (a, b) :: r => if a =? x then b else lookup2 r x end.
Fixpoint lookup3 (t : list (Z * Z * Z)) (x : Z) : fent :=
  match t with
  | [] => {| fv := x; fprev := -1; fblk := -1 |}
  | (a, q, b) :: r => if a =? x then {| fv := a; fprev := q; fblk := b |} else lookup3 r x
  end.

Definition opt_h (o : option nat) : Z := match o with Some h => zof h | None => -1 end.
Definition zn (z : Z) : nat := if (0 <=? z) && (z <? 1000000) then Z.to_nat z else O.

Definition ev_of (o : obs) : list ev :=
  let '(_, c, a, b, d) := o in
  if c =? 14 then [EConn a (zn b)] else if c =? 25 then [EDisc a (zn b) d] else [].

(* final state of the model against the implementation's: number of the
   first field that differs *)
Definition final_diff (c : ccfg) (st : cstate) (r : crun) : Z :=
  let s := sh st in
  if negb (list_eqb (ids (bchain s)) (r_b r)) then 1
  else if negb ((tip_id (bchain s) =? fst (r_btip r)) && (zof (length (bchain s)) - 1 =? snd (r_btip r))) then 2
  else if negb (list_eqb (map (fun p : Z * Z => opt_h (index_of (fst p) (bchain s))) (k_btab c)) (r_idx r)) then 3
  else if negb (list_eqb (map fv (ffile s)) (r_f r)) then 4
  else if negb (match f_chain_tip s, r_ftip r with
                | Some (e, h), Some (v, h') => (fv e =? v) && (zof h =? h')
                | None, None => true
                | _, _ => false end) then 5
  else if negb ((zof (memtip s) =? fst (r_mem r)) && (memhash s =? snd (r_mem r))) then 6
  else if negb (match cres (cp st) with 0 => r_cres r =? 0 | -1 => false | _ => r_cres r =? 1 end) then 7
  else if negb (bres (bp st) =? r_bres r) then 8
  else 0.

Definition impl_obs (c : ccfg) (r : crun) : fobs :=
  {| o_b := map (fun x => {| bid := x; bprev := lookup2 (k_btab c) x |}) (r_b r);
     o_f := map (lookup3 (k_ftab c)) (r_f r);
     o_ftip := match r_ftip r with Some (v, h) => Some (v, zn h) | None => None end;
     o_mem := (zn (fst (r_mem r)), snd (r_mem r));
     o_ev := flat_map ev_of (r_obs r);
     o_cres := r_cres r; o_bres := r_bres r |}.

Definition verdict (c : ccfg) (ir : Z * crun) : list (Z * Z * Z * Z) :=
  let '(id, r) := ir in
  let bc := map mkb (k_bc c) in
  let ff := map mkf (k_ff c) in
  let mc := model_cfg c (r_locked r) in
  let '(st, os) := run_obs mc (init_state bc ff) (map (fun z => negb (z =? 0)) (r_sched r)) in
  let k1 := match first_diff 0 os (r_obs r) with
            | Some i => [(id, 1, i, 0)]
            | None => match final_diff c st r with 0 => [] | n => [(id, 1, 1000 + n, 0)] end
            end in
  let io := impl_obs c r in
  let k2 := match conc_fail (sub_of bc ff) io with 0 => [] | n => [(id, 2, n, fl st)] end in
  k1 ++ k2.

Definition run_cases (cs : list (ccfg * list (Z * crun))) : list (Z * Z * Z * Z) :=
  flat_map (fun p => flat_map (verdict (fst p)) (snd p)) cs.
