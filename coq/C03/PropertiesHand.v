(* C03 — the hand-off of peer messages to a running queryAllPeers round
   (ServerPeer.OnRead: one goroutine per message on the round's unbuffered
   channel) conserves delivery, whatever the schedule: every message handed
   to OnRead while the round is live reaches the round's callback exactly
   once, unless an accepted answer of the same peer closed that peer's quit
   channel before, or the end of the round cut it off.  Model C03/Hand.v,
   proofs C03/HandProofs.v, tie to getUncheckpointedCFHeaders C03/HandTie.v.

   The real hand-off keeps NO order (not even per peer): the pending messages
   are a bag.  Where the order could matter (two acceptable answers of one
   peer) the statements below ask for at most one. *)
From stdpp Require Import gmap list.
From Coq Require Import ZArith Lia.
From Verif Require Import S1.Model C03.Model C03.Spec C03.Proofs C03.Hand C03.HandProofs C03.HandTie.
Open Scope Z_scope.

(* exactly once, nothing invented, nothing lost: for EVERY schedule of
   deliveries, receptions (any pending message next) and the round's end *)
Theorem C03_handoff_conservation : forall (A : Type) (acc : A -> bool) (evs : list (hev A)),
  let s := hrun acc None evs in
  Permutation (h_deliv s) (h_got s ++ h_skip s ++ h_pend s ++ h_drop s) /\ h_lost s = [].
Proof. exact hand_conservation. Qed.
Print Assumptions C03_handoff_conservation.

(* a message handed over is missing from the callback's invocations only
   behind an accepted answer of the same peer, while still pending, or cut off
   by the round's quit *)
Theorem C03_handoff_no_loss : forall (A : Type) (acc : A -> bool) (evs : list (hev A)) p m,
  let s := hrun acc None evs in
  In (p, m) (h_deliv s) ->
  In (p, m) (h_got s) \/ (exists m', In (p, m') (h_got s) /\ acc m' = true) \/
  In (p, m) (h_pend s) \/ In (p, m) (h_drop s).
Proof. exact hand_no_loss. Qed.
Print Assumptions C03_handoff_no_loss.

(* a round that was not cut off has an accepted answer from every peer that
   handed one over - whatever else was handed over in between (a burst of any
   length from anybody) and however long the callback was busy *)
Theorem C03_handoff_answers_collected : forall (A : Type) (acc : A -> bool) (evs : list (hev A)) p m,
  let s := hrun acc None evs in
  h_pend s = [] -> h_drop s = [] ->
  In (p, m) (h_deliv s) -> acc m = true ->
  exists m', In (p, m') (accepted acc s).
Proof. exact hand_answers_collected. Qed.
Print Assumptions C03_handoff_answers_collected.

(* at most one accepted answer per peer, in the order the callback took them *)
Theorem C03_handoff_one_answer_per_peer : forall (A : Type) (acc : A -> bool) (evs : list (hev A)),
  let s := hrun acc None evs in
  List.map fst (accepted acc s) = rev (h_closed s) /\ List.NoDup (h_closed s).
Proof. exact accepted_closed. Qed.
Print Assumptions C03_handoff_one_answer_per_peer.

(* the cfilter round (its callback never closes a peer): the callback sees
   exactly the messages handed over *)
Theorem C03_handoff_filter_round_exact : forall (A : Type) (acc : A -> bool) (evs : list (hev A)),
  (forall m, acc m = false) ->
  let s := hrun acc None evs in
  h_pend s = [] -> h_drop s = [] -> Permutation (h_deliv s) (h_got s).
Proof. exact hand_exact. Qed.
Print Assumptions C03_handoff_filter_round_exact.

(* getCFHeadersForAllPeers on the answers a round collected: a peer is among
   the accepted answers iff it handed over an acceptable one *)
Theorem C03_round_collects_every_answer : forall stop n evs q,
  from_sender stop n evs -> drained stop n evs ->
  (exists r, In (q, r) (h_deliv (hrun (okr stop n) None evs)) /\ okr stop n r = true) <->
  (exists m, In (q, m) (accept stop n (collected stop n evs) [])).
Proof. exact round_collects_every_answer. Qed.
Print Assumptions C03_round_collects_every_answer.

(* ... and the honest peer's answer is THE answer accepted for it: the premise
   on the answers of C03_honest_wins_at_tip and C03_honest_wins_checkpoints
   (at the start height of the round) *)
Theorem C03_round_honest_answer_collected : forall stop n evs p tm,
  from_sender stop n evs -> drained stop n evs ->
  (exists r, In (p, r) (h_deliv (hrun (okr stop n) None evs)) /\ okr stop n r = true) ->
  (forall r, In (p, r) (h_deliv (hrun (okr stop n) None evs)) -> okr stop n r = true -> r_msg r = tm) ->
  honest_in tm p (accept stop n (collected stop n evs) []).
Proof. exact honest_collected. Qed.
Print Assumptions C03_round_honest_answer_collected.

(* C03_honest_wins at the tip, through the real hand-off: for every schedule
   of the round - any number of unrelated or malformed messages from any peer
   at any point, the callback busy for any stretch - that is not cut off
   before what was handed over has been received: the honest peer is not
   banned, the header written is its header, and every peer whose acceptable
   answers all differ from it is banned *)
Theorem C03_honest_wins_at_tip_behind_any_burst : forall v env evs p tm tfilt ftip fh stop n,
  v_ftip v = Some (ftip, fh) ->
  cf_range v (u32 (fh + 1)) = Some (stop, n) ->
  from_sender stop n evs -> drained stop n evs ->
  (exists r, In (p, r) (h_deliv (hrun (okr stop n) None evs)) /\ okr stop n r = true) ->
  (forall r, In (p, r) (h_deliv (hrun (okr stop n) None evs)) -> okr stop n r = true -> r_msg r = tm) ->
  m_prev tm = ftip ->
  (forall i : nat, (i < zn n)%nat -> good_idx env tfilt tm (u32 (fh + 1)) p (Z.of_nat i)) ->
  let raws := collected stop n evs in
  ~ In p (fst (get_uncheckpointed v env raws)) /\
  (forall m, snd (get_uncheckpointed v env raws) = UWrite m -> m = tm) /\
  (forall m, snd (get_uncheckpointed v env raws) = UWrite m ->
     forall q r, In (q, r) (h_deliv (hrun (okr stop n) None evs)) -> okr stop n r = true ->
       (forall r', In (q, r') (h_deliv (hrun (okr stop n) None evs)) -> okr stop n r' = true -> r_msg r' <> tm) ->
       In q (fst (get_uncheckpointed v env raws))).
Proof. exact honest_wins_behind_any_burst. Qed.
Print Assumptions C03_honest_wins_at_tip_behind_any_burst.

(* ---------- a bounded, non-blocking hand-off (seeded change C03-11) is refuted ---------- *)
(* messages (uid, acceptable); peers 66 (liar), 1 and 2 (honest); 3 slots *)
Definition w_msgs_acc (m : Z * bool) : bool := snd m.
Definition w_burst : list (hev (Z * bool)) :=
  [HDeliver 66 (1, false); HTake 0;                            (* a ping occupies the callback *)
   HDeliver 66 (2, true);                                      (* the liar's answer ... *)
   HDeliver 66 (3, false); HDeliver 66 (4, false); HDeliver 66 (5, false); HDeliver 66 (6, false);
   HDeliver 1 (7, true); HDeliver 2 (8, true);                 (* ... a burst, then the honest answers *)
   HTake 0; HTake 0; HTake 0; HTake 0; HTake 0; HTake 0; HTake 0; HQuit].

Theorem C03_handoff_bounded_buffer_refuted :
  exists evs : list (hev (Z * bool)),
    let s := hrun w_msgs_acc (Some 3%nat) evs in
    h_pend s = [] /\ h_drop s = [] /\
    In (1, (7, true)) (h_deliv s) /\ In (2, (8, true)) (h_deliv s) /\
    accepted w_msgs_acc s = [(66, (2, true))] /\
    h_lost s = [(66, (5, false)); (66, (6, false)); (1, (7, true)); (2, (8, true))].
Proof.
  exists w_burst. vm_compute. repeat split;
    repeat match goal with |- _ \/ _ => (left; reflexivity) || right end.
Qed.
Print Assumptions C03_handoff_bounded_buffer_refuted.

(* the same schedule on the code that exists: all three answers are collected *)
Example C03_handoff_nonvacuous :
  let s := hrun w_msgs_acc None w_burst in
  h_pend s = [] /\ h_drop s = [] /\ h_lost s = [] /\
  accepted w_msgs_acc s = [(66, (2, true)); (1, (7, true)); (2, (8, true))] /\
  h_skip s = [(66, (3, false)); (66, (4, false)); (66, (5, false)); (66, (6, false))].
Proof. vm_compute. repeat split. Qed.
