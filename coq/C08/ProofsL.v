(* C08 — the lost-file-tail image (power loss; outside the process-crash
   model): recovery fails closed on it. *)
From stdpp Require Import gmap list.
From Coq Require Import ZArith Lia ZifyBool.
From Verif Require Import S1.Model C07.Spec C07.Proofs C08.Model C08.Proofs C08.ProofsS.
Open Scope Z_scope.

(* what is left of an un-torn file of entries l after losing [bytes] bytes,
   at least one whole entry remaining: m whole entries (1 <= m < |l|) and a
   partial one of j bytes *)
Lemma lose_tail_shape esz f l bytes f' : 0 < esz ->
  ents f = l -> junk f = 0 -> alen l < LIMIT ->
  lose_tail esz f bytes = Some f' -> esz <= fsize esz f - bytes ->
  exists m j, f' = {| ents := take (Z.to_nat m) l; junk := j |} /\ 1 <= m < alen l /\ 0 <= j < esz.
Proof.
  intros He Hl Hj HL Hlt Hrem. unfold lose_tail in Hlt.
  destruct ((0 <? bytes) && (bytes <=? fsize esz f)) eqn:Eb; [|discriminate].
  unfold ftruncate in Hlt. unfold fsize, flen in *. rewrite Hl, Hj in *. fold (alen l) in *.
  set (R := alen l * esz + 0 - bytes) in *.
  assert (HR : esz <= R < alen l * esz) by (unfold R; lia).
  replace (R <? 0) with false in Hlt by lia.
  replace (R >=? alen l * esz) with false in Hlt by lia.
  injection Hlt as <-.
  assert (Hm : 1 <= R / esz < alen l).
  { split; [apply Z.div_le_lower_bound; lia|apply Z.div_lt_upper_bound; lia]. }
  exists (R / esz), (R mod esz). split; [|split; [exact Hm|apply Z.mod_pos_bound; lia]].
  by rewrite zn_eq by (unfold LIMIT in *; lia).
Qed.

Lemma wrap_truncate_fails esz f n : 0 < esz -> esz <= 1000 -> 0 <= fsize esz f < LIMIT * esz ->
  0 < n < LIMIT ->
  truncate_headers esz f (u32 (- n)) NoFault = None.
Proof.
  intros He He2 Hf Hn. unfold truncate_headers, u32.
  assert (Hu : (- n) mod U32 = U32 - n).
  { symmetry. apply (Z.mod_unique_pos _ _ (-1)); unfold U32, LIMIT in *; lia. }
  rewrite Hu. replace (U32 - n =? 0) with false by (unfold U32, LIMIT in *; lia).
  unfold ftruncate. replace (fsize esz f - (U32 - n) * esz <? 0) with true; [reflexivity|].
  unfold U32, LIMIT in *. nia.
Qed.

Lemma ftip_set_ff s f : ftip (set_ff s f) = ftip s. Proof. reflexivity. Qed.
Lemma idx_set_ff s f : idx (set_ff s f) = idx s. Proof. reflexivity. Qed.
Lemma ff_set_ff s f : ff (set_ff s f) = f. Proof. reflexivity. Qed.

Section Lost.
Context (g gfh : Z) (s : store) (a : alog) (HI : Inv s a).

Lemma lost_block_tail_fails m j : 1 <= m < alen (bl a) -> 0 <= j < BSZ ->
  recover_block g (set_bf s {| ents := take (Z.to_nat m) (bl a); junk := j |}) = None.
Proof.
  intros Hm Hj. pose proof (i_lim _ _ HI) as Hlim. pose proof (i_nd _ _ HI) as Hnd.
  unfold recover_block. cbn [set_bf bf btip].
  rewrite trim_tail by (unfold BSZ in *; lia).
  rewrite (btip_Some s a HI). cbn [reset_if_no_tip]. cbv zeta. cbn [set_bf bf btip idx].
  set (l' := take (Z.to_nat m) (bl a)).
  assert (Hlen : alen l' = m) by (unfold l', alen in *; rewrite take_length; lia).
  assert (Hfs : fsize BSZ {| ents := l'; junk := 0 |} = m * BSZ)
    by (unfold fsize, flen; cbn [ents junk]; fold (alen l'); lia).
  rewrite Hfs. replace (m * BSZ =? 0) with false by (unfold BSZ; lia).
  (* the index still says: tip at height |bl| - 1 *)
  pose proof (btip_height_ok s a HI) as Hth. unfold tip_height in Hth |- *. cbn [idx].
  rewrite (btip_Some s a HI) in Hth.
  change (idx (set_bf (set_bf s {| ents := l'; junk := j |}) {| ents := l'; junk := 0 |})) with (idx s).
  rewrite Hth. unfold a_tip.
  destruct (last (bl a)) as [t|] eqn:Et; [|apply last_None in Et; by destruct (i_bne _ _ HI)].
  cbn [default].
  replace (m * BSZ / BSZ) with m by (unfold BSZ; rewrite Z.div_mul; lia).
  replace (u32 (m - 1)) with (m - 1) by (unfold u32; rewrite Z.mod_small; unfold U32, LIMIT in *; lia).
  rewrite fread_aligned; [|unfold BSZ; lia|reflexivity|unfold flen; cbn [ents]; fold (alen l'); unfold LIMIT in *; lia].
  cbn [ents]. unfold l'. rewrite at_h_take by lia.
  replace (m - 1 <? m) with true by lia.
  destruct (at_h_is_Some (bl a) (m - 1)) as [y Hy]; [lia|lia|]. rewrite Hy. cbn [rd_tok].
  assert (Hyt : y <> t).
  { intros ->. rewrite last_at_h in Et by (exact (i_bne _ _ HI) || lia).
    rewrite at_h_lookup in Hy, Et by lia.
    pose proof (NoDup_lookup _ _ _ _ Hnd Hy Et). lia. }
  replace (y =? t) with false by lia.
  replace (m - 1 - (alen (bl a) - 1)) with (- (alen (bl a) - m)) by lia.
  rewrite wrap_truncate_fails; [reflexivity|unfold BSZ; lia|unfold BSZ; lia| |lia].
  fold l'. rewrite Hfs. unfold LIMIT, BSZ in *. lia.
Qed.

Lemma lost_filter_tail_fails m j :
  (forall x y, x ∈ fl a -> y ∈ bl a -> x <> y) ->
  1 <= m < alen (fl a) -> 0 <= j < FSZ ->
  recover_filter gfh g (set_ff s {| ents := take (Z.to_nat m) (fl a); junk := j |}) = None.
Proof.
  intros Hdis Hm Hj. pose proof (i_lim _ _ HI) as Hlim. pose proof (i_le _ _ HI) as Hle.
  unfold recover_filter. cbn [set_ff ff ftip].
  rewrite trim_tail by (unfold FSZ in *; lia).
  rewrite (ftip_Some s a HI). cbn [reset_if_no_tip]. cbv zeta. cbn [set_ff ff ftip idx].
  set (l' := take (Z.to_nat m) (fl a)).
  assert (Hlen : alen l' = m) by (unfold l', alen in *; rewrite take_length; lia).
  assert (Hfs : fsize FSZ {| ents := l'; junk := 0 |} = m * FSZ)
    by (unfold fsize, flen; cbn [ents junk]; fold (alen l'); lia).
  rewrite Hfs. replace (m * FSZ =? 0) with false by (unfold FSZ; lia).
  unfold reconcile_filter. rewrite !ftip_set_ff, !ff_set_ff.
  pose proof (ftip_height_ok s a HI) as Hth. unfold tip_height in Hth |- *.
  rewrite !idx_set_ff. rewrite (ftip_Some s a HI) in Hth |- *. rewrite Hth.
  destruct (ftip_is_Some s a HI) as [t Ht]. rewrite Ht. cbn [default].
  rewrite Hfs.
  replace (m * FSZ / FSZ) with m by (unfold FSZ; rewrite Z.div_mul; lia).
  replace (u32 (m - 1)) with (m - 1) by (unfold u32; rewrite Z.mod_small; unfold U32, LIMIT in *; lia).
  rewrite fread_aligned; [|unfold FSZ; lia|reflexivity|unfold flen; cbn [ents]; fold (alen l'); unfold LIMIT in *; lia].
  cbn [ents]. unfold l'. rewrite at_h_take by lia.
  replace (m - 1 <? m) with true by lia.
  destruct (at_h_is_Some (fl a) (m - 1)) as [y Hy]; [lia|lia|]. rewrite Hy. cbn [rd_tok].
  assert (Hyt : y <> t).
  { apply (Hdis y t).
    - rewrite at_h_lookup in Hy by lia. eapply elem_of_list_lookup_2; eauto.
    - rewrite at_h_lookup in Ht by lia. eapply elem_of_list_lookup_2; eauto. }
  replace (y =? t) with false by lia.
  replace (m - 1 - (alen (fl a) - 1)) with (- (alen (fl a) - m)) by lia.
  rewrite wrap_truncate_fails; [reflexivity|unfold FSZ; lia|unfold FSZ; lia| |lia].
  fold l'. rewrite Hfs. unfold LIMIT, FSZ in *. lia.
Qed.

Lemma lost_block_tail_fails_closed bytes c :
  lose_block_tail s bytes = Some c -> BSZ <= fsize BSZ (bf s) - bytes ->
  recover g gfh c = None.
Proof.
  unfold lose_block_tail. intros Hc Hrem.
  destruct (lose_tail BSZ (bf s) bytes) as [f'|] eqn:El; [|discriminate]. injection Hc as <-.
  destruct (lose_tail_shape BSZ (bf s) (bl a) bytes f') as (m & j & -> & Hm & Hj);
    [unfold BSZ; lia|exact (i_be _ _ HI)|exact (i_bj _ _ HI)|exact (i_lim _ _ HI)|exact El|exact Hrem|].
  unfold recover. by rewrite lost_block_tail_fails.
Qed.

Lemma lost_filter_tail_fails_closed bytes c :
  (forall x y, x ∈ fl a -> y ∈ bl a -> x <> y) ->
  lose_filter_tail s bytes = Some c -> FSZ <= fsize FSZ (ff s) - bytes ->
  recover g gfh c = None.
Proof.
  unfold lose_filter_tail. intros Hdis Hc Hrem.
  destruct (lose_tail FSZ (ff s) bytes) as [f'|] eqn:El; [|discriminate]. injection Hc as <-.
  destruct (lose_tail_shape FSZ (ff s) (fl a) bytes f') as (m & j & -> & Hm & Hj);
    [unfold FSZ; lia|exact (i_fe _ _ HI)|exact (i_fj _ _ HI)|pose proof (i_le _ _ HI); pose proof (i_lim _ _ HI); lia|exact El|exact Hrem|].
  unfold recover.
  rewrite (recover_block_same g s a _ HI); [|reflexivity|reflexivity|reflexivity].
  by apply lost_filter_tail_fails.
Qed.
End Lost.
