(* C08 — proofs for the START-UP paths: the very first start on an empty
   directory (F41) and the filter header state reset that a header state
   assertion triggers (F42).  Every crash point of either recovers. *)
From stdpp Require Import gmap list.
From Coq Require Import ZArith Lia ZifyBool.
From Verif Require Import S1.Model C07.Spec C07.Proofs C08.Model C08.Proofs.
Open Scope Z_scope.

(* torn byte counts INCLUDING the two ends (nothing / everything written) *)
Definition torn_le (ds : list dstep) (k : nat) (torn : option Z) : Prop :=
  match torn with
  | None => True
  | Some b =>
    match ds !! k with
    | Some (DAppendB es) => 0 <= b <= alen es * BSZ
    | Some (DAppendF es) => 0 <= b <= alen es * FSZ
    | _ => False
    end
  end.

(* ---------- small facts ---------- *)
Lemma partial_one esz x b : 0 < esz -> 0 <= b <= esz ->
  fappend_partial esz fempty [x] b =
  if b =? esz then {| ents := [x]; junk := 0 |} else {| ents := []; junk := b |}.
Proof.
  intros He Hb. unfold fappend_partial, fempty. cbn [junk ents Z.eqb app].
  destruct (b =? esz) eqn:E.
  - assert (b = esz) by lia. subst b. rewrite Z_div_same_full, Z_mod_same_full by lia. reflexivity.
  - rewrite Z.div_small, Z.mod_small by lia. reflexivity.
Qed.

Lemma partial_one_shape esz x b : 0 < esz -> 0 <= b <= esz ->
  exists l j, fappend_partial esz fempty [x] b = {| ents := l; junk := j |} /\ 0 <= j < esz /\
              (l = [] \/ (l = [x] /\ j = 0)).
Proof.
  intros He Hb. rewrite partial_one by assumption. destruct (b =? esz) eqn:E.
  - exists [x], 0. split; [reflexivity|]. split; [lia|]. by right.
  - exists [], b. split; [reflexivity|]. split; [lia|]. by left.
Qed.

Lemma reset_none_empty esz l : 0 < esz ->
  reset_if_no_tip esz None {| ents := l; junk := 0 |} = fempty.
Proof.
  intros He. unfold reset_if_no_tip, fsize, flen. cbn [ents junk].
  destruct l as [|x l]; [reflexivity|].
  replace (Z.of_nat (length (x :: l)) * esz + 0 =? 0) with false; [reflexivity|].
  symmetry. apply Z.eqb_neq. cbn [length]. nia.
Qed.

(* ---------- F41: a store whose index never recorded a tip is started over ---------- *)
Definition genesis_b (g : Z) (c : store) : store :=
  {| bf := {| ents := [g]; junk := 0 |}; ff := ff c; idx := <[ g := 0 ]> (idx c);
     btip := Some g; ftip := ftip c |}.
Definition genesis_f (g gfh : Z) (c : store) : store :=
  {| bf := bf c; ff := {| ents := [gfh]; junk := 0 |}; idx := idx c; btip := btip c; ftip := Some g |}.

Lemma recover_block_no_tip g c : btip c = None -> 0 <= junk (bf c) < BSZ ->
  recover_block g c = Some (genesis_b g c).
Proof.
  intros Hb Hj. unfold recover_block. rewrite Hb.
  destruct (bf c) as [l j] eqn:Ebf. cbn [junk] in Hj.
  rewrite trim_tail by (unfold BSZ in *; lia).
  rewrite reset_none_empty by (unfold BSZ; lia). reflexivity.
Qed.

Lemma recover_filter_assert_no_tip gfh g asr c : ftip c = None -> 0 <= junk (ff c) < FSZ ->
  recover_filter_assert gfh g asr c = Some (genesis_f g gfh c).
Proof.
  intros Hb Hj. unfold recover_filter_assert. rewrite Hb.
  destruct (ff c) as [l j] eqn:Eff. cbn [junk] in Hj.
  rewrite trim_tail by (unfold FSZ in *; lia).
  rewrite reset_none_empty by (unfold FSZ; lia). reflexivity.
Qed.

Lemma recover_filter_assert_None gfh g s : recover_filter_assert gfh g None s = recover_filter gfh g s.
Proof.
  unfold recover_filter_assert, recover_filter. cbv zeta. cbn [assertion_resets].
  by destruct (fsize FSZ _ =? 0).
Qed.

Lemma recover_assert_None g gfh s : recover_assert g gfh None s = recover g gfh s.
Proof.
  unfold recover_assert, recover. destruct (recover_block g s); [apply recover_filter_assert_None|reflexivity].
Qed.

Lemma recover_filter_no_tip gfh g c : ftip c = None -> 0 <= junk (ff c) < FSZ ->
  recover_filter gfh g c = Some (genesis_f g gfh c).
Proof. intros. rewrite <- recover_filter_assert_None. by apply recover_filter_assert_no_tip. Qed.

(* an empty (or torn-first-entry) filter file gets the genesis entry whatever
   the tip key and the assertion are *)
Lemma recover_filter_assert_fresh gfh g asr c : ents (ff c) = [] -> 0 <= junk (ff c) < FSZ ->
  recover_filter_assert gfh g asr c = Some (genesis_f g gfh c).
Proof.
  intros He Hj. unfold recover_filter_assert.
  destruct (ff c) as [l j] eqn:Eff. cbn [junk ents] in *. subst l.
  rewrite trim_tail by (unfold FSZ in *; lia).
  assert (Hr : reset_if_no_tip FSZ (ftip c) {| ents := []; junk := 0 |} = fempty)
    by (by destruct (ftip c)).
  rewrite Hr. reflexivity.
Qed.

(* ---------- the freshly created stores, explicitly ---------- *)
Definition init_state (g gfh : Z) : store :=
  {| bf := {| ents := [g]; junk := 0 |}; ff := {| ents := [gfh]; junk := 0 |};
     idx := <[ g := 0 ]> ∅; btip := Some g; ftip := Some g |}.
Definition a0 (g gfh : Z) : alog := {| bl := [g]; fl := [gfh] |}.

Lemma init_eq g gfh : init g gfh = Some (init_state g gfh).
Proof. reflexivity. Qed.

Lemma init_state_inv g gfh : Inv (init_state g gfh) (a0 g gfh).
Proof.
  destruct (init_inv g gfh) as (s0 & Hi & HI). rewrite init_eq in Hi. by injection Hi as <-.
Qed.

(* a state whose block side is that of [s] (Inv s a) passes NewBlockHeaderStore unchanged *)
Lemma recover_block_same g s a c : Inv s a ->
  bf c = bf s -> idx c = idx s -> btip c = btip s -> recover_block g c = Some c.
Proof.
  intros HI Hbf Hidx Hbt.
  rewrite (recover_block_ahead g c a [] 0).
  - f_equal. destruct HI. destruct c as [b f i bt ft]; unfold set_bf; cbn in *. f_equal.
    subst b. symmetry. by apply ffile_eq.
  - destruct HI. constructor; try assumption; [by rewrite Hidx|by rewrite Hbt].
  - rewrite Hbf, app_nil_r. destruct HI. by apply ffile_eq.
  - unfold BSZ; lia.
  - intros x Hx. by apply elem_of_nil in Hx.
  - destruct HI. unfold alen at 2. cbn. lia.
Qed.

(* ---------- first start: every crash point ---------- *)
Definition blk_done (g : Z) : store :=
  {| bf := {| ents := [g]; junk := 0 |}; ff := fempty; idx := <[ g := 0 ]> ∅; btip := Some g; ftip := None |}.

Lemma first_steps_b_eq g : first_steps_b g = [DAppendB [g]; DIdxAdd [(g, 0)]].
Proof. reflexivity. Qed.

Lemma first_steps_b_run g : apply_steps empty_store (first_steps_b g) = Some (blk_done g).
Proof. reflexivity. Qed.

Lemma recover_blk_done_like g gfh c :
  bf c = bf (init_state g gfh) -> idx c = idx (init_state g gfh) -> btip c = btip (init_state g gfh) ->
  ftip c = None -> 0 <= junk (ff c) < FSZ ->
  recover g gfh c = Some (init_state g gfh).
Proof.
  intros Hbf Hidx Hbt Hft Hj. unfold recover.
  rewrite (recover_block_same g _ _ c (init_state_inv g gfh) Hbf Hidx Hbt).
  rewrite recover_filter_no_tip by assumption.
  f_equal. unfold genesis_f, init_state. destruct c; cbn in *. by subst.
Qed.

Lemma first_start_phase1 g gfh k torn c :
  crash_state empty_store (first_steps_b g) k torn = Some c ->
  torn_le (first_steps_b g) k torn ->
  recover g gfh c = Some (init_state g gfh).
Proof.
  rewrite first_steps_b_eq. intros Hc Ht. unfold crash_state in Hc.
  destruct k as [|[|k]]; cbn [take apply_steps apply_step] in Hc.
  - destruct torn as [b|]; cbn [lookup list_lookup] in Hc, Ht; cbn in Ht.
    + injection Hc as <-. cbn [bf empty_store]. change {| ents := []; junk := 0 |} with fempty.
      destruct (partial_one_shape BSZ g b) as (l & j & -> & Hj & _); [unfold BSZ; lia|unfold alen, BSZ in *; cbn in Ht; lia|].
      unfold recover. rewrite recover_block_no_tip by (cbn; assumption || reflexivity).
      rewrite recover_filter_no_tip by (cbn; (reflexivity || unfold FSZ; lia)).
      reflexivity.
    + injection Hc as <-. reflexivity.
  - destruct torn as [b|]; cbn in Hc, Ht; [contradiction|]. injection Hc as <-.
    unfold recover. rewrite recover_block_no_tip by (cbn; (reflexivity || unfold BSZ; lia)).
    rewrite recover_filter_no_tip by (cbn; (reflexivity || unfold FSZ; lia)).
    reflexivity.
  - rewrite take_nil in Hc. cbn [apply_steps] in Hc.
    destruct torn as [b|]; [by destruct k|]. injection Hc as <-.
    apply recover_blk_done_like; try reflexivity. cbn. unfold FSZ; lia.
Qed.

Lemma first_start_phase2 g gfh k torn c :
  crash_state (blk_done g) (first_steps_f g gfh) k torn = Some c ->
  torn_le (first_steps_f g gfh) k torn ->
  recover g gfh c = Some (init_state g gfh).
Proof.
  unfold first_steps_f. intros Hc Ht. unfold crash_state in Hc.
  destruct k as [|[|k]]; cbn [take apply_steps apply_step] in Hc.
  - destruct torn as [b|]; cbn [lookup list_lookup] in Hc, Ht; cbn in Ht.
    + injection Hc as <-. cbn [ff blk_done].
      destruct (partial_one_shape FSZ gfh b) as (l & j & -> & Hj & _); [unfold FSZ; lia|unfold alen, FSZ in *; cbn in Ht; lia|].
      apply recover_blk_done_like; try reflexivity. exact Hj.
    + injection Hc as <-. apply recover_blk_done_like; try reflexivity. cbn. unfold FSZ; lia.
  - destruct torn as [b|]; cbn in Hc, Ht; [contradiction|]. injection Hc as <-.
    apply recover_blk_done_like; try reflexivity. cbn. unfold FSZ; lia.
  - rewrite take_nil in Hc. cbn [apply_steps] in Hc.
    destruct torn as [b|]; [by destruct k|]. injection Hc as <-.
    exact (recover_id g gfh (init_state g gfh) _ (init_state_inv g gfh)).
Qed.

Lemma first_start_crash_recovers g gfh filter k torn c :
  first_start_crash g gfh filter k torn = Some c ->
  torn_le (if filter then first_steps_f g gfh else first_steps_b g) k torn ->
  recover g gfh c = init g gfh /\
  init g gfh = Some (init_state g gfh) /\ Inv (init_state g gfh) (a0 g gfh).
Proof.
  intros Hc Ht. split; [|split; [apply init_eq|apply init_state_inv]].
  rewrite init_eq. unfold first_start_crash in Hc. destruct filter.
  - rewrite first_steps_b_run in Hc. by apply (first_start_phase2 g gfh k torn c).
  - by apply (first_start_phase1 g gfh k torn c).
Qed.

(* ---------- F42: the header state reset ---------- *)
(* NewFilterHeaderStore with an assertion on a state with a tip key, an
   un-torn non-empty file: the assertion decides between the reset (index tip
   to genesis, file removed, plain constructor) and the plain constructor *)
Lemma rfa_unfold gfh g asr c t :
  ftip c = Some t -> junk (ff c) = 0 -> ents (ff c) <> [] ->
  recover_filter_assert gfh g asr c =
  if assertion_resets (ff c) asr
  then recover_filter gfh g {| bf := bf c; ff := fempty; idx := idx c; btip := btip c; ftip := Some g |}
  else recover_filter gfh g c.
Proof.
  intros Ht Hj Hne.
  assert (Hfs : (fsize FSZ (ff c) =? 0) = false).
  { apply Z.eqb_neq. pose proof (fsize_pos FSZ (ff c) _ ltac:(unfold FSZ; lia) eq_refl Hj Hne). lia. }
  unfold recover_filter_assert. rewrite trim_id by (unfold FSZ; lia || assumption).
  rewrite Ht. cbn [reset_if_no_tip]. rewrite set_ff_id. cbv zeta. rewrite Hfs.
  destruct (assertion_resets (ff c) asr); [reflexivity|].
  unfold recover_filter. rewrite trim_id by (unfold FSZ; lia || assumption).
  rewrite Ht. cbn [reset_if_no_tip]. rewrite set_ff_id. cbv zeta. by rewrite Hfs.
Qed.

(* when the assertion does not trigger, the constructor with the assertion IS
   the constructor without it - on every store state whatsoever *)
Lemma assert_no_reset_plain gfh g asr s0 :
  let f := reset_if_no_tip FSZ (ftip s0) (trim FSZ (ff s0)) in
  fsize FSZ f = 0 \/ assertion_resets f asr = false ->
  recover_filter_assert gfh g asr s0 = recover_filter gfh g s0.
Proof.
  intros f H. unfold recover_filter_assert, recover_filter. cbv zeta. cbn [set_ff ff]. fold f.
  destruct (fsize FSZ f =? 0) eqn:E; [reflexivity|].
  destruct H as [H|H]; [lia|]. by rewrite H.
Qed.

Lemma assertion_resets_inv s a h v : Inv s a ->
  assertion_resets (ff s) (Some (h, v)) =
  match at_h (fl a) h with Some x => negb (x =? v) | None => false end.
Proof.
  intros HI. cbn [assertion_resets]. rewrite (fread_f s a HI). by destruct (at_h (fl a) h).
Qed.

Lemma at_h_0_cons l x : at_h l 0 = Some x -> exists tl, l = x :: tl.
Proof.
  unfold at_h. destruct l as [|y tl]; cbn; [discriminate|].
  destruct (0 <? alen (y :: tl)); cbn; [|discriminate]. intros [= ->]. eauto.
Qed.

Section Reset.
Context (g gfh : Z) (s : store) (a : alog) (HI : Inv s a).
Context (Hg : at_h (bl a) 0 = Some g) (Hgf : at_h (fl a) 0 = Some gfh).
Context (Hdis : forall x y, x ∈ fl a -> y ∈ bl a -> x <> y).

Definition areset (gfh : Z) (a : alog) : alog := {| bl := bl a; fl := [gfh] |}.
Local Notation r := (reset_state g gfh s).
Local Notation a' := (areset gfh a).

(* the states the reset passes through: only the filter file and tip differ from s *)
Definition cst (f : ffile) : store :=
  {| bf := bf s; ff := f; idx := idx s; btip := btip s; ftip := Some g |}.

Lemma reset_inv : Inv r a'.
Proof.
  pose proof (alen_pos _ (i_bne _ _ HI)).
  pose proof HI as [? ? ? ? ? ? ? ? ? ? ? ?].
  constructor; cbn [reset_state areset bf ff idx btip ftip bl fl ents junk];
    try assumption; try reflexivity; try discriminate.
  - unfold alen at 1. cbn. lia.
  - unfold alen at 1. cbn. by symmetry.
Qed.

Lemma rb_cst f : recover_block g (cst f) = Some (cst f).
Proof. by apply (recover_block_same g s a). Qed.

Lemma rfa_cst_fresh asr f : ents f = [] -> 0 <= junk f < FSZ ->
  recover_filter_assert gfh g asr (cst f) = Some r.
Proof. intros He Hj. by rewrite recover_filter_assert_fresh. Qed.

Lemma rf_cst_fempty : recover_filter gfh g (cst fempty) = Some r.
Proof. rewrite <- recover_filter_assert_None. apply rfa_cst_fresh; [reflexivity|cbn; unfold FSZ; lia]. Qed.

(* reopening the reset state, with any assertion or none, changes nothing *)
Lemma r_assert asr : recover_assert g gfh asr r = Some r.
Proof.
  unfold recover_assert. rewrite (recover_block_id g r a' reset_inv).
  rewrite (rfa_unfold gfh g asr r g); [|reflexivity|reflexivity|discriminate].
  destruct (assertion_resets (ff r) asr); [exact rf_cst_fempty|].
  exact (recover_filter_id gfh g r a' reset_inv).
Qed.

Lemma r_plain : recover g gfh r = Some r.
Proof. exact (recover_id g gfh r a' reset_inv). Qed.

(* image after the first step (index tip moved, file untouched) *)
Lemma c1_assert asr : assertion_resets (ff s) asr = true ->
  recover_assert g gfh asr (cst (ff s)) = Some r.
Proof.
  intros Ha. unfold recover_assert. rewrite rb_cst.
  rewrite (rfa_unfold gfh g asr _ g); [|reflexivity|exact (i_fj _ _ HI)|cbn; rewrite (i_fe _ _ HI); exact (i_fne _ _ HI)].
  cbn [cst ff]. rewrite Ha. exact rf_cst_fempty.
Qed.

Lemma c1_plain : recover g gfh (cst (ff s)) = Some r.
Proof.
  unfold recover. rewrite rb_cst.
  destruct (at_h_0_cons _ _ Hgf) as [tl Htl].
  rewrite (recover_filter_ahead gfh g (cst (ff s)) a' tl 0).
  - reflexivity.
  - pose proof (alen_pos _ (i_bne _ _ HI)). pose proof HI as [? ? ? ? ? ? ? ? ? ? ? ?].
    constructor; cbn [areset bl fl cst idx ftip]; try assumption; try discriminate.
    + unfold alen at 1. cbn. lia.
    + unfold alen at 1. cbn. by symmetry.
  - cbn [cst ff areset fl]. cbn [app]. rewrite <- Htl. apply ffile_eq; [exact (i_fe _ _ HI)|exact (i_fj _ _ HI)].
  - unfold FSZ; lia.
  - intros x y Hx Hy. apply (Hdis x y); [|exact Hy]. rewrite Htl. by apply elem_of_list_further.
  - cbn [areset fl]. pose proof (i_le _ _ HI). pose proof (i_lim _ _ HI). change (alen [gfh]) with 1. assert (alen (fl a) = 1 + alen tl) by (rewrite Htl; unfold alen; cbn [length]; lia). lia.
Qed.

Lemma c0_assert asr : assertion_resets (ff s) asr = true -> recover_assert g gfh asr s = Some r.
Proof.
  intros Ha. unfold recover_assert. rewrite (recover_block_id g s a HI).
  rewrite (rfa_unfold gfh g asr s _ (ftip_Some s a HI)); [|exact (i_fj _ _ HI)|rewrite (i_fe _ _ HI); exact (i_fne _ _ HI)].
  rewrite Ha. exact rf_cst_fempty.
Qed.

(* the reset's durable steps, all of them, ARE the reset *)
Lemma reset_steps_complete asr : assertion_resets (ff s) asr = true ->
  apply_steps s (reset_steps gfh g) = Some r /\ recover_filter_assert gfh g asr s = Some r.
Proof.
  intros Ha. split; [reflexivity|].
  pose proof (c0_assert asr Ha) as H. unfold recover_assert in H.
  by rewrite (recover_block_id g s a HI) in H.
Qed.

Lemma reset_crash_recovers asr k torn c :
  assertion_resets (ff s) asr = true ->
  reset_crash g gfh s k torn = Some c -> torn_le (reset_steps gfh g) k torn ->
  recover_assert g gfh asr c = Some r /\
  (recover g gfh c = Some r \/ (k = 0%nat /\ c = s /\ recover g gfh c = Some s)).
Proof.
  intros Ha Hc Ht. unfold reset_crash, reset_steps, crash_state in Hc. unfold reset_steps in Ht.
  destruct k as [|[|[|[|k]]]]; cbn [take apply_steps apply_step] in Hc.
  - destruct torn as [b|]; cbn in Hc; [discriminate|]. injection Hc as <-.
    split; [by apply c0_assert|]. right. split; [reflexivity|]. split; [reflexivity|].
    exact (recover_id g gfh s a HI).
  - destruct torn as [b|]; cbn in Hc; [discriminate|]. injection Hc as <-.
    split; [by apply (c1_assert asr)|left; exact c1_plain].
  - destruct torn as [b|]; cbn [lookup list_lookup] in Hc, Ht.
    + injection Hc as <-. cbn in Ht.
      cbn [set_ff bf ff idx btip ftip].
      destruct (partial_one_shape FSZ gfh b) as (l & j & -> & Hj & [->|[-> ->]]);
        [unfold FSZ; lia|unfold alen, FSZ in *; cbn in Ht; lia| |].
      * change {| bf := bf s; ff := {| ents := []; junk := j |}; idx := idx s; btip := btip s; ftip := Some g |}
          with (cst {| ents := []; junk := j |}).
        split.
        -- unfold recover_assert. rewrite rb_cst. by apply rfa_cst_fresh.
        -- left. unfold recover. rewrite rb_cst, <- recover_filter_assert_None. by apply rfa_cst_fresh.
      * split; [apply r_assert|left; exact r_plain].
    + injection Hc as <-. cbn [set_ff bf ff idx btip ftip]. fold (cst fempty).
      split.
      * unfold recover_assert. rewrite rb_cst. apply rfa_cst_fresh; [reflexivity|cbn; unfold FSZ; lia].
      * left. unfold recover. rewrite rb_cst. exact rf_cst_fempty.
  - destruct torn as [b|]; cbn in Hc; [discriminate|]. injection Hc as <-.
    split; [apply r_assert|left; exact r_plain].
  - rewrite take_nil in Hc. cbn [apply_steps] in Hc.
    destruct torn as [b|]; [by destruct k|]. injection Hc as <-.
    split; [apply r_assert|left; exact r_plain].
Qed.
End Reset.

(* ---------- every reachable state starts with the genesis entries ---------- *)
Lemma at_h_cons_0 x (tl : list Z) : at_h (x :: tl) 0 = Some x.
Proof.
  unfold at_h, alen. cbn [length].
  replace ((0 <=? 0) && (0 <? Z.of_nat (S (length tl)))) with true by lia. reflexivity.
Qed.

Lemma take_cons_pos (x : Z) tl n : (0 < n)%nat -> exists tl', take n (x :: tl) = x :: tl'.
Proof. destruct n; [lia|]. intros _. cbn. eauto. Qed.

Lemma astep_heads g gfh s a o : Inv s a -> wf_op a o ->
  at_h (bl a) 0 = Some g -> at_h (fl a) 0 = Some gfh ->
  at_h (bl (fst (astep a o))) 0 = Some g /\ at_h (fl (fst (astep a o))) 0 = Some gfh.
Proof.
  intros HI Hwf Hb Hf.
  destruct (at_h_0_cons _ _ Hb) as [bt Hbt]. destruct (at_h_0_cons _ _ Hf) as [ft Hft].
  pose proof (i_lim _ _ HI) as Hlim. pose proof (i_le _ _ HI) as Hle.
  destruct o; cbn [astep]; try (by split).
  - destruct flt; cbn [fst bl fl]; try (by split). split; [|assumption].
    rewrite Hbt. cbn [app]. apply at_h_cons_0.
  - destruct flt; cbn [fst bl fl]; try (by split). split; [assumption|].
    rewrite Hft. cbn [app]. apply at_h_cons_0.
  - destruct Hwf as (_ & Hn & _). destruct (n =? 0); cbn [fst bl fl]; [by split|].
    split; [|assumption].
    rewrite zn_eq by lia. rewrite Hbt at 2.
    destruct (take_cons_pos g bt (Z.to_nat (alen (bl a) - n)) ltac:(lia)) as [tl' ->].
    apply at_h_cons_0.
  - destruct Hwf as (_ & Hn & _). cbn [fst bl fl]. split; [assumption|].
    rewrite zn_eq by lia. rewrite Hft at 2.
    destruct (take_cons_pos gfh ft (Z.to_nat (alen (fl a) - 1)) ltac:(lia)) as [tl' ->].
    apply at_h_cons_0.
Qed.

Lemma arun_heads g gfh ops : forall s a, Inv s a -> wf_ops a ops ->
  at_h (bl a) 0 = Some g -> at_h (fl a) 0 = Some gfh ->
  at_h (bl (fst (arun a ops))) 0 = Some g /\ at_h (fl (fst (arun a ops))) 0 = Some gfh.
Proof.
  induction ops as [|o ops IH]; intros s a HI Hwf Hb Hf; cbn [arun].
  - by split.
  - destruct Hwf as [Hw Hrest].
    destruct (astep_heads g gfh s a o HI Hw Hb Hf) as [Hb1 Hf1].
    pose proof (proj1 (step_refines g gfh s a o HI Hw)) as HI1.
    destruct (astep a o) as [a1 ob]. cbn [fst] in *.
    specialize (IH _ a1 HI1 Hrest Hb1 Hf1).
    destruct (arun a1 ops) as [a2 obs]. exact IH.
Qed.

Lemma reset_crash_every_history g gfh ops s0 asr k torn c :
  init g gfh = Some s0 -> wf_ops (a0 g gfh) ops ->
  let s := fst (run g gfh s0 ops) in
  let a := fst (arun (a0 g gfh) ops) in
  (forall x y, x ∈ fl a -> y ∈ bl a -> x <> y) ->
  assertion_resets (ff s) asr = true ->
  reset_crash g gfh s k torn = Some c -> torn_le (reset_steps gfh g) k torn ->
  exists s' a', recover_assert g gfh asr c = Some (reset_state g gfh s) /\
    recover g gfh c = Some s' /\ Inv s' a' /\ Inv (reset_state g gfh s) (areset gfh a) /\
    ((s' = reset_state g gfh s /\ a' = areset gfh a) \/ (k = 0%nat /\ s' = s /\ a' = a)).
Proof.
  intros Hi Hwf s a Hdis Ha Hc Ht.
  rewrite init_eq in Hi. injection Hi as <-.
  pose proof (init_state_inv g gfh) as HI0.
  pose proof (proj2 (run_refines g gfh ops _ _ HI0 Hwf)) as HI. fold s a in HI.
  destruct (arun_heads g gfh ops _ _ HI0 Hwf (at_h_cons_0 g []) (at_h_cons_0 gfh [])) as [Hb Hf].
  fold a in Hb, Hf.
  pose proof (reset_inv g gfh s a HI Hb) as HIr.
  destruct (reset_crash_recovers g gfh s a HI Hb Hf Hdis asr k torn c Ha Hc Ht) as [H1 [H2|(-> & -> & H2)]].
  - exists (reset_state g gfh s), (areset gfh a).
    split; [exact H1|]. split; [exact H2|]. split; [exact HIr|]. split; [exact HIr|]. left. by split.
  - exists s, a.
    split; [exact H1|]. split; [exact H2|]. split; [exact HI|]. split; [exact HIr|]. right. by split.
Qed.

(* ---------- assertions that do not trigger; asserting height 0 ---------- *)
Lemma inv_assert_no_reset g gfh s a asr : Inv s a -> assertion_resets (ff s) asr = false ->
  recover_assert g gfh asr s = Some s.
Proof.
  intros HI Ha. unfold recover_assert. rewrite (recover_block_id g s a HI).
  rewrite (rfa_unfold gfh g asr s _ (ftip_Some s a HI)); [|exact (i_fj _ _ HI)|rewrite (i_fe _ _ HI); exact (i_fne _ _ HI)].
  rewrite Ha. exact (recover_filter_id gfh g s a HI).
Qed.

Lemma assert_no_reset_inv g gfh s a h v : Inv s a ->
  at_h (fl a) h = None \/ at_h (fl a) h = Some v ->
  recover_assert g gfh (Some (h, v)) s = recover g gfh s /\ recover g gfh s = Some s.
Proof.
  intros HI H. rewrite (recover_id g gfh s a HI). split; [|reflexivity].
  apply (inv_assert_no_reset g gfh s a _ HI). rewrite (assertion_resets_inv s a h v HI).
  destruct H as [->| ->]; [reflexivity|]. by rewrite Z.eqb_refl.
Qed.

Lemma assert_trigger_iff s a h v : Inv s a ->
  assertion_resets (ff s) (Some (h, v)) = true <-> exists x, at_h (fl a) h = Some x /\ x <> v.
Proof.
  intros HI. rewrite (assertion_resets_inv s a h v HI). destruct (at_h (fl a) h) as [x|].
  - split.
    + intros H. exists x. split; [reflexivity|]. intros ->. by rewrite Z.eqb_refl in H.
    + intros (y & [= <-] & Hne). apply negb_true_iff. by apply Z.eqb_neq.
  - split; [discriminate|]. by intros (y & ? & _).
Qed.

Lemma assert_height_zero g gfh s a v :
  Inv s a -> at_h (bl a) 0 = Some g -> at_h (fl a) 0 = Some gfh ->
  recover_assert g gfh (Some (0, v)) s = Some (if v =? gfh then s else reset_state g gfh s) /\
  recover_assert g gfh (Some (0, v)) (reset_state g gfh s) = Some (reset_state g gfh s).
Proof.
  intros HI Hg Hgf. split; [|by apply (r_assert g gfh s a)].
  destruct (v =? gfh) eqn:E.
  - apply (inv_assert_no_reset g gfh s a _ HI). rewrite (assertion_resets_inv s a 0 v HI), Hgf.
    apply negb_false_iff. lia.
  - apply (c0_assert g gfh s a HI). rewrite (assertion_resets_inv s a 0 v HI), Hgf.
    apply negb_true_iff. lia.
Qed.

(* ---------- the first start as one list of four steps (NewChainService) ---------- *)
Lemma first_start_cs_crash_recovers g gfh k torn c :
  first_start_crash_cs g gfh k torn = Some c ->
  torn_le (first_steps_b g ++ first_steps_f g gfh) k torn ->
  recover g gfh c = init g gfh.
Proof.
  unfold first_start_crash_cs. intros Hc Ht.
  destruct k as [|[|k]]; cbn [Nat.ltb Nat.leb] in Hc.
  - exact (proj1 (first_start_crash_recovers g gfh false 0 torn c Hc Ht)).
  - exact (proj1 (first_start_crash_recovers g gfh false 1 torn c Hc Ht)).
  - replace (S (S k) - 2)%nat with k in Hc by lia.
    exact (proj1 (first_start_crash_recovers g gfh true k torn c Hc Ht)).
Qed.
