(* C08 — crash semantics of the header stores: every store operation is a
   list of durable steps (file append, file truncate, one committed index
   transaction); a crash leaves the state after any prefix of that list, and
   inside a file append any prefix of the bytes.  No proofs here. *)
From stdpp Require Import gmap list.
From Coq Require Import ZArith Lia.
From Verif Require Import S1.Model.
Open Scope Z_scope.

(* durable steps of a fault-free operation, in the order the code performs them *)
Definition steps_of (s : store) (o : op) : list dstep :=
  match o with
  | BWrite es NoFault =>
      match es with [] => [] | _ => [DAppendB es.*1; DIdxAdd (sort_batch es)] end
  | FWrite es NoFault =>
      match last es with Some e => [DAppendF es.*1; DFTip e.2] | None => [] end
  | BRollback n NoFault =>
      if n =? 0 then [] else
      match brollback_plan s n with Some (st, _, _) => st | None => [] end
  | FRollback nt NoFault =>
      match frollback_plan s nt with Some (st, _, _) => st | None => [] end
  | _ => []
  end.

(* crash after the first k steps; with [torn = Some b] the next step (a file
   append) had put only its first b bytes into the file *)
Definition crash_state (s : store) (ds : list dstep) (k : nat) (torn : option Z) : option store :=
  match apply_steps s (take k ds) with
  | Some c =>
    match torn with
    | None => Some c
    | Some b =>
      match ds !! k with
      | Some (DAppendB es) => Some (set_bf c (fappend_partial BSZ (bf c) es b))
      | Some (DAppendF es) => Some (set_ff c (fappend_partial FSZ (ff c) es b))
      | _ => None
      end
    end
  | None => None
  end.

(* kind tags of steps, to check the implementation performs the same steps *)
Definition step_kind (d : dstep) : Z :=
  match d with
  | DAppendB _ => 1 | DAppendF _ => 2 | DTruncB _ => 3 | DTruncF _ => 4
  | DIdxAdd _ => 5 | DIdxDel _ _ => 5 | DFTip _ => 5
  | DRemoveF => 6
  end.

(* root-cause classification of a crash point (ghost; does not influence behaviour) *)
Definition is_trunc (d : dstep) : bool :=
  match d with DTruncB _ | DTruncF _ => true | _ => false end.
Definition esz_of (d : dstep) : Z :=
  match d with DAppendB _ => BSZ | DAppendF _ => FSZ | _ => 1 end.

(* 4 = between a file truncate and its index commit (index ahead of file);
   5 = torn tail (a partial entry at the end of the file); 0 = neither *)
Definition crash_tag (ds : list dstep) (k : nat) (torn : option Z) : Z :=
  match torn with
  | Some b =>
    match ds !! k with
    | Some d => if b mod esz_of d =? 0 then 0 else 5
    | None => 0
    end
  | None =>
    match k with
    | O => 0
    | S k' =>
      match ds !! k' with
      | Some d => if is_trunc d && (S k' <? length ds)%nat then 4 else 0
      | None => 0
      end
    end
  end.

(* ---------------- start-up paths ---------------- *)
(* First start on an empty directory: NewBlockHeaderStore writes the genesis
   header (file append, then one index transaction), then
   NewFilterHeaderStore writes the genesis filter header (file append, then
   the index tip). *)
Definition first_steps_b (g : Z) : list dstep := steps_of empty_store (BWrite [(g, 0)] NoFault).
Definition first_steps_f (g gfh : Z) : list dstep := [DAppendF [gfh]; DFTip g].

(* crash in phase 1 (filter = false: inside the block store's genesis write)
   or phase 2 (filter = true: block store complete, inside the filter store's).

   THE ORDER MATTERS.  The filter store has no index entries of its own: its
   tip key holds a BLOCK hash whose height is resolved through the entry the
   block store wrote.  With the block store first, the genesis entry exists
   before the filter tip is written, and every crash point recovers
   (C08_first_start_crash_recovers).  With the filter store first
   (first_steps_f from empty_store), a crash after the filter tip commit and
   before the block store's genesis commit leaves a filter tip the index does
   not know: NewFilterHeaderStore - the first constructor called in that
   order - fails on it for good (a tip key that EXISTS is deliberately not
   treated as "never initialised" by resetIfNoTip); see the Example
   C08_first_start_order_matters.  NewChainService (neutrino.go) opens the
   block store first; the harness checks that order on the real constructor
   (family "first start through NewChainService"). *)
Definition first_start_crash (g gfh : Z) (filter : bool) (k : nat) (torn : option Z) : option store :=
  if filter then
    match apply_steps empty_store (first_steps_b g) with
    | Some s1 => crash_state s1 (first_steps_f g gfh) k torn
    | None => None
    end
  else crash_state empty_store (first_steps_b g) k torn.

(* the whole first start as NewChainService performs it: the four durable
   steps first_steps_b ++ first_steps_f, crash after the first k of them *)
Definition first_start_crash_cs (g gfh : Z) (k : nat) (torn : option Z) : option store :=
  if (k <? 2)%nat then first_start_crash g gfh false k torn
  else first_start_crash g gfh true (k - 2) torn.

(* the filter store after a header state reset: genesis entry only, tip =
   genesis block; the block store and the shared index entries are untouched *)
Definition reset_state (g gfh : Z) (s : store) : store :=
  {| bf := bf s; ff := {| ents := [gfh]; junk := 0 |}; idx := idx s; btip := btip s; ftip := Some g |}.

(* crash point inside the reset that assertion [asr] triggers on [s] *)
Definition reset_crash (g gfh : Z) (s : store) (k : nat) (torn : option Z) : option store :=
  crash_state s (reset_steps gfh g) k torn.

(* ---------------- lost file tail: an ENVIRONMENT step, not a process crash ---------------- *)
(* The crash model above is process death: completed write()s survive.  A
   power loss can do more: the flat files are never fsynced while every bbolt
   commit is, so the last [bytes] bytes of a flat file may be gone although
   the index transactions that followed them are durable.  The image "index
   tip beyond the file" is stated here, outside [crash_state], so that the
   process-crash theorems stay what they are.  What the code (and [recover])
   does with it: it refuses to open (C08_lost_tail_fails_closed); a store that
   opens on such an image has to get rid of the lost headers' index entries,
   which moving the tip key alone does not do. *)
Definition lose_tail (esz : Z) (f : ffile) (bytes : Z) : option ffile :=
  if (0 <? bytes) && (bytes <=? fsize esz f) then ftruncate esz f (fsize esz f - bytes) else None.
Definition lose_block_tail (s : store) (bytes : Z) : option store :=
  set_bf s <$> lose_tail BSZ (bf s) bytes.
Definition lose_filter_tail (s : store) (bytes : Z) : option store :=
  set_ff s <$> lose_tail FSZ (ff s) bytes.
