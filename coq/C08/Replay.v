(* C08 — replay of crash images: the implementation is run up to an
   operation, a crash image is materialised at a durable-step boundary (or
   inside a file append), the stores are reopened on the image and dumped.
   The model does the same (kind 1 on disagreement); the monitor (kind 2)
   demands what C08 states: reopening succeeds and the stores then behave as
   the log from BEFORE or AFTER the interrupted operation. *)
From stdpp Require Import gmap list.
From Coq Require Import ZArith.
From Verif Require Import S1.Model C07.Spec C07.Replay C08.Model.
Open Scope Z_scope.

Record ccase := {
  cid : Z;
  prefix : list (op * obs);
  cop : op;
  ck : Z;
  ctorn : option Z;
  ckinds : list Z;           (* durable steps the implementation performed for cop *)
  post : list (op * obs)     (* Reopen :: dump :: follow-up, on the crash image *)
}.

Fixpoint run_prefix (g gfh : Z) (s : store) (i : Z) (tr : list (op * obs)) : store * option Z :=
  match tr with
  | [] => (s, None)
  | (o, ob) :: rest =>
    let '(s', mob) := step g gfh s o in
    if obs_eqb mob ob then run_prefix g gfh s' (i + 1) rest else (s', Some i)
  end.

(* abstract log after a well-formed prefix; None = do not judge *)
Fixpoint aprefix (a : alog) (tr : list (op * obs)) : option alog :=
  match tr with
  | [] => Some a
  | (o, ob) :: rest =>
    if wf_opb a o then
      let '(a', sob) := astep a o in
      if obs_eqb sob ob then aprefix a' rest else None
    else None
  end.

(* does the trace behave as the log [a]? returns the first failing step *)
Fixpoint amatch (a : alog) (i : Z) (tr : list (op * obs)) : option Z :=
  match tr with
  | [] => None
  | (o, ob) :: rest =>
    if wf_opb a o then
      let '(a', sob) := astep a o in
      if obs_eqb sob ob then amatch a' (i + 1) rest else Some i
    else Some i
  end.

Definition verdict (g gfh : Z) (c : ccase) : list (Z * Z * Z * Z) :=
  match init g gfh with
  | None => [(cid c, 1, -1, 0)]
  | Some s0 =>
    let '(s, mm) := run_prefix g gfh s0 0 (prefix c) in
    match mm with
    | Some i => [(cid c, 1, i, 0)]
    | None =>
      let ds := steps_of s (cop c) in
      let k := zn (ck c) in
      let np := Z.of_nat (length (prefix c)) in
      (if list_eqb (map step_kind ds) (ckinds c) then [] else [(cid c, 1, np, 0)]) ++
      match crash_state s ds k (ctorn c) with
      | None => [(cid c, 1, np, 0)]
      | Some cs =>
        (match first_mismatch g gfh cs (np + 1) (post c) with
         | Some i => [(cid c, 1, i, 0)] | None => [] end) ++
        match aprefix {| bl := [g]; fl := [gfh] |} (prefix c) with
        | None => []
        | Some a =>
          if wf_opb a (cop c) then
            match amatch a (np + 1) (post c), amatch (fst (astep a (cop c))) (np + 1) (post c) with
            | Some i, Some j => [(cid c, 2, Z.max i j, crash_tag ds k (ctorn c))]
            | _, _ => []
            end
          else []
        end
      end
    end
  end.

Definition run_cases (g gfh : Z) (cs : list ccase) : list (Z * Z * Z * Z) :=
  flat_map (verdict g gfh) cs.
