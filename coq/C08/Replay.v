(* C08 — replay of crash images: the implementation is run up to an
   operation, a crash image is materialised at a durable-step boundary (or
   inside a file append), the stores are reopened on the image and dumped.
   The model does the same (kind 1 on disagreement); the monitor (kind 2)
   demands what C08 states: reopening succeeds and the stores then behave as
   the log from BEFORE or AFTER the interrupted operation. *)
From stdpp Require Import gmap list.
From Coq Require Import ZArith.
From Verif Require Import S1.Model C07.Spec C07.Replay C08.Model.
Open Scope Z_scope.

Record ccase := {
  cid : Z;
  prefix : list (op * obs);
  cop : op;
  ck : Z;
  ctorn : option Z;
  ckinds : list Z;           (* durable steps the implementation performed for cop *)
  post : list (op * obs)     (* Reopen :: dump :: follow-up, on the crash image *)
}.

Fixpoint run_prefix (g gfh : Z) (s : store) (i : Z) (tr : list (op * obs)) : store * option Z :=
  match tr with
  | [] => (s, None)
  | (o, ob) :: rest =>
    let '(s', mob) := step g gfh s o in
    if obs_eqb mob ob then run_prefix g gfh s' (i + 1) rest else (s', Some i)
  end.

(* abstract log after a well-formed prefix; None = do not judge *)
Fixpoint aprefix (a : alog) (tr : list (op * obs)) : option alog :=
  match tr with
  | [] => Some a
  | (o, ob) :: rest =>
    if wf_opb a o then
      let '(a', sob) := astep a o in
      if obs_eqb sob ob then aprefix a' rest else None
    else None
  end.

(* does the trace behave as the log [a]? returns the first failing step *)
Fixpoint amatch (a : alog) (i : Z) (tr : list (op * obs)) : option Z :=
  match tr with
  | [] => None
  | (o, ob) :: rest =>
    if wf_opb a o then
      let '(a', sob) := astep a o in
      if obs_eqb sob ob then amatch a' (i + 1) rest else Some i
    else Some i
  end.

Definition verdict (g gfh : Z) (c : ccase) : list (Z * Z * Z * Z) :=
  match init g gfh with
  | None => [(cid c, 1, -1, 0)]
  | Some s0 =>
    let '(s, mm) := run_prefix g gfh s0 0 (prefix c) in
    match mm with
    | Some i => [(cid c, 1, i, 0)]
    | None =>
      let ds := steps_of s (cop c) in
      let k := zn (ck c) in
      let np := Z.of_nat (length (prefix c)) in
      (if list_eqb (map step_kind ds) (ckinds c) then [] else [(cid c, 1, np, 0)]) ++
      match crash_state s ds k (ctorn c) with
      | None => [(cid c, 1, np, 0)]
      | Some cs =>
        (match first_mismatch g gfh cs (np + 1) (post c) with
         | Some i => [(cid c, 1, i, 0)] | None => [] end) ++
        match aprefix {| bl := [g]; fl := [gfh] |} (prefix c) with
        | None => []
        | Some a =>
          if wf_opb a (cop c) then
            match amatch a (np + 1) (post c), amatch (fst (astep a (cop c))) (np + 1) (post c) with
            | Some i, Some j => [(cid c, 2, Z.max i j, crash_tag ds k (ctorn c))]
            | _, _ => []
            end
          else []
        end
      end
    end
  end.

Definition run_cases (g gfh : Z) (cs : list ccase) : list (Z * Z * Z * Z) :=
  flat_map (verdict g gfh) cs.

(* ---------------- start-up paths ---------------- *)
(* skind 0: crash image of the very first start on an empty directory
            (sfilter: inside NewFilterHeaderStore, block store complete);
   skind 1: crash image of the filter header state reset that the assertion
            [sassert] triggers on the state after [sprefix];
   skind 2: no crash: the state after [sprefix] opened with an assertion that
            must NOT trigger;
   skind 3: crash image of the first start through NewChainService (the four
            steps first_steps_b ++ first_steps_f; [skinds] is the header-store
            sub-sequence of the steps the real constructor performed), reopened
            through NewChainService;
   skind 4: an ORDINARY crash image (the state after [sprefix], crash after
            [sk] durable steps of [scop], torn [storn]) reopened WITH the
            assertion [sassert], which must not trigger: the result must be
            what the plain constructor yields (C08_assert_no_reset_is_plain_open),
            i.e. the state before or after [scop];
   skind 5 / 6: NOT a process crash: the last [sk] BYTES of the block (5) /
            filter (6) file are lost after [sprefix], the index untouched
            (power loss).  Failing to open is accepted (fail closed, what the
            model's [recover] does); a store that opens must be the log cut
            back to what the file still holds - in particular no lost header
            may be found by hash any more, also after different headers were
            appended at the lost heights.
   The image is reopened with the assertion ([swith]) or without; [sopened]
   says whether the real constructors succeeded; [spost] is the dump and the
   follow-up append on the reopened stores. *)
Record scase := {
  sid : Z;
  skind : Z;
  sprefix : list (op * obs);
  scop : op;                 (* skind 4: the interrupted operation *)
  sfilter : bool;
  sassert : option (Z * Z);
  sk : Z;
  storn : option Z;
  swith : bool;
  skinds : list Z;           (* durable steps the implementation performed *)
  sopened : bool;
  spost : list (op * obs)
}.

(* rejected by every allowed log: the latest failing step; None = accepted *)
Fixpoint judge (als : list alog) (i0 : Z) (tr : list (op * obs)) : option Z :=
  match als with
  | [] => Some i0
  | al :: rest =>
    match amatch al i0 tr with
    | None => None
    | Some i => match judge rest i0 tr with None => None | Some j => Some (Z.max i j) end
    end
  end.

(* root-cause code: 41 first start, 42 state reset, 43 assertion that must not
   trigger, 44 first start through NewChainService, 45 ordinary crash image
   reopened with an assertion that must not trigger *)
Definition stag (c : scase) : Z :=
  if skind c =? 0 then 41 else if skind c =? 1 then 42 else if skind c =? 3 then 44
  else if skind c =? 4 then 45 else if (skind c =? 5) || (skind c =? 6) then 46 else 43.

Definition sverdict (g gfh : Z) (c : scase) : list (Z * Z * Z * Z) :=
  match init g gfh with
  | None => [(sid c, 1, -1, 0)]
  | Some s0 =>
    let '(s, mm) := run_prefix g gfh s0 0 (sprefix c) in
    let np := Z.of_nat (length (sprefix c)) in
    let k := zn (sk c) in
    (* model: same image, same constructor, same observations *)
    (match mm with
     | Some i => [(sid c, 1, i, 0)]
     | None =>
       let img :=
         if skind c =? 0 then first_start_crash g gfh (sfilter c) k (storn c)
         else if skind c =? 3 then first_start_crash_cs g gfh k (storn c)
         else if skind c =? 4 then crash_state s (steps_of s (scop c)) k (storn c)
         else if skind c =? 5 then lose_block_tail s (sk c)
         else if skind c =? 6 then lose_filter_tail s (sk c)
         else if skind c =? 1 then
           (if assertion_resets (ff s) (sassert c) then reset_crash g gfh s k (storn c) else None)
         else (if assertion_resets (ff s) (sassert c) then None else Some s) in
       let ds :=
         if skind c =? 0 then (if sfilter c then first_steps_f g gfh else first_steps_b g)
         else if skind c =? 3 then first_steps_b g ++ first_steps_f g gfh
         else if skind c =? 4 then steps_of s (scop c)
         else if skind c =? 1 then reset_steps gfh g else [] in
       (if list_eqb (map step_kind ds) (skinds c) then [] else [(sid c, 1, np, 0)]) ++
       match img with
       | None => [(sid c, 1, np, 0)]
       | Some cs =>
         match recover_assert g gfh (if swith c then sassert c else None) cs with
         | None => if sopened c then [(sid c, 1, np, 0)] else []
         | Some m =>
           if sopened c then
             match first_mismatch g gfh m (np + 1) (spost c) with
             | Some i => [(sid c, 1, i, 0)] | None => [] end
           else [(sid c, 1, np, 0)]
         end
       end
     end) ++
    (* monitor, independent of the model's image: the stores open and behave
       as the log from before or after the interrupted start-up step *)
    match aprefix {| bl := [g]; fl := [gfh] |} (sprefix c) with
    | None => []
    | Some a =>
      let after := {| bl := bl a; fl := [gfh] |} in
      let allowed :=
        if skind c =? 1 then after :: (if (sk c =? 0) && negb (swith c) then [a] else [])
        else if skind c =? 4 then [a; fst (astep a (scop c))]
        else if skind c =? 5 then
          [{| bl := take (zn ((alen (bl a) * BSZ - sk c) / BSZ)) (bl a); fl := fl a |}]
        else if skind c =? 6 then
          [{| bl := bl a; fl := take (zn ((alen (fl a) * FSZ - sk c) / FSZ)) (fl a) |}]
        else [a] in
      if (skind c =? 4) && negb (wf_opb a (scop c)) then [] else
      if sopened c then
        match judge allowed (np + 1) (spost c) with
        | Some i => [(sid c, 2, i, stag c)]
        | None => []
        end
      else if (skind c =? 5) || (skind c =? 6) then []   (* fail closed *)
      else [(sid c, 2, np, stag c)]
    end
  end.

Definition run_scases (g gfh : Z) (cs : list scase) : list (Z * Z * Z * Z) :=
  flat_map (sverdict g gfh) cs.
