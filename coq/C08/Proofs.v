(* C08 — proofs: every crash state of every well-formed store operation
   recovers to exactly the state before or after the operation. *)
From stdpp Require Import gmap list.
From Coq Require Import ZArith Lia ZifyBool.
From Verif Require Import S1.Model C07.Spec C07.Proofs C08.Model.
Open Scope Z_scope.

Lemma ffile_eq f l : ents f = l -> junk f = 0 -> f = {| ents := l; junk := 0 |}.
Proof. destruct f; cbn; intros; by subst. Qed.

(* ---------- trimming ---------- *)
Lemma trim_tail esz l j : 0 < esz -> 0 <= j < esz ->
  trim esz {| ents := l; junk := j |} = {| ents := l; junk := 0 |}.
Proof.
  intros He Hj. unfold trim, fsize, flen. cbn [ents junk].
  replace ((Z.of_nat (length l) * esz + j) mod esz) with j
    by (rewrite Z.add_comm, Z_mod_plus_full, Z.mod_small; lia).
  destruct (j =? 0) eqn:E; [by replace j with 0 by lia|].
  unfold ftruncate, flen. cbn [ents junk].
  replace (Z.of_nat (length l) * esz + j - j) with (Z.of_nat (length l) * esz) by lia.
  replace (Z.of_nat (length l) * esz <? 0) with false by (symmetry; apply Z.ltb_ge; nia).
  replace (Z.of_nat (length l) * esz >=? Z.of_nat (length l) * esz) with true
    by (symmetry; rewrite Z.geb_leb; apply Z.leb_le; lia).
  f_equal. lia.
Qed.

(* ---------- block file ahead of the index is repaired ---------- *)
Record BIdx (c : store) (a : alog) : Prop := {
  b_nd : NoDup (bl a);
  b_idx : forall x h, idx c !! x = Some h <-> at_h (bl a) h = Some x;
  b_bt : btip c = last (bl a);
  b_bne : bl a <> [];
}.

Lemma Inv_BIdx s a : Inv s a -> BIdx s a.
Proof. intros []. by constructor. Qed.

Lemma recover_block_ahead g c a extra j :
  BIdx c a -> bf c = {| ents := bl a ++ extra; junk := j |} -> 0 <= j < BSZ ->
  (forall x, x ∈ extra -> x ∉ bl a) -> alen (bl a) + alen extra < LIMIT ->
  recover_block g c = Some (set_bf c {| ents := bl a; junk := 0 |}).
Proof.
  intros [Hnd Hidx Hbt Hne] Hbf Hj Hfresh HL. unfold recover_block.
  destruct (last (bl a)) as [t|] eqn:Et; [|apply last_None in Et; contradiction].
  rewrite Hbf, trim_tail by (unfold BSZ in *; lia). rewrite Hbt. cbn [reset_if_no_tip]. cbv zeta.
  set (L := alen (bl a)) in *. set (e := alen extra) in *.
  pose proof (alen_pos _ Hne) as HLp. fold L in HLp. pose proof (alen_nonneg extra) as Hep. fold e in Hep.
  assert (Hfs : fsize BSZ (bf (set_bf c {| ents := bl a ++ extra; junk := 0 |})) = (L + e) * BSZ).
  { cbn. unfold fsize, flen. cbn. rewrite app_length. unfold L, e, alen. lia. }
  rewrite Hfs. replace ((L + e) * BSZ =? 0) with false by (symmetry; apply Z.eqb_neq; unfold BSZ; lia).
  unfold tip_height. cbn [set_bf btip idx bf]. rewrite Hbt.
  assert (Hat : at_h (bl a) (L - 1) = Some t) by (rewrite <- last_at_h; [exact Et|exact Hne|fold L; lia]).
  pose proof (proj2 (Hidx t (L - 1)) Hat) as Hit. rewrite Hit.
  replace ((L + e) * BSZ / BSZ) with (L + e) by (unfold BSZ; rewrite Z.div_mul; lia).
  replace (u32 (L + e - 1)) with (L + e - 1) by (unfold u32; rewrite Z.mod_small; unfold U32, LIMIT in *; lia).
  rewrite fread_aligned; [|unfold BSZ; lia|reflexivity|unfold flen; cbn; rewrite app_length; unfold L, e, alen, LIMIT in *; lia].
  cbn [ents].
  assert (HLe : alen (bl a ++ extra) = L + e) by (rewrite alen_app; reflexivity).
  destruct (at_h_is_Some (bl a ++ extra) (L + e - 1)) as [y Hy]; [lia|lia|].
  rewrite Hy. cbn [rd_tok].
  destruct (decide (e = 0)) as [He0|He0].
  - assert (extra = []) as -> by (destruct extra; [reflexivity|unfold e, alen in He0; cbn in He0; lia]).
    rewrite app_nil_r in Hy |- *. replace (L + e - 1) with (L - 1) in Hy by lia.
    rewrite Hat in Hy. injection Hy as <-. rewrite Z.eqb_refl. reflexivity.
  - replace (L + e - 1) with (L + Z.of_nat (Z.to_nat (e - 1))) in Hy by lia.
    unfold L in Hy. rewrite at_h_app_r in Hy by (rewrite alen_app; fold L e; lia).
    assert (Hye : y ∈ extra) by (eapply elem_of_list_lookup_2; eauto).
    assert (Hyt : y <> t).
    { intros ->. apply (Hfresh _ Hye). rewrite at_h_lookup in Hat by (fold L; lia).
      eapply elem_of_list_lookup_2; eauto. }
    replace (y =? t) with false by (symmetry; by apply Z.eqb_neq).
    replace (u32 (L + e - 1 - (L - 1))) with e by (unfold u32; rewrite Z.mod_small; unfold U32, LIMIT in *; lia).
    unfold truncate_headers. replace (e =? 0) with false by (symmetry; by apply Z.eqb_neq).
    rewrite ftruncate_entries; [|unfold BSZ; lia|reflexivity|unfold flen; cbn; rewrite app_length; unfold L, e, alen in *; lia|unfold flen; cbn; rewrite app_length; unfold L, e, alen, LIMIT in *; lia].
    cbn [fmap option_fmap option_map ents]. f_equal. unfold set_bf. cbn. f_equal. f_equal.
    unfold flen. cbn. rewrite app_length.
    replace (Z.to_nat (Z.of_nat (length (bl a) + length extra) - e)) with (length (bl a)) by (unfold e, alen; lia).
    apply take_app.
Qed.

(* ---------- filter file ahead of its tip is repaired ---------- *)
Record FIdx (c : store) (a : alog) : Prop := {
  f_idx : forall x h, idx c !! x = Some h <-> at_h (bl a) h = Some x;
  f_fne : fl a <> [];
  f_le : alen (fl a) <= alen (bl a);
  f_ft : ftip c = at_h (bl a) (alen (fl a) - 1);
  f_lim : alen (bl a) < LIMIT
}.

Lemma Inv_FIdx s a : Inv s a -> FIdx s a.
Proof. intros []. by constructor. Qed.

Lemma recover_filter_ahead gfh g c a extra j :
  FIdx c a -> ff c = {| ents := fl a ++ extra; junk := j |} -> 0 <= j < FSZ ->
  (forall x y, x ∈ extra -> y ∈ bl a -> x <> y) -> alen (fl a) + alen extra < LIMIT ->
  recover_filter gfh g c = Some (set_ff c {| ents := fl a; junk := 0 |}).
Proof.
  intros [Hidx Hne Hle Hft Hlim] Hff Hj Hdis HL. unfold recover_filter.
  set (L := alen (fl a)) in *. set (e := alen extra) in *.
  pose proof (alen_pos _ Hne) as HLp. fold L in HLp. pose proof (alen_nonneg extra) as Hep. fold e in Hep.
  destruct (at_h_is_Some (bl a) (L - 1)) as [t Ht]; [lia|lia|]. rewrite Ht in Hft.
  rewrite Hff, trim_tail by (unfold FSZ in *; lia). rewrite Hft. cbn [reset_if_no_tip]. cbv zeta.
  unfold reconcile_filter.
  assert (Hfs : fsize FSZ (ff (set_ff c {| ents := fl a ++ extra; junk := 0 |})) = (L + e) * FSZ).
  { cbn. unfold fsize, flen. cbn. rewrite app_length. unfold L, e, alen. lia. }
  rewrite Hfs. replace ((L + e) * FSZ =? 0) with false by (symmetry; apply Z.eqb_neq; unfold FSZ; lia).
  unfold tip_height. cbn [set_ff ftip idx ff]. rewrite Hft.
  rewrite (proj2 (Hidx t (L - 1)) Ht).
  replace ((L + e) * FSZ / FSZ) with (L + e) by (unfold FSZ; rewrite Z.div_mul; lia).
  replace (u32 (L + e - 1)) with (L + e - 1) by (unfold u32; rewrite Z.mod_small; unfold U32, LIMIT in *; lia).
  rewrite fread_aligned; [|unfold FSZ; lia|reflexivity|unfold flen; cbn; rewrite app_length; unfold L, e, alen, LIMIT in *; lia].
  cbn [ents].
  assert (HLe : alen (fl a ++ extra) = L + e) by (rewrite alen_app; reflexivity).
  destruct (at_h_is_Some (fl a ++ extra) (L + e - 1)) as [y Hy]; [lia|lia|].
  rewrite Hy. cbn [rd_tok].
  destruct (decide (e = 0)) as [He0|He0].
  - assert (extra = []) as -> by (destruct extra; [reflexivity|unfold e, alen in He0; cbn in He0; lia]).
    rewrite app_nil_r. destruct (y =? t); [reflexivity|].
    replace (L + e - 1 - (L - 1)) with 0 by lia. unfold u32. rewrite Z.mod_0_l by (unfold U32; lia).
    unfold truncate_headers. cbn. reflexivity.
  - replace (L + e - 1) with (L + Z.of_nat (Z.to_nat (e - 1))) in Hy by lia.
    unfold L in Hy. rewrite at_h_app_r in Hy by (rewrite alen_app; fold L e; lia).
    assert (Hye : y ∈ extra) by (eapply elem_of_list_lookup_2; eauto).
    assert (Hyt : y <> t).
    { apply (Hdis _ _ Hye). rewrite at_h_lookup in Ht by lia. eapply elem_of_list_lookup_2; eauto. }
    replace (y =? t) with false by (symmetry; by apply Z.eqb_neq).
    replace (u32 (L + e - 1 - (L - 1))) with e by (unfold u32; rewrite Z.mod_small; unfold U32, LIMIT in *; lia).
    unfold truncate_headers. replace (e =? 0) with false by (symmetry; by apply Z.eqb_neq).
    rewrite ftruncate_entries; [|unfold FSZ; lia|reflexivity|unfold flen; cbn; rewrite app_length; unfold L, e, alen in *; lia|unfold flen; cbn; rewrite app_length; unfold L, e, alen, LIMIT in *; lia].
    cbn [fmap option_fmap option_map ents]. f_equal. unfold set_ff. cbn. f_equal. f_equal.
    unfold flen. cbn. rewrite app_length.
    replace (Z.to_nat (Z.of_nat (length (fl a) + length extra) - e)) with (length (fl a)) by (unfold e, alen; lia).
    apply take_app.
Qed.

(* ---------- recovering a state whose block / filter file is ahead ---------- *)
Lemma store_eq_bf s a : Inv s a -> set_bf s {| ents := bl a; junk := 0 |} = s.
Proof. intros []. destruct s as [b f i bt ft]; unfold set_bf; cbn in *. f_equal. symmetry. by apply ffile_eq. Qed.
Lemma store_eq_ff s a : Inv s a -> set_ff s {| ents := fl a; junk := 0 |} = s.
Proof. intros []. destruct s as [b f i bt ft]; unfold set_ff; cbn in *. f_equal. symmetry. by apply ffile_eq. Qed.

Lemma recover_block_id g s a : Inv s a -> recover_block g s = Some s.
Proof.
  intros HI. rewrite (recover_block_ahead g s a [] 0); [by rewrite (store_eq_bf s a)|by apply Inv_BIdx| | | |].
  - destruct HI. rewrite app_nil_r. by apply ffile_eq.
  - unfold BSZ; lia.
  - intros x Hx. by apply elem_of_nil in Hx.
  - destruct HI. unfold alen at 2. cbn. lia.
Qed.
Lemma recover_filter_id gfh g s a : Inv s a -> recover_filter gfh g s = Some s.
Proof.
  intros HI. rewrite (recover_filter_ahead gfh g s a [] 0); [by rewrite (store_eq_ff s a)|by apply Inv_FIdx| | | |].
  - destruct HI. rewrite app_nil_r. by apply ffile_eq.
  - unfold FSZ; lia.
  - intros x y Hx. by apply elem_of_nil in Hx.
  - destruct HI. unfold alen at 2. cbn. lia.
Qed.

Lemma set_bf_set_bf s f1 f2 : set_bf (set_bf s f1) f2 = set_bf s f2.
Proof. reflexivity. Qed.
Lemma set_ff_set_ff s f1 f2 : set_ff (set_ff s f1) f2 = set_ff s f2.
Proof. reflexivity. Qed.

(* block file = committed entries ++ uncommitted ones (+ torn bytes): back to s *)
Lemma recover_block_crash g gfh s a extra j :
  Inv s a -> 0 <= j < BSZ -> (forall x, x ∈ extra -> x ∉ bl a) ->
  alen (bl a) + alen extra < LIMIT ->
  recover g gfh (set_bf s {| ents := bl a ++ extra; junk := j |}) = Some s.
Proof.
  intros HI Hj Hfr HL. unfold recover.
  rewrite (recover_block_ahead g _ a extra j); try assumption; [| |reflexivity].
  - rewrite set_bf_set_bf, (store_eq_bf s a HI). by apply (recover_filter_id gfh g s a).
  - destruct HI. by constructor.
Qed.

(* filter file = committed entries ++ uncommitted ones (+ torn bytes): back to s *)
Lemma recover_filter_crash g gfh s a extra j :
  Inv s a -> 0 <= j < FSZ -> (forall x y, x ∈ extra -> y ∈ bl a -> x <> y) ->
  alen (fl a) + alen extra < LIMIT ->
  recover g gfh (set_ff s {| ents := fl a ++ extra; junk := j |}) = Some s.
Proof.
  intros HI Hj Hdis HL. unfold recover.
  set (c := set_ff s {| ents := fl a ++ extra; junk := j |}).
  assert (Hb : recover_block g c = Some c).
  { rewrite (recover_block_ahead g c a [] 0).
    - f_equal. unfold c. destruct HI. destruct s as [b f i bt ft]; unfold set_bf, set_ff; cbn in *. f_equal. symmetry. by apply ffile_eq.
    - destruct HI. by constructor.
    - unfold c. cbn. destruct HI. rewrite app_nil_r. by apply ffile_eq.
    - unfold BSZ; lia.
    - intros x Hx. by apply elem_of_nil in Hx.
    - destruct HI. unfold alen at 2. cbn. lia. }
  rewrite Hb. rewrite (recover_filter_ahead gfh g c a extra j); try assumption; [| |reflexivity].
  - unfold c. by rewrite set_ff_set_ff, (store_eq_ff s a HI).
  - destruct HI. by constructor.
Qed.

(* ---------- crash points ---------- *)
Definition torn_ok (ds : list dstep) (k : nat) (torn : option Z) : Prop :=
  match torn with
  | None => True
  | Some b =>
    match ds !! k with
    | Some (DAppendB es) => 0 < b < alen es * BSZ
    | Some (DAppendF es) => 0 < b < alen es * FSZ
    | _ => False
    end
  end.

(* filter-header values never coincide with block hashes *)
Definition tokens_disjoint (a : alog) (o : op) : Prop :=
  forall x y, x ∈ fl a ++ match o with FWrite es _ => es.*1 | _ => [] end -> y ∈ bl a -> x <> y.

Lemma partial_shape esz (f : ffile) es b : 0 < esz -> junk f = 0 -> 0 < b < alen es * esz -> alen es < LIMIT ->
  exists q j, fappend_partial esz f es b = {| ents := ents f ++ take q es; junk := j |} /\ 0 <= j < esz.
Proof.
  intros He Hj Hb HL. unfold fappend_partial. rewrite Hj. cbn [Z.eqb].
  exists (zn (b / esz)), (b mod esz). split; [reflexivity|]. apply Z.mod_pos_bound. lia.
Qed.

Lemma elem_of_take_sub {A} (l : list A) q x : x ∈ take q l -> x ∈ l.
Proof. intros H. apply elem_of_list_lookup in H as [i Hi]. apply lookup_take_Some in Hi as [Hi _]. eapply elem_of_list_lookup_2; eauto. Qed.

Lemma elem_of_drop_sub {A} (l : list A) q x : x ∈ drop q l -> x ∈ l.
Proof. intros H. apply elem_of_list_lookup in H as [i Hi]. rewrite lookup_drop in Hi. eapply elem_of_list_lookup_2; eauto. Qed.

Lemma alen_take_le (l : list Z) q : alen (take q l) <= alen l.
Proof. unfold alen. rewrite take_length. lia. Qed.

Section Crash.
Context (g gfh : Z) (s : store) (a : alog) (HI : Inv s a).

Lemma crash_bwrite es k torn c :
  wf_op a (BWrite es NoFault) ->
  crash_state s (steps_of s (BWrite es NoFault)) k torn = Some c ->
  torn_ok (steps_of s (BWrite es NoFault)) k torn ->
  recover g gfh c = Some s \/ recover g gfh c = Some (fst (step g gfh s (BWrite es NoFault))).
Proof.
  intros Hwf Hc Ht. pose proof Hwf as (Hh & Hnd & Hlim & _ & _).
  destruct (bwrite_ok s a es HI Hwf) as [HIa _].
  cbn [step]. destruct (bwrite s es NoFault) as [s' r] eqn:Ebw. cbn [fst] in *.
  destruct es as [|e0 es0] eqn:Ees.
  { unfold crash_state in Hc. cbn [steps_of] in Hc. rewrite take_nil in Hc. cbn in Hc.
    destruct torn; [rewrite lookup_nil in Hc; discriminate|].
    injection Hc as <-. left. by apply (recover_id g gfh s a). }
  rewrite <- Ees in *. assert (Hne : es <> []) by (subst; discriminate).
  assert (Hds : steps_of s (BWrite es NoFault) = [DAppendB es.*1; DIdxAdd (sort_batch es)]) by (subst es; reflexivity).
  rewrite Hds in *. clear Ees e0 es0.
  assert (Hbf : bf s = {| ents := bl a; junk := 0 |}) by (destruct HI; by apply ffile_eq).
  assert (Hfresh : forall x, x ∈ es.*1 -> x ∉ bl a).
  { intros x Hx Hy. apply NoDup_app in Hnd as (_ & Hd & _). by apply (Hd x). }
  destruct k as [|[|k]]; unfold crash_state in Hc; cbn [take apply_steps apply_step] in Hc.
  - destruct torn as [b|]; cbn in Hc, Ht.
    + injection Hc as <-. left.
      destruct (partial_shape BSZ (bf s) es.*1 b) as (q & j & Hq & Hj); [unfold BSZ; lia|by destruct HI|exact Ht|pose proof (alen_pos _ (i_bne _ _ HI)); lia|].
      rewrite Hq, Hbf. cbn [ents]. apply recover_block_crash; try assumption.
      * intros x Hx. apply Hfresh. by eapply elem_of_take_sub.
      * pose proof (alen_take_le es.*1 q). lia.
    + injection Hc as <-. left. by apply (recover_id g gfh s a).
  - destruct torn as [b|]; cbn in Hc, Ht; [contradiction|].
    injection Hc as <-. left. unfold fappend. rewrite Hbf. cbn.
    apply recover_block_crash; try assumption. unfold BSZ; lia.
  - rewrite take_nil in Hc. destruct torn as [b|]; cbn in Hc; [by destruct k|].
    right. assert (c = s') as ->; [|by apply (recover_id g gfh s' _ HIa)].
    injection Hc as <-.
    unfold bwrite, append_raw in Ebw. destruct es; [contradiction|]. by injection Ebw as <- _.
Qed.

Lemma crash_fwrite es k torn c :
  wf_op a (FWrite es NoFault) -> tokens_disjoint a (FWrite es NoFault) ->
  crash_state s (steps_of s (FWrite es NoFault)) k torn = Some c ->
  torn_ok (steps_of s (FWrite es NoFault)) k torn ->
  recover g gfh c = Some s \/ recover g gfh c = Some (fst (step g gfh s (FWrite es NoFault))).
Proof.
  intros Hwf Hdis Hc Ht. pose proof Hwf as (Hb & Hle & _ & _).
  destruct (fwrite_ok s a es HI Hwf) as [HIa _].
  cbn [step]. destruct (fwrite s es NoFault) as [s' r] eqn:Efw. cbn [fst] in *.
  destruct (last es) as [el|] eqn:El.
  2:{ apply last_None in El. subst es. unfold crash_state in Hc. cbn [steps_of last] in Hc.
      rewrite take_nil in Hc. cbn in Hc.
      destruct torn; [rewrite lookup_nil in Hc; discriminate|].
      injection Hc as <-. left. by apply (recover_id g gfh s a). }
  assert (Hds : steps_of s (FWrite es NoFault) = [DAppendF es.*1; DFTip el.2]) by (cbn; by rewrite El).
  rewrite Hds in *.
  assert (Hff : ff s = {| ents := fl a; junk := 0 |}) by (destruct HI; by apply ffile_eq).
  assert (Hd2 : forall x y, x ∈ es.*1 -> y ∈ bl a -> x <> y).
  { intros x y Hx Hy. apply (Hdis x y); [|exact Hy]. apply elem_of_app. by right. }
  assert (Hlim : alen (fl a) + alen es.*1 < LIMIT) by (destruct HI; lia).
  destruct k as [|[|k]]; unfold crash_state in Hc; cbn [take apply_steps apply_step] in Hc.
  - destruct torn as [b|]; cbn in Hc, Ht.
    + injection Hc as <-. left.
      destruct (partial_shape FSZ (ff s) es.*1 b) as (q & j & Hq & Hj); [unfold FSZ; lia|by destruct HI|exact Ht|pose proof (alen_pos _ (i_fne _ _ HI)); lia|].
      rewrite Hq, Hff. cbn [ents]. apply recover_filter_crash; try assumption.
      * intros x y Hx. apply Hd2. by eapply elem_of_take_sub.
      * pose proof (alen_take_le es.*1 q). lia.
    + injection Hc as <-. left. by apply (recover_id g gfh s a).
  - destruct torn as [b|]; cbn in Hc, Ht; [contradiction|].
    injection Hc as <-. left. unfold fappend. rewrite Hff. cbn.
    apply recover_filter_crash; try assumption. unfold FSZ; lia.
  - rewrite take_nil in Hc. destruct torn as [b|]; cbn in Hc; [by destruct k|].
    right. assert (c = s') as ->; [|by apply (recover_id g gfh s' _ HIa)].
    injection Hc as <-.
    unfold fwrite, append_raw in Efw. destruct es as [|e0 es0]; [discriminate|].
    injection Efw as <- _. cbn [set_ff ff bf idx btip ftip]. by rewrite El.
Qed.
End Crash.

Section CrashRollback.
Context (g gfh : Z) (s : store) (a : alog) (HI : Inv s a).

Lemma crash_brollback n k torn c :
  wf_op a (BRollback n NoFault) ->
  crash_state s (steps_of s (BRollback n NoFault)) k torn = Some c ->
  recover g gfh c = Some s \/ recover g gfh c = Some (fst (step g gfh s (BRollback n NoFault))).
Proof.
  intros Hwf Hc. cbn [step steps_of] in *.
  destruct (decide (n = 0)) as [->|Hn0].
  { cbn in Hc. unfold crash_state in Hc. rewrite take_nil in Hc. cbn in Hc.
    destruct torn; [by destruct k|]. injection Hc as <-. left. by apply (recover_id g gfh s a). }
  destruct (brollback_ok s a n HI Hwf Hn0) as [Hres HIa].
  set (a' := {| bl := take (zn (alen (bl a) - n)) (bl a); fl := fl a |}) in *.
  replace (n =? 0) with false in * by (symmetry; by apply Z.eqb_neq).
  unfold brollback in *. replace (n =? 0) with false in * by (symmetry; by apply Z.eqb_neq).
  unfold brollback_plan in *.
  destruct (tip_height s (btip s)) as [[t th]|]; [|discriminate].
  destruct (n >? th); [discriminate|].
  destruct (read_range BSZ (bf s) (th - n) th) as [[|prev rest]|]; try discriminate.
  cbn [run_steps step_fails apply_step] in *.
  set (c1 := {| bf := bf s; ff := ff s;
                idx := fold_left (λ (m : gmap Z Z) (x : Z), delete x m) (map rd_tok rest) (idx s);
                btip := Some (rd_tok prev); ftip := ftip s |}) in *.
  destruct (ftruncate BSZ (bf c1) (fsize BSZ (bf c1) - n * BSZ)) as [f'|] eqn:Ef; cbn [fmap option_fmap option_map run_steps fst snd] in *; [|discriminate].
  set (s' := set_bf c1 f') in *.
  destruct k as [|[|k]]; unfold crash_state in Hc; cbn [take apply_steps apply_step] in Hc.
  - destruct torn; cbn in Hc; [discriminate|]. injection Hc as <-. left. by apply (recover_id g gfh s a).
  - fold c1 in Hc. destruct torn; cbn in Hc; [discriminate|]. injection Hc as <-. right.
    assert (Hbl : bl a = bl a' ++ drop (zn (alen (bl a) - n)) (bl a)) by (cbn; by rewrite take_drop).
    assert (Hf' : f' = {| ents := bl a'; junk := 0 |}).
    { destruct HIa. subst s'. cbn in *. by apply ffile_eq. }
    unfold recover. rewrite (recover_block_ahead g c1 a' (drop (zn (alen (bl a) - n)) (bl a)) 0).
    + replace (set_bf c1 {| ents := bl a'; junk := 0 |}) with s' by (subst s'; by rewrite Hf').
      by apply (recover_filter_id gfh g s' a').
    + destruct HIa. subst s'. by constructor.
    + cbn [bf c1]. rewrite <- Hbl. destruct HI. by apply ffile_eq.
    + unfold BSZ; lia.
    + intros x Hx Hy. pose proof (i_nd _ _ HI) as Hnd. rewrite Hbl in Hnd. apply NoDup_app in Hnd as (_ & Hd & _). by apply (Hd x).
    + rewrite <- alen_app, <- Hbl. destruct HI. lia.
  - rewrite take_nil in Hc. fold c1 in Hc. cbn [bf] in Hc. cbn [bf] in Ef. rewrite Ef in Hc.
    cbn [fmap option_fmap option_map apply_steps] in Hc.
    destruct torn; [by destruct k|]. injection Hc as <-. right.
    by apply (recover_id g gfh s' a').
Qed.

Lemma crash_frollback nt k torn c :
  wf_op a (FRollback nt NoFault) -> tokens_disjoint a (FRollback nt NoFault) ->
  crash_state s (steps_of s (FRollback nt NoFault)) k torn = Some c ->
  recover g gfh c = Some s \/ recover g gfh c = Some (fst (step g gfh s (FRollback nt NoFault))).
Proof.
  intros Hwf Hdis Hc. cbn [step steps_of] in *.
  destruct (frollback_ok s a nt HI Hwf) as [Hres HIa].
  set (a' := {| bl := bl a; fl := take (zn (alen (fl a) - 1)) (fl a) |}) in *.
  unfold frollback in *. unfold frollback_plan in *.
  destruct (tip_height s (ftip s)) as [[t th]|]; [|discriminate].
  destruct (fread FSZ (ff s) (u32 (th - 1))) as [x| |] eqn:Er; try discriminate.
  all: cbn [run_steps step_fails apply_step] in *.
  all: set (c1 := {| bf := bf s; ff := ff s; idx := idx s; btip := btip s; ftip := Some nt |}) in *.
  all: destruct (ftruncate FSZ (ff c1) (fsize FSZ (ff c1) - 1 * FSZ)) as [f'|] eqn:Ef; cbn [fmap option_fmap option_map run_steps fst snd] in *; [|discriminate].
  all: set (s' := set_ff c1 f') in *.
  all: destruct k as [|[|k]]; unfold crash_state in Hc; cbn [take apply_steps apply_step] in Hc.
  all: try (destruct torn; cbn in Hc; [discriminate|]; injection Hc as <-; left; by apply (recover_id g gfh s a)).
  all: try (rewrite take_nil in Hc; fold c1 in Hc; cbn [ff] in Hc; cbn [ff] in Ef; rewrite Ef in Hc;
            cbn [fmap option_fmap option_map apply_steps] in Hc;
            destruct torn; [by destruct k|]; injection Hc as <-; right;
            by apply (recover_id g gfh s' a')).
  all: fold c1 in Hc; destruct torn; cbn in Hc; [discriminate|]; injection Hc as <-; right.
  all: assert (Hfl : fl a = fl a' ++ drop (zn (alen (fl a) - 1)) (fl a)) by (cbn; by rewrite take_drop).
  all: assert (Hf' : f' = {| ents := fl a'; junk := 0 |}) by (destruct HIa; subst s'; cbn in *; by apply ffile_eq).
  all: unfold recover.
  all: assert (Hb : recover_block g c1 = Some c1).
  all: try (rewrite (recover_block_ahead g c1 a [] 0);
     [f_equal; destruct HI; destruct s as [b f i bt ft]; unfold set_bf, c1; cbn in *; f_equal; symmetry; by apply ffile_eq
     |destruct HI; by constructor
     |cbn; destruct HI; rewrite app_nil_r; by apply ffile_eq
     |unfold BSZ; lia
     |intros y Hy; by apply elem_of_nil in Hy
     |destruct HI; unfold alen at 2; cbn; lia]).
  all: rewrite Hb.
  all: rewrite (recover_filter_ahead gfh g c1 a' (drop (zn (alen (fl a) - 1)) (fl a)) 0);
     [replace (set_ff c1 {| ents := fl a'; junk := 0 |}) with s' by (subst s'; by rewrite Hf');
      reflexivity
     |destruct HIa; subst s'; by constructor
     |cbn [ff c1]; rewrite <- Hfl; destruct HI; by apply ffile_eq
     |unfold FSZ; lia
     |intros y z Hy Hz; apply (Hdis y z); [rewrite app_nil_r; by eapply elem_of_drop_sub|exact Hz]
     |rewrite <- alen_app, <- Hfl; destruct HI; lia].
Qed.
End CrashRollback.

(* ---------- the main theorem ---------- *)
Definition mutating (o : op) : Prop :=
  match o with
  | BWrite _ NoFault | FWrite _ NoFault | BRollback _ NoFault | FRollback _ NoFault => True
  | _ => False
  end.

Lemma crash_recovers g gfh s a o k torn c :
  Inv s a -> wf_op a o -> mutating o -> tokens_disjoint a o ->
  crash_state s (steps_of s o) k torn = Some c -> torn_ok (steps_of s o) k torn ->
  recover g gfh c = Some s \/ recover g gfh c = Some (fst (step g gfh s o)).
Proof.
  intros HI Hwf Hm Hdis Hc Ht. destruct o; try contradiction; destruct flt; try contradiction.
  - by apply (crash_bwrite g gfh s a HI es k torn c).
  - by apply (crash_fwrite g gfh s a HI es k torn c).
  - by apply (crash_brollback g gfh s a HI n k torn c).
  - by apply (crash_frollback g gfh s a HI newtip k torn c).
Qed.

(* the recovered stores are a state of the plain log: the one before or the
   one after the interrupted operation *)
Lemma crash_recovers_inv g gfh s a o k torn c :
  Inv s a -> wf_op a o -> mutating o -> tokens_disjoint a o ->
  crash_state s (steps_of s o) k torn = Some c -> torn_ok (steps_of s o) k torn ->
  exists s' a', recover g gfh c = Some s' /\ Inv s' a' /\ (a' = a \/ a' = fst (astep a o)).
Proof.
  intros HI Hwf Hm Hdis Hc Ht.
  destruct (crash_recovers g gfh s a o k torn c HI Hwf Hm Hdis Hc Ht) as [Hr|Hr].
  - exists s, a. auto.
  - exists (fst (step g gfh s o)), (fst (astep a o)). split; [exact Hr|]. split; [|by right].
    exact (proj1 (step_refines g gfh s a o HI Hwf)).
Qed.

Lemma step_fails_nofault d : step_fails d NoFault = false.
Proof. by destruct d. Qed.

Lemma run_steps_apply ds : forall s s', run_steps s ds NoFault = (s', true) -> apply_steps s ds = Some s'.
Proof.
  induction ds as [|d ds IH]; intros s s'; cbn [run_steps apply_steps].
  - by intros [= <-].
  - rewrite step_fails_nofault. destruct (apply_step s d) as [s1|]; [apply IH|discriminate].
Qed.

(* every prefix of the durable steps is a crash point; the complete list is
   the operation itself *)
Lemma steps_complete g gfh s a o :
  Inv s a -> wf_op a o -> mutating o ->
  crash_state s (steps_of s o) (length (steps_of s o)) None = Some (fst (step g gfh s o)).
Proof.
  intros HI Hwf Hm. unfold crash_state. rewrite firstn_all.
  destruct o; try contradiction; destruct flt; try contradiction; cbn [step steps_of].
  - unfold bwrite, append_raw. destruct es as [|e0 es0]; cbn.
    + rewrite fappend_nil by (by destruct HI). by rewrite set_bf_id.
    + reflexivity.
  - unfold fwrite, append_raw. destruct (last es) as [el|] eqn:El.
    + destruct es as [|e0 es0]; [discriminate|]. reflexivity.
    + apply last_None in El. by subst.
  - destruct (decide (n = 0)) as [->|Hn0]; [reflexivity|].
    destruct (brollback_ok s a n HI Hwf Hn0) as [Hres _].
    replace (n =? 0) with false by (symmetry; by apply Z.eqb_neq).
    unfold brollback in *. replace (n =? 0) with false in * by (symmetry; by apply Z.eqb_neq).
    destruct (brollback_plan s n) as [[[ds h] x]|]; [|discriminate].
    destruct (run_steps s ds NoFault) as [s' ok] eqn:Er. destruct ok; [|discriminate].
    cbn [fst]. by rewrite (run_steps_apply ds s s' Er).
  - destruct (frollback_ok s a newtip HI Hwf) as [Hres _].
    unfold frollback in *.
    destruct (frollback_plan s newtip) as [[[ds h] x]|]; [|discriminate].
    destruct (run_steps s ds NoFault) as [s' ok] eqn:Er. destruct ok; [|discriminate].
    cbn [fst]. by rewrite (run_steps_apply ds s s' Er).
Qed.
