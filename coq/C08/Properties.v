(* C08 — the property theorems, and nothing else. *)
From stdpp Require Import gmap list.
From Coq Require Import ZArith Lia.
From Verif Require Import S1.Model C07.Spec C07.Proofs C08.Model C08.Proofs.
Open Scope Z_scope.

(* A crash at ANY point - after any prefix of the durable steps of a store
   operation (file append, file truncate, index transaction), or inside a
   file append with ANY number of bytes written - leaves both stores
   recoverable: reopening succeeds and yields EXACTLY the state before or
   the state after the interrupted operation. *)
Theorem C08_crash_recovers : forall g gfh s a o k torn c,
  Inv s a -> wf_op a o -> mutating o -> tokens_disjoint a o ->
  crash_state s (steps_of s o) k torn = Some c -> torn_ok (steps_of s o) k torn ->
  recover g gfh c = Some s \/ recover g gfh c = Some (fst (step g gfh s o)).
Proof. exact crash_recovers. Qed.
Print Assumptions C08_crash_recovers.

(* ... for every history: any well-formed sequence of operations from the
   freshly created stores, then a crash inside the next operation.  The
   recovered stores refine the plain log from before or after that operation,
   so (Inv): no torn, shifted or unreadable entry, the filter chain is not
   ahead of the block chain, and - by C07_refines_log from that state -
   syncing resumes. *)
Theorem C08_every_history : forall g gfh ops o k torn s0 c,
  init g gfh = Some s0 ->
  wf_ops {| bl := [g]; fl := [gfh] |} ops ->
  let s := fst (run g gfh s0 ops) in
  let a := fst (arun {| bl := [g]; fl := [gfh] |} ops) in
  wf_op a o -> mutating o -> tokens_disjoint a o ->
  crash_state s (steps_of s o) k torn = Some c -> torn_ok (steps_of s o) k torn ->
  exists s' a', recover g gfh c = Some s' /\ Inv s' a' /\ (a' = a \/ a' = fst (astep a o)).
Proof.
  intros g gfh ops o k torn s0 c Hi Hwf s a Hwo Hm Hd Hc Ht.
  destruct (init_inv g gfh) as (s0' & Hi' & HI0). rewrite Hi in Hi'. injection Hi' as <-.
  pose proof (proj2 (run_refines g gfh ops s0 _ HI0 Hwf)) as HI.
  exact (crash_recovers_inv g gfh s a o k torn c HI Hwo Hm Hd Hc Ht).
Qed.
Print Assumptions C08_every_history.

(* The crash points are exactly the prefixes of the operation's own steps:
   running all of them is the operation. *)
Theorem C08_steps_are_the_operation : forall g gfh s a o,
  Inv s a -> wf_op a o -> mutating o ->
  crash_state s (steps_of s o) (length (steps_of s o)) None = Some (fst (step g gfh s o)).
Proof. exact steps_complete. Qed.
Print Assumptions C08_steps_are_the_operation.

(* What Inv gives for the recovered state (stated separately so that it is
   visible): un-torn files, position = height, filter chain not ahead. *)
Theorem C08_recovered_shape : forall s a, Inv s a ->
  junk (bf s) = 0 /\ junk (ff s) = 0 /\ ents (bf s) = bl a /\ ents (ff s) = fl a /\
  alen (fl a) <= alen (bl a).
Proof. intros s a []. auto. Qed.
Print Assumptions C08_recovered_shape.

(* Non-vacuity: concrete crash points of each kind on a concrete history
   (torn block append inside an entry; rollback between index commit and file
   truncate; filter rollback; torn filter append) exist and recover. *)
Definition ex_pre : list op :=
  [ BWrite [(11, 1); (12, 2); (13, 3)] NoFault; FWrite [(1000001, 11); (1000002, 12)] NoFault ].
Definition ex_state : option store :=
  match init 7 1000000 with Some s0 => Some (fst (run 7 1000000 s0 ex_pre)) | None => None end.
Definition ex_crash (o : op) (k : nat) (torn : option Z) : option (option store * option store) :=
  match ex_state with
  | Some s => match crash_state s (steps_of s o) k torn with
              | Some c => Some (recover 7 1000000 c, Some s)
              | None => None end
  | None => None
  end.
Example C08_nonvacuous :
  (exists r, ex_crash (BWrite [(14, 4); (15, 5)] NoFault) 0 (Some 117) = Some (r, r)) /\
  (exists r s, ex_crash (BRollback 1 NoFault) 1 None = Some (Some r, Some s) /\ r <> s /\
               ents (bf r) = [7; 11; 12]) /\
  (exists r s, ex_crash (FRollback 11 NoFault) 1 None = Some (Some r, Some s) /\ ents (ff r) = [1000000; 1000001]) /\
  (exists r, ex_crash (FWrite [(1000003, 13)] NoFault) 0 (Some 31) = Some (r, r)).
Proof.
  split; [eexists; vm_compute; reflexivity|].
  split; [do 2 eexists; split; [vm_compute; reflexivity|split; [intros E; apply (f_equal (fun s => length (ents (bf s)))) in E; vm_compute in E; discriminate|vm_compute; reflexivity]]|].
  split; [do 2 eexists; split; [vm_compute; reflexivity|vm_compute; reflexivity]|].
  eexists; vm_compute; reflexivity.
Qed.
