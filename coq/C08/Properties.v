(* C08 — the property theorems, and nothing else. *)
From stdpp Require Import gmap list.
From Coq Require Import ZArith Lia.
From Verif Require Import S1.Model C07.Spec C07.Proofs C08.Model C08.Proofs C08.ProofsS C08.ProofsL.
Open Scope Z_scope.

(* A crash at ANY point - after any prefix of the durable steps of a store
   operation (file append, file truncate, index transaction), or inside a
   file append with ANY number of bytes written - leaves both stores
   recoverable: reopening succeeds and yields EXACTLY the state before or
   the state after the interrupted operation. *)
Theorem C08_crash_recovers : forall g gfh s a o k torn c,
  Inv s a -> wf_op a o -> mutating o -> tokens_disjoint a o ->
  crash_state s (steps_of s o) k torn = Some c -> torn_ok (steps_of s o) k torn ->
  recover g gfh c = Some s \/ recover g gfh c = Some (fst (step g gfh s o)).
Proof. exact crash_recovers. Qed.
Print Assumptions C08_crash_recovers.

(* ... for every history: any well-formed sequence of operations from the
   freshly created stores, then a crash inside the next operation.  The
   recovered stores refine the plain log from before or after that operation,
   so (Inv): no torn, shifted or unreadable entry, the filter chain is not
   ahead of the block chain, and - by C07_refines_log from that state -
   syncing resumes. *)
Theorem C08_every_history : forall g gfh ops o k torn s0 c,
  init g gfh = Some s0 ->
  wf_ops {| bl := [g]; fl := [gfh] |} ops ->
  let s := fst (run g gfh s0 ops) in
  let a := fst (arun {| bl := [g]; fl := [gfh] |} ops) in
  wf_op a o -> mutating o -> tokens_disjoint a o ->
  crash_state s (steps_of s o) k torn = Some c -> torn_ok (steps_of s o) k torn ->
  exists s' a', recover g gfh c = Some s' /\ Inv s' a' /\ (a' = a \/ a' = fst (astep a o)).
Proof.
  intros g gfh ops o k torn s0 c Hi Hwf s a Hwo Hm Hd Hc Ht.
  destruct (init_inv g gfh) as (s0' & Hi' & HI0). rewrite Hi in Hi'. injection Hi' as <-.
  pose proof (proj2 (run_refines g gfh ops s0 _ HI0 Hwf)) as HI.
  exact (crash_recovers_inv g gfh s a o k torn c HI Hwo Hm Hd Hc Ht).
Qed.
Print Assumptions C08_every_history.

(* The crash points are exactly the prefixes of the operation's own steps:
   running all of them is the operation. *)
Theorem C08_steps_are_the_operation : forall g gfh s a o,
  Inv s a -> wf_op a o -> mutating o ->
  crash_state s (steps_of s o) (length (steps_of s o)) None = Some (fst (step g gfh s o)).
Proof. exact steps_complete. Qed.
Print Assumptions C08_steps_are_the_operation.

(* What Inv gives for the recovered state (stated separately so that it is
   visible): un-torn files, position = height, filter chain not ahead. *)
Theorem C08_recovered_shape : forall s a, Inv s a ->
  junk (bf s) = 0 /\ junk (ff s) = 0 /\ ents (bf s) = bl a /\ ents (ff s) = fl a /\
  alen (fl a) <= alen (bl a).
Proof. intros s a []. auto. Qed.
Print Assumptions C08_recovered_shape.

(* Non-vacuity: concrete crash points of each kind on a concrete history
   (torn block append inside an entry; rollback between index commit and file
   truncate; filter rollback; torn filter append) exist and recover. *)
Definition ex_pre : list op :=
  [ BWrite [(11, 1); (12, 2); (13, 3)] NoFault; FWrite [(1000001, 11); (1000002, 12)] NoFault ].
Definition ex_state : option store :=
  match init 7 1000000 with Some s0 => Some (fst (run 7 1000000 s0 ex_pre)) | None => None end.
Definition ex_crash (o : op) (k : nat) (torn : option Z) : option (option store * option store) :=
  match ex_state with
  | Some s => match crash_state s (steps_of s o) k torn with
              | Some c => Some (recover 7 1000000 c, Some s)
              | None => None end
  | None => None
  end.
Example C08_nonvacuous :
  (exists r, ex_crash (BWrite [(14, 4); (15, 5)] NoFault) 0 (Some 117) = Some (r, r)) /\
  (exists r s, ex_crash (BRollback 1 NoFault) 1 None = Some (Some r, Some s) /\ r <> s /\
               ents (bf r) = [7; 11; 12]) /\
  (exists r s, ex_crash (FRollback 11 NoFault) 1 None = Some (Some r, Some s) /\ ents (ff r) = [1000000; 1000001]) /\
  (exists r, ex_crash (FWrite [(1000003, 13)] NoFault) 0 (Some 31) = Some (r, r)).
Proof.
  split; [eexists; vm_compute; reflexivity|].
  split; [do 2 eexists; split; [vm_compute; reflexivity|split; [intros E; apply (f_equal (fun s => length (ents (bf s)))) in E; vm_compute in E; discriminate|vm_compute; reflexivity]]|].
  split; [do 2 eexists; split; [vm_compute; reflexivity|vm_compute; reflexivity]|].
  eexists; vm_compute; reflexivity.
Qed.


(* ======================= START-UP PATHS ======================= *)

(* The very first start on an EMPTY directory (F41).  NewBlockHeaderStore
   writes the genesis header (file append, then one index transaction); then
   NewFilterHeaderStore writes the genesis filter header (file append, then
   the index tip).  [filter = false]: crash inside the first, [true]: inside
   the second (block store complete).  For EVERY crash point - any prefix of
   the steps, and inside a file append ANY number of bytes 0 <= b <= entry
   size - the next start yields exactly the freshly initialised stores, which
   satisfy the C07 invariant.  No hypothesis on the genesis tokens g, gfh
   (they need not even be distinct). *)
Theorem C08_first_start_crash_recovers : forall g gfh filter k torn c,
  first_start_crash g gfh filter k torn = Some c ->
  torn_le (if filter then first_steps_f g gfh else first_steps_b g) k torn ->
  recover g gfh c = init g gfh /\
  exists s, init g gfh = Some s /\ Inv s {| bl := [g]; fl := [gfh] |}.
Proof.
  intros g gfh filter k torn c Hc Ht.
  destruct (first_start_crash_recovers g gfh filter k torn c Hc Ht) as (H1 & H2 & H3).
  split; [exact H1|]. exists (init_state g gfh). by split.
Qed.
Print Assumptions C08_first_start_crash_recovers.

(* the two phases are consecutive and together are the first start *)
Theorem C08_first_start_steps_are_the_start : forall g gfh,
  first_start_crash g gfh false (length (first_steps_b g)) None = first_start_crash g gfh true 0 None /\
  first_start_crash g gfh true (length (first_steps_f g gfh)) None = init g gfh.
Proof. intros. split; reflexivity. Qed.
Print Assumptions C08_first_start_steps_are_the_start.

(* ... as ONE list of four durable steps, the way NewChainService performs
   the first start (block store, then filter store). *)
Theorem C08_first_start_chain_service_crash_recovers : forall g gfh k torn c,
  first_start_crash_cs g gfh k torn = Some c ->
  torn_le (first_steps_b g ++ first_steps_f g gfh) k torn ->
  recover g gfh c = init g gfh.
Proof. exact first_start_cs_crash_recovers. Qed.
Print Assumptions C08_first_start_chain_service_crash_recovers.

(* The theorems above are about the order block store, THEN filter store, and
   depend on it.  Swapped (filter store first, as a start-up routine might do
   "to check the assertion first"): the crash image after the filter store's
   two steps and before the block store's genesis commit holds a filter tip
   whose hash the index does not know.  The first constructor of that order,
   NewFilterHeaderStore, rejects the image - with or without an assertion -
   so the swapped start-up never gets past it; only the canonical order's
   [recover] (block store first, which writes the missing index entry) would
   still repair it. *)
Definition swapped_image (g gfh : Z) : option store := apply_steps empty_store (first_steps_f g gfh).
Definition recover_swapped (g gfh : Z) (s : store) : option store :=
  match recover_filter gfh g s with
  | Some s1 => recover_block g s1
  | None => None
  end.
Example C08_first_start_order_matters :
  exists c, swapped_image 7 1000000 = Some c /\
    ents (ff c) = [1000000] /\ ftip c = Some 7 /\ idx c !! 7 = None /\ ents (bf c) = [] /\
    recover_filter 1000000 7 c = None /\
    recover_filter_assert 1000000 7 (Some (0, 1000000)) c = None /\
    recover_swapped 7 1000000 c = None /\
    (* a torn block genesis behind it changes nothing *)
    recover_swapped 7 1000000 (set_bf c {| ents := []; junk := 41 |}) = None /\
    recover 7 1000000 c = init 7 1000000.
Proof. eexists. split; [reflexivity|]. repeat (split; [vm_compute; reflexivity|]). vm_compute; reflexivity. Qed.

(* The repaired rule in general: a store whose index never recorded a tip is
   started over WHATEVER its file holds (any entries, any torn tail shorter
   than an entry) and whatever else the index holds. *)
Theorem C08_no_tip_starts_over : forall g gfh c,
  (btip c = None -> 0 <= junk (bf c) < BSZ ->
   recover_block g c = Some {| bf := {| ents := [g]; junk := 0 |}; ff := ff c;
                               idx := <[ g := 0 ]> (idx c); btip := Some g; ftip := ftip c |}) /\
  (forall asr, ftip c = None -> 0 <= junk (ff c) < FSZ ->
   recover_filter_assert gfh g asr c =
     Some {| bf := bf c; ff := {| ents := [gfh]; junk := 0 |}; idx := idx c; btip := btip c; ftip := Some g |}).
Proof.
  intros g gfh c. split.
  - exact (recover_block_no_tip g c).
  - intros asr. exact (recover_filter_assert_no_tip gfh g asr c).
Qed.
Print Assumptions C08_no_tip_starts_over.

(* The filter header state reset (F42).  [s] is ANY store state satisfying the
   C07 invariant whose two files start with the genesis entries (true of every
   reachable state, see C08_assert_reset_every_history), (h, v) ANY assertion
   that triggers the reset in s.  The reset is the durable steps
   [reset_steps]: index tip := genesis block; filter file removed; genesis
   filter header appended to the new file; index tip := genesis block.  For
   EVERY crash point (any prefix; inside the append any 0 <= b <= 32 bytes),
   reopening the image
     - with the same assertion yields the reset state;
     - without an assertion yields the reset state, or s itself when nothing
       had happened yet (k = 0);
   and the reset state satisfies the invariant with the filter log [gfh].
   Hypothesis Hdis: filter-header values never coincide with block hashes. *)
Theorem C08_assert_reset_crash_recovers : forall g gfh s a h v k torn c,
  Inv s a -> at_h (bl a) 0 = Some g -> at_h (fl a) 0 = Some gfh ->
  (forall x y, x ∈ fl a -> y ∈ bl a -> x <> y) ->
  assertion_resets (ff s) (Some (h, v)) = true ->
  reset_crash g gfh s k torn = Some c -> torn_le (reset_steps gfh g) k torn ->
  let r := reset_state g gfh s in
  recover_assert g gfh (Some (h, v)) c = Some r /\
  (recover g gfh c = Some r \/ (k = 0%nat /\ c = s /\ recover g gfh c = Some s)) /\
  Inv r {| bl := bl a; fl := [gfh] |}.
Proof.
  intros g gfh s a h v k torn c HI Hg Hgf Hdis Ha Hc Ht r.
  destruct (reset_crash_recovers g gfh s a HI Hg Hgf Hdis _ k torn c Ha Hc Ht) as [H1 H2].
  split; [exact H1|]. split; [exact H2|]. exact (reset_inv g gfh s a HI Hg).
Qed.
Print Assumptions C08_assert_reset_crash_recovers.

(* ... for every history: any well-formed sequence of operations from the
   freshly created stores, then a start with an assertion that triggers, and
   a crash anywhere inside the reset. *)
Theorem C08_assert_reset_every_history : forall g gfh ops s0 h v k torn c,
  init g gfh = Some s0 -> wf_ops {| bl := [g]; fl := [gfh] |} ops ->
  let s := fst (run g gfh s0 ops) in
  let a := fst (arun {| bl := [g]; fl := [gfh] |} ops) in
  (forall x y, x ∈ fl a -> y ∈ bl a -> x <> y) ->
  assertion_resets (ff s) (Some (h, v)) = true ->
  reset_crash g gfh s k torn = Some c -> torn_le (reset_steps gfh g) k torn ->
  exists s' a', recover_assert g gfh (Some (h, v)) c = Some (reset_state g gfh s) /\
    recover g gfh c = Some s' /\ Inv s' a' /\
    Inv (reset_state g gfh s) {| bl := bl a; fl := [gfh] |} /\
    ((s' = reset_state g gfh s /\ a' = {| bl := bl a; fl := [gfh] |}) \/ (k = 0%nat /\ s' = s /\ a' = a)).
Proof.
  intros g gfh ops s0 h v k torn c Hi Hwf s a Hdis Ha Hc Ht.
  exact (reset_crash_every_history g gfh ops s0 _ k torn c Hi Hwf Hdis Ha Hc Ht).
Qed.
Print Assumptions C08_assert_reset_every_history.

(* The crash points are the prefixes of the reset's own steps: all of them
   are what NewFilterHeaderStore does when the assertion triggers. *)
Theorem C08_reset_steps_are_the_reset : forall g gfh s a h v,
  Inv s a -> at_h (bl a) 0 = Some g -> assertion_resets (ff s) (Some (h, v)) = true ->
  reset_crash g gfh s (length (reset_steps gfh g)) None = Some (reset_state g gfh s) /\
  recover_filter_assert gfh g (Some (h, v)) s = Some (reset_state g gfh s).
Proof. intros g gfh s a h v HI Hg Ha. exact (reset_steps_complete g gfh s a HI _ Ha). Qed.
Print Assumptions C08_reset_steps_are_the_reset.

(* When the assertion triggers, in the vocabulary of the log. *)
Theorem C08_assert_trigger_iff : forall s a h v, Inv s a ->
  assertion_resets (ff s) (Some (h, v)) = true <-> exists x, at_h (fl a) h = Some x /\ x <> v.
Proof. exact assert_trigger_iff. Qed.
Print Assumptions C08_assert_trigger_iff.

(* An assertion that does not trigger - the asserted height is not in the
   (trimmed) file, or the stored value equals the asserted one, or the file
   is empty so that the constructor writes the genesis entry and returns
   without looking at the assertion - makes no difference: on EVERY store
   state (crash images included) the constructor with the assertion is the
   constructor without it. *)
Theorem C08_assert_no_reset_is_plain_open : forall g gfh asr s0,
  let f := reset_if_no_tip FSZ (ftip s0) (trim FSZ (ff s0)) in
  fsize FSZ f = 0 \/ assertion_resets f asr = false ->
  recover_filter_assert gfh g asr s0 = recover_filter gfh g s0.
Proof. intros g gfh asr s0. exact (assert_no_reset_plain gfh g asr s0). Qed.
Print Assumptions C08_assert_no_reset_is_plain_open.

(* ... and on a state satisfying the invariant it is the identity. *)
Theorem C08_assert_no_reset_identity : forall g gfh s a h v, Inv s a ->
  at_h (fl a) h = None \/ at_h (fl a) h = Some v ->
  recover_assert g gfh (Some (h, v)) s = recover g gfh s /\ recover g gfh s = Some s.
Proof. exact assert_no_reset_inv. Qed.
Print Assumptions C08_assert_no_reset_identity.

(* Asserting height 0 (the genesis entry).  The right value changes nothing;
   a wrong value resets - to a file whose height 0 again holds gfh, i.e. the
   assertion is STILL wrong.  There is no loop: the constructor calls itself
   with a nil assertion after a reset, and opening the reset state with the
   same assertion resets once more to the same state (idempotent), every
   start. *)
Theorem C08_assert_height_zero : forall g gfh s a v,
  Inv s a -> at_h (bl a) 0 = Some g -> at_h (fl a) 0 = Some gfh ->
  recover_assert g gfh (Some (0, v)) s = Some (if v =? gfh then s else reset_state g gfh s) /\
  recover_assert g gfh (Some (0, v)) (reset_state g gfh s) = Some (reset_state g gfh s).
Proof. exact assert_height_zero. Qed.
Print Assumptions C08_assert_height_zero.

(* Non-vacuity of the start-up theorems: a store with 5 block / 4 filter
   entries, the assertion (2, 999) triggers (height 2 holds 1000002); every
   step boundary and three torn lengths of the genesis append recover, with
   and without the assertion.  First start: the image "genesis header in the
   block file, empty index" (the F41 state: before the fix recover returned
   None on it, every later start failed) and a torn filter genesis entry
   recover to the initial state. *)
Definition ex2_pre : list op :=
  [ BWrite [(11, 1); (12, 2); (13, 3); (14, 4)] NoFault;
    FWrite [(1000001, 11); (1000002, 12); (1000003, 13)] NoFault ].
Definition ex2_state : option store :=
  match init 7 1000000 with Some s0 => Some (fst (run 7 1000000 s0 ex2_pre)) | None => None end.
Definition ex2_reset (k : nat) (torn : option Z) : option (option store * option store) :=
  match ex2_state with
  | Some s =>
    if assertion_resets (ff s) (Some (2, 999)) then
      match reset_crash 7 1000000 s k torn with
      | Some c => Some (recover_assert 7 1000000 (Some (2, 999)) c, recover 7 1000000 c)
      | None => None
      end
    else None
  | None => None
  end.
Definition ex_first (filter : bool) (k : nat) (torn : option Z) : option (option store) :=
  match first_start_crash 7 1000000 filter k torn with
  | Some c => Some (recover 7 1000000 c)
  | None => None
  end.
Example C08_startup_nonvacuous :
  (exists s r, ex2_state = Some s /\ r = reset_state 7 1000000 s /\
     ents (bf s) = [7; 11; 12; 13; 14] /\ ents (ff s) = [1000000; 1000001; 1000002; 1000003] /\
     ents (bf r) = [7; 11; 12; 13; 14] /\ ents (ff r) = [1000000] /\ r <> s /\
     ex2_reset 0 None = Some (Some r, Some s) /\
     ex2_reset 1 None = Some (Some r, Some r) /\
     ex2_reset 2 None = Some (Some r, Some r) /\
     ex2_reset 2 (Some 0) = Some (Some r, Some r) /\
     ex2_reset 2 (Some 17) = Some (Some r, Some r) /\
     ex2_reset 2 (Some 32) = Some (Some r, Some r) /\
     ex2_reset 3 None = Some (Some r, Some r) /\
     ex2_reset 4 None = Some (Some r, Some r)) /\
  (first_start_crash 7 1000000 false 1 None =
     Some {| bf := {| ents := [7]; junk := 0 |}; ff := {| ents := []; junk := 0 |};
             idx := ∅; btip := None; ftip := None |} /\
   ex_first false 1 None = Some (init 7 1000000) /\
   ex_first false 0 (Some 80) = Some (init 7 1000000) /\
   ex_first false 0 (Some 33) = Some (init 7 1000000) /\
   ex_first true 0 (Some 31) = Some (init 7 1000000) /\
   ex_first true 1 None = Some (init 7 1000000) /\
   init 7 1000000 <> None).
Proof.
  split.
  - do 2 eexists. split; [vm_compute; reflexivity|]. split; [reflexivity|].
    repeat (split; [vm_compute; reflexivity|]).
    split; [intros E; apply (f_equal (fun s => length (ents (ff s)))) in E; vm_compute in E; discriminate|].
    repeat (split; [vm_compute; reflexivity|]). vm_compute; reflexivity.
  - repeat (split; [vm_compute; reflexivity|]). vm_compute. discriminate.
Qed.


(* ======================= LOST FILE TAIL (not a process crash) ======================= *)

(* Outside the crash model of the theorems above: a power loss may lose the
   unsynced tail of a flat file although the index transactions that followed
   it are durable ("index tip beyond the file").  For EVERY state satisfying
   the invariant and EVERY number of lost bytes that leaves at least the
   genesis entry in the file, the start-up FAILS CLOSED: NewBlockHeaderStore /
   NewFilterHeaderStore refuse to open (fileHeight - tipHeight wraps, the
   truncation is rejected).  Nothing is repaired, nothing is served from a
   store whose index knows headers the file no longer holds.  (If the whole
   file is lost - fewer than one entry left - the constructor starts the file
   over with the genesis entry while the old index entries stay: not covered,
   see props/C08.json.) *)
Theorem C08_lost_tail_fails_closed : forall g gfh s a bytes c,
  Inv s a ->
  (lose_block_tail s bytes = Some c /\ BSZ <= fsize BSZ (bf s) - bytes) \/
  (lose_filter_tail s bytes = Some c /\ FSZ <= fsize FSZ (ff s) - bytes /\
   forall x y, x ∈ fl a -> y ∈ bl a -> x <> y) ->
  recover g gfh c = None.
Proof.
  intros g gfh s a bytes c HI [[Hc Hr]|(Hc & Hr & Hdis)].
  - exact (lost_block_tail_fails_closed g gfh s a HI bytes c Hc Hr).
  - exact (lost_filter_tail_fails_closed g gfh s a HI bytes c Hdis Hc Hr).
Qed.
Print Assumptions C08_lost_tail_fails_closed.

(* ... for every history. *)
Theorem C08_lost_tail_every_history : forall g gfh ops s0 bytes c,
  init g gfh = Some s0 -> wf_ops {| bl := [g]; fl := [gfh] |} ops ->
  let s := fst (run g gfh s0 ops) in
  lose_block_tail s bytes = Some c -> BSZ <= fsize BSZ (bf s) - bytes ->
  recover g gfh c = None.
Proof.
  intros g gfh ops s0 bytes c Hi Hwf s Hc Hr.
  destruct (init_inv g gfh) as (s0' & Hi' & HI0). rewrite Hi in Hi'. injection Hi' as <-.
  pose proof (proj2 (run_refines g gfh ops s0 _ HI0 Hwf)) as HI.
  exact (lost_block_tail_fails_closed g gfh _ _ HI bytes c Hc Hr).
Qed.
Print Assumptions C08_lost_tail_every_history.

(* Non-vacuity: the 5/4-entry store of the start-up example loses its last
   block header, two headers and 37 bytes, one filter header: images exist,
   the index tip is beyond the file, recovery refuses. *)
Example C08_lost_tail_nonvacuous :
  exists s c1 c2 c3, ex2_state = Some s /\
    lose_block_tail s 80 = Some c1 /\ ents (bf c1) = [7; 11; 12; 13] /\ btip c1 = Some 14 /\
    idx c1 !! 14 = Some 4 /\ recover 7 1000000 c1 = None /\
    lose_block_tail s 197 = Some c2 /\ ents (bf c2) = [7; 11] /\ junk (bf c2) = 43 /\ recover 7 1000000 c2 = None /\
    lose_filter_tail s 32 = Some c3 /\ ents (ff c3) = [1000000; 1000001; 1000002] /\ recover 7 1000000 c3 = None.
Proof.
  do 4 eexists. repeat (split; [vm_compute; reflexivity|]). vm_compute; reflexivity.
Qed.
