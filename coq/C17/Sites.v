(* C17 — the references from the hand-written table of wait sites
   (C17/Model.v code_sites) into the GENERATED table of blocking sites
   (Generated/WaitSites.v, written by harness/cmd/genwaitsites from the Go
   source on every run), the claims made about each alternative, the ordered
   contents of the Stop functions, and the allow-list of blocking-looking
   sites that are not wait sites.  No proofs; C17/Tie.v checks all of it
   against the generated table by computation.

   A reference names a KEY (function, nesting, kind, alternatives in order —
   no ordinal, no line number) and says how many sites of the function match
   it; every alternative carries its ROLES:
     Quit c   the alternative is component c's quit channel (or something that
              happens as soon as c is stopped)
     Tmr ms   a timer of at most ms milliseconds (or something that happens
              within ms once the owner is stopped)
     Serve c  a still-running goroutine of c takes the message / replies
     Ev       an ordinary event, not relied upon
     Dflt     the default case: the select does not block                    *)
From Coq Require Import ZArith String List Bool.
From Verif Require Import C17.Model C17.WaitTypes.
Import ListNotations.
Open Scope string_scope.

Inductive role := Quit (c : comp) | Tmr (ms : Z) | Serve (c : comp) | Ev | Dflt.

Record sref := mkRef {
  r_site : Z;                   (* s_id of the hand-table site *)
  r_key : key;
  r_roles : list (list role);   (* one list per alternative of the key *)
  r_count : nat                 (* sites of the function matching the key *)
}.

Definition ref (site : Z) (fn ctx : string) (k : kind) (alts : list (alt * list role)) (n : nat) : sref :=
  mkRef site (mkKey fn ctx k (map fst alts)) (map snd alts) n.

Definition E : list role := [Ev].
Definition D : list role := [Dflt].
Definition Q (c : comp) : list role := [Quit c].
Definition T (ms : Z) : list role := [Tmr ms%Z].
Definition S (c : comp) : list role := [Serve c].

(* ------------------------------------------------------------------ *)
(* Recurring keys.                                                      *)

Definition fn_qap := "query.go:ChainService.queryAllPeers".

(* queryAllPeers, for a caller whose query timeout is at most ms.
   The per-peer goroutine waits for s.quit or its timer (one try);
   the closer goroutine waits for all per-peer goroutines, then closes
   allQuit; the caller waits for s.quit or allQuit. *)
Definition qap_refs (site : Z) (ms : Z) : list sref :=
  [ref site fn_qap "go" Select
     [(RecvFrom "queryQuit", E); (RecvFrom "s.quit", Q CSvc); (RecvFrom "peerQuit", E);
      (Timer "time.After(qo.timeout)", T ms)] 1;
   ref site fn_qap "go" WaitGroupWait [(WaitOn "wg", [Quit CSvc; Tmr ms])] 1;
   ref site fn_qap "" Select
     [(RecvFrom "queryQuit", E); (RecvFrom "s.quit", Q CSvc); (RecvFrom "allQuit", [Quit CSvc; Tmr ms]);
      (RecvFrom "msgChan", E)] 1].

(* s.Peers() at the start of queryAllPeers: the request is taken by the peer
   handler's main select; once taken, the reply is unconditional (handleQuery
   replies before the handler looks at s.quit again), so the wait for the
   reply ends whether or not s.quit is closed. *)
Definition peers_refs (site : Z) (fn : string) : list sref :=
  [ref site fn "" Select [(SendTo "s.query", S CSvc); (RecvFrom "s.quit", Q CSvc)] 1;
   ref site fn "" BareRecv [(RecvFrom "replyChan", [Serve CSvc; Quit CSvc])] 1].

Definition fn_Peers := "notifications.go:ChainService.Peers".
Definition fn_GetBlock := "query.go:ChainService.GetBlock".
Definition fn_GetCFilter := "query.go:ChainService.GetCFilter".
Definition fn_Query := "query/workmanager.go:peerWorkManager.Query".

(* GetBlock / GetCFilter: the verdict channel of the work manager carries
   ErrWorkManagerShuttingDown as soon as the work manager is stopped (see
   [supports]). *)
Definition verdict_ref (site : Z) (fn : string) : sref :=
  ref site fn "" Select [(RecvFrom "errChan", Q CWork); (RecvFrom "s.quit", Q CSvc)] 1.

(* workManager.Query handing the batch to the dispatcher *)
Definition submit_ref (site : Z) : sref :=
  ref site fn_Query "" Select [(SendTo "w.newBatches", E); (RecvFrom "w.quit", Q CWork)] 1.

Definition fn_bh := "pushtx/broadcaster.go:Broadcaster.broadcastHandler".
Definition fn_rb := "pushtx/broadcaster.go:Broadcaster.rebroadcast".
Definition fn_wd := "query/workmanager.go:peerWorkManager.workDispatcher".
Definition fn_run := "query/worker.go:worker.Run".
Definition fn_cf := "blockmanager.go:blockManager.cfHandler".
Definition fn_sm := "blockntfns/manager.go:SubscriptionManager.".

Definition blockmgr_send_ref (site : Z) (fn : string) : sref :=
  ref site fn "" Select [(SendTo "b.peerChan", E); (RecvFrom "b.quit", Q CBlock)] 1.

Definition svc_send_ref (site : Z) (fn ch : string) : sref :=
  ref site fn "" Select [(SendTo ch, E); (RecvFrom "s.quit", Q CSvc)] 1.

(* ------------------------------------------------------------------ *)
(* The references, in the order of code_sites.                          *)

Definition site_refs : list sref :=
  (* 10 g_bcast_idle *)
  [ref 10 fn_bh "" Select
     [(RecvFrom "b.broadcastReqs", E); (RecvFrom "b.confChan", E); (RecvFromOk "sub.Notifications", E);
      (Timer "reBroadcastTicker.C", E); (RecvFrom "b.quit", Q CBcast)] 1]
  (* 11 g_bcast_in_broadcast: sendTransaction passes Timeout(broadcastTimeout = 5 s) *)
  ++ qap_refs 11 5000
  (* 12 g_bcast_rebroadcast: same call, and b.quit is polled between transactions *)
  ++ qap_refs 12 5000
  ++ [ref 12 fn_rb "" SelectDefault [(RecvFrom "b.quit", Q CBcast); (Default, D)] 1;
  (* 13 g_bcast_conf *)
      ref 13 fn_rb "" Select [(SendTo "confChan", E); (RecvFrom "b.quit", Q CBcast)] 1]
  (* 14 g_bcast_in_peers *)
  ++ peers_refs 14 fn_Peers
  (* 15 g_bcast_cancel_sub *)
  ++ [ref 15 (fn_sm ++ "cancelSubscription") "" Select
        [(SendTo "m.cancelSubscriptions", S CSub); (RecvFrom "m.quit", Q CSub)] 1;
  (* 20 g_work_dispatcher *)
      ref 20 fn_wd "" Select
        [(SendTo "r.w.NewJob()", E); (RecvFrom "r.onExit", E); (RecvFrom "w.quit", Q CWork)] 1;
      ref 20 fn_wd "" Select
        [(RecvFrom "peersConnected", E); (RecvFrom "w.progressWakes", E); (RecvFrom "w.jobResults", E);
         (RecvFrom "w.newBatches", E); (RecvFrom "w.quit", Q CWork)] 1;
  (* 21 g_work_worker: the dispatcher starts it with r.Run(w.jobResults, w.quit) *)
      ref 21 fn_run "" Select
        [(RecvFrom "w.nextJob", E); (RecvFrom "msgChan", E); (RecvFrom "peer.OnDisconnect()", E);
         (RecvFrom "quit", Q CWork)] 1;
      ref 21 fn_run "" Select
        [(RecvFrom "msgChan", E); (Timer "timeout.C", E); (RecvFrom "peer.OnDisconnect()", E);
         (RecvFrom "job.cancelChan", E); (RecvFrom "job.internalCancelChan", E); (RecvFrom "quit", Q CWork)] 1;
      ref 21 fn_run "" Select [(SendTo "results", E); (RecvFrom "quit", Q CWork)] 1;
  (* 22 g_work_in_connected_peers *)
      ref 22 "notifications.go:ChainService.ConnectedPeers" "" Select
        [(SendTo "s.query", S CSvc); (RecvFrom "s.quit", Q CSvc)] 1;
      ref 22 "notifications.go:ChainService.ConnectedPeers" "" Select
        [(RecvFrom "replyChan", S CSvc); (RecvFrom "s.quit", Q CSvc)] 1;
  (* 23 g_work_in_additem *)
      ref 23 "chanutils/batch_writer.go:BatchWriter.AddItem" "" BareSend
        [(SendTo "b.queue.ChanIn()", S CBatch)] 1;
  (* 30 g_scan_idle: UtxoScanner.Stop signals the condition every 50 ms (see
     stop_sequences); the quit polls after the wake-up are what ends the loop *)
      ref 30 "utxoscanner.go:UtxoScanner.batchManager" "" CondWait [(WaitOn "s.cv", T 50)] 1;
      ref 30 "utxoscanner.go:UtxoScanner.batchManager" "" SelectDefault
        [(RecvFrom "s.quit", Q CScan); (Default, D)] 2;
  (* 31 g_scan_in_query *)
      verdict_ref 31 fn_GetBlock; verdict_ref 31 fn_GetCFilter;
  (* 32 g_scan_in_submit *)
      submit_ref 32;
  (* 40 g_sub_handler *)
      ref 40 (fn_sm ++ "subscriptionHandler") "" Select
        [(RecvFrom "m.newSubscriptions", E); (RecvFrom "m.cancelSubscriptions", E);
         (RecvFromOk "m.ntfnSource.Notifications()", E); (RecvFrom "m.quit", Q CSub)] 1;
      ref 40 (fn_sm ++ "notifySubscriber") "" Select
        [(SendTo "sub.ntfnQueue.ChanIn()", E); (RecvFrom "sub.quit", E); (RecvFrom "m.quit", Q CSub)] 1;
  (* 41 g_sub_forwarder *)
      ref 41 (fn_sm ++ "NewSubscription") "go" Select
        [(RecvFromOk "sub.ntfnQueue.ChanOut()", E); (RecvFrom "sub.quit", E); (RecvFrom "m.quit", Q CSub)] 1;
      ref 41 (fn_sm ++ "NewSubscription") "go" Select
        [(SendTo "sub.ntfnChan", E); (RecvFrom "sub.quit", E); (RecvFrom "m.quit", Q CSub)] 1;
  (* 50 g_block_handler: main select, and handleHeadersMsg -> rollBackToHeight ->
     onBlockDisconnected *)
      ref 50 "blockmanager.go:blockManager.blockHandler" "" Select
        [(RecvFrom "b.peerChan", E); (RecvFrom "b.quit", Q CBlock)] 1;
      ref 50 "blockmanager.go:blockManager.onBlockDisconnected" "" Select
        [(SendTo "b.blockNtfnChan", E); (RecvFrom "b.quit", Q CBlock)] 1;
  (* 51 g_cf_cond: blockManager.Stop broadcasts the condition every 50 ms (see
     stop_sequences); the quit polls after the wake-up (and at the end of each
     round) are what ends the loops *)
      ref 51 fn_cf "" CondWait [(WaitOn "b.newHeadersSignal", T 50)] 2;
      ref 51 fn_cf "" SelectDefault [(RecvFrom "b.quit", Q CBlock); (Default, D)] 4;
  (* 52 g_cf_retry: retryTimeout = 3 s *)
      ref 52 fn_cf "" Select [(Timer "time.After(retryTimeout)", T 3000); (RecvFrom "b.quit", Q CBlock)] 3]
  (* 53 g_cf_query_all: QueryTimeout = 10 s, one try *)
  ++ qap_refs 53 10000
  (* 54 g_cf_batch: the batch is cancelled by b.quit; the verdict channel
     carries ErrWorkManagerShuttingDown once the work manager is stopped *)
  ++ [ref 54 "blockmanager.go:blockManager.getCheckpointedCFHeaders" "" Select
        [(RecvFrom "headerChan", E); (RecvFrom "errChan", Q CWork); (RecvFrom "b.quit", Q CBlock)] 1;
  (* 55 g_cf_getblock *)
      verdict_ref 55 fn_GetBlock;
  (* 56 g_cf_notify *)
      ref 56 "blockmanager.go:blockManager.onBlockConnected" "" Select
        [(SendTo "b.blockNtfnChan", E); (RecvFrom "b.quit", Q CBlock)] 1]
  (* 57 g_cf_in_peers *)
  ++ peers_refs 57 fn_Peers
  (* 58 g_cf_in_submit *)
  ++ [submit_ref 58;
  (* 59 g_cf_first_peer *)
      ref 59 "blockmanager.go:blockManager.Start" "go" Select
        [(RecvFrom "b.cfg.firstPeerSignal", E); (RecvFrom "b.quit", Q CBlock)] 1;
  (* 70 g_batch_writer *)
      ref 70 "chanutils/batch_writer.go:BatchWriter.manageNewItems" "" Select
        [(RecvFromOk "b.queue.ChanOut()", E); (Timer "ticker.C", E); (RecvFrom "b.quit", Q CBatch)] 1;
  (* 72 g_batch_final_write: the same select; once <-b.quit has fired the
     writer does its final write (budget 500 ms) and returns *)
      ref 72 "chanutils/batch_writer.go:BatchWriter.manageNewItems" "" Select
        [(RecvFromOk "b.queue.ChanOut()", E); (Timer "ticker.C", E); (RecvFrom "b.quit", [Quit CBatch; Tmr 500])] 1;
  (* 71 g_batch_queue *)
      ref 71 "chanutils/queue.go:ConcurrentQueue.start" "go" Select
        [(RecvFromOk "cq.chanIn", E); (RecvFrom "cq.quit", Q CBatch)] 1;
      ref 71 "chanutils/queue.go:ConcurrentQueue.start" "go" Select
        [(RecvFromOk "cq.chanIn", E); (SendTo "cq.chanOut", E); (RecvFrom "cq.quit", Q CBatch)] 1;
      ref 71 "chanutils/queue.go:ConcurrentQueue.start" "go" Select
        [(SendTo "cq.chanOut", E); (RecvFrom "cq.quit", Q CBatch)] 1;
  (* 80 g_svc_peer_handler *)
      ref 80 "neutrino.go:ChainService.peerHandler" "" Select
        [(RecvFrom "s.newPeers", E); (RecvFrom "s.donePeers", E); (RecvFrom "s.peerHeightsUpdate", E);
         (RecvFrom "s.query", E); (RecvFrom "s.quit", Q CSvc)] 1;
  (* 81 g_svc_misc: notifyConnectedPeer, peerDoneHandler, the permanent-peer
     lookup loop, peers announcing themselves (AddPeer), UpdatePeerHeights, the
     delayed closer of a broadcast (closeEventually(s.quit)) *)
      ref 81 "neutrino.go:ChainService.notifyConnectedPeer" "" Select
        [(SendTo "sub.peers", E); (RecvFrom "sub.cancel", E); (RecvFrom "s.quit", Q CSvc)] 1;
      svc_send_ref 81 "neutrino.go:ChainService.peerDoneHandler" "s.donePeers";
      svc_send_ref 81 "neutrino.go:ChainService.AddPeer" "s.newPeers";
      svc_send_ref 81 "neutrino.go:ChainService.UpdatePeerHeights" "s.peerHeightsUpdate";
      ref 81 "neutrino.go:NewChainService" "go" Select
        [(Timer "time.After(ConnectionRetryInterval)", E); (RecvFrom "s.quit", Q CSvc)] 1;
      ref 81 "query.go:delayedCloser.closeEventually" "go" Select
        [(Timer "time.After(t.timeout)", E); (RecvFrom "quit", Q CSvc)] 1;
  (* 82 g_svc_in_newpeer *)
      blockmgr_send_ref 82 "blockmanager.go:blockManager.NewPeer";
  (* 100 c_getblock, 101 c_getcfilter *)
      verdict_ref 100 fn_GetBlock; submit_ref 100;
      verdict_ref 101 fn_GetCFilter; submit_ref 101;
  (* 102 c_getutxo: Enqueue sets the request's quit to the scanner's *)
      ref 102 "utxoscanner.go:GetUtxoRequest.Result" "" Select
        [(RecvFrom "r.resultChan", E); (RecvFrom "cancel", E); (RecvFrom "r.quit", Q CScan)] 1;
  (* 103 c_rescan: on its block subscription (closed by the subscription
     manager's Stop), subscribing / cancelling, or inside GetBlock / GetCFilter *)
      ref 103 "rescan.go:rescanState.rescan" "" Select
        [(RecvFrom "ro.quit", E); (RecvFrom "ro.update", E);
         (RecvFromOk "blockSubscription.Notifications", Q CSub); (RecvFrom "blockRetrySignal", E)] 1;
      ref 103 "rescan.go:rescanState.waitForBlocks" "" Select
        [(RecvFrom "ro.update", E); (RecvFromOk "blockSubscription.Notifications", Q CSub);
         (RecvFrom "ro.quit", E)] 1;
      ref 103 (fn_sm ++ "NewSubscription") "" Select
        [(SendTo "m.newSubscriptions", S CSub); (RecvFrom "m.quit", Q CSub)] 1;
      ref 103 (fn_sm ++ "NewSubscription") "" Select
        [(RecvFrom "sub.errChan", S CSub); (RecvFrom "m.quit", Q CSub)] 1;
      ref 103 (fn_sm ++ "cancelSubscription") "" Select
        [(SendTo "m.cancelSubscriptions", S CSub); (RecvFrom "m.quit", Q CSub)] 1;
      verdict_ref 103 fn_GetBlock; verdict_ref 103 fn_GetCFilter; submit_ref 103;
  (* 104 c_sendtx *)
      ref 104 "pushtx/broadcaster.go:Broadcaster.Broadcast" "" Select
        [(SendTo "b.broadcastReqs", E); (RecvFrom "b.quit", Q CBcast)] 1;
      ref 104 "pushtx/broadcaster.go:Broadcaster.Broadcast" "" Select
        [(RecvFrom "errChan", E); (RecvFrom "b.quit", Q CBcast)] 1;
      ref 104 "pushtx/broadcaster.go:Broadcaster.MarkAsConfirmed" "" Select
        [(SendTo "b.confChan", E); (RecvFrom "b.quit", Q CBcast)] 1]
  (* 105 c_peers: every peer-state query *)
  ++ flat_map (peers_refs 105)
       ["notifications.go:ChainService.ConnectedCount"; "notifications.go:ChainService.OutboundGroupCount";
        "notifications.go:ChainService.AddedNodeInfo"; fn_Peers;
        "notifications.go:ChainService.DisconnectNodeByAddr"; "notifications.go:ChainService.DisconnectNodeByID";
        "notifications.go:ChainService.RemoveNodeByAddr"; "notifications.go:ChainService.RemoveNodeByID";
        "notifications.go:ChainService.ConnectNode"]
  ++ [svc_send_ref 105 "notifications.go:ChainService.ForAllPeers" "s.query";
      ref 105 "notifications.go:ChainService.ConnectedPeers" "" Select
        [(SendTo "s.query", S CSvc); (RecvFrom "s.quit", Q CSvc)] 1;
      ref 105 "notifications.go:ChainService.ConnectedPeers" "" Select
        [(RecvFrom "replyChan", S CSvc); (RecvFrom "s.quit", Q CSvc)] 1;
  (* 110 d_peer_to_blockmgr *)
      blockmgr_send_ref 110 "blockmanager.go:blockManager.DonePeer";
      blockmgr_send_ref 110 "blockmanager.go:blockManager.QueueInv";
      blockmgr_send_ref 110 "blockmanager.go:blockManager.QueueHeaders";
  (* 111 d_work_wake *)
      ref 111 fn_wd "func/func" Select [(SendTo "w.progressWakes", E); (RecvFrom "w.quit", Q CWork)] 1].

(* ------------------------------------------------------------------ *)
(* Which channel expression is which component's quit, per file.  Every
   Quit role above must be listed here.  Entries that are not the quit
   channel itself say why they follow it.  The flag says that the release is
   the CLOSING of a channel that otherwise carries data: there the receive
   must be of the two-valued form (v, ok := <-ch), or the closed channel
   is taken for a value and the loop around the select spins (C17/Tie.v
   Tie_quit_roles_named).                                                *)

Definition quit_names : list (string * string * comp * bool) :=
  [("pushtx/broadcaster.go", "b.quit", CBcast, false);
   ("query/workmanager.go", "w.quit", CWork, false);
   (* worker.Run's parameter: the dispatcher passes w.quit *)
   ("query/worker.go", "quit", CWork, false);
   (* verdict channel of a batch: workDispatcher's deferred loop sends
      ErrWorkManagerShuttingDown to every open batch when it leaves through
      w.quit, Query sends it itself when w.quit is already closed *)
   ("query.go", "errChan", CWork, false);
   ("blockmanager.go", "errChan", CWork, false);
   ("utxoscanner.go", "s.quit", CScan, false);
   (* GetUtxoRequest.quit: Enqueue sets it to the scanner's quit *)
   ("utxoscanner.go", "r.quit", CScan, false);
   ("blockntfns/manager.go", "m.quit", CSub, false);
   (* a subscription's channel is closed by newSubscription.cancel, which
      SubscriptionManager.Stop runs for every subscriber *)
   ("rescan.go", "blockSubscription.Notifications", CSub, true);
   ("blockmanager.go", "b.quit", CBlock, false);
   ("chanutils/batch_writer.go", "b.quit", CBatch, false);
   (* the writer's queue, stopped by BatchWriter.Stop *)
   ("chanutils/queue.go", "cq.quit", CBatch, false);
   ("neutrino.go", "s.quit", CSvc, false);
   ("notifications.go", "s.quit", CSvc, false);
   ("query.go", "s.quit", CSvc, false);
   (* delayedCloser.closeEventually(s.quit) *)
   ("query.go", "quit", CSvc, false);
   (* queryAllPeers: closed / returns once every per-peer goroutine has left,
      each through s.quit or its timer *)
   ("query.go", "allQuit", CSvc, false);
   ("query.go", "wg", CSvc, false);
   (* the reply to a peer-state query is unconditional once the request was taken *)
   ("notifications.go", "replyChan", CSvc, false)].

(* ------------------------------------------------------------------ *)
(* The Stop functions, site by site in source order (listed with +calls:
   X.Stop() calls and close(ch) included).                              *)

Definition W (e : string) : list alt := [WaitOn e].

(* ChainService.Stop: the component stopped by each step *)
Definition service_stop : list (string * kind * list alt * option comp) :=
  [("", StopCall, W "s.connManager", Some CConn);
   ("", StopCall, W "s.broadcaster", Some CBcast);
   ("", StopCall, W "s.workManager", Some CWork);
   ("", StopCall, W "s.utxoScanner", Some CScan);
   ("", StopCall, W "s.blockSubscriptionMgr", Some CSub);
   ("", StopCall, W "s.blockManager", Some CBlock);
   ("", StopCall, W "s.addrManager", Some CAddr);
   ("", StopCall, W "s.filterBatchWriter", Some CBatch);
   ("", CloseChan, W "s.quit", Some CSvc);
   ("", WaitGroupWait, W "s.wg", None)].

(* every component's Stop closes its quit channel and then waits *)
Definition stop_sequences : list (string * list (string * kind * list alt)) :=
  [("neutrino.go:ChainService.Stop", map fst service_stop);
   ("pushtx/broadcaster.go:Broadcaster.Stop",
    [("func", CloseChan, W "b.quit"); ("func", WaitGroupWait, W "b.wg")]);
   ("query/workmanager.go:peerWorkManager.Stop",
    [("", CloseChan, W "w.quit"); ("", WaitGroupWait, W "w.wg")]);
   (* waits for batchManager (which closes s.shutdown when it leaves),
      signalling the condition variable every 50 ms *)
   ("utxoscanner.go:UtxoScanner.Stop",
    [("", CloseChan, W "s.quit");
     ("", Select, [RecvFrom "s.shutdown"; Timer "time.After(50*time.Millisecond)"])]);
   (* waits for the handler, then cancels every subscriber concurrently *)
   ("blockntfns/manager.go:SubscriptionManager.Stop",
    [("", CloseChan, W "m.quit"); ("", WaitGroupWait, W "m.wg"); ("", WaitGroupWait, W "wg")]);
   (* ... which stops the subscriber's queue, closes sub.quit, waits for the
      forwarding goroutine and closes the subscriber's channel *)
   ("blockntfns/manager.go:newSubscription.cancel",
    [("func", StopCall, W "s.ntfnQueue"); ("func", CloseChan, W "s.quit");
     ("func", WaitGroupWait, W "s.wg"); ("func", CloseChan, W "s.ntfnChan")]);
   (* a helper goroutine broadcasts both conditions every 50 ms until the
      handlers have left *)
   ("blockmanager.go:blockManager.Stop",
    [("go/defer", StopCall, W "ticker");
     ("go", Select, [RecvFrom "done"; Timer "ticker.C"]);
     ("", CloseChan, W "b.quit"); ("", WaitGroupWait, W "b.wg"); ("", CloseChan, W "done")]);
   (* the queue is stopped only after the writer goroutine has left *)
   ("chanutils/batch_writer.go:BatchWriter.Stop",
    [("func", CloseChan, W "b.quit"); ("func", WaitGroupWait, W "b.wg"); ("func", StopCall, W "b.queue")]);
   ("chanutils/queue.go:ConcurrentQueue.Stop",
    [("func", CloseChan, W "cq.quit"); ("func", WaitGroupWait, W "cq.wg")])].

(* ------------------------------------------------------------------ *)
(* Errors that end in a panic.  A release by a quit channel ends the WAIT,
   not the operation: after <-b.quit has fired in onBlockDisconnected the
   block handler goes on with its rollback (the remaining notifications are
   dropped the same way) and then writes the new branch; nothing on such a
   path may turn the shutdown into an error that a caller answers with
   panic(...), or Stop takes the process down.  The panic-on-error sites of
   the listed functions and the error returns of the functions feeding them
   are therefore part of the tie: a NEW panic on an error, or a new error
   return (say, ErrShuttingDown after a quit poll) in a function whose error
   is turned into a panic, makes Tie_fail_paths / Tie_complete fail.      *)

Record failpath := mkFail { f_key : key; f_count : nat; f_why : string }.

Definition fail_paths : list failpath :=
  [(* handleHeadersMsg, reorganisation: panic("Rollback failed: ...") on any
      error of rollBackToHeight *)
   mkFail (mkKey "blockmanager.go:blockManager.handleHeadersMsg" "" PanicOnErr [WaitOn "err"]) 1
     "rollBackToHeight's error; all its error returns are store errors (next entry)";
   mkFail (mkKey "blockmanager.go:blockManager.rollBackToHeight" "" ErrReturn [WaitOn "err"]) 6
     "every error return hands on an error of the header stores (ChainTip, FetchHeader, RollbackLastBlock); none is caused by b.quit";
   (* getCheckpointedCFHeaders: store reads, and writeCFHeadersMsg *)
   mkFail (mkKey "blockmanager.go:blockManager.getCheckpointedCFHeaders" "" PanicOnErr [WaitOn "err"]) 3
     "errors of the header stores and of writeCFHeadersMsg (store errors, out-of-order message); none is caused by b.quit"].

(* ------------------------------------------------------------------ *)
(* Sites other claims lean on (they are on the allow-list as non-blocking,
   but must exist).                                                     *)

Definition supports : list (string * key * nat) :=
  [("errChan follows w.quit: the dispatcher fails every open batch when it leaves",
    mkKey fn_wd "defer" BareSend [SendTo "b.errChan"], 1%nat);
   ("errChan follows w.quit: Query fails the batch itself when w.quit is closed",
    mkKey fn_Query "" BareSend [SendTo "errChan"], 1%nat)].

(* ------------------------------------------------------------------ *)
(* Blocking-looking sites of the listed functions that are NOT wait sites,
   each with its reason.  (Selects with a default case never block and are
   not listed; C17/Tie.v accepts them structurally.)                    *)

(* A capacity claim: function [fn] creates exactly [n] channel(s) under the
   name [name], each with the capacity expression [cap] (text). *)
Record capclaim := mkCap { c_fn : string; c_name : string; c_cap : string; c_n : nat }.

Record allow := mkAllow { a_key : key; a_count : nat; a_why : string; a_caps : list capclaim }.

Definition cap_query_errchan := mkCap fn_Query "errChan" "1" 1.

Definition nonblocking_or_irrelevant : list allow :=
  [mkAllow (mkKey "notifications.go:ChainService.handleQuery" "" BareSend [SendTo "msg.reply"]) 15
     "reply to a requester that is committed to receive: every sender of such a message does <-replyChan right after its send on s.query was taken (the BareRecv sites referenced by c_peers); the one requester that may leave through s.quit instead, ConnectedPeers, makes its reply channel with capacity 1"
     [mkCap "notifications.go:ChainService.ConnectedPeers" "replyChan" "1" 1];
   mkAllow (mkKey "notifications.go:ChainService.handleQuery" "func" BareSend [SendTo "peerChan"]) 1
     "channel made just above with capacity state.Count(); at most that many peers are put into it"
     [mkCap "notifications.go:ChainService.handleQuery" "peerChan" "state.Count()" 1];
   mkAllow (mkKey "neutrino.go:ChainService.peerDoneHandler" "" OtherWait [WaitOn "sp.WaitForDisconnect"]) 1
     "no Stop waits for this goroutine; it ends when btcd's peer has disconnected (the peer handler disconnects every peer on s.quit); btcd peer internals are not modelled"
     [];
   (* THE ONLY THING BETWEEN THE TABLE AND A HANG: this select is run by a
      query worker (owner CWork, inside HandleResp) and its only other
      alternative is the block manager's quit, which ChainService.Stop closes
      AFTER it has waited for the workers.  As a wait site it would be
      [mkSite _ (Some CWork) [RQuit CBlock] []], which wf_from rejects and on
      which run_stop hangs at the work manager's stage (C17/Properties.v
      C17_channel_capacity_matters).  It is not a wait site only because
      the send cannot block: one slot per request. *)
   mkAllow (mkKey "blockmanager.go:checkpointedCFHeadersQuery.handleResponse" "" Select
              [SendTo "c.headerChan"; RecvFrom "c.blockMgr.quit"]) 1
     "headerChan is made in getCheckpointedCFHeaders with capacity len(queryMsgs), one slot per request, and a request is finished by its first accepted response, so the send never blocks; with any smaller capacity this is a wait of a work-manager goroutine on the block manager's quit, which is closed later: Stop hangs"
     [mkCap "blockmanager.go:blockManager.getCheckpointedCFHeaders" "headerChan" "len(queryMsgs)" 1];
   mkAllow (mkKey fn_Query "" BareSend [SendTo "errChan"]) 1
     "errChan is made in this function with capacity 1"
     [cap_query_errchan];
   mkAllow (mkKey fn_wd "defer" BareSend [SendTo "b.errChan"]) 1
     "batch verdict: errChan has capacity 1 (made in Query) and a batch gets exactly one verdict, it leaves currentBatches with the send (property C12)"
     [cap_query_errchan];
   mkAllow (mkKey fn_wd "" BareSend [SendTo "bp.errChan"]) 1
     "batch verdict, as above" [cap_query_errchan];
   mkAllow (mkKey fn_wd "" BareSend [SendTo "batch.errChan"]) 4
     "batch verdict, as above" [cap_query_errchan];
   mkAllow (mkKey fn_bh "" BareSend [SendTo "rebroadcastSem"]) 1
     "semaphore of capacity 1 made on the previous line"
     [mkCap fn_bh "rebroadcastSem" "1" 1];
   mkAllow (mkKey fn_bh "func/go" BareSend [SendTo "rebroadcastSem"]) 1
     "gives back the token taken (select with default) before this goroutine was started; capacity 1"
     [mkCap fn_bh "rebroadcastSem" "1" 1];
   (* the requester (Broadcast) may have left through b.quit: without the
      slot the handler would wait here with no alternative at all *)
   mkAllow (mkKey fn_bh "" BareSend [SendTo "req.errChan"]) 2
     "errChan of capacity 1 made in Broadcast; one reply per request, so the send never blocks even when the requester has left through b.quit"
     [mkCap "pushtx/broadcaster.go:Broadcaster.Broadcast" "errChan" "1" 1];
   mkAllow (mkKey (fn_sm ++ "subscriptionHandler") "" BareSend [SendTo "msg.errChan"]) 1
     "errChan of capacity 1 made in NewSubscription; one reply per subscription, the requester may have left through m.quit"
     [mkCap (fn_sm ++ "NewSubscription") "errChan" "1" 1]].
