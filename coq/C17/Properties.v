(* C17 — the property theorems, and nothing else.

   PARTIAL (see props/C17.json): wall-clock time is represented only by the
   timer bounds written in the site table; unresponsive sockets and the
   internals of btcd's connmgr / peer packages are not modelled. *)
From Coq Require Import ZArith List Bool Lia.
From Verif Require Import C17.Model C17.Spec C17.Proofs.
Import ListNotations.
Open Scope Z_scope.

(* Composition theorem, for ANY stop order and ANY table of wait sites: if
   every goroutine site is, at the stage of its owner, released by a quit
   channel closed so far or by a timer (wf_from), then from every state —
   any number of goroutines at any sites of the table — Stop runs through
   all stages, closes every quit channel, and takes at most the sum of the
   stages' largest timers. *)
Theorem C17_stop_completes_any_order : forall order raised table st acc,
  wf_from raised order table = true -> incl st table ->
  exists t, run_stop order raised st acc = Done t (rev order ++ raised)
            /\ acc <= t <= acc + total_bound order table.
Proof. exact stop_completes_gen. Qed.
Print Assumptions C17_stop_completes_any_order.

(* ... instantiated with the order of ChainService.Stop and the site table
   read off the code: Stop completes from every state, within 16.55 s of
   timer time (below the 20 s the harness enforces). *)
Theorem C17_stop_completes : forall st, incl st code_sites ->
  exists t, run_stop stop_order [] st 0 = Done t (rev stop_order) /\ 0 <= t <= 16550.
Proof. exact stop_completes. Qed.
Print Assumptions C17_stop_completes.

(* Conversely a hang is only possible when some site is not released at its
   owner's stage: the check wf_from is exactly what rules hangs out. *)
Theorem C17_hang_needs_ill_ordered_site : forall order raised table st acc c,
  incl st table -> run_stop order raised st acc = Hang c -> wf_from raised order table = false.
Proof. exact hang_not_wf. Qed.
Print Assumptions C17_hang_needs_ill_ordered_site.

(* No component's stop waits on a component that is stopped later, except
   through a bounded timer or through a request that a still-running
   goroutine of that later component serves: the explicit dependency relation
   of the code's table (site, owner, later component whose quit would release
   it or whose goroutine serves it) consists of exactly these entries —
   broadcast handler and rebroadcast worker inside sendTransaction, and the
   filter-header handler inside a broadcast query (released by s.quit, closed
   last, or by the query's timer); the same goroutines and the work
   dispatcher asking the peer handler for the peer list (s.query, served until
   s.quit is closed); the broadcast handler cancelling its block subscription
   (served by the subscription handler); a query worker handing a filter to
   the batch writer's queue (served until the batch writer is stopped) — and
   each of these sites has a timer or is served. *)
Theorem C17_no_wait_on_later :
  deps_from [] stop_order code_sites =
    [(11, CBcast, CSvc); (12, CBcast, CSvc); (14, CBcast, CSvc); (15, CBcast, CSub);
     (22, CWork, CSvc); (23, CWork, CBatch); (53, CBlock, CSvc); (57, CBlock, CSvc)]
  /\ forallb (fun s => negb (existsb (fun d => let '(i, _, _) := d in i =? s_id s)
                                     (deps_from [] stop_order code_sites)) || has_timer s || is_served s)
             code_sites = true.
Proof. split; vm_compute; reflexivity. Qed.
Print Assumptions C17_no_wait_on_later.

(* Every blocked caller is released: for any order and table in which each
   caller site has a quit alternative of a stopped component ... *)
Theorem C17_callers_released_any_order : forall order table s,
  wf_callers order table = true -> In s table -> s_owner s = None ->
  releasable (rev order) s = true.
Proof. exact callers_released_gen. Qed.
Print Assumptions C17_callers_released_any_order.

(* ... in particular GetBlock, GetCFilter, GetUtxo, Rescan, SendTransaction
   and the peer-state queries of the code. *)
Theorem C17_callers_released : forall s, In s caller_sites ->
  releasable (rev stop_order) s = true.
Proof. exact callers_released. Qed.
Print Assumptions C17_callers_released.

(* The monitor evaluated on the recorded outcome vectors decides the
   property's per-run content. *)
Theorem C17_monitor_sound : forall c, holds c = true <-> Holds c.
Proof. exact holds_spec. Qed.
Print Assumptions C17_monitor_sound.

(* For every scenario the model's nominal duration is defined and below the
   bound: the replay's comparison "measured <= nominal + slack" is never
   vacuous. *)
Theorem C17_nominal_defined : forall c, exists t, nominal_ms c = Some t /\ 0 <= t <= 16550.
Proof. exact nominal_defined. Qed.
Print Assumptions C17_nominal_defined.

(* The order matters (finding F20, repaired): with the ORIGINAL order —
   utxo scanner stopped before the work manager — a scanner blocked in
   GetBlock/GetCFilter makes Stop hang at the scanner's stage; the repaired
   order passes the same state in 0 ms. *)
Example C17_order_matters :
  run_stop orig_order [] [g_scan_in_query] 0 = Hang CScan
  /\ wf_from [] orig_order code_sites = false
  /\ run_stop stop_order [] [g_scan_in_query] 0 = Done 0 (rev stop_order).
Proof. repeat split; vm_compute; reflexivity. Qed.
Print Assumptions C17_order_matters.

(* Channel capacities matter (seeded changes C17 round 2).  Two sends of the
   code are on the allow-list of C17/Sites.v only because their channel has a
   free slot (C17/Tie.v Tie_capacities ties the capacities to the source).
   Without the slot they are wait sites, and the computable check rejects
   both:
   - checkpointedCFHeadersQuery.handleResponse, run by a query worker:
     select { headerChan <- ; <-blockMgr.quit }.  The worker belongs to the
     work manager, which is stopped BEFORE the block manager: a wait on a
     later component without a timer.  Stop hangs at the work manager's stage.
   - broadcastHandler's reply req.errChan <- err when the requester has left
     through b.quit: no alternative at all.  Stop hangs at the broadcaster's
     stage. *)
Example C17_channel_capacity_matters :
  let worker_in_handle_response := mkSite 24 (Some CWork) [RQuit CBlock] [] in
  let handler_in_reply := mkSite 16 (Some CBcast) [] [] in
  wf_from [] stop_order (worker_in_handle_response :: code_sites) = false
  /\ run_stop stop_order [] [worker_in_handle_response] 0 = Hang CWork
  /\ wf_from [] stop_order (handler_in_reply :: code_sites) = false
  /\ run_stop stop_order [] [handler_in_reply] 0 = Hang CBcast.
Proof. repeat split; vm_compute; reflexivity. Qed.
Print Assumptions C17_channel_capacity_matters.

(* The batch writer is stopped in two steps: close(b.quit) and wait for the
   writer goroutine, THEN stop its queue.  After the first step nobody
   receives from the queue's out channel any more, so the queue goroutine must
   not send there when it is stopped (seeded change C17-12: flush the overflow
   list to the out channel with a bare send): that send could only be served
   by the writer, a goroutine of the same component, which has left — the
   computable check rejects the site and Stop hangs at the batch writer's
   stage. *)
Example C17_queue_flush_after_writer_hangs :
  let queue_flushing := mkSite 73 (Some CBatch) [RServe CBatch []] [] in
  wf_from [] stop_order (queue_flushing :: code_sites) = false
  /\ run_stop stop_order [] [queue_flushing] 0 = Hang CBatch.
Proof. repeat split; vm_compute; reflexivity. Qed.
Print Assumptions C17_queue_flush_after_writer_hangs.

(* A GetUtxo / GetCFilter / GetBlock call that fails with an error of its own
   is accepted only in a scenario that is mid-sync or mid-reorganisation; the
   same outcome while idle, without peers or never started is rejected, and
   so is the same class for the other calls, and a hung call always. *)
Example C17_own_error_only_mid_sync :
  holds (mkCase 2 1 0 false false [(2, false, 4)] true 40 0) = true
  /\ holds (mkCase 1 1 0 false false [(1, false, 4); (0, false, 4)] true 40 0) = true
  /\ holds (mkCase 0 1 0 false false [(2, false, 4)] true 40 0) = false
  /\ holds (mkCase 3 0 0 false false [(2, false, 4)] true 40 0) = false
  /\ holds (mkCase 2 1 0 false false [(4, false, 4)] true 40 0) = false
  /\ holds (mkCase 2 1 0 false false [(2, false, 5)] true 40 0) = false.
Proof. repeat split; vm_compute; reflexivity. Qed.
Print Assumptions C17_own_error_only_mid_sync.

(* Non-vacuity: a state with a transaction broadcast, a UTXO scan and a
   filter-header query in flight and callers of every kind blocked runs
   through all stages and needs the full timer budget. *)
Example C17_nonvacuous :
  run_stop stop_order []
    [g_bcast_in_broadcast; g_bcast_rebroadcast; g_work_worker; g_work_worker; g_scan_in_query;
     g_cf_query_all; g_cf_retry; g_svc_peer_handler; c_getblock; c_getutxo; c_rescan; c_sendtx] 0
  = Done 16000 (rev stop_order)
  /\ holds (mkCase 2 2 7 true false [(0, false, 1); (2, false, 1); (3, false, 4); (4, false, 1); (5, false, 1)] true 5085 0) = true
  /\ holds (mkCase 0 2 1 false false [(2, false, 5)] false 30000 2) = false.
Proof. repeat split; vm_compute; reflexivity. Qed.
Print Assumptions C17_nonvacuous.
