(* C17 — model of ChainService.Stop as the sequential composition of the
   component stops, over the table of WAIT SITES extracted from the code.

   Reading of the code (neutrino.go Stop, and every component's Stop / quit
   handling).  Stop runs, in this order:

     connManager.Stop          close(cm.quit), does not wait
     broadcaster.Stop          close(b.quit); wg.Wait (handler + rebroadcast worker)
     workManager.Stop          close(w.quit); wg.Wait (dispatcher + one worker per peer)
     utxoScanner.Stop          close(s.quit); wait for batchManager (cond signalled every 50ms);
                               then fail every queued request with ErrShuttingDown
     blockSubscriptionMgr.Stop close(quit); wg.Wait (handler); closes subscriber channels
     blockManager.Stop         close(b.quit); wg.Wait (blockHandler, cfHandler; conds
                               broadcast every 50ms)
     addrManager.Stop
     filterBatchWriter.Stop    (only with PersistToDisk)
     close(s.quit); s.wg.Wait  peerHandler (disconnects every peer), peer goroutines

   A component's stop closes that component's quit channel and then waits
   for the component's goroutines.  A goroutine is, at the instant Stop
   begins, at some WAIT SITE: a select / blocking call whose alternatives are
   quit channels of some components, timers, and ordinary events.  Ordinary
   events (a peer answers, a request arrives) may or may not happen — with
   silent peers they do not — so shutdown may only rely on the quit channels
   closed so far and on timers.

   (This is the order of the repaired code.  In the original code
   utxoScanner.Stop came BEFORE workManager.Stop; see [orig_order] and
   finding F20.)

   The table below is written by hand, but it is TIED to the source: the
   translator harness/cmd/genwaitsites lists the blocking sites of the
   functions named here (selects with their alternatives, bare channel
   operations, Wait calls, the steps of the Stop functions) into
   Generated/WaitSites.v on every check run; C17/Sites.v gives every site of
   this table its references into that list with the role of each
   alternative, and C17/Tie.v proves by computation that the references match
   the generated list exactly, that the releases claimed here are
   alternatives there, that the order of ChainService.Stop is [stop_order],
   and that every generated site is accounted for.                        *)
From Coq Require Import ZArith List Bool.
Import ListNotations.
Open Scope Z_scope.

Inductive comp := CConn | CBcast | CWork | CScan | CSub | CBlock | CAddr | CBatch | CSvc.

Definition comp_id (c : comp) : Z :=
  match c with
  | CConn => 0 | CBcast => 1 | CWork => 2 | CScan => 3 | CSub => 4
  | CBlock => 5 | CAddr => 6 | CBatch => 7 | CSvc => 8
  end.

Definition comp_eqb (a b : comp) : bool := comp_id a =? comp_id b.

Definition memc (c : comp) (l : list comp) : bool := existsb (comp_eqb c) l.

(* the order of ChainService.Stop (repaired code) *)
Definition stop_order : list comp :=
  [CConn; CBcast; CWork; CScan; CSub; CBlock; CAddr; CBatch; CSvc].

(* the order of the original code: scanner before work manager (F20) *)
Definition orig_order : list comp :=
  [CConn; CBcast; CScan; CWork; CSub; CBlock; CAddr; CBatch; CSvc].

(* What can release a wait.

   RServe c blocks: the wait is a request to (or a reply from) a goroutine of
   component c that is still running its serving loop — the peer handler
   taking a message from s.query, the subscription handler taking a
   cancellation, the batch writer's queue taking an item.  Such a release is
   available only while c has NOT been stopped (afterwards only c's quit
   channel can release the wait), and only if the serving goroutine is not
   itself stuck: [blocks] lists, for every site at which that goroutine can
   itself be blocked outside its serving select, the releases it has there
   (recursively).  Timers do not count inside such a chain. *)
Inductive rel :=
| RQuit (c : comp)   (* c's quit channel is closed (for CSvc: s.quit) *)
| RTimer (ms : Z)    (* a timer of at most ms milliseconds fires *)
| RServe (c : comp) (blocks : list (list rel)).

(* Result classes of an API call (also the harness's encoding). *)
Definition K_ok := 0.        (* a valid result *)
Definition K_shutdown := 1.  (* ErrShuttingDown, ErrWorkManagerShuttingDown, ErrBroadcasterStopped, ... *)
Definition K_cancel := 2.    (* ErrJobCanceled, ErrGetUtxoCancelled, ErrRescanExit *)
Definition K_timeout := 3.   (* ErrQueryTimeout *)
Definition K_other := 4.     (* any other error *)
Definition K_hung := 5.      (* did not return *)

(* A wait site.  [s_owner = Some c]: a goroutine that c's Stop waits for.
   [s_owner = None]: an external caller blocked in an API call; [s_results]
   are the result classes the call can return with. *)
Record site := mkSite {
  s_id : Z;
  s_owner : option comp;
  s_rel : list rel;
  s_results : list Z
}.

(* ------------------------------------------------------------------ *)
(* Internal wait sites (goroutines a Stop waits for).                  *)

(* Where the serving goroutines can themselves be blocked.
   Subscription handler (blockntfns/manager.go): outside its select it only
   sends into the subscribers' unbounded queues and replies on channels of
   capacity 1.
   Block handler (blockmanager.go): handleHeadersMsg -> rollBackToHeight ->
   onBlockDisconnected: select { b.blockNtfnChan <- (received by the
   subscription handler); <-b.quit }.
   Peer handler (neutrino.go): handleAddPeerMsg -> blockManager.NewPeer:
   select { b.peerChan <- (received by the block handler); <-b.quit }. *)
Definition sub_handler_blocks : list (list rel) := [].
Definition block_handler_blocks : list (list rel) :=
  [[RQuit CBlock; RServe CSub sub_handler_blocks]].
Definition peer_handler_blocks : list (list rel) :=
  [[RQuit CBlock; RServe CBlock block_handler_blocks]].

(* pushtx/broadcaster.go broadcastHandler main select: has <-b.quit *)
Definition g_bcast_idle := mkSite 10 (Some CBcast) [RQuit CBcast] [].
(* broadcastHandler inside cfg.Broadcast = ChainService.sendTransaction =
   queryAllPeers: per-peer goroutines select on s.quit, the query's own
   quit and time.After(broadcastTimeout = 5s); a peer that asked for the
   transaction is given rejectTimeout = 1s more.  b.quit is NOT an
   alternative there: the handler only looks at it after Broadcast returns. *)
Definition g_bcast_in_broadcast := mkSite 11 (Some CBcast) [RQuit CSvc; RTimer 6000] [].
(* rebroadcast worker: same call; checks b.quit between transactions *)
Definition g_bcast_rebroadcast := mkSite 12 (Some CBcast) [RQuit CSvc; RTimer 6000] [].
(* rebroadcast worker handing a confirmed txid to the handler:
   select { confChan <- ; <-b.quit } *)
Definition g_bcast_conf := mkSite 13 (Some CBcast) [RQuit CBcast] [].
(* handler / rebroadcast worker at the start of queryAllPeers: s.Peers() asks
   the peer handler: select { s.query <- ; <-s.quit }, then <-replyChan *)
Definition g_bcast_in_peers := mkSite 14 (Some CBcast) [RQuit CSvc; RServe CSvc peer_handler_blocks] [].
(* handler leaving: deferred sub.Cancel() = cancelSubscription:
   select { m.cancelSubscriptions <- ; <-m.quit } *)
Definition g_bcast_cancel_sub := mkSite 15 (Some CBcast) [RQuit CSub; RServe CSub sub_handler_blocks] [].

(* query/workmanager.go workDispatcher: every select has <-w.quit *)
Definition g_work_dispatcher := mkSite 20 (Some CWork) [RQuit CWork] [].
(* query/worker.go Run: every select has <-quit (= w.quit) *)
Definition g_work_worker := mkSite 21 (Some CWork) [RQuit CWork] [].
(* workDispatcher at its start, inside cfg.ConnectedPeers (ChainService.
   ConnectedPeers): select { s.query <- ; <-s.quit }, select { <-replyChan;
   <-s.quit } *)
Definition g_work_in_connected_peers := mkSite 22 (Some CWork) [RQuit CSvc; RServe CSvc peer_handler_blocks] [].
(* worker inside HandleResp = cfiltersQuery.handleResponse -> filterBatchWriter.
   AddItem (PersistToDisk): a bare send into the writer's unbounded queue,
   which runs until the batch writer is stopped; no quit alternative *)
Definition g_work_in_additem := mkSite 23 (Some CWork) [RServe CBatch []] [].

(* utxoscanner.go batchManager waiting on the condition variable; Stop
   signals it every 50ms after closing s.quit, and the loop polls s.quit
   after every wake-up.  (cond.Wait itself has no quit alternative.) *)
Definition g_scan_idle := mkSite 30 (Some CScan) [RTimer 50] [].
(* batchManager inside cfg.GetBlock (ChainService.GetBlock) or
   BlockFilterMatches (ChainService.GetCFilter): they wait for the work
   manager's verdict or s.quit; the verdict comes at once when the work
   manager is stopped (ErrWorkManagerShuttingDown).  With answering peers it
   also comes from the network, with silent peers after the batch's 30s
   deadline, with no peer never — none of which shutdown may rely on. *)
Definition g_scan_in_query := mkSite 31 (Some CScan) [RQuit CWork; RQuit CSvc] [].
(* batchManager inside GetBlock / GetCFilter handing the batch to
   workManager.Query: select { w.newBatches <- ; <-w.quit } *)
Definition g_scan_in_submit := mkSite 32 (Some CScan) [RQuit CWork] [].

(* blockntfns/manager.go subscriptionHandler: select has <-m.quit *)
Definition g_sub_handler := mkSite 40 (Some CSub) [RQuit CSub] [].
(* the per-subscriber forwarding goroutine started by NewSubscription (Stop
   waits for it through newSubscription.cancel): both selects have <-sub.quit
   and <-m.quit *)
Definition g_sub_forwarder := mkSite 41 (Some CSub) [RQuit CSub] [].

(* blockmanager.go blockHandler: select has <-b.quit.  Also its sends of
   disconnected-block notifications (handleHeadersMsg -> rollBackToHeight ->
   onBlockDisconnected: select { b.blockNtfnChan <- ; <-b.quit }).  NOTE: the
   release by b.quit ends the WAIT, not the operation: the handler drops the
   notification and CONTINUES the rollback, every further notification being
   dropped the same way, then writes the new branch and returns to its main
   select.  The operation must not fail because quit is closed: the
   reorganisation path answers a rollback error with panic (C17/Sites.v
   fail_paths ties the panic-on-error sites and the error returns feeding
   them; the component scenarios of harness/cmd/c17 stop the block manager in
   the middle of a rollback). *)
Definition g_block_handler := mkSite 50 (Some CBlock) [RQuit CBlock] [].
(* cfHandler waiting on newHeadersSignal: Stop broadcasts it every 50ms
   after closing b.quit, and the loop polls b.quit after every wake-up.
   (cond.Wait itself has no quit alternative.) *)
Definition g_cf_cond := mkSite 51 (Some CBlock) [RTimer 50] [].
(* cfHandler in the retry sleep: select { time.After(retryTimeout=3s); b.quit } *)
Definition g_cf_retry := mkSite 52 (Some CBlock) [RQuit CBlock; RTimer 3000] [].
(* cfHandler inside queryAllPeers (getcfcheckpt, getcfheaders for the
   uncheckpointed range, getcfilters when resolving a conflict): per-peer
   goroutines select on s.quit and time.After(QueryTimeout = 10s), one try;
   b.quit is not an alternative. *)
Definition g_cf_query_all := mkSite 53 (Some CBlock) [RQuit CSvc; RTimer 10000] [].
(* cfHandler inside getCheckpointedCFHeaders: select { headerChan; errChan;
   b.quit }; the batch is cancelled by b.quit and by the work manager's stop *)
Definition g_cf_batch := mkSite 54 (Some CBlock) [RQuit CBlock; RQuit CWork] [].
(* cfHandler inside GetBlock (resolveFilterMismatchFromBlock) *)
Definition g_cf_getblock := mkSite 55 (Some CBlock) [RQuit CWork; RQuit CSvc] [].
(* cfHandler inside writeCFHeadersMsg -> onBlockConnected:
   select { b.blockNtfnChan <- ; <-b.quit } *)
Definition g_cf_notify := mkSite 56 (Some CBlock) [RQuit CBlock] [].
(* cfHandler at the start of queryAllPeers: s.Peers() asks the peer handler *)
Definition g_cf_in_peers := mkSite 57 (Some CBlock) [RQuit CSvc; RServe CSvc peer_handler_blocks] [].
(* cfHandler handing a batch to workManager.Query (GetBlock,
   getCheckpointedCFHeaders): select { w.newBatches <- ; <-w.quit } *)
Definition g_cf_in_submit := mkSite 58 (Some CBlock) [RQuit CWork] [].
(* the goroutine that becomes cfHandler, before the first peer:
   select { <-firstPeerSignal; <-b.quit } *)
Definition g_cf_first_peer := mkSite 59 (Some CBlock) [RQuit CBlock] [].

(* chanutils/batch_writer.go manageNewItems: select has <-b.quit *)
Definition g_batch_writer := mkSite 70 (Some CBatch) [RQuit CBatch] [].
(* manageNewItems after <-b.quit has fired: the writer persists the batch it
   has collected so far (at most MaxBatch = 10 filters, one database
   transaction) and leaves; whatever is still in its queue is dropped.  The
   timer is a BUDGET for that one transaction (store writes are otherwise not
   modelled); it is what the nominal duration of a Stop with a backlog in the
   batch writer allows for the drain. *)
Definition g_batch_final_write := mkSite 72 (Some CBatch) [RTimer 500] [].
(* chanutils/queue.go: the goroutine of the writer's unbounded queue, stopped
   (close(cq.quit); wg.Wait) at the end of BatchWriter.Stop: every select has
   <-cq.quit *)
Definition g_batch_queue := mkSite 71 (Some CBatch) [RQuit CBatch] [].

(* neutrino.go peerHandler: select has <-s.quit *)
Definition g_svc_peer_handler := mkSite 80 (Some CSvc) [RQuit CSvc] [].
(* peerDoneHandler / notifyConnectedPeer / permanent-peer lookup loop *)
Definition g_svc_misc := mkSite 81 (Some CSvc) [RQuit CSvc] [].
(* peerHandler inside handleAddPeerMsg -> blockManager.NewPeer:
   select { b.peerChan <- ; <-b.quit } *)
Definition g_svc_in_newpeer := mkSite 82 (Some CSvc) [RQuit CBlock] [].

Definition internal_sites : list site :=
  [g_bcast_idle; g_bcast_in_broadcast; g_bcast_rebroadcast; g_bcast_conf; g_bcast_in_peers;
   g_bcast_cancel_sub;
   g_work_dispatcher; g_work_worker; g_work_in_connected_peers; g_work_in_additem;
   g_scan_idle; g_scan_in_query; g_scan_in_submit;
   g_sub_handler; g_sub_forwarder;
   g_block_handler; g_cf_cond; g_cf_retry; g_cf_query_all; g_cf_batch; g_cf_getblock;
   g_cf_notify; g_cf_in_peers; g_cf_in_submit; g_cf_first_peer;
   g_batch_writer; g_batch_queue; g_batch_final_write;
   g_svc_peer_handler; g_svc_misc; g_svc_in_newpeer].

(* ------------------------------------------------------------------ *)
(* Caller sites (API calls blocked when Stop begins).                  *)

(* GetBlock / GetCFilter: select { errChan (work manager verdict); s.quit } *)
Definition c_getblock := mkSite 100 None [RQuit CWork; RQuit CSvc]
  [K_ok; K_shutdown; K_cancel; K_timeout].
Definition c_getcfilter := mkSite 101 None [RQuit CWork; RQuit CSvc]
  [K_ok; K_shutdown; K_cancel; K_timeout].
(* GetUtxo -> GetUtxoRequest.Result: select { resultChan; cancel; scanner quit };
   the scanner also delivers an error for the request it is working on *)
Definition c_getutxo := mkSite 102 None [RQuit CScan] [K_ok; K_shutdown; K_cancel].
(* Rescan: blocked in GetCFilter/GetBlock (work manager, s.quit) or on its
   block subscription, which the subscription manager closes; the rescan
   reports that with a plain error, hence K_other *)
Definition c_rescan := mkSite 103 None [RQuit CWork; RQuit CSub; RQuit CSvc]
  [K_shutdown; K_cancel; K_other].
(* SendTransaction -> Broadcaster.Broadcast: both selects have <-b.quit *)
Definition c_sendtx := mkSite 104 None [RQuit CBcast] [K_ok; K_shutdown].
(* Peers, ConnectedCount, OutboundGroupCount, AddedNodeInfo, ...: the send
   on s.query has <-s.quit as alternative; the reply is sent by the peer
   handler, which runs until s.quit is closed.  (The harness reports a
   returned call as K_shutdown.) *)
Definition c_peers := mkSite 105 None [RQuit CSvc] [K_ok; K_shutdown].

Definition caller_sites : list site :=
  [c_getblock; c_getcfilter; c_getutxo; c_rescan; c_sendtx; c_peers].

(* ------------------------------------------------------------------ *)
(* Detached goroutines: nobody waits for them, they only have to end.   *)

(* peer goroutines handing a message to the block manager (QueueInv,
   QueueHeaders; peerDoneHandler in DonePeer): select { b.peerChan <- ; <-b.quit } *)
Definition d_peer_to_blockmgr := mkSite 110 None [RQuit CBlock] [].
(* the time.AfterFunc callback of a batch's progress timer:
   select { w.progressWakes <- ; <-w.quit } *)
Definition d_work_wake := mkSite 111 None [RQuit CWork] [].

Definition detached_sites : list site := [d_peer_to_blockmgr; d_work_wake].

Definition code_sites : list site := internal_sites ++ caller_sites ++ detached_sites.

(* ------------------------------------------------------------------ *)
(* Semantics of Stop.                                                  *)

(* a release that is available at once: a closed quit channel, or a serving
   goroutine that is still running and not itself stuck *)
Fixpoint fires0 (raised : list comp) (r : rel) {struct r} : bool :=
  match r with
  | RQuit c => memc c raised
  | RTimer _ => false
  | RServe c blocks =>
    negb (memc c raised) && forallb (fun alts => existsb (fires0 raised) alts) blocks
  end.

(* delay until r fires, given the quit channels closed so far *)
Definition rel_delay (raised : list comp) (r : rel) : option Z :=
  match r with
  | RQuit c => if memc c raised then Some 0 else None
  | RTimer ms => Some ms
  | RServe _ _ => if fires0 raised r then Some 0 else None
  end.

Definition rel_fires (raised : list comp) (r : rel) : bool :=
  match r with
  | RQuit c => memc c raised
  | RTimer _ => true
  | RServe _ _ => fires0 raised r
  end.

Definition omin (a b : option Z) : option Z :=
  match a, b with
  | Some x, Some y => Some (Z.min x y)
  | Some x, None => Some x
  | None, b => b
  end.

(* a select leaves through whichever alternative fires first *)
Definition site_delay (raised : list comp) (s : site) : option Z :=
  fold_right (fun r acc => omin (rel_delay raised r) acc) None (s_rel s).

Definition owned_by (c : comp) (s : site) : bool :=
  match s_owner s with Some o => comp_eqb o c | None => false end.

(* wg.Wait: all goroutines of the component wait concurrently *)
Fixpoint stage_delay (raised : list comp) (ss : list site) : option Z :=
  match ss with
  | [] => Some 0
  | s :: rest =>
    match site_delay raised s, stage_delay raised rest with
    | Some d, Some m => Some (Z.max d m)
    | _, _ => None
    end
  end.

Inductive result := Done (ms : Z) (raised : list comp) | Hang (c : comp).

(* [st] = the wait sites occupied when Stop begins (any multiset). *)
Fixpoint run_stop (order : list comp) (raised : list comp) (st : list site) (acc : Z) : result :=
  match order with
  | [] => Done acc raised
  | c :: rest =>
    match stage_delay (c :: raised) (filter (owned_by c) st) with
    | None => Hang c
    | Some d => run_stop rest (c :: raised) st (acc + d)
    end
  end.

(* A caller is released once one of its quit alternatives is closed. *)
Definition releasable (raised : list comp) (s : site) : bool :=
  existsb (rel_fires raised) (s_rel s).

(* ------------------------------------------------------------------ *)
(* The check on (order, table) that the theorems are stated over.      *)

Fixpoint wf_from (raised : list comp) (order : list comp) (table : list site) : bool :=
  match order with
  | [] => true
  | c :: rest =>
    forallb (fun s => negb (owned_by c s) || releasable (c :: raised) s) table
    && wf_from (c :: raised) rest table
  end.

(* external callers: some quit alternative belongs to a stopped component *)
Definition wf_callers (order : list comp) (table : list site) : bool :=
  forallb (fun s => match s_owner s with
                    | Some _ => true
                    | None => existsb (fun r => match r with RQuit c => memc c order | _ => false end) (s_rel s)
                    end) table.

(* The explicit dependency relation: (site, owner, c) when a goroutine of
   [owner] waits at a site none of whose quit alternatives is closed by the
   time [owner] is stopped, and c is one of those (later) quit alternatives,
   or a component one of whose goroutines serves the wait. *)
Fixpoint deps_from (raised : list comp) (order : list comp) (table : list site) : list (Z * comp * comp) :=
  match order with
  | [] => []
  | o :: rest =>
    flat_map (fun s =>
      if owned_by o s && negb (existsb (fun r => match r with RQuit c => memc c (o :: raised) | _ => false end) (s_rel s))
      then flat_map (fun r => match r with
                              | RQuit c => [(s_id s, o, c)]
                              | RServe c _ =>
                                (* served by a goroutine of c, and c's quit is not an alternative *)
                                if existsb (fun r' => match r' with RQuit c' => comp_eqb c c' | _ => false end) (s_rel s)
                                then [] else [(s_id s, o, c)]
                              | RTimer _ => []
                              end) (s_rel s)
      else []) table
    ++ deps_from (o :: raised) rest table
  end.

(* Sites that depend on a later component and have no timer either. *)
Definition has_timer (s : site) : bool :=
  existsb (fun r => match r with RTimer _ => true | _ => false end) (s_rel s).

(* ... or are served by a goroutine of that later component *)
Definition is_served (s : site) : bool :=
  existsb (fun r => match r with RServe _ _ => true | _ => false end) (s_rel s).
