(* C17 — replay of the outcome vectors recorded from the real ChainService
   against the shutdown model (nominal duration) and the monitor. *)
From Coq Require Import ZArith List Bool.
From Verif Require Import C17.Model C17.Spec.
Import ListNotations.
Open Scope Z_scope.

(* index of the first call the monitor rejects *)
Fixpoint first_bad_call (phase i : Z) (l : list (Z * bool * Z)) : option Z :=
  match l with
  | [] => None
  | cl :: rest => if call_okb phase cl then first_bad_call phase (i + 1) rest else Some i
  end.

(* step codes: 0 = Stop itself (did not return / too late), 1+i = call i,
   100 = reopening the data directory *)
Definition bad_step (c : case) : Z :=
  if negb (c_stop_returned c) || negb (c_stop_ms c <=? stop_bound_ms) then 0
  else match first_bad_call (c_phase c) 1 (c_calls c) with
       | Some i => i
       | None => 100
       end.

(* rows (case id, kind, step, tag):
   kind 1: the implementation's Stop took longer than the model's nominal
           worst case for the scenario plus slack — a wait the site table
           does not know (model and code differ);
   kind 2: the monitor rejects the recorded outcome vector (Stop did not
           return in bounded time, a caller hung or returned an error of the
           wrong class, the stores cannot be reopened consistently).
   The repaired code has no open root cause, so the tag is 0. *)
Definition verdict (ic : Z * case) : list (Z * Z * Z * Z) :=
  let '(id, c) := ic in
  (if c_stop_returned c then
     match nominal_ms c with
     | Some t => if c_stop_ms c <=? t + slack_ms then [] else [(id, 1, 0, 0)]
     | None => [(id, 1, 0, 0)]
     end
   else []) ++
  (if holds c then [] else [(id, 2, bad_step c, 0)]).

Definition run_cases (cs : list (Z * case)) : list (Z * Z * Z * Z) := flat_map verdict cs.
