(* C17 — the tie between the hand-written table of wait sites (C17/Model.v
   code_sites, references and claims in C17/Sites.v) and the table of
   blocking sites GENERATED from the Go source on every check run
   (Generated/WaitSites.v, translator harness/cmd/genwaitsites).

   Every theorem is a computation over the generated table and is stated as
   "the list of offenders is empty", so that when the source changes the
   error message of the failing theorem names the offending sites.

   What a change of the source does:
   - a select loses (or gains) an alternative, a select becomes a bare send
     or receive: the key that referred to it no longer matches
     (Tie_refs_exist names the reference) and the changed site is not
     accounted for (Tie_complete names the site);
   - a new blocking site appears in a listed function: Tie_complete;
   - a channel whose capacity an allow-list reason relies on is created with
     another capacity: Tie_capacities;
   - a two-valued receive on a channel that is released by closing it
     becomes single-valued: the key no longer matches (Tie_refs_exist), and
     the reference cannot be rewritten to the single-valued form
     (Tie_quit_roles_named);
   - a new panic(...) on an error value, or a new error return in a function
     whose error a caller turns into a panic: Tie_complete / Tie_fail_paths;
   - ChainService.Stop or a component's Stop changes its order of steps:
     Tie_stop_sequences / Tie_stop_order;
   - a listed function disappears: Tie_complete (kind MissingFunction).     *)
From Coq Require Import ZArith String List Bool Arith.
From Verif Require Import C17.Model C17.WaitTypes C17.Sites Generated.WaitSites.
Import ListNotations.
Open Scope string_scope.

Definition covered (g : gsite) : bool :=
  kind_eqb (g_kind g) SelectDefault
  || kind_eqb (g_kind g) MakeChan   (* not a blocking site; see Tie_capacities *)
  || kind_eqb (g_kind g) Panic      (* a panic that does not depend on an error value *)
  || existsb (fun f => matches (f_key f) g) fail_paths   (* see Tie_fail_paths *)
  || existsb (fun r => matches (r_key r) g) site_refs
  || existsb (fun sq => String.eqb (fst sq) (g_fn g)) stop_sequences
  || existsb (fun a => matches (a_key a) g) nonblocking_or_irrelevant.

(* All offenders at once (coqc stops at the first failing theorem, so this
   one comes first and shows everything a change of the source broke):
   references that no longer match, generated sites nobody accounts for, Stop
   functions whose steps changed, channel capacities an allow-list reason
   relies on that changed. *)
Definition seq_ok (sq : string * list (string * kind * list alt)) : bool :=
  list_eqb (fun x y => let '(c1, k1, a1) := x in let '(c2, k2, a2) := y in
                       String.eqb c1 c2 && kind_eqb k1 k2 && alts_eqb a1 a2)
           (sites_of_fn (fst sq) wait_sites) (snd sq).

Definition cap_ok (c : capclaim) : bool :=
  Nat.eqb (count_of (mkKey (c_fn c) "" MakeChan [Made (c_name c) (c_cap c)]) wait_sites) (c_n c)
  && Nat.eqb (made_count (c_fn c) (c_name c) wait_sites) (c_n c) && negb (Nat.eqb (c_n c) 0).

Definition ref_matches (r : sref) : bool :=
  Nat.eqb (count_of (r_key r) wait_sites) (r_count r).

Theorem Tie_summary :
  (map (fun r => (r_site r, r_key r, count_of (r_key r) wait_sites)) (filter (fun r => negb (ref_matches r)) site_refs),
   map show (filter (fun g => negb (covered g)) wait_sites),
   map (fun sq => (fst sq, sites_of_fn (fst sq) wait_sites)) (filter (fun sq => negb (seq_ok sq)) stop_sequences),
   map (fun c => (c, filter (fun g => String.eqb (c_fn c) (g_fn g) && kind_eqb (g_kind g) MakeChan) wait_sites))
       (filter (fun c => negb (cap_ok c)) (flat_map a_caps nonblocking_or_irrelevant)))
  = ([], [], [], []).
Proof. vm_compute. reflexivity. Qed.
Print Assumptions Tie_summary.

(* ------------------------------------------------------------------ *)
(* (a) every reference exists in the generated table, with exactly the
   claimed alternatives, exactly as many times as claimed.              *)

Definition ref_exists (r : sref) : bool :=
  Nat.eqb (count_of (r_key r) wait_sites) (r_count r) && negb (Nat.eqb (r_count r) 0)
  && Nat.eqb (length (r_roles r)) (length (k_alts (r_key r))).

Definition show_ref (r : sref) : Z * key * nat := (r_site r, r_key r, count_of (r_key r) wait_sites).

Theorem Tie_refs_exist :
  map show_ref (filter (fun r => negb (ref_exists r)) site_refs) = [].
Proof. vm_compute. reflexivity. Qed.
Print Assumptions Tie_refs_exist.

(* ------------------------------------------------------------------ *)
(* (a') the releases the model gives a site are alternatives of the code
   at every site it refers to.

   For a goroutine some Stop waits for (owner Some _): EVERY release of the
   hand-table site must be among the roles of every referenced generated
   site (a timer of the model must be at least the code's), so whatever
   subset of releases fires in the model also fires in the code.  For
   callers and detached goroutines (owner None), which only have to be
   released by the end of Stop: SOME release.  A referenced select with a
   default case does not block and is exempt.                            *)

Definition find_site (id : Z) : option site :=
  find (fun s => Z.eqb (s_id s) id) code_sites.

Definition supported (roles : list role) (r : rel) : bool :=
  match r with
  | RQuit c => existsb (fun ro => match ro with Quit c' => comp_eqb c c' | _ => false end) roles
  | RTimer ms => existsb (fun ro => match ro with Tmr m => Z.leb m ms | _ => false end) roles
  | RServe c _ => existsb (fun ro => match ro with Serve c' => comp_eqb c c' | _ => false end) roles
  end.

Definition has_default (roles : list role) : bool :=
  existsb (fun ro => match ro with Dflt => true | _ => false end) roles.

Definition ref_sound (r : sref) : bool :=
  let roles := concat (r_roles r) in
  match find_site (r_site r) with
  | None => false
  | Some s =>
    has_default roles ||
    match s_owner s with
    | Some _ => forallb (supported roles) (s_rel s)
    | None => existsb (supported roles) (s_rel s)
    end
  end.

Theorem Tie_refs_sound :
  map show_ref (filter (fun r => negb (ref_sound r)) site_refs) = [].
Proof. vm_compute. reflexivity. Qed.
Print Assumptions Tie_refs_sound.

(* every Quit role is put on a channel expression that quit_names lists for
   that file and component; where the release is the closing of a channel
   that carries data (flag), the receive is of the two-valued form *)
Definition alt_text (a : alt) : string :=
  match a with RecvFrom s | RecvFromOk s | SendTo s | Timer s | WaitOn s => s | Made s _ => s | Default => "" end.

Definition two_valued (a : alt) : bool := match a with RecvFromOk _ => true | _ => false end.

Definition quit_named (fn : string) (a : alt) (c : comp) : bool :=
  existsb (fun e => let '(file, ch, c', closed_data) := e in
                    String.prefix (file ++ ":") fn && String.eqb ch (alt_text a) && comp_eqb c c'
                    && (negb closed_data || two_valued a))
          quit_names.

Definition ref_quits_named (r : sref) : bool :=
  forallb (fun ar => let '(a, roles) := ar in
                     forallb (fun ro => match ro with Quit c => quit_named (k_fn (r_key r)) a c | _ => true end) roles)
          (combine (k_alts (r_key r)) (r_roles r)).

Theorem Tie_quit_roles_named :
  map show_ref (filter (fun r => negb (ref_quits_named r)) site_refs) = [].
Proof. vm_compute. reflexivity. Qed.
Print Assumptions Tie_quit_roles_named.

(* every site of the hand table refers to at least one generated site *)
Theorem Tie_hand_sites_referenced :
  map s_id (filter (fun s => negb (existsb (fun r => Z.eqb (r_site r) (s_id s)) site_refs)) code_sites) = [].
Proof. vm_compute. reflexivity. Qed.
Print Assumptions Tie_hand_sites_referenced.

(* ------------------------------------------------------------------ *)
(* The Stop functions consist of exactly the claimed steps in the claimed
   order, and the order of ChainService.Stop is the model's stop order.  *)

Theorem Tie_stop_sequences :
  filter (fun sq => negb (seq_ok sq)) stop_sequences = [].
Proof. vm_compute. reflexivity. Qed.
Print Assumptions Tie_stop_sequences.

Theorem Tie_stop_order :
  flat_map (fun st => match snd st with Some c => [c] | None => [] end) service_stop = stop_order.
Proof. vm_compute. reflexivity. Qed.
Print Assumptions Tie_stop_order.

(* ------------------------------------------------------------------ *)
(* The allow-list and the supporting sites are exact as well.           *)

Theorem Tie_allow_exact :
  map (fun a => (a_key a, count_of (a_key a) wait_sites))
      (filter (fun a => negb (Nat.eqb (count_of (a_key a) wait_sites) (a_count a)) || Nat.eqb (a_count a) 0)
              nonblocking_or_irrelevant) = [].
Proof. vm_compute. reflexivity. Qed.
Print Assumptions Tie_allow_exact.

(* every capacity an allow-list reason relies on is the capacity the source
   gives the channel: the function creates exactly the claimed number of
   channels under that name, each with exactly the claimed capacity text *)
Theorem Tie_capacities :
  map (fun c => (c, filter (fun g => String.eqb (c_fn c) (g_fn g) && kind_eqb (g_kind g) MakeChan) wait_sites))
      (filter (fun c => negb (cap_ok c)) (flat_map a_caps nonblocking_or_irrelevant)) = [].
Proof. vm_compute. reflexivity. Qed.
Print Assumptions Tie_capacities.

(* the panic-on-error sites and the error returns feeding them are exactly
   the listed ones *)
Theorem Tie_fail_paths :
  map (fun f => (f_key f, count_of (f_key f) wait_sites))
      (filter (fun f => negb (Nat.eqb (count_of (f_key f) wait_sites) (f_count f)) || Nat.eqb (f_count f) 0) fail_paths) = [].
Proof. vm_compute. reflexivity. Qed.
Print Assumptions Tie_fail_paths.

Theorem Tie_supports_exist :
  filter (fun s => let '(_, k, n) := s in negb (Nat.eqb (count_of k wait_sites) n)) supports = [].
Proof. vm_compute. reflexivity. Qed.
Print Assumptions Tie_supports_exist.

(* ------------------------------------------------------------------ *)
(* (b) COMPLETENESS: every blocking site the translator found in the listed
   functions is referred to by the hand table, is a step of a Stop function,
   is on the allow-list, or is a select with a default case.             *)

Theorem Tie_complete :
  map show (filter (fun g => negb (covered g)) wait_sites) = [].
Proof. vm_compute. reflexivity. Qed.
Print Assumptions Tie_complete.

(* Non-vacuity: the generated table is not empty, and the checks do reject:
   the site of seeded change C17-1 (the rebroadcast worker's hand-over of a
   confirmation turned into a bare send) is not covered. *)
Example Tie_nonvacuous :
  Nat.leb 100 (length wait_sites) = true
  /\ covered (mkG "pushtx/broadcaster.go:Broadcaster.rebroadcast" 1 "" BareSend [SendTo "confChan"]) = false
  /\ covered (mkG "blockmanager.go:blockManager.cfHandler" 3 "" Select [Timer "time.After(retryTimeout)"]) = false.
Proof. vm_compute. repeat split; reflexivity. Qed.
Print Assumptions Tie_nonvacuous.
