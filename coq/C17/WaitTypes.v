(* C17 — vocabulary of the GENERATED table of blocking sites
   (coq/Generated/WaitSites.v, written by harness/cmd/genwaitsites from the
   source text of the neutrino checkout on every check run), and the lookup
   functions the tie (C17/Tie.v) is stated with.  No proofs. *)
From Coq Require Import String List Bool Arith.
Import ListNotations.
Open Scope string_scope.

(* One alternative of a blocking site; the text is the Go expression printed
   without white space. *)
Inductive alt :=
| RecvFrom (ch : string)   (* case ... <-ch, case v := <-ch *)
| RecvFromOk (ch : string) (* case v, ok := <-ch: the only form that sees a CLOSED channel as such *)
| SendTo (ch : string)     (* case ch <- ... *)
| Timer (e : string)       (* <-time.After(d), <-ticker.C, <-timer.C, time.Sleep(d) *)
| WaitOn (e : string)      (* e.Wait(), e.WaitFor...(), e.Stop(), close(e) *)
| Made (name cap : string) (* name = make(chan T, cap); cap "0" = unbuffered *)
| Default.                 (* default: *)

Inductive kind :=
| Select            (* select without default *)
| SelectDefault     (* select with default: never blocks *)
| BareSend          (* ch <- v outside a select *)
| BareRecv          (* <-ch outside a select *)
| TimerRecv         (* <-time.After(d) outside a select *)
| RangeChan         (* for ... := range ch *)
| WaitGroupWait     (* wg.Wait(), wg a sync.WaitGroup *)
| CondWait          (* c.Wait(), c a sync.Cond *)
| OtherWait         (* x.Wait() of an unknown type, x.WaitFor...() *)
| Sleep             (* time.Sleep(d) *)
| StopCall          (* x.Stop()    — only in functions listed with +calls *)
| CloseChan         (* close(ch)   — only in functions listed with +calls *)
| MakeChan          (* make(chan T[, n]): not a blocking site; capacity claims refer to it *)
| Panic             (* panic(x), x mentions no error value *)
| PanicOnErr        (* panic(x), x mentions an error value (WaitOn names the identifiers) *)
| ErrReturn         (* return ..., e with e not nil — only in functions listed with +returns *)
| MissingFunction.  (* a listed function that the source no longer has *)

(* g_fn: "file.go:Receiver.Function"; g_ord: position among the function's
   sites in source order; g_ctx: nesting in function literals ("go", "func",
   "defer", joined by "/"; "" = the function body itself). *)
Record gsite := mkG {
  g_fn : string;
  g_ord : nat;
  g_ctx : string;
  g_kind : kind;
  g_alts : list alt
}.

Definition alt_eqb (a b : alt) : bool :=
  match a, b with
  | RecvFrom x, RecvFrom y => String.eqb x y
  | RecvFromOk x, RecvFromOk y => String.eqb x y
  | Made n c, Made n' c' => String.eqb n n' && String.eqb c c'
  | SendTo x, SendTo y => String.eqb x y
  | Timer x, Timer y => String.eqb x y
  | WaitOn x, WaitOn y => String.eqb x y
  | Default, Default => true
  | _, _ => false
  end.

Definition kind_id (k : kind) : nat :=
  match k with
  | Select => 0 | SelectDefault => 1 | BareSend => 2 | BareRecv => 3 | TimerRecv => 4
  | RangeChan => 5 | WaitGroupWait => 6 | CondWait => 7 | OtherWait => 8 | Sleep => 9
  | StopCall => 10 | CloseChan => 11 | MissingFunction => 12 | MakeChan => 13
  | Panic => 14 | PanicOnErr => 15 | ErrReturn => 16
  end.

Definition kind_eqb (a b : kind) : bool := Nat.eqb (kind_id a) (kind_id b).

Fixpoint alts_eqb (a b : list alt) : bool :=
  match a, b with
  | [], [] => true
  | x :: a', y :: b' => alt_eqb x y && alts_eqb a' b'
  | _, _ => false
  end.

(* A KEY names all sites of one function that look alike: same nesting, same
   kind, same alternatives in the same order.  Keys carry no ordinal, so
   moving code inside a function does not change them; the number of sites a
   key matches is part of every claim. *)
Record key := mkKey {
  k_fn : string;
  k_ctx : string;
  k_kind : kind;
  k_alts : list alt
}.

Definition matches (k : key) (g : gsite) : bool :=
  String.eqb (k_fn k) (g_fn g) && String.eqb (k_ctx k) (g_ctx g)
  && kind_eqb (k_kind k) (g_kind g) && alts_eqb (k_alts k) (g_alts g).

Definition count_of (k : key) (tbl : list gsite) : nat :=
  length (filter (matches k) tbl).

Fixpoint list_eqb {A} (eqb : A -> A -> bool) (a b : list A) : bool :=
  match a, b with
  | [], [] => true
  | x :: a', y :: b' => eqb x y && list_eqb eqb a' b'
  | _, _ => false
  end.

(* the sites of one function (channel creations left out), in source order,
   as (nesting, kind, alternatives) *)
Definition sites_of_fn (fn : string) (tbl : list gsite) : list (string * kind * list alt) :=
  map (fun g => (g_ctx g, g_kind g, g_alts g))
      (filter (fun g => String.eqb fn (g_fn g) && negb (kind_eqb (g_kind g) MakeChan)
                        && negb (kind_eqb (g_kind g) Panic) && negb (kind_eqb (g_kind g) PanicOnErr)
                        && negb (kind_eqb (g_kind g) ErrReturn)) tbl).

(* how many channels a function creates under a given name, whatever the capacity *)
Definition made_count (fn name : string) (tbl : list gsite) : nat :=
  length (filter (fun g => String.eqb fn (g_fn g) && kind_eqb (g_kind g) MakeChan
                           && match g_alts g with [Made n _] => String.eqb n name | _ => false end) tbl).

(* what a failing theorem shows of a site *)
Definition show (g : gsite) : string * nat * string * kind * list alt :=
  (g_fn g, g_ord g, g_ctx g, g_kind g, g_alts g).
