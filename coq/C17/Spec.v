(* C17 — the property in its own vocabulary and the monitor evaluated on the
   outcome vector recorded from the real ChainService. *)
From Coq Require Import ZArith List Bool.
From Verif Require Import C17.Model.
Import ListNotations.
Open Scope Z_scope.

(* "Bounded time" of the statement, as checked on the implementation. *)
Definition stop_bound_ms := 20000.
(* Scheduling slack granted to the implementation on top of the model's
   nominal worst case for the scenario. *)
Definition slack_ms := 3000.

(* Outcome vector of one scenario.
   c_calls: (call kind, returned before Stop began, result class). *)
Record case := mkCase {
  c_phase : Z;       (* 0 idle, 1 mid-sync, 2 mid-reorganisation, 3 no peer connected, 4 never started,
                        5 component scenario: block manager stopped in the middle of a rollback,
                        6 idle and synced, a backlog of filters in the batch writer,
                        7 synced, one peer has stopped reading, an all-peers query in flight *)
  c_peers : Z;       (* peers connected when Stop began *)
  c_silent : Z;      (* bit mask: 1 getdata, 2 getcfilters, 4 inv, 8 getcfheaders, 16 getheaders, 32 getcfcheckpt *)
  c_persist : bool;
  c_long : bool;     (* chain longer than one filter-checkpoint interval *)
  c_calls : list (Z * bool * Z);
  c_stop_returned : bool;
  c_stop_ms : Z;
  c_reopen : Z       (* 0 consistent, 1 inconsistent / cannot be opened, 2 not attempted *)
}.

Definition caller_site (kind : Z) : option site :=
  nth_error caller_sites (Z.to_nat (if (0 <=? kind) && (kind <? 6) then kind else 6)).

(* ------------------------------------------------------------------ *)
(* Spec: what the statement demands of one stop.                        *)

(* A call that was still in flight when Stop began has to come back with a
   class of its caller site — a valid result, or a shutdown / cancellation
   error.  One more class is accepted in exactly one situation: GetBlock,
   GetCFilter and GetUtxo (kinds 0, 1, 2) in a scenario that is mid-sync or
   mid-reorganisation (phase 1, 2) may come back with an error of their own
   (K_other).  While headers and filter headers are being written or rolled
   back such a call can fail for a reason that has nothing to do with Stop —
   observed: a GetUtxo scan ending with "no filter headers to verify block at
   height 147 against, best height is 146" because the reorganisation had
   just rolled the filter headers back — and a call that has failed was not
   left blocked, which is what the property is about.  In the idle, no-peer
   and never-started phases the stores do not change under the call, so there
   an error that is neither shutdown nor cancellation stays a violation. *)
Definition transient_phase (phase : Z) : bool := (phase =? 1) || (phase =? 2).
Definition chain_call (kind : Z) : bool := (kind =? 0) || (kind =? 1) || (kind =? 2).

Definition allowed_classes (phase kind : Z) (s : site) : list Z :=
  s_results s ++ (if transient_phase phase && chain_call kind then [K_other] else []).

Definition call_ok (phase : Z) (cl : Z * bool * Z) : Prop :=
  let '(kind, pre, cls) := cl in
  cls <> K_hung /\
  (pre = false -> exists s, caller_site kind = Some s /\ In cls (allowed_classes phase kind s)).

Record Holds (c : case) : Prop := {
  H_returns : c_stop_returned c = true;
  H_bounded : c_stop_ms c <= stop_bound_ms;
  H_calls : Forall (call_ok (c_phase c)) (c_calls c);
  H_reopen : c_reopen c = 0
}.

(* ------------------------------------------------------------------ *)
(* Decidable monitor.                                                   *)

Definition call_okb (phase : Z) (cl : Z * bool * Z) : bool :=
  let '(kind, pre, cls) := cl in
  negb (cls =? K_hung) &&
  (pre || match caller_site kind with
          | Some s => existsb (Z.eqb cls) (allowed_classes phase kind s)
          | None => false
          end).

Definition holds (c : case) : bool :=
  c_stop_returned c && (c_stop_ms c <=? stop_bound_ms) &&
  forallb (call_okb (c_phase c)) (c_calls c) && (c_reopen c =? 0).

(* ------------------------------------------------------------------ *)
(* The model's reading of a scenario: which internal wait sites can be
   occupied when Stop begins (an over-approximation from the scenario
   facts), and from that the nominal worst-case duration of Stop.       *)

Definition bit (m b : Z) : bool := Z.odd (m / b).

Definition has_call (c : case) (kind : Z) : bool :=
  existsb (fun cl => let '(k, _, _) := cl in k =? kind) (c_calls c).

Definition blocked_call (c : case) (kind : Z) : bool :=
  existsb (fun cl => let '(k, pre, _) := cl in (k =? kind) && negb pre) (c_calls c).

Definition sites_of_case (c : case) : list site :=
  let peers := 0 <? c_peers c in
  (* resident goroutines *)
  [g_bcast_idle; g_work_dispatcher; g_work_worker; g_scan_idle; g_sub_handler;
   g_block_handler; g_cf_cond; g_cf_retry; g_cf_batch; g_svc_peer_handler; g_svc_misc]
  (* PersistToDisk: the batch writer, its queue, and the writer's final write
     of the batch in hand when b.quit fires (a Stop with a backlog) *)
  ++ (if c_persist c then [g_batch_writer; g_batch_queue; g_batch_final_write] else [])
  (* a transaction was handed to the broadcaster and a peer is connected:
     the handler or the rebroadcast worker can be inside sendTransaction *)
  ++ (if has_call c 4 && peers then [g_bcast_in_broadcast; g_bcast_rebroadcast] else [])
  (* a GetUtxo request is unanswered: the scanner can be inside GetBlock /
     GetCFilter *)
  ++ (if blocked_call c 2 then [g_scan_in_query] else [])
  (* filter-header sync can be inside a broadcast query: not idle, or a peer
     is silent on filter-header traffic, or the chain needs checkpoints.
     (Phase 6 is an idle, synced client.)
     The number of peers connected NOW does not matter: queryAllPeers waits
     for s.quit or its timeout even after the peers it asked have gone. *)
  ++ (if negb ((c_phase c =? 0) || (c_phase c =? 6)) || bit (c_silent c) 8 || bit (c_silent c) 16
         || bit (c_silent c) 32 || c_long c
      then [g_cf_query_all; g_cf_getblock] else []).

Definition nominal_ms (c : case) : option Z :=
  match run_stop stop_order [] (sites_of_case c) 0 with
  | Done t _ => Some t
  | Hang _ => None
  end.
