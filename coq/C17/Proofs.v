(* C17 — lemmas. *)
From Coq Require Import ZArith List Bool Lia ZifyBool.
From Verif Require Import C17.Model C17.Spec.
Import ListNotations.
Open Scope Z_scope.

(* ------------------------------------------------------------------ *)
(* component equality *)

Lemma comp_eqb_eq : forall a b, comp_eqb a b = true <-> a = b.
Proof.
  intros a b; unfold comp_eqb; split.
  - intro H; apply Z.eqb_eq in H; destruct a, b; simpl in H; try reflexivity; discriminate.
  - intros ->; apply Z.eqb_refl.
Qed.

Lemma memc_In : forall c l, memc c l = true <-> In c l.
Proof.
  intros c l; unfold memc; rewrite existsb_exists; split.
  - intros [x [Hin Heq]]; apply comp_eqb_eq in Heq; subst; exact Hin.
  - intro Hin; exists c; split; [exact Hin | apply comp_eqb_eq; reflexivity].
Qed.

Lemma memc_app : forall c l1 l2, memc c (l1 ++ l2) = memc c l1 || memc c l2.
Proof. intros; unfold memc; apply existsb_app. Qed.

Lemma memc_rev : forall c l, memc c (rev l) = memc c l.
Proof.
  intros c l. destruct (memc c l) eqn:E.
  - apply memc_In; apply -> in_rev; apply memc_In; exact E.
  - destruct (memc c (rev l)) eqn:E2; [|reflexivity].
    apply memc_In in E2; apply in_rev in E2; apply memc_In in E2; congruence.
Qed.

(* ------------------------------------------------------------------ *)
(* a releasable site leaves its wait after a finite delay *)

Lemma rel_fires_delay : forall raised r,
  rel_fires raised r = true <-> exists d, rel_delay raised r = Some d.
Proof.
  intros raised [c|ms|c blocks]; unfold rel_fires, rel_delay.
  - destruct (memc c raised); split; intro H; try reflexivity; try discriminate; eauto.
    destruct H as [d H]; discriminate.
  - split; eauto.
  - destruct (fires0 raised (RServe c blocks)); split; intro H; try reflexivity; try discriminate; eauto.
    destruct H as [d H]; discriminate.
Qed.

Lemma fold_delay_some : forall raised l,
  existsb (rel_fires raised) l = true ->
  exists d, fold_right (fun r acc => omin (rel_delay raised r) acc) None l = Some d.
Proof.
  intros raised l; induction l as [|r l IH]; simpl; intro H; [discriminate|].
  destruct (rel_delay raised r) as [x|] eqn:E.
  - destruct (fold_right _ None l); simpl; eauto.
  - assert (Hf : rel_fires raised r = false).
    { destruct (rel_fires raised r) eqn:F; [|reflexivity].
      apply rel_fires_delay in F; destruct F as [d F]; congruence. }
    rewrite Hf in H; simpl in H. destruct (IH H) as [d Hd]; rewrite Hd; simpl; eauto.
Qed.

Lemma releasable_delay : forall raised s,
  releasable raised s = true -> exists d, site_delay raised s = Some d.
Proof. intros raised s H; unfold site_delay; apply fold_delay_some; exact H. Qed.

(* upper bound of a site's delay: its largest timer *)
Definition timer_of (r : rel) (acc : Z) : Z :=
  match r with RTimer ms => Z.max ms acc | _ => acc end.

Definition max_timer (s : site) : Z := fold_right timer_of 0 (s_rel s).

Lemma fold_timer_nonneg : forall l, 0 <= fold_right timer_of 0 l.
Proof. induction l as [|r l IH]; simpl; [lia|]. destruct r; simpl; lia. Qed.

(* a release that fires at once or not at all *)
Lemma fold_delay_le_zero : forall raised l d r (b : bool),
  (forall y, fold_right (fun r acc => omin (rel_delay raised r) acc) None l = Some y ->
             y <= fold_right timer_of 0 l) ->
  rel_delay raised r = (if b then Some 0 else None) -> timer_of r (fold_right timer_of 0 l) = fold_right timer_of 0 l ->
  omin (rel_delay raised r) (fold_right (fun r acc => omin (rel_delay raised r) acc) None l) = Some d ->
  d <= fold_right timer_of 0 l.
Proof.
  intros raised l d r b IH Hr _ H. rewrite Hr in H. pose proof (fold_timer_nonneg l).
  destruct b; simpl in H.
  - destruct (fold_right _ None l) as [y|] eqn:E; simpl in H; inversion H; subst.
    + specialize (IH y eq_refl); lia.
    + lia.
  - destruct (fold_right _ None l) as [y|] eqn:E; simpl in H; inversion H; subst.
    apply IH; reflexivity.
Qed.

Lemma fold_delay_le : forall raised l d,
  fold_right (fun r acc => omin (rel_delay raised r) acc) None l = Some d ->
  d <= fold_right timer_of 0 l.
Proof.
  intros raised l; induction l as [|r l IH]; simpl; intros d H; [discriminate|].
  destruct r as [c|ms|c blocks].
  - apply (fold_delay_le_zero raised l d (RQuit c) (memc c raised) IH); [reflexivity | reflexivity | exact H].
  - simpl in H. destruct (fold_right _ None l) as [y|] eqn:E; simpl in H; inversion H; subst; simpl.
    + specialize (IH y eq_refl); lia.
    + lia.
  - apply (fold_delay_le_zero raised l d (RServe c blocks) (fires0 raised (RServe c blocks)) IH);
      [reflexivity | reflexivity | exact H].
Qed.

Lemma site_delay_le : forall raised s d, site_delay raised s = Some d -> d <= max_timer s.
Proof. intros raised s d H; unfold max_timer; eapply fold_delay_le; exact H. Qed.

Lemma max_timer_nonneg : forall s, 0 <= max_timer s.
Proof. intro s; unfold max_timer; apply fold_timer_nonneg. Qed.

(* ------------------------------------------------------------------ *)
(* one stage *)

Definition stage_bound (table : list site) (c : comp) : Z :=
  fold_right (fun s acc => if owned_by c s then Z.max (max_timer s) acc else acc) 0 table.

Lemma stage_bound_nonneg : forall table c, 0 <= stage_bound table c.
Proof.
  intros table c; unfold stage_bound; induction table as [|s t IH]; simpl; [lia|].
  destruct (owned_by c s); lia.
Qed.

Lemma stage_bound_in : forall table c s,
  In s table -> owned_by c s = true -> max_timer s <= stage_bound table c.
Proof.
  intros table c s; unfold stage_bound; induction table as [|x t IH]; simpl; intros Hin Ho; [contradiction|].
  destruct Hin as [->|Hin].
  - rewrite Ho; lia.
  - specialize (IH Hin Ho). destruct (owned_by c x); lia.
Qed.

Lemma stage_ok : forall raised c table st,
  forallb (fun s => negb (owned_by c s) || releasable raised s) table = true ->
  incl st table ->
  exists d, stage_delay raised (filter (owned_by c) st) = Some d /\ 0 <= d <= stage_bound table c.
Proof.
  intros raised c table st Hwf; induction st as [|s st IH]; intro Hincl; simpl.
  - exists 0; split; [reflexivity|]. pose proof (stage_bound_nonneg table c); lia.
  - assert (Hs : In s table) by (apply Hincl; left; reflexivity).
    assert (Hincl' : incl st table) by (intros x Hx; apply Hincl; right; exact Hx).
    destruct (IH Hincl') as [m [Hm Hb]].
    destruct (owned_by c s) eqn:Ho; simpl.
    + rewrite forallb_forall in Hwf. specialize (Hwf s Hs). rewrite Ho in Hwf; simpl in Hwf.
      destruct (releasable_delay _ _ Hwf) as [d Hd]. rewrite Hd, Hm.
      exists (Z.max d m); split; [reflexivity|].
      pose proof (site_delay_le _ _ _ Hd). pose proof (stage_bound_in table c s Hs Ho). lia.
    + exists m; split; assumption.
Qed.

(* ------------------------------------------------------------------ *)
(* the whole Stop *)

Definition total_bound (order : list comp) (table : list site) : Z :=
  fold_right (fun c acc => stage_bound table c + acc) 0 order.

Lemma stop_completes_gen : forall order raised table st acc,
  wf_from raised order table = true -> incl st table ->
  exists t, run_stop order raised st acc = Done t (rev order ++ raised)
            /\ acc <= t <= acc + total_bound order table.
Proof.
  intro order; induction order as [|c rest IH]; intros raised table st acc Hwf Hincl; simpl.
  - exists acc; split; [reflexivity | lia].
  - simpl in Hwf. apply andb_true_iff in Hwf; destruct Hwf as [Hc Hrest].
    destruct (stage_ok (c :: raised) c table st Hc Hincl) as [d [Hd Hb]].
    rewrite Hd.
    destruct (IH (c :: raised) table st (acc + d) Hrest Hincl) as [t [Ht Hbt]].
    exists t; split.
    + rewrite Ht; rewrite <- app_assoc; reflexivity.
    + lia.
Qed.

(* every blocked caller is released once all components are stopped *)
Lemma callers_released_gen : forall order table s,
  wf_callers order table = true -> In s table -> s_owner s = None ->
  releasable (rev order) s = true.
Proof.
  intros order table s Hwf Hin Hown. unfold wf_callers in Hwf; rewrite forallb_forall in Hwf.
  specialize (Hwf s Hin); rewrite Hown in Hwf.
  unfold releasable. rewrite existsb_exists in *. destruct Hwf as [r [Hr Hq]].
  exists r; split; [exact Hr|]. destruct r as [c|ms|c blocks]; [|discriminate|discriminate].
  simpl. rewrite memc_rev; exact Hq.
Qed.

(* ------------------------------------------------------------------ *)
(* a hang needs a site that is not releasable at its owner's stage *)

Lemma hang_not_wf : forall order raised table st acc c,
  incl st table -> run_stop order raised st acc = Hang c -> wf_from raised order table = false.
Proof.
  intros order raised table st acc c Hincl Hrun.
  destruct (wf_from raised order table) eqn:E; [|reflexivity].
  destruct (stop_completes_gen order raised table st acc E Hincl) as [t [Ht _]]; congruence.
Qed.

(* ------------------------------------------------------------------ *)
(* monitor = spec *)

Lemma existsb_eqb_In : forall x l, existsb (Z.eqb x) l = true <-> In x l.
Proof.
  intros x l; rewrite existsb_exists; split.
  - intros [y [Hin He]]; apply Z.eqb_eq in He; subst; exact Hin.
  - intro Hin; exists x; split; [exact Hin | apply Z.eqb_refl].
Qed.

Lemma call_okb_spec : forall phase cl, call_okb phase cl = true <-> call_ok phase cl.
Proof.
  intros phase [[kind pre] cls]; unfold call_okb, call_ok; split.
  - intro H; apply andb_true_iff in H; destruct H as [Hh Hr]; split.
    + intro Heq; rewrite Heq in Hh; rewrite Z.eqb_refl in Hh; discriminate.
    + intro Hpre; subst pre; simpl in Hr.
      destruct (caller_site kind) as [s|]; [|discriminate].
      exists s; split; [reflexivity | apply existsb_eqb_In; exact Hr].
  - intros [Hh Hr]; apply andb_true_iff; split.
    + destruct (cls =? K_hung) eqn:E; [apply Z.eqb_eq in E; contradiction | reflexivity].
    + destruct pre; [reflexivity|]. simpl. destruct (Hr eq_refl) as [s [Hs Hin]].
      rewrite Hs; apply existsb_eqb_In; exact Hin.
Qed.

Lemma holds_spec : forall c, holds c = true <-> Holds c.
Proof.
  intro c; unfold holds; split.
  - intro H. repeat (apply andb_true_iff in H; destruct H as [H ?]).
    constructor.
    + exact H.
    + apply Z.leb_le; assumption.
    + apply Forall_forall; intros cl Hin. apply call_okb_spec.
      match goal with Hf : forallb (call_okb _) _ = true |- _ => rewrite forallb_forall in Hf; apply Hf; exact Hin end.
    + apply Z.eqb_eq; assumption.
  - intros [H1 H2 H3 H4]. repeat (apply andb_true_iff; split).
    + exact H1.
    + apply Z.leb_le; exact H2.
    + apply forallb_forall; intros cl Hin. apply call_okb_spec.
      rewrite Forall_forall in H3; apply H3; exact Hin.
    + apply Z.eqb_eq; exact H4.
Qed.

(* ------------------------------------------------------------------ *)
(* the code's table *)

Lemma code_wf : wf_from [] stop_order code_sites = true.
Proof. vm_compute; reflexivity. Qed.

Lemma code_wf_callers : wf_callers stop_order code_sites = true.
Proof. vm_compute; reflexivity. Qed.

Lemma code_total_bound : total_bound stop_order code_sites = 16550.
Proof. vm_compute; reflexivity. Qed.

Lemma stop_completes : forall st, incl st code_sites ->
  exists t, run_stop stop_order [] st 0 = Done t (rev stop_order) /\ 0 <= t <= 16550.
Proof.
  intros st Hincl.
  destruct (stop_completes_gen stop_order [] code_sites st 0 code_wf Hincl) as [t [Ht Hb]].
  rewrite code_total_bound in Hb. rewrite app_nil_r in Ht. exists t; split; [exact Ht | lia].
Qed.

Lemma callers_released : forall s, In s caller_sites ->
  releasable (rev stop_order) s = true.
Proof.
  intros s Hin. apply (callers_released_gen stop_order code_sites s code_wf_callers).
  - unfold code_sites; apply in_or_app; right; apply in_or_app; left; exact Hin.
  - unfold caller_sites in Hin; simpl in Hin.
    repeat (destruct Hin as [<-|Hin]; [reflexivity|]); contradiction.
Qed.

(* every scenario's site list is drawn from the table *)
Lemma sites_of_case_incl : forall c, incl (sites_of_case c) code_sites.
Proof.
  intros c s Hin. unfold sites_of_case in Hin.
  repeat (apply in_app_or in Hin; destruct Hin as [Hin|Hin]);
    repeat match goal with
           | H : In _ (if ?b then _ else _) |- _ => destruct b
           end;
    simpl in Hin;
    repeat (destruct Hin as [<-|Hin]; [vm_compute; tauto|]); try contradiction.
Qed.

Lemma nominal_defined : forall c, exists t, nominal_ms c = Some t /\ 0 <= t <= 16550.
Proof.
  intro c. destruct (stop_completes (sites_of_case c) (sites_of_case_incl c)) as [t [Ht Hb]].
  exists t; unfold nominal_ms; rewrite Ht; split; [reflexivity | exact Hb].
Qed.
