(* C11 — lemmas about the keyed layer (ModelK.v): ids are unique, the map
   store never replaces an entry, the map is the set of open subscribers, and
   every keyed run is an index-based run of Model.v. *)
From Coq Require Import ZArith List Bool Arith Lia Permutation.
From Verif Require Import C11.Model C11.Spec C11.Proofs C11.ModelK.
Import ListNotations.

(* ------------------------------------------------------------------ *)
(* Lists, association lists. *)

Lemma NoDup_app_l {A} (a b : list A) : NoDup (a ++ b) -> NoDup a.
Proof.
  induction a as [|x a IH]; cbn; intros H; [constructor|].
  inversion H as [|? ? Hx Hr]; subst. constructor; [|apply IH, Hr].
  intros Hin. apply Hx. apply in_or_app. now left.
Qed.

Lemma remove_nth_mid {A} (l1 l2 : list A) x : remove_nth (length l1) (l1 ++ x :: l2) = l1 ++ l2.
Proof.
  unfold remove_nth. induction l1 as [|y l1 IH]; [reflexivity|].
  cbn [length firstn skipn app]. f_equal. exact IH.
Qed.

Lemma remove_nth_split {A} (l : list A) k x :
  nth_error l k = Some x -> exists l1 l2, l = l1 ++ x :: l2 /\ remove_nth k l = l1 ++ l2.
Proof.
  intros H. destruct (nth_error_split l k H) as (l1 & l2 & -> & Hl).
  exists l1, l2. split; [reflexivity|]. subst k. apply remove_nth_mid.
Qed.

Lemma filter_all {A} (f : A -> bool) l : (forall x, In x l -> f x = true) -> filter f l = l.
Proof.
  induction l as [|x l IH]; intros H; cbn; [reflexivity|].
  rewrite (H x (or_introl eq_refl)). f_equal. apply IH. intros y Hy. apply H. now right.
Qed.

Lemma klookup_in id m j : klookup id m = Some j -> In (id, j) m.
Proof.
  induction m as [|[k i] m IH]; cbn; [discriminate|].
  destruct (Z.eqb k id) eqn:E.
  - intros H. inversion H. apply Z.eqb_eq in E. subst. now left.
  - intros H. right. apply IH, H.
Qed.

Lemma klookup_none id m : klookup id m = None -> forall j, ~ In (id, j) m.
Proof.
  induction m as [|[k i] m IH]; cbn; [intros _ j []|].
  destruct (Z.eqb k id) eqn:E; [discriminate|].
  intros H j [Hj|Hj].
  - inversion Hj. subst. rewrite Z.eqb_refl in E. discriminate.
  - eapply IH; eauto.
Qed.

Lemma kdelete_in id m id' j : In (id', j) (kdelete id m) <-> id' <> id /\ In (id', j) m.
Proof.
  unfold kdelete. rewrite filter_In. cbn [fst]. rewrite negb_true_iff, Z.eqb_neq. tauto.
Qed.

Lemma in_map_intro m id i : In (id, i) m -> in_map m i = true.
Proof.
  intros H. unfold in_map. apply existsb_exists. exists (id, i). split; [exact H|].
  cbn. apply Nat.eqb_refl.
Qed.

(* ------------------------------------------------------------------ *)
(* closed-flags of the subscribers. *)

Definition flags (b : sys) : list bool := map closed (subs b).

Lemma emit_one_closed e b u : closed (emit_one e b u) = closed u.
Proof.
  unfold emit_one. destruct (closed u) eqn:E; [exact E|]. destruct b; cbn; exact E.
Qed.

Lemma forward_closed u : closed (forward u) = closed u.
Proof.
  unfold forward. destruct (closed u) eqn:E; [exact E|].
  destruct (hold u); [exact E|]. destruct (q u); [exact E | reflexivity].
Qed.

Lemma push_closed u : closed (push u) = closed u.
Proof.
  unfold push. destruct (closed u) eqn:E; [exact E|].
  destruct (hold u); [|exact E]. destruct (length (ch u) <? cap); [reflexivity | exact E].
Qed.

Lemma read_closed u : closed (read u) = closed u.
Proof.
  unfold read. destruct (ch u); [|reflexivity].
  destruct (closed u) eqn:E; [reflexivity | exact E].
Qed.

Lemma close_sub_closed n u : closed (close_sub n u) = true.
Proof. unfold close_sub. destruct (closed u) eqn:E; [exact E | reflexivity]. Qed.

Lemma close_sub_id n u : closed u = true -> close_sub n u = u.
Proof. unfold close_sub. intros ->. reflexivity. Qed.

Lemma emit_one_id e b u : closed u = true -> emit_one e b u = u.
Proof. unfold emit_one. intros ->. reflexivity. Qed.

Lemma map_closed_upd_nth l i f :
  (forall u, closed (f u) = closed u) -> map closed (upd_nth l i f) = map closed l.
Proof.
  intros H. revert i. induction l as [|x l IH]; intros i.
  - rewrite upd_nth_nil. reflexivity.
  - destruct i as [|i].
    + rewrite upd_nth_0. cbn. rewrite H. reflexivity.
    + rewrite upd_nth_S. cbn. rewrite IH. reflexivity.
Qed.

Lemma map_closed_emit_mask e l : forall m, map closed (emit_mask e m l) = map closed l.
Proof.
  induction l as [|x l IH]; intros m; cbn; [reflexivity|].
  rewrite emit_one_closed, IH. reflexivity.
Qed.

Lemma flags_close l n : forall i j,
  nth_error (map closed (upd_nth l i (close_sub n))) j = Some false <->
  (j <> i /\ nth_error (map closed l) j = Some false).
Proof.
  induction l as [|x l IH]; intros i j.
  - rewrite upd_nth_nil. cbn. destruct j; cbn; split; [discriminate | tauto | discriminate | tauto].
  - destruct i as [|i].
    + rewrite upd_nth_0. destruct j as [|j]; cbn.
      * rewrite close_sub_closed. split; [discriminate | intros [H _]; congruence].
      * split; [intros H; split; [lia | exact H] | tauto].
    + rewrite upd_nth_S. destruct j as [|j]; cbn.
      * split; [intros H; split; [lia | exact H] | tauto].
      * rewrite IH. split; intros [H1 H2]; (split; [lia | exact H2]).
Qed.

(* ------------------------------------------------------------------ *)
(* The keyed iterations coincide with the index-based ones when every
   subscriber outside the map is closed. *)

Definition covers (km : list (Z * nat)) (i : nat) (l : list sub) : Prop :=
  forall j u, nth_error l j = Some u -> in_map km (i + j) = false -> closed u = true.

Lemma covers_tail km i u l : covers km i (u :: l) -> covers km (S i) l.
Proof.
  intros H j v Hn Hm. apply (H (S j) v); [exact Hn|].
  replace (i + S j) with (S i + j) by lia. exact Hm.
Qed.

Lemma covers_head km i u l : covers km i (u :: l) -> in_map km i = false -> closed u = true.
Proof. intros H Hm. apply (H 0 u); [reflexivity|]. rewrite Nat.add_0_r. exact Hm. Qed.

Lemma emit_keyed_mask e km l : forall m i,
  covers km i l -> emit_keyed e m km i l = emit_mask e m l.
Proof.
  induction l as [|u l IH]; intros m i Hc; cbn [emit_keyed emit_mask]; [reflexivity|].
  rewrite (IH (tl m) (S i) (covers_tail _ _ _ _ Hc)). f_equal.
  destruct (in_map km i) eqn:E; [reflexivity|].
  symmetry. apply emit_one_id. eapply covers_head; eauto.
Qed.

Lemma dropped_keyed_mask km l : forall m i,
  covers km i l -> dropped_keyed m km i l = dropped m l.
Proof.
  induction l as [|u l IH]; intros m i Hc; cbn [dropped_keyed dropped]; [reflexivity|].
  rewrite (IH (tl m) (S i) (covers_tail _ _ _ _ Hc)). f_equal.
  destruct (in_map km i) eqn:E; [reflexivity|].
  rewrite (covers_head _ _ _ _ Hc E). reflexivity.
Qed.

Lemma close_keyed_map n km l : forall i,
  covers km i l -> close_keyed n km i l = map (close_sub n) l.
Proof.
  induction l as [|u l IH]; intros i Hc; cbn [close_keyed map]; [reflexivity|].
  rewrite (IH (S i) (covers_tail _ _ _ _ Hc)). f_equal.
  destruct (in_map km i) eqn:E; [reflexivity|].
  symmetry. apply close_sub_id. eapply covers_head; eauto.
Qed.

Lemma emit_mask_nil e l : emit_mask e [] l = map (emit_one e true) l.
Proof. induction l as [|u l IH]; cbn; [reflexivity|]. rewrite IH. reflexivity. Qed.

(* ------------------------------------------------------------------ *)
(* The invariant of the keyed layer. *)

(* the map is exactly { sids[j] -> j | subscriber j is open } *)
Definition map_rel (s : ksys) : Prop :=
  forall id j, In (id, j) (kmap s) <->
    nth_error (sids s) j = Some id /\ nth_error (flags (base s)) j = Some false.

Definition kinv (s : ksys) : Prop :=
  counter s = ncalls s /\ (0 <= ncalls s)%Z /\
  Forall (fun id => (1 <= id <= counter s)%Z) (sids s ++ pend s) /\
  NoDup (sids s ++ pend s) /\
  length (sids s) = length (subs (base s)) /\
  (ph (base s) = Stopped \/ map_rel s).

Lemma kinit_inv : kinv kinit.
Proof.
  unfold kinv, kinit. cbn [counter ncalls sids pend base kmap app subs init ph length].
  split; [reflexivity|]. split; [lia|]. split; [constructor|]. split; [constructor|].
  split; [reflexivity|].
  right. intros id j. cbn. split; [intros [] | intros [H _]; destruct j; discriminate].
Qed.

Lemma map_rel_covers s :
  length (sids s) = length (subs (base s)) -> map_rel s -> covers (kmap s) 0 (subs (base s)).
Proof.
  intros Hl Hm j u Hn Hi. cbn in Hi.
  destruct (closed u) eqn:Hc; [reflexivity|]. exfalso.
  assert (Hj : j < length (sids s)) by (rewrite Hl; apply nth_error_Some; congruence).
  destruct (nth_error (sids s) j) as [id|] eqn:Hs; [|apply nth_error_None in Hs; lia].
  assert (Hin : In (id, j) (kmap s)).
  { apply Hm. split; [exact Hs|]. unfold flags. rewrite nth_error_map, Hn. cbn. now rewrite Hc. }
  rewrite (in_map_intro _ _ _ Hin) in Hi. discriminate.
Qed.

Lemma nodup_sids s : kinv s -> NoDup (sids s).
Proof. intros (_ & _ & _ & H & _). eapply NoDup_app_l; eauto. Qed.

Lemma sids_inj s i j id :
  kinv s -> nth_error (sids s) i = Some id -> nth_error (sids s) j = Some id -> i = j.
Proof.
  intros Hk Hi Hj. pose proof (nodup_sids s Hk) as Hn.
  rewrite NoDup_nth_error in Hn. apply Hn; [apply nth_error_Some; congruence | congruence].
Qed.

(* a pending id is not the id of any registered subscription, open or not *)
Lemma pending_fresh s k id :
  kinv s -> nth_error (pend s) k = Some id -> ~ In id (sids s).
Proof.
  intros (_ & _ & _ & Hn & _) Hk Hin.
  destruct (nth_error_split _ _ Hk) as (l1 & l2 & Hp & _).
  rewrite Hp in Hn. rewrite app_assoc in Hn. apply NoDup_remove_2 in Hn.
  apply Hn. apply in_or_app. left. apply in_or_app. now left.
Qed.

(* the store m.subscribers[id] = sub never replaces an entry *)
Lemma insert_fresh s k id :
  kinv s -> ph (base s) <> Stopped -> nth_error (pend s) k = Some id ->
  klookup id (kmap s) = None /\ kdelete id (kmap s) = kmap s.
Proof.
  intros Hk Hp Hn. pose proof (pending_fresh s k id Hk Hn) as Hf.
  destruct Hk as (_ & _ & _ & _ & _ & [Hs|Hm]); [contradiction|].
  assert (Hno : forall j, ~ In (id, j) (kmap s)).
  { intros j Hin. apply Hm in Hin. destruct Hin as [Hs _]. apply Hf. eapply nth_error_In; eauto. }
  split.
  - destruct (klookup id (kmap s)) as [j|] eqn:E; [|reflexivity].
    exfalso. eapply Hno. apply klookup_in. exact E.
  - unfold kdelete. apply filter_all. intros [k' j] Hin. cbn.
    apply negb_true_iff, Z.eqb_neq. intros ->. eapply Hno; eauto.
Qed.

(* the map finds exactly the open subscriber that carries the id *)
Lemma lookup_own s i id :
  kinv s -> ph (base s) <> Stopped -> nth_error (sids s) i = Some id ->
  klookup id (kmap s) = (match nth_error (flags (base s)) i with Some false => Some i | _ => None end).
Proof.
  intros Hk Hp Hi. pose proof Hk as (_ & _ & _ & _ & Hl & [Hs|Hm]); [contradiction|].
  destruct (klookup id (kmap s)) as [j|] eqn:E.
  - apply klookup_in in E. apply Hm in E. destruct E as [Hj Hf].
    assert (j = i) by (eapply sids_inj; eauto). subst j. rewrite Hf. reflexivity.
  - destruct (nth_error (flags (base s)) i) as [[|]|] eqn:Hf; try reflexivity.
    exfalso. eapply klookup_none; [exact E|]. apply Hm. split; eauto.
Qed.

(* ------------------------------------------------------------------ *)
(* Refinement: one keyed step is the corresponding index-based step(s). *)

Lemma upd_nth_out (l : list sub) i f : nth_error l i = None -> upd_nth l i f = l.
Proof. intros H. apply upd_nth_id. intros u Hu. congruence. Qed.

Lemma sim_step s a : kinv s -> base (kstep s a) = run (abs_act s a) (base s).
Proof.
  intros Hk. pose proof Hk as (_ & _ & _ & _ & Hl & Hmap).
  destruct a; cbn [kstep abs_act run fold_left with_base base].
  - (* KEmit *)
    cbn [step]. destruct (ph (base s)) eqn:Hp; cbn [base]; try reflexivity;
    (destruct Hmap as [Hs|Hm]; [congruence|]);
    pose proof (map_rel_covers s Hl Hm) as Hc.
    + rewrite (emit_keyed_mask _ _ _ _ _ Hc), emit_mask_nil. reflexivity.
    + rewrite (emit_keyed_mask _ _ _ _ _ Hc), (dropped_keyed_mask _ _ _ _ Hc). reflexivity.
  - reflexivity.
  - (* KSubHandled *)
    destruct (nth_error (pend s) k) as [id|]; cbn [run fold_left]; [|reflexivity].
    cbn [step]. destruct (ph (base s)) eqn:Hp; cbn [base]; reflexivity.
  - reflexivity.
  - (* KCancel *)
    destruct (ph (base s)) eqn:Hp;
    try (cbn [step]; rewrite Hp; reflexivity).
    + destruct (nth_error (sids s) i) as [id|] eqn:Hi.
      * rewrite (lookup_own s i id Hk ltac:(congruence) Hi).
        destruct (nth_error (flags (base s)) i) as [[|]|] eqn:Hf; cbn [base]; try reflexivity.
        -- (* already closed: the index-based cancel is a stutter *)
           cbn [step]. rewrite Hp. rewrite upd_nth_id; [rewrite <- Hp; symmetry; apply sys_eta|].
           intros u Hu. apply close_sub_id. unfold flags in Hf. rewrite nth_error_map, Hu in Hf.
           cbn in Hf. congruence.
        -- unfold flags in Hf. rewrite nth_error_map in Hf.
           assert (Hlt : i < length (subs (base s))) by (rewrite <- Hl; apply nth_error_Some; congruence).
           apply nth_error_Some in Hlt. destruct (nth_error (subs (base s)) i); [discriminate | congruence].
      * cbn [step]. rewrite Hp. rewrite upd_nth_out; [rewrite <- Hp; symmetry; apply sys_eta|].
        apply nth_error_None. rewrite <- Hl. apply nth_error_None. exact Hi.
    + destruct (nth_error (sids s) i) as [id|] eqn:Hi.
      * rewrite (lookup_own s i id Hk ltac:(congruence) Hi).
        destruct (nth_error (flags (base s)) i) as [[|]|] eqn:Hf; cbn [base]; try reflexivity.
        -- cbn [step]. rewrite Hp. rewrite upd_nth_id; [rewrite <- Hp; symmetry; apply sys_eta|].
           intros u Hu. apply close_sub_id. unfold flags in Hf. rewrite nth_error_map, Hu in Hf.
           cbn in Hf. congruence.
        -- unfold flags in Hf. rewrite nth_error_map in Hf.
           assert (Hlt : i < length (subs (base s))) by (rewrite <- Hl; apply nth_error_Some; congruence).
           apply nth_error_Some in Hlt. destruct (nth_error (subs (base s)) i); [discriminate | congruence].
      * cbn [step]. rewrite Hp. rewrite upd_nth_out; [rewrite <- Hp; symmetry; apply sys_eta|].
        apply nth_error_None. rewrite <- Hl. apply nth_error_None. exact Hi.
  - reflexivity.
  - reflexivity.
  - reflexivity.
  - reflexivity.
  - (* KStopEnd *)
    cbn [step]. destruct (ph (base s)) eqn:Hp; cbn [base]; try reflexivity;
    (destruct Hmap as [Hs|Hm]; [congruence|]);
    rewrite (close_keyed_map _ _ _ _ (map_rel_covers s Hl Hm)); reflexivity.
Qed.

(* ------------------------------------------------------------------ *)
(* The invariant is preserved (fewer than 2^64 calls). *)

Lemma ncalls_step s a : ncalls (kstep s a) = (ncalls s + calls [a])%Z.
Proof.
  destruct a; cbn [kstep calls];
  try destruct (ph (base s));
  try destruct (nth_error (pend s) k);
  try (destruct (nth_error (sids s) i) as [id|]; [destruct (klookup id (kmap s))|]);
  cbn [with_base ncalls]; lia.
Qed.

Lemma calls_app a b : calls (a ++ b) = (calls a + calls b)%Z.
Proof.
  induction a as [|x a IH]; cbn [app calls]; [lia|]. destruct x; rewrite IH; lia.
Qed.

Lemma calls_nonneg a : (0 <= calls a)%Z.
Proof. induction a as [|x a IH]; cbn [calls]; [lia|]. destruct x; lia. Qed.

Lemma ncalls_run acts : forall s, ncalls (krun acts s) = (ncalls s + calls acts)%Z.
Proof.
  induction acts as [|a t IH]; intros s; [cbn [krun fold_left calls]; lia|].
  cbn [krun fold_left]. fold (krun t (kstep s a)). rewrite IH, ncalls_step.
  change (a :: t) with ([a] ++ t). rewrite calls_app. lia.
Qed.

(* a step that does not touch the flags, the ids or the map *)
Lemma kinv_same_flags s b' :
  kinv s -> flags b' = flags (base s) -> (ph b' = Stopped \/ ph b' = ph (base s) \/ ph (base s) <> Stopped) ->
  (ph (base s) = Stopped -> ph b' = Stopped) ->
  kinv (with_base s b').
Proof.
  intros (H1 & H2 & H3 & H4 & H5 & H6) Hf _ Hp. unfold kinv. cbn [with_base base sids kmap counter pend ncalls].
  repeat split; try assumption.
  - apply (f_equal (@length bool)) in Hf. unfold flags in Hf. rewrite !map_length in Hf. lia.
  - destruct H6 as [Hs|Hm]; [left; auto|]. right. intros id j. cbn [kmap sids base with_base].
    rewrite Hf. apply Hm.
Qed.

Lemma kstep_inv s a : kinv s -> (ncalls (kstep s a) < two64)%Z -> kinv (kstep s a).
Proof.
  intros Hk Hb. pose proof Hk as (Hc & Hn0 & Hfa & Hnd & Hl & Hmap).
  destruct a; cbn [kstep].
  - (* KEmit *)
    destruct (ph (base s)) eqn:Hp; try exact Hk.
    + apply kinv_same_flags; cbn [ph]; auto; [|congruence].
      unfold flags. cbn [subs]. destruct Hmap as [Hs|Hm]; [congruence|].
      rewrite (emit_keyed_mask _ _ _ _ _ (map_rel_covers s Hl Hm)). apply map_closed_emit_mask.
    + apply kinv_same_flags; cbn [ph]; auto; [| right; right; congruence | congruence].
      unfold flags. cbn [subs]. destruct Hmap as [Hs|Hm]; [congruence|].
      rewrite (emit_keyed_mask _ _ _ _ _ (map_rel_covers s Hl Hm)). apply map_closed_emit_mask.
  - (* KSubCall: the fetch-and-add hands out an id larger than every id in use *)
    cbn [kstep ncalls] in Hb.
    assert (Hw : wrap64 (counter s + 1) = (counter s + 1)%Z).
    { unfold wrap64. apply Z.mod_small. lia. }
    unfold kinv. cbn [base sids kmap counter pend ncalls]. rewrite Hw.
    split; [lia|]. split; [lia|]. split; [|split; [|split; [exact Hl|]]].
    + rewrite app_assoc. apply Forall_app. split.
      * eapply Forall_impl; [|exact Hfa]. cbn. intros x Hx. lia.
      * constructor; [lia | constructor].
    + rewrite app_assoc. eapply Permutation_NoDup; [apply Permutation_cons_append|].
      constructor; [|exact Hnd]. intros Hin. rewrite Forall_forall in Hfa. apply Hfa in Hin. lia.
    + destruct Hmap as [Hs|Hm]; [left; exact Hs | right]. exact Hm.
  - (* KSubHandled *)
    destruct (nth_error (pend s) k) as [id|] eqn:Hpk; [|exact Hk].
    assert (Hreg : forall p, ph (base s) = p -> (p = Running \/ p = Stopping) ->
      kinv (mkK (step (base s) (Register b)) (sids s ++ [id])
                (kinsert id (length (subs (base s))) (kmap s)) (counter s)
                (remove_nth k (pend s)) (ncalls s))).
    { intros p Hp Hal.
      assert (Hst : step (base s) (Register b) =
                    mkSys (subs (base s) ++ [new_sub b (length (emitted (base s)))]) (emitted (base s)) (ph (base s))).
      { cbn [step]. destruct Hal as [-> | ->]; rewrite Hp; reflexivity. }
      assert (Hns : ph (base s) <> Stopped) by (destruct Hal; congruence).
      destruct (insert_fresh s k id Hk Hns Hpk) as (_ & Hdel).
      pose proof (pending_fresh s k id Hk Hpk) as Hfresh.
      destruct (remove_nth_split _ _ _ Hpk) as (l1 & l2 & Hp12 & Hrm).
      unfold kinv. cbn [base sids kmap counter pend ncalls]. rewrite Hst, Hrm. cbn [subs ph].
      split; [exact Hc|]. split; [exact Hn0|]. split; [|split; [|split]].
      - rewrite Hp12 in Hfa. eapply Permutation_Forall; [|exact Hfa].
        rewrite <- app_assoc. apply Permutation_app_head. cbn [app]. symmetry. apply Permutation_middle.
      - rewrite Hp12 in Hnd. eapply Permutation_NoDup; [|exact Hnd].
        rewrite <- app_assoc. apply Permutation_app_head. cbn [app]. symmetry. apply Permutation_middle.
      - rewrite !app_length. cbn. lia.
      - right. destruct Hmap as [Hs|Hm]; [contradiction|].
        intros id' j. unfold kinsert. rewrite Hdel. unfold flags. cbn [kmap sids base subs].
        rewrite map_app. cbn [map new_sub closed].
        split.
        + intros [Heq|Hin].
          * inversion Heq; subst id' j. split.
            -- rewrite nth_error_app2 by lia. rewrite Hl, Nat.sub_diag. reflexivity.
            -- rewrite nth_error_app2 by (rewrite map_length; lia).
               rewrite map_length, Nat.sub_diag. reflexivity.
          * apply Hm in Hin. destruct Hin as [Hs Hf]. split.
            -- rewrite nth_error_app1; [exact Hs | apply nth_error_Some; congruence].
            -- rewrite nth_error_app1; [exact Hf | apply nth_error_Some; unfold flags in Hf; congruence].
        + intros [Hs Hf].
          destruct (lt_eq_lt_dec j (length (sids s))) as [[Hlt|Heq]|Hgt].
          * right. apply Hm. rewrite nth_error_app1 in Hs by exact Hlt.
            rewrite nth_error_app1 in Hf by (rewrite map_length; lia). split; assumption.
          * left. subst j. rewrite nth_error_app2 in Hs by lia. rewrite Nat.sub_diag in Hs.
            cbn in Hs. inversion Hs. rewrite Hl. reflexivity.
          * exfalso. assert (nth_error (sids s ++ [id]) j = None)
              by (apply nth_error_None; rewrite app_length; cbn; lia). congruence. }
    destruct (ph (base s)) eqn:Hp; try exact Hk; eapply Hreg; eauto.
  - (* KSubFailed *)
    destruct (nth_error (pend s) k) as [id|] eqn:Hpk.
    + destruct (remove_nth_split _ _ _ Hpk) as (l1 & l2 & Hp12 & Hrm).
      unfold kinv. cbn [base sids kmap counter pend ncalls]. rewrite Hrm.
      rewrite Hp12 in Hfa, Hnd. rewrite app_assoc in Hfa, Hnd.
      split; [exact Hc|]. split; [exact Hn0|]. split; [|split; [|split; [exact Hl|]]].
      * rewrite app_assoc. apply Forall_app in Hfa. destruct Hfa as [Ha Hb'].
        apply Forall_app. split; [exact Ha | inversion Hb'; assumption].
      * rewrite app_assoc. eapply NoDup_remove_1; eauto.
      * destruct Hmap as [Hs|Hm]; [left; exact Hs | right; exact Hm].
    + assert (Hrm : remove_nth k (pend s) = pend s).
      { unfold remove_nth. apply nth_error_None in Hpk.
        rewrite firstn_all2 by lia. rewrite skipn_all2 by lia. apply app_nil_r. }
      rewrite Hrm. destruct s; exact Hk.
  - (* KCancel *)
    assert (Hcan : forall p, ph (base s) = p -> (p = Running \/ p = Stopping) ->
      kinv (match nth_error (sids s) i with
            | Some id => match klookup id (kmap s) with
                         | Some j => mkK (step (base s) (Cancel j)) (sids s) (kdelete id (kmap s))
                                         (counter s) (pend s) (ncalls s)
                         | None => s
                         end
            | None => s
            end)).
    { intros p Hp Hal.
      assert (Hns : ph (base s) <> Stopped) by (destruct Hal; congruence).
      destruct (nth_error (sids s) i) as [id|] eqn:Hi; [|exact Hk].
      rewrite (lookup_own s i id Hk Hns Hi).
      destruct (nth_error (flags (base s)) i) as [[|]|] eqn:Hf; try exact Hk.
      assert (Hst : step (base s) (Cancel i) =
                    mkSys (upd_nth (subs (base s)) i (close_sub (length (emitted (base s)))))
                          (emitted (base s)) (ph (base s))).
      { cbn [step]. destruct Hal as [-> | ->]; rewrite Hp; reflexivity. }
      unfold kinv. cbn [base sids kmap counter pend ncalls]. rewrite Hst. cbn [subs ph].
      split; [exact Hc|]. split; [exact Hn0|]. split; [exact Hfa|]. split; [exact Hnd|].
      split; [rewrite upd_nth_length; exact Hl|].
      right. destruct Hmap as [Hs|Hm]; [contradiction|].
      intros id' j. cbn [kmap sids base]. unfold flags. cbn [subs].
      rewrite kdelete_in, flags_close. fold (flags (base s)). rewrite (Hm id' j).
      split.
      - intros (Hne & Hs & Hfj). split; [exact Hs|]. split; [|exact Hfj].
        intros ->. congruence.
      - intros (Hs & Hne & Hfj). split; [|split; assumption].
        intros ->. apply Hne. eapply sids_inj; eauto. }
    destruct (ph (base s)) eqn:Hp; try exact Hk; eapply Hcan; eauto.
  - (* KForward *)
    apply kinv_same_flags; auto.
    + unfold flags. cbn [step subs]. apply map_closed_upd_nth, forward_closed.
  - (* KPush *)
    apply kinv_same_flags; auto.
    + unfold flags. cbn [step subs]. apply map_closed_upd_nth, push_closed.
  - (* KRead *)
    apply kinv_same_flags; auto.
    + unfold flags. cbn [step subs]. apply map_closed_upd_nth, read_closed.
  - (* KStopBegin *)
    apply kinv_same_flags; auto.
    + cbn [step]. destruct (ph (base s)); reflexivity.
    + cbn [step]. destruct (ph (base s)) eqn:Hp; cbn [ph]; rewrite ?Hp; auto; right; right; discriminate.
    + cbn [step]. intros Hp. rewrite Hp. exact Hp.
  - (* KStopEnd *)
    destruct (ph (base s)) eqn:Hp; try exact Hk;
    (unfold kinv; cbn [with_base base sids kmap counter pend ncalls subs ph];
     repeat split; try assumption; [|left; reflexivity];
     destruct Hmap as [Hs|Hm]; [congruence|];
     rewrite (close_keyed_map _ _ _ _ (map_rel_covers s Hl Hm)), map_length; exact Hl).
Qed.

Lemma krun_inv acts : forall s, kinv s -> (ncalls (krun acts s) < two64)%Z -> kinv (krun acts s).
Proof.
  induction acts as [|a t IH]; intros s Hk Hb; [exact Hk|].
  cbn [krun fold_left] in *. fold (krun t (kstep s a)) in *.
  apply IH; [|exact Hb]. apply kstep_inv; [exact Hk|].
  rewrite ncalls_run in Hb. pose proof (calls_nonneg t). lia.
Qed.

Definition kreachable (s : ksys) : Prop := exists acts, s = krun acts kinit.

Lemma kreachable_inv acts : (calls acts < two64)%Z -> kinv (krun acts kinit).
Proof.
  intros H. apply krun_inv; [apply kinit_inv|]. rewrite ncalls_run. cbn. exact H.
Qed.

(* ------------------------------------------------------------------ *)
(* Whole runs. *)

Lemma krun_app a b s : krun (a ++ b) s = krun b (krun a s).
Proof. unfold krun. apply fold_left_app. Qed.

Lemma run_app a b s : run (a ++ b) s = run b (run a s).
Proof. unfold run. apply fold_left_app. Qed.

(* the index-based action list of a keyed run (depends on the states passed) *)
Fixpoint abs_acts (acts : list kact) (s : ksys) : list act :=
  match acts with
  | [] => []
  | a :: t => abs_act s a ++ abs_acts t (kstep s a)
  end.

Lemma sim_run acts : forall s, kinv s -> (ncalls (krun acts s) < two64)%Z ->
  base (krun acts s) = run (abs_acts acts s) (base s).
Proof.
  induction acts as [|a t IH]; intros s Hk Hb; [reflexivity|].
  cbn [krun fold_left abs_acts] in *. fold (krun t (kstep s a)) in *.
  rewrite run_app, <- (sim_step s a Hk). apply IH; [|exact Hb].
  apply kstep_inv; [exact Hk|]. rewrite ncalls_run in Hb. pose proof (calls_nonneg t). lia.
Qed.

Theorem keyed_refines acts : (calls acts < two64)%Z ->
  base (krun acts kinit) = run (abs_acts acts kinit) init.
Proof.
  intros H. apply (sim_run acts kinit kinit_inv). rewrite ncalls_run. cbn. exact H.
Qed.

Theorem keyed_reachable acts : (calls acts < two64)%Z -> reachable (base (krun acts kinit)).
Proof. intros H. eexists. apply keyed_refines, H. Qed.

Theorem keyed_step_refines acts a : (calls acts < two64)%Z ->
  base (kstep (krun acts kinit) a) = run (abs_act (krun acts kinit) a) (base (krun acts kinit)).
Proof. intros H. apply sim_step, kreachable_inv, H. Qed.

(* ------------------------------------------------------------------ *)
(* The statements about ids. *)

Definition open_at (s : ksys) (j : nat) : Prop :=
  exists u, nth_error (subs (base s)) j = Some u /\ closed u = false.

Lemma flags_open s j : nth_error (flags (base s)) j = Some false <-> open_at s j.
Proof.
  unfold flags, open_at. rewrite nth_error_map. split.
  - destruct (nth_error (subs (base s)) j) as [u|]; cbn; [|discriminate].
    intros H. exists u. split; [reflexivity | congruence].
  - intros (u & -> & Hc). cbn. now rewrite Hc.
Qed.

Theorem ids_unique acts : (calls acts < two64)%Z ->
  NoDup (sids (krun acts kinit) ++ pend (krun acts kinit)).
Proof. intros H. apply (kreachable_inv acts H). Qed.

Theorem insert_never_overwrites acts k id :
  (calls acts < two64)%Z -> ph (base (krun acts kinit)) <> Stopped ->
  nth_error (pend (krun acts kinit)) k = Some id ->
  klookup id (kmap (krun acts kinit)) = None /\
  kinsert id (length (subs (base (krun acts kinit)))) (kmap (krun acts kinit)) =
    (id, length (subs (base (krun acts kinit)))) :: kmap (krun acts kinit).
Proof.
  intros H Hp Hn. destruct (insert_fresh _ k id (kreachable_inv acts H) Hp Hn) as (H1 & H2).
  split; [exact H1|]. unfold kinsert. rewrite H2. reflexivity.
Qed.

Theorem map_is_open_set acts id j :
  (calls acts < two64)%Z -> ph (base (krun acts kinit)) <> Stopped ->
  (klookup id (kmap (krun acts kinit)) = Some j <->
   nth_error (sids (krun acts kinit)) j = Some id /\ open_at (krun acts kinit) j).
Proof.
  intros H Hp. pose proof (kreachable_inv acts H) as Hk.
  pose proof Hk as (_ & _ & _ & _ & _ & [Hs|Hm]); [contradiction|].
  rewrite <- flags_open. split.
  - intros E. apply klookup_in in E. apply Hm. exact E.
  - intros (Hs & Hf). rewrite (lookup_own _ j id Hk Hp Hs), Hf. reflexivity.
Qed.

(* Cancel of client i reaches subscriber i and nobody else; Stop reaches all *)
Theorem keyed_cancel_own acts i : (calls acts < two64)%Z ->
  base (kstep (krun acts kinit) (KCancel i)) = step (base (krun acts kinit)) (Cancel i).
Proof. intros H. apply (keyed_step_refines acts (KCancel i) H). Qed.

Theorem keyed_emit_all acts e m : (calls acts < two64)%Z ->
  base (kstep (krun acts kinit) (KEmit e m)) = step (base (krun acts kinit)) (Emit e m).
Proof. intros H. apply (keyed_step_refines acts (KEmit e m) H). Qed.

Theorem keyed_stop_all acts : (calls acts < two64)%Z ->
  base (kstep (krun acts kinit) KStopEnd) = step (base (krun acts kinit)) StopEnd.
Proof. intros H. apply (keyed_step_refines acts KStopEnd H). Qed.

Lemma abs_acts_app a : forall b s, abs_acts (a ++ b) s = abs_acts a s ++ abs_acts b (krun a s).
Proof.
  induction a as [|x a IH]; intros b s; [reflexivity|].
  cbn [app abs_acts krun fold_left]. fold (krun a (kstep s x)). rewrite IH, app_assoc. reflexivity.
Qed.

Theorem keyed_stop_closes_all acts :
  (calls acts < two64)%Z -> ph (base (krun acts kinit)) <> Stopped ->
  ph (base (krun (acts ++ [KStopBegin; KStopEnd]) kinit)) = Stopped /\
  Forall (fun u => closed u = true) (subs (base (krun (acts ++ [KStopBegin; KStopEnd]) kinit))).
Proof.
  intros H Hp.
  assert (Hc : (calls (acts ++ [KStopBegin; KStopEnd]) < two64)%Z) by (rewrite calls_app; cbn [calls]; lia).
  rewrite (keyed_refines _ Hc), abs_acts_app, run_app, <- (keyed_refines _ H).
  cbn [abs_acts abs_act app]. apply stop_closes_all. exact Hp.
Qed.
